(* C12 -- replicated rollouts (multi-start, sampling, augmentation) keep their instance.
   This file contains only statements closed by [exact] and their Print Assumptions, plus Examples.
   Vocabulary (Decoding/*.v): a tensor / TensorDict = the list of its rows along the batch axis; after
   unbatchify a value with leading dimensions [B, f1, ..., fm] = a [nest] (nested lists, [Leaf] = a row);
   python ints are Z, factors <= 0 are skipped by the code's loops ([prodpos], [posfactors] = the factors
   actually applied); [None] = the real code raises. *)
From Coq Require Import ZArith List Bool Arith.
From RL4CO Require Import Decoding.Batchify Decoding.Nest Decoding.Layout Decoding.SelectBest Decoding.Starts.
Import ListNotations.

(* ================================================================================================ *)
(** * 1. batchify: row r belongs to instance r mod B *)

Theorem C12_batchify_length :
  forall (X : Type) (shape : list Z) (x : list X),
    length (batchify shape x) = prodpos shape * length x.
Proof. exact (@batchify_length). Qed.
Print Assumptions C12_batchify_length.

(* for every batch size, every nesting of factors (k, (a,s), (r,a,s), ...) and every content *)
Theorem C12_nth_batchify :
  forall (X : Type) (shape : list Z) (x : list X) (r : nat),
    r < prodpos shape * length x ->
    nth_error (batchify shape x) r = nth_error x (r mod length x).
Proof. exact (@nth_batchify). Qed.
Print Assumptions C12_nth_batchify.

Theorem C12_nth_batchify_single :
  forall (X : Type) (k : nat) (x : list X) (r : nat),
    r < k * length x -> nth_error (batchify_single k x) r = nth_error x (r mod length x).
Proof. exact (@nth_error_batchify_single). Qed.
Print Assumptions C12_nth_batchify_single.

(* ================================================================================================ *)
(** * 2. unbatchify: entries, for one factor and for any nesting *)

Theorem C12_unbatchify_single_defined :
  forall (X : Type) (k B : nat) (x : list X),
    k <> 0 -> length x = k * B -> unbatchify_single k x = Some (unb1 k x).
Proof. exact (@unbatchify_single_some). Qed.
Print Assumptions C12_unbatchify_single_defined.

Theorem C12_unbatchify_single_shape :
  forall (X : Type) (k B : nat) (x : list X),
    k <> 0 -> length x = k * B -> Forall (fun r => length r = k) (unb1 k x).
Proof. exact (@unb1_widths). Qed.
Print Assumptions C12_unbatchify_single_shape.

Theorem C12_unbatchify_single_length :
  forall (X : Type) (k B : nat) (x : list X), k <> 0 -> length x = k * B -> length (unb1 k x) = B.
Proof. exact (@unb1_length). Qed.
Print Assumptions C12_unbatchify_single_length.

(* result[b][j] = x[j*B + b], whatever the default of the accessor *)
Theorem C12_unbatchify_entry :
  forall (X : Type) (k B : nat) (x : list X) (b j : nat) (d : X),
    length x = k * B -> b < B -> j < k ->
    nth j (nth b (unb1 k x) []) d = nth (j * B + b) x d.
Proof. exact (@unb1_entry). Qed.
Print Assumptions C12_unbatchify_entry.

(* any nesting: result[b][j1]...[jm] = x[b + B*(j1 + f1*(j2 + f2*(...)))] *)
Theorem C12_unbatchify_entry_nested :
  forall (X : Type) (shape : list Z) (B : nat) (rows : list (nest X)),
    length rows = B * prodpos shape ->
    exists rows', unbatchify shape (Node rows) = Some (Node rows') /\ length rows' = B /\
      forall b js, b < B -> Forall2 lt js (posfactors shape) ->
        get (b :: js) (Node rows') = nth_error rows (b + B * radix js (posfactors shape)).
Proof. exact (@unbatchify_entry). Qed.
Print Assumptions C12_unbatchify_entry_nested.

Theorem C12_unbatchify_raises_when_not_a_multiple :
  forall (X : Type) (k : nat) (rows : list (nest X)),
    k <> 0 -> length rows mod k <> 0 -> unbatchify [Z.of_nat k] (Node rows) = None.
Proof. exact (@unbatchify_raises). Qed.
Print Assumptions C12_unbatchify_raises_when_not_a_multiple.

(* ================================================================================================ *)
(** * 3. Round trips, both directions, any nesting *)

(* expansion followed by its inverse: every instance gets the constant block of its own copies *)
Theorem C12_unbatchify_batchify :
  forall (X : Type) (shape : list Z) (rows : list (nest X)),
    unbatchify shape (Node (batchify shape rows)) =
    Some (Node (map (replicate_under (posfactors shape)) rows)).
Proof. exact (@unbatchify_batchify). Qed.
Print Assumptions C12_unbatchify_batchify.

Theorem C12_unbatchify_batchify_single :
  forall (X : Type) (k : nat) (x : list X),
    k <> 0 -> unb1 k (batchify_single k x) = map (fun v => repeat v k) x.
Proof. exact (@unb1_batchify_single). Qed.
Print Assumptions C12_unbatchify_batchify_single.

(* arbitrary content: regrouping ("b f1 .. fm -> (fm .. f1 b)") the unbatchified value gives the rows back *)
Theorem C12_rebatchify_unbatchify :
  forall (X : Type) (shape : list Z) (B : nat) (rows : list (nest X)),
    length rows = B * prodpos shape ->
    exists u, unbatchify shape (Node rows) = Some u /\ rebatchify_nat (posfactors shape) u = Node rows.
Proof. exact (@rebatchify_unbatchify). Qed.
Print Assumptions C12_rebatchify_unbatchify.

(* ... and every value of dimensions B :: factors is the unbatchify of its regrouping *)
Theorem C12_unbatchify_rebatchify :
  forall (X : Type) (shape : list Z) (B : nat) (u : nest X),
    has_dims (B :: posfactors shape) u ->
    unbatchify shape (rebatchify_nat (posfactors shape) u) = Some u.
Proof. exact (@unbatchify_rebatchify). Qed.
Print Assumptions C12_unbatchify_rebatchify.

(* one factor, on plain lists: the decoder's  rearrange "b s l -> (s b) l"  undoes unbatchify(td, s) *)
Theorem C12_regroup_roundtrip :
  forall (X : Type) (k B : nat) (x : list X),
    k <> 0 -> length x = k * B -> regroup k (unb1 k x) = x.
Proof. exact (@regroup_unb1). Qed.
Print Assumptions C12_regroup_roundtrip.

Theorem C12_unbatchify_regroup :
  forall (X : Type) (k : nat) (y : list (list X)),
    k <> 0 -> Forall (fun r => length r = k) y -> unb1 k (regroup k y) = y.
Proof. exact (@unb1_regroup). Qed.
Print Assumptions C12_unbatchify_regroup.

(* AttentionModelDecoder.forward: whatever the decoder computes from instance b's cache and the state in
   td[b][j], after the regrouping row r holds the value for its own state and its own instance r mod B *)
Theorem C12_am_decoder_regrouping :
  forall (X Y : Type) (h : nat -> X -> Y) (k B : nat) (x : list X) (r : nat) (dx : X) (dy : Y),
    k <> 0 -> length x = k * B -> r < k * B ->
    nth r (regroup k (map (fun br => map (h (fst br)) (snd br)) (combine (seq 0 B) (unb1 k x)))) dy =
    h (r mod B) (nth r x dx).
Proof. exact am_decoder_regrouping. Qed.
Print Assumptions C12_am_decoder_regrouping.

(* ================================================================================================ *)
(** * 4. Replica coordinates: POMO, SymNCO, ActiveSearch *)

(* the ghost tags do not change the model: forgetting them gives the plain replication stages *)
Theorem C12_tagged_stages_are_batchify :
  forall (X : Type) (gs : list nat) (x : list X),
    map fst (expand_stages gs x) = fold_left (fun acc g => batchify_single g acc) gs x.
Proof. exact (@expand_stages_untag). Qed.
Print Assumptions C12_tagged_stages_are_batchify.

(* any number of stages g1 (first applied) .. gm: unbatchify (g1, .., gm) puts at [b][j1]..[jm] the row of
   instance b that is copy j1 of stage 1, ..., copy jm of stage m *)
Theorem C12_unbatchify_recovers_replica_coordinates :
  forall (X : Type) (gs : list nat) (x : list X),
    Forall (fun g => g <> 0) gs ->
    exists u, unbatchify_nat gs (rows_of (expand_stages gs x)) = Some u /\
      forall b js, b < length x -> Forall2 lt js gs ->
        get (b :: js) u = option_map (fun v => Leaf (v, rev js)) (nth_error x b).
Proof. exact (@unbatchify_stages_entry). Qed.
Print Assumptions C12_unbatchify_recovers_replica_coordinates.

(* POMO: augment (a copies) then multistart (s copies); unbatchify(out, (n_aug, n_start))[b][p][j] is the
   rollout of instance b under augmentation p from start j (tags: last stage first) *)
Theorem C12_pomo_regrouping :
  forall (X : Type) (a s : nat) (x : list X),
    a <> 0 -> s <> 0 ->
    exists u, unbatchify [Z.of_nat a; Z.of_nat s] (rows_of (expand_stages [a; s] x)) = Some u /\
      forall b p j, b < length x -> p < a -> j < s ->
        get [b; p; j] u = option_map (fun v => Leaf (v, [j; p])) (nth_error x b).
Proof. exact (@pomo_regrouping). Qed.
Print Assumptions C12_pomo_regrouping.

(* SymNCO: same rows, unbatchify(out, (n_start, n_aug)).  Entry [b][j'][p'] is a rollout of instance b (the
   instance is kept), namely replica number q = j' + n_start*p': start q / n_aug, augmentation q mod n_aug. *)
Theorem C12_symnco_regrouping :
  forall (X : Type) (a s : nat) (x : list X),
    a <> 0 -> s <> 0 ->
    exists u, unbatchify [Z.of_nat s; Z.of_nat a] (rows_of (expand_stages [a; s] x)) = Some u /\
      forall b j' p', b < length x -> j' < s -> p' < a ->
        get [b; j'; p'] u =
        option_map (fun v => Leaf (v, [(j' + s * p') / a; (j' + s * p') mod a])) (nth_error x b).
Proof. exact (@symnco_regrouping). Qed.
Print Assumptions C12_symnco_regrouping.

(* with n_start = n_aug = n the two inner axes are exactly transposed *)
Theorem C12_symnco_axes_when_square :
  forall n j' p' : nat, j' < n -> p' < n -> (j' + n * p') / n = p' /\ (j' + n * p') mod n = j'.
Proof. exact symnco_axes_when_square. Qed.
Print Assumptions C12_symnco_axes_when_square.

Theorem C12_active_search_regrouping :
  forall (X : Type) (nr a s : nat) (x : list X),
    nr <> 0 -> a <> 0 -> s <> 0 ->
    exists u, unbatchify [Z.of_nat nr; Z.of_nat a; Z.of_nat s] (rows_of (expand_stages [nr; a; s] x)) = Some u /\
      forall b q p j, b < length x -> q < nr -> p < a -> j < s ->
        get [b; q; p; j] u = option_map (fun v => Leaf (v, [j; p; q])) (nth_error x b).
Proof. exact (@active_search_regrouping). Qed.
Print Assumptions C12_active_search_regrouping.

(* ================================================================================================ *)
(** * 5. unbatchify_and_gather and _select_best *)

Theorem C12_unbatchify_and_gather :
  forall (Y : Type) (x : list Y) (ids : list nat) (k B : nat),
    k <> 0 -> length x = k * B -> length ids = B -> Forall (fun i => i < k) ids ->
    exists out, unbatchify_and_gather (rows_of x) (Node (map Leaf ids)) (Z.of_nat k) = Some (Node out) /\
      length out = B /\
      forall b, b < B -> nth_error out b = option_map Leaf (nth_error x (nth b ids 0 * B + b)).
Proof. exact unbatchify_and_gather_rows. Qed.
Print Assumptions C12_unbatchify_and_gather.

(* for every instance b the returned actions / log-probabilities / state are those of ONE row r, and r is
   the best (max reward, first on ties) among b's own k rollouts r' = b, b+B, b+2B, ... *)
Theorem C12_select_best_correct :
  forall (A L T : Type) (k B : nat) (rewards : list Z) (actions : list A) (logprobs : list L) (td : list T),
    k <> 0 -> length rewards = k * B -> length actions = k * B -> length logprobs = k * B -> length td = k * B ->
    exists ol oa ot,
      select_best k rewards actions logprobs td = Some (Node ol, Node oa, Node ot) /\
      length ol = B /\ length oa = B /\ length ot = B /\
      forall b, b < B -> exists r,
        (r < k * B /\ r mod B = b /\
         (forall r', r' < k * B -> r' mod B = b -> (nth r' rewards 0 <= nth r rewards 0)%Z) /\
         (forall r', r' < r -> r' mod B = b -> (nth r' rewards 0 < nth r rewards 0)%Z)) /\
        nth_error oa b = option_map Leaf (nth_error actions r) /\
        nth_error ol b = option_map Leaf (nth_error logprobs r) /\
        nth_error ot b = option_map Leaf (nth_error td r).
Proof. exact select_best_correct. Qed.
Print Assumptions C12_select_best_correct.

Theorem C12_best_row_unique :
  forall (B k : nat) (rewards : list Z) (b r1 r2 : nat),
    is_best B k rewards b r1 -> is_best B k rewards b r2 -> r1 = r2.
Proof. exact is_best_unique. Qed.
Print Assumptions C12_best_row_unique.

(* ================================================================================================ *)
(** * 6. Forced start actions *)

(* starts_layout: row r of the selection (instance r mod B by C12_nth_batchify, replica r / B) holds
   candidate number (r / B) mod num_loc, shifted by 1 in environments with a depot *)
Theorem C12_starts_layout :
  forall (offset num_loc k B : nat) (sel : list nat),
    num_loc <> 0 -> starts_mod offset (Z.of_nat num_loc) k B = Some sel ->
    length sel = k * B /\ forall r, r < k * B -> nth r sel 0 = (r / B) mod num_loc + offset.
Proof. exact starts_mod_layout. Qed.
Print Assumptions C12_starts_layout.

Theorem C12_starts_range :
  forall (offset num_loc k B : nat) (sel : list nat),
    num_loc <> 0 -> starts_mod offset (Z.of_nat num_loc) k B = Some sel ->
    forall r, r < k * B -> offset <= nth r sel 0 < num_loc + offset.
Proof. exact starts_mod_range. Qed.
Print Assumptions C12_starts_range.

(* starts_distinct: pairwise distinct per instance whenever k <= number of candidates of the rule *)
Theorem C12_starts_distinct :
  forall (offset num_loc k B : nat) (sel : list nat),
    num_loc <> 0 -> starts_mod offset (Z.of_nat num_loc) k B = Some sel -> k <= num_loc ->
    forall r1 r2, r1 < k * B -> r2 < k * B -> r1 mod B = r2 mod B -> r1 <> r2 ->
      nth r1 sel 0 <> nth r2 sel 0.
Proof. exact starts_mod_distinct. Qed.
Print Assumptions C12_starts_distinct.

(* feasibility relative to the reset mask: the rule forces exactly the first min(k, num_loc) candidates *)
Theorem C12_starts_feasible :
  forall (offset num_loc k B : nat) (sel : list nat),
    num_loc <> 0 -> starts_mod offset (Z.of_nat num_loc) k B = Some sel ->
    forall masks : list (list bool),
      length masks = B ->
      (forall m c, In m masks -> c < Nat.min k num_loc -> nth (c + offset) m false = true) ->
      forall r, r < k * B -> nth (nth r sel 0) (nth (r mod B) masks []) false = true.
Proof. exact starts_mod_feasible. Qed.
Print Assumptions C12_starts_feasible.

Theorem C12_starts_forces_first_candidates :
  forall (offset num_loc k B : nat) (sel : list nat),
    num_loc <> 0 -> starts_mod offset (Z.of_nat num_loc) k B = Some sel ->
    forall c b, c < Nat.min k num_loc -> b < B ->
      nth (c * B + b) sel 0 = c + offset /\ c * B + b < k * B /\ (c * B + b) mod B = b.
Proof. exact starts_mod_forces. Qed.
Print Assumptions C12_starts_forces_first_candidates.

(* every environment's rule, when it does not raise and OP does not resample, is the rule above with the
   environment's modulus (PDP: pickups; MTVRP: customers of the instance; FLP/MCP: mask width; all others:
   env.generator.num_loc, 0xFFFFFFFF when the generator has none) and offset *)
Theorem C12_env_rule :
  forall (name : env_name) (gen : option nat) (N k : nat) (masks : list (list bool)) (draw : nat -> nat -> nat),
    name <> Ejssp -> name <> Efjsp -> (name = Eop -> op_needs_resample k masks = false) ->
    env_select_start_nodes name gen N k masks draw =
    starts_mod (env_offset name) (env_modulus name gen N) k (length masks).
Proof. exact env_select_deterministic. Qed.
Print Assumptions C12_env_rule.

Theorem C12_default_num_starts_pdp :
  forall N : nat, 1 <= N -> (env_get_num_starts Epdp N <= env_modulus Epdp None N)%Z.
Proof. exact default_k_le_modulus_pdp. Qed.
Print Assumptions C12_default_num_starts_pdp.

Theorem C12_default_num_starts_flp_mcp :
  forall N : nat,
    (env_get_num_starts Eflp N <= env_modulus Eflp None N)%Z /\ (env_get_num_starts Emcp N <= env_modulus Emcp None N)%Z.
Proof. exact default_k_le_modulus_graph. Qed.
Print Assumptions C12_default_num_starts_flp_mcp.

Theorem C12_default_num_starts_depot_envs_matching_generator :
  forall N : nat, 1 <= N -> (env_get_num_starts Ecvrp N <= env_modulus Ecvrp (Some (N - 1)%nat) N)%Z.
Proof. exact default_k_le_modulus_generic_depot. Qed.
Print Assumptions C12_default_num_starts_depot_envs_matching_generator.

Theorem C12_default_num_starts_tsp_matching_generator :
  forall N : nat, (env_get_num_starts Etsp N <= env_modulus Etsp (Some N) N)%Z.
Proof. exact default_k_le_modulus_tsp. Qed.
Print Assumptions C12_default_num_starts_tsp_matching_generator.

(* MTVRP's default k = N counts the depot: the last replica repeats the first start (fewer than k
   candidates exist, so no claim of the property is at stake) *)
Theorem C12_mtvrp_default_repeats_first_start :
  forall (N B : nat) (sel : list nat), 2 <= N -> B <> 0 ->
    env_get_num_starts Emtvrp N = Z.of_nat N ->
    starts_mod 1 (Z.of_nat (N - 1)) N B = Some sel ->
    nth ((N - 1) * B) sel 0 = nth 0 sel 0.
Proof. exact mtvrp_default_repeats_first_start. Qed.
Print Assumptions C12_mtvrp_default_repeats_first_start.

(* OP, resampling branch (oracle = torch.multinomial with its contract) *)
Theorem C12_op_resample_layout :
  forall (k : nat) (masks : list (list bool)) (draw : nat -> nat -> nat) (sel : list nat),
    op_resample k masks draw = Some sel ->
    length sel = k * length masks /\
    forall r, r < k * length masks -> nth r sel 0 = draw (r mod length masks) (r / length masks) + 1.
Proof. exact op_resample_layout. Qed.
Print Assumptions C12_op_resample_layout.

Theorem C12_op_resample_feasible :
  forall (k : nat) (masks : list (list bool)) (draw : nat -> nat -> nat) (sel : list nat),
    draw_positive k (map (@tl bool) masks) draw ->
    op_resample k masks draw = Some sel ->
    forall r, r < k * length masks -> nth (nth r sel 0) (nth (r mod length masks) masks []) false = true.
Proof. exact op_resample_feasible. Qed.
Print Assumptions C12_op_resample_feasible.

(* OP with the default k = get_num_starts = N - 1 = generator.num_loc: every forced start is feasible *)
Theorem C12_op_default_feasible :
  forall (N : nat) (masks : list (list bool)) (draw : nat -> nat -> nat) (sel : list nat),
    2 <= N -> Forall (fun m => length m = N) masks ->
    draw_positive (N - 1) (map (@tl bool) masks) draw ->
    ops_select_start_nodes Eop (Some (N - 1)) (N - 1) masks draw = Some sel ->
    forall r, r < (N - 1) * length masks -> nth (nth r sel 0) (nth (r mod length masks) masks []) false = true.
Proof. exact op_default_feasible. Qed.
Print Assumptions C12_op_default_feasible.

(* sample_n_random_actions (FJSP's rule; oracle with the contract of torch.multinomial) *)
Theorem C12_sample_n_layout :
  forall (n : nat) (masks : list (list bool)) (draw : nat -> nat -> nat) (sel : list nat),
    sample_n_random_actions n masks draw = Some sel ->
    length sel = n * length masks /\
    forall r, r < n * length masks -> nth r sel 0 = draw (r mod length masks) (r / length masks).
Proof. exact sample_n_layout. Qed.
Print Assumptions C12_sample_n_layout.

Theorem C12_sample_n_feasible :
  forall (n : nat) (masks : list (list bool)) (draw : nat -> nat -> nat) (sel : list nat),
    draw_positive n masks draw -> sample_n_random_actions n masks draw = Some sel ->
    forall r, r < n * length masks -> nth (nth r sel 0) (nth (r mod length masks) masks []) false = true.
Proof. exact sample_n_feasible. Qed.
Print Assumptions C12_sample_n_feasible.

Theorem C12_sample_n_distinct :
  forall (n : nat) (masks : list (list bool)) (draw : nat -> nat -> nat) (sel : list nat),
    sample_replace n masks = false -> draw_distinct n (length masks) draw ->
    sample_n_random_actions n masks draw = Some sel ->
    forall r1 r2, r1 < n * length masks -> r2 < n * length masks ->
      r1 mod length masks = r2 mod length masks -> r1 <> r2 -> nth r1 sel 0 <> nth r2 sel 0.
Proof. exact sample_n_distinct. Qed.
Print Assumptions C12_sample_n_distinct.

(* pre_decoder_hook: row r handed to env.step is instance r mod B with the start selected for row r *)
Theorem C12_pre_decoder_hook_row :
  forall (T : Type) (k : nat) (select : nat -> option (list nat)) (td : list T) (sel : list nat),
    k <> 0 -> select k = Some sel -> length sel = k * length td ->
    exists rows, pre_decoder_hook_rows true (Z.of_nat k) select td = Some rows /\ length rows = k * length td /\
      forall r, r < k * length td ->
        nth_error rows r = option_map (fun t => (t, Some (nth r sel 0))) (nth_error td (r mod length td)).
Proof. exact pre_decoder_hook_row. Qed.
Print Assumptions C12_pre_decoder_hook_row.

Theorem C12_pre_decoder_hook_multisample :
  forall (T : Type) (ns : Z) (select : nat -> option (list nat)) (td : list T),
    (1 <= ns)%Z ->
    pre_decoder_hook_rows false ns select td = Some (map (fun t => (t, None)) (batchify [ns] td)).
Proof. exact pre_decoder_hook_multisample. Qed.
Print Assumptions C12_pre_decoder_hook_multisample.

(* ================================================================================================ *)
(** * 7. Refuted on the code as it is (each witness is reproduced on the real code by vt/props/c12.py) *)

(* OP, k < n: k feasible starts exist, yet an infeasible node is forced *)
Theorem C12_op_forced_start_infeasible_refuted :
  exists (num_loc k : nat) (masks : list (list bool)) (draw : nat -> nat -> nat) (sel : list nat) (r : nat),
    draw_positive k (map (@tl bool) masks) draw /\
    Forall (fun m => k <= count_true (tl m)) masks /\
    ops_select_start_nodes Eop (Some num_loc) k masks draw = Some sel /\
    r < k * length masks /\
    nth (nth r sel 0) (nth (r mod length masks) masks []) false = false.
Proof. exact op_forced_start_infeasible_refuted. Qed.
Print Assumptions C12_op_forced_start_infeasible_refuted.

(* OP: a batch-mate with fewer than k feasible nodes makes every row resample WITH replacement *)
Theorem C12_op_resample_duplicates_refuted :
  exists (num_loc k : nat) (masks : list (list bool)) (draw : nat -> nat -> nat) (sel : list nat),
    draw_positive k (map (@tl bool) masks) draw /\
    k <= count_true (tl (nth 0 masks [])) /\
    ops_select_start_nodes Eop (Some num_loc) k masks draw = Some sel /\
    starts_of sel (length masks) k 0 = [1; 1].
Proof. exact op_resample_duplicates_refuted. Qed.
Print Assumptions C12_op_resample_duplicates_refuted.

(* generic rule: the modulus is env.generator.num_loc, not the instance's size *)
Theorem C12_generic_num_loc_mismatch_refuted :
  exists (gen_num_loc N k : nat) (masks : list (list bool)) (sel : list nat),
    Forall (fun m => length m = N) masks /\
    Z.of_nat k = env_get_num_starts Ecvrp N /\
    Forall (fun m => k <= count_true (tl m)) masks /\
    env_select_start_nodes Ecvrp (Some gen_num_loc) N k masks (fun _ _ => 0) = Some sel /\
    starts_of sel (length masks) k 0 = [1; 2; 1; 2].
Proof. exact generic_num_loc_mismatch_refuted. Qed.
Print Assumptions C12_generic_num_loc_mismatch_refuted.

Theorem C12_tsp_num_loc_mismatch_refuted :
  exists (gen_num_loc N k : nat) (masks : list (list bool)) (sel : list nat),
    Forall (fun m => length m = N) masks /\ Z.of_nat k = env_get_num_starts Etsp N /\
    Forall (fun m => k <= count_true m) masks /\
    env_select_start_nodes Etsp (Some gen_num_loc) N k masks (fun _ _ => 0) = Some sel /\
    starts_of sel (length masks) k 0 = [0; 1; 0; 1].
Proof. exact tsp_num_loc_mismatch_refuted. Qed.
Print Assumptions C12_tsp_num_loc_mismatch_refuted.

(* generic rule ignores the reset mask (SVRP masks nodes the first technician cannot serve) *)
Theorem C12_generic_ignores_reset_mask_refuted :
  exists (gen_num_loc k : nat) (masks : list (list bool)) (sel : list nat) (r : nat),
    Forall (fun m => k <= count_true (tl m)) masks /\
    env_select_start_nodes Esvrp (Some gen_num_loc) 4 k masks (fun _ _ => 0) = Some sel /\
    r < k * length masks /\
    nth (nth r sel 0) (nth (r mod length masks) masks []) false = false.
Proof. exact generic_ignores_reset_mask_refuted. Qed.
Print Assumptions C12_generic_ignores_reset_mask_refuted.

(* ================================================================================================ *)
(** * Non-vacuity *)

(* B = 2, shape (2, 0, 3): 12 rows, row 7 holds instance 7 mod 2 = 1 *)
Example C12_ex_batchify : nth_error (batchify [2%Z; 0%Z; 3%Z] [10; 11]) 7 = Some 11.
Proof. reflexivity. Qed.
Example C12_ex_unbatchify :
  option_map (@flat nat) (unbatchify [2%Z; 3%Z] (rows_of (seq 0 12))) = Some [0; 4; 8; 2; 6; 10; 1; 5; 9; 3; 7; 11].
Proof. reflexivity. Qed.
Example C12_ex_select_best :
  select_best 3 [5; 9; 7; 1; 7; 9]%Z [100; 101; 102; 103; 104; 105] [200; 201; 202; 203; 204; 205] [0; 1; 2; 3; 4; 5]
  = Some (Node [Leaf 202; Leaf 201], Node [Leaf 102; Leaf 101], Node [Leaf 2; Leaf 1]).
Proof. reflexivity. Qed.
Example C12_ex_starts :
  env_select_start_nodes Ecvrp (Some 3) 4 3 [[false; true; true; true]; [false; true; true; true]] (fun _ _ => 0)
  = Some [1; 1; 2; 2; 3; 3].
Proof. reflexivity. Qed.
Example C12_ex_pomo :
  match unbatchify [2%Z; 3%Z] (rows_of (expand_stages [2; 3] [10; 20])) with
  | Some u => get [1; 1; 2] u | None => None end = Some (Leaf (20, [2; 1])).
Proof. reflexivity. Qed.

From RL4CO Require Import Decoding.StartsSample.

(* ================================================================ additions (mutation sweep 2): sample_n_random_actions counts the
   admissible actions for its replacement test WITHOUT column 0 but draws among all admissible columns *)
(* the code draws without replacement iff every instance has n admissible actions among columns 1.. *)
Theorem C12_sample_replace_false_iff :
  forall (n : nat) (masks : list (list bool)),
  sample_replace n masks = false <-> (forall m : list bool, In m masks -> n <= count_true (tl m)).
Proof. exact sample_replace_false_iff. Qed.
Print Assumptions C12_sample_replace_false_iff.

(* column 0 admissible and exactly n admissible actions in some instance: with replacement *)
Theorem C12_sample_replace_col0_boundary :
  forall (n : nat) (masks : list (list bool)) (m : list bool),
  In m masks -> hd false m = true -> count_true m = n -> sample_replace n masks = true.
Proof. exact sample_replace_col0_boundary. Qed.
Print Assumptions C12_sample_replace_col0_boundary.

(* REFUTED on a single-row batch: n = 3 admissible actions (column 0 among them), a draw within the contract of torch.multinomial(replacement=True) repeats a start *)
Theorem C12_sample_n_col0_duplicates_refuted :
  exists (n : nat) (masks : list (list bool)) (draw : nat -> nat -> nat) (sel : list nat),
    Forall (fun m : list bool => n <= count_true m) masks /\
    draw_positive n masks draw /\
    sample_replace n masks = true /\
    sample_n_random_actions n masks draw = Some sel /\ starts_of sel (length masks) n 0 = [2; 0; 2].
Proof. exact sample_n_col0_duplicates_refuted. Qed.
Print Assumptions C12_sample_n_col0_duplicates_refuted.

