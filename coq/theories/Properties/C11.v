(* C11 -- returned log-likelihoods are those of the returned actions; evaluate round trip; PPO ratio one.
   This file contains only statements closed by [exact] and their Print Assumptions (plus Examples).

   Reading guide (model: Decoding/DecodeLoop.v, which follows ConstructivePolicy.forward, DecodingStrategy.
   pre_decoder_hook / step / post_decoder_hook, Greedy / Sampling / Evaluate, _select_best, get_log_likelihood and
   calculate_entropy line by line, per batch row, for a whole batch).

     K : ofield, L, lleb, e          numbers, logits and weights of C10 (Decoding/ProcessLogits.v)
     clip tmp top_p top_k mask_logits  the strategy's process_logits configuration
     E : Env                          ANY environment (Base/EnvSig.v): reset / step / mask / done / stepok
     Hd, dec : Hd -> inst E -> st E -> list L * list bool
                                      the network, uninterpreted: (hidden of the row, state) |-> (logits, mask).
                                      ASSUMPTION (K3, not provable here): the real network is such a function, the
                                      same in both passes (no dropout, no batch statistics).
     rew, flagf                       env.get_reward per row; td.get("mask") of the final td per row (None = absent)
     (G, g0, gadd), lg : K -> G       the log domain; instances (Qc, 1, *, id) [executable] and (R, 0, +, ln)

     forward K L lleb e clip tmp top_p top_k mask_logits E Hd dec rew m sa ms S sb fuel cfgs starts ors
                                      = Some rows  (None = post_decoder_hook raises)
        m    : Greedy | Sampling | Evaluate      sa : store_all_logp      ms : self.multistart
        S    : self.num_starts (0 unless multistart / multisample)        sb : select_best
        fuel : max_steps + 1          cfgs : (hidden, instance) per batch row
        starts : env.select_start_nodes (per expanded row)
        ors  : per expanded row, the draws of torch.multinomial (Sampling) or the given actions (Evaluate)
     a returned row  cr = (c, r):  rc_h c, rc_i c  hidden and instance;  r_acts r  returned actions;  r_s r  final
        state;  r_buf r  its column of the stacked log-prob buffers (stored as probabilities exp(logprob)).
     out_ll_steps / out_ll / out_ll_ok / out_reward / out_entropy / out_vectors : the output dictionary of the row
        (return_sum_log_likelihood False / True, "the logprobs > -1000 assertion passes", reward, entropy,
        per-step probability vectors).
     probs h i s       : the masked normalised distribution of C10 in state s   (process_logits of dec h i s)
     spec_ps h i s acts: [ probs(s_t)[a_t] ]_t  with s_0 = s, s_{t+1} = step s_t a_t     -- defined from the actions alone
     flagz fl ps       : ps with the entries whose td["mask"] flag is False replaced by f1 (log-prob 0)
     forced_p          : the entry gathered from the buffer of the forced multistart step (= f1, C11_forced_step_is_one)
     Inv sa mse (c, r) : r_s r, r_buf r are the specification's functions of (rc_h c, rc_i c, r_acts r)
                         (mse = multistart in effect: first action forced from reset). *)
From Coq Require Import List Arith ZArith QArith Qcanon Reals Bool.
From RL4CO Require Import Base.OField Base.OFieldQc Base.OFieldR Base.EnvSig Decoding.ProcessLogits Decoding.PLInst
                          Decoding.DecodeLoop Decoding.DecodeLoopInst.
Import ListNotations.
Local Open Scope nat_scope.

(* every row returned by a pass -- any mode, any batch, rows finishing at different times, multistart, select_best --
   is the specification's function of the row's OWN returned actions (state, buffers); in particular select_best returns
   actions, log-probs and state of one and the same rollout *)
Theorem C11_rows_are_functions_of_their_actions :
  forall (K : ofield) (L : Type) (lleb : L -> L -> bool) (e : L -> K) (clip tmp : L -> L) 
    (top_p : K) (top_k : nat) (mask_logits : bool) (E : Env) (Hd : Type)
    (dec : Hd -> inst E -> st E -> list L * list bool) (rew : inst E -> st E -> list nat -> Z) 
    (m : mode) (sa ms : bool) (S : nat) (sb : bool) (fuel : nat) (cfgs : list (Hd * inst E)) 
    (starts : list nat) (ors : list (list nat)) (outs : list (brow K E Hd)),
  forward K L lleb e clip tmp top_p top_k mask_logits E Hd dec rew m sa ms S sb fuel cfgs starts ors = Some outs ->
  Forall (Inv K L lleb e clip tmp top_p top_k mask_logits E Hd dec sa (ms_eff ms S)) outs.
Proof. exact forward_rows_spec. Qed.
Print Assumptions C11_rows_are_functions_of_their_actions.

(* ll_is_sum, plain passes (greedy / sampling / evaluate / multisample, with or without select_best):
   returned LL = sum over steps of lg of the probability, under the masked normalised step distribution of the state
   reached by the previous returned actions, of the returned action; flagged-out steps enter as lg f1 *)
Theorem C11_ll_is_sum :
  forall (K : ofield) (L : Type) (lleb : L -> L -> bool) (e : L -> K) (clip tmp : L -> L) 
    (top_p : K) (top_k : nat) (mask_logits : bool) (E : Env) (Hd : Type)
    (dec : Hd -> inst E -> st E -> list L * list bool) (rew : inst E -> st E -> list nat -> Z)
    (flagf : inst E -> st E -> option (list bool)) (G : Type) (g0 : G) (gadd : G -> G -> G) 
    (lg : K -> G) (m : mode) (sa : bool) (S : nat) (sb : bool) (fuel : nat) (cfgs : list (Hd * inst E))
    (starts : list nat) (ors : list (list nat)) (outs : list (brow K E Hd)),
  forward K L lleb e clip tmp top_p top_k mask_logits E Hd dec rew m sa false S sb fuel cfgs starts ors =
  Some outs ->
  forall cr : brow K E Hd,
  In cr outs ->
  let c := fst cr in
  let acts := r_acts (snd cr) in
  r_s (snd cr) = run_from (rc_i c) (reset E (rc_i c)) acts /\
  out_ll_steps K E Hd flagf G lg cr =
  map lg
    (flagz K (out_flags K E Hd flagf cr)
       (spec_ps K L lleb e clip tmp top_p top_k mask_logits E Hd dec (rc_h c) (rc_i c) (reset E (rc_i c)) acts)) /\
  out_ll K E Hd flagf G g0 gadd lg cr =
  gsum G g0 gadd
    (map lg
       (flagz K (out_flags K E Hd flagf cr)
          (spec_ps K L lleb e clip tmp top_p top_k mask_logits E Hd dec (rc_h c) (rc_i c) 
             (reset E (rc_i c)) acts))) /\
  out_reward K E Hd rew cr = rew (rc_i c) (run_from (rc_i c) (reset E (rc_i c)) acts) acts.
Proof. exact ll_is_sum_plain. Qed.
Print Assumptions C11_ll_is_sum.

(* ll_is_sum, multistart passes: the first returned action is the forced start (entry forced_p), the others are scored
   in the states reached from step(reset, a0) *)
Theorem C11_ll_is_sum_multistart :
  forall (K : ofield) (L : Type) (lleb : L -> L -> bool) (e : L -> K) (clip tmp : L -> L) 
    (top_p : K) (top_k : nat) (mask_logits : bool) (E : Env) (Hd : Type)
    (dec : Hd -> inst E -> st E -> list L * list bool) (rew : inst E -> st E -> list nat -> Z)
    (flagf : inst E -> st E -> option (list bool)) (G : Type) (g0 : G) (gadd : G -> G -> G) 
    (lg : K -> G) (m : mode) (sa : bool) (S0 : nat) (sb : bool) (fuel : nat) (cfgs : list (Hd * inst E))
    (starts : list nat) (ors : list (list nat)) (outs : list (brow K E Hd)),
  1 <= S0 ->
  forward K L lleb e clip tmp top_p top_k mask_logits E Hd dec rew m sa true S0 sb fuel cfgs starts ors =
  Some outs ->
  forall cr : brow K E Hd,
  In cr outs ->
  let c := fst cr in
  exists (a0 : nat) (rest : list nat),
    r_acts (snd cr) = a0 :: rest /\
    (let s1 := step E (rc_i c) (reset E (rc_i c)) a0 in
     r_s (snd cr) = run_from (rc_i c) s1 rest /\
     out_ll_steps K E Hd flagf G lg cr =
     map lg
       (flagz K (out_flags K E Hd flagf cr)
          (forced_p K E sa (rc_i c) (a0 :: rest)
           :: spec_ps K L lleb e clip tmp top_p top_k mask_logits E Hd dec (rc_h c) (rc_i c) s1 rest)) /\
     out_ll K E Hd flagf G g0 gadd lg cr =
     gsum G g0 gadd
       (map lg
          (flagz K (out_flags K E Hd flagf cr)
             (forced_p K E sa (rc_i c) (a0 :: rest)
              :: spec_ps K L lleb e clip tmp top_p top_k mask_logits E Hd dec (rc_h c) (rc_i c) s1 rest)))).
Proof. exact ll_is_sum_multistart. Qed.
Print Assumptions C11_ll_is_sum_multistart.

(* the forced entry is the probability one (log-prob 0) -- with store_all_logp provided the start index is inside the
   zeros_like(action_mask) row, i.e. the gather does not raise *)
Theorem C11_forced_step_is_one :
  forall (K : ofield) (E : Env) (sa : bool) (i : inst E) (acts : list nat),
  (sa = true -> hd 0 acts < length (mask E i (spec_s0 E true i acts))) -> forced_p K E sa i acts = f1.
Proof. exact forced_p_one. Qed.
Print Assumptions C11_forced_step_is_one.

(* ... hence contributes nothing to the sum *)
Theorem C11_forced_step_contributes_zero :
  forall (K : ofield) (G : Type) (g0 : G) (gadd : G -> G -> G) (lg : K -> G),
  lg f1 = g0 ->
  (forall x : G, gadd g0 x = x) ->
  forall ps : list K, gsum G g0 gadd (map lg (f1 :: ps)) = gsum G g0 gadd (map lg ps).
Proof. exact gsum_forced. Qed.
Print Assumptions C11_forced_step_contributes_zero.

(* steps whose td["mask"] flag is False contribute nothing: the sum runs over the flagged steps only *)
Theorem C11_flagged_steps_contribute_zero :
  forall (K : ofield) (G : Type) (g0 : G) (gadd : G -> G -> G) (lg : K -> G),
  lg f1 = g0 ->
  (forall x : G, gadd g0 x = x) ->
  forall (fl : option (list bool)) (ps : list K),
  match fl with
  | Some bs => length bs = length ps
  | None => True
  end -> gsum G g0 gadd (map lg (flagz K fl ps)) = gsum G g0 gadd (map lg (relevant K fl ps)).
Proof. exact gsum_flagz_relevant. Qed.
Print Assumptions C11_flagged_steps_contribute_zero.

(* padding steps of finished rows: in a state that offers exactly one action the policy's probability of that action
   is one whatever the network says (so such steps contribute lg f1 = 0).  That finished rows ARE in such states is a
   property of the environment (routing envs: depot only), not of the decode loop *)
Theorem C11_single_feasible_action_has_probability_one :
  forall (K : ofield) (L : Type) (lleb : L -> L -> bool) (e : L -> K) (clip tmp : L -> L) 
    (top_p : K) (top_k : nat) (mask_logits : bool) (E : Env) (Hd : Type)
    (dec : Hd -> inst E -> st E -> list L * list bool),
  (forall x : L, flt f0 (e x)) ->
  (forall x y : L, lleb x y = (e x <=? e y)%of) ->
  forall (h : Hd) (i : inst E) (s : st E) (a : nat),
  mask_logits = true ->
  length (snd (dec h i s)) = length (fst (dec h i s)) ->
  a < length (snd (dec h i s)) ->
  nth a (snd (dec h i s)) false = true ->
  (forall b : nat, b <> a -> nth b (snd (dec h i s)) false = false) ->
  nth a (probs K L lleb e clip tmp top_p top_k mask_logits E Hd dec h i s) f0 = f1.
Proof. exact probs_single_feasible. Qed.
Print Assumptions C11_single_feasible_action_has_probability_one.

(* whenever get_log_likelihood's assertion passes, the returned LL is lg of the product of the per-step
   probabilities (connects the executable product representation with the additive one) *)
Theorem C11_ll_is_log_of_product :
  forall (K : ofield) (E : Env) (Hd : Type) (flagf : inst E -> st E -> option (list bool)) 
    (G : Type) (g0 : G) (gadd : G -> G -> G) (lg : K -> G),
  lg f1 = g0 ->
  (forall x y : K, flt f0 x -> flt f0 y -> lg (x * y)%of = gadd (lg x) (lg y)) ->
  forall cr : brow K E Hd,
  out_ll_ok K E Hd flagf cr = true ->
  out_ll K E Hd flagf G g0 gadd lg cr = lg (fprod K (out_ps K E Hd flagf cr)).
Proof. exact ll_is_log_of_product. Qed.
Print Assumptions C11_ll_is_log_of_product.

(* eval_roundtrip: a pass without forced starts and without select_best (greedy, sampling, multisample; any
   store_all_logp), then policy(td, env, actions = returned actions) on the same batch: same actions, same final
   states, same per-step log-probs, same sum, same assertion verdict, same reward; with the same store_all_logp also
   the same per-step probability VECTORS and the same entropy *)
Theorem C11_eval_roundtrip :
  forall (K : ofield) (L : Type) (lleb : L -> L -> bool) (e : L -> K) (clip tmp : L -> L) 
    (top_p : K) (top_k : nat) (mask_logits : bool) (E : Env) (Hd : Type)
    (dec : Hd -> inst E -> st E -> list L * list bool) (rew : inst E -> st E -> list nat -> Z)
    (flagf : inst E -> st E -> option (list bool)) (G : Type) (g0 : G) (gadd : G -> G -> G) 
    (lg nplp : K -> G) (m : mode) (sa sa' ms : bool) (S fuel : nat) (cfgs : list (Hd * inst E))
    (starts : list nat) (ors : list (list nat)) (outs : list (brow K E Hd)),
  ms_eff ms S = false ->
  forward K L lleb e clip tmp top_p top_k mask_logits E Hd dec rew m sa ms S false fuel cfgs starts ors =
  Some outs ->
  exists outsE : list (brow K E Hd),
    forward K L lleb e clip tmp top_p top_k mask_logits E Hd dec rew Evaluate sa' false 0 false fuel
      (map (fun cr : rowcfg E Hd * rowst K E => (rc_h (fst cr), rc_i (fst cr))) outs) []
      (map (fun cr : rowcfg E Hd * rowst K E => r_acts (snd cr)) outs) = Some outsE /\
    Forall2
      (fun o oE : rowcfg E Hd * rowst K E =>
       r_acts (snd oE) = r_acts (snd o) /\
       r_s (snd oE) = r_s (snd o) /\
       out_ll_steps K E Hd flagf G lg oE = out_ll_steps K E Hd flagf G lg o /\
       out_ll K E Hd flagf G g0 gadd lg oE = out_ll K E Hd flagf G g0 gadd lg o /\
       out_ll_ok K E Hd flagf oE = out_ll_ok K E Hd flagf o /\
       out_reward K E Hd rew oE = out_reward K E Hd rew o /\
       (sa' = sa ->
        out_vectors K E Hd oE = out_vectors K E Hd o /\
        out_entropy K E Hd G g0 gadd nplp oE = out_entropy K E Hd G g0 gadd nplp o)) outs outsE.
Proof. exact eval_roundtrip_observables. Qed.
Print Assumptions C11_eval_roundtrip.

(* row level: replaying a row's actions in evaluate mode raises nothing the first pass did not raise (the given
   actions are long enough: no default of a totalised accessor is reached) *)
Theorem C11_eval_replay_raises_nothing_new :
  forall (K : ofield) (L : Type) (lleb : L -> L -> bool) (e : L -> K) (clip tmp : L -> L) 
    (top_p : K) (top_k : nat) (mask_logits : bool) (E : Env) (Hd : Type)
    (dec : Hd -> inst E -> st E -> list L * list bool) (m : mode) (sa sa' : bool) (c cE : rowcfg E Hd),
  rc_h cE = rc_h c ->
  rc_i cE = rc_i c ->
  forall (j k : nat) (r rE : rowst K E),
  r_s rE = r_s r ->
  r_acts rE = r_acts r ->
  (forall t : nat,
   t < j ->
   nth (k + t) (rc_or cE) 0 =
   nth (length (r_acts r) + t) (r_acts (iter K L lleb e clip tmp top_p top_k mask_logits E Hd dec m sa c j k r))
     0) ->
  k + j <= length (rc_or cE) ->
  iter_ok K L lleb e clip tmp top_p top_k mask_logits E Hd dec m sa c j k r = true ->
  iter_ok K L lleb e clip tmp top_p top_k mask_logits E Hd dec Evaluate sa' cE j k rE = true.
Proof. exact iter_ok_replay. Qed.
Print Assumptions C11_eval_replay_raises_nothing_new.

(* multistart, evaluated the one way that aligns -- Evaluate with multistart=True, the same start nodes, and the
   returned actions WITHOUT their first column -- reproduces the rows *)
Theorem C11_eval_roundtrip_multistart_tail :
  forall (K : ofield) (L : Type) (lleb : L -> L -> bool) (e : L -> K) (clip tmp : L -> L) 
    (top_p : K) (top_k : nat) (mask_logits : bool) (E : Env) (Hd : Type)
    (dec : Hd -> inst E -> st E -> list L * list bool) (rew : inst E -> st E -> list nat -> Z) 
    (m : mode) (sa : bool) (S0 fuel : nat) (cfgs : list (Hd * inst E)) (starts : list nat)
    (ors : list (list nat)) (outs : list (brow K E Hd)),
  1 <= S0 ->
  forward K L lleb e clip tmp top_p top_k mask_logits E Hd dec rew m sa true S0 false fuel cfgs starts ors =
  Some outs ->
  exists outsE : list (brow K E Hd),
    forward K L lleb e clip tmp top_p top_k mask_logits E Hd dec rew Evaluate sa true S0 false fuel cfgs starts
      (map (fun o : rowcfg E Hd * rowst K E => tl (r_acts (snd o))) outs) = Some outsE /\
    Forall2 (same_core K E Hd) outs outsE /\
    Forall (Inv K L lleb e clip tmp top_p top_k mask_logits E Hd dec sa true) outsE.
Proof. exact eval_roundtrip_multistart_tail. Qed.
Print Assumptions C11_eval_roundtrip_multistart_tail.

(* multistart, evaluated the way policy(td, env, actions=returned) does it (Evaluate has no forced step): same final
   state, per-step probabilities equal from the second entry on, but the first entry is the policy's probability of
   the start node in the reset state instead of forced_p = 1 *)
Theorem C11_eval_scores_forced_move :
  forall (K : ofield) (L : Type) (lleb : L -> L -> bool) (e : L -> K) (clip tmp : L -> L) 
    (top_p : K) (top_k : nat) (mask_logits : bool) (E : Env) (Hd : Type)
    (dec : Hd -> inst E -> st E -> list L * list bool) (sa sa' : bool) (o oE : brow K E Hd),
  Inv K L lleb e clip tmp top_p top_k mask_logits E Hd dec sa true o ->
  Inv K L lleb e clip tmp top_p top_k mask_logits E Hd dec sa' false oE ->
  rc_h (fst oE) = rc_h (fst o) ->
  rc_i (fst oE) = rc_i (fst o) ->
  r_acts (snd oE) = r_acts (snd o) ->
  exists (a0 : nat) (rest : list nat) (tailps : list K),
    r_acts (snd o) = a0 :: rest /\
    gather_ps K (r_buf (snd o)) (r_acts (snd o)) = forced_p K E sa (rc_i (fst o)) (a0 :: rest) :: tailps /\
    gather_ps K (r_buf (snd oE)) (r_acts (snd oE)) =
    nth a0
      (probs K L lleb e clip tmp top_p top_k mask_logits E Hd dec (rc_h (fst o)) (rc_i (fst o))
         (reset E (rc_i (fst o)))) f0 :: tailps /\ r_s (snd oE) = r_s (snd o).
Proof. exact eval_scores_forced_move. Qed.
Print Assumptions C11_eval_scores_forced_move.

(* ppo_ratio_one: ratio = ex(sum(new per-step LL) - old LL) = 1 at the first inner step, for any log/exp pair with
   lg 1 = 0, lg (x y) = lg x + lg y, lg x - lg x = 0, ex 0 = 1  (nplp: the entropy kernel, irrelevant here) *)
Theorem C11_ppo_ratio_one :
  forall (K : ofield) (L : Type) (lleb : L -> L -> bool) (e : L -> K) (clip tmp : L -> L) 
    (top_p : K) (top_k : nat) (mask_logits : bool) (E : Env) (Hd : Type)
    (dec : Hd -> inst E -> st E -> list L * list bool) (rew : inst E -> st E -> list nat -> Z)
    (flagf : inst E -> st E -> option (list bool)) (G : Type) (g0 : G) (gadd : G -> G -> G) 
    (lg : K -> G),
  (K -> G) ->
  lg f1 = g0 ->
  (forall x y : K, flt f0 x -> flt f0 y -> lg (x * y)%of = gadd (lg x) (lg y)) ->
  forall (gsub : G -> G -> G) (ex0 : G -> K),
  (forall x : K, flt f0 x -> gsub (lg x) (lg x) = g0) ->
  ex0 g0 = f1 ->
  forall (m : mode) (sa sa' ms : bool) (S fuel : nat) (cfgs : list (Hd * inst E)) (starts : list nat)
    (ors : list (list nat)) (outs : list (brow K E Hd)),
  ms_eff ms S = false ->
  forward K L lleb e clip tmp top_p top_k mask_logits E Hd dec rew m sa ms S false fuel cfgs starts ors =
  Some outs ->
  exists outsE : list (brow K E Hd),
    forward K L lleb e clip tmp top_p top_k mask_logits E Hd dec rew Evaluate sa' false 0 false fuel
      (map (fun cr : rowcfg E Hd * rowst K E => (rc_h (fst cr), rc_i (fst cr))) outs) []
      (map (fun cr : rowcfg E Hd * rowst K E => r_acts (snd cr)) outs) = Some outsE /\
    Forall2
      (fun o oE : brow K E Hd =>
       out_ll_ok K E Hd flagf o = true ->
       ppo_ratio K G g0 gadd gsub ex0 (out_ll_steps K E Hd flagf G lg oE) (out_ll K E Hd flagf G g0 gadd lg o) =
       f1) outs outsE.
Proof. exact ppo_ratio_one. Qed.
Print Assumptions C11_ppo_ratio_one.

(* ---------------------------------------------------------------- the full-strength statement is FALSE for multistart *)
(* evaluate on the actions returned by a multistart pass: same actions, same final states, different log-likelihood
   (faithful model at (Z, Qc, 2^z), toy environment of Decoding/DecodeLoopInst.v; reproduced on the real code by
   vt/props/c11.py, signature "evaluate-after-multistart: forced-first-move-scored-as-ordinary-step") *)
Theorem C11_eval_roundtrip_multistart_refuted :
  exists (cfgs : list (Z * nat)) (S : nat) (starts : list nat) (ors : list (list nat)),
    (1 <= S)%nat /\
    match tfwd Greedy false true S false 20 cfgs starts ors with
    | None => False
    | Some outs =>
        match tfwd Evaluate false false 0 false 20 (map (fun o => (rc_h (fst o), rc_i (fst o))) outs) []
                   (map (fun o => r_acts (snd o)) outs) with
        | None => False
        | Some outsE =>
            map (fun o => r_acts (snd o)) outsE = map (fun o => r_acts (snd o)) outs /\
            map (fun o => r_s (snd o)) outsE = map (fun o => r_s (snd o)) outs /\
            length outsE = length outs /\
            exists r, nth r (lls outsE) 0%Q <> nth r (lls outs) 0%Q
        end
    end.
Proof. exact eval_roundtrip_multistart_refuted. Qed.
Print Assumptions C11_eval_roundtrip_multistart_refuted.

(* ---------------------------------------------------------------- the two closings of ppo_ratio_one *)
(* executable instance: weights 2^z, LL = product of probabilities, ratio = new / old *)
Theorem C11_ppo_ratio_one_Qc :
  forall (clip tmp : Z -> Z) (top_p : Qc) (top_k : nat) (mask_logits : bool) (E : Env) (Hd : Type)
    (dec : Hd -> inst E -> st E -> list Z * list bool) (rew : inst E -> st E -> list nat -> Z)
    (flagf : inst E -> st E -> option (list bool))
    (m : mode) (sa sa' ms : bool) (S fuel : nat) (cfgs : list (Hd * inst E)) (starts : list nat)
    (ors : list (list nat)) (outs : list (brow QcF E Hd)),
  ms_eff ms S = false ->
  forward QcF Z Z.leb pow2 clip tmp top_p top_k mask_logits E Hd dec rew m sa ms S false fuel cfgs starts ors = Some outs ->
  exists outsE : list (brow QcF E Hd),
    forward QcF Z Z.leb pow2 clip tmp top_p top_k mask_logits E Hd dec rew Evaluate sa' false 0 false fuel
      (map (fun cr => (rc_h (fst cr), rc_i (fst cr))) outs) [] (map (fun cr => r_acts (snd cr)) outs) = Some outsE /\
    Forall2
      (fun o oE : brow QcF E Hd =>
       out_ll_ok QcF E Hd flagf o = true ->
       ppo_ratio QcF Qc 1%Qc Qcmult Qcdiv idQc (out_ll_steps QcF E Hd flagf Qc idQc oE)
                 (out_ll QcF E Hd flagf Qc 1%Qc Qcmult idQc o) = 1%Qc) outs outsE.
Proof.
  exact (fun clip tmp top_p top_k mask_logits E Hd dec rew flagf =>
           ppo_ratio_one QcF Z Z.leb pow2 clip tmp top_p top_k mask_logits E Hd dec rew flagf Qc 1%Qc Qcmult idQc
                         (fun _ => 1%Qc) Qc_lg_1 Qc_lg_mul Qcdiv idQc Qc_gsub_diag Qc_ex_0).
Qed.
Print Assumptions C11_ppo_ratio_one_Qc.

(* real instance: softmax with exp, LL = sum of ln, ratio = exp(new - old) *)
Theorem C11_ppo_ratio_one_R :
  forall (clip tmp : R -> R) (top_p : R) (top_k : nat) (mask_logits : bool) (E : Env) (Hd : Type)
    (dec : Hd -> inst E -> st E -> list R * list bool) (rew : inst E -> st E -> list nat -> Z)
    (flagf : inst E -> st E -> option (list bool))
    (m : mode) (sa sa' ms : bool) (S fuel : nat) (cfgs : list (Hd * inst E)) (starts : list nat)
    (ors : list (list nat)) (outs : list (brow RF E Hd)),
  ms_eff ms S = false ->
  forward RF R Rleb exp clip tmp top_p top_k mask_logits E Hd dec rew m sa ms S false fuel cfgs starts ors = Some outs ->
  exists outsE : list (brow RF E Hd),
    forward RF R Rleb exp clip tmp top_p top_k mask_logits E Hd dec rew Evaluate sa' false 0 false fuel
      (map (fun cr => (rc_h (fst cr), rc_i (fst cr))) outs) [] (map (fun cr => r_acts (snd cr)) outs) = Some outsE /\
    Forall2
      (fun o oE : brow RF E Hd =>
       out_ll_ok RF E Hd flagf o = true ->
       ppo_ratio RF R 0%R Rplus Rminus exp (out_ll_steps RF E Hd flagf R ln oE)
                 (out_ll RF E Hd flagf R 0%R Rplus ln o) = 1%R) outs outsE.
Proof.
  exact (fun clip tmp top_p top_k mask_logits E Hd dec rew flagf =>
           ppo_ratio_one RF R Rleb exp clip tmp top_p top_k mask_logits E Hd dec rew flagf R 0%R Rplus ln
                         R_nplp R_lg_1 R_lg_mul Rminus exp R_gsub_diag R_ex_0).
Qed.
Print Assumptions C11_ppo_ratio_one_R.

(* ---------------------------------------------------------------- non-vacuity (all by computation, (Z, Qc, 2^z), ToyEnv) *)
(* hypotheses of C11_ll_is_sum / C11_eval_roundtrip: a greedy pass on a batch whose rows finish at different times
   returns rows; row 0 is padded with the depot, whose probability is 1 *)
Example C11_ex_greedy_pass :
  tviews (tfwd Greedy false false 0 false 20 [(1%Z, 2%nat); (2%Z, 3%nat)] [] [[]; []])
  = Some [([2; 1; 0]%nat, [2 # 3; 1; 1]%Q); ([1; 2; 3]%nat, [8 # 11; 4 # 5; 1]%Q)].
Proof. exact toy_greedy. Qed.
(* ... a sampling pass (oracle = the draws) and its evaluation: the same rows *)
Example C11_ex_roundtrip :
  tviews (tfwd Evaluate true false 0 false 20 [(1%Z, 2%nat); (2%Z, 3%nat)] [] [[1; 2; 0]; [3; 1; 2]]%nat)
  = tviews (tfwd Sampling false false 0 false 20 [(1%Z, 2%nat); (2%Z, 3%nat)] [] [[1; 2; 0]; [3; 1; 2]]%nat)
  /\ tviews (tfwd Sampling false false 0 false 20 [(1%Z, 2%nat); (2%Z, 3%nat)] [] [[1; 2; 0]; [3; 1; 2]]%nat)
     = Some [([1; 2; 0]%nat, [1 # 3; 1; 1]%Q); ([3; 1; 2]%nat, [2 # 11; 1 # 5; 1]%Q)].
Proof. split; [exact toy_evaluate | exact toy_sampling]. Qed.
(* hypotheses of C11_ll_is_sum_multistart / C11_eval_roundtrip_multistart_tail: 1 <= S and the pass returns *)
Example C11_ex_multistart :
  tviews (tfwd Greedy false true 3 false 20 [(2%Z, 3%nat)] [1; 2; 3]%nat [[]; []; []])
  = Some [([1; 2; 3]%nat, [1; 4 # 5; 1]%Q); ([2; 1; 3]%nat, [1; 1 # 2; 1]%Q); ([3; 2; 1]%nat, [1; 4 # 5; 1]%Q)]
  /\ tviews (tfwd Evaluate false true 3 false 20 [(2%Z, 3%nat)] [1; 2; 3]%nat [[2; 3]; [1; 3]; [2; 1]]%nat)
     = tviews (tfwd Greedy false true 3 false 20 [(2%Z, 3%nat)] [1; 2; 3]%nat [[]; []; []])
  /\ tviews (tfwd Greedy false true 3 true 20 [(2%Z, 3%nat)] [1; 2; 3]%nat [[]; []; []])
     = Some [([3; 2; 1]%nat, [1; 4 # 5; 1]%Q)].
Proof. split; [exact toy_multistart_3 | split; [exact toy_multistart_tail | exact toy_multistart_best]]. Qed.
(* the refutation in numbers: multistart LL (products) 4/5, 1/2, 4/5; the same actions evaluated: 32/55, 1/22, 8/55 *)
Example C11_ex_refutation_values :
  option_map (map (fun o => this (tll o))) (tfwd Greedy false true 3 false 20 [(2%Z, 3%nat)] [1; 2; 3]%nat [[]; []; []])
    = Some [4 # 5; 1 # 2; 4 # 5]%Q /\
  option_map (map (fun o => this (tll o)))
    (tfwd Evaluate false false 0 false 20 [(2%Z, 3%nat); (2%Z, 3%nat); (2%Z, 3%nat)] [] [[1; 2; 3]; [2; 1; 3]; [3; 2; 1]]%nat)
    = Some [32 # 55; 1 # 22; 8 # 55]%Q.
Proof. exact toy_refutation_values. Qed.
(* hypotheses of C11_single_feasible_action_has_probability_one: the state of the padded row offers the depot only *)
Example C11_ex_padding_state :
  let s := [true; true] in
  snd (toy_dec 1 2 s) = [true; false; false] /\ length (snd (toy_dec 1 2 s)) = length (fst (toy_dec 1 2 s)).
Proof. exact toy_padding_state. Qed.
(* the log-domain hypotheses of C11_ppo_ratio_one / C11_ll_is_log_of_product are satisfiable: both instances above *)

From RL4CO Require Import Decoding.Entropy Decoding.DecodeLoopEntropy Decoding.DecodeLoopFuel.

(* ================================================================ additions (mutation sweep 2)
   outdict["entropy"]: the VALUE.  out_entropyK lg cr = the model's calculate_entropy(logprobs) of the returned row cr with the log
   domain (K, 0, +) and the term nplp lg p = 0 if p = 0 else - p * lg p (Decoding/Entropy.v); row_vecs mse c acts = the masked
   normalised step distributions along the row's own returned actions (forced multistart step excluded). *)
(* store_all_logp passes: entropy of a returned row = sum over its decoding steps of -sum_a p_a lg p_a of the step distribution in the state reached by its previous returned actions; the forced multistart step contributes 0 *)
Theorem C11_entropy_is_sum_of_step_entropies :
  forall (K : ofield) (L : Type) (lleb : L -> L -> bool) (e : L -> K) (clip tmp : L -> L) 
    (top_p : K) (top_k : nat) (mask_logits : bool) (E : Env) (Hd : Type)
    (dec : Hd -> inst E -> st E -> list L * list bool) (rew : inst E -> st E -> list nat -> Z) 
    (lg : K -> K),
  lg f1 = f0 ->
  forall (m : mode) (ms : bool) (S : nat) (sb : bool) (fuel : nat) (cfgs : list (Hd * inst E))
    (starts : list nat) (ors : list (list nat)) (outs : list (brow K E Hd)),
  forward K L lleb e clip tmp top_p top_k mask_logits E Hd dec rew m true ms S sb fuel cfgs starts ors =
  Some outs ->
  forall cr : brow K E Hd,
  In cr outs ->
  out_entropyK K E Hd lg cr =
  entropy_steps lg
    (row_vecs K L lleb e clip tmp top_p top_k mask_logits E Hd dec (ms_eff ms S) (fst cr) (r_acts (snd cr))).
Proof. exact forward_entropy_is_sum. Qed.
Print Assumptions C11_entropy_is_sum_of_step_entropies.

(* ... non-negative whenever the decoder hands over, in every state, a mask with a feasible action and as many logits *)
Theorem C11_entropy_nonneg :
  forall (K : ofield) (L : Type) (lleb : L -> L -> bool) (e : L -> K) (clip tmp : L -> L) 
    (top_p : K) (top_k : nat) (mask_logits : bool) (E : Env) (Hd : Type)
    (dec : Hd -> inst E -> st E -> list L * list bool) (rew : inst E -> st E -> list nat -> Z) 
    (lg : K -> K),
  lg f1 = f0 ->
  (forall x y : K, flt f0 x -> flt x y -> flt (lg x) (lg y)) ->
  (forall x : L, flt f0 (e x)) ->
  (forall x y : L, lleb x y = (e x <=? e y)%of) ->
  (forall (h : Hd) (i : inst E) (s : st E), pl_wf L (eff_mask L mask_logits (dec h i s)) (fst (dec h i s))) ->
  forall (m : mode) (ms : bool) (S : nat) (sb : bool) (fuel : nat) (cfgs : list (Hd * inst E))
    (starts : list nat) (ors : list (list nat)) (outs : list (brow K E Hd)),
  forward K L lleb e clip tmp top_p top_k mask_logits E Hd dec rew m true ms S sb fuel cfgs starts ors =
  Some outs -> forall cr : brow K E Hd, In cr outs -> fle f0 (out_entropyK K E Hd lg cr).
Proof. exact forward_entropy_nonneg. Qed.
Print Assumptions C11_entropy_nonneg.

(* ... zero iff every step distribution along the row is a point mass *)
Theorem C11_entropy_zero_iff :
  forall (K : ofield) (L : Type) (lleb : L -> L -> bool) (e : L -> K) (clip tmp : L -> L) 
    (top_p : K) (top_k : nat) (mask_logits : bool) (E : Env) (Hd : Type)
    (dec : Hd -> inst E -> st E -> list L * list bool) (lg : K -> K),
  lg f1 = f0 ->
  (forall x y : K, flt f0 x -> flt x y -> flt (lg x) (lg y)) ->
  (forall x : L, flt f0 (e x)) ->
  (forall x y : L, lleb x y = (e x <=? e y)%of) ->
  (forall (h : Hd) (i : inst E) (s : st E), pl_wf L (eff_mask L mask_logits (dec h i s)) (fst (dec h i s))) ->
  forall (mse : bool) (cr : brow K E Hd),
  Inv K L lleb e clip tmp top_p top_k mask_logits E Hd dec true mse cr ->
  out_entropyK K E Hd lg cr = f0 <->
  (forall v : list K,
   In v (row_vecs K L lleb e clip tmp top_p top_k mask_logits E Hd dec mse (fst cr) (r_acts (snd cr))) ->
   point_mass v).
Proof. exact out_entropy_zero_iff. Qed.
Print Assumptions C11_entropy_zero_iff.

(* the step budget: `step += 1; if step > max_steps: break` -- the model's fuel is max_steps + 1 *)
(* if every row is done after n rounds, every budget >= n gives the same rows: with max_steps + 1 >= the episode's step bound (C02) the result of the loop does not depend on max_steps *)
Theorem C11_loop_fuel_independent :
  forall (K : ofield) (L : Type) (lleb : L -> L -> bool) (e : L -> K) (clip tmp : L -> L) 
    (top_p : K) (top_k : nat) (mask_logits : bool) (E : Env) (Hd : Type)
    (dec : Hd -> inst E -> st E -> list L * list bool) (m : mode) (sa : bool) (fuel fuel' k : nat)
    (rows : list (brow K E Hd)) (n : nat),
  n <= fuel ->
  n <= fuel' ->
  forallb (row_done K E Hd) (after K L lleb e clip tmp top_p top_k mask_logits E Hd dec m sa n k rows) = true ->
  loop K L lleb e clip tmp top_p top_k mask_logits E Hd dec m sa fuel k rows =
  loop K L lleb e clip tmp top_p top_k mask_logits E Hd dec m sa fuel' k rows.
Proof. exact loop_fuel_independent. Qed.
Print Assumptions C11_loop_fuel_independent.

(* the same for the whole pass (post_decoder_hook and select_best included) *)
Theorem C11_forward_fuel_independent :
  forall (K : ofield) (L : Type) (lleb : L -> L -> bool) (e : L -> K) (clip tmp : L -> L) 
    (top_p : K) (top_k : nat) (mask_logits : bool) (E : Env) (Hd : Type)
    (dec : Hd -> inst E -> st E -> list L * list bool) (rew : inst E -> st E -> list nat -> Z) 
    (m : mode) (sa ms : bool) (S : nat) (sb : bool) (fuel fuel' : nat) (cfgs : list (Hd * inst E))
    (starts : list nat) (ors : list (list nat)) (n : nat),
  n <= fuel ->
  n <= fuel' ->
  forallb (row_done K E Hd)
    (after K L lleb e clip tmp top_p top_k mask_logits E Hd dec m sa n 0
       (pre_hook K E Hd sa ms S cfgs starts ors)) = true ->
  forward K L lleb e clip tmp top_p top_k mask_logits E Hd dec rew m sa ms S sb fuel cfgs starts ors =
  forward K L lleb e clip tmp top_p top_k mask_logits E Hd dec rew m sa ms S sb fuel' cfgs starts ors.
Proof. exact forward_fuel_independent. Qed.
Print Assumptions C11_forward_fuel_independent.

(* ... and for "nothing raises" *)
Theorem C11_forward_ok_fuel_independent :
  forall (K : ofield) (L : Type) (lleb : L -> L -> bool) (e : L -> K) (clip tmp : L -> L) 
    (top_p : K) (top_k : nat) (mask_logits : bool) (E : Env) (Hd : Type)
    (dec : Hd -> inst E -> st E -> list L * list bool) (m : mode) (sa ms : bool) (S fuel fuel' : nat)
    (cfgs : list (Hd * inst E)) (starts : list nat) (ors : list (list nat)) (n : nat),
  n <= fuel ->
  n <= fuel' ->
  forallb (row_done K E Hd)
    (after K L lleb e clip tmp top_p top_k mask_logits E Hd dec m sa n 0
       (pre_hook K E Hd sa ms S cfgs starts ors)) = true ->
  forward_ok K L lleb e clip tmp top_p top_k mask_logits E Hd dec m sa ms S fuel cfgs starts ors =
  forward_ok K L lleb e clip tmp top_p top_k mask_logits E Hd dec m sa ms S fuel' cfgs starts ors.
Proof. exact forward_ok_fuel_independent. Qed.
Print Assumptions C11_forward_ok_fuel_independent.

Theorem C11_forward_fuel_exhausted :
  forall (K : ofield) (L : Type) (lleb : L -> L -> bool) (e : L -> K) (clip tmp : L -> L) 
    (top_p : K) (top_k : nat) (mask_logits : bool) (E : Env) (Hd : Type)
    (dec : Hd -> inst E -> st E -> list L * list bool) (rew : inst E -> st E -> list nat -> Z) 
    (m : mode) (sa ms : bool) (S : nat) (sb : bool) (fuel : nat) (cfgs : list (Hd * inst E)) 
    (starts : list nat) (ors : list (list nat)),
  (forall j : nat,
   j < fuel ->
   forallb (row_done K E Hd)
     (after K L lleb e clip tmp top_p top_k mask_logits E Hd dec m sa j 0
        (pre_hook K E Hd sa ms S cfgs starts ors)) = false) ->
  forward K L lleb e clip tmp top_p top_k mask_logits E Hd dec rew m sa ms S sb fuel cfgs starts ors =
  post_hook K E Hd rew S sb
    (after K L lleb e clip tmp top_p top_k mask_logits E Hd dec m sa fuel 0
       (pre_hook K E Hd sa ms S cfgs starts ors)).
Proof. exact forward_fuel_exhausted. Qed.
Print Assumptions C11_forward_fuel_exhausted.

(* `if self.num_starts > 0 and self.select_best`: without replicas (num_starts = 0) select_best=True is ignored *)
Theorem C11_select_best_without_replicas :
  forall (K : ofield) (L : Type) (lleb : L -> L -> bool) (e : L -> K) (clip tmp : L -> L) 
    (top_p : K) (top_k : nat) (mask_logits : bool) (E : Env) (Hd : Type)
    (dec : Hd -> inst E -> st E -> list L * list bool) (rew : inst E -> st E -> list nat -> Z) 
    (m : mode) (sa ms sb : bool) (fuel : nat) (cfgs : list (Hd * inst E)) (starts : list nat)
    (ors : list (list nat)),
  forward K L lleb e clip tmp top_p top_k mask_logits E Hd dec rew m sa ms 0 sb fuel cfgs starts ors =
  forward K L lleb e clip tmp top_p top_k mask_logits E Hd dec rew m sa ms 0 false fuel cfgs starts ors.
Proof. exact forward_select_best_without_replicas. Qed.
Print Assumptions C11_select_best_without_replicas.

(* non-vacuity on the toy environment of Decoding/DecodeLoopInst.v (instances with 2 and 3 customers: 3 decoder steps):
   fuel 3 (max_steps = 2: the budget is exactly the episode) and fuel 20 return the same rows; fuel 2 (max_steps = 1) truncates;
   select_best=True without replicas returns the plain rollout *)
Example C11_ex_fuel :
  tviews (tfwd Greedy false false 0 false 3 [(1%Z, 2%nat); (2%Z, 3%nat)] [] [[]; []])
  = tviews (tfwd Greedy false false 0 false 20 [(1%Z, 2%nat); (2%Z, 3%nat)] [] [[]; []]) /\
  tviews (tfwd Greedy false false 0 false 2 [(1%Z, 2%nat); (2%Z, 3%nat)] [] [[]; []])
  = Some [([2; 1]%nat, [2 # 3; 1]%Q); ([1; 2]%nat, [8 # 11; 4 # 5]%Q)] /\
  tviews (tfwd Greedy false false 0 true 20 [(1%Z, 2%nat); (2%Z, 3%nat)] [] [[]; []])
  = tviews (tfwd Greedy false false 0 false 20 [(1%Z, 2%nat); (2%Z, 3%nat)] [] [[]; []]).
Proof. vm_compute. repeat split. Qed.
