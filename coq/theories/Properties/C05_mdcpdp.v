(* C05 for MDCPDP -- the mask hides no solution. Statements only.
   A solution is an action list that the independent definition accepts (Spec/MultiDepotPD.v, md_feasibleb: routes
   depot -> customers -> same depot, every vehicle exactly one route, every customer once, pickup before delivery on
   the same route, load within the vehicle's capacity).  [canonical]: written with the documented conventions of the
   encoding -- the first vehicle is depot 0's ("First step is always the depot") and the return of the last vehicle is
   not written (it is charged by the reward function).  The order of the other vehicles and all routes are free.
   The running code is [repaired] (defects recorded as fixed in known_findings.json); [as_is] statements are history. *)
From Coq Require Import ZArith List Bool.
From RL4CO Require Import Base.Num Base.EnvSig Spec.MultiDepotPD Env.MDCPDP Env.MDCPDPDefs Env.MDCPDPProofs Env.MDCPDPRefuted.
Import ListNotations.
Open Scope Z_scope.

(* every canonical solution is admitted action by action (equality cases included: a pickup that exactly fills the
   vehicle is offered), no proper prefix of it finishes the row, and the row is finished at its end *)
Theorem C05_mdcpdp_mask_complete :
  forall (i : md_inst) (acts : list nat),
    md_wfb i = true ->
    md_feasibleb (ndep i) (nloc i / 2) (vcap i) acts = true ->
    hd_error acts = Some 0%nat ->
    (exists psF r, parse (ndep i) acts = Some psF /\ openr psF = Some r) ->
    adm (E:=MDCPDP exact repaired) i acts = true /\
    (forall p q, acts = p ++ q -> q <> [] -> done (MDCPDP exact repaired) i (run (E:=MDCPDP exact repaired) i p) = false) /\
    done (MDCPDP exact repaired) i (run (E:=MDCPDP exact repaired) i acts) = true.
Proof.
  intros i acts Hwf H1 H2 H3. apply (md_mask_complete repaired i Hwf (repaired_good i) acts). split; [exact H1|]. split; [exact H2 | exact H3].
Qed.
Print Assumptions C05_mdcpdp_mask_complete.

(* hence the optimum stays reachable: the episode that spells a canonical solution is admitted and is rewarded with that
   solution's objective, in all four reward modes *)
Theorem C05_mdcpdp_optimum_reachable :
  forall (i : md_inst) (acts : list nat),
    md_wfb i = true -> (mode i <= 3)%nat -> canonical i acts ->
    adm (E:=MDCPDP exact repaired) i acts = true /\ done (MDCPDP exact repaired) i (run (E:=MDCPDP exact repaired) i acts) = true /\
    md_reward exact repaired i (run (E:=MDCPDP exact repaired) i acts) = spec_objective i acts.
Proof.
  intros i acts Hwf Hm Hc. exact (md_optimum_reachable repaired i acts Hwf (repaired_good i) (repaired_solo i) (or_introl eq_refl) (repaired_mode_ok i Hm) Hc).
Qed.
Print Assumptions C05_mdcpdp_optimum_reachable.

(* for any subset F of the repairs under [md_good F i] *)
Theorem C05_mdcpdp_mask_complete_any_repair_set :
  forall (F : mdfix) (i : md_inst) (acts : list nat),
    md_wfb i = true -> md_good F i = true -> canonical i acts ->
    adm (E:=MDCPDP exact F) i acts = true /\ live F i acts /\ done (MDCPDP exact F) i (run (E:=MDCPDP exact F) i acts) = true.
Proof. intros F i acts Hwf Hg. exact (md_mask_complete F i Hwf Hg acts). Qed.
Print Assumptions C05_mdcpdp_mask_complete_any_repair_set.

(* HISTORY ([as_is]): with two depots the mask hid solutions: vehicle 1 may carry 2 parcels (its capacity) but the
   mask enforced depot 0's capacity 1 *)
Theorem C05_mdcpdp_refuted_hidden_solution :
  exists i acts, md_wfb i = true /\ md_solvableb i = true /\ length (caps i) = ndep i /\ canonical i acts /\
                 adm (E:=MDCPDP exact as_is) i acts = false.
Proof.
  exists (inst 2 4 [1; 2] (unit_dist 6) 0), [0; 0; 1; 2; 3; 4; 5]%nat. repeat split; try (vm_compute; reflexivity).
  eexists. eexists. split; vm_compute; reflexivity.
Qed.
Print Assumptions C05_mdcpdp_refuted_hidden_solution.

(* non-vacuity: a canonical solution whose first route fills vehicle 0 exactly (capacity 2, two pickups on board); the
   formerly hidden solution is admitted by the current code *)
Example C05_mdcpdp_nonvacuous :
  let i := inst 2 4 [2; 1] (unit_dist 6) 0 in
  let acts := [0; 2; 3; 4; 5; 0; 1]%nat in
  md_wfb i = true /\ spec_feasibleb i acts = true /\ hd_error acts = Some 0%nat /\
  (exists r, option_map openr (parse (ndep i) acts) = Some (Some r)) /\ adm (E:=MDCPDP exact repaired) i acts = true /\
  adm (E:=MDCPDP exact repaired) (inst 2 4 [1; 2] (unit_dist 6) 0) [0; 0; 1; 2; 3; 4; 5]%nat = true.
Proof. vm_compute. repeat split; try reflexivity. eexists. reflexivity. Qed.
