(* C02 for CVRP -- no dead ends, finished stays finished, step bound. Statements only. *)
From Coq Require Import ZArith List Bool.
From RL4CO Require Import Base.Num Base.EnvSig Spec.Routes Env.CVRP Env.CVRPProofs.
Import ListNotations.
Open Scope Z_scope.

(* every state reached through offered actions (finished or not) offers at least one action,
   provided no single demand exceeds the capacity *)
Theorem C02_cvrp_no_dead_end :
  forall (i : cvrp_inst) (acts : list nat),
    cvrp_wf i -> cvrp_solvable i -> adm (E:=CVRP exact) i acts = true ->
    anyb (mask (CVRP exact) i (run (E:=CVRP exact) i acts)) = true.
Proof. exact cvrp_no_dead_end. Qed.
Print Assumptions C02_cvrp_no_dead_end.

Theorem C02_cvrp_done_stable :
  forall (i : cvrp_inst) (acts : list nat) (a : nat),
    cvrp_wf i -> adm (E:=CVRP exact) i (acts ++ [a]) = true ->
    done (CVRP exact) i (run (E:=CVRP exact) i acts) = true ->
    done (CVRP exact) i (run (E:=CVRP exact) i (acts ++ [a])) = true.
Proof. exact cvrp_done_stable. Qed.
Print Assumptions C02_cvrp_done_stable.

(* an admitted action list none of whose proper prefixes is finished has at most 2n+1 actions *)
Theorem C02_cvrp_bound :
  forall (i : cvrp_inst) (acts : list nat),
    cvrp_wf i -> cvrp_solvable i -> adm (E:=CVRP exact) i acts = true ->
    (forall p q, acts = p ++ q -> q <> [] -> done (CVRP exact) i (run (E:=CVRP exact) i p) = false) ->
    (length acts <= 2 * n_of i + 1)%nat.
Proof. exact cvrp_bound. Qed.
Print Assumptions C02_cvrp_bound.

(* offered actions never index outside the tensors *)
Theorem C02_cvrp_step_ok :
  forall (i : cvrp_inst) (acts : list nat) (a : nat),
    (0 < n_of i)%nat -> cvrp_wf i -> adm (E:=CVRP exact) i acts = true ->
    offered (E:=CVRP exact) i (run (E:=CVRP exact) i acts) a = true ->
    stepok (CVRP exact) i (run (E:=CVRP exact) i acts) a = true.
Proof. exact cvrp_step_ok. Qed.
Print Assumptions C02_cvrp_step_ok.

(* the solvability hypothesis is needed: a demand above the capacity leaves the row stuck-free but endless?
   no -- it leaves the depot as the only action forever and the row never finishes *)
Example C02_cvrp_unsolvable_never_finishes :
  let i := {| dem := [9]; cap := 8; dist := []; tol := 0 |} in
  cvrp_wfb i = true /\ cvrp_solvableb i = false /\
  mask (CVRP exact) i (run (E:=CVRP exact) i [0; 0; 0]%nat) = [true; false] /\
  done (CVRP exact) i (run (E:=CVRP exact) i [0; 0; 0]%nat) = false.
Proof. vm_compute. auto. Qed.
