(* C05 for SDVRP -- the mask never hides a visit sequence that solves the problem. Statements only. *)
From Coq Require Import ZArith List Bool.
From RL4CO Require Import Base.Num Base.EnvSig Spec.Routes Spec.SplitDelivery Env.CVRP Env.CVRPProofs Env.SDVRP Env.SDVRPProofs.
Import ListNotations.
Open Scope Z_scope.

(* Completeness w.r.t. VISIT SEQUENCES (the library's encoding; optimality over arbitrary split quantities is outside
   this statement): EVERY non-empty visit sequence that never visits the depot while standing at it (documented
   pruning; the vehicle starts at the depot) and whose greedy decoding solves the split-delivery problem without a
   pointless visit is reachable through the mask, and the row is finished at its end.  Equality cases are included:
   a delivery that fills the vehicle exactly, a demand exhausted exactly. *)
Theorem C05_sdvrp_mask_complete :
  forall (i : cvrp_inst) (acts : list nat),
    cvrp_wf i -> acts <> [] -> nodd 0 acts = true ->
    let p := greedy (0 :: dem i) (cap i) 0 acts in
    ((forall v, In v p -> (fst v <= n_of i)%nat) /\
     Forall (fun r => sumZ (map snd r) <= cap i) (plan_routes p) /\
     (forall j, (1 <= j <= n_of i)%nat -> delivered_to j p = demand i j)) ->
    (forall v, In v p -> fst v <> 0%nat -> 0 < snd v) ->
    adm (E:=SDVRP exact) i acts = true /\ done (SDVRP exact) i (run (E:=SDVRP exact) i acts) = true.
Proof. exact sdvrp_mask_complete. Qed.
Print Assumptions C05_sdvrp_mask_complete.

(* non-vacuity with both equalities: 24 + 40 fills the vehicle exactly and exhausts customer 2 in the same step *)
Example C05_sdvrp_nonvacuous :
  let i := {| dem := [24; 40; 10]; cap := 64; dist := []; tol := 0 |} in
  nodd 0 [1; 2; 0; 3]%nat = true /\ sd_feasibleb i 0 [1; 2; 0; 3]%nat = true /\ sd_strictb i [1; 2; 0; 3]%nat = true /\
  adm (E:=SDVRP exact) i [1; 2; 0; 3]%nat = true /\ done (SDVRP exact) i (run (E:=SDVRP exact) i [1; 2; 0; 3]%nat) = true.
Proof. vm_compute. auto. Qed.
