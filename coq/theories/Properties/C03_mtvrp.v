(* C03 for MTVRP -- the reward formula equals the route-wise objective, open routes not charged for the way back. *)
From Coq Require Import ZArith List Bool.
From RL4CO Require Import Base.Num Base.EnvSig Spec.Routes Spec.VRPFeatures Env.MTVRP Env.MTVRPProofs.
Import ListNotations.
Open Scope Z_scope.

(* for ANY action list: minus the sum of the legs along depot :: actions (cyclically) in which, for an open-route
   instance, the legs that end in the depot are dropped -- which is what _get_reward computes -- equals minus the sum
   over the routes of: depot -> customers (-> depot unless open), whenever d(0,0) = 0 *)
Theorem C03_mtvrp_reward_is_objective :
  forall (i : mtvrp_inst) (acts : list nat),
    mget (dist i) 0 0 = 0 ->
    - walk_len (fun a b => if opn i && Nat.eqb b 0 then 0 else mget (dist i) a b) 0%nat acts
    = - sumZ (map (fun r => if opn i then opath_len (dfun i) 0%nat r else route_len (dfun i) r) (routes acts)).
Proof. exact mtvrp_reward_is_objective. Qed.
Print Assumptions C03_mtvrp_reward_is_objective.

Example C03_mtvrp_nonvacuous :
  let i o := {| dl := [0; 1; 1]; db := [0; 0; 0]; cap := 2; lim := 100; opn := o; tlo := [0; 0; 0]; thi := [9; 9; 9]; svc := [0; 0; 0];
                dist := [[0; 3; 4]; [3; 0; 5]; [4; 5; 0]]; tt := [[0; 3; 4]; [3; 0; 5]; [4; 5; 0]] |} in
  mtvrp_reward (i false) [1; 0; 2]%nat = -14 /\ mtvrp_objective (i false) [1; 0; 2]%nat = -14 /\
  mtvrp_reward (i true) [1; 0; 2]%nat = -7 /\ mtvrp_objective (i true) [1; 0; 2]%nat = -7 /\
  mtvrp_reward (i true) [1; 2; 0; 0]%nat = -8.
Proof. vm_compute. auto. Qed.
