(* C02 for MDCPDP -- no dead end, no crash, finished stays finished, step bound. Statements only.
   Notation as in C01_mdcpdp.v: the running code is [repaired] (defects recorded as fixed in known_findings.json);
   the [as_is] statements at the end are history. *)
From Coq Require Import ZArith List Bool.
From RL4CO Require Import Base.Num Base.EnvSig Spec.MultiDepotPD Env.MDCPDP Env.MDCPDPDefs Env.MDCPDPProofs Env.MDCPDPRefuted.
Import ListNotations.
Open Scope Z_scope.

(* every state reached by admitted actions (the last one possibly finishing the row) offers at least one action,
   provided every vehicle can carry at least one parcel; any documented capacity format, any start depot *)
Theorem C02_mdcpdp_no_dead_end :
  forall (i : md_inst) (acts : list nat),
    md_wfb i = true -> md_solvableb i = true ->
    adm (E:=MDCPDP exact repaired) i acts = true ->
    (forall p q, acts = p ++ q -> q <> [] -> done (MDCPDP exact repaired) i (run (E:=MDCPDP exact repaired) i p) = false) ->
    anyb (mask (MDCPDP exact repaired) i (run (E:=MDCPDP exact repaired) i acts)) = true.
Proof. intros i acts Hwf Hs. exact (md_no_dead_end repaired i Hwf (repaired_good i) acts Hs). Qed.
Print Assumptions C02_mdcpdp_no_dead_end.

(* ... and after the row has finished: exactly its current depot is offered, for any number of padding steps, and the
   row stays finished *)
Theorem C02_mdcpdp_finished_rows_keep_a_padding_action :
  forall (i : md_inst) (acts : list nat) (k : nat),
    md_wfb i = true ->
    adm (E:=MDCPDP exact repaired) i acts = true ->
    (forall p q, acts = p ++ q -> q <> [] -> done (MDCPDP exact repaired) i (run (E:=MDCPDP exact repaired) i p) = false) ->
    done (MDCPDP exact repaired) i (run (E:=MDCPDP exact repaired) i acts) = true ->
    let e := depot (run (E:=MDCPDP exact repaired) i acts) in
    adm (E:=MDCPDP exact repaired) i (acts ++ repeat e k) = true /\
    done (MDCPDP exact repaired) i (run (E:=MDCPDP exact repaired) i (acts ++ repeat e k)) = true /\
    mask (MDCPDP exact repaired) i (run (E:=MDCPDP exact repaired) i (acts ++ repeat e k)) = map (fun j => Nat.eqb j e) (seq 0 (ndep i + nloc i)).
Proof.
  intros i acts k Hwf Ha Hl Hd. destruct (md_padding repaired i Hwf (repaired_good i) (repaired_solo i) acts k Ha Hl Hd) as (H1 & H2 & H3 & _). auto.
Qed.
Print Assumptions C02_mdcpdp_finished_rows_keep_a_padding_action.

(* no crash: every tensor index used by the step of an offered action is in range (in particular capacity.gather with
   the generator's one-column capacity and a random start depot) *)
Theorem C02_mdcpdp_step_ok :
  forall (i : md_inst) (acts : list nat) (a : nat),
    md_wfb i = true ->
    adm (E:=MDCPDP exact repaired) i (acts ++ [a]) = true ->
    (forall p q, acts ++ [a] = p ++ q -> q <> [] -> done (MDCPDP exact repaired) i (run (E:=MDCPDP exact repaired) i p) = false) ->
    stepok (MDCPDP exact repaired) i (run (E:=MDCPDP exact repaired) i acts) a = true.
Proof. intros i acts a Hwf. exact (md_step_ok repaired i Hwf (repaired_good i) acts a (repaired_solo i)). Qed.
Print Assumptions C02_mdcpdp_step_ok.

(* finished stays finished: under any set of repairs, any instance, any state, any action *)
Theorem C02_mdcpdp_done_stable :
  forall (A : arith) (F : mdfix) (i : md_inst) (s : md_st) (a : nat),
    md_done i s = true -> md_done i (md_step A F i s a) = true.
Proof. exact md_done_stable. Qed.
Print Assumptions C02_mdcpdp_done_stable.

(* step bound: an episode finishes within (nodes + depots - 1) = customers + 2 * depots - 1 steps
   (every finished episode has exactly that many: each customer once, each depot once, each vehicle but the last home) *)
Theorem C02_mdcpdp_bound :
  forall (i : md_inst) (acts : list nat),
    md_wfb i = true ->
    adm (E:=MDCPDP exact repaired) i acts = true ->
    (forall p q, acts = p ++ q -> q <> [] -> done (MDCPDP exact repaired) i (run (E:=MDCPDP exact repaired) i p) = false) ->
    (length acts <= nloc i + 2 * ndep i - 1)%nat.
Proof.
  intros i acts Hwf Ha Hl. pose proof (md_bound_ok repaired i Hwf (repaired_good i) acts Ha Hl) as H. unfold md_bound, nn in H.
  apply (PeanoNat.Nat.le_trans _ _ _ H). rewrite (PeanoNat.Nat.add_comm (nloc i)). cbn. rewrite PeanoNat.Nat.add_0_r.
  rewrite <- !PeanoNat.Nat.add_assoc. rewrite (PeanoNat.Nat.add_comm (nloc i) (ndep i)). rewrite !PeanoNat.Nat.add_assoc.
  rewrite (PeanoNat.Nat.add_comm (ndep i + ndep i) (nloc i)), PeanoNat.Nat.add_assoc. apply PeanoNat.Nat.le_refl.
Qed.
Print Assumptions C02_mdcpdp_bound.

(* the solvability hypothesis is needed: capacity 0 *)
Theorem C02_mdcpdp_dead_end_without_solvable :
  exists i acts, md_wfb i = true /\ md_solvableb i = false /\ adm (E:=MDCPDP exact repaired) i acts = true /\
                 done (MDCPDP exact repaired) i (run (E:=MDCPDP exact repaired) i acts) = false /\
                 anyb (mask (MDCPDP exact repaired) i (run (E:=MDCPDP exact repaired) i acts)) = false.
Proof. exact md_dead_end_without_solvable_repaired. Qed.
Print Assumptions C02_mdcpdp_dead_end_without_solvable.

(* the same four statements for any subset F of the repairs under [md_good F i] *)
Theorem C02_mdcpdp_any_repair_set :
  forall (F : mdfix) (i : md_inst) (acts : list nat),
    md_wfb i = true -> md_good F i = true ->
    adm (E:=MDCPDP exact F) i acts = true ->
    (forall p q, acts = p ++ q -> q <> [] -> done (MDCPDP exact F) i (run (E:=MDCPDP exact F) i p) = false) ->
    (md_solvableb i = true -> anyb (mask (MDCPDP exact F) i (run (E:=MDCPDP exact F) i acts)) = true) /\
    (length acts <= ndep i + nloc i + ndep i - 1)%nat.
Proof.
  intros F i acts Hwf Hg Ha Hl. split; [intros Hs; exact (md_no_dead_end F i Hwf Hg acts Hs Ha Hl) | exact (md_bound_ok F i Hwf Hg acts Ha Hl)].
Qed.
Print Assumptions C02_mdcpdp_any_repair_set.

(* HISTORY ([as_is]): start_mode = "random" with the generator's one-column capacity: the forced first action crashed *)
Theorem C02_mdcpdp_refuted_random_start_crash :
  exists i, md_wfb i = true /\ md_solvableb i = true /\ offered (E:=MDCPDP exact as_is) i (reset (MDCPDP exact as_is) i) 0 = true /\
            stepok (MDCPDP exact as_is) i (reset (MDCPDP exact as_is) i) 0 = false.
Proof. exact md_step_ok_refuted_random_start. Qed.
Print Assumptions C02_mdcpdp_refuted_random_start_crash.

(* non-vacuity / tightness: generator format, random start depot 1: a finished episode of exactly the bound's length
   (4 customers, 2 depots: 7 steps) *)
Example C02_mdcpdp_bound_tight :
  let i := with_start (inst 2 4 [2] (unit_dist 6) 0) 1 in
  let acts := [0; 2; 3; 4; 5; 0; 1]%nat in
  md_wfb i = true /\ md_solvableb i = true /\ adm (E:=MDCPDP exact repaired) i acts = true /\ liveb repaired i acts = true /\
  done (MDCPDP exact repaired) i (run (E:=MDCPDP exact repaired) i acts) = true /\ length acts = (nloc i + 2 * ndep i - 1)%nat.
Proof. vm_compute. repeat split; reflexivity. Qed.
