(* C02 for MDCPDP -- no dead end, no crash, finished stays finished, step bound. Statements only.
   Notation as in C01_mdcpdp.v: MDCPDP exact F = the model under the repairs F; [as_is] is good on single-depot
   instances, [repaired] on all. *)
From Coq Require Import ZArith List Bool.
From RL4CO Require Import Base.Num Base.EnvSig Spec.MultiDepotPD Env.MDCPDP Env.MDCPDPDefs Env.MDCPDPProofs Env.MDCPDPRefuted.
Import ListNotations.
Open Scope Z_scope.

(* every state reached by admitted actions (the last one possibly finishing the row) offers at least one action,
   provided every vehicle can carry at least one parcel *)
Theorem C02_mdcpdp_no_dead_end :
  forall (F : mdfix) (i : md_inst) (acts : list nat),
    md_wfb i = true -> md_good F i = true -> md_solvableb i = true ->
    adm (E:=MDCPDP exact F) i acts = true ->
    (forall p q, acts = p ++ q -> q <> [] -> done (MDCPDP exact F) i (run (E:=MDCPDP exact F) i p) = false) ->
    anyb (mask (MDCPDP exact F) i (run (E:=MDCPDP exact F) i acts)) = true.
Proof. intros F i acts Hwf Hg Hs. exact (md_no_dead_end F i Hwf Hg acts Hs). Qed.
Print Assumptions C02_mdcpdp_no_dead_end.

(* ... and after the row has finished: exactly its current depot is offered, for any number of padding steps, and the
   row stays finished (first three conjuncts of the padding theorem, which is stated in full in C04_mdcpdp.v) *)
Theorem C02_mdcpdp_finished_rows_keep_a_padding_action :
  forall (F : mdfix) (i : md_inst) (acts : list nat) (k : nat),
    md_wfb i = true -> md_good F i = true -> solo i || fx_leg F = true ->
    adm (E:=MDCPDP exact F) i acts = true ->
    (forall p q, acts = p ++ q -> q <> [] -> done (MDCPDP exact F) i (run (E:=MDCPDP exact F) i p) = false) ->
    done (MDCPDP exact F) i (run (E:=MDCPDP exact F) i acts) = true ->
    let e := depot (run (E:=MDCPDP exact F) i acts) in
    adm (E:=MDCPDP exact F) i (acts ++ repeat e k) = true /\
    done (MDCPDP exact F) i (run (E:=MDCPDP exact F) i (acts ++ repeat e k)) = true /\
    mask (MDCPDP exact F) i (run (E:=MDCPDP exact F) i (acts ++ repeat e k)) = map (fun j => Nat.eqb j e) (seq 0 (ndep i + nloc i)).
Proof.
  intros F i acts k Hwf Hg Hs Ha Hl Hd. destruct (md_padding F i Hwf Hg Hs acts k Ha Hl Hd) as (H1 & H2 & H3 & _). auto.
Qed.
Print Assumptions C02_mdcpdp_finished_rows_keep_a_padding_action.

(* no crash: every tensor index used by the step of an offered action is in range *)
Theorem C02_mdcpdp_step_ok :
  forall (F : mdfix) (i : md_inst) (acts : list nat) (a : nat),
    md_wfb i = true -> md_good F i = true -> solo i || fx_leg F = true ->
    adm (E:=MDCPDP exact F) i (acts ++ [a]) = true ->
    (forall p q, acts ++ [a] = p ++ q -> q <> [] -> done (MDCPDP exact F) i (run (E:=MDCPDP exact F) i p) = false) ->
    stepok (MDCPDP exact F) i (run (E:=MDCPDP exact F) i acts) a = true.
Proof. intros F i acts a Hwf Hg Hs. exact (md_step_ok F i Hwf Hg acts a Hs). Qed.
Print Assumptions C02_mdcpdp_step_ok.

(* finished stays finished: for the code as it is and under any repair, any instance, any state, any action *)
Theorem C02_mdcpdp_done_stable :
  forall (A : arith) (F : mdfix) (i : md_inst) (s : md_st) (a : nat),
    md_done i s = true -> md_done i (md_step A F i s a) = true.
Proof. exact md_done_stable. Qed.
Print Assumptions C02_mdcpdp_done_stable.

(* step bound: an episode finishes within (nodes + depots - 1) = customers + 2 * depots - 1 steps
   (every finished episode has exactly that many: each customer once, each depot once, each vehicle but the last home) *)
Theorem C02_mdcpdp_bound :
  forall (F : mdfix) (i : md_inst) (acts : list nat),
    md_wfb i = true -> md_good F i = true ->
    adm (E:=MDCPDP exact F) i acts = true ->
    (forall p q, acts = p ++ q -> q <> [] -> done (MDCPDP exact F) i (run (E:=MDCPDP exact F) i p) = false) ->
    (length acts <= nloc i + 2 * ndep i - 1)%nat.
Proof.
  intros F i acts Hwf Hg Ha Hl. pose proof (md_bound_ok F i Hwf Hg acts Ha Hl) as H. unfold md_bound, nn in H.
  apply (PeanoNat.Nat.le_trans _ _ _ H). rewrite (PeanoNat.Nat.add_comm (nloc i)). cbn. rewrite PeanoNat.Nat.add_0_r.
  rewrite <- !PeanoNat.Nat.add_assoc. rewrite (PeanoNat.Nat.add_comm (nloc i) (ndep i)). rewrite !PeanoNat.Nat.add_assoc.
  rewrite (PeanoNat.Nat.add_comm (ndep i + ndep i) (nloc i)), PeanoNat.Nat.add_assoc. apply PeanoNat.Nat.le_refl.
Qed.
Print Assumptions C02_mdcpdp_bound.

(* the solvability hypothesis is needed: capacity 0 *)
Theorem C02_mdcpdp_dead_end_without_solvable :
  exists i acts, md_wfb i = true /\ md_solvableb i = false /\ md_good as_is i = true /\ adm (E:=MDCPDP exact as_is) i acts = true /\
                 done (MDCPDP exact as_is) i (run (E:=MDCPDP exact as_is) i acts) = false /\
                 anyb (mask (MDCPDP exact as_is) i (run (E:=MDCPDP exact as_is) i acts)) = false.
Proof. exact md_dead_end_without_solvable. Qed.
Print Assumptions C02_mdcpdp_dead_end_without_solvable.

(* the code as it is with start_mode = "random" and the generator's one-column capacity: the forced first action crashes *)
Theorem C02_mdcpdp_refuted_random_start_crash :
  exists i, md_wfb i = true /\ md_solvableb i = true /\ offered (E:=MDCPDP exact as_is) i (reset (MDCPDP exact as_is) i) 0 = true /\
            stepok (MDCPDP exact as_is) i (reset (MDCPDP exact as_is) i) 0 = false.
Proof. exact md_step_ok_refuted_random_start. Qed.
Print Assumptions C02_mdcpdp_refuted_random_start_crash.

(* non-vacuity / tightness: a finished episode of exactly the bound's length (4 customers, 2 depots: 7 steps) *)
Example C02_mdcpdp_bound_tight :
  let i := inst 2 4 [2; 1] (unit_dist 6) 0 in
  let acts := [0; 2; 3; 4; 5; 0; 1]%nat in
  md_wfb i = true /\ md_solvableb i = true /\ adm (E:=MDCPDP exact repaired) i acts = true /\ liveb repaired i acts = true /\
  done (MDCPDP exact repaired) i (run (E:=MDCPDP exact repaired) i acts) = true /\ length acts = (nloc i + 2 * ndep i - 1)%nat.
Proof. vm_compute. repeat split; reflexivity. Qed.
