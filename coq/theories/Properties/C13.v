(* C13 -- beam search returns feasible, correctly scored, distinct beams.
   Only statements closed by [exact], their Print Assumptions, and Examples.

   Vocabulary (Decoding/Beam.v, Decoding/BeamProofs.v).  The model follows rl4co.utils.decoding.BeamSearch as
   driven by ConstructivePolicy.forward: [pre_hook] (batchify by the beam width W, forced first moves),
   [beam_step] (_make_beam_step + _step + env.step), [loop], [backtrack], [select_best_beam], [forward].
   R = W * B rows, beam-major: row k*B + b is beam k of instance b.  A row of td is (instance data, state,
   ghost history) -- the ghost history is not in the code, it travels with the state through td[batch_beam_idx].
   E is any environment (Base/EnvSig.v), [lp i s] the vector of step scores (process_logits of the decoder's
   logits) for the state s of instance i, [rew] the reward function.  Scores live in any structure
   (Sc, sop, sone, sbot, sleb, fin) = (type, accumulation "+", log 1, -inf, total preorder, "> -inf");
   closed below at probabilities in an ordered field with the C10 model of process_logits ((Z, Qc, 2^z) and
   (R, R, exp)) and at exact scaled log-probabilities (option Z).  None = the real code raises.
   [run i h] = the state reached from reset by the action list h; [adm i h] = every action of h was offered by
   the mask of the state it was taken in; [score i h] = sone for the forced first move, then the step score
   of every later move, accumulated; [steps i h] the list of these step scores; [lps_along i h] the step
   score vectors along h. *)
From Coq Require Import List ZArith QArith Qcanon Reals Bool Arith Lia.
From RL4CO Require Import Base.OField Base.OFieldQc Base.OFieldR Base.EnvSig Decoding.PLTensor Decoding.ProcessLogits Decoding.PLInst
     Decoding.SelectBest Decoding.Beam Decoding.BeamProofs.
Import ListNotations.
Local Open Scope nat_scope.

(* ================================================================================================ *)
(** * 1. backtrack_is_history: the code's bookkeeping describes the state sitting in each row *)

(* After any number of steps, for every row r: the row holds the data of instance r mod B, its state is the one
   reached by the row's own history h, and what _backtrack reconstructs for output row r -- the action
   sequence and the per-step log-probability vectors -- are exactly h and the vectors the policy assigns along h;
   parent_beam_logprobs[r] is the accumulated score of h; get_log_likelihood of row r is the left-to-right sum of
   the step scores of h (and raises iff one of them is -inf). *)
Theorem C13_backtrack_is_history :
  forall (E : Env) (Sc : Type) (sop : Sc -> Sc -> Sc) (sone sbot : Sc) (sleb : Sc -> Sc -> bool) (fin : Sc -> bool)
         (lp : inst E -> st E -> list Sc) (N : nat),
    0 < N -> (forall i s, length (lp i s) = N) ->
    forall (W B : nat) (insts : list (inst E)), 0 < W -> length insts = B ->
    forall (starts : list nat) (bs0 : bstate E Sc) (fuel : nat) (bs : bstate E Sc),
      pre_hook E Sc sone W insts starts = Some bs0 ->
      loop E Sc sop sbot sleb lp fuel W bs0 = Some bs ->
      Inv E Sc sop sone sbot lp W B insts bs /\
      exists (acts : list (list nat)) (lps : list (list (list Sc))),
        backtrack E Sc W bs = Some (acts, lps) /\ length acts = W * B /\ length lps = W * B /\
        forall r, r < W * B -> exists (i : inst E) (h : list nat),
          (nth_error insts (r mod B) = Some i /\ nth_error (b_rows E Sc bs) r = Some (i, run i h, h) /\ h <> []) /\
          nth_error acts r = Some h /\
          nth_error lps r = Some (lps_along E Sc sone lp i h) /\
          nth_error (b_pbl E Sc bs) r = Some (score E Sc sop sone sbot lp i h) /\
          ll_row Sc sop sone fin (lps_along E Sc sone lp i h) h =
            (if forallb fin (steps E Sc sone sbot lp i h) then Some (fold_left sop (steps E Sc sone sbot lp i h) sone) else None).
Proof. exact final_rows. Qed.
Print Assumptions C13_backtrack_is_history.

(* the invariant is established by pre_decoder_hook (which refuses beam widths below 2) ... *)
Theorem C13_invariant_after_pre_decoder_hook :
  forall (E : Env) (Sc : Type) (sop : Sc -> Sc -> Sc) (sone sbot : Sc) (lp : inst E -> st E -> list Sc) (N : nat),
    0 < N ->
    forall (W B : nat) (insts : list (inst E)), 0 < W -> length insts = B ->
    forall (starts : list nat) (bs0 : bstate E Sc),
      pre_hook E Sc sone W insts starts = Some bs0 ->
      Inv E Sc sop sone sbot lp W B insts bs0 /\ 2 <= W /\ length starts = W * B /\
      forall r, r < W * B -> exists (i : inst E) (a : nat),
        nth_error insts (r mod B) = Some i /\ nth_error starts r = Some a /\
        nth_error (b_rows E Sc bs0) r = Some (i, step E i (reset E i) a, [a]).
Proof. exact Inv_pre_hook. Qed.
Print Assumptions C13_invariant_after_pre_decoder_hook.

(* ... and preserved by every step that does not raise *)
Theorem C13_invariant_preserved_by_step :
  forall (E : Env) (Sc : Type) (sop : Sc -> Sc -> Sc) (sone sbot : Sc) (sleb : Sc -> Sc -> bool)
         (lp : inst E -> st E -> list Sc) (N : nat),
    0 < N -> (forall i s, length (lp i s) = N) ->
    forall (W B : nat) (insts : list (inst E)), 0 < W -> length insts = B ->
    forall bs bs' : bstate E Sc,
      Inv E Sc sop sone sbot lp W B insts bs -> beam_step E Sc sop sbot sleb lp W bs = Some bs' ->
      Inv E Sc sop sone sbot lp W B insts bs'.
Proof. exact Inv_step. Qed.
Print Assumptions C13_invariant_preserved_by_step.

(* ================================================================================================ *)
(** * 2. beam_topk: the kept rows are the W highest-scoring expansions of the instance's own rows *)

(* For every instance b and every rank k < W, row k*B + b after the step is the expansion of the instance's own
   row parent*B + b by the action, with parent = idx / N and action = idx mod N < N; its new accumulated score is
   that expansion's score; different ranks have different (parent, action); every expansion (j, n) of the
   instance's rows that was NOT kept scores at most as much as every kept one; kept rows are ordered best first
   and -- the model's deterministic tie rule -- among equal scores by ascending stacked index parent*N + action. *)
Theorem C13_beam_topk :
  forall (E : Env) (Sc : Type) (sop : Sc -> Sc -> Sc) (sone sbot : Sc) (sleb : Sc -> Sc -> bool)
         (lp : inst E -> st E -> list Sc),
    (forall x y, sleb x y = true \/ sleb y x = true) ->
    (forall x y z, sleb x y = true -> sleb y z = true -> sleb x z = true) ->
    forall N : nat, 0 < N -> (forall i s, length (lp i s) = N) ->
    forall (W B : nat) (insts : list (inst E)), 0 < W -> length insts = B ->
    forall bs bs' : bstate E Sc,
      Inv E Sc sop sone sbot lp W B insts bs -> beam_step E Sc sop sbot sleb lp W bs = Some bs' ->
      forall b, b < B ->
        let P := parent_of E Sc sop sbot sleb lp N W B bs b in
        let A := action_of E Sc sop sbot sleb lp N W B bs b in
        let X := expansion_score E Sc sop sbot lp bs in
        (forall k, k < W ->
           P k < W /\ A k < N /\
           exists rq, nth_error (b_rows E Sc bs) (P k * B + b) = Some rq /\
             nth_error (b_rows E Sc bs') (k * B + b) = Some (row_step E rq (A k)) /\
             nth_error (b_pbl E Sc bs') (k * B + b) = Some (X (P k * B + b) (A k))) /\
        (forall k k', k < W -> k' < W -> P k = P k' -> A k = A k' -> k = k') /\
        (forall k j n, k < W -> j < W -> n < N ->
           (forall k', k' < W -> ~ (P k' = j /\ A k' = n)) ->
           sleb (X (j * B + b) n) (X (P k * B + b) (A k)) = true) /\
        (forall k k', k < k' -> k' < W ->
           let s := X (P k * B + b) (A k) in
           let s' := X (P k' * B + b) (A k') in
           sleb s' s = true /\ (sleb s s' = true -> P k * N + A k < P k' * N + A k')).
Proof. exact beam_topk. Qed.
Print Assumptions C13_beam_topk.

(* ================================================================================================ *)
(** * 3. beams_distinct *)

(* If the forced first moves of instance b are pairwise distinct, the W returned sequences of instance b are
   pairwise distinct (by injectivity of (parent, action) at every step). *)
Theorem C13_beams_distinct :
  forall (E : Env) (Sc : Type) (sop : Sc -> Sc -> Sc) (sone sbot : Sc) (sleb : Sc -> Sc -> bool)
         (lp : inst E -> st E -> list Sc),
    (forall x y, sleb x y = true \/ sleb y x = true) ->
    (forall x y z, sleb x y = true -> sleb y z = true -> sleb x z = true) ->
    forall N : nat, 0 < N -> (forall i s, length (lp i s) = N) ->
    forall (W B : nat) (insts : list (inst E)), 0 < W -> length insts = B ->
    forall (starts : list nat) (bs0 : bstate E Sc) (fuel : nat) (bs : bstate E Sc) (b : nat),
      pre_hook E Sc sone W insts starts = Some bs0 ->
      loop E Sc sop sbot sleb lp fuel W bs0 = Some bs ->
      b < B ->
      (forall j j', j < W -> j' < W -> nth_error starts (j * B + b) = nth_error starts (j' * B + b) -> j = j') ->
      forall j j', j < W -> j' < W ->
        hist_at E Sc bs (j * B + b) = hist_at E Sc bs (j' * B + b) -> j = j'.
Proof. exact distinct_final. Qed.
Print Assumptions C13_beams_distinct.

(* ================================================================================================ *)
(** * 4. beams_feasible *)

(* (a) What the code's assertion guarantees, unconditionally: if the forced first moves are offered by the reset
   masks and the run does not raise, every move of every final beam was offered by the mask of the state it was
   taken in. *)
Theorem C13_beams_feasible :
  forall (E : Env) (Sc : Type) (sop : Sc -> Sc -> Sc) (sone sbot : Sc) (sleb : Sc -> Sc -> bool) (fin : Sc -> bool)
         (lp : inst E -> st E -> list Sc) (N : nat),
    0 < N -> (forall i s, length (lp i s) = N) ->
    forall (W B : nat) (insts : list (inst E)), 0 < W -> length insts = B ->
    forall (starts : list nat) (bs0 : bstate E Sc) (fuel : nat) (bs : bstate E Sc),
      pre_hook E Sc sone W insts starts = Some bs0 ->
      (forall r i a, nth_error insts (r mod B) = Some i -> nth_error starts r = Some a -> offered i (reset E i) a = true) ->
      loop E Sc sop sbot sleb lp fuel W bs0 = Some bs ->
      forall r, r < W * B -> exists (i : inst E) (h : list nat),
        (nth_error insts (r mod B) = Some i /\ nth_error (b_rows E Sc bs) r = Some (i, run i h, h) /\ h <> []) /\
        adm i h = true.
Proof. exact adm_final. Qed.
Print Assumptions C13_beams_feasible.

(* (b) Totality: if along admitted histories some action always has a finite step score (C02 no dead end + C10
   keeps a most likely feasible action) and finite step scores only go to offered actions (C10 support), every
   instance always has at least W finite expansions, no -inf entry is ever selected, and the decoding loop never
   raises (no index out of range, no "infeasible action selected"); final beams are admitted with finite scores. *)
Theorem C13_no_assertion_without_dead_ends :
  forall (E : Env) (Sc : Type) (sop : Sc -> Sc -> Sc) (sone sbot : Sc) (sleb : Sc -> Sc -> bool) (fin : Sc -> bool)
         (lp : inst E -> st E -> list Sc),
    (forall x y, sleb x y = true \/ sleb y x = true) ->
    (forall x y z, sleb x y = true -> sleb y z = true -> sleb x z = true) ->
    forall N : nat, 0 < N -> (forall i s, length (lp i s) = N) ->
    forall (W B : nat) (insts : list (inst E)), 0 < W -> length insts = B ->
    fin sone = true ->
    (forall a b, fin a = true -> fin b = true -> fin (sop b a) = true) ->
    (forall a b, fin (sop b a) = true -> fin a = true -> fin b = true) ->
    (forall x y, fin x = false -> fin y = true -> sleb y x = false) ->
    (forall (i : inst E) h a, adm i h = true -> h <> [] -> fin (nth a (lp i (run i h)) sbot) = true -> offered i (run i h) a = true) ->
    (forall (i : inst E) h, adm i h = true -> h <> [] -> exists a, a < N /\ fin (nth a (lp i (run i h)) sbot) = true) ->
    (forall (i : inst E) h a, adm i h = true -> h <> [] -> offered i (run i h) a = true -> stepok E i (run i h) a = true) ->
    forall (starts : list nat) (bs0 : bstate E Sc) (fuel : nat),
      0 < B ->
      pre_hook E Sc sone W insts starts = Some bs0 ->
      (forall r i a, nth_error insts (r mod B) = Some i -> nth_error starts r = Some a -> offered i (reset E i) a = true) ->
      exists bs, loop E Sc sop sbot sleb lp fuel W bs0 = Some bs /\
        forall r, r < W * B -> exists (i : inst E) (h : list nat),
          (nth_error insts (r mod B) = Some i /\ nth_error (b_rows E Sc bs) r = Some (i, run i h, h) /\ h <> []) /\
          adm i h = true /\ fin (score E Sc sop sone sbot lp i h) = true.
Proof. exact run_total. Qed.
Print Assumptions C13_no_assertion_without_dead_ends.

(* one step of (b): the step is defined and keeps "admitted" and "finite" *)
Theorem C13_step_total_without_dead_ends :
  forall (E : Env) (Sc : Type) (sop : Sc -> Sc -> Sc) (sone sbot : Sc) (sleb : Sc -> Sc -> bool) (fin : Sc -> bool)
         (lp : inst E -> st E -> list Sc),
    (forall x y, sleb x y = true \/ sleb y x = true) ->
    (forall x y z, sleb x y = true -> sleb y z = true -> sleb x z = true) ->
    forall N : nat, 0 < N -> (forall i s, length (lp i s) = N) ->
    forall (W B : nat) (insts : list (inst E)), 0 < W -> length insts = B ->
    (forall a b, fin a = true -> fin b = true -> fin (sop b a) = true) ->
    (forall a b, fin (sop b a) = true -> fin a = true -> fin b = true) ->
    (forall x y, fin x = false -> fin y = true -> sleb y x = false) ->
    (forall (i : inst E) h a, adm i h = true -> h <> [] -> fin (nth a (lp i (run i h)) sbot) = true -> offered i (run i h) a = true) ->
    (forall (i : inst E) h, adm i h = true -> h <> [] -> exists a, a < N /\ fin (nth a (lp i (run i h)) sbot) = true) ->
    (forall (i : inst E) h a, adm i h = true -> h <> [] -> offered i (run i h) a = true -> stepok E i (run i h) a = true) ->
    forall bs : bstate E Sc,
      0 < B -> Inv E Sc sop sone sbot lp W B insts bs -> rows_adm E Sc bs -> pbl_finite E Sc fin bs ->
      exists bs', beam_step E Sc sop sbot sleb lp W bs = Some bs' /\ rows_adm E Sc bs' /\ pbl_finite E Sc fin bs'.
Proof. exact beam_step_total. Qed.
Print Assumptions C13_step_total_without_dead_ends.

(* (c) With FEWER than W finite expansions for some instance the top-W necessarily contains a -inf entry: if its
   action is masked the assertion fires (beam_step = None); if the step goes through, that row carries a -inf
   accumulated score, and get_log_likelihood raises on it if it is returned.  The code never returns a masked
   action silently (this is (a)); see the Example at the end for the second case. *)
Theorem C13_fewer_than_w_finite_expansions :
  forall (E : Env) (Sc : Type) (sop : Sc -> Sc -> Sc) (sone sbot : Sc) (sleb : Sc -> Sc -> bool) (fin : Sc -> bool)
         (lp : inst E -> st E -> list Sc),
    (forall x y, sleb x y = true \/ sleb y x = true) ->
    (forall x y z, sleb x y = true -> sleb y z = true -> sleb x z = true) ->
    forall N : nat, 0 < N -> (forall i s, length (lp i s) = N) ->
    forall (W B : nat) (insts : list (inst E)), 0 < W -> length insts = B ->
    forall (bs bs' : bstate E Sc) (b : nat),
      Inv E Sc sop sone sbot lp W B insts bs -> beam_step E Sc sop sbot sleb lp W bs = Some bs' -> b < B ->
      count fin (hstack Sc B W (lb_of E Sc sop lp bs) b) < W ->
      exists k p, k < W /\ nth_error (b_pbl E Sc bs') (k * B + b) = Some p /\ fin p = false.
Proof. exact step_selects_nonfinite. Qed.
Print Assumptions C13_fewer_than_w_finite_expansions.

(* the underlying facts about the model of torch.topk on one row xs: with at least k finite entries only finite
   entries are selected; every selected entry dominates every unselected one *)
Theorem C13_topk_selects_finite :
  forall (Sc : Type) (sleb : Sc -> Sc -> bool) (sbot : Sc),
    (forall x y, sleb x y = true \/ sleb y x = true) ->
    (forall x y z, sleb x y = true -> sleb y z = true -> sleb x z = true) ->
    forall fin : Sc -> bool, (forall x y, fin x = false -> fin y = true -> sleb y x = false) ->
    forall (k : nat) (xs : list Sc) (i : nat),
      k <= count fin xs -> In i (topk_idx Sc sleb sbot k xs) -> fin (nth i xs sbot) = true.
Proof. exact topk_finite. Qed.
Print Assumptions C13_topk_selects_finite.

Theorem C13_topk_dominates :
  forall (Sc : Type) (sleb : Sc -> Sc -> bool) (sbot : Sc),
    (forall x y, sleb x y = true \/ sleb y x = true) ->
    (forall x y z, sleb x y = true -> sleb y z = true -> sleb x z = true) ->
    forall (k : nat) (xs : list Sc) (i j : nat),
      In i (topk_idx Sc sleb sbot k xs) -> j < length xs -> ~ In j (topk_idx Sc sleb sbot k xs) ->
      sleb (nth j xs sbot) (nth i xs sbot) = true.
Proof. exact topk_dominates. Qed.
Print Assumptions C13_topk_dominates.

(* ================================================================================================ *)
(** * 5. score = sum of the step log-probabilities; what the policy returns *)

(* the accumulated beam score (parent_beam_logprobs) equals the left-to-right sum get_log_likelihood computes *)
Theorem C13_score_is_sum_of_step_scores :
  forall (E : Env) (Sc : Type) (sop : Sc -> Sc -> Sc) (sone sbot : Sc) (lp : inst E -> st E -> list Sc),
    (forall a b, sop a b = sop b a) -> (forall a, sop sone a = a) ->
    forall (i : inst E) (h : list nat),
      fold_left sop (steps E Sc sone sbot lp i h) sone = score E Sc sop sone sbot lp i h.
Proof. exact fold_steps_score. Qed.
Print Assumptions C13_score_is_sum_of_step_scores.

(* select_best = False: row r of every output belongs to instance r mod B; the returned actions are the history h
   of the returned state; the returned log-likelihood is the sum of the step scores along h (all finite); the
   returned reward is the reward of h on that instance *)
Theorem C13_forward_all_beams :
  forall (E : Env) (Sc : Type) (sop : Sc -> Sc -> Sc) (sone sbot : Sc) (sleb : Sc -> Sc -> bool) (fin : Sc -> bool)
         (lp : inst E -> st E -> list Sc) (rew : inst E -> st E -> list nat -> Z) (N : nat),
    0 < N -> (forall i s, length (lp i s) = N) ->
    forall (W B : nat) (insts : list (inst E)), 0 < W -> length insts = B ->
    forall (fuel : nat) (starts : list nat) (ll : list Sc) (acts : list (list nat)) (rws : list Z) (rows : list (row E)),
      forward E Sc sop sone sbot sleb fin lp rew fuel W false insts starts = Some (ll, acts, rws, rows) ->
      length acts = W * B /\ length ll = W * B /\
      forall r, r < W * B -> exists (i : inst E) (h : list nat),
        nth_error insts (r mod B) = Some i /\ nth_error rows r = Some (i, run i h, h) /\
        nth_error acts r = Some h /\ forallb fin (steps E Sc sone sbot lp i h) = true /\
        nth_error ll r = Some (fold_left sop (steps E Sc sone sbot lp i h) sone) /\
        nth_error rws r = Some (rew i (run i h) h).
Proof. exact forward_all_beams. Qed.
Print Assumptions C13_forward_all_beams.

(* ================================================================================================ *)
(** * 6. best_beam_max *)

(* select_best = True: output row b is, for instance b, the row r of the final beam state with r mod B = b whose
   reward is maximal among the instance's own W beams (the first such row, torch.max), with that beam's actions,
   log-likelihood, reward and state *)
Theorem C13_best_beam_max :
  forall (E : Env) (Sc : Type) (sop : Sc -> Sc -> Sc) (sone sbot : Sc) (sleb : Sc -> Sc -> bool) (fin : Sc -> bool)
         (lp : inst E -> st E -> list Sc) (rew : inst E -> st E -> list nat -> Z) (N : nat),
    0 < N -> (forall i s, length (lp i s) = N) ->
    forall (W B : nat) (insts : list (inst E)), 0 < W -> length insts = B ->
    forall (fuel : nat) (starts : list nat) (ll : list Sc) (acts : list (list nat)) (rws : list Z) (rows : list (row E)),
      forward E Sc sop sone sbot sleb fin lp rew fuel W true insts starts = Some (ll, acts, rws, rows) ->
      exists (bs0 bs : bstate E Sc) (acts0 : list (list nat)) (lps0 : list (list (list Sc))),
        pre_hook E Sc sone W insts starts = Some bs0 /\
        loop E Sc sop sbot sleb lp fuel W bs0 = Some bs /\
        backtrack E Sc W bs = Some (acts0, lps0) /\
        length acts = B /\ length ll = B /\
        forall b, b < B -> exists (r : nat) (i : inst E) (h : list nat),
          is_best B W (rewards_of E rew (b_rows E Sc bs) acts0) b r /\
          nth_error insts b = Some i /\
          nth_error (b_rows E Sc bs) r = Some (i, run i h, h) /\ nth_error acts0 r = Some h /\
          nth_error rows b = Some (i, run i h, h) /\ nth_error acts b = Some h /\
          forallb fin (steps E Sc sone sbot lp i h) = true /\
          nth_error ll b = Some (fold_left sop (steps E Sc sone sbot lp i h) sone) /\
          nth_error rws b = Some (rew i (run i h) h).
Proof. exact forward_best_beam. Qed.
Print Assumptions C13_best_beam_max.

(* _select_best_beam on any three [W*B]-row tensors *)
Theorem C13_select_best_beam :
  forall (E : Env) (Sc : Type) (rew : inst E -> st E -> list nat -> Z) (W B : nat), 0 < W ->
  forall (lps : list (list (list Sc))) (acts : list (list nat)) (rows : list (row E)),
    length lps = W * B -> length acts = W * B -> length rows = W * B ->
    exists l a t, select_best_beam E Sc rew W (lps, acts, rows) = Some (l, a, t) /\
      length l = B /\ length a = B /\ length t = B /\
      forall b, b < B -> exists r, is_best B W (rewards_of E rew rows acts) b r /\
        nth_error a b = nth_error acts r /\ nth_error l b = nth_error lps r /\ nth_error t b = nth_error rows r.
Proof. exact select_best_beam_spec. Qed.
Print Assumptions C13_select_best_beam.

(* ================================================================================================ *)
(** * 7. Closed at the score instances *)

(* probabilities in ANY ordered field K with weights e : L -> K (e_pos, e_mono), step scores = the C10 model of
   process_logits (any monotone clip / temperature maps are not even needed here, any top_p, top_k): under C02
   the loop never raises and every final beam is admitted with positive probability *)
Theorem C13_beam_search_over_ordered_field :
  forall (K : ofield) (L : Type) (lleb : L -> L -> bool) (e : L -> K),
    (forall x, flt f0 (e x)) -> (forall x y, lleb x y = fleb (e x) (e y)) ->
    forall (clip tmp : L -> L) (top_p : K) (top_k : nat) (E : Env) (dec : inst E -> st E -> list L) (N : nat),
      (forall i s, length (dec i s) = N) -> (forall i s, length (mask E i s) = N) ->
      (forall (i : inst E) h, adm i h = true -> h <> [] -> exists a, offered i (run i h) a = true) ->
      0 < N ->
      (forall (i : inst E) h a, adm i h = true -> h <> [] -> offered i (run i h) a = true -> stepok E i (run i h) a = true) ->
      forall (W B : nat) (insts : list (inst E)) (starts : list nat) (bs0 : bstate E K) (fuel : nat),
        0 < W -> length insts = B -> 0 < B ->
        pre_hook E K f1 W insts starts = Some bs0 ->
        (forall r i a, nth_error insts (r mod B) = Some i -> nth_error starts r = Some a -> offered i (reset E i) a = true) ->
        exists bs, loop E K fmul f0 fleb (lpK K L lleb e clip tmp top_p top_k E dec) fuel W bs0 = Some bs /\
          forall r, r < W * B -> exists (i : inst E) (h : list nat),
            (nth_error insts (r mod B) = Some i /\ nth_error (b_rows E K bs) r = Some (i, run i h, h) /\ h <> []) /\
            adm i h = true /\ flt f0 (score E K fmul f1 f0 (lpK K L lleb e clip tmp top_p top_k E dec) i h).
Proof. exact field_run_total. Qed.
Print Assumptions C13_beam_search_over_ordered_field.

(* (Z, Qc, 2^z): the executable instance the stub-decoder runs are checked with *)
Theorem C13_beam_search_Qc :
  forall (clip tmp : Z -> Z) (top_p : Qc) (top_k : nat) (E : Env) (dec : inst E -> st E -> list Z) (N : nat),
    (forall i s, length (dec i s) = N) -> (forall i s, length (mask E i s) = N) ->
    (forall (i : inst E) h, adm i h = true -> h <> [] -> exists a, offered i (run i h) a = true) ->
    0 < N ->
    (forall (i : inst E) h a, adm i h = true -> h <> [] -> offered i (run i h) a = true -> stepok E i (run i h) a = true) ->
    forall (W B : nat) (insts : list (inst E)) (starts : list nat) (bs0 : bstate E Qc) (fuel : nat),
      0 < W -> length insts = B -> 0 < B ->
      pre_hook E Qc 1%Qc W insts starts = Some bs0 -> starts_offered E B insts starts ->
      exists bs, loop E Qc Qcmult 0%Qc Qcleb (lpQc clip tmp top_p top_k E dec) fuel W bs0 = Some bs /\
        forall r, r < W * B -> exists i h, beam_of_row E Qc B insts bs r i h /\ adm i h = true /\
          (0 < score E Qc Qcmult 1%Qc 0%Qc (lpQc clip tmp top_p top_k E dec) i h)%Qc.
Proof. exact beam_run_total_Qc. Qed.
Print Assumptions C13_beam_search_Qc.

(* (R, R, exp): real softmax probabilities *)
Theorem C13_beam_search_R :
  forall (clip tmp : R -> R) (top_p : R) (top_k : nat) (E : Env) (dec : inst E -> st E -> list R) (N : nat),
    (forall i s, length (dec i s) = N) -> (forall i s, length (mask E i s) = N) ->
    (forall (i : inst E) h, adm i h = true -> h <> [] -> exists a, offered i (run i h) a = true) ->
    0 < N ->
    (forall (i : inst E) h a, adm i h = true -> h <> [] -> offered i (run i h) a = true -> stepok E i (run i h) a = true) ->
    forall (W B : nat) (insts : list (inst E)) (starts : list nat) (bs0 : bstate E R) (fuel : nat),
      0 < W -> length insts = B -> 0 < B ->
      pre_hook E R 1%R W insts starts = Some bs0 -> starts_offered E B insts starts ->
      exists bs, loop E R Rmult 0%R Rleb (lpR clip tmp top_p top_k E dec) fuel W bs0 = Some bs /\
        forall r, r < W * B -> exists i h, beam_of_row E R B insts bs r i h /\ adm i h = true /\
          (0 < score E R Rmult 1%R 0%R (lpR clip tmp top_p top_k E dec) i h)%R.
Proof. exact beam_run_total_R. Qed.
Print Assumptions C13_beam_search_R.

(* (option Z, +, Some 0, None): exact scaled log-probabilities -- the instance the real policy's runs are checked with *)
Theorem C13_beam_search_log_scores :
  forall (E : Env) (lp : inst E -> st E -> list (option Z)) (N : nat),
    0 < N -> (forall i s, length (lp i s) = N) ->
    (forall (i : inst E) h a, adm i h = true -> h <> [] -> zfin (nth a (lp i (run i h)) None) = true -> offered i (run i h) a = true) ->
    (forall (i : inst E) h, adm i h = true -> h <> [] -> exists a, a < N /\ zfin (nth a (lp i (run i h)) None) = true) ->
    (forall (i : inst E) h a, adm i h = true -> h <> [] -> offered i (run i h) a = true -> stepok E i (run i h) a = true) ->
    forall (W B : nat) (insts : list (inst E)) (starts : list nat) (bs0 : bstate E (option Z)) (fuel : nat),
      0 < W -> length insts = B -> 0 < B ->
      pre_hook E (option Z) (Some 0%Z) W insts starts = Some bs0 -> starts_offered E B insts starts ->
      exists bs, loop E (option Z) zadd None zleb lp fuel W bs0 = Some bs /\
        forall r, r < W * B -> exists i h, beam_of_row E (option Z) B insts bs r i h /\ adm i h = true /\
          zfin (score E (option Z) zadd (Some 0%Z) None lp i h) = true.
Proof. exact beam_run_total_logZ. Qed.
Print Assumptions C13_beam_search_log_scores.

(* ================================================================================================ *)
(** * Examples (non-vacuity): a concrete total environment and decoder satisfying every hypothesis above *)

(* toyE: 4 nodes, node 0 always offered, nodes 1..3 while unvisited; toy_dec: state-dependent integer logits *)
Example C13_ex_hypotheses :
  (forall i s, length (toy_dec i s) = 4) /\ (forall i s, length (mask toyE i s) = 4) /\
  (forall (i : inst toyE) h, adm i h = true -> h <> [] -> exists a, offered i (run i h) a = true) /\
  (forall (i : inst toyE) h a, adm i h = true -> h <> [] -> offered i (run i h) a = true -> stepok toyE i (run i h) a = true) /\
  (forall i s, length (lpQc (fun z => z) (fun z => z) 0%Qc 0 toyE toy_dec i s) = 4).
Proof.
  split; [exact toy_dec_len|]. split; [exact toy_mask_len|]. split; [exact toy_nde|]. split; [exact toy_stepok|].
  intros i s. apply (lpK_len QcF Z Z.leb pow2 (fun z => z) (fun z => z) 0%Qc 0 toyE toy_dec 4 toy_dec_len toy_mask_len).
Qed.

(* two instances, beam width 2, forced first moves (1, 2) for instance 0 and (1, 3) for instance 1: they are
   offered by the reset mask and pairwise distinct per instance *)
Example C13_ex_starts :
  starts_offered toyE 2 [tt; tt] [1; 1; 2; 3] /\
  (forall b, b < 2 -> forall j j', j < 2 -> j' < 2 ->
     nth_error [1; 1; 2; 3] (j * 2 + b) = nth_error [1; 1; 2; 3] (j' * 2 + b) -> j = j').
Proof.
  split.
  - intros r i a _ Ha. do 4 (destruct r as [|r]; [cbn in Ha; injection Ha as <-; reflexivity|]). cbn in Ha. destruct r; discriminate.
  - intros b Hb j j' Hj Hj'. destruct b as [|[|b]]; [| |lia]; destruct j as [|[|j]], j' as [|[|j']]; try lia; cbn; intros H; try reflexivity; discriminate.
Qed.

(* the run: after the forced moves the candidates of instance 0 are [1]->0 (1/13), [1]->2 (2/13), [1]->3 (8/13 * ...)...;
   what the model returns: sequences, probabilities (= exp of the log-likelihood), rewards, and the histories of the
   returned states (equal to the sequences: backtrack_is_history) *)
Example C13_ex_forward_all :
  toy_show toyE (forward toyE Qc Qcmult 1%Qc 0%Qc Qcleb (finK QcF) toy_lp toy_rew 20 2 false [tt; tt] [1; 1; 2; 3])
  = Some ([8 # 21; 8 # 21; 8 # 27; 8 # 21]%Q, [[1; 3; 2]; [1; 3; 2]; [2; 1; 3]; [3; 1; 2]],
          [-4; -4; -5; -6]%Z, [[1; 3; 2]; [1; 3; 2]; [2; 1; 3]; [3; 1; 2]]).
Proof. vm_compute. reflexivity. Qed.

(* select_best: instance 0 keeps its beam [1;3;2] (reward -4 > -5), instance 1 its beam [1;3;2] (-4 > -6) *)
Example C13_ex_forward_best :
  toy_show toyE (forward toyE Qc Qcmult 1%Qc 0%Qc Qcleb (finK QcF) toy_lp toy_rew 20 2 true [tt; tt] [1; 1; 2; 3])
  = Some ([8 # 21; 8 # 21]%Q, [[1; 3; 2]; [1; 3; 2]], [-4; -4]%Z, [[1; 3; 2]; [1; 3; 2]]).
Proof. vm_compute. reflexivity. Qed.

(* beam width 1 is refused (assert self.beam_width > 1) *)
Example C13_ex_width_one_refused :
  pre_hook toyE Qc 1%Qc 1 [tt; tt] [1; 1] = None.
Proof. reflexivity. Qed.

(* fewer than W finite expansions: deadE has a dead end at state [2]; with top_k = 1 the other beam [1] has ONE finite
   expansion, so 1 < W = 2: the step selects [1]->3 and then a -inf entry, the unmasked but filtered [1]->0; the
   assertion passes, the row carries probability 0, and the run raises in get_log_likelihood (forward = None) *)
Example C13_ex_fewer_than_w_finite :
  match pre_hook deadE Qc 1%Qc 2 [tt] [1; 2] with
  | Some bs0 =>
      count (finK QcF) (hstack Qc 1 2 (lb_of deadE Qc Qcmult dead_lp bs0) 0) = 1 /\
      match beam_step deadE Qc Qcmult 0%Qc Qcleb dead_lp 2 bs0 with
      | Some bs1 => map (r_hist deadE) (b_rows deadE Qc bs1) = [[1; 3]; [1; 0]] /\
                    map (fun x : Qc => this x) (b_pbl deadE Qc bs1) = [1; 0]%Q
      | None => False
      end
  | None => False
  end /\
  forward deadE Qc Qcmult 1%Qc 0%Qc Qcleb (finK QcF) dead_lp toy_rew 20 2 false [tt] [1; 2] = None.
Proof. vm_compute. repeat split. Qed.
