(* C06 for OP -- check_solution_validity against the problem definition. Statements only. *)
From Coq Require Import ZArith List Bool.
From RL4CO Require Import Base.Num Base.EnvSig Spec.Routes Env.OP Env.OPProofs.
Import ListNotations.
Open Scope Z_scope.

(* for action lists that end at the depot (every completed episode does) the checker DECIDES the specification
   relaxed by exactly its own tolerance: accepted <=> no customer twice, existing nodes only, and
   closed length <= original max_length + 1e-5 *)
Theorem C06_op_checker_iff :
  forall (i : op_inst) (acts : list nat),
    op_wf i -> acts <> [] -> last acts 0%nat = 0%nat ->
    (op_checker exact i acts = true <->
     (forall j, (1 <= j)%nat -> (occ j acts <= 1)%nat) /\ (forall a, In a acts -> (a <= op_n i)%nat) /\
     sumZ (map (route_len (odfun i)) (routes acts)) <= maxlen i + otol i).
Proof. exact op_checker_iff. Qed.
Print Assumptions C06_op_checker_iff.

(* completeness for ANY feasible action list, including one that never returns to the depot, given the single
   instance of the triangle inequality that compares the checker's closing leg last -> first with the detour over
   the depot (trivially true when the list ends at the depot) *)
Theorem C06_op_checker_complete :
  forall (i : op_inst) (acts : list nat),
    op_wf i -> 0 <= otol i -> op_feasible i acts ->
    odfun i (last acts 0%nat) (hd 0%nat acts) <= odfun i (last acts 0%nat) 0%nat + odfun i 0%nat (hd 0%nat acts) ->
    op_checker exact i acts = true.
Proof. exact op_checker_complete. Qed.
Print Assumptions C06_op_checker_complete.

Theorem C06_op_checker_rejects_duplicate :
  forall (i : op_inst) (acts : list nat) (j : nat),
    (1 <= j)%nat -> (2 <= occ j acts)%nat -> op_checker exact i acts = false.
Proof. exact op_checker_rejects_duplicate. Qed.
Print Assumptions C06_op_checker_rejects_duplicate.

Theorem C06_op_checker_rejects_unknown_node :
  forall (i : op_inst) (acts : list nat) (a : nat),
    In a acts -> (op_n i < a)%nat -> op_checker exact i acts = false.
Proof. exact op_checker_rejects_unknown_node. Qed.
Print Assumptions C06_op_checker_rejects_unknown_node.

Theorem C06_op_checker_rejects_overlength :
  forall (i : op_inst) (acts : list nat),
    op_wf i -> acts <> [] -> last acts 0%nat = 0%nat ->
    maxlen i + otol i < sumZ (map (route_len (odfun i)) (routes acts)) ->
    op_checker exact i acts = false.
Proof. exact op_checker_rejects_overlength. Qed.
Print Assumptions C06_op_checker_rejects_overlength.

(* FINDING (faithful model): without the final depot the checker measures only the cycle through the listed nodes
   and ignores both depot legs, so the soundness half does NOT extend to action lists that do not end at the depot:
   an over-length tour is accepted.  Reproduced on the real checker by the harness. *)
Theorem C06_op_checker_noreturn_refuted :
  exists (i : op_inst) (acts : list nat),
    op_wf i /\ 0 <= otol i /\ op_checker exact i acts = true /\
    maxlen i + otol i < sumZ (map (route_len (odfun i)) (routes acts)).
Proof. exact op_checker_noreturn_refuted. Qed.
Print Assumptions C06_op_checker_noreturn_refuted.

Example C06_op_nonvacuous :
  let i := {| prz := [10; 20]; maxlen := 12; eps := 1; odist := [[0; 3; 4]; [3; 0; 5]; [4; 5; 0]]; otol := 0 |} in
  op_checker exact i [1; 2; 0]%nat = true /\ op_checker exact i [1; 1; 0]%nat = false /\
  op_checker exact i [1; 0; 2; 0]%nat = false /\ op_checker exact i [1; 2; 0; 0]%nat = true.
Proof. vm_compute. auto. Qed.
