(* C06 for OP -- check_solution_validity against the problem definition. Statements only. *)
From Coq Require Import ZArith List Bool.
From RL4CO Require Import Base.Num Base.EnvSig Spec.Routes Env.OP Env.OPProofs.
Import ListNotations.
Open Scope Z_scope.

(* for EVERY action list -- whether or not it ends at the depot, whether or not it passes through the depot -- the
   checker DECIDES the specification relaxed by exactly its own tolerance: accepted <=> no customer twice, existing
   nodes only, and the closed walk depot -> actions -> depot is at most original max_length + 1e-5 long.
   (Before the repair 728e3da of /repo this held only for lists ending at the depot; the refutation witness of the
   unrestricted statement is recorded as fixed in known_findings.json and stays in the correspondence stream.) *)
Theorem C06_op_checker_iff :
  forall (i : op_inst) (acts : list nat),
    op_wf i ->
    (op_checker exact i acts = true <->
     (forall j, (1 <= j)%nat -> (occ j acts <= 1)%nat) /\ (forall a, In a acts -> (a <= op_n i)%nat) /\
     sumZ (map (route_len (odfun i)) (routes acts)) <= maxlen i + otol i).
Proof. exact op_checker_iff. Qed.
Print Assumptions C06_op_checker_iff.

(* completeness: every feasible action list is accepted, also one that never returns to the depot; no metric fact *)
Theorem C06_op_checker_complete :
  forall (i : op_inst) (acts : list nat),
    op_wf i -> 0 <= otol i -> op_feasible i acts -> op_checker exact i acts = true.
Proof. exact op_checker_complete. Qed.
Print Assumptions C06_op_checker_complete.

(* ... in particular every mask-made action list (C01 + completeness) *)
Theorem C06_op_checker_accepts_mask_made :
  forall (i : op_inst) (acts : list nat),
    op_wf i -> 0 <= otol i -> adm (E:=OP exact) i acts = true -> op_checker exact i acts = true.
Proof. exact op_checker_accepts_mask_made. Qed.
Print Assumptions C06_op_checker_accepts_mask_made.

Theorem C06_op_checker_rejects_duplicate :
  forall (i : op_inst) (acts : list nat) (j : nat),
    (1 <= j)%nat -> (2 <= occ j acts)%nat -> op_checker exact i acts = false.
Proof. exact op_checker_rejects_duplicate. Qed.
Print Assumptions C06_op_checker_rejects_duplicate.

Theorem C06_op_checker_rejects_unknown_node :
  forall (i : op_inst) (acts : list nat) (a : nat),
    In a acts -> (op_n i < a)%nat -> op_checker exact i acts = false.
Proof. exact op_checker_rejects_unknown_node. Qed.
Print Assumptions C06_op_checker_rejects_unknown_node.

Theorem C06_op_checker_rejects_overlength :
  forall (i : op_inst) (acts : list nat),
    op_wf i -> maxlen i + otol i < sumZ (map (route_len (odfun i)) (routes acts)) ->
    op_checker exact i acts = false.
Proof. exact op_checker_rejects_overlength. Qed.
Print Assumptions C06_op_checker_rejects_overlength.

(* the former witness (depot at distance 10 from the single customer, limit 5, action list [1]) is now rejected *)
Example C06_op_former_noreturn_witness_rejected :
  let i := {| prz := [1]; maxlen := 5; eps := 0; odist := [[0; 10]; [10; 0]]; otol := 0 |} in
  op_wfb i = true /\ op_checker exact i [1]%nat = false /\ op_checker exact i [1; 0]%nat = false.
Proof. vm_compute. auto. Qed.

Example C06_op_nonvacuous :
  let i := {| prz := [10; 20]; maxlen := 12; eps := 1; odist := [[0; 3; 4]; [3; 0; 5]; [4; 5; 0]]; otol := 0 |} in
  op_checker exact i [1; 2; 0]%nat = true /\ op_checker exact i [1; 2]%nat = true /\ op_checker exact i [1; 1; 0]%nat = false /\
  op_checker exact i [1; 0; 2; 0]%nat = false /\ op_checker exact i [1; 2; 0; 0]%nat = true.
Proof. vm_compute. auto. Qed.
