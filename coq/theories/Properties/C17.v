(* C17 -- datasets, collation and baseline wrapping preserve instance identity and order.
   This file contains only statements closed by [exact] and their Print Assumptions (plus Examples).
   Vocabulary (Data/Dataset.v): [td] a TensorDict with batch_size [bsz], column by column; [rows t] its instances
   in order; [row_at t p] instance p; [chunks b l] what BatchSampler(drop_last=False) makes of the index stream l;
   [load c t extra b shuffle] = wrap t in dataset class c, optionally add_key(extra), read through
   DataLoader(batch_size=b, collate_fn=dataset.collate_fn) -- sequential if shuffle = None, in the order [perm]
   the random sampler produced if shuffle = Some perm; None = the code raises. *)
From Coq Require Import List Arith Permutation.
From RL4CO Require Import Data.Dataset.
Import ListNotations.

(* ---- the batch sampler ---- *)
Theorem C17_chunks_concat :
  forall (A : Type) (b : nat) (l : list A), 1 <= b -> concat (chunks b l) = l.
Proof. exact (@chunks_concat). Qed.
Print Assumptions C17_chunks_concat.

Theorem C17_chunks_full_but_last :
  forall (A : Type) (b : nat) (l : list A), 1 <= b ->
    forall i, S i < length (chunks b l) -> length (nth i (chunks b l) []) = b.
Proof. exact (@chunks_full_but_last). Qed.
Print Assumptions C17_chunks_full_but_last.

Theorem C17_chunks_last_partial :
  forall (A : Type) (b : nat) (l : list A), 1 <= b -> l <> [] ->
    let c := length (chunks b l) in
    length (nth (c - 1) (chunks b l) []) = length l - (c - 1) * b /\ 1 <= length l - (c - 1) * b <= b.
Proof. exact (@chunks_last_length). Qed.
Print Assumptions C17_chunks_last_partial.

Theorem C17_chunks_count :
  forall (A : Type) (b : nat) (l : list A), 1 <= b -> length (chunks b l) = (length l + b - 1) / b.
Proof. exact (@chunks_count). Qed.
Print Assumptions C17_chunks_count.

(* ---- every bundled dataset class, every batch size, sequential loader: the original instances, in order ---- *)
Theorem C17_loader_roundtrip :
  forall (K V : Type) (K_eqb : K -> K -> bool), (forall a b : K, K_eqb a b = true <-> a = b) ->
  forall (dV : V) (c : dcls) (t : td) (b : nat),
    td_wfb K_eqb t = true -> 1 <= b ->
    exists batches : list td,
      load K_eqb dV c t None b None = Some batches /\
      concat (map (rows dV) batches) = rows dV t /\
      map bsz batches = map (@length nat) (chunks b (seq 0 (bsz t))).
Proof. exact (@loader_roundtrip). Qed.
Print Assumptions C17_loader_roundtrip.

(* ... with an extra per-instance key: exactly the dataset zipped with the extra values, in order *)
Theorem C17_loader_roundtrip_extra :
  forall (K V : Type) (K_eqb : K -> K -> bool), (forall a b : K, K_eqb a b = true <-> a = b) ->
  forall (dV : V) (c : dcls) (t : td) (key : K) (extra : list V) (b : nat),
    td_wfb K_eqb t = true -> 1 <= b -> length extra = bsz t ->
    exists batches : list td,
      load K_eqb dV c t (Some (key, extra)) b None = Some batches /\
      concat (map (rows dV) batches) = attach K_eqb key (rows dV t) extra /\
      map bsz batches = map (@length nat) (chunks b (seq 0 (bsz t))).
Proof. exact (@loader_roundtrip_extra). Qed.
Print Assumptions C17_loader_roundtrip_extra.

(* the instance itself is untouched by the extra key (when the key is new): the value is appended to it *)
Theorem C17_extra_leaves_instance_intact :
  forall (K V : Type) (K_eqb : K -> K -> bool), (forall a b : K, K_eqb a b = true <-> a = b) ->
  forall (dV : V) (key : K) (extra : list V) (t : td) (p : nat),
    ~ In key (td_keys t) ->
    aset K_eqb key (nth p extra dV) (row_at dV t p) = row_at dV t p ++ [(key, nth p extra dV)].
Proof. exact (@with_extra_fresh). Qed.
Print Assumptions C17_extra_leaves_instance_intact.

(* len(extra) <> len(data): every class refuses (assert / RuntimeError); nothing is truncated or padded *)
Theorem C17_extra_len_mismatch_rejected :
  forall (K V : Type) (K_eqb : K -> K -> bool) (dV : V) (c : dcls) (t : td) (key : K) (extra : list V)
         (b : nat) (shuffle : option (list nat)),
    length extra <> bsz t -> load K_eqb dV c t (Some (key, extra)) b shuffle = None.
Proof. exact (@extra_len_mismatch_rejected). Qed.
Print Assumptions C17_extra_len_mismatch_rejected.

(* ---- shuffled loader, any permutation the sampler may produce ---- *)
Theorem C17_shuffle_is_permutation :
  forall (K V : Type) (K_eqb : K -> K -> bool), (forall a b : K, K_eqb a b = true <-> a = b) ->
  forall (dV : V) (c : dcls) (t : td) (b : nat) (perm : list nat),
    td_wfb K_eqb t = true -> 1 <= b -> 1 <= bsz t -> Permutation perm (seq 0 (bsz t)) ->
    exists batches : list td,
      load K_eqb dV c t None b (Some perm) = Some batches /\
      concat (map (rows dV) batches) = map (row_at dV t) perm /\
      Permutation (concat (map (rows dV) batches)) (rows dV t) /\
      map bsz batches = map (@length nat) (chunks b perm).
Proof. exact (@shuffle_is_permutation). Qed.
Print Assumptions C17_shuffle_is_permutation.

(* the pair (instance p, extra p) stays together batch by batch, and the zipped dataset comes out exactly once *)
Theorem C17_extra_travels :
  forall (K V : Type) (K_eqb : K -> K -> bool), (forall a b : K, K_eqb a b = true <-> a = b) ->
  forall (dV : V) (c : dcls) (t : td) (key : K) (extra : list V) (b : nat) (perm : list nat),
    td_wfb K_eqb t = true -> 1 <= b -> 1 <= bsz t -> length extra = bsz t -> Permutation perm (seq 0 (bsz t)) ->
    exists batches : list td,
      load K_eqb dV c t (Some (key, extra)) b (Some perm) = Some batches /\
      map (rows dV) batches
        = map (map (fun p => aset K_eqb key (nth p extra dV) (row_at dV t p))) (chunks b perm) /\
      Permutation (concat (map (rows dV) batches)) (attach K_eqb key (rows dV t) extra) /\
      map bsz batches = map (@length nat) (chunks b perm).
Proof. exact (@extra_travels). Qed.
Print Assumptions C17_extra_travels.

(* ExtraKeyDataset over a TensorDictDataset writes into shared dicts; whatever was read through the same wrapper
   before (any storage state h satisfying the invariant), the next pass still emits the right pairs *)
Theorem C17_extra_reads_history_independent :
  forall (K V : Type) (K_eqb : K -> K -> bool), (forall a b : K, K_eqb a b = true <-> a = b) ->
  forall (dV : V) (t : td) (e : ekds) (h : heap) (b : nat) (shuffle : option (list nat)),
    td_wfb K_eqb t = true -> ek_len e = bsz t -> length (ek_extra e) = bsz t -> ekl_inv K_eqb dV t e h ->
    1 <= b -> shuffle_ok (bsz t) shuffle ->
    exists (batches : list td) (h' : heap),
      dataloader (D_ekl K_eqb dV e) h b shuffle = Some (batches, h') /\
      map (rows dV) batches
        = map (map (with_extra K_eqb dV (ek_key e) (ek_extra e) t)) (chunks b (order_of (bsz t) shuffle)) /\
      ekl_inv K_eqb dV t e h'.
Proof. exact (@ek_tdd_reads_history_independent). Qed.
Print Assumptions C17_extra_reads_history_independent.

(* ---- RolloutBaseline: polB is what the baseline policy returns on a batch, assumed row-wise ---- *)
Theorem C17_rollout_aligned :
  forall (K V : Type) (K_eqb : K -> K -> bool), (forall a b : K, K_eqb a b = true <-> a = b) ->
  forall (dV : V) (polB : td -> list V) (pol : item -> V),
    (forall t : td, polB t = map pol (rows dV t)) ->
  forall (c : dcls) (t : td) (bb : nat),
    td_wfb K_eqb t = true -> 1 <= bb -> 1 <= bsz t ->
    rollout K_eqb dV polB c t bb = Some (map pol (rows dV t)).
Proof. exact (@rollout_aligned). Qed.
Print Assumptions C17_rollout_aligned.

Theorem C17_rollout_value_at :
  forall (K V : Type) (K_eqb : K -> K -> bool), (forall a b : K, K_eqb a b = true <-> a = b) ->
  forall (dV : V) (polB : td -> list V) (pol : item -> V),
    (forall t : td, polB t = map pol (rows dV t)) ->
  forall (c : dcls) (t : td) (bb i : nat),
    td_wfb K_eqb t = true -> 1 <= bb -> i < bsz t ->
    exists r : list V, rollout K_eqb dV polB c t bb = Some r /\ length r = bsz t /\
                       nth i r dV = pol (row_at dV t i).
Proof. exact (@rollout_value_at). Qed.
Print Assumptions C17_rollout_value_at.

Theorem C17_rollout_empty_raises :
  forall (K V : Type) (K_eqb : K -> K -> bool) (dV : V) (polB : td -> list V) (c : dcls) (t : td) (bb : nat),
    bsz t = 0 -> rollout K_eqb dV polB c t bb = None.
Proof. exact (@rollout_empty_raises). Qed.
Print Assumptions C17_rollout_empty_raises.

(* wrap_dataset, then the training loader: the item at sampler position p carries pol(instance p) *)
Theorem C17_wrap_dataset_travels :
  forall (K V : Type) (K_eqb : K -> K -> bool), (forall a b : K, K_eqb a b = true <-> a = b) ->
  forall (dV : V) (polB : td -> list V) (pol : item -> V),
    (forall t : td, polB t = map pol (rows dV t)) ->
  forall (c : dcls) (t : td) (kx : K) (bb b : nat) (shuffle : option (list nat)),
    td_wfb K_eqb t = true -> 1 <= bb -> 1 <= b -> 1 <= bsz t -> shuffle_ok (bsz t) shuffle ->
    exists batches : list td,
      wrap_load K_eqb dV polB c t kx bb b shuffle = Some batches /\
      map (rows dV) batches
        = map (map (fun p => aset K_eqb kx (pol (row_at dV t p)) (row_at dV t p)))
              (chunks b (order_of (bsz t) shuffle)) /\
      map bsz batches = map (@length nat) (chunks b (order_of (bsz t) shuffle)).
Proof. exact (@wrap_dataset_travels). Qed.
Print Assumptions C17_wrap_dataset_travels.

(* the boolean test the harness applies to every observed sampler order implies the Permutation hypothesis *)
Theorem C17_order_oracle_check_sound :
  forall (perm : list nat) (n : nat), is_permb perm n = true -> Permutation perm (seq 0 n).
Proof. exact is_permb_sound. Qed.
Print Assumptions C17_order_oracle_check_sound.

(* non-vacuity: a well-formed 5-instance TensorDict, a genuine permutation, a row-wise policy; all three classes *)
Example C17_nonvacuous :
  td_wfb Nat.eqb ex_td = true /\ is_permb ex_perm (bsz ex_td) = true /\
  (forall t, ex_polB t = map ex_pol (rows 0 t)) /\
  forall c, wrap_load Nat.eqb 0 ex_polB c ex_td 9 2 4 (Some ex_perm) =
              Some [mkTD 4 [(0, [13; 10; 14; 11]); (1, [23; 20; 24; 21]); (9, [36; 30; 38; 32])];
                    mkTD 1 [(0, [12]); (1, [22]); (9, [34])]].
Proof. repeat split. intros []; reflexivity. Qed.
