(* C17 -- datasets, collation and baseline wrapping preserve instance identity and order.
   This file contains only statements closed by [exact] and their Print Assumptions (plus Examples).
   Vocabulary (Data/Dataset.v): [td] a TensorDict with batch_size [bsz], column by column; [rows t] its instances
   in order; [row_at t p] instance p; [chunks b l] what BatchSampler(drop_last=False) makes of the index stream l;
   [load c t extra b shuffle] = wrap t in dataset class c, optionally add_key(extra), read through
   DataLoader(batch_size=b, collate_fn=dataset.collate_fn) -- sequential if shuffle = None, in the order [perm]
   the random sampler produced if shuffle = Some perm; None = the code raises. *)
From Coq Require Import List Arith Permutation.
From RL4CO Require Import Data.Dataset Data.DatasetStore.
Import ListNotations.

(* ---- the batch sampler ---- *)
Theorem C17_chunks_concat :
  forall (A : Type) (b : nat) (l : list A), 1 <= b -> concat (chunks b l) = l.
Proof. exact (@chunks_concat). Qed.
Print Assumptions C17_chunks_concat.

Theorem C17_chunks_full_but_last :
  forall (A : Type) (b : nat) (l : list A), 1 <= b ->
    forall i, S i < length (chunks b l) -> length (nth i (chunks b l) []) = b.
Proof. exact (@chunks_full_but_last). Qed.
Print Assumptions C17_chunks_full_but_last.

Theorem C17_chunks_last_partial :
  forall (A : Type) (b : nat) (l : list A), 1 <= b -> l <> [] ->
    let c := length (chunks b l) in
    length (nth (c - 1) (chunks b l) []) = length l - (c - 1) * b /\ 1 <= length l - (c - 1) * b <= b.
Proof. exact (@chunks_last_length). Qed.
Print Assumptions C17_chunks_last_partial.

Theorem C17_chunks_count :
  forall (A : Type) (b : nat) (l : list A), 1 <= b -> length (chunks b l) = (length l + b - 1) / b.
Proof. exact (@chunks_count). Qed.
Print Assumptions C17_chunks_count.

(* ---- every bundled dataset class, every batch size, sequential loader: the original instances, in order ---- *)
Theorem C17_loader_roundtrip :
  forall (K V : Type) (K_eqb : K -> K -> bool), (forall a b : K, K_eqb a b = true <-> a = b) ->
  forall (dV : V) (c : dcls) (t : td) (b : nat),
    td_wfb K_eqb t = true -> 1 <= b ->
    exists batches : list td,
      load K_eqb dV c t None b None = Some batches /\
      concat (map (rows dV) batches) = rows dV t /\
      map bsz batches = map (@length nat) (chunks b (seq 0 (bsz t))).
Proof. exact (@loader_roundtrip). Qed.
Print Assumptions C17_loader_roundtrip.

(* ... with an extra per-instance key: exactly the dataset zipped with the extra values, in order *)
Theorem C17_loader_roundtrip_extra :
  forall (K V : Type) (K_eqb : K -> K -> bool), (forall a b : K, K_eqb a b = true <-> a = b) ->
  forall (dV : V) (c : dcls) (t : td) (key : K) (extra : list V) (b : nat),
    td_wfb K_eqb t = true -> 1 <= b -> length extra = bsz t ->
    exists batches : list td,
      load K_eqb dV c t (Some (key, extra)) b None = Some batches /\
      concat (map (rows dV) batches) = attach K_eqb key (rows dV t) extra /\
      map bsz batches = map (@length nat) (chunks b (seq 0 (bsz t))).
Proof. exact (@loader_roundtrip_extra). Qed.
Print Assumptions C17_loader_roundtrip_extra.

(* the instance itself is untouched by the extra key (when the key is new): the value is appended to it *)
Theorem C17_extra_leaves_instance_intact :
  forall (K V : Type) (K_eqb : K -> K -> bool), (forall a b : K, K_eqb a b = true <-> a = b) ->
  forall (dV : V) (key : K) (extra : list V) (t : td) (p : nat),
    ~ In key (td_keys t) ->
    aset K_eqb key (nth p extra dV) (row_at dV t p) = row_at dV t p ++ [(key, nth p extra dV)].
Proof. exact (@with_extra_fresh). Qed.
Print Assumptions C17_extra_leaves_instance_intact.

(* len(extra) <> len(data): every class refuses (assert / RuntimeError); nothing is truncated or padded *)
Theorem C17_extra_len_mismatch_rejected :
  forall (K V : Type) (K_eqb : K -> K -> bool) (dV : V) (c : dcls) (t : td) (key : K) (extra : list V)
         (b : nat) (shuffle : option (list nat)),
    length extra <> bsz t -> load K_eqb dV c t (Some (key, extra)) b shuffle = None.
Proof. exact (@extra_len_mismatch_rejected). Qed.
Print Assumptions C17_extra_len_mismatch_rejected.

(* ---- shuffled loader, any permutation the sampler may produce ---- *)
Theorem C17_shuffle_is_permutation :
  forall (K V : Type) (K_eqb : K -> K -> bool), (forall a b : K, K_eqb a b = true <-> a = b) ->
  forall (dV : V) (c : dcls) (t : td) (b : nat) (perm : list nat),
    td_wfb K_eqb t = true -> 1 <= b -> 1 <= bsz t -> Permutation perm (seq 0 (bsz t)) ->
    exists batches : list td,
      load K_eqb dV c t None b (Some perm) = Some batches /\
      concat (map (rows dV) batches) = map (row_at dV t) perm /\
      Permutation (concat (map (rows dV) batches)) (rows dV t) /\
      map bsz batches = map (@length nat) (chunks b perm).
Proof. exact (@shuffle_is_permutation). Qed.
Print Assumptions C17_shuffle_is_permutation.

(* the pair (instance p, extra p) stays together batch by batch, and the zipped dataset comes out exactly once *)
Theorem C17_extra_travels :
  forall (K V : Type) (K_eqb : K -> K -> bool), (forall a b : K, K_eqb a b = true <-> a = b) ->
  forall (dV : V) (c : dcls) (t : td) (key : K) (extra : list V) (b : nat) (perm : list nat),
    td_wfb K_eqb t = true -> 1 <= b -> 1 <= bsz t -> length extra = bsz t -> Permutation perm (seq 0 (bsz t)) ->
    exists batches : list td,
      load K_eqb dV c t (Some (key, extra)) b (Some perm) = Some batches /\
      map (rows dV) batches
        = map (map (fun p => aset K_eqb key (nth p extra dV) (row_at dV t p))) (chunks b perm) /\
      Permutation (concat (map (rows dV) batches)) (attach K_eqb key (rows dV t) extra) /\
      map bsz batches = map (@length nat) (chunks b perm).
Proof. exact (@extra_travels). Qed.
Print Assumptions C17_extra_travels.

(* ExtraKeyDataset over a TensorDictDataset writes into shared dicts; whatever was read through the same wrapper
   before (any storage state h satisfying the invariant), the next pass still emits the right pairs *)
Theorem C17_extra_reads_history_independent :
  forall (K V : Type) (K_eqb : K -> K -> bool), (forall a b : K, K_eqb a b = true <-> a = b) ->
  forall (dV : V) (t : td) (e : ekds) (h : heap) (b : nat) (shuffle : option (list nat)),
    td_wfb K_eqb t = true -> ek_len e = bsz t -> length (ek_extra e) = bsz t -> ekl_inv K_eqb dV t e h ->
    1 <= b -> shuffle_ok (bsz t) shuffle ->
    exists (batches : list td) (h' : heap),
      dataloader (D_ekl K_eqb dV e) h b shuffle = Some (batches, h') /\
      map (rows dV) batches
        = map (map (with_extra K_eqb dV (ek_key e) (ek_extra e) t)) (chunks b (order_of (bsz t) shuffle)) /\
      ekl_inv K_eqb dV t e h'.
Proof. exact (@ek_tdd_reads_history_independent). Qed.
Print Assumptions C17_extra_reads_history_independent.

(* ---- RolloutBaseline: polB is what the baseline policy returns on a batch, assumed row-wise ---- *)
Theorem C17_rollout_aligned :
  forall (K V : Type) (K_eqb : K -> K -> bool), (forall a b : K, K_eqb a b = true <-> a = b) ->
  forall (dV : V) (polB : td -> list V) (pol : item -> V),
    (forall t : td, polB t = map pol (rows dV t)) ->
  forall (c : dcls) (t : td) (bb : nat),
    td_wfb K_eqb t = true -> 1 <= bb -> 1 <= bsz t ->
    rollout K_eqb dV polB c t bb = Some (map pol (rows dV t)).
Proof. exact (@rollout_aligned). Qed.
Print Assumptions C17_rollout_aligned.

Theorem C17_rollout_value_at :
  forall (K V : Type) (K_eqb : K -> K -> bool), (forall a b : K, K_eqb a b = true <-> a = b) ->
  forall (dV : V) (polB : td -> list V) (pol : item -> V),
    (forall t : td, polB t = map pol (rows dV t)) ->
  forall (c : dcls) (t : td) (bb i : nat),
    td_wfb K_eqb t = true -> 1 <= bb -> i < bsz t ->
    exists r : list V, rollout K_eqb dV polB c t bb = Some r /\ length r = bsz t /\
                       nth i r dV = pol (row_at dV t i).
Proof. exact (@rollout_value_at). Qed.
Print Assumptions C17_rollout_value_at.

Theorem C17_rollout_empty_raises :
  forall (K V : Type) (K_eqb : K -> K -> bool) (dV : V) (polB : td -> list V) (c : dcls) (t : td) (bb : nat),
    bsz t = 0 -> rollout K_eqb dV polB c t bb = None.
Proof. exact (@rollout_empty_raises). Qed.
Print Assumptions C17_rollout_empty_raises.

(* wrap_dataset, then the training loader: the item at sampler position p carries pol(instance p) *)
Theorem C17_wrap_dataset_travels :
  forall (K V : Type) (K_eqb : K -> K -> bool), (forall a b : K, K_eqb a b = true <-> a = b) ->
  forall (dV : V) (polB : td -> list V) (pol : item -> V),
    (forall t : td, polB t = map pol (rows dV t)) ->
  forall (c : dcls) (t : td) (kx : K) (bb b : nat) (shuffle : option (list nat)),
    td_wfb K_eqb t = true -> 1 <= bb -> 1 <= b -> 1 <= bsz t -> shuffle_ok (bsz t) shuffle ->
    exists batches : list td,
      wrap_load K_eqb dV polB c t kx bb b shuffle = Some batches /\
      map (rows dV) batches
        = map (map (fun p => aset K_eqb kx (pol (row_at dV t p)) (row_at dV t p)))
              (chunks b (order_of (bsz t) shuffle)) /\
      map bsz batches = map (@length nat) (chunks b (order_of (bsz t) shuffle)).
Proof. exact (@wrap_dataset_travels). Qed.
Print Assumptions C17_wrap_dataset_travels.

(* the boolean test the harness applies to every observed sampler order implies the Permutation hypothesis *)
Theorem C17_order_oracle_check_sound :
  forall (perm : list nat) (n : nat), is_permb perm n = true -> Permutation perm (seq 0 n).
Proof. exact is_permb_sound. Qed.
Print Assumptions C17_order_oracle_check_sound.

(* non-vacuity: a well-formed 5-instance TensorDict, a genuine permutation, a row-wise policy; all three classes *)
Example C17_nonvacuous :
  td_wfb Nat.eqb ex_td = true /\ is_permb ex_perm (bsz ex_td) = true /\
  (forall t, ex_polB t = map ex_pol (rows 0 t)) /\
  forall c, wrap_load Nat.eqb 0 ex_polB c ex_td 9 2 4 (Some ex_perm) =
              Some [mkTD 4 [(0, [13; 10; 14; 11]); (1, [23; 20; 24; 21]); (9, [36; 30; 38; 32])];
                    mkTD 1 [(0, [12]); (1, [22]); (9, [34])]].
Proof. repeat split. intros []; reflexivity. Qed.

(* ---- the records of a TensorDictDataset are SHARED (and written) by every ExtraKeyDataset built on it ----
   Vocabulary (Data/DatasetStore.v): a [store] = the shared list of per-instance records [st_heap] + the wrappers made
   so far [st_wrappers]; events [EWrap key extra] (ds.add_key), [EWrapPol key polB bb] (RolloutBaseline.wrap_dataset:
   rollout of polB over the BASE dataset with batch size bb, then add_key), [EGet w i] (wrapper_w[i]),
   [EPass w b shuffle] (a DataLoader pass through wrapper w), [EBasePass b shuffle]; [run_state d s evs] = the state
   after the history evs, None if some event raises; discipline [Assign] = "data[key] = extra[idx]" (the code),
   [SetDefault] = "data.setdefault(key, extra[idx])"; [sk_getitem d e h i] = ExtraKeyDataset.__getitem__ of wrapper
   e on records h; [D_sk d e] = that wrapper as a dataset for [dataloader]. *)

(* the Assign discipline is the ExtraKeyDataset model of Data/Dataset.v that the loader correspondence ties to the code *)
Theorem C17_store_assign_is_dataset_model :
  forall (K V : Type) (K_eqb : K -> K -> bool) (dV : V) (e : ekds) (h : heap) (b : nat) (shuffle : option (list nat)),
    dataloader (D_sk K_eqb dV Assign e) h b shuffle = dataloader (D_ekl K_eqb dV e) h b shuffle.
Proof. exact (@dataloader_sk_assign_eq). Qed.
Print Assumptions C17_store_assign_is_dataset_model.

(* ANY history [pre] (wrappings with other extras, reads through any wrapper, in any order), then a wrapping with
   [extra], then ANY history [post]: the wrapper made in the middle holds [extra], a single read of index i through it
   returns instance i untouched followed by (kx, extra[i]), and a loader pass through it (any batch size, sequential
   or any permutation) emits at sampler position p instance p untouched followed by (kx, extra[p]) *)
Theorem C17_store_assign_history :
  forall (K V : Type) (K_eqb : K -> K -> bool), (forall a b : K, K_eqb a b = true <-> a = b) ->
  forall (dV : V) (t : td) (kx : K), td_wfb K_eqb t = true ->
  forall (pre : list event) (extra : list V) (post : list event) (s0 s : store),
    ~ In kx (td_keys t) -> Forall (ev_key_ok kx) pre -> Forall (ev_key_ok kx) post ->
    run_state K_eqb dV Assign (store_init dV t) pre = Some s0 ->
    run_state K_eqb dV Assign s0 (EWrap kx extra :: post) = Some s ->
    exists e : ekds,
      nth_error (st_wrappers s) (length (st_wrappers s0)) = Some e /\ ek_extra e = extra /\
      (forall i, i < bsz t -> exists h' : heap,
         sk_getitem K_eqb Assign e (st_heap s) i = Some (row_at dV t i ++ [(kx, nth i extra dV)], h')) /\
      (forall (b : nat) (shuffle : option (list nat)), 1 <= b -> shuffle_ok (bsz t) shuffle ->
         exists (batches : list td) (h' : heap),
           dataloader (D_sk K_eqb dV Assign e) (st_heap s) b shuffle = Some (batches, h') /\
           map (rows dV) batches
             = map (map (fun p => row_at dV t p ++ [(kx, nth p extra dV)])) (chunks b (order_of (bsz t) shuffle)) /\
           map bsz batches = map (@length nat) (chunks b (order_of (bsz t) shuffle))).
Proof. exact (@store_assign_history). Qed.
Print Assumptions C17_store_assign_history.

(* the same for a wrapper made by RolloutBaseline.wrap_dataset in the middle of any history: the rollout reads the
   base dataset whose records may already carry earlier baselines' values; for a row-wise policy that does not look
   at the extra key the attached value of instance p is pol(instance p) -- the CURRENT policy's, whatever was
   attached and read before or is attached and read afterwards *)
Theorem C17_store_assign_rollout_history :
  forall (K V : Type) (K_eqb : K -> K -> bool), (forall a b : K, K_eqb a b = true <-> a = b) ->
  forall (dV : V) (t : td) (kx : K), td_wfb K_eqb t = true ->
  forall (polB : td -> list V) (pol : item -> V),
    (forall t' : td, polB t' = map pol (rows dV t')) ->
    (forall (it : item) (v : V), pol (aset K_eqb kx v it) = pol it) ->
    ~ In kx (td_keys t) ->
  forall (pre : list event) (bb : nat) (post : list event) (s0 s : store),
    Forall (ev_key_ok kx) pre -> Forall (ev_key_ok kx) post ->
    run_state K_eqb dV Assign (store_init dV t) pre = Some s0 ->
    run_state K_eqb dV Assign s0 (EWrapPol kx polB bb :: post) = Some s ->
    exists e : ekds,
      nth_error (st_wrappers s) (length (st_wrappers s0)) = Some e /\ ek_extra e = map pol (rows dV t) /\
      (forall i, i < bsz t -> exists h' : heap,
         sk_getitem K_eqb Assign e (st_heap s) i = Some (row_at dV t i ++ [(kx, pol (row_at dV t i))], h')) /\
      (forall (b : nat) (shuffle : option (list nat)), 1 <= b -> shuffle_ok (bsz t) shuffle ->
         exists (batches : list td) (h' : heap),
           dataloader (D_sk K_eqb dV Assign e) (st_heap s) b shuffle = Some (batches, h') /\
           map (rows dV) batches
             = map (map (fun p => row_at dV t p ++ [(kx, pol (row_at dV t p))])) (chunks b (order_of (bsz t) shuffle)) /\
           map bsz batches = map (@length nat) (chunks b (order_of (bsz t) shuffle))).
Proof. exact (@store_assign_rollout_history). Qed.
Print Assumptions C17_store_assign_rollout_history.

(* the hypotheses "run_state ... = Some _" are satisfiable by every history of right-length wrappings, reads of
   existing wrappers at valid indices and loader passes with b >= 1 and a genuine permutation: none of them raises *)
Theorem C17_store_assign_history_total :
  forall (K V : Type) (K_eqb : K -> K -> bool), (forall a b : K, K_eqb a b = true <-> a = b) ->
  forall (dV : V) (t : td) (kx : K) (evs : list event),
    td_wfb K_eqb t = true -> Forall (ev_key_ok kx) evs -> hist_okb (bsz t) 0 evs = true ->
    exists s' : store, run_state K_eqb dV Assign (store_init dV t) evs = Some s'.
Proof. exact (@run_total_init). Qed.
Print Assumptions C17_store_assign_history_total.

(* REFUTED for the setdefault discipline: wrap with [70..74], one epoch, wrap again with [90..94] -- the second wrapper
   holds [90..94], the loader emits [70..74] *)
Theorem C17_store_setdefault_refuted :
  exists (pre post : list (@event nat nat)) (s0 s : store) (e : ekds) (ts : list td) (h' : heap),
    td_wfb Nat.eqb ex_td = true /\ ~ In 9 (td_keys ex_td) /\
    Forall (ev_key_ok 9) pre /\ Forall (ev_key_ok 9) post /\
    run_state Nat.eqb 0 SetDefault (store_init 0 ex_td) pre = Some s0 /\
    run_state Nat.eqb 0 SetDefault s0 (EWrap 9 ex_extra2 :: post) = Some s /\
    nth_error (st_wrappers s) (length (st_wrappers s0)) = Some e /\ ek_extra e = ex_extra2 /\
    dataloader (D_sk Nat.eqb 0 SetDefault e) (st_heap s) 5 None = Some (ts, h') /\
    ts = [mkTD 5 [(0, [10; 11; 12; 13; 14]); (1, [20; 21; 22; 23; 24]); (9, ex_extra)]] /\
    map (rows 0) ts <> map (map (fun p => row_at 0 ex_td p ++ [(9, nth p ex_extra2 0)])) (chunks 5 (seq 0 5)).
Proof. exact setdefault_refuted. Qed.
Print Assumptions C17_store_setdefault_refuted.

(* non-vacuity: a history with three wrappings, full / shuffled / single reads through old and new wrappers satisfies
   every hypothesis of C17_store_assign_history; two row-wise policies that ignore key 9 *)
Example C17_store_nonvacuous :
  (~ In 9 (td_keys ex_td) /\ Forall (ev_key_ok 9) ex_pre /\ Forall (ev_key_ok 9) ex_post /\
   hist_okb (bsz ex_td) 0 (ex_pre ++ EWrap 9 ex_extra2 :: ex_post) = true) /\
  (exists s, run_state Nat.eqb 0 Assign (store_init 0 ex_td) (ex_pre ++ EWrap 9 ex_extra2 :: ex_post) = Some s /\
             map (getd Nat.eqb 0 9) (st_heap s) = [50; 91; 92; 53; 74]) /\
  ((forall t', ex_polB2 t' = map ex_pol2 (rows 0 t')) /\ (forall t', ex_polB3 t' = map ex_pol3 (rows 0 t')) /\
   (forall it v, ex_pol2 (aset Nat.eqb 9 v it) = ex_pol2 it) /\ (forall it v, ex_pol3 (aset Nat.eqb 9 v it) = ex_pol3 it)).
Proof. split; [exact ex_history_hyps|]. split; [exact ex_store_mixed_records|exact ex_pol_hyps]. Qed.
