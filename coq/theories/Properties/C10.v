(* C10 -- decoding distributions are proper and confined to feasible actions.
   This file contains only statements closed by [exact] and their Print Assumptions (plus Examples).

   Reading guide.  K : ofield is any ordered field, L the type of logits with boolean order lleb and weights
   e : L -> K (the exponential) such that  0 < e x  and  lleb x y = (e x <=? e y)  (order embedding = strictly
   increasing, see C10_e_mono_of_strict).  Instances: (Z, Qc, 2^z) and (R, R, exp), see the end of the file.
     process_logits K L lleb e clip tmp mask top_p top_k logits : list K
   is the model of rl4co.utils.decoding.process_logits for one batch row, returning the probabilities
   exp(log_softmax(..)); clip : L -> L is the tanh clipping (identity when off), tmp : L -> L the division by the
   temperature, mask : list bool the action mask, top_p : K, top_k : nat (0 = off).
     pl_wf L mask logits  :=  length mask = length logits /\ exists i, i < length mask /\ nth i mask false = true. *)
From Coq Require Import List Arith ZArith QArith Qcanon Reals Bool.
From RL4CO Require Import Base.OField Base.OFieldQc Base.OFieldR Decoding.PLTensor Decoding.ProcessLogits Decoding.PLInst.
Import ListNotations.

(* ---------------------------------------------------------------- a normalised probability vector *)
Theorem C10_normalised :
  forall (K : ofield) (L : Type) (lleb : L -> L -> bool) (e : L -> K),
    (forall x, flt f0 (e x)) -> (forall x y, lleb x y = fleb (e x) (e y)) ->
  forall (clip tmp : L -> L) (mask : list bool) (top_p : K) (top_k : nat) (logits : list L),
    pl_wf L mask logits ->
    fsum (process_logits K L lleb e clip tmp mask top_p top_k logits) = f1.
Proof. exact pl_normalised. Qed.
Print Assumptions C10_normalised.

Theorem C10_nonnegative :
  forall (K : ofield) (L : Type) (lleb : L -> L -> bool) (e : L -> K),
    (forall x, flt f0 (e x)) -> (forall x y, lleb x y = fleb (e x) (e y)) ->
  forall (clip tmp : L -> L) (mask : list bool) (top_p : K) (top_k : nat) (logits : list L) (i : nat),
    pl_wf L mask logits ->
    fle f0 (nth i (process_logits K L lleb e clip tmp mask top_p top_k logits) f0).
Proof. exact pl_nonneg. Qed.
Print Assumptions C10_nonnegative.

Theorem C10_length :
  forall (K : ofield) (L : Type) (lleb : L -> L -> bool) (e : L -> K)
         (clip tmp : L -> L) (mask : list bool) (top_p : K) (top_k : nat) (logits : list L),
    length mask = length logits ->
    length (process_logits K L lleb e clip tmp mask top_p top_k logits) = length logits.
Proof. exact pl_length. Qed.
Print Assumptions C10_length.

(* ---------------------------------------------------------------- zero probability on masked actions *)
Theorem C10_masked_zero :
  forall (K : ofield) (L : Type) (lleb : L -> L -> bool) (e : L -> K),
    (forall x, flt f0 (e x)) ->
  forall (clip tmp : L -> L) (mask : list bool) (top_p : K) (top_k : nat) (logits : list L) (i : nat),
    length mask = length logits -> nth i mask false = false ->
    nth i (process_logits K L lleb e clip tmp mask top_p top_k logits) f0 = f0.
Proof. exact pl_support_masked. Qed.
Print Assumptions C10_masked_zero.

(* positive probability exactly on the logits that survived mask, top-k and top-p *)
Theorem C10_positive_iff_survived :
  forall (K : ofield) (L : Type) (lleb : L -> L -> bool) (e : L -> K),
    (forall x, flt f0 (e x)) -> (forall x y, lleb x y = fleb (e x) (e y)) ->
  forall (clip tmp : L -> L) (mask : list bool) (top_p : K) (top_k : nat) (logits : list L) (i : nat),
    pl_wf L mask logits ->
    (flt f0 (nth i (process_logits K L lleb e clip tmp mask top_p top_k logits) f0) <->
     is_some L (nth i (filtered K L lleb e clip tmp mask top_p top_k logits) None) = true).
Proof. exact pl_support_pos. Qed.
Print Assumptions C10_positive_iff_survived.

Theorem C10_positive_unmasked :
  forall (K : ofield) (L : Type) (lleb : L -> L -> bool) (e : L -> K),
    (forall x, flt f0 (e x)) ->
  forall (clip tmp : L -> L) (mask : list bool) (top_p : K) (top_k : nat) (logits : list L) (i : nat),
    pl_wf L mask logits ->
    flt f0 (nth i (process_logits K L lleb e clip tmp mask top_p top_k logits) f0) ->
    (i < length logits)%nat /\ nth i mask false = true.
Proof. exact pl_positive_unmasked. Qed.
Print Assumptions C10_positive_unmasked.

Theorem C10_support :
  forall (K : ofield) (L : Type) (lleb : L -> L -> bool) (e : L -> K),
    (forall x, flt f0 (e x)) -> (forall x y, lleb x y = fleb (e x) (e y)) ->
  forall (clip tmp : L -> L) (mask : list bool) (top_p : K) (top_k : nat) (logits : list L) (i : nat),
    pl_wf L mask logits ->
    (nth i mask false = false -> nth i (process_logits K L lleb e clip tmp mask top_p top_k logits) f0 = f0) /\
    (is_some L (nth i (filtered K L lleb e clip tmp mask top_p top_k logits) None) = true <->
     flt f0 (nth i (process_logits K L lleb e clip tmp mask top_p top_k logits) f0)).
Proof. exact pl_support. Qed.
Print Assumptions C10_support.

(* ---------------------------------------------------------------- the most likely feasible action is kept *)
(* q = the distribution without top-k / top-p.  Some mode of q (all of them under top-k; at least one under top-p,
   which cuts tied maxima in sorted order) keeps positive probability and is a mode of the result. *)
Theorem C10_keeps_argmax :
  forall (K : ofield) (L : Type) (lleb : L -> L -> bool) (e : L -> K),
    (forall x, flt f0 (e x)) -> (forall x y, lleb x y = fleb (e x) (e y)) ->
  forall (clip tmp : L -> L) (mask : list bool) (top_p : K) (top_k : nat) (logits : list L),
    pl_wf L mask logits ->
    let q := process_logits K L lleb e clip tmp mask f0 0 logits in
    let pr := process_logits K L lleb e clip tmp mask top_p top_k logits in
    exists i, (i < length logits)%nat /\ nth i mask false = true /\
              (forall j, fle (nth j q f0) (nth i q f0)) /\
              flt f0 (nth i pr f0) /\ (forall j, fle (nth j pr f0) (nth i pr f0)).
Proof. exact pl_keeps_argmax. Qed.
Print Assumptions C10_keeps_argmax.

Theorem C10_keeps_unique_argmax :
  forall (K : ofield) (L : Type) (lleb : L -> L -> bool) (e : L -> K),
    (forall x, flt f0 (e x)) -> (forall x y, lleb x y = fleb (e x) (e y)) ->
  forall (clip tmp : L -> L) (mask : list bool) (top_p : K) (top_k : nat) (logits : list L) (i : nat),
    pl_wf L mask logits ->
    let q := process_logits K L lleb e clip tmp mask f0 0 logits in
    let pr := process_logits K L lleb e clip tmp mask top_p top_k logits in
    (forall j, j <> i -> flt (nth j q f0) (nth i q f0)) ->
    flt f0 (nth i pr f0) /\ (forall j, fle (nth j pr f0) (nth i pr f0)).
Proof. exact pl_keeps_unique_argmax. Qed.
Print Assumptions C10_keeps_unique_argmax.

(* clipping and temperature are monotone, so the feasible action with the largest raw logit is a mode of q *)
Theorem C10_raw_argmax_is_mode :
  forall (K : ofield) (L : Type) (lleb : L -> L -> bool) (e : L -> K),
    (forall x, flt f0 (e x)) -> (forall x y, lleb x y = fleb (e x) (e y)) ->
  forall (clip tmp : L -> L) (mask : list bool) (logits : list L) (i : nat) (x : L),
    (forall a b, lleb a b = true -> lleb (clip a) (clip b) = true) ->
    (forall a b, lleb a b = true -> lleb (tmp a) (tmp b) = true) ->
    pl_wf L mask logits -> nth_error logits i = Some x -> nth i mask false = true ->
    (forall j y, nth_error logits j = Some y -> nth j mask false = true -> lleb y x = true) ->
    let q := process_logits K L lleb e clip tmp mask f0 0 logits in
    forall j, fle (nth j q f0) (nth i q f0).
Proof. exact pl_raw_argmax_is_mode. Qed.
Print Assumptions C10_raw_argmax_is_mode.

(* the strong reading fails (documented behaviour): top-p cuts tied maxima in sorted order, so an action that is a
   mode of the unfiltered distribution can end with probability 0 (another of the tied modes survives) *)
Theorem C10_keeps_every_argmax_refuted :
  exists (mask : list bool) (logits : list Z) (p : Qc) (k i : nat),
    pl_wf Z mask logits /\
    (forall j, fle (K := QcF) (nth j (plQ (fun x => x) (fun x => x) mask f0 0 logits) f0)
                              (nth i (plQ (fun x => x) (fun x => x) mask f0 0 logits) f0)) /\
    nth i (plQ (fun x => x) (fun x => x) mask p k logits) f0 = f0.
Proof. exact pl_keeps_every_argmax_refuted. Qed.
Print Assumptions C10_keeps_every_argmax_refuted.

(* ---------------------------------------------------------------- top-k *)
(* on any masked row m (None = -inf) and 1 <= k <= length m, with v the k-th largest entry:
   survivors >= min(k, #feasible); survivors <= (k - 1) + #entries equal to v; survivors <= #feasible *)
Theorem C10_topk_card :
  forall (K : ofield) (L : Type) (lleb : L -> L -> bool) (e : L -> K),
    (forall x, flt f0 (e x)) -> (forall x y, lleb x y = fleb (e x) (e y)) ->
  forall (k : nat) (m : list (option L)), (1 <= k <= length m)%nat ->
    let v := kth_largest L lleb k m in
    (Nat.min k (nfeas L m) <= nfeas L (topk_filter L lleb k m))%nat /\
    (nfeas L (topk_filter L lleb k m) <= (k - 1) + count (oeqb L lleb v) m)%nat /\
    (nfeas L (topk_filter L lleb k m) <= nfeas L m)%nat.
Proof. exact topk_card. Qed.
Print Assumptions C10_topk_card.

Theorem C10_topk_card_no_ties :
  forall (K : ofield) (L : Type) (lleb : L -> L -> bool) (e : L -> K),
    (forall x, flt f0 (e x)) -> (forall x y, lleb x y = fleb (e x) (e y)) ->
  forall (k : nat) (m : list (option L)), (1 <= k <= length m)%nat -> no_ties L lleb m ->
    nfeas L (topk_filter L lleb k m) = Nat.min k (nfeas L m).
Proof. exact topk_card_no_ties. Qed.
Print Assumptions C10_topk_card_no_ties.

(* "no more than k" is false with ties at the k-th value (hence the tie term above) *)
Theorem C10_topk_at_most_k_refuted :
  exists (k : nat) (m : list (option Z)), (0 < k)%nat /\ (k < nfeas Z (topk_stage Z Z.leb k m))%nat.
Proof. exact topk_at_most_k_refuted. Qed.
Print Assumptions C10_topk_at_most_k_refuted.

(* the stage as process_logits runs it (top_k > 0, k = min(top_k, size)): an entry survives iff it is feasible and
   fewer than top_k entries are strictly larger *)
Theorem C10_topk_stage_rank :
  forall (K : ofield) (L : Type) (lleb : L -> L -> bool) (e : L -> K),
    (forall x, flt f0 (e x)) -> (forall x y, lleb x y = fleb (e x) (e y)) ->
  forall (top_k : nat) (m : list (option L)) (i : nat), (0 < top_k)%nat -> (i < length m)%nat ->
    (is_some L (nth i (topk_stage L lleb top_k m) None) = true <->
     is_some L (nth i m None) = true /\ (count (oltb L lleb (nth i m None)) m < top_k)%nat).
Proof. exact topk_stage_rank. Qed.
Print Assumptions C10_topk_stage_rank.

(* the same on the returned probabilities (top_p off) *)
Theorem C10_topk_spec :
  forall (K : ofield) (L : Type) (lleb : L -> L -> bool) (e : L -> K),
    (forall x, flt f0 (e x)) -> (forall x y, lleb x y = fleb (e x) (e y)) ->
  forall (clip tmp : L -> L) (mask : list bool) (top_k : nat) (logits : list L) (i : nat),
    pl_wf L mask logits -> (0 < top_k)%nat -> (i < length logits)%nat ->
    let q := process_logits K L lleb e clip tmp mask f0 0 logits in
    let pr := process_logits K L lleb e clip tmp mask f0 top_k logits in
    (flt f0 (nth i pr f0) <->
     nth i mask false = true /\ (count (fun y => fltb (nth i q f0) y) q < top_k)%nat).
Proof. exact pl_topk_spec. Qed.
Print Assumptions C10_topk_spec.

Theorem C10_support_count :
  forall (K : ofield) (L : Type) (lleb : L -> L -> bool) (e : L -> K),
    (forall x, flt f0 (e x)) -> (forall x y, lleb x y = fleb (e x) (e y)) ->
  forall (clip tmp : L -> L) (mask : list bool) (top_p : K) (top_k : nat) (logits : list L),
    pl_wf L mask logits ->
    count (fun x => fltb f0 x) (process_logits K L lleb e clip tmp mask top_p top_k logits)
    = nfeas L (filtered K L lleb e clip tmp mask top_p top_k logits).
Proof. exact pl_support_count. Qed.
Print Assumptions C10_support_count.

(* ---------------------------------------------------------------- top-p *)
(* on any masked row m with a feasible entry: the surviving weight is at least top_p of the weight before
   (whatever order the sort produces: the order embedding is not even needed here) *)
Theorem C10_topp_stage_mass :
  forall (K : ofield) (L : Type) (lleb : L -> L -> bool) (e : L -> K),
    (forall x, flt f0 (e x)) ->
  forall (top_p : K) (m : list (option L)),
    has_some L m -> fle f0 top_p -> fle top_p f1 ->
    fle (fmul top_p (mass K L e m)) (mass K L e (topp_stage K L lleb e top_p m)).
Proof. exact topp_stage_mass. Qed.
Print Assumptions C10_topp_stage_mass.

Theorem C10_topp_mass_ratio :
  forall (K : ofield) (L : Type) (lleb : L -> L -> bool) (e : L -> K),
    (forall x, flt f0 (e x)) ->
  forall (top_p : K) (m : list (option L)),
    has_some L m -> fle f0 top_p -> fle top_p f1 ->
    fle top_p (fdiv (mass K L e (topp_stage K L lleb e top_p m)) (mass K L e m)).
Proof. exact topp_mass. Qed.
Print Assumptions C10_topp_mass_ratio.

(* on the returned probabilities: the support of the result carries at least mass top_p of the distribution that
   top-p filtered (mask + clip + temperature + top-k) *)
Theorem C10_topp_mass :
  forall (K : ofield) (L : Type) (lleb : L -> L -> bool) (e : L -> K),
    (forall x, flt f0 (e x)) -> (forall x y, lleb x y = fleb (e x) (e y)) ->
  forall (clip tmp : L -> L) (mask : list bool) (top_p : K) (top_k : nat) (logits : list L),
    pl_wf L mask logits -> fle f0 top_p -> fle top_p f1 ->
    let q := process_logits K L lleb e clip tmp mask f0 top_k logits in
    let pr := process_logits K L lleb e clip tmp mask top_p top_k logits in
    fle top_p (mass_on K (support K pr) q).
Proof. exact pl_topp_mass. Qed.
Print Assumptions C10_topp_mass.

(* ---------------------------------------------------------------- shift invariance (no clipping) *)
Theorem C10_shift_invariant :
  forall (K : ofield) (L : Type) (lleb : L -> L -> bool) (e : L -> K),
    (forall x, flt f0 (e x)) -> (forall x y, lleb x y = fleb (e x) (e y)) ->
  forall (add : L -> L -> L) (tmp : L -> L) (c c' : L) (mask : list bool) (top_p : K) (top_k : nat) (logits : list L),
    (forall x y, e (add x y) = fmul (e x) (e y)) ->
    (forall x, tmp (add x c) = add (tmp x) c') ->
    pl_wf L mask logits ->
    process_logits K L lleb e (fun x => x) tmp mask top_p top_k (map (fun x => add x c) logits) =
    process_logits K L lleb e (fun x => x) tmp mask top_p top_k logits.
Proof. exact pl_shift_invariant. Qed.
Print Assumptions C10_shift_invariant.

Theorem C10_shift_invariant_Qc :
  forall (m c : Z) (mask : list bool) (top_p : Qc) (top_k : nat) (logits : list Z),
    pl_wf Z mask logits ->
    plQ (fun x => x) (tmul m) mask top_p top_k (map (fun x => (x + c)%Z) logits) =
    plQ (fun x => x) (tmul m) mask top_p top_k logits.
Proof. exact plQ_shift_invariant. Qed.
Print Assumptions C10_shift_invariant_Qc.

(* the statement about the real softmax: logits / T, exp *)
Theorem C10_shift_invariant_R :
  forall (T c : R) (mask : list bool) (top_p : R) (top_k : nat) (logits : list R),
    pl_wf R mask logits ->
    plR (fun x => x) (fun x => (x / T)%R) mask top_p top_k (map (fun x => (x + c)%R) logits) =
    plR (fun x => x) (fun x => (x / T)%R) mask top_p top_k logits.
Proof. exact plR_shift_invariant. Qed.
Print Assumptions C10_shift_invariant_R.

(* with tanh clipping the statement is false (inherent to the feature): a monotone saturating clip, two logits *)
Theorem C10_shift_invariant_refuted_under_clipping :
  exists (clip : Z -> Z) (mask : list bool) (logits : list Z) (c : Z),
    (forall a b, Z.leb a b = true -> Z.leb (clip a) (clip b) = true) /\ pl_wf Z mask logits /\
    plQ clip (fun x => x) mask f0 0 (map (fun x => (x + c)%Z) logits) <> plQ clip (fun x => x) mask f0 0 logits.
Proof. exact pl_shift_invariant_refuted_under_clipping. Qed.
Print Assumptions C10_shift_invariant_refuted_under_clipping.

(* ---------------------------------------------------------------- greedy and sampling *)
Theorem C10_mode_feasible :
  forall (K : ofield) (L : Type) (lleb : L -> L -> bool) (e : L -> K),
    (forall x, flt f0 (e x)) -> (forall x y, lleb x y = fleb (e x) (e y)) ->
  forall (clip tmp : L -> L) (mask : list bool) (top_p : K) (top_k : nat) (logits : list L) (i : nat),
    pl_wf L mask logits ->
    let pr := process_logits K L lleb e clip tmp mask top_p top_k logits in
    (forall j, fle (nth j pr f0) (nth i pr f0)) ->
    (i < length logits)%nat /\ nth i mask false = true /\ flt f0 (nth i pr f0).
Proof. exact pl_mode_feasible. Qed.
Print Assumptions C10_mode_feasible.

(* greedy = first maximal index of the returned distribution: in range, unmasked, positive, a maximiser, the first *)
Theorem C10_greedy_feasible :
  forall (K : ofield) (L : Type) (lleb : L -> L -> bool) (e : L -> K),
    (forall x, flt f0 (e x)) -> (forall x y, lleb x y = fleb (e x) (e y)) ->
  forall (clip tmp : L -> L) (mask : list bool) (top_p : K) (top_k : nat) (logits : list L),
    pl_wf L mask logits ->
    let pr := process_logits K L lleb e clip tmp mask top_p top_k logits in
    let g := greedy K pr in
    (g < length logits)%nat /\ nth g mask false = true /\ flt f0 (nth g pr f0) /\
    (forall j, fle (nth j pr f0) (nth g pr f0)) /\ (forall j, (j < g)%nat -> flt (nth j pr f0) (nth g pr f0)).
Proof. exact greedy_feasible. Qed.
Print Assumptions C10_greedy_feasible.

(* sampling: [draw] is torch.multinomial(probs, 1) on one row, ANY function meeting the contract
   "returns an index of positive weight whenever one exists" *)
Theorem C10_sampling_support :
  forall (K : ofield) (L : Type) (lleb : L -> L -> bool) (e : L -> K),
    (forall x, flt f0 (e x)) -> (forall x y, lleb x y = fleb (e x) (e y)) ->
  forall (clip tmp : L -> L) (mask : list bool) (top_p : K) (top_k : nat) (logits : list L) (draw : list K -> nat),
    pl_wf L mask logits ->
    (forall pr, (exists i, flt f0 (nth i pr f0)) -> flt f0 (nth (draw pr) pr f0)) ->
    let pr := process_logits K L lleb e clip tmp mask top_p top_k logits in
    let a := sampling K draw pr in
    (a < length logits)%nat /\ nth a mask false = true /\ flt f0 (nth a pr f0).
Proof. exact sampling_support. Qed.
Print Assumptions C10_sampling_support.

(* ---------------------------------------------------------------- hypotheses and instances *)
(* the boolean well-formedness evaluated by the harness on every case implies the hypotheses used above *)
Theorem C10_wfb_sound :
  forall (K : ofield) (L : Type) (mask : list bool) (top_p : K) (logits : list L),
    pl_wfb K L mask top_p logits = true -> pl_wf L mask logits /\ fle f0 top_p /\ fle top_p f1.
Proof. exact pl_wfb_wf. Qed.
Print Assumptions C10_wfb_sound.

(* e_mono is "strictly increasing" when the order on L is total and antisymmetric *)
Theorem C10_e_mono_of_strict :
  forall (K : ofield) (L : Type) (lleb : L -> L -> bool) (e : L -> K),
    (forall x y, lleb x y = true \/ lleb y x = true) ->
    (forall x y, lleb x y = true -> lleb y x = true -> x = y) ->
    (forall x y, lleb y x = false -> flt (e x) (e y)) ->
    forall x y, lleb x y = fleb (e x) (e y).
Proof. exact e_mono_of_strict. Qed.
Print Assumptions C10_e_mono_of_strict.

(* the executable instance (Z, Qc, 2^z) meets the hypotheses -- closed under the global context *)
Theorem C10_instance_Qc :
  (forall z : Z, flt (K := QcF) f0 (pow2 z)) /\ (forall x y : Z, Z.leb x y = fleb (o := QcF) (pow2 x) (pow2 y)) /\
  (forall x c : Z, pow2 (x + c) = fmul (o := QcF) (pow2 x) (pow2 c)).
Proof. exact (conj pow2_pos (conj pow2_mono pow2_add)). Qed.
Print Assumptions C10_instance_Qc.

(* the real instance (R, R, exp) meets the hypotheses -- real-number axioms appear here and below *)
Theorem C10_instance_R :
  (forall x : R, flt (K := RF) f0 (exp x)) /\ (forall x y : R, Rleb x y = fleb (o := RF) (exp x) (exp y)).
Proof. exact (conj exp_pos_F exp_mono_F). Qed.
Print Assumptions C10_instance_R.

(* two of the statements above spelled out for the real softmax *)
Theorem C10_normalised_R :
  forall (clip tmp : R -> R) (mask : list bool) (top_p : R) (top_k : nat) (logits : list R),
    pl_wf R mask logits -> fsum (K := RF) (plR clip tmp mask top_p top_k logits) = 1%R.
Proof. exact (pl_normalised RF R Rleb exp exp_pos_F exp_mono_F). Qed.
Print Assumptions C10_normalised_R.

Theorem C10_greedy_feasible_R :
  forall (clip tmp : R -> R) (mask : list bool) (top_p : R) (top_k : nat) (logits : list R),
    pl_wf R mask logits ->
    let pr := plR clip tmp mask top_p top_k logits in
    let g := greedy RF pr in
    (g < length logits)%nat /\ nth g mask false = true /\ flt (K := RF) f0 (nth g pr 0%R) /\
    (forall j, fle (K := RF) (nth j pr 0%R) (nth g pr 0%R)) /\
    (forall j, (j < g)%nat -> flt (K := RF) (nth j pr 0%R) (nth g pr 0%R)).
Proof. exact (greedy_feasible RF R Rleb exp exp_pos_F exp_mono_F). Qed.
Print Assumptions C10_greedy_feasible_R.

(* ---------------------------------------------------------------- non-vacuity (executable instance) *)
(* mask [T;F;T;T], logits (3, 9, 1, 3) ln 2, top_k = 2, top_p = 1/2: the two tied maxima survive top-k,
   top-p cuts the first of them (ascending stable sort), the result is the point mass on action 3 *)
Example C10_nonvacuous :
  pl_wfb QcF Z [true; false; true; true] (qc 1 2) [3; 9; 1; 3]%Z = true /\
  qnd (plQ (fun x => x) (fun x => x) [true; false; true; true] (qc 1 2) 2 [3; 9; 1; 3]%Z) = [0 # 1; 0 # 1; 0 # 1; 1 # 1]%Q /\
  qnd (plQ (fun x => x) (fun x => x) [true; false; true; true] f0 2 [3; 9; 1; 3]%Z) = [1 # 2; 0 # 1; 0 # 1; 1 # 2]%Q /\
  greedy QcF (plQ (fun x => x) (fun x => x) [true; false; true; true] f0 2 [3; 9; 1; 3]%Z) = 0%nat.
Proof. vm_compute. repeat split. Qed.

From RL4CO Require Import Base.OFieldExtra Decoding.Entropy Decoding.EntropyInst Decoding.BatchGuards.
Local Open Scope nat_scope.

(* ================================================================ calculate_entropy: the VALUE (Decoding/Entropy.v)
   lg : K -> K is any logarithm: lg 1 = 0, lg (x y) = lg x + lg y, strictly increasing on the positive numbers (instance: ln on R).
     nplp lg p = 0 if p = 0 else - p * lg p ;  entropy lg v = sum_i nplp lg v_i ;  entropy_steps lg vs = sum_t entropy lg vs_t
     dist v = every entry >= 0 and the entries add up to 1 ;  point_mass v = one entry is 1, all others 0
     uniform_on m = 1 / (number of true entries of m) on the true entries of the mask m, 0 elsewhere *)
(* the entropy of a probability vector is non-negative *)
Theorem C10_entropy_nonneg :
  forall (K : ofield) (lg : K -> K),
  lg f1 = f0 ->
  (forall x y : K, flt f0 x -> flt x y -> flt (lg x) (lg y)) ->
  forall v : list K, dist v -> fle f0 (entropy lg v).
Proof. exact entropy_nonneg. Qed.
Print Assumptions C10_entropy_nonneg.

(* ... and zero exactly for the point masses *)
Theorem C10_entropy_zero_iff_point_mass :
  forall (K : ofield) (lg : K -> K),
  lg f1 = f0 ->
  (forall x y : K, flt f0 x -> flt x y -> flt (lg x) (lg y)) ->
  forall v : list K, dist v -> entropy lg v = f0 <-> point_mass v.
Proof. exact entropy_zero_iff. Qed.
Print Assumptions C10_entropy_zero_iff_point_mass.

(* the uniform distribution over the k feasible actions of a mask has entropy lg k *)
Theorem C10_entropy_uniform :
  forall (K : ofield) (lg : K -> K),
  lg f1 = f0 ->
  (forall x y : K, flt f0 x -> flt f0 y -> lg (x * y)%of = (lg x + lg y)%of) ->
  forall m : list bool, 1 <= ntrue m -> entropy lg (uniform_on m) = lg (of_nat (ntrue m)).
Proof. exact entropy_uniform. Qed.
Print Assumptions C10_entropy_uniform.

(* the episode: sum over the decoding steps *)
Theorem C10_episode_entropy_nonneg :
  forall (K : ofield) (lg : K -> K),
  lg f1 = f0 ->
  (forall x y : K, flt f0 x -> flt x y -> flt (lg x) (lg y)) ->
  forall vs : list (list K), (forall v : list K, In v vs -> dist v) -> fle f0 (entropy_steps lg vs).
Proof. exact entropy_steps_nonneg. Qed.
Print Assumptions C10_episode_entropy_nonneg.

(* the same for the output of process_logits (any mask with a feasible action, any filter setting).  Further lemmas of
   Decoding/Entropy.v / BatchGuards.v not repeated here (every Print Assumptions costs ~0.4 s per run): uniform_on_dist,
   entropy_steps_zero_iff, pl_uniform, guard_batch_one_bad_row, greedy_batch_some_iff, sampling_batch_terminates,
   entropy_guard_one_bad_row *)
Theorem C10_process_logits_entropy_nonneg :
  forall (K : ofield) (lg : K -> K),
  lg f1 = f0 ->
  (forall x y : K, flt f0 x -> flt x y -> flt (lg x) (lg y)) ->
  forall (L : Type) (lleb : L -> L -> bool) (e : L -> K),
  (forall x : L, flt f0 (e x)) ->
  (forall x y : L, lleb x y = (e x <=? e y)%of) ->
  forall (clip tmp : L -> L) (mask : list bool) (p : K) (k : nat) (logits : list L),
  pl_wf L mask logits -> fle f0 (entropy lg (process_logits K L lleb e clip tmp mask p k logits)).
Proof. exact pl_entropy_nonneg. Qed.
Print Assumptions C10_process_logits_entropy_nonneg.

Theorem C10_process_logits_entropy_zero_iff :
  forall (K : ofield) (lg : K -> K),
  lg f1 = f0 ->
  (forall x y : K, flt f0 x -> flt x y -> flt (lg x) (lg y)) ->
  forall (L : Type) (lleb : L -> L -> bool) (e : L -> K),
  (forall x : L, flt f0 (e x)) ->
  (forall x y : L, lleb x y = (e x <=? e y)%of) ->
  forall (clip tmp : L -> L) (mask : list bool) (p : K) (k : nat) (logits : list L),
  pl_wf L mask logits ->
  entropy lg (process_logits K L lleb e clip tmp mask p k logits) = f0 <->
  point_mass (process_logits K L lleb e clip tmp mask p k logits).
Proof. exact pl_entropy_zero_iff. Qed.
Print Assumptions C10_process_logits_entropy_zero_iff.

(* all feasible logits equal (after clipping and temperature), filters off: process_logits returns the uniform distribution over the
   feasible actions, whose entropy is lg (number of feasible actions) *)
Theorem C10_process_logits_uniform_entropy :
  forall (K : ofield) (lg : K -> K),
  lg f1 = f0 ->
  (forall x y : K, flt f0 x -> flt f0 y -> lg (x * y)%of = (lg x + lg y)%of) ->
  forall (L : Type) (lleb : L -> L -> bool) (e : L -> K),
  (forall x : L, flt f0 (e x)) ->
  forall (clip tmp : L -> L) (y : L) (mask : list bool) (logits : list L),
  (forall x : L, In x logits -> tmp (clip x) = y) ->
  length mask = length logits ->
  1 <= ntrue mask -> entropy lg (process_logits K L lleb e clip tmp mask f0 0 logits) = lg (of_nat (ntrue mask)).
Proof. exact pl_uniform_entropy. Qed.
Print Assumptions C10_process_logits_uniform_entropy.

(* the real logarithm meets the hypotheses (so the statements above hold for the real softmax with lg = ln), and the value on the
   uniform distribution spelled out; ONE theorem, because every Print Assumptions that reaches Coq.Reals costs seconds *)
Theorem C10_entropy_instance_R :
  (ln (f1 (o := RF)) = f0 (o := RF) /\
   (forall x y : RF, flt f0 x -> flt f0 y -> ln (fmul x y) = fadd (o := RF) (ln x) (ln y)) /\
   (forall x y : RF, flt f0 x -> flt x y -> flt (K := RF) (ln x) (ln y))) /\
  (forall v : list R, dist (K := RF) v -> fle (K := RF) f0 (entropy (K := RF) ln v)) /\
  (forall m : list bool, (1 <= ntrue m)%nat -> entropy (K := RF) ln (uniform_on (K := RF) m) = ln (of_nat (K := RF) (ntrue m))).
Proof. exact (conj (conj R_ln_1 (conj R_ln_mul R_ln_incr)) (conj entropyR_nonneg entropyR_uniform)). Qed.
Print Assumptions C10_entropy_instance_R.

(* the audit's input: calculate_entropy(log([[[.5, .5]]])) = + ln 2 *)
Example C10_ex_entropy_half_half_R : entropy (K := RF) ln [(1 / 2)%R; (1 / 2)%R] = ln 2.
Proof. exact entropyR_half_half. Qed.

(* ================================================================ guards that look at a whole batch (Decoding/BatchGuards.v)
     sel_ok msk a = nth a msk false                    the action selected for a row is allowed by that row's mask
     guard_batch masks sel                             `not (~mask).gather(1, selected).any()`
     greedy_batch rows = Some actions / None           DecodingStrategy.greedy(logprobs, mask) returns / raises
     sampling_batch masks rounds                       DecodingStrategy.sampling(logprobs, mask): rounds = successive multinomial draws
     entropy_guard rows                                `entropy.isfinite().all()` on rows of entry classes (2 = +inf) *)
(* the guard passes iff EVERY row's selected action is allowed by that row's mask *)
Theorem C10_batch_guard_is_the_conjunction_of_the_row_verdicts :
  forall (masks : list (list bool)) (sel : list nat),
  length sel = length masks ->
  guard_batch masks sel = true <->
  (forall r : nat, r < length masks -> sel_ok (nth r masks []) (nth r sel 0) = true).
Proof. exact guard_batch_iff. Qed.
Print Assumptions C10_batch_guard_is_the_conjunction_of_the_row_verdicts.

(* ... and raises iff SOME row's arg-max is masked *)
Theorem C10_greedy_batch_raises_iff :
  forall (K : ofield) (rows : list (list K * list bool)),
  greedy_batch rows = None <->
  (exists r : list K * list bool, In r rows /\ sel_ok (snd r) (greedy K (fst r)) = false).
Proof. exact greedy_batch_none_iff. Qed.
Print Assumptions C10_greedy_batch_raises_iff.

(* on the distributions process_logits makes from the same masks the guard never fires (confinement, lifted to the batch) *)
Theorem C10_greedy_batch_never_raises_on_process_logits :
  forall (K : ofield) (L : Type) (lleb : L -> L -> bool) (e : L -> K),
  (forall x : L, flt f0 (e x)) ->
  (forall x y : L, lleb x y = (e x <=? e y)%of) ->
  forall (clip tmp : L -> L) (p : K) (k : nat) (ins : list (list bool * list L)),
  (forall ml : list bool * list L, In ml ins -> pl_wf L (fst ml) (snd ml)) ->
  let rows :=
    map (fun ml : list bool * list L => (process_logits K L lleb e clip tmp (fst ml) p k (snd ml), fst ml)) ins
    in
  greedy_batch rows = Some (map (fun r : list K * list bool => greedy K (fst r)) rows).
Proof. exact greedy_batch_of_process_logits. Qed.
Print Assumptions C10_greedy_batch_never_raises_on_process_logits.

(* sampling with a mask returns the FIRST round of draws in which every row's draw is allowed *)
Theorem C10_sampling_batch_returns_first_feasible_round :
  forall (masks : list (list bool)) (rounds : list (list nat)) (sel : list nat),
  sampling_batch masks rounds = Some sel ->
  guard_batch masks sel = true /\
  (exists j : nat,
     nth_error rounds j = Some sel /\
     (forall (i : nat) (s : list nat), i < j -> nth_error rounds i = Some s -> guard_batch masks s = false)).
Proof. exact sampling_batch_first_feasible. Qed.
Print Assumptions C10_sampling_batch_returns_first_feasible_round.

Theorem C10_entropy_guard_is_the_conjunction_of_the_row_verdicts :
  forall rows : list (list nat),
  entropy_guard rows = true <-> (forall r : list nat, In r rows -> ent_row_finite r = true).
Proof. exact entropy_guard_iff. Qed.
Print Assumptions C10_entropy_guard_is_the_conjunction_of_the_row_verdicts.

(* non-vacuity: the executable entropy (lnQ: fixed-point approximation of ln, exact multiples of ln2Q on powers of two) and the
   audit's batches *)
Example C10_ex_entropy :
  eqQ (entropyQ [qc 1 2; qc 1 2]) ln2Q = true /\ eqQ (entropyQ [0%Qc; 1%Qc; 0%Qc]) 0%Qc = true /\
  eqQ (entropyQ [qc 1 2; qc 1 4; qc 1 4; 0%Qc]) (qc 3 2 * ln2Q)%Qc = true /\
  closeQ (entropyQ [qc 1 3; qc 1 3; qc 1 3]) (Q2Qc (10986122886681098 # 10000000000000000)) (Q2Qc (1 # 1000000000)) = true /\
  qnd (plQ (fun z => z) (fun z => z) [true; false; true; true] f0 0 [4; 9; 4; 4]%Z) = [1 # 3; 0 # 1; 1 # 3; 1 # 3]%Q /\
  qnd (uniform_on (K := QcF) [true; false; true; true]) = [1 # 3; 0 # 1; 1 # 3; 1 # 3]%Q.
Proof. vm_compute. repeat split. Qed.
Example C10_ex_batch_guards :
  guard_batch [[true; false]; [true; true]] [1; 0]%nat = false /\
  greedy_batch (K := QcF) [([qc 1 4; qc 3 4], [true; false]); ([qc 3 4; qc 1 4], [true; true])] = None /\
  greedy_batch (K := QcF) [([qc 3 4; qc 1 4], [true; false]); ([qc 3 4; qc 1 4], [true; true])] = Some [0; 0]%nat /\
  sampling_batch [[true; false]; [true; true]] [[1; 0]; [1; 1]; [0; 0]]%nat = Some [0; 0]%nat /\
  entropy_guard [[0; 0]; [2; 0]]%nat = false.
Proof. vm_compute. repeat split. Qed.
