(* C19 -- persistence round-trips preserve instances (the provable part: text codec and loader arithmetic).
   This file contains only statements closed by [exact], their Print Assumptions, and Examples.

   Vocabulary (Data/Persist.v): [ginst] one row of what the FJSP/JSSP generators emit (start/end op per job,
   proc_times [machines][ops], pad_mask); [reset_view g] what parser.write_one reads from env.reset;
   [fjsp_write fmt w] the lines write_one writes ([fmt] prints the flexibility word; [fmt5] is rl4co's
   f"{round(a/b, 5)}"); [fjsp_read mo f] / [jssp_read mo f] = parser.read(file, max_ops = mo);
   [jssp_format g] the documented JSSP file format (rl4co has no JSSP writer); results are three-valued:
   [Ok v] returns v, [Raises] the code raises, [OutOfModel] not modelled.  [repad W g] is g with its padding
   replaced by a padding of width W; [strip_padding g] = no padding at all; [as_rinst g] = g unchanged.
   (Data/PersistLoad.v): arrays with rank over an ordered field K, [load_npz] = load_npz_to_tensordict,
   [cvrp_load] = CVRPEnv.load_data, [mtvrp_load scale] = MTVRPEnv.load_data.

   NOT covered by any theorem here (exercised differentially by vt/props/c19.py and reported as testing):
   the npz byte format (it enters as the hypothesis [np_load (np_savez x) = x]), copy.deepcopy / pickle of
   environments, Lightning checkpoints. *)
From Coq Require Import String Ascii ZArith List Bool Arith.
From RL4CO Require Import Base.OField Base.OFieldQc Data.Persist Data.PersistProofs Data.PersistLoad Data.PersistText.
Import ListNotations.

(* ---- FJSP text files: write then read = the instance up to padding, all sizes, any flexibility printer ---- *)
Theorem C19_fjsp_text_roundtrip_any_printer :
  forall (fmt : Z -> Z -> tok) (g : ginst) (mo : option Z),
    wf_fjspb g = true ->
    (exists v, parse_num (fmt (count_pos (g_pt g)) (count_real (g_pad g))) = Ok v) ->
    max_ops_ok mo (g_total g) ->
    bind (fjsp_write fmt (reset_view g)) (fjsp_read mo) = Ok (repad (Z.to_nat (read_width mo (g_total g))) g).
Proof. exact fjsp_text_roundtrip_gen. Qed.
Print Assumptions C19_fjsp_text_roundtrip_any_printer.

(* ... with the flexibility word as rl4co prints it; flexibility >= 1 (e.g. every operation has a machine) *)
Theorem C19_fjsp_text_roundtrip :
  forall (g : ginst) (mo : option Z),
    wf_fjspb g = true -> (count_real (g_pad g) <= count_pos (g_pt g))%Z -> max_ops_ok mo (g_total g) ->
    bind (fjsp_write fmt5 (reset_view g)) (fjsp_read mo) = Ok (repad (Z.to_nat (read_width mo (g_total g))) g).
Proof. exact fjsp_text_roundtrip. Qed.
Print Assumptions C19_fjsp_text_roundtrip.

Theorem C19_fjsp_text_roundtrip_strip :
  forall g : ginst,
    wf_fjspb g = true -> (count_real (g_pad g) <= count_pos (g_pt g))%Z ->
    bind (fjsp_write fmt5 (reset_view g)) (fjsp_read None) = Ok (strip_padding g).
Proof. exact fjsp_text_roundtrip_strip. Qed.
Print Assumptions C19_fjsp_text_roundtrip_strip.

(* read with max_ops = the original width and clean padding: the very same instance *)
Theorem C19_fjsp_text_roundtrip_same_width :
  forall g : ginst,
    wf_fjspb g = true -> pad_cleanb g = true -> (count_real (g_pad g) <= count_pos (g_pt g))%Z ->
    bind (fjsp_write fmt5 (reset_view g)) (fjsp_read (Some (Z.of_nat (g_W g)))) = Ok (as_rinst g).
Proof. exact fjsp_text_roundtrip_same_width. Qed.
Print Assumptions C19_fjsp_text_roundtrip_same_width.

(* rl4co's flexibility word is float-looking (hence readable) whenever flexibility >= 1 *)
Theorem C19_flexibility_word_parses :
  forall a b : Z, (0 < b)%Z -> (b <= a)%Z -> exists v, parse_num (fmt5 a b) = Ok v.
Proof. exact fmt5_parses. Qed.
Print Assumptions C19_flexibility_word_parses.

(* ---- rejected inputs ---- *)
Theorem C19_fjsp_write_rejects_no_real_ops :
  forall (fmt : Z -> Z -> tok) (w : winst), count_real (w_pad w) = 0%Z -> fjsp_write fmt w = Raises.
Proof. exact fjsp_write_rejects_no_real_ops. Qed.
Print Assumptions C19_fjsp_write_rejects_no_real_ops.

Theorem C19_fjsp_read_rejects_small_max_ops :
  forall (fmt : Z -> Z -> tok) (g : ginst) (m : Z),
    wf_fjspb g = true ->
    (exists v, parse_num (fmt (count_pos (g_pt g)) (count_real (g_pad g))) = Ok v) ->
    (m < g_total g)%Z ->
    bind (fjsp_write fmt (reset_view g)) (fjsp_read (Some m)) = Raises.
Proof. exact fjsp_read_rejects_small_max_ops. Qed.
Print Assumptions C19_fjsp_read_rejects_small_max_ops.

Theorem C19_read_rejects_unparsable_header_word :
  forall (pj : list Z -> res (list (list (Z * Z)))) (mo : option Z) (a b : Z) (t : tok) (rest : list (list tok)),
    parse_num t = Raises -> read_with pj mo ([TInt a; TInt b; t] :: rest) = Raises.
Proof. exact read_rejects_bad_header_word. Qed.
Print Assumptions C19_read_rejects_unparsable_header_word.

Theorem C19_jssp_line_with_odd_word_count_rejected :
  forall ws : list Z, Nat.odd (length ws) = true -> jssp_parse_job_line ws = Raises.
Proof. exact jssp_parse_job_line_rejects_odd. Qed.
Print Assumptions C19_jssp_line_with_odd_word_count_rejected.

(* ---- JSSP text files ---- *)
Theorem C19_jssp_text_roundtrip :
  forall (g : ginst) (mo : option Z),
    wf_jsspb g = true -> max_ops_ok mo (g_total g) ->
    jssp_read mo (jssp_format g) = Ok (repad (Z.to_nat (read_width mo (g_total g))) g).
Proof. exact jssp_text_roundtrip. Qed.
Print Assumptions C19_jssp_text_roundtrip.

(* ---- the character layer under the word-level model (Data/PersistText.v): join / split and str(int) / int() ---- *)
(* [render] joins the words of each line with that line's separator (a blank that is not a newline) and the lines with
   newlines; [lex] is file2lines without the int conversion: non-blank lines, split on blanks *)
Theorem C19_text_split_undoes_join :
  forall lines : list (Ascii.ascii * list text),
    forallb good_line lines = true -> lex (render lines) = map snd lines.
Proof. exact lex_render. Qed.
Print Assumptions C19_text_split_undoes_join.

Theorem C19_text_int_numeral_roundtrip :
  forall z : Z, Z_of_str (str_of_Z z) = Some z /\ good_word (str_of_Z z) = true.
Proof. exact (fun z => conj (Z_of_str_of_Z z) (str_of_Z_good z)). Qed.
Print Assumptions C19_text_int_numeral_roundtrip.

Theorem C19_text_file_of_integers_roundtrip :
  forall lines : list (Ascii.ascii * list Z),
    forallb (fun sl => is_ws (fst sl) && negb (is_nl (fst sl)) && nonnil (snd sl))%bool lines = true ->
    map (map Z_of_str) (lex (render (map (fun sl => (fst sl, map str_of_Z (snd sl))) lines)))
    = map (fun sl => map Some (snd sl)) lines.
Proof. exact ints_text_roundtrip. Qed.
Print Assumptions C19_text_file_of_integers_roundtrip.

(* ---- directories of instance files: operation counts, the file generators, the writer's file names ---- *)
Theorem C19_fjsp_n_ops_of_written_file :
  forall (fmt : Z -> Z -> tok) (g : ginst) (f : list (list tok)),
    wf_fjspb g = true ->
    (exists v, parse_num (fmt (count_pos (g_pt g)) (count_real (g_pad g))) = Ok v) ->
    fjsp_write fmt (reset_view g) = Ok f -> n_ops_of fjsp_parse_job_line f = Ok (g_total g).
Proof. exact fjsp_n_ops_written. Qed.
Print Assumptions C19_fjsp_n_ops_of_written_file.

Theorem C19_jssp_n_ops_of_file :
  forall g : ginst, wf_jsspb g = true -> n_ops_of jssp_parse_job_line (jssp_format g) = Ok (g_total g).
Proof. exact jssp_n_ops_format. Qed.
Print Assumptions C19_jssp_n_ops_of_file.

(* >= 2 files, in any listing order: every instance comes back, padded to the largest operation count of the directory *)
Theorem C19_fjsp_file_generator_roundtrip :
  forall (gs : list ginst) (files : list (list (list tok))) (n_ops_max : option Z),
    (2 <= length gs)%nat ->
    forallb (fun g => wf_fjspb g && (count_real (g_pad g) <=? count_pos (g_pt g))%Z)%bool gs = true ->
    mapM (fun g => fjsp_write fmt5 (reset_view g)) gs = Ok files ->
    file_generator fjsp_parse_job_line n_ops_max files = Ok (map (repad (Z.to_nat (dir_width gs))) gs).
Proof. exact fjsp_file_generator_roundtrip. Qed.
Print Assumptions C19_fjsp_file_generator_roundtrip.

Theorem C19_jssp_file_generator_roundtrip :
  forall (gs : list ginst) (n_ops_max : option Z),
    (2 <= length gs)%nat -> forallb wf_jsspb gs = true ->
    file_generator jssp_parse_job_line n_ops_max (map jssp_format gs) = Ok (map (repad (Z.to_nat (dir_width gs))) gs).
Proof. exact jssp_file_generator_roundtrip. Qed.
Print Assumptions C19_jssp_file_generator_roundtrip.

(* the writer's file name carries the 0-based index of the instance: distinct instances, distinct files *)
Theorem C19_file_name_carries_index :
  forall id nj nm : Z, (0 <= id)%Z -> index_of_name (file_name id nj nm) = Some id.
Proof. exact index_of_file_name. Qed.
Print Assumptions C19_file_name_carries_index.

(* ---- rl4co/data/utils.py check_extension: the result carries the extension exactly once ---- *)
Theorem C19_check_extension_has_ext :
  forall f e : text,
    plain_ext e = true -> existsb (fun c => negb (is_dot c)) (basename_rev f) = true ->
    ext_of (check_extension f ("."%char :: e)) = "."%char :: e
    /\ check_extension (check_extension f ("."%char :: e)) ("."%char :: e) = check_extension f ("."%char :: e).
Proof. exact (fun f e He Hf => conj (check_extension_has_ext f e He Hf) (check_extension_idempotent f e He Hf)). Qed.
Print Assumptions C19_check_extension_has_ext.

Theorem C19_check_extension_cases :
  forall f ext : text,
    (ext_of f = ext /\ check_extension f ext = f) \/ (ext_of f <> ext /\ check_extension f ext = f ++ ext).
Proof. exact check_extension_cases. Qed.
Print Assumptions C19_check_extension_cases.

(* ---- npz bookkeeping (the byte format is the hypothesis) ---- *)
Theorem C19_npz_roundtrip :
  forall (K : ofield) (file : Type) (np_savez : npz K -> file) (np_load : file -> npz K),
    (forall x, np_load (np_savez x) = x) ->
    forall t : tdict K, td_wfb K t = true -> load_npz K (np_load (np_savez (save_npz K t))) = Ok t.
Proof. exact npz_roundtrip. Qed.
Print Assumptions C19_npz_roundtrip.

Theorem C19_npz_load_rejects_mismatch :
  forall (K : ofield) (file : Type) (np_savez : npz K -> file) (np_load : file -> npz K),
    (forall x, np_load (np_savez x) = x) ->
    forall (x : npz K) (b : nat),
      match x with (_, a) :: _ => lead K a = Some b | [] => False end ->
      forallb (fun ka => lead_is K b (snd ka)) x = false -> load_npz K (np_load (np_savez x)) = Raises.
Proof. exact npz_load_rejects_mismatch. Qed.
Print Assumptions C19_npz_load_rejects_mismatch.

(* ---- generate_vrp_data -> np.savez -> CVRPEnv.load_data ---- *)
Theorem C19_cvrp_load_normalises :
  forall (K : ofield) (depot : list (list K)) (locs : list (list (list K))) (demand : list (list K)) (cap : list K),
    length depot = length demand -> length locs = length demand -> length cap = length demand ->
    cvrp_load K (vrp_file K depot locs demand cap)
    = Ok {| td_bs := length demand; td_items := vrp_file K depot locs (norm_rows K demand cap) cap |}.
Proof. exact cvrp_load_file_layout. Qed.
Print Assumptions C19_cvrp_load_normalises.

Theorem C19_normalised_demand_in_unit_interval :
  forall (K : ofield) (d c : K), flt f0 c -> fle f0 d -> fle d c -> fle f0 (fdiv d c) /\ fle (fdiv d c) f1.
Proof. exact normalised_in_unit_interval. Qed.
Print Assumptions C19_normalised_demand_in_unit_interval.

Theorem C19_normalised_load_equivalent :
  forall (K : ofield) (ds : list K) (c : K),
    flt f0 c -> fleb (fsum (map (fun d => fdiv d c) ds)) f1 = fleb (fsum ds) c.
Proof. exact normalised_load_equiv. Qed.
Print Assumptions C19_normalised_load_equivalent.

(* ---- MTVRPEnv.load_data ---- *)
Theorem C19_mtvrp_load_noscale_is_plain_load :
  forall (K : ofield) (x : npz K), mtvrp_load K false x = load_npz K x.
Proof. exact mtvrp_load_noscale. Qed.
Print Assumptions C19_mtvrp_load_noscale_is_plain_load.

Theorem C19_mtvrp_load_scale :
  forall (K : ofield) (others : npz K) (dl db : list (list K)) (vcap cap0 : list K),
    length db = length dl -> length vcap = length dl -> length cap0 = length dl ->
    forallb (fun ka => lead_is K (length dl) (snd ka)) others = true ->
    mtvrp_load K true (save_npz K (mtvrp_td K others dl db vcap cap0))
    = Ok (mtvrp_td K others (norm_rows K dl cap0) (norm_rows K db cap0) vcap cap0).
Proof. exact mtvrp_load_scale. Qed.
Print Assumptions C19_mtvrp_load_scale.

(* ---- findings: the model follows the code ---- *)
(* generator-layout TensorDict -> save_tensordict_to_npz -> CVRPEnv.load_data is never the identity:
   the demand comes back as a rank-3 [B,B,n] array, without any error *)
Theorem C19_cvrp_generator_layout_roundtrip_refuted :
  forall (K : ofield) (locs : list (list (list K))) (depot demand : list (list K)) (cap : list K),
    length depot = length demand -> length locs = length demand -> length cap = length demand ->
    cvrp_load K (save_npz K (cvrp_gen_td K locs depot demand cap)) <> Ok (cvrp_gen_td K locs depot demand cap).
Proof. exact cvrp_load_generator_layout_not_identity. Qed.
Print Assumptions C19_cvrp_generator_layout_roundtrip_refuted.

Theorem C19_cvrp_generator_layout_demand_rank3 :
  forall (K : ofield) (locs : list (list (list K))) (depot demand : list (list K)) (cap : list K),
    length depot = length demand -> length locs = length demand -> length cap = length demand ->
    cvrp_load K (save_npz K (cvrp_gen_td K locs depot demand cap))
    = Ok {| td_bs := length demand;
            td_items := [("locs"%string, A3 locs); ("depot"%string, A2 depot);
                         ("demand"%string, A3 (map (fun c => rows_div K demand c) cap));
                         ("capacity"%string, A2 (map (fun c => [c]) cap))] |}.
Proof. exact cvrp_load_generator_layout_rank3. Qed.
Print Assumptions C19_cvrp_generator_layout_demand_rank3.

(* scale=True rescales the demands but not vehicle_capacity: the capacity test after loading is fsum ds <= c*c *)
Theorem C19_mtvrp_scaled_capacity_test :
  forall (K : ofield) (ds : list K) (c : K),
    flt f0 c -> fleb (fsum (map (fun d => fdiv d c) ds)) c = fleb (fsum ds) (fmul c c).
Proof. exact mtvrp_scaled_capacity_test. Qed.
Print Assumptions C19_mtvrp_scaled_capacity_test.

(* ------------------------------------------------------------------------------------------ Examples (non-vacuity) *)
(* 3 jobs with 2, 1, 2 operations on 2 machines, one padded column; op 1 has a single eligible machine *)
Definition ex_g : ginst :=
  {| g_start := [0; 2; 3]%Z; g_end := [1; 2; 4]%Z;
     g_pt := [[6; 0; 10; 1; 0; 0]; [6; 2; 0; 0; 19; 0]]%Z;
     g_pad := [false; false; false; false; false; true] |}.

Example ex_g_wf : wf_fjspb ex_g = true /\ pad_cleanb ex_g = true /\ every_op_eligibleb ex_g = true
                  /\ (count_real (g_pad ex_g) <=? count_pos (g_pt ex_g))%Z = true.
Proof. vm_compute. repeat split. Qed.

Example ex_g_written :
  fjsp_write fmt5 (reset_view ex_g)
  = Ok [[TInt 3; TInt 2; TFloat 1 20000];
        map TInt [2; 2; 1; 6; 2; 6; 1; 2; 2]%Z; map TInt [1; 1; 1; 10]%Z; map TInt [2; 1; 1; 1; 1; 2; 19]%Z].
Proof. vm_compute. reflexivity. Qed.

Example ex_g_read_back :
  bind (fjsp_write fmt5 (reset_view ex_g)) (fjsp_read (Some 6%Z)) = Ok (as_rinst ex_g)
  /\ bind (fjsp_write fmt5 (reset_view ex_g)) (fjsp_read None) = Ok (strip_padding ex_g)
  /\ bind (fjsp_write fmt5 (reset_view ex_g)) (fjsp_read (Some 4%Z)) = Raises.
Proof. vm_compute. repeat split. Qed.

(* rejected: a negative duration trips write_one's assert; an instance without real operations divides by zero;
   a flexibility of 5e-05 is printed in exponent notation, which file2lines cannot read back *)
Example ex_negative_duration_rejected :
  fjsp_write fmt5 (reset_view {| g_start := [0]%Z; g_end := [0]%Z; g_pt := [[-3]]%Z; g_pad := [false] |}) = Raises.
Proof. vm_compute. reflexivity. Qed.

Example ex_exponent_word : fmt5 1 20000 = TBad /\ parse_num (fmt5 1 20000) = Raises.
Proof. vm_compute. split; reflexivity. Qed.

(* lenient: a job line cut in the middle of its last operation is read without error (a machine is dropped) *)
Example ex_truncated_line_accepted :
  fjsp_parse_job_line [1; 2; 1; 5; 2]%Z = Ok [[(1, 5)]]%Z.
Proof. vm_compute. reflexivity. Qed.

(* a machine index 0 in a file wraps to the last machine (torch negative indexing), it is not refused *)
Example ex_machine_zero_wraps :
  exists r, jssp_read None [[TInt 1; TInt 3]; map TInt [0; 5]%Z] = Ok r /\ r_pt r = [[0]; [0]; [5]]%Z.
Proof. eexists. split; vm_compute; reflexivity. Qed.

(* JSSP: 2 jobs x 2 operations, one machine each *)
Definition ex_j : ginst :=
  {| g_start := [0; 2]%Z; g_end := [1; 3]%Z; g_pt := [[5; 0; 0; 3]; [0; 7; 4; 0]]%Z;
     g_pad := [false; false; false; false] |}.
Example ex_j_roundtrip :
  wf_jsspb ex_j = true
  /\ jssp_format ex_j = [[TInt 2; TInt 2]; map TInt [1; 5; 2; 7]%Z; map TInt [2; 4; 1; 3]%Z]
  /\ jssp_read None (jssp_format ex_j) = Ok (strip_padding ex_j).
Proof. vm_compute. repeat split. Qed.

(* what fjsp's writer emits is NOT the JSSP format: jssp.parser.read refuses or misreads it *)
Example ex_fjsp_file_is_not_jssp_format :
  bind (fjsp_write fmt5 (reset_view ex_j)) (fun f => jssp_read None f) = Raises.
Proof. vm_compute. reflexivity. Qed.

(* loaders, at the computable field Qc: capacity 20, demands 5 and 20 *)
Example ex_cvrp_load :
  match cvrp_load QcF (vrp_file QcF [[qc 1 2; qc 1 4]] [[[qc 1 8; qc 3 8]; [qc 5 8; qc 7 8]]] [[qc 5 1; qc 20 1]] [qc 20 1]) with
  | Ok t => (Nat.eqb (td_bs QcF t) 1
             && match lookup QcF "demand" (td_items QcF t) with
                | Some (A2 [[x; y]]) => Qcanon.Qc_eq_bool x (qc 1 4) && Qcanon.Qc_eq_bool y (qc 1 1)
                | _ => false
                end)%bool
  | _ => false
  end = true.
Proof. vm_compute. reflexivity. Qed.

(* the capacity finding on numbers: capacity 30, customers 20 + 20: infeasible as stored, feasible after
   MTVRPEnv.load_data(scale=True) because vehicle_capacity is still 30 while the demands became 2/3 *)
Example ex_mtvrp_scale_changes_feasibility :
  let ds : list QcF := [qc 20 1; qc 20 1] in
  let c : QcF := qc 30 1 in
  fleb (@fsum QcF ds) c = false /\ fleb (@fsum QcF (map (fun d : QcF => fdiv d c) ds)) c = true.
Proof. vm_compute. split; reflexivity. Qed.

(* the character layer on a two-line file "3<TAB>2" / "1 -5 16777215" *)
Example ex_text_layer :
  map (map Z_of_str) (lex (render [("009"%char, map str_of_Z [3; 2]%Z); (" "%char, map str_of_Z [1; -5; 16777215]%Z)]))
  = [[Some 3; Some 2]; [Some 1; Some (-5); Some 16777215]]%Z.
Proof. vm_compute. reflexivity. Qed.

(* file names and extensions on concrete strings; names of the first 150 instances sort in index order (bounded) *)
Example ex_file_name :
  file_name 0 3 2 = list_ascii_of_string "0001_3j_2m.txt" /\ file_name 11 10 5 = list_ascii_of_string "0012_10j_5m.txt"
  /\ file_name 12344 1 1 = list_ascii_of_string "12345_1j_1m.txt".
Proof. vm_compute. repeat split. Qed.

Fixpoint text_ltb (a b : text) : bool :=
  match a, b with
  | _, [] => false
  | [], _ :: _ => true
  | x :: a', y :: b' => Nat.ltb (nat_of_ascii x) (nat_of_ascii y) || (Nat.eqb (nat_of_ascii x) (nat_of_ascii y) && text_ltb a' b')
  end.
Example ex_file_names_sorted_150 :
  forallb (fun i => text_ltb (file_name (Z.of_nat i) 3 2) (file_name (Z.of_nat (S i)) 3 2)) (seq 0 150) = true.
Proof. vm_compute. reflexivity. Qed.

Example ex_check_extension :
  let E := list_ascii_of_string ".npz" in
  check_extension (list_ascii_of_string "tsp20") E = list_ascii_of_string "tsp20.npz"
  /\ check_extension (list_ascii_of_string "tsp20.npz") E = list_ascii_of_string "tsp20.npz"
  /\ check_extension (list_ascii_of_string "data.v2/tsp20") E = list_ascii_of_string "data.v2/tsp20.npz"
  /\ check_extension (list_ascii_of_string "x.npz.bak") E = list_ascii_of_string "x.npz.bak.npz"
  /\ check_extension (list_ascii_of_string ".npz") E = list_ascii_of_string ".npz.npz".
Proof. vm_compute. repeat split. Qed.
