(* C14 -- inference is per-instance (PARTIAL: what a proof can carry).

   (A) shape calculus: for every batch size B >= 1 (and number of starts S, instance size N, width H) the
       environment embeddings and the AM decoder's glimpse query have the documented shape; _refuted theorems mark
       the configurations where the code as it is does not (single-job JSSP, DPP multistart, MatNet with N > H).
   (B) composition: IF encoder and decoder are row-wise on batches satisfying an invariant that the caller proves
       for reset and step (a batch-global construct like the first-step test is discharged that way), THEN greedy
       actions (up to padding), reward and log-likelihood of an instance do not depend on batch size, position or
       batch-mates, including batch size 1.
   That the neural layers (attention, normalisation, linear maps as float kernels) ARE row-wise is NOT proved
   here: it is the hypothesis of (B) and is only tested (differential test in vt/props/c14.py). *)
From Coq Require Import String.
From Coq Require Import List Arith Bool Lia.
From RL4CO Require Import Base.EnvSig Decoding.Shapes Decoding.Rowwise.
Import ListNotations.
Open Scope string_scope.
Open Scope list_scope.
Open Scope nat_scope.

(* ------------------------------------------------------------------ (A) gather_by_index *)
Theorem C14_gather_by_index_flat : forall B n H : nat, gather_by_index [B; n; H] [B] 1 true = Some [B; H].
Proof. exact gbi_flat. Qed.
Print Assumptions C14_gather_by_index_flat.
Theorem C14_gather_by_index_col : forall B n H : nat, gather_by_index [B; n; H] [B; 1] 1 true = Some [B; H].
Proof. exact gbi_col. Qed.
Print Assumptions C14_gather_by_index_col.
Theorem C14_gather_by_index_multi : forall B n k H : nat, k <> 1 -> gather_by_index [B; n; H] [B; k] 1 true = Some [B; k; H].
Proof. exact gbi_multi. Qed.
Print Assumptions C14_gather_by_index_multi.

(* ------------------------------------------------------------------ (A) context embeddings *)
(* Full strength since /repo commits 81bfd82 (bare .squeeze() removed from the SVRP/PDP/MDCPDP/mTSP contexts) and 46a31b8
   (mTSP minmax reward keeps its batch axis).  The B = 1 / H = 1 refutations that stood here are recorded as fixed in
   known_findings.json; vt/props/c14.py still looks for their signatures on every run. *)
Theorem C14_ctx_shape_ok :
  forall (e : env_name) (c : ctx_class) (stepped first : bool) (B N M H : nat),
    ctx_registry e = Some c -> reachable stepped first ->
    1 <= B -> 1 <= N -> 1 <= M -> 1 <= H ->
    ctx_out e stepped first (flat B N M 0) H = Some [B; H].
Proof. exact ctx_shape_ok. Qed.
Print Assumptions C14_ctx_shape_ok.

Theorem C14_bare_squeeze_drops_batch_axis :
  forall H : nat, 2 <= H -> squeeze_all [1; H] = [H] /\ cat (Bk 0) [[H]; [1; H]] = None /\ squeeze_all [1; 1; H] = [H].
Proof. exact bare_squeeze_drops_batch_axis. Qed.
Print Assumptions C14_bare_squeeze_drops_batch_axis.

Theorem C14_mtsp_reward_shape_ok : forall B : nat, 1 <= B -> mtsp_minmax_reward_shape B = Some [B].
Proof. exact mtsp_reward_shape_ok. Qed.
Print Assumptions C14_mtsp_reward_shape_ok.

Theorem C14_squeeze_last_of_batch_vector :
  squeeze (Bk 0) [1] = Some [] /\ forall B : nat, 2 <= B -> squeeze (Bk 0) [B] = Some [B].
Proof. exact squeeze_last_of_batch_vector. Qed.
Print Assumptions C14_squeeze_last_of_batch_vector.

(* ------------------------------------------------------------------ (A) the decoder's glimpse query *)
Theorem C14_q_shape_ok :
  forall (e : env_name) (c : ctx_class) (stepped first use_gc : bool) (B N M H : nat),
    ctx_registry e = Some c -> reachable stepped first ->
    1 <= B -> 1 <= N -> 1 <= M -> 1 <= H ->
    q_out e stepped first (flat B N M 0) H use_gc = Some [B; 1; H].
Proof. exact q_shape_ok. Qed.
Print Assumptions C14_q_shape_ok.

Theorem C14_q_shape_ok_multistart :
  forall (e : env_name) (c : ctx_class) (B S N M H : nat) (use_gc : bool),
    ctx_registry e = Some c -> c <> CDPPContext -> c <> CMTSPContext ->
    1 <= B -> 2 <= S -> 1 <= N -> 1 <= M -> 1 <= H ->
    q_out e true false (multi B S N M 0) H use_gc = Some [B; S; H].
Proof. exact q_shape_ok_multistart. Qed.
Print Assumptions C14_q_shape_ok_multistart.

Theorem C14_dpp_multistart_refuted :
  forall (e : env_name) (B S N H : nat),
    e = Edpp \/ e = Emdpp -> 2 <= B -> 2 <= S -> 1 <= N -> 2 <= H ->
    q_out e true false (multi B S N 0 0) H true = Some [B; B; H] /\
    q_out e true false (multi B S N 0 0) H false = Some [B; 1; H].
Proof. exact dpp_multistart_refuted. Qed.
Print Assumptions C14_dpp_multistart_refuted.

(* ------------------------------------------------------------------ (A) dynamic and init embeddings *)
Theorem C14_dyn_sdvrp_ok :
  forall B N H : nat, 1 <= B -> 1 <= N -> 1 <= H ->
    dyn_forward DSDVRP H [] (env_layout Esdvrp true (flat B N 0 0)) = Some [[B; N + 1; H]; [B; N + 1; H]; [B; N + 1; H]].
Proof. exact dyn_sdvrp_ok. Qed.
Print Assumptions C14_dyn_sdvrp_ok.

Theorem C14_dyn_jssp_ok :
  forall (e : env_name) (B J M O H : nat),
    e = Ejssp \/ e = Efjsp -> 1 <= B -> 2 <= J -> 1 <= M -> 1 <= O -> 1 <= H ->
    dyn_forward DJSSP H [B; M; H] (env_layout e true (flat B J M O)) = Some [[B; J; H]; [B; J; H]; [B; J; H]].
Proof. exact dyn_jssp_ok. Qed.
Print Assumptions C14_dyn_jssp_ok.

Theorem C14_dyn_jssp_single_job_refuted :
  forall (e : env_name) (B M O H : nat),
    e = Ejssp \/ e = Efjsp -> 2 <= B -> 2 <= M -> 1 <= O -> 1 <= H ->
    dyn_forward DJSSP H [B; M; H] (env_layout e true (flat B 1 M O)) = None.
Proof. exact dyn_jssp_single_job_refuted. Qed.
Print Assumptions C14_dyn_jssp_single_job_refuted.

Theorem C14_init_shape_ok :
  forall (e : env_name) (c : init_class) (B N H : nat),
    init_registry e = Some c -> e <> Epdp -> e <> Emdcpdp -> e <> Edpp -> e <> Ejssp -> e <> Efjsp -> e <> Eatsp ->
    1 <= B -> 1 <= N -> 1 <= H ->
    init_forward c H (env_layout e false (flat B N 0 0)) = Some [[B; nodes e (flat B N 0 0); H]].
Proof. exact init_shape_ok. Qed.
Print Assumptions C14_init_shape_ok.

Theorem C14_init_shape_ok_pdp :
  forall B P H : nat, 1 <= B -> 1 <= P -> 1 <= H ->
    init_forward IPDP H (env_layout Epdp false (flat B (2 * P) 0 0)) = Some [[B; 2 * P + 1; H]].
Proof. exact init_shape_ok_pdp. Qed.
Print Assumptions C14_init_shape_ok_pdp.

Theorem C14_init_shape_ok_dpp :
  forall B N H : nat, 1 <= B -> 1 <= N -> 1 <= H ->
    init_forward IDPP H (env_layout Edpp false (flat B N 0 0)) = Some [[B; N; H / 2 + H / 2]].
Proof. exact init_shape_ok_dpp. Qed.
Print Assumptions C14_init_shape_ok_dpp.

Theorem C14_init_shape_ok_fjsp :
  forall (e : env_name) (B J M O H : nat),
    e = Ejssp \/ e = Efjsp -> 1 <= B -> 1 <= J -> 1 <= M -> 1 <= O -> 1 <= H ->
    init_forward IFJSP H (env_layout e false (flat B J M O)) = Some [[B; O; H]; [B; M; H]; [B; O; M; H]; [B; O; M]].
Proof. exact init_shape_ok_fjsp. Qed.
Print Assumptions C14_init_shape_ok_fjsp.

Theorem C14_init_shape_ok_matnet :
  forall B N H : nat, 1 <= B -> 1 <= N -> N <= H ->
    init_forward IMatNet H (env_layout Eatsp false (flat B N 0 0)) = Some [[B; N; H]; [B; N; H]; [B; N; N]].
Proof. exact init_shape_ok_matnet. Qed.
Print Assumptions C14_init_shape_ok_matnet.

Theorem C14_init_matnet_wide_refuted :
  forall B N H : nat, H < N -> init_forward IMatNet H (env_layout Eatsp false (flat B N 0 0)) = None.
Proof. exact init_matnet_wide_refuted. Qed.
Print Assumptions C14_init_matnet_wide_refuted.

(* ------------------------------------------------------------------ (A) the batch-global first-step test *)
Theorem C14_first_step_test_rowwise :
  forall B k r : nat, r < B -> first_step_coded (i_after B k) = first_step_row (nth r (i_after B k) 0).
Proof. exact first_step_test_rowwise. Qed.
Print Assumptions C14_first_step_test_rowwise.

Theorem C14_first_step_rowwise_if_shared :
  forall (is_ : list nat) (c : nat), (forall x, In x is_ -> x = c) ->
    forall r, r < length is_ -> first_step_coded is_ = first_step_row (nth r is_ 0).
Proof. exact first_step_rowwise_if_shared. Qed.
Print Assumptions C14_first_step_rowwise_if_shared.

Theorem C14_first_step_coded_not_rowwise_refuted :
  exists (is_ : list nat) (r : nat), r < length is_ /\ first_step_coded is_ <> first_step_row (nth r is_ 0).
Proof. exact first_step_coded_not_rowwise_refuted. Qed.
Print Assumptions C14_first_step_coded_not_rowwise_refuted.

(* ------------------------------------------------------------------ (B) composition *)
Theorem C14_policy_rowwise :
  forall (E : Env) (hidden logit L : Type) (lzero : L) (ladd : L -> L -> L) (Rw : Type) (reward : inst E -> list nat -> Rw)
         (benc : list (inst E) -> list hidden) (enc : inst E -> hidden)
         (bdec : list hidden -> list (row E) -> list logit) (dec : hidden -> row E -> logit)
         (choose : logit -> list bool -> nat * L) (BInv : list (row E) -> Prop),
    (* the network is row-wise on batches satisfying BInv; BInv holds after reset and is kept by steps *)
    (forall is_, benc is_ = map enc is_) ->
    (forall hs rows, BInv rows -> length hs = length rows -> bdec hs rows = map2 dec hs rows) ->
    (forall is_, BInv (map (rreset E) is_)) ->
    (forall rows acts, BInv rows -> length acts = length rows -> BInv (map2 (rstep E) rows acts)) ->
    (* padding: a finished row stays finished, its chosen action has log-probability 0 and leaves the reward alone *)
    (forall h rw, rdone E rw = true -> rdone E (rstep E rw (fst (pick E dec choose h rw))) = true) ->
    (forall h rw, rdone E rw = true -> snd (pick E dec choose h rw) = lzero) ->
    (forall h i acts, rdone E (i, run i acts) = true ->
                      reward i (acts ++ [fst (pick E dec choose h (i, run i acts))]) = reward i acts) ->
    (forall x, ladd x lzero = x) ->
    forall (fuel : nat) (is_ : list (inst E)) (r : nat) (i : inst E) tr fin,
      nth_error is_ r = Some i ->
      bpolicy E benc bdec choose fuel is_ = (tr, fin) -> all_done E fin = true ->
      let batched := row_traj lzero r tr in
      let alone := solo E enc dec choose fuel i in
      exists pad,
        traj_actions batched = traj_actions alone ++ pad /\
        rdone E (i, run i (traj_actions alone)) = true /\
        reward i (traj_actions batched) = reward i (traj_actions alone) /\
        traj_ll lzero ladd batched = traj_ll lzero ladd alone.
Proof. exact (@policy_rowwise). Qed.
Print Assumptions C14_policy_rowwise.

(* the loop run on the batch [i] (batch size 1) IS the solo reference *)
Theorem C14_batch_of_one_is_solo :
  forall (E : Env) (hidden logit L : Type) (lzero : L) (benc : list (inst E) -> list hidden) (enc : inst E -> hidden)
         (bdec : list hidden -> list (row E) -> list logit) (dec : hidden -> row E -> logit)
         (choose : logit -> list bool -> nat * L) (BInv : list (row E) -> Prop),
    (forall is_, benc is_ = map enc is_) ->
    (forall hs rows, BInv rows -> length hs = length rows -> bdec hs rows = map2 dec hs rows) ->
    (forall is_, BInv (map (rreset E) is_)) ->
    (forall rows acts, BInv rows -> length acts = length rows -> BInv (map2 (rstep E) rows acts)) ->
    forall (fuel : nat) (i : inst E) tr fin,
      bpolicy E benc bdec choose fuel [i] = (tr, fin) -> row_traj lzero 0 tr = solo E enc dec choose fuel i.
Proof. exact (@batch_of_one_is_solo). Qed.
Print Assumptions C14_batch_of_one_is_solo.

Theorem C14_policy_batch_independent :
  forall (E : Env) (hidden logit L Rw : Type) (lzero : L) (ladd : L -> L -> L) (reward : inst E -> list nat -> Rw)
         (benc : list (inst E) -> list hidden) (enc : inst E -> hidden)
         (bdec : list hidden -> list (row E) -> list logit) (dec : hidden -> row E -> logit)
         (choose : logit -> list bool -> nat * L) (BInv : list (row E) -> Prop),
    (forall is_, benc is_ = map enc is_) ->
    (forall hs rows, BInv rows -> length hs = length rows -> bdec hs rows = map2 dec hs rows) ->
    (forall is_, BInv (map (rreset E) is_)) ->
    (forall rows acts, BInv rows -> length acts = length rows -> BInv (map2 (rstep E) rows acts)) ->
    (forall h rw, rdone E rw = true -> rdone E (rstep E rw (fst (pick E dec choose h rw))) = true) ->
    (forall h rw, rdone E rw = true -> snd (pick E dec choose h rw) = lzero) ->
    (forall h i acts, rdone E (i, run i acts) = true ->
                      reward i (acts ++ [fst (pick E dec choose h (i, run i acts))]) = reward i acts) ->
    (forall x, ladd x lzero = x) ->
    forall (fuel : nat) (is1 is2 : list (inst E)) (r1 r2 : nat) (i : inst E) tr1 fin1 tr2 fin2,
      nth_error is1 r1 = Some i -> nth_error is2 r2 = Some i ->
      bpolicy E benc bdec choose fuel is1 = (tr1, fin1) -> all_done E fin1 = true ->
      bpolicy E benc bdec choose fuel is2 = (tr2, fin2) -> all_done E fin2 = true ->
      let t1 := row_traj lzero r1 tr1 in let t2 := row_traj lzero r2 tr2 in
      reward i (traj_actions t1) = reward i (traj_actions t2) /\
      traj_ll lzero ladd t1 = traj_ll lzero ladd t2 /\
      exists common pad1 pad2, traj_actions t1 = common ++ pad1 /\ traj_actions t2 = common ++ pad2 /\
                               rdone E (i, run i common) = true.
Proof. exact (@policy_batch_independent). Qed.
Print Assumptions C14_policy_batch_independent.

(* a decoder containing the batch-global first-step test is row-wise exactly under the shared-counter invariant,
   which reset establishes and step preserves *)
Theorem C14_first_step_decoder_rowwise :
  forall (E : Env) (hidden logit : Type) (decf : bool -> hidden -> row E -> logit) (cnt : row E -> nat),
    (forall i, cnt (rreset E i) = 0) -> (forall rw a, cnt (rstep E rw a) = S (cnt rw)) ->
    (forall hs rows, shared E cnt rows -> length hs = length rows ->
                     bdec_fs E decf cnt hs rows = map2 (dec_fs E decf cnt) hs rows) /\
    (forall is_, shared E cnt (map (rreset E) is_)) /\
    (forall rows acts, shared E cnt rows -> length acts = length rows -> shared E cnt (map2 (rstep E) rows acts)).
Proof.
  intros E hidden logit decf cnt H0 HS. split; [|split].
  - exact (bdec_fs_rowwise E hidden logit decf cnt).
  - exact (shared_reset E cnt H0).
  - exact (shared_step E cnt HS).
Qed.
Print Assumptions C14_first_step_decoder_rowwise.

Theorem C14_first_step_decoder_not_rowwise_refuted :
  exists (hs : list nat) (rows : list (row Toy.toyE)),
    length hs = length rows /\
    bdec_fs Toy.toyE Toy.decf Toy.cnt hs rows <> map2 (dec_fs Toy.toyE Toy.decf Toy.cnt) hs rows.
Proof. exact Toy.bdec_fs_not_rowwise_refuted. Qed.
Print Assumptions C14_first_step_decoder_not_rowwise_refuted.

(* all hypotheses of the composition theorem are satisfiable together: a closed instance *)
Theorem C14_toy_policy_rowwise :
  forall (fuel : nat) (is1 is2 : list nat) (r1 r2 i : nat) tr1 fin1 tr2 fin2,
    nth_error is1 r1 = Some i -> nth_error is2 r2 = Some i ->
    bpolicy Toy.toyE Toy.benc (bdec_fs Toy.toyE Toy.decf Toy.cnt) Toy.choose fuel is1 = (tr1, fin1) -> all_done Toy.toyE fin1 = true ->
    bpolicy Toy.toyE Toy.benc (bdec_fs Toy.toyE Toy.decf Toy.cnt) Toy.choose fuel is2 = (tr2, fin2) -> all_done Toy.toyE fin2 = true ->
    let t1 := row_traj 0 r1 tr1 in let t2 := row_traj 0 r2 tr2 in
    Toy.reward i (traj_actions t1) = Toy.reward i (traj_actions t2) /\
    traj_ll 0 Nat.add t1 = traj_ll 0 Nat.add t2 /\
    exists common pad1 pad2, traj_actions t1 = common ++ pad1 /\ traj_actions t2 = common ++ pad2 /\
                             rdone Toy.toyE (i, run (E := Toy.toyE) i common) = true.
Proof. exact Toy.toy_policy_rowwise. Qed.
Print Assumptions C14_toy_policy_rowwise.

(* ------------------------------------------------------------------ examples *)
Example C14_ex_mtsp_b1 : ctx_out Emtsp true false (flat 1 5 0 0) 8 = Some [1; 8] /\ ctx_out Emtsp true false (flat 2 5 0 0) 8 = Some [2; 8].
Proof. split; reflexivity. Qed.
Example C14_ex_pdp_b1 :
  ctx_out Epdp true false (flat 1 4 0 0) 8 = Some [1; 8] /\ q_out Epdp true false (flat 1 4 0 0) 8 true = Some [1; 1; 8] /\
  q_out Epdp true false (flat 1 4 0 0) 8 false = Some [1; 1; 8] /\ q_out Epdp true false (multi 1 3 4 0 0) 8 false = Some [1; 3; 8].
Proof. repeat split. Qed.
Example C14_ex_toy :
  map (fun l => nth 1 l (0, 0)) (fst (bpolicy Toy.toyE Toy.benc (bdec_fs Toy.toyE Toy.decf Toy.cnt) Toy.choose 20 [2; 5; 3]))
  = map (fun l => nth 0 l (0, 0)) (fst (bpolicy Toy.toyE Toy.benc (bdec_fs Toy.toyE Toy.decf Toy.cnt) Toy.choose 20 [5])).
Proof. reflexivity. Qed.
