(* C06 for PDP -- check_solution_validity against the problem definition. Statements only. *)
From Coq Require Import ZArith List Bool.
From RL4CO Require Import Base.Num Base.EnvSig Spec.Tours Env.TourCore Env.PDP Env.PDPProofs.
Import ListNotations.
Open Scope Z_scope.

(* every feasible route (each node once, depot first or last, pickups before their deliveries) is accepted *)
Theorem C06_pdp_checker_complete :
  forall (i : pdp_inst) (acts : list nat),
    pdp_wf i ->
    let n := pgen_n i in
    let route := if pforce i then acts else 0%nat :: acts in
    (forall j, (j < n + 1)%nat -> occ j route = 1%nat) -> (forall a, In a route -> (a < n + 1)%nat) ->
    (exists rest, route = 0%nat :: rest \/ route = rest ++ [0%nat]) ->
    (forall k, (1 <= k <= n / 2)%nat -> (pos k route < pos (k + n / 2) route)%nat) ->
    pdp_checker i acts = true.
Proof. exact pdp_checker_complete_unfolded. Qed.
Print Assumptions C06_pdp_checker_complete.

(* EVERY accepted action list, of whatever length, is a feasible route of the instance (the length test added by the
   fix 5d5f57a -- known_findings.json: fixed "pdp/...: checker-accepts-tour-of-wrong-length" -- makes the former
   hypothesis "length route = n + 1" a consequence of acceptance) *)
Theorem C06_pdp_checker_sound :
  forall (i : pdp_inst) (acts : list nat),
    pdp_wf i ->
    let n := pgen_n i in
    let route := if pforce i then acts else 0%nat :: acts in
    pdp_checker i acts = true ->
    ((forall j, (j < n + 1)%nat -> occ j route = 1%nat) /\ (forall a, In a route -> (a < n + 1)%nat)) /\
    (exists rest, route = 0%nat :: rest \/ route = rest ++ [0%nat]) /\
    (forall k, (1 <= k <= n / 2)%nat -> (pos k route < pos (k + n / 2) route)%nat).
Proof. exact pdp_checker_sound_unfolded. Qed.
Print Assumptions C06_pdp_checker_sound.

Theorem C06_pdp_checker_rejects_wrong_length :
  forall (i : pdp_inst) (acts : list nat),
    pdp_wf i -> length (pdp_full i acts) <> (pgen_n i + 1)%nat -> pdp_checker i acts = false.
Proof. exact pdp_checker_rejects_wrong_length. Qed.
Print Assumptions C06_pdp_checker_rejects_wrong_length.

Theorem C06_pdp_checker_rejects_delivery_before_pickup :
  forall (i : pdp_inst) (acts : list nat) (k : nat),
    pdp_wf i -> (1 <= k <= pgen_n i / 2)%nat ->
    (pos (k + pgen_n i / 2) (pdp_full i acts) <= pos k (pdp_full i acts))%nat -> pdp_checker i acts = false.
Proof. exact pdp_checker_rejects_delivery_before_pickup. Qed.
Print Assumptions C06_pdp_checker_rejects_delivery_before_pickup.

Theorem C06_pdp_checker_rejects_missing :
  forall (i : pdp_inst) (acts : list nat) (j : nat),
    pdp_wf i -> (j <= pgen_n i)%nat -> ~ In j (pdp_full i acts) -> pdp_checker i acts = false.
Proof. exact pdp_checker_rejects_missing. Qed.
Print Assumptions C06_pdp_checker_rejects_missing.

Theorem C06_pdp_checker_rejects_duplicate :
  forall (i : pdp_inst) (acts : list nat) (j : nat),
    pdp_wf i -> (2 <= occ j (pdp_full i acts))%nat -> pdp_checker i acts = false.
Proof. exact pdp_checker_rejects_duplicate. Qed.
Print Assumptions C06_pdp_checker_rejects_duplicate.

(* the witnesses of the repaired defect: n = 4, depot implicit, [1; 2] and n = 2, forced start, [0] are rejected now *)
Example C06_pdp_truncated_now_rejected :
  let i := {| pgen_n := 4; pforce := false; pdist := [[0;1;2;3;4]; [1;0;1;2;3]; [2;1;0;1;2]; [3;2;1;0;1]; [4;3;2;1;0]] |} in
  let j := {| pgen_n := 2; pforce := true; pdist := [[0;1;2]; [1;0;1]; [2;1;0]] |} in
  pdp_checker i [1; 2]%nat = false /\ pdp_checker j [0]%nat = false /\ pdp_checker j [0; 1; 2]%nat = true.
Proof. vm_compute. repeat split. Qed.

Example C06_pdp_nonvacuous :
  let i := {| pgen_n := 4; pforce := false; pdist := [[0;1;2;3;4]; [1;0;1;2;3]; [2;1;0;1;2]; [3;2;1;0;1]; [4;3;2;1;0]] |} in let j := {| pgen_n := 4; pforce := true; pdist := [[0;1;2;3;4]; [1;0;1;2;3]; [2;1;0;1;2]; [3;2;1;0;1]; [4;3;2;1;0]] |} in
  pdp_checker i [2; 1; 4; 3]%nat = true /\ pdp_checker i [4; 1; 2; 3]%nat = false /\ pdp_checker i [2; 1; 4; 4]%nat = false /\
  pdp_checker j [0; 2; 1; 4; 3]%nat = true /\ pdp_checker j [2; 1; 4; 3; 0]%nat = true /\ pdp_checker j [2; 1; 0; 4; 3]%nat = false.
Proof. vm_compute. repeat split. Qed.
