(* C11 composed with C04 / C10 at the REAL environment models (CVRP, TSP): returned log-likelihoods are those of the
   returned actions, and the padding steps of finished CVRP rows contribute nothing.  This file contains only
   statements closed by [exact] and their Print Assumptions (plus Examples); definitions and proofs are in
   Compose/PolicyOnCVRP.v.

   Reading guide (see Properties/C11.v for the vocabulary of the decode-loop model Decoding/DecodeLoop.v).
     numbers            K := QcF (exact rationals), logits L := Z, weights e := pow2 (2^z), log domain
                        (G, g0, gadd, lg) := (Qc, 1, Qcmult, idQc): the "log-likelihood" is the PRODUCT of the per-step
                        probabilities (C11_ll_is_log_of_product connects it with any additive log).
     E := CVRP exact    the CVRP model of Env/CVRP.v, tied to rl4co's CVRPEnv by C01-C06 (node 0 = depot).
     net : Hd -> cvrp_inst -> cvrp_st -> list Z
                        the neural network, uninterpreted: (hidden of the row, state) |-> logits.  ASSUMPTION K3 of C11
                        (not provable here): the real network is such a per-row function.
     cvrp_dec net h i s = (net h i s, cvrp_mask exact i s)
                        the decoder returns the network's logits and THE ENVIRONMENT'S OWN action mask, as the real
                        policy does (td["action_mask"]).
     cvrp_rew i s acts  = cvrp_reward i acts  (env.get_reward; C03 relates it to the objective).
     forward ... m sa ms S sb fuel cfgs starts ors = Some rows     ConstructivePolicy.forward up to post_decoder_hook.
     probs ... h i s    the masked normalised step distribution in state s;  spec_ps ... h i s acts = [probs(s_t)[a_t]]_t.
   The TSP statements are the same with E := TSP (Env/TSP.v), tsp_dec, tsp_rew.

   Round 2: OP, PCTSP (= SPCTSP, field [stoch]) and SDVRP (second half of this file; Compose/PolicyOnEnvs2.v).
     E := OP exact / PCTSP exact / SDVRP exact      the models of Env/OP.v, Env/PCTSP.v, Env/SDVRP.v (node 0 = depot;
                        op_n / pn_of / n_of customers; SDVRP re-uses cvrp_inst and cvrp_reward).
     env_dec E net h i s = (net h i s, mask E i s)  the decoder: network logits and the environment's own mask.
     op_rew / pctsp_rew / sdvrp_rew i s acts        = op_reward / pctsp_reward / cvrp_reward i acts.
     The padding corollaries compose C11_single_feasible_action_has_probability_one with C04_<env>_padding_inert
     (hypotheses: the instance well-formedness of that theorem, an action list inside the masks that has finished). *)
From Coq Require Import ZArith QArith Qcanon List Bool Arith.
From RL4CO Require Import Base.Num Base.OField Base.OFieldQc Base.EnvSig Decoding.ProcessLogits Decoding.PLInst
                          Decoding.DecodeLoop Decoding.DecodeLoopInst Env.CVRP Env.CVRPProofs Env.TSP
                          Env.OP Env.OPProofs Env.PCTSP Env.PCTSPProofs Env.SDVRP Env.SDVRPProofs
                          Compose.PolicyOnCVRP Compose.PolicyOnEnvs2.
Import ListNotations.
Local Open Scope nat_scope.

(* ll_is_sum on CVRP (any mode -- greedy / sampling / evaluate / multisample --, any batch, rows finishing at different
   times, with or without select_best): the final state of a returned row is the CVRP state reached by its returned
   actions, its log-likelihood is the product over steps of the probability, under the masked normalised distribution of
   the state reached by the previous returned actions, of the returned action, and its reward is cvrp_reward of its
   returned actions *)
Theorem C11_ll_is_sum_on_cvrp :
  forall (clip tmp : Z -> Z) (top_p : Qc) (top_k : nat) (Hd : Type)
         (net : Hd -> cvrp_inst -> cvrp_st -> list Z)
         (mask_logits : bool) (flagf : cvrp_inst -> cvrp_st -> option (list bool))
         (m : mode) (sa : bool) (S : nat) (sb : bool) (fuel : nat) (cfgs : list (Hd * cvrp_inst))
         (starts : list nat) (ors : list (list nat)) (outs : list (brow QcF (CVRP exact) Hd)),
    forward QcF Z Z.leb pow2 clip tmp top_p top_k mask_logits (CVRP exact) Hd (cvrp_dec net) cvrp_rew
            m sa false S sb fuel cfgs starts ors = Some outs ->
    forall cr : brow QcF (CVRP exact) Hd, In cr outs ->
      let c := fst cr in
      let acts := r_acts (snd cr) in
      let ps := spec_ps QcF Z Z.leb pow2 clip tmp top_p top_k mask_logits (CVRP exact) Hd (cvrp_dec net)
                        (rc_h c) (rc_i c) (cvrp_reset (rc_i c)) acts in
      r_s (snd cr) = run (E:=CVRP exact) (rc_i c) acts /\
      out_ll_steps QcF (CVRP exact) Hd flagf Qc idQc cr
        = map idQc (flagz QcF (out_flags QcF (CVRP exact) Hd flagf cr) ps) /\
      out_ll QcF (CVRP exact) Hd flagf Qc 1%Qc Qcmult idQc cr
        = gsum Qc 1%Qc Qcmult (map idQc (flagz QcF (out_flags QcF (CVRP exact) Hd flagf cr) ps)) /\
      out_reward QcF (CVRP exact) Hd cvrp_rew cr = cvrp_reward (rc_i c) acts.
Proof. exact ll_is_sum_on_cvrp. Qed.
Print Assumptions C11_ll_is_sum_on_cvrp.

(* C11 probs_single_feasible x C04 cvrp_padding_inert: for a well-formed instance, in the state reached by an action
   list inside the masks that has finished, followed by any number k of depot visits, the policy (masking on, one logit
   per node) gives the depot probability ONE whatever the network, clipping, temperature, top-p and top-k are, and
   greedy takes the depot *)
Theorem C11_cvrp_padding_steps_have_probability_one :
  forall (clip tmp : Z -> Z) (top_p : Qc) (top_k : nat) (Hd : Type)
         (net : Hd -> cvrp_inst -> cvrp_st -> list Z)
         (h : Hd) (i : cvrp_inst) (acts : list nat) (k : nat),
    cvrp_wf i ->
    adm (E:=CVRP exact) i acts = true ->
    done (CVRP exact) i (run (E:=CVRP exact) i acts) = true ->
    length (net h i (run (E:=CVRP exact) i (acts ++ repeat 0 k))) = S (n_of i) ->
    let pr := probs QcF Z Z.leb pow2 clip tmp top_p top_k true (CVRP exact) Hd (cvrp_dec net) h i
                    (run (E:=CVRP exact) i (acts ++ repeat 0 k)) in
    nth 0 pr 0%Qc = 1%Qc /\ greedy QcF pr = 0.
Proof. exact cvrp_padding_steps_have_probability_one. Qed.
Print Assumptions C11_cvrp_padding_steps_have_probability_one.

(* ... hence a finished action list and the same list padded with k depot visits (what the decode loop returns for a
   row that had to wait for its batch-mates) have the same per-step probabilities up to k trailing ones, the same
   log-likelihood, and (zero depot-depot distance) the same reward *)
Theorem C11_cvrp_padded_ll_equal :
  forall (clip tmp : Z -> Z) (top_p : Qc) (top_k : nat) (Hd : Type)
         (net : Hd -> cvrp_inst -> cvrp_st -> list Z)
         (h : Hd) (i : cvrp_inst) (acts : list nat) (k : nat),
    cvrp_wf i ->
    (forall s : cvrp_st, length (net h i s) = S (n_of i)) ->
    adm (E:=CVRP exact) i acts = true ->
    done (CVRP exact) i (run (E:=CVRP exact) i acts) = true ->
    let ps := spec_ps QcF Z Z.leb pow2 clip tmp top_p top_k true (CVRP exact) Hd (cvrp_dec net) h i (cvrp_reset i) in
    ps (acts ++ repeat 0 k) = ps acts ++ repeat 1%Qc k /\
    gsum Qc 1%Qc Qcmult (map idQc (ps (acts ++ repeat 0 k))) = gsum Qc 1%Qc Qcmult (map idQc (ps acts)) /\
    (dfun i 0 0 = 0%Z -> cvrp_reward i (acts ++ repeat 0 k) = cvrp_reward i acts).
Proof. exact cvrp_padded_ll_equal. Qed.
Print Assumptions C11_cvrp_padded_ll_equal.

(* ll_is_sum on TSP: a pure instantiation.  (No padding statement: the rows of a TSP batch of common width finish at the
   same step, and a finished TSP row has an empty mask.) *)
Theorem C11_ll_is_sum_on_tsp :
  forall (clip tmp : Z -> Z) (top_p : Qc) (top_k : nat) (mask_logits : bool) (Hd : Type)
         (net : Hd -> tsp_inst -> tsp_st -> list Z) (flagf : tsp_inst -> tsp_st -> option (list bool))
         (m : mode) (sa : bool) (S : nat) (sb : bool) (fuel : nat) (cfgs : list (Hd * tsp_inst))
         (starts : list nat) (ors : list (list nat)) (outs : list (brow QcF TSP Hd)),
    forward QcF Z Z.leb pow2 clip tmp top_p top_k mask_logits TSP Hd (tsp_dec net) tsp_rew
            m sa false S sb fuel cfgs starts ors = Some outs ->
    forall cr : brow QcF TSP Hd, In cr outs ->
      let c := fst cr in
      let acts := r_acts (snd cr) in
      let ps := spec_ps QcF Z Z.leb pow2 clip tmp top_p top_k mask_logits TSP Hd (tsp_dec net)
                        (rc_h c) (rc_i c) (tsp_reset (rc_i c)) acts in
      r_s (snd cr) = run (E:=TSP) (rc_i c) acts /\
      out_ll_steps QcF TSP Hd flagf Qc idQc cr = map idQc (flagz QcF (out_flags QcF TSP Hd flagf cr) ps) /\
      out_ll QcF TSP Hd flagf Qc 1%Qc Qcmult idQc cr
        = gsum Qc 1%Qc Qcmult (map idQc (flagz QcF (out_flags QcF TSP Hd flagf cr) ps)) /\
      out_reward QcF TSP Hd tsp_rew cr = tsp_reward (rc_i c) acts.
Proof. exact ll_is_sum_on_tsp. Qed.
Print Assumptions C11_ll_is_sum_on_tsp.

(* ------------------------------------------------------------------ non-vacuity at the real environment models
   (all by computation; instances Ex.i1 (demands 3,3,3: one route) and Ex.i2 (demands 6,6,6: three routes), capacity 10,
   state-dependent integer-logit network Ex.net; see Compose/PolicyOnCVRP.v, Module Ex).
   Per returned row: actions, per-step probabilities, log-likelihood (their product),
   (inside the masks, finished, feasible by the executable specification cvrp_feasibleb), reward. *)
(* greedy: row 0 finishes after 4 steps and is padded with one depot visit of probability 1 *)
Example C11_ex_cvrp_greedy :
  Ex.cviews (Ex.cfwd Greedy false false 0 false 20 [(1%Z, Ex.i1); (2%Z, Ex.i2)] [] [[]; []])
  = Some [([2; 1; 3; 0; 0], [8 # 13; 16 # 21; 4 # 5; 1; 1]%Q, (512 # 1365)%Q, (true, true, true), (-12)%Z);
          ([1; 0; 3; 0; 2], [8 # 11; 1; 2 # 3; 1; 1]%Q, (16 # 33)%Q, (true, true, true), (-18)%Z)].
Proof. exact Ex.cvrp_greedy. Qed.
(* sampling (the oracle lists are the draws of torch.multinomial, padding steps included), its evaluation reproduces
   it, and nothing raises *)
Example C11_ex_cvrp_sampling :
  Ex.cviews (Ex.cfwd Sampling false false 0 false 20 [(1%Z, Ex.i1); (2%Z, Ex.i2)] [] [[1; 3; 2; 0; 0]; [3; 0; 1; 0; 2]])
  = Ex.cviews (Ex.cfwd Evaluate true false 0 false 20 [(1%Z, Ex.i1); (2%Z, Ex.i2)] [] [[1; 3; 2; 0; 0]; [3; 0; 1; 0; 2]])
  /\ option_map (map (fun v => (fst (fst (fst (fst v))), snd (fst (fst (fst v))), snd (fst v))))
       (Ex.cviews (Ex.cfwd Sampling false false 0 false 20 [(1%Z, Ex.i1); (2%Z, Ex.i2)] [] [[1; 3; 2; 0; 0]; [3; 0; 1; 0; 2]]))
     = Some [([1; 3; 2; 0; 0], [4 # 13; 8 # 11; 16 # 17; 1; 1]%Q, (true, true, true));
             ([3; 0; 1; 0; 2], [2 # 11; 1; 8 # 9; 1; 1]%Q, (true, true, true))]
  /\ forward_ok QcF Z Z.leb pow2 (fun z => z) (fun z => z) f0 0 true (CVRP exact) Z (cvrp_dec Ex.net) Sampling false false 0 20
                [(1%Z, Ex.i1); (2%Z, Ex.i2)] [] [[1; 3; 2; 0; 0]; [3; 0; 1; 0; 2]] = true.
Proof. exact Ex.cvrp_sampling. Qed.
(* hypotheses of C11_cvrp_padding_steps_have_probability_one / C11_cvrp_padded_ll_equal at the padded row *)
Example C11_ex_cvrp_padding_hypotheses :
  cvrp_wfb Ex.i1 = true /\ adm (E:=CVRP exact) Ex.i1 [2; 1; 3; 0] = true /\
  done (CVRP exact) Ex.i1 (run (E:=CVRP exact) Ex.i1 [2; 1; 3; 0]) = true /\
  mask (CVRP exact) Ex.i1 (run (E:=CVRP exact) Ex.i1 [2; 1; 3; 0]) = [true; false; false; false] /\
  length (Ex.net 1 Ex.i1 (run (E:=CVRP exact) Ex.i1 [2; 1; 3; 0])) = S (n_of Ex.i1).
Proof. exact Ex.cvrp_padding_hypotheses. Qed.
(* TSP: a greedy pass on two instances of three nodes (actions, per-step probabilities, finished, reward) *)
Example C11_ex_tsp_greedy :
  option_map (map ExTSP.tview) (ExTSP.tfwd Greedy false false 0 false 20 [(1%Z, ExTSP.t1); (2%Z, ExTSP.t2)] [] [[]; []])
  = Some [([1; 2; 0], [4 # 7; 2 # 3; 1]%Q, true, (-7)%Z); ([0; 2; 1], [4 # 7; 2 # 3; 1]%Q, true, (-10)%Z)].
Proof. exact ExTSP.tsp_greedy. Qed.

(* ==================================================================================================================
   Round 2: OP, PCTSP, SDVRP (see the second half of the reading guide) *)

(* ------------------------------------------------------------------ OP *)
Theorem C11_ll_is_sum_on_op :
  forall (clip tmp : Z -> Z) (top_p : Qc) (top_k : nat) (Hd : Type)
         (net : Hd -> op_inst -> op_st -> list Z)
         (mask_logits : bool) (flagf : op_inst -> op_st -> option (list bool))
         (m : mode) (sa : bool) (S : nat) (sb : bool) (fuel : nat) (cfgs : list (Hd * op_inst))
         (starts : list nat) (ors : list (list nat)) (outs : list (brow QcF (OP exact) Hd)),
    forward QcF Z Z.leb pow2 clip tmp top_p top_k mask_logits (OP exact) Hd (env_dec (OP exact) net) op_rew
            m sa false S sb fuel cfgs starts ors = Some outs ->
    forall cr : brow QcF (OP exact) Hd, In cr outs ->
      let c := fst cr in
      let acts := r_acts (snd cr) in
      let ps := spec_ps QcF Z Z.leb pow2 clip tmp top_p top_k mask_logits (OP exact) Hd (env_dec (OP exact) net)
                        (rc_h c) (rc_i c) (op_reset (rc_i c)) acts in
      r_s (snd cr) = run (E:=OP exact) (rc_i c) acts /\
      out_ll_steps QcF (OP exact) Hd flagf Qc idQc cr
        = map idQc (flagz QcF (out_flags QcF (OP exact) Hd flagf cr) ps) /\
      out_ll QcF (OP exact) Hd flagf Qc 1%Qc Qcmult idQc cr
        = gsum Qc 1%Qc Qcmult (map idQc (flagz QcF (out_flags QcF (OP exact) Hd flagf cr) ps)) /\
      out_reward QcF (OP exact) Hd op_rew cr = op_reward (rc_i c) acts.
Proof. exact ll_is_sum_on_op. Qed.
Print Assumptions C11_ll_is_sum_on_op.

(* C11 probs_single_feasible x C04_op_padding_inert: after an action list inside the masks has finished, and after
   any number k of further depot visits, the depot has probability ONE and greedy takes it *)
Theorem C11_op_padding_steps_have_probability_one :
  forall (clip tmp : Z -> Z) (top_p : Qc) (top_k : nat) (Hd : Type)
         (net : Hd -> op_inst -> op_st -> list Z)
         (h : Hd) (i : op_inst) (acts : list nat) (k : nat),
    op_wf i ->
    adm (E:=OP exact) i acts = true ->
    done (OP exact) i (run (E:=OP exact) i acts) = true ->
    length (net h i (run (E:=OP exact) i (acts ++ repeat 0 k))) = S (op_n i) ->
    let pr := probs QcF Z Z.leb pow2 clip tmp top_p top_k true (OP exact) Hd (env_dec (OP exact) net) h i
                    (run (E:=OP exact) i (acts ++ repeat 0 k)) in
    nth 0 pr 0%Qc = 1%Qc /\ greedy QcF pr = 0.
Proof. exact op_padding_steps_have_probability_one. Qed.
Print Assumptions C11_op_padding_steps_have_probability_one.

(* ... hence the padded action list has the same per-step probabilities up to k trailing ones, the same
   log-likelihood and the same reward as the unpadded one *)
Theorem C11_op_padded_ll_equal :
  forall (clip tmp : Z -> Z) (top_p : Qc) (top_k : nat) (Hd : Type)
         (net : Hd -> op_inst -> op_st -> list Z)
         (h : Hd) (i : op_inst) (acts : list nat) (k : nat),
    op_wf i ->
    (forall s : op_st, length (net h i s) = S (op_n i)) ->
    adm (E:=OP exact) i acts = true ->
    done (OP exact) i (run (E:=OP exact) i acts) = true ->
    let ps := spec_ps QcF Z Z.leb pow2 clip tmp top_p top_k true (OP exact) Hd (env_dec (OP exact) net) h i (op_reset i) in
    ps (acts ++ repeat 0 k) = ps acts ++ repeat 1%Qc k /\
    gsum Qc 1%Qc Qcmult (map idQc (ps (acts ++ repeat 0 k))) = gsum Qc 1%Qc Qcmult (map idQc (ps acts)) /\
    op_reward i (acts ++ repeat 0 k) = op_reward i acts.
Proof. exact op_padded_ll_equal. Qed.
Print Assumptions C11_op_padded_ll_equal.

(* ------------------------------------------------------------------ PCTSP *)
Theorem C11_ll_is_sum_on_pctsp :
  forall (clip tmp : Z -> Z) (top_p : Qc) (top_k : nat) (Hd : Type)
         (net : Hd -> pctsp_inst -> pctsp_st -> list Z)
         (mask_logits : bool) (flagf : pctsp_inst -> pctsp_st -> option (list bool))
         (m : mode) (sa : bool) (S : nat) (sb : bool) (fuel : nat) (cfgs : list (Hd * pctsp_inst))
         (starts : list nat) (ors : list (list nat)) (outs : list (brow QcF (PCTSP exact) Hd)),
    forward QcF Z Z.leb pow2 clip tmp top_p top_k mask_logits (PCTSP exact) Hd (env_dec (PCTSP exact) net) pctsp_rew
            m sa false S sb fuel cfgs starts ors = Some outs ->
    forall cr : brow QcF (PCTSP exact) Hd, In cr outs ->
      let c := fst cr in
      let acts := r_acts (snd cr) in
      let ps := spec_ps QcF Z Z.leb pow2 clip tmp top_p top_k mask_logits (PCTSP exact) Hd (env_dec (PCTSP exact) net)
                        (rc_h c) (rc_i c) (pctsp_reset (rc_i c)) acts in
      r_s (snd cr) = run (E:=PCTSP exact) (rc_i c) acts /\
      out_ll_steps QcF (PCTSP exact) Hd flagf Qc idQc cr
        = map idQc (flagz QcF (out_flags QcF (PCTSP exact) Hd flagf cr) ps) /\
      out_ll QcF (PCTSP exact) Hd flagf Qc 1%Qc Qcmult idQc cr
        = gsum Qc 1%Qc Qcmult (map idQc (flagz QcF (out_flags QcF (PCTSP exact) Hd flagf cr) ps)) /\
      out_reward QcF (PCTSP exact) Hd pctsp_rew cr = pctsp_reward (rc_i c) acts.
Proof. exact ll_is_sum_on_pctsp. Qed.
Print Assumptions C11_ll_is_sum_on_pctsp.

(* C11 probs_single_feasible x C04_pctsp_padding_inert: after an action list inside the masks has finished, and after
   any number k of further depot visits, the depot has probability ONE and greedy takes it *)
Theorem C11_pctsp_padding_steps_have_probability_one :
  forall (clip tmp : Z -> Z) (top_p : Qc) (top_k : nat) (Hd : Type)
         (net : Hd -> pctsp_inst -> pctsp_st -> list Z)
         (h : Hd) (i : pctsp_inst) (acts : list nat) (k : nat),
    pctsp_wf i ->
    adm (E:=PCTSP exact) i acts = true ->
    done (PCTSP exact) i (run (E:=PCTSP exact) i acts) = true ->
    length (net h i (run (E:=PCTSP exact) i (acts ++ repeat 0 k))) = S (pn_of i) ->
    let pr := probs QcF Z Z.leb pow2 clip tmp top_p top_k true (PCTSP exact) Hd (env_dec (PCTSP exact) net) h i
                    (run (E:=PCTSP exact) i (acts ++ repeat 0 k)) in
    nth 0 pr 0%Qc = 1%Qc /\ greedy QcF pr = 0.
Proof. exact pctsp_padding_steps_have_probability_one. Qed.
Print Assumptions C11_pctsp_padding_steps_have_probability_one.

(* ... hence the padded action list has the same per-step probabilities up to k trailing ones, the same
   log-likelihood and the same reward as the unpadded one *)
Theorem C11_pctsp_padded_ll_equal :
  forall (clip tmp : Z -> Z) (top_p : Qc) (top_k : nat) (Hd : Type)
         (net : Hd -> pctsp_inst -> pctsp_st -> list Z)
         (h : Hd) (i : pctsp_inst) (acts : list nat) (k : nat),
    pctsp_wf i ->
    (forall s : pctsp_st, length (net h i s) = S (pn_of i)) ->
    adm (E:=PCTSP exact) i acts = true ->
    done (PCTSP exact) i (run (E:=PCTSP exact) i acts) = true ->
    let ps := spec_ps QcF Z Z.leb pow2 clip tmp top_p top_k true (PCTSP exact) Hd (env_dec (PCTSP exact) net) h i (pctsp_reset i) in
    ps (acts ++ repeat 0 k) = ps acts ++ repeat 1%Qc k /\
    gsum Qc 1%Qc Qcmult (map idQc (ps (acts ++ repeat 0 k))) = gsum Qc 1%Qc Qcmult (map idQc (ps acts)) /\
    (pdfun i 0 0 = 0%Z -> pctsp_reward i (acts ++ repeat 0 k) = pctsp_reward i acts).
Proof. exact pctsp_padded_ll_equal. Qed.
Print Assumptions C11_pctsp_padded_ll_equal.

(* ------------------------------------------------------------------ SDVRP *)
Theorem C11_ll_is_sum_on_sdvrp :
  forall (clip tmp : Z -> Z) (top_p : Qc) (top_k : nat) (Hd : Type)
         (net : Hd -> cvrp_inst -> sd_st -> list Z)
         (mask_logits : bool) (flagf : cvrp_inst -> sd_st -> option (list bool))
         (m : mode) (sa : bool) (S : nat) (sb : bool) (fuel : nat) (cfgs : list (Hd * cvrp_inst))
         (starts : list nat) (ors : list (list nat)) (outs : list (brow QcF (SDVRP exact) Hd)),
    forward QcF Z Z.leb pow2 clip tmp top_p top_k mask_logits (SDVRP exact) Hd (env_dec (SDVRP exact) net) sdvrp_rew
            m sa false S sb fuel cfgs starts ors = Some outs ->
    forall cr : brow QcF (SDVRP exact) Hd, In cr outs ->
      let c := fst cr in
      let acts := r_acts (snd cr) in
      let ps := spec_ps QcF Z Z.leb pow2 clip tmp top_p top_k mask_logits (SDVRP exact) Hd (env_dec (SDVRP exact) net)
                        (rc_h c) (rc_i c) (sd_reset (rc_i c)) acts in
      r_s (snd cr) = run (E:=SDVRP exact) (rc_i c) acts /\
      out_ll_steps QcF (SDVRP exact) Hd flagf Qc idQc cr
        = map idQc (flagz QcF (out_flags QcF (SDVRP exact) Hd flagf cr) ps) /\
      out_ll QcF (SDVRP exact) Hd flagf Qc 1%Qc Qcmult idQc cr
        = gsum Qc 1%Qc Qcmult (map idQc (flagz QcF (out_flags QcF (SDVRP exact) Hd flagf cr) ps)) /\
      out_reward QcF (SDVRP exact) Hd sdvrp_rew cr = cvrp_reward (rc_i c) acts.
Proof. exact ll_is_sum_on_sdvrp. Qed.
Print Assumptions C11_ll_is_sum_on_sdvrp.

(* C11 probs_single_feasible x C04_sdvrp_padding_inert: after an action list inside the masks has finished, and after
   any number k of further depot visits, the depot has probability ONE and greedy takes it *)
Theorem C11_sdvrp_padding_steps_have_probability_one :
  forall (clip tmp : Z -> Z) (top_p : Qc) (top_k : nat) (Hd : Type)
         (net : Hd -> cvrp_inst -> sd_st -> list Z)
         (h : Hd) (i : cvrp_inst) (acts : list nat) (k : nat),
    cvrp_wf i ->
    adm (E:=SDVRP exact) i acts = true ->
    done (SDVRP exact) i (run (E:=SDVRP exact) i acts) = true ->
    length (net h i (run (E:=SDVRP exact) i (acts ++ repeat 0 k))) = S (n_of i) ->
    let pr := probs QcF Z Z.leb pow2 clip tmp top_p top_k true (SDVRP exact) Hd (env_dec (SDVRP exact) net) h i
                    (run (E:=SDVRP exact) i (acts ++ repeat 0 k)) in
    nth 0 pr 0%Qc = 1%Qc /\ greedy QcF pr = 0.
Proof. exact sdvrp_padding_steps_have_probability_one. Qed.
Print Assumptions C11_sdvrp_padding_steps_have_probability_one.

(* ... hence the padded action list has the same per-step probabilities up to k trailing ones, the same
   log-likelihood and the same reward as the unpadded one *)
Theorem C11_sdvrp_padded_ll_equal :
  forall (clip tmp : Z -> Z) (top_p : Qc) (top_k : nat) (Hd : Type)
         (net : Hd -> cvrp_inst -> sd_st -> list Z)
         (h : Hd) (i : cvrp_inst) (acts : list nat) (k : nat),
    cvrp_wf i ->
    (forall s : sd_st, length (net h i s) = S (n_of i)) ->
    adm (E:=SDVRP exact) i acts = true ->
    done (SDVRP exact) i (run (E:=SDVRP exact) i acts) = true ->
    let ps := spec_ps QcF Z Z.leb pow2 clip tmp top_p top_k true (SDVRP exact) Hd (env_dec (SDVRP exact) net) h i (sd_reset i) in
    ps (acts ++ repeat 0 k) = ps acts ++ repeat 1%Qc k /\
    gsum Qc 1%Qc Qcmult (map idQc (ps (acts ++ repeat 0 k))) = gsum Qc 1%Qc Qcmult (map idQc (ps acts)) /\
    (dfun i 0 0 = 0%Z -> cvrp_reward i (acts ++ repeat 0 k) = cvrp_reward i acts).
Proof. exact sdvrp_padded_ll_equal. Qed.
Print Assumptions C11_sdvrp_padded_ll_equal.

(* ------------------------------------------------------------------ non-vacuity (by computation): a greedy pass of the
   decode loop on a batch of two well-formed instances finishing at different times; per returned row: actions,
   per-step probabilities (padding steps = 1), (inside the masks, finished), reward.  Instances and networks:
   Compose/PolicyOnEnvs2.v, Modules ExOP / ExPC / ExSD. *)
Example C11_ex_op_greedy :
  option_map (map ExOP.view) (ExOP.fwd Greedy false false 0 false 20 [(10%Z, ExOP.i1); (41%Z, ExOP.i2)] [] [[]; []])
  = Some [([1; 0; 0; 0], [16 # 19; 1; 1; 1]%Q, (true, true), 10%Z);
          ([2; 3; 1; 0], [16 # 27; 8 # 11; 4 # 5; 1]%Q, (true, true), 60%Z)].
Proof. exact ExOP.greedy_pass. Qed.
Example C11_ex_pctsp_greedy :
  option_map (map ExPC.view) (ExPC.fwd Greedy false false 0 false 20 [(65%Z, ExPC.i1); (65%Z, ExPC.i2)] [] [[]; []])
  = Some [([2; 3; 0; 0], [8 # 13; 4 # 5; 16 # 17; 1]%Q, (true, true), (-15)%Z);
          ([2; 3; 1; 0], [8 # 13; 4 # 5; 1; 1]%Q, (true, true), (-14)%Z)].
Proof. exact ExPC.greedy_pass. Qed.
Example C11_ex_sdvrp_greedy :
  option_map (map ExSD.view) (ExSD.fwd Greedy false false 0 false 20 [(11%Z, ExSD.i1); (11%Z, ExSD.i2)] [] [[]; []])
  = Some [([2; 1; 0; 0], [2 # 3; 4 # 5; 1; 1]%Q, (true, true), (-12)%Z);
          ([2; 1; 0; 1], [2 # 3; 8 # 9; 1; 1]%Q, (true, true), (-18)%Z)].
Proof. exact ExSD.greedy_pass. Qed.
(* hypotheses of the padding corollaries at the padded rows *)
Example C11_ex_padding_hypotheses_2 :
  (op_wfb ExOP.i1 = true /\ adm (E:=OP exact) ExOP.i1 [1; 0] = true /\
   done (OP exact) ExOP.i1 (run (E:=OP exact) ExOP.i1 [1; 0]) = true) /\
  (pctsp_wfb ExPC.i1 = true /\ adm (E:=PCTSP exact) ExPC.i1 [2; 3; 0] = true /\
   done (PCTSP exact) ExPC.i1 (run (E:=PCTSP exact) ExPC.i1 [2; 3; 0]) = true) /\
  (cvrp_wfb ExSD.i1 = true /\ adm (E:=SDVRP exact) ExSD.i1 [2; 1] = true /\
   done (SDVRP exact) ExSD.i1 (run (E:=SDVRP exact) ExSD.i1 [2; 1]) = true).
Proof. vm_compute. repeat split; reflexivity. Qed.
