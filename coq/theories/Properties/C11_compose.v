(* C11 composed with C04 / C10 at the REAL environment models (CVRP, TSP): returned log-likelihoods are those of the
   returned actions, and the padding steps of finished CVRP rows contribute nothing.  This file contains only
   statements closed by [exact] and their Print Assumptions (plus Examples); definitions and proofs are in
   Compose/PolicyOnCVRP.v.

   Reading guide (see Properties/C11.v for the vocabulary of the decode-loop model Decoding/DecodeLoop.v).
     numbers            K := QcF (exact rationals), logits L := Z, weights e := pow2 (2^z), log domain
                        (G, g0, gadd, lg) := (Qc, 1, Qcmult, idQc): the "log-likelihood" is the PRODUCT of the per-step
                        probabilities (C11_ll_is_log_of_product connects it with any additive log).
     E := CVRP exact    the CVRP model of Env/CVRP.v, tied to rl4co's CVRPEnv by C01-C06 (node 0 = depot).
     net : Hd -> cvrp_inst -> cvrp_st -> list Z
                        the neural network, uninterpreted: (hidden of the row, state) |-> logits.  ASSUMPTION K3 of C11
                        (not provable here): the real network is such a per-row function.
     cvrp_dec net h i s = (net h i s, cvrp_mask exact i s)
                        the decoder returns the network's logits and THE ENVIRONMENT'S OWN action mask, as the real
                        policy does (td["action_mask"]).
     cvrp_rew i s acts  = cvrp_reward i acts  (env.get_reward; C03 relates it to the objective).
     forward ... m sa ms S sb fuel cfgs starts ors = Some rows     ConstructivePolicy.forward up to post_decoder_hook.
     probs ... h i s    the masked normalised step distribution in state s;  spec_ps ... h i s acts = [probs(s_t)[a_t]]_t.
   The TSP statements are the same with E := TSP (Env/TSP.v), tsp_dec, tsp_rew. *)
From Coq Require Import ZArith QArith Qcanon List Bool Arith.
From RL4CO Require Import Base.Num Base.OField Base.OFieldQc Base.EnvSig Decoding.ProcessLogits Decoding.PLInst
                          Decoding.DecodeLoop Decoding.DecodeLoopInst Env.CVRP Env.CVRPProofs Env.TSP
                          Compose.PolicyOnCVRP.
Import ListNotations.
Local Open Scope nat_scope.

(* ll_is_sum on CVRP (any mode -- greedy / sampling / evaluate / multisample --, any batch, rows finishing at different
   times, with or without select_best): the final state of a returned row is the CVRP state reached by its returned
   actions, its log-likelihood is the product over steps of the probability, under the masked normalised distribution of
   the state reached by the previous returned actions, of the returned action, and its reward is cvrp_reward of its
   returned actions *)
Theorem C11_ll_is_sum_on_cvrp :
  forall (clip tmp : Z -> Z) (top_p : Qc) (top_k : nat) (Hd : Type)
         (net : Hd -> cvrp_inst -> cvrp_st -> list Z)
         (mask_logits : bool) (flagf : cvrp_inst -> cvrp_st -> option (list bool))
         (m : mode) (sa : bool) (S : nat) (sb : bool) (fuel : nat) (cfgs : list (Hd * cvrp_inst))
         (starts : list nat) (ors : list (list nat)) (outs : list (brow QcF (CVRP exact) Hd)),
    forward QcF Z Z.leb pow2 clip tmp top_p top_k mask_logits (CVRP exact) Hd (cvrp_dec net) cvrp_rew
            m sa false S sb fuel cfgs starts ors = Some outs ->
    forall cr : brow QcF (CVRP exact) Hd, In cr outs ->
      let c := fst cr in
      let acts := r_acts (snd cr) in
      let ps := spec_ps QcF Z Z.leb pow2 clip tmp top_p top_k mask_logits (CVRP exact) Hd (cvrp_dec net)
                        (rc_h c) (rc_i c) (cvrp_reset (rc_i c)) acts in
      r_s (snd cr) = run (E:=CVRP exact) (rc_i c) acts /\
      out_ll_steps QcF (CVRP exact) Hd flagf Qc idQc cr
        = map idQc (flagz QcF (out_flags QcF (CVRP exact) Hd flagf cr) ps) /\
      out_ll QcF (CVRP exact) Hd flagf Qc 1%Qc Qcmult idQc cr
        = gsum Qc 1%Qc Qcmult (map idQc (flagz QcF (out_flags QcF (CVRP exact) Hd flagf cr) ps)) /\
      out_reward QcF (CVRP exact) Hd cvrp_rew cr = cvrp_reward (rc_i c) acts.
Proof. exact ll_is_sum_on_cvrp. Qed.
Print Assumptions C11_ll_is_sum_on_cvrp.

(* C11 probs_single_feasible x C04 cvrp_padding_inert: for a well-formed instance, in the state reached by an action
   list inside the masks that has finished, followed by any number k of depot visits, the policy (masking on, one logit
   per node) gives the depot probability ONE whatever the network, clipping, temperature, top-p and top-k are, and
   greedy takes the depot *)
Theorem C11_cvrp_padding_steps_have_probability_one :
  forall (clip tmp : Z -> Z) (top_p : Qc) (top_k : nat) (Hd : Type)
         (net : Hd -> cvrp_inst -> cvrp_st -> list Z)
         (h : Hd) (i : cvrp_inst) (acts : list nat) (k : nat),
    cvrp_wf i ->
    adm (E:=CVRP exact) i acts = true ->
    done (CVRP exact) i (run (E:=CVRP exact) i acts) = true ->
    length (net h i (run (E:=CVRP exact) i (acts ++ repeat 0 k))) = S (n_of i) ->
    let pr := probs QcF Z Z.leb pow2 clip tmp top_p top_k true (CVRP exact) Hd (cvrp_dec net) h i
                    (run (E:=CVRP exact) i (acts ++ repeat 0 k)) in
    nth 0 pr 0%Qc = 1%Qc /\ greedy QcF pr = 0.
Proof. exact cvrp_padding_steps_have_probability_one. Qed.
Print Assumptions C11_cvrp_padding_steps_have_probability_one.

(* ... hence a finished action list and the same list padded with k depot visits (what the decode loop returns for a
   row that had to wait for its batch-mates) have the same per-step probabilities up to k trailing ones, the same
   log-likelihood, and (zero depot-depot distance) the same reward *)
Theorem C11_cvrp_padded_ll_equal :
  forall (clip tmp : Z -> Z) (top_p : Qc) (top_k : nat) (Hd : Type)
         (net : Hd -> cvrp_inst -> cvrp_st -> list Z)
         (h : Hd) (i : cvrp_inst) (acts : list nat) (k : nat),
    cvrp_wf i ->
    (forall s : cvrp_st, length (net h i s) = S (n_of i)) ->
    adm (E:=CVRP exact) i acts = true ->
    done (CVRP exact) i (run (E:=CVRP exact) i acts) = true ->
    let ps := spec_ps QcF Z Z.leb pow2 clip tmp top_p top_k true (CVRP exact) Hd (cvrp_dec net) h i (cvrp_reset i) in
    ps (acts ++ repeat 0 k) = ps acts ++ repeat 1%Qc k /\
    gsum Qc 1%Qc Qcmult (map idQc (ps (acts ++ repeat 0 k))) = gsum Qc 1%Qc Qcmult (map idQc (ps acts)) /\
    (dfun i 0 0 = 0%Z -> cvrp_reward i (acts ++ repeat 0 k) = cvrp_reward i acts).
Proof. exact cvrp_padded_ll_equal. Qed.
Print Assumptions C11_cvrp_padded_ll_equal.

(* ll_is_sum on TSP: a pure instantiation.  (No padding statement: the rows of a TSP batch of common width finish at the
   same step, and a finished TSP row has an empty mask.) *)
Theorem C11_ll_is_sum_on_tsp :
  forall (clip tmp : Z -> Z) (top_p : Qc) (top_k : nat) (mask_logits : bool) (Hd : Type)
         (net : Hd -> tsp_inst -> tsp_st -> list Z) (flagf : tsp_inst -> tsp_st -> option (list bool))
         (m : mode) (sa : bool) (S : nat) (sb : bool) (fuel : nat) (cfgs : list (Hd * tsp_inst))
         (starts : list nat) (ors : list (list nat)) (outs : list (brow QcF TSP Hd)),
    forward QcF Z Z.leb pow2 clip tmp top_p top_k mask_logits TSP Hd (tsp_dec net) tsp_rew
            m sa false S sb fuel cfgs starts ors = Some outs ->
    forall cr : brow QcF TSP Hd, In cr outs ->
      let c := fst cr in
      let acts := r_acts (snd cr) in
      let ps := spec_ps QcF Z Z.leb pow2 clip tmp top_p top_k mask_logits TSP Hd (tsp_dec net)
                        (rc_h c) (rc_i c) (tsp_reset (rc_i c)) acts in
      r_s (snd cr) = run (E:=TSP) (rc_i c) acts /\
      out_ll_steps QcF TSP Hd flagf Qc idQc cr = map idQc (flagz QcF (out_flags QcF TSP Hd flagf cr) ps) /\
      out_ll QcF TSP Hd flagf Qc 1%Qc Qcmult idQc cr
        = gsum Qc 1%Qc Qcmult (map idQc (flagz QcF (out_flags QcF TSP Hd flagf cr) ps)) /\
      out_reward QcF TSP Hd tsp_rew cr = tsp_reward (rc_i c) acts.
Proof. exact ll_is_sum_on_tsp. Qed.
Print Assumptions C11_ll_is_sum_on_tsp.

(* ------------------------------------------------------------------ non-vacuity at the real environment models
   (all by computation; instances Ex.i1 (demands 3,3,3: one route) and Ex.i2 (demands 6,6,6: three routes), capacity 10,
   state-dependent integer-logit network Ex.net; see Compose/PolicyOnCVRP.v, Module Ex).
   Per returned row: actions, per-step probabilities, log-likelihood (their product),
   (inside the masks, finished, feasible by the executable specification cvrp_feasibleb), reward. *)
(* greedy: row 0 finishes after 4 steps and is padded with one depot visit of probability 1 *)
Example C11_ex_cvrp_greedy :
  Ex.cviews (Ex.cfwd Greedy false false 0 false 20 [(1%Z, Ex.i1); (2%Z, Ex.i2)] [] [[]; []])
  = Some [([2; 1; 3; 0; 0], [8 # 13; 16 # 21; 4 # 5; 1; 1]%Q, (512 # 1365)%Q, (true, true, true), (-12)%Z);
          ([1; 0; 3; 0; 2], [8 # 11; 1; 2 # 3; 1; 1]%Q, (16 # 33)%Q, (true, true, true), (-18)%Z)].
Proof. exact Ex.cvrp_greedy. Qed.
(* sampling (the oracle lists are the draws of torch.multinomial, padding steps included), its evaluation reproduces
   it, and nothing raises *)
Example C11_ex_cvrp_sampling :
  Ex.cviews (Ex.cfwd Sampling false false 0 false 20 [(1%Z, Ex.i1); (2%Z, Ex.i2)] [] [[1; 3; 2; 0; 0]; [3; 0; 1; 0; 2]])
  = Ex.cviews (Ex.cfwd Evaluate true false 0 false 20 [(1%Z, Ex.i1); (2%Z, Ex.i2)] [] [[1; 3; 2; 0; 0]; [3; 0; 1; 0; 2]])
  /\ option_map (map (fun v => (fst (fst (fst (fst v))), snd (fst (fst (fst v))), snd (fst v))))
       (Ex.cviews (Ex.cfwd Sampling false false 0 false 20 [(1%Z, Ex.i1); (2%Z, Ex.i2)] [] [[1; 3; 2; 0; 0]; [3; 0; 1; 0; 2]]))
     = Some [([1; 3; 2; 0; 0], [4 # 13; 8 # 11; 16 # 17; 1; 1]%Q, (true, true, true));
             ([3; 0; 1; 0; 2], [2 # 11; 1; 8 # 9; 1; 1]%Q, (true, true, true))]
  /\ forward_ok QcF Z Z.leb pow2 (fun z => z) (fun z => z) f0 0 true (CVRP exact) Z (cvrp_dec Ex.net) Sampling false false 0 20
                [(1%Z, Ex.i1); (2%Z, Ex.i2)] [] [[1; 3; 2; 0; 0]; [3; 0; 1; 0; 2]] = true.
Proof. exact Ex.cvrp_sampling. Qed.
(* hypotheses of C11_cvrp_padding_steps_have_probability_one / C11_cvrp_padded_ll_equal at the padded row *)
Example C11_ex_cvrp_padding_hypotheses :
  cvrp_wfb Ex.i1 = true /\ adm (E:=CVRP exact) Ex.i1 [2; 1; 3; 0] = true /\
  done (CVRP exact) Ex.i1 (run (E:=CVRP exact) Ex.i1 [2; 1; 3; 0]) = true /\
  mask (CVRP exact) Ex.i1 (run (E:=CVRP exact) Ex.i1 [2; 1; 3; 0]) = [true; false; false; false] /\
  length (Ex.net 1 Ex.i1 (run (E:=CVRP exact) Ex.i1 [2; 1; 3; 0])) = S (n_of Ex.i1).
Proof. exact Ex.cvrp_padding_hypotheses. Qed.
(* TSP: a greedy pass on two instances of three nodes (actions, per-step probabilities, finished, reward) *)
Example C11_ex_tsp_greedy :
  option_map (map ExTSP.tview) (ExTSP.tfwd Greedy false false 0 false 20 [(1%Z, ExTSP.t1); (2%Z, ExTSP.t2)] [] [[]; []])
  = Some [([1; 2; 0], [4 # 7; 2 # 3; 1]%Q, true, (-7)%Z); ([0; 2; 1], [4 # 7; 2 # 3; 1]%Q, true, (-10)%Z)].
Proof. exact ExTSP.tsp_greedy. Qed.
