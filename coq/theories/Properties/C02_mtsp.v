(* C02 for mTSP -- no dead ends, finished stays finished, step bound with an explicit measure, no crash. *)
From Coq Require Import ZArith List Bool.
From RL4CO Require Import Base.Num Base.EnvSig Spec.Routes Spec.MultiTour Env.MTSP Env.MTSPProofs.
Import ListNotations.
Open Scope Z_scope.

(* every state reached through offered actions (finished or not) offers at least one action, provided there is
   at least one city (num_loc >= 2) *)
Theorem C02_mtsp_no_dead_end :
  forall (C : mtsp_cfg) (i : mtsp_inst) (acts : list nat),
    mtsp_wfb i = true -> mtsp_solvableb i = true -> adm (E:=MTSP exact C) i acts = true ->
    anyb (mask (MTSP exact C) i (run (E:=MTSP exact C) i acts)) = true.
Proof. exact mtsp_no_dead_end_b. Qed.
Print Assumptions C02_mtsp_no_dead_end.

Theorem C02_mtsp_done_stable :
  forall (C : mtsp_cfg) (i : mtsp_inst) (acts : list nat) (a : nat),
    mtsp_wfb i = true -> adm (E:=MTSP exact C) i (acts ++ [a]) = true ->
    done (MTSP exact C) i (run (E:=MTSP exact C) i acts) = true ->
    done (MTSP exact C) i (run (E:=MTSP exact C) i (acts ++ [a])) = true.
Proof. exact mtsp_done_stable_b. Qed.
Print Assumptions C02_mtsp_done_stable.

(* the explicit measure  (cities still offered) + (num_agents - 1 - agent_idx)  starts at n + m - 1, drops by exactly
   one per step of an unfinished row and never goes below 0: an admitted action list none of whose proper prefixes is
   finished has at most n + m - 1 actions *)
Theorem C02_mtsp_bound_by_measure :
  forall (C : mtsp_cfg) (i : mtsp_inst) (acts : list nat),
    mtsp_wfb i = true -> adm (E:=MTSP exact C) i acts = true ->
    (forall p q, acts = p ++ q -> q <> [] -> done (MTSP exact C) i (run (E:=MTSP exact C) i p) = false) ->
    let s := run (E:=MTSP exact C) i acts in
    let measure := Z.of_nat (countb (tl (avail s))) + (nag i - 1 - agent s) in
    Z.of_nat (length acts) + measure = Z.of_nat (n_of i) + nag i - 1 /\
    0 <= measure /\
    Z.of_nat (length acts) <= Z.of_nat (n_of i) + nag i - 1.
Proof. exact mtsp_bound_measure_b. Qed.
Print Assumptions C02_mtsp_bound_by_measure.

(* the sharp bound: n cities plus at most min(m - 1, n - 1) depot returns (every sub-tour is non-empty) *)
Theorem C02_mtsp_bound :
  forall (C : mtsp_cfg) (i : mtsp_inst) (acts : list nat),
    mtsp_wfb i = true -> adm (E:=MTSP exact C) i acts = true ->
    (forall p q, acts = p ++ q -> q <> [] -> done (MTSP exact C) i (run (E:=MTSP exact C) i p) = false) ->
    (length acts <= n_of i + Nat.min (Z.to_nat (nag i - 1)) (n_of i - 1))%nat.
Proof. exact mtsp_bound_b. Qed.
Print Assumptions C02_mtsp_bound.

(* offered actions never index outside the tensors *)
Theorem C02_mtsp_step_ok :
  forall (C : mtsp_cfg) (i : mtsp_inst) (acts : list nat) (a : nat),
    mtsp_wfb i = true -> adm (E:=MTSP exact C) i acts = true ->
    offered (E:=MTSP exact C) i (run (E:=MTSP exact C) i acts) a = true ->
    stepok (MTSP exact C) i (run (E:=MTSP exact C) i acts) a = true.
Proof. exact mtsp_step_ok_b. Qed.
Print Assumptions C02_mtsp_step_ok.

(* the bound is attained (n = 3, m = 2: 4 steps; n = 2, m = 5: 3 steps, the depot is refused right after a depot visit) *)
Example C02_mtsp_bound_tight :
  let i := {| nag := 2; dist := [[0;1;1;1];[1;0;1;1];[1;1;0;1];[1;1;1;0]] |} in
  adm (E:=MTSP exact cfg_faithful) i [1;0;2;3]%nat = true /\
  done (MTSP exact cfg_faithful) i (run (E:=MTSP exact cfg_faithful) i [1;0;2;3]%nat) = true /\
  done (MTSP exact cfg_faithful) i (run (E:=MTSP exact cfg_faithful) i [1;0;2]%nat) = false /\
  adm (E:=MTSP exact cfg_faithful) (wit2 5) [1;0;2]%nat = true /\
  done (MTSP exact cfg_faithful) (wit2 5) (run (E:=MTSP exact cfg_faithful) (wit2 5) [1;0;2]%nat) = true /\
  offered (E:=MTSP exact cfg_faithful) (wit2 5) (run (E:=MTSP exact cfg_faithful) (wit2 5) [1;0]%nat) 0 = false.
Proof. exact mtsp_bound_tight. Qed.

(* the solvability hypothesis is needed: with the depot alone the mask is empty at reset *)
Example C02_mtsp_dead_end_without_city :
  let i := {| nag := 1; dist := [[0]] |} in
  mtsp_wfb i = true /\ mtsp_solvableb i = false /\
  anyb (mask (MTSP exact cfg_faithful) i (run (E:=MTSP exact cfg_faithful) i [])) = false.
Proof. exact mtsp_dead_end_without_city. Qed.
