(* C03 for mTSP -- accumulator invariant, reward = objective (minmax and sum).  The code as it is violates the
   property in both cost types; the statements below say exactly where it holds, where it fails (witnesses), and
   that it holds at full strength for the repaired code.  Statements only. *)
From Coq Require Import ZArith List Bool.
From RL4CO Require Import Base.Num Base.EnvSig Spec.Routes Spec.MultiTour Env.MTSP Env.MTSPProofs.
Import ListNotations.
Open Scope Z_scope.

(* accumulator invariant (any configuration): while the row is unfinished, with  routes acts = closed ++ [open],
   current_length is the length of the open sub-tour from the depot to the current node (no leg home) and
   max_subtour_length is the maximum of the closed sub-tours' closed lengths and current_length *)
Theorem C03_mtsp_accumulator_invariant :
  forall (C : mtsp_cfg) (i : mtsp_inst) (acts : list nat),
    mtsp_wfb i = true -> adm (E:=MTSP exact C) i acts = true ->
    done (MTSP exact C) i (run (E:=MTSP exact C) i acts) = false ->
    exists cl o, routes acts = cl ++ [o] /\
      curlen (run (E:=MTSP exact C) i acts) = plen (dfun i) 0%nat o /\
      maxsub (run (E:=MTSP exact C) i acts) =
        Z.max (maxl (map (route_len (dfun i)) cl)) (curlen (run (E:=MTSP exact C) i acts)).
Proof. exact mtsp_accumulators_b. Qed.
Print Assumptions C03_mtsp_accumulator_invariant.

(* minmax, code as it is (and repaired): at the step that finishes the row -- i.e. for action lists WITHOUT
   post-finish padding -- the reward is minus the longest closed sub-tour.
   Partial: what is missing is the padded action lists; for those the statement is false of the code as it is
   (next theorem). *)
Theorem C03_mtsp_minmax_reward_is_objective_partial :
  forall (C : mtsp_cfg) (i : mtsp_inst) (p : list nat) (a : nat),
    mtsp_wfb i = true -> adm (E:=MTSP exact C) i (p ++ [a]) = true ->
    done (MTSP exact C) i (run (E:=MTSP exact C) i p) = false ->
    done (MTSP exact C) i (run (E:=MTSP exact C) i (p ++ [a])) = true ->
    - maxsub (run (E:=MTSP exact C) i (p ++ [a])) = - maxl (map (route_len (dfun i)) (routes (p ++ [a]))).
Proof. exact mtsp_minmax_reward_episode_b. Qed.
Print Assumptions C03_mtsp_minmax_reward_is_objective_partial.

(* the defect: one padding step of a finished row re-adds the leg home; reward -9 where the objective is -6 *)
Theorem C03_mtsp_padding_changes_reward_refuted :
  exists i acts,
    mtsp_wfb i = true /\ adm (E:=MTSP exact cfg_faithful) i acts = true /\
    done (MTSP exact cfg_faithful) i (run (E:=MTSP exact cfg_faithful) i acts) = true /\
    adm (E:=MTSP exact cfg_faithful) i (acts ++ [0%nat]) = true /\
    mtsp_reward_minmax (run (E:=MTSP exact cfg_faithful) i acts) = -6 /\
    mtsp_reward_minmax (run (E:=MTSP exact cfg_faithful) i (acts ++ [0%nat])) = -9 /\
    - minmax_len (dfun i) (acts ++ [0%nat]) = -6.
Proof. exact mtsp_padding_changes_reward_refuted. Qed.
Print Assumptions C03_mtsp_padding_changes_reward_refuted.

(* minmax, repaired code (accumulators of rows that were already finished are frozen): full strength, for EVERY
   admitted action list of a finished row, padding included *)
Theorem C03_mtsp_minmax_reward_is_objective_repaired :
  forall (i : mtsp_inst) (acts : list nat),
    mtsp_wfb i = true -> adm (E:=MTSP exact cfg_repaired) i acts = true ->
    done (MTSP exact cfg_repaired) i (run (E:=MTSP exact cfg_repaired) i acts) = true ->
    - maxsub (run (E:=MTSP exact cfg_repaired) i acts) = - maxl (map (route_len (dfun i)) (routes acts)).
Proof. exact mtsp_minmax_reward_repaired_b. Qed.
Print Assumptions C03_mtsp_minmax_reward_is_objective_repaired.

(* sum, code as it is: the reward exists and is minus the total closed length only when there are exactly num_loc
   actions and the last one is the depot.  Partial: every other action list (next two theorems). *)
Theorem C03_mtsp_sum_reward_is_objective_partial :
  forall (i : mtsp_inst) (b : list nat),
    mget (dist i) 0 0 = 0 -> length (b ++ [0%nat]) = nnodes i ->
    mtsp_reward_sum cfg_faithful i (b ++ [0%nat]) = Some (- sumZ (map (route_len (dfun i)) (routes (b ++ [0%nat])))).
Proof. exact mtsp_sum_reward_partial_b. Qed.
Print Assumptions C03_mtsp_sum_reward_is_objective_partial.

(* sum, the defects: a complete mask-confined episode for which _get_reward raises (None), one for which it
   returns the tour through the actions only (-12) instead of the two closed sub-tours (-14), and one (a single city)
   whose single action is broadcast by expand_as: reward 0 instead of -6 *)
Theorem C03_mtsp_sum_reward_raises_refuted :
  exists i acts,
    mtsp_wfb i = true /\ adm (E:=MTSP exact cfg_faithful) i acts = true /\
    done (MTSP exact cfg_faithful) i (run (E:=MTSP exact cfg_faithful) i acts) = true /\
    mtsp_reward_sum cfg_faithful i acts = None.
Proof. exact mtsp_sum_reward_raises_refuted. Qed.
Print Assumptions C03_mtsp_sum_reward_raises_refuted.

Theorem C03_mtsp_sum_reward_unanchored_refuted :
  exists i acts,
    mtsp_wfb i = true /\ adm (E:=MTSP exact cfg_faithful) i acts = true /\
    done (MTSP exact cfg_faithful) i (run (E:=MTSP exact cfg_faithful) i acts) = true /\
    mtsp_reward_sum cfg_faithful i acts = Some (-12) /\ - sum_len (dfun i) acts = -14.
Proof. exact mtsp_sum_reward_unanchored_refuted. Qed.
Print Assumptions C03_mtsp_sum_reward_unanchored_refuted.

Theorem C03_mtsp_sum_reward_single_action_refuted :
  exists i acts,
    mtsp_wfb i = true /\ adm (E:=MTSP exact cfg_faithful) i acts = true /\
    done (MTSP exact cfg_faithful) i (run (E:=MTSP exact cfg_faithful) i acts) = true /\
    mtsp_reward_sum cfg_faithful i acts = Some 0 /\ - sum_len (dfun i) acts = -6.
Proof. exact mtsp_sum_reward_single_action_refuted. Qed.
Print Assumptions C03_mtsp_sum_reward_single_action_refuted.

(* sum, repaired code (tour anchored at the depot, any number of actions): full strength, for ANY action list *)
Theorem C03_mtsp_sum_reward_is_objective_repaired :
  forall (i : mtsp_inst) (acts : list nat),
    mget (dist i) 0 0 = 0 ->
    mtsp_reward_sum cfg_repaired i acts = Some (- sumZ (map (route_len (dfun i)) (routes acts))).
Proof. exact mtsp_sum_reward_repaired_b. Qed.
Print Assumptions C03_mtsp_sum_reward_is_objective_repaired.

Example C03_mtsp_nonvacuous :
  let i := {| nag := 2; dist := [[0; 3; 4]; [3; 0; 5]; [4; 5; 0]] |} in
  mtsp_wfb i = true /\ adm (E:=MTSP exact cfg_repaired) i [1; 0; 2; 0]%nat = true /\
  done (MTSP exact cfg_repaired) i (run (E:=MTSP exact cfg_repaired) i [1; 0; 2; 0]%nat) = true /\
  mtsp_reward_minmax (run (E:=MTSP exact cfg_repaired) i [1; 0; 2; 0]%nat) = -8 /\
  mtsp_reward_sum cfg_repaired i [1; 0; 2; 0]%nat = Some (-14) /\
  done (MTSP exact cfg_faithful) i (run (E:=MTSP exact cfg_faithful) i [1; 0]%nat) = false /\
  mtsp_reward_minmax (run (E:=MTSP exact cfg_faithful) i [1; 0; 2]%nat) = -8.
Proof. vm_compute. auto 10. Qed.
