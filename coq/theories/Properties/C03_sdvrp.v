(* C03 for SDVRP -- SDVRPEnv inherits CVRPEnv._get_reward: the cyclic gather+roll length equals the route-wise one. *)
From Coq Require Import ZArith List Bool.
From RL4CO Require Import Base.Num Base.EnvSig Spec.Routes Env.CVRP Env.CVRPProofs Env.SDVRP Env.SDVRPProofs.
Import ListNotations.
Open Scope Z_scope.

(* for ANY action list (in particular every completed SDVRP episode, which ends at a customer: the closing leg to the
   depot is charged): minus the sum of consecutive distances along depot :: actions (cyclically) equals minus the sum
   over routes of depot -> visits -> depot, whenever d(0,0) = 0 *)
Theorem C03_sdvrp_reward_is_objective :
  forall (i : cvrp_inst) (acts : list nat),
    mget (dist i) 0 0 = 0 ->
    - walk_len (dfun i) 0%nat acts = - sumZ (map (route_len (dfun i)) (routes acts)).
Proof. exact cvrp_reward_is_objective. Qed.
Print Assumptions C03_sdvrp_reward_is_objective.

Example C03_sdvrp_nonvacuous :
  let i := {| dem := [40; 40]; cap := 64; dist := [[0; 3; 4]; [3; 0; 5]; [4; 5; 0]]; tol := 0 |} in
  done (SDVRP exact) i (run (E:=SDVRP exact) i [1; 2; 0; 2]%nat) = true /\
  cvrp_reward i [1; 2; 0; 2]%nat = -20 /\ cvrp_objective i [1; 2; 0; 2]%nat = -20.
Proof. vm_compute. auto. Qed.
