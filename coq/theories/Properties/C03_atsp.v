(* C03 for ATSP -- the reward formula (roll + advanced indexing on the asymmetric matrix) equals minus the closed
   tour cost, with the DIRECTION of travel pinned: cost[a_t][a_{t+1}] and cost[last][first]. *)
From Coq Require Import ZArith List Bool.
From RL4CO Require Import Base.Num Base.EnvSig Spec.Tours Env.TourCore Env.ATSP Env.ATSPProofs.
Import ListNotations.
Open Scope Z_scope.

(* for ANY action list and ANY cost matrix (no symmetry assumed): what _get_reward computes -- minus the sum over t
   of cost[actions_t][roll(actions,-1)_t] -- equals minus [sum of cost FROM each node TO its successor in the list
   + cost FROM the last node back TO the first] *)
Theorem C03_atsp_reward_is_objective :
  forall (i : atsp_inst) (acts : list nat),
    atsp_reward i acts = - closed_len (atsp_d i) acts.
Proof. exact atsp_reward_is_objective. Qed.
Print Assumptions C03_atsp_reward_is_objective.

(* spelled out on three nodes: the objective of [a; b; c] is cost a b + cost b c + cost c a *)
Theorem C03_atsp_direction :
  forall (d : nat -> nat -> Z) (a b c : nat), closed_len d [a; b; c] = d a b + d b c + d c a.
Proof. exact closed_len_three. Qed.
Print Assumptions C03_atsp_direction.

(* non-vacuity on an asymmetric matrix: the tour 2 -> 0 -> 1 -> 2 costs 1 + 3 + 5 = 9, its reversal costs 2 + 7 + 4 = 13 *)
Example C03_atsp_nonvacuous :
  let i := {| agen_n := 3; acost := [[0; 3; 4]; [7; 0; 5]; [1; 2; 0]] |} in
  atsp_wfb i = true /\ atsp_reward i [2; 0; 1]%nat = -9 /\ atsp_reward i [1; 0; 2]%nat = -13.
Proof. vm_compute. auto. Qed.
