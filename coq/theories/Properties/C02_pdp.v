(* C02 for PDP -- no dead ends, step bound, done exactly after all nodes, all rows of a batch finish together.
   PDP is a fixed-length environment: its mask is EMPTY once the row is done. Statements only. *)
From Coq Require Import ZArith List Bool.
From RL4CO Require Import Base.Num Base.EnvSig Spec.Tours Env.TourCore Env.FixedLenLoop Env.PDP Env.PDPProofs.
Import ListNotations.
Open Scope Z_scope.

Theorem C02_pdp_no_dead_end :
  forall (i : pdp_inst) (acts : list nat),
    pdp_wf i -> adm (E:=PDP) i acts = true -> done PDP i (run (E:=PDP) i acts) = false ->
    anyb (mask PDP i (run (E:=PDP) i acts)) = true.
Proof. exact pdp_no_dead_end. Qed.
Print Assumptions C02_pdp_no_dead_end.

(* at most n steps (n + 1 with the forced depot start) *)
Theorem C02_pdp_bound :
  forall (i : pdp_inst) (acts : list nat),
    pdp_wf i -> adm (E:=PDP) i acts = true -> (length acts <= pgen_n i + if pforce i then 1 else 0)%nat.
Proof. exact pdp_bound. Qed.
Print Assumptions C02_pdp_bound.

(* done exactly when the route (implicit or explicit depot included) has n + 1 nodes *)
Theorem C02_pdp_done_exactly_at_bound :
  forall (i : pdp_inst) (acts : list nat),
    pdp_wf i -> adm (E:=PDP) i acts = true ->
    (done PDP i (run (E:=PDP) i acts) = true <-> length (if pforce i then acts else 0%nat :: acts) = (pgen_n i + 1)%nat).
Proof. exact pdp_done_iff. Qed.
Print Assumptions C02_pdp_done_exactly_at_bound.

(* offered actions never index outside the tensors (and the two masks have equal lengths: n even) *)
Theorem C02_pdp_step_ok :
  forall (i : pdp_inst) (acts : list nat) (a : nat),
    pdp_wf i -> adm (E:=PDP) i acts = true -> offered (E:=PDP) i (run (E:=PDP) i acts) a = true ->
    stepok PDP i (run (E:=PDP) i acts) a = true.
Proof. exact pdp_step_ok. Qed.
Print Assumptions C02_pdp_step_ok.

Theorem C02_pdp_done_mask_empty :
  forall (i : pdp_inst) (acts : list nat) (a : nat),
    pdp_wf i -> adm (E:=PDP) i acts = true -> done PDP i (run (E:=PDP) i acts) = true ->
    offered (E:=PDP) i (run (E:=PDP) i acts) a = false.
Proof. exact pdp_done_mask_empty. Qed.
Print Assumptions C02_pdp_done_mask_empty.

Theorem C02_pdp_done_stable :
  forall (i : pdp_inst) (acts : list nat) (a : nat),
    pdp_wf i -> adm (E:=PDP) i (acts ++ [a]) = true -> done PDP i (run (E:=PDP) i acts) = true ->
    done PDP i (run (E:=PDP) i (acts ++ [a])) = true.
Proof. exact pdp_done_stable. Qed.
Print Assumptions C02_pdp_done_stable.

(* batch level: rows with the same n and the same flag, each after t admitted steps: t <= bound; while t < bound NO row
   is done and every row has a non-empty mask; at t = bound EVERY row is done *)
Theorem C02_pdp_batch_lockstep :
  forall (n t : nat) (f : bool) (rows : list (pdp_inst * list nat)),
    (forall r, In r rows -> pdp_wf (fst r) /\ pgen_n (fst r) = n /\ pforce (fst r) = f /\ length (snd r) = t /\
                            adm (E:=PDP) (fst r) (snd r) = true) ->
    rows <> [] ->
    let bound := (n + if f then 1 else 0)%nat in
    (t <= bound)%nat /\
    ((t < bound)%nat -> forall r, In r rows -> done PDP (fst r) (run (E:=PDP) (fst r) (snd r)) = false /\
                                               anyb (mask PDP (fst r) (run (E:=PDP) (fst r) (snd r))) = true) /\
    (t = bound -> forall r, In r rows -> done PDP (fst r) (run (E:=PDP) (fst r) (snd r)) = true).
Proof. exact pdp_batch_lockstep. Qed.
Print Assumptions C02_pdp_batch_lockstep.

(* the batched decoding loop `while not done.all(): act; step` (Env/FixedLenLoop.v: [loop] returns Some t when it leaves
   normally after t iterations, None when the fuel -- the safety cap -- runs out or a row with an all-False mask is
   met while the loop is running): from reset, for ANY non-empty batch of well-formed instances with the same step
   bound B and ANY policy that picks an offered action whenever one is offered, the loop ends after exactly B
   iterations, for every cap >= B *)
Theorem C02_pdp_rollout_terminates :
  forall (choose : nat -> pdp_inst * pdp_st -> nat),
    (forall t i s, anyb (mask PDP i s) = true -> offered (E:=PDP) i s (choose t (i, s)) = true) ->
    forall (insts : list pdp_inst) (B extra : nat),
      insts <> [] -> (forall i, In i insts -> pdp_wf i /\ (pgen_n i + if pforce i then 1 else 0)%nat = B) ->
      loop PDP choose (B + extra) (map (fun i => (i, reset PDP i)) insts) 0 = Some B.
Proof. exact pdp_rollout_terminates. Qed.
Print Assumptions C02_pdp_rollout_terminates.

(* why n must be even: with an odd generator size the two masks of _reset have different lengths (the real
   "available & to_deliver" raises) *)
Example C02_pdp_odd_n_shape_mismatch :
  let i := {| pgen_n := 3; pforce := false; pdist := [] |} in
  pdp_wfb i = false /\ length (ptodel (pdp_reset i)) = 3%nat /\ length (pavail (pdp_reset i)) = 4%nat.
Proof. vm_compute. auto. Qed.

Example C02_pdp_nonvacuous :
  let i := {| pgen_n := 4; pforce := false; pdist := [[0;1;2;3;4]; [1;0;1;2;3]; [2;1;0;1;2]; [3;2;1;0;1]; [4;3;2;1;0]] |} in
  mask PDP i (run (E:=PDP) i []) = [false; true; true; false; false] /\
  mask PDP i (run (E:=PDP) i [2]%nat) = [false; true; false; false; true] /\
  mask PDP i (run (E:=PDP) i [2; 1; 4; 3]%nat) = [false; false; false; false; false].
Proof. vm_compute. auto. Qed.
