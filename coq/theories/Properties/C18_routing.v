(* C18 (unit routing) -- routing generators emit well-formed, solvable instances.
   Only statements closed by [exact] and their Print Assumptions.

   Reading guide.  Raw samples (torch.rand, Uniform.sample, uniform_, randint outputs) are arbitrary rationals
   inside the sampler's range; each theorem is about the deterministic post-processing the generator applies to
   them (Data/GenRouting.v mirrors the code line by line; `.int()` = [Qtrunc], truncation toward zero).
   Exact arithmetic: float32 rounding inside the generator is not modelled.
   [cvrp_wfb]/[cvrp_solvableb] are the hypotheses of the CVRP environment theorems (Env/CVRPProofs.v: demands >= 0,
   capacity >= 0; every demand <= capacity); [cvrptw_customer_okb H d dur w], [mtvrp_customer_okb ...],
   [svrp_solvableb] are the solvability conditions of DESIGN appendix A for those environments. *)
From Coq Require Import ZArith QArith Qround List Bool Arith.
From RL4CO Require Import Base.Num Env.CVRP Env.CVRPProofs Data.GenRouting Data.GenRouting2.
From RL4CO Require Env.TSP Env.TSPProofs Env.MTSP Env.MTSPProofs Env.PCTSP Env.PCTSPProofs Env.MDCPDP Env.MDCPDPDefs Env.SDVRPProofs.
Import ListNotations.
Open Scope Z_scope.

(* CVRP, any num_loc (on or off the capacity table), optional capacity override, min_demand = lo, max_demand = hi,
   demand sampler Uniform(lo - 1, hi - 1): the integer demands (samples truncated, plus 1) lie in lo .. hi - 1 and,
   provided hi - 1 <= capacity, the instance (in units of 1/capacity) is well-formed and solvable. *)
Theorem C18_cvrp_gen_wf :
  forall (num_loc : Z) (override : option Z) (lo hi : Z) (us : list Q) (D : list (list Z)),
    1 <= lo <= hi - 1 ->
    (forall u : Q, In u us -> (inject_Z (lo - 1) <= u)%Q /\ (u < inject_Z (hi - 1))%Q) ->
    hi - 1 <= cvrp_capacity override num_loc ->
    let i := gen_cvrp (cvrp_capacity override num_loc) us D in
    cvrp_wfb i = true /\ cvrp_solvableb i = true /\
    (forall k : Z, In k (dem i) -> lo <= k <= hi - 1 /\ k <= cap i).
Proof. exact gen_cvrp_wf. Qed.
Print Assumptions C18_cvrp_gen_wf.

(* The shipped defaults (demands 1..9, table capacity) for EVERY num_loc: demand <= 9 < 20 <= capacity. *)
Theorem C18_cvrp_default_wf :
  forall (num_loc : Z) (us : list Q) (D : list (list Z)),
    (forall u : Q, In u us -> (0 <= u)%Q /\ (u < 9)%Q) ->
    let i := gen_cvrp (cvrp_capacity None num_loc) us D in
    cvrp_wfb i = true /\ cvrp_solvableb i = true /\
    (forall k : Z, In k (dem i) -> 1 <= k <= 9 /\ k < cap i) /\ 20 <= cap i.
Proof. exact gen_cvrp_default_wf. Qed.
Print Assumptions C18_cvrp_default_wf.

(* Size tables (CVRP capacities, OP/PCTSP max lengths): a size on the table gets its entry, any other size gets the
   entry of a key at minimal distance |key - num_loc| (python's min: the first such key). *)
Theorem C18_table_lookup_closest :
  forall (tbl : list (Z * Z)) (n : Z),
    tbl <> [] ->
    (forall v : Z, table_get tbl n = Some v -> table_lookup tbl n = v) /\
    (table_get tbl n = None ->
       let kv := closest_entry tbl n in
       In kv tbl /\ table_lookup tbl n = snd kv /\
       forall kv' : Z * Z, In kv' tbl -> Z.abs (fst kv - n) <= Z.abs (fst kv' - n)).
Proof. exact table_lookup_spec. Qed.
Print Assumptions C18_table_lookup_closest.

(* CVRPTW, one customer at distance d >= 0 from the depot, horizon T = max_time, service duration dur >= 0, the two
   torch.rand draws t1, t2 in [0, 1), and 2 d + dur <= T (the customer can be served at all).  After steps 2-7:
   the window is made of integers 0 <= floor d <= lo <= hi <= floor (T - d - dur), service started at hi still
   allows the return (hi + dur + d <= T); if lo < hi (the generator's final assert) the customer is reachable with
   strict slack (d < hi); and lo < hi is guaranteed as soon as floor d + 1 <= floor (T - d - dur). *)
Theorem C18_cvrptw_window_ok :
  forall (T d dur t1 t2 : Q),
    (0 <= d)%Q -> (0 <= dur)%Q -> (0 <= t1)%Q -> (t1 < 1)%Q -> (0 <= t2)%Q -> (t2 < 1)%Q ->
    (d <= T - d - dur)%Q ->
    let lo := fst (cvrptw_window T d dur t1 t2) in
    let hi := snd (cvrptw_window T d dur t1 t2) in
    0 <= lo /\ Qfloor d <= lo /\ lo <= hi /\ hi <= Qfloor (T - d - dur) /\
    (inject_Z hi + dur + d <= T)%Q /\
    (lo < hi -> (d < inject_Z hi)%Q) /\
    (Qfloor d + 1 <= Qfloor (T - d - dur) -> lo < hi).
Proof. exact cvrptw_window_ok. Qed.
Print Assumptions C18_cvrptw_window_ok.

(* CVRPTW, a whole row: depot window [0, int(max_time)], and every customer window satisfies the environment's
   solvability condition (0 <= lo < hi, d <= hi, hi + dur + d <= T). *)
Theorem C18_cvrptw_gen_wf :
  forall (T : Q) (cust : list (Q * Q * Q * Q)),
    (forall d dur t1 t2 : Q, In (d, dur, t1, t2) cust ->
       (0 <= d)%Q /\ (0 <= dur)%Q /\ (0 <= t1)%Q /\ (t1 < 1)%Q /\ (0 <= t2)%Q /\ (t2 < 1)%Q /\
       (d <= T - d - dur)%Q /\ Qfloor d + 1 <= Qfloor (T - d - dur)) ->
    length (gen_cvrptw T cust) = S (length cust) /\
    nth 0 (gen_cvrptw T cust) (0, 0) = (0, Qtrunc T) /\
    forall j : nat, (j < length cust)%nat ->
      let '(d, dur, _, _) := nth j cust (0, 0, 0, 0)%Q in
      cvrptw_customer_okb T d dur (nth (S j) (gen_cvrptw T cust) (0, 0)) = true.
Proof. exact gen_cvrptw_wf. Qed.
Print Assumptions C18_cvrptw_gen_wf.

(* Finding: the final assert does not catch customers that are too far (2 d > max_time): a window that passes
   `min_times < max_times` but closes before the customer can be reached. *)
Theorem C18_cvrptw_far_customer_refuted :
  exists T d t1 t2 : Q, (0 <= d)%Q /\ (0 <= t1)%Q /\ (t1 < 1)%Q /\ (0 <= t2)%Q /\ (t2 < 1)%Q /\
    let w := cvrptw_window T d 0 t1 t2 in
    fst w < snd w /\ (inject_Z (snd w) < d)%Q /\ cvrptw_customer_okb T d 0 w = false.
Proof. exact cvrptw_far_customer_refuted. Qed.
Print Assumptions C18_cvrptw_far_customer_refuted.

(* CVRPTW: the deadline the environment reads is the EMITTED depot window end int(max_time).  For an integer
   max_time (the documented default 480) it is max_time itself, so C18_cvrptw_gen_wf is about the environment's
   horizon ... *)
Theorem C18_cvrptw_depot_deadline_integer :
  forall z : Z, 0 <= z -> snd (cvrptw_depot_window (inject_Z z)) = z.
Proof. exact cvrptw_depot_deadline_integer. Qed.
Print Assumptions C18_cvrptw_depot_deadline_integer.

(* ... finding: for a NON-integer max_time it is not: max_time 480.5, a customer at distance 1/4, draws 511/512 and
   4095/4096 (all hypotheses of C18_cvrptw_window_ok hold): window [479, 480] is fine for 480.5 but leaves no time to
   return before the emitted depot deadline 480. *)
Theorem C18_cvrptw_noninteger_deadline_refuted :
  exists T d t1 t2 : Q, (0 <= d)%Q /\ (0 <= t1)%Q /\ (t1 < 1)%Q /\ (0 <= t2)%Q /\ (t2 < 1)%Q /\ (d <= T - d - 0)%Q /\
    Qfloor d + 1 <= Qfloor (T - d - 0) /\
    let w := cvrptw_window T d 0 t1 t2 in
    let H := inject_Z (snd (cvrptw_depot_window T)) in
    cvrptw_customer_okb T d 0 w = true /\ cvrptw_customer_okb H d 0 w = false /\ w = (479, 480) /\ (H == 480)%Q.
Proof. exact cvrptw_noninteger_deadline_refuted. Qed.
Print Assumptions C18_cvrptw_noninteger_deadline_refuted.

(* MTVRP generate_time_windows, one customer: d > 0 its distance to the depot, s the service time, L > 0 the window
   length, r in [0, 1) the start draw, and 2 d / speed <= max_time - s - L.  Then the window opens no earlier than
   the vehicle can arrive, is non-empty, and service started at its very end still allows the return by max_time. *)
Theorem C18_mtvrp_tw_ok :
  forall (T speed d s L r : Q),
    (0 < d)%Q -> (0 < speed)%Q -> (0 <= s)%Q -> (0 < L)%Q -> (0 <= r)%Q -> (r < 1)%Q ->
    (2 * (d / speed) <= T - s - L)%Q ->
    let lo := fst (mtvrp_tw T speed d s L r) in
    let hi := snd (mtvrp_tw T speed d s L r) in
    (d / speed <= lo)%Q /\ (lo < hi)%Q /\ (d / speed < hi)%Q /\ (hi + s + d / speed <= T)%Q /\
    (lo + s + d / speed < T)%Q.
Proof. exact mtvrp_tw_ok. Qed.
Print Assumptions C18_mtvrp_tw_ok.

(* MTVRP generate_demands, one node: exactly one of (linehaul, backhaul) is non-zero and it lies in its range. *)
Theorem C18_mtvrp_demand_ok :
  forall (ratio ul ub r : Q) (lo hi blo bhi : Z),
    1 <= lo -> 1 <= blo ->
    (inject_Z (lo - 1) <= ul)%Q -> (ul < inject_Z (hi - 1))%Q ->
    (inject_Z (blo - 1) <= ub)%Q -> (ub < inject_Z (bhi - 1))%Q ->
    let l := fst (mtvrp_demand ratio ul ub r) in
    let b := snd (mtvrp_demand ratio ul ub r) in
    (b = 0 /\ lo <= l <= hi - 1) \/ (l = 0 /\ blo <= b <= bhi - 1).
Proof. exact mtvrp_demand_ok. Qed.
Print Assumptions C18_mtvrp_demand_ok.

(* MTVRP, one customer of a generated and then subsampled row, for EVERY keep mask (hence every preset and every
   mixed batch): the solvability condition of the environment holds -- demand fits, distance limit allows the
   (round) trip, the deadline is after the earliest arrival, and on closed routes the depot is reached in time. *)
Theorem C18_mtvrp_customer_ok :
  forall (k : keep4) (cap lo hi blo bhi : Z) (T speed lim ratio d r1 r2 r3 ul ub r : Q),
    1 <= lo -> 1 <= blo -> hi - 1 <= cap -> bhi - 1 <= cap ->
    (0 < d)%Q -> (0 < speed)%Q ->
    (0 <= r1)%Q -> (r1 < 1)%Q -> (0 <= r2)%Q -> (r2 < 1)%Q -> (0 <= r3)%Q -> (r3 < 1)%Q ->
    (inject_Z (lo - 1) <= ul)%Q -> (ul < inject_Z (hi - 1))%Q ->
    (inject_Z (blo - 1) <= ub)%Q -> (ub < inject_Z (bhi - 1))%Q ->
    (2 * d < lim)%Q ->
    (2 * (d / speed) + (38 # 100) <= T)%Q ->
    let '(kO, kTW, kL, kB) := k in
    let s := mtvrp_service r1 in
    let w := mtvrp_tw T speed d s (mtvrp_twlen r2) r3 in
    mtvrp_customer_okb cap (sub_open kO true) speed (sub_limit kL (Some lim)) (snd (sub_tw kTW (0%Q, Some T)))
                       d (sub_tw kTW (fst w, Some (snd w))) (sub_svc kTW s) (sub_dem kB (mtvrp_demand ratio ul ub r)) = true.
Proof. exact mtvrp_customer_ok. Qed.
Print Assumptions C18_mtvrp_customer_ok.

(* MTVRP subsample_problems: the features of the emitted row are exactly the kept ones (open flag, finite windows
   + service times, finite distance limit), and removing backhauls folds them into linehaul (totals preserved). *)
Theorem C18_mtvrp_subsample_features :
  forall (k : keep4) (T speed lim ratio : Q) (cust : list (Q * Q * Q * Q * Q * Q * Q)),
    let '(kO, kTW, kL, kB) := k in
    let r0 := gen_mtvrp_row T speed lim ratio cust in
    let r := subsample k r0 in
    r_open r = kO /\
    (r_limit r = if kL then Some lim else None) /\
    (if kTW then r_tw r = r_tw r0 /\ r_svc r = r_svc r0
     else Forall (fun tw => tw = (0%Q, None)) (r_tw r) /\ Forall (fun s => s = 0%Q) (r_svc r)) /\
    (if kB then r_dem r = r_dem r0
     else Forall (fun lb => snd lb = 0) (r_dem r) /\
          map (fun lb => fst lb + snd lb) (r_dem r) = map (fun lb => fst lb + snd lb) (r_dem r0)).
Proof. exact subsample_features. Qed.
Print Assumptions C18_mtvrp_subsample_features.

(* MTVRP default capacity is at least 30 for every num_loc (so demands 1..9 fit). *)
Theorem C18_mtvrp_capacity_ge : forall n : Z, 30 <= get_vehicle_capacity n.
Proof. exact get_vehicle_capacity_ge. Qed.
Print Assumptions C18_mtvrp_capacity_ge.

(* OP prizes (in hundredths): "unif" and "dist" prizes lie in 0.01 .. 1.00, the farthest node gets exactly 1.00. *)
Theorem C18_op_prize_ranges :
  (forall k : Z, 0 <= k < 100 -> 1 <= op_prize_unif k <= 100) /\
  (forall d dmax : Q, (0 <= d)%Q -> (d <= dmax)%Q -> (0 < dmax)%Q ->
     1 <= op_prize_dist d dmax <= 100 /\ ((d == dmax)%Q -> op_prize_dist d dmax = 100)).
Proof. exact op_prize_ranges. Qed.
Print Assumptions C18_op_prize_ranges.

(* OP prize_type "const" and "unif" (whole rows, in hundredths): const prizes are all 1.00; unif prizes
   (1 + randint(0, 100)) / 100 lie in 0.01 .. 1.00; one prize per node. *)
Theorem C18_op_const_unif_wf :
  (forall n : nat, length (op_prizes_const n) = n /\ forall p : Z, In p (op_prizes_const n) -> p = 100) /\
  (forall ks : list Z, (forall k : Z, In k ks -> 0 <= k < 100) ->
     length (op_prizes_unif ks) = length ks /\ forall p : Z, In p (op_prizes_unif ks) -> 1 <= p <= 100).
Proof. exact op_const_unif_wf. Qed.
Print Assumptions C18_op_const_unif_wf.

(* PDP / MDCPDP: the number of nodes is made even, and "pickup j <-> delivery j + n/2" is an involution without
   fixed points that exchanges the two halves. *)
Theorem C18_pdp_pairing :
  forall n : Z, 0 <= n ->
    let m := pdp_num_loc n in
    m mod 2 = 0 /\ n <= m <= n + 1 /\
    (forall j : Z, 1 <= j <= m ->
       1 <= pdp_partner m j <= m /\ pdp_partner m j <> j /\ pdp_partner m (pdp_partner m j) = j /\
       (j <= m / 2 <-> m / 2 < pdp_partner m j)).
Proof. exact pdp_pairing. Qed.
Print Assumptions C18_pdp_pairing.

(* SVRP: technicians are the sorted raw draws (same elements), required skills are max(techs) * u with 0 <= u <= 1,
   so the technicians are in ascending order and the last one can serve every customer. *)
Theorem C18_svrp_gen_wf :
  forall (raw us : list Q),
    raw <> [] -> (forall t : Q, In t raw -> (0 <= t)%Q) -> (forall u : Q, In u us -> (0 <= u)%Q /\ (u <= 1)%Q) ->
    let techs := svrp_techs raw in
    let skills := svrp_skills techs us in
    length techs = length raw /\ length skills = length us /\
    (forall t : Q, In t techs <-> In t raw) /\
    svrp_solvableb techs skills = true.
Proof. exact gen_svrp_wf. Qed.
Print Assumptions C18_svrp_gen_wf.

(* ---- generators without arithmetic of their own, stated with the environment units' predicates (the distance
   matrix is instance data: its metric facts are hypotheses, evaluated on every generated instance by the harness) *)
(* TSP: an n x n symmetric distance matrix, n >= 1, is inside TSPEnv's input format. *)
Theorem C18_tsp_gen_wf :
  forall (n : nat) (D : list (list Z)),
    (1 <= n)%nat -> length D = n -> (forall r : list Z, In r D -> length r = n) ->
    (forall a b : nat, (a < n)%nat -> (b < n)%nat -> mget D a b = mget D b a) ->
    TSPProofs.tsp_wfb (gen_tsp D) = true.
Proof. exact gen_tsp_wf. Qed.
Print Assumptions C18_tsp_gen_wf.

(* mTSP: num_agents = randint(min_num_agents, max_num_agents + 1) with min_num_agents >= 1. *)
Theorem C18_mtsp_gen_wf :
  forall (lo hi k : Z) (n : nat) (D : list (list Z)),
    1 <= lo -> lo <= k <= hi ->
    (1 <= n)%nat -> length D = n -> (forall r : list Z, In r D -> length r = n /\ forall x : Z, In x r -> 0 <= x) ->
    (forall a : nat, (a < n)%nat -> mget D a a = 0) ->
    let i := gen_mtsp k D in
    MTSPProofs.mtsp_wfb i = true /\ lo <= MTSP.nag i <= hi /\ ((2 <= n)%nat -> MTSPProofs.mtsp_solvableb i = true).
Proof. exact gen_mtsp_wf. Qed.
Print Assumptions C18_mtsp_gen_wf.

(* PCTSP / SPCTSP, the arithmetic: penalty = rp * max_penalty, deterministic_prize = rd * 4 / num_loc,
   stochastic_prize = rs * 2 * deterministic_prize for torch.rand draws rp, rd, rs in [0, 1). *)
Theorem C18_pctsp_ranges :
  forall (num_loc : Z) (maxpen rp rd rs : Q),
    1 <= num_loc -> (0 <= maxpen)%Q ->
    (0 <= rp)%Q -> (rp < 1)%Q -> (0 <= rd)%Q -> (rd < 1)%Q -> (0 <= rs)%Q -> (rs < 1)%Q ->
    (0 <= pctsp_penalty maxpen rp)%Q /\ (pctsp_penalty maxpen rp <= maxpen)%Q /\
    (0 <= pctsp_det num_loc rd)%Q /\ (pctsp_det num_loc rd < 4 / inject_Z num_loc)%Q /\
    (0 <= pctsp_sto num_loc rd rs)%Q /\ (pctsp_sto num_loc rd rs <= 2 * pctsp_det num_loc rd)%Q.
Proof. exact pctsp_ranges. Qed.
Print Assumptions C18_pctsp_ranges.

(* PCTSP / SPCTSP, a whole row scaled by any S > 0: inside PCTSPEnv's input format (one prize of each kind and one
   penalty per customer, at least one customer), everything non-negative, penalties below the scaled max_penalty. *)
Theorem C18_pctsp_gen_wf :
  forall (S : Z) (stochastic : bool) (num_loc : Z) (maxpen : Q) (draws : list (Q * Q * Q)) (D : list (list Z)) (thr : Z),
    0 < S -> 1 <= num_loc -> (0 <= maxpen)%Q -> draws <> [] ->
    (forall rp rd rs : Q, In (rp, rd, rs) draws ->
       (0 <= rp)%Q /\ (rp < 1)%Q /\ (0 <= rd)%Q /\ (rd < 1)%Q /\ (0 <= rs)%Q /\ (rs < 1)%Q) ->
    let i := gen_pctsp S stochastic num_loc maxpen draws D thr in
    PCTSPProofs.pctsp_wfb i = true /\ PCTSP.pn_of i = length draws /\
    (forall x : Z, In x (PCTSP.dprize i) \/ In x (PCTSP.sprize i) \/ In x (PCTSP.pen i) -> 0 <= x) /\
    (forall x : Z, In x (PCTSP.pen i) -> x <= scaleq S maxpen).
Proof. exact gen_pctsp_wf. Qed.
Print Assumptions C18_pctsp_gen_wf.

(* the table-derived max_penalty (MAX_LENGTHS entry of the closest size * penalty_factor / num_loc) is non-negative *)
Theorem C18_pctsp_max_penalty_nonneg :
  forall (n : Z) (factor : Q), 1 <= n -> (0 <= factor)%Q -> (0 <= pctsp_max_penalty None n factor)%Q.
Proof. exact pctsp_table_max_penalty_pos. Qed.
Print Assumptions C18_pctsp_max_penalty_nonneg.

(* MDCPDP: even number of customers, num_depot >= 1 depots, ONE capacity column drawn in [min_capacity, max_capacity]
   with min_capacity >= 1, lateness weight in [0, 1]: inside MDCPDPEnv's input format and solvable. *)
Theorem C18_mdcpdp_gen_wf :
  forall (num_loc num_depot : nat) (lo hi c : Z) (D : list (list Z)) (one lw : Z) (opn : bool) (mode : nat),
    (1 <= num_depot)%nat -> 1 <= lo -> lo <= c <= hi ->
    let N := (num_depot + even_num_loc num_loc)%nat in
    length D = N -> (forall r : list Z, In r D -> length r = N /\ forall x : Z, In x r -> 0 <= x) ->
    (forall a : nat, (a < N)%nat -> mget D a a = 0) ->
    0 < one -> 0 <= lw <= one ->
    let i := gen_mdcpdp num_loc num_depot c D one lw opn mode in
    MDCPDPDefs.md_wfb i = true /\ MDCPDPDefs.md_solvableb i = true /\ Nat.even (MDCPDP.nloc i) = true /\
    MDCPDP.caps i = [c] /\ lo <= c <= hi.
Proof. exact gen_mdcpdp_wf. Qed.
Print Assumptions C18_mdcpdp_gen_wf.

(* SDVRP uses CVRPGenerator unchanged: format, positive capacity (SDVRP's solvability), demands >= 1. *)
Theorem C18_sdvrp_gen_wf :
  forall (num_loc : Z) (override : option Z) (lo hi : Z) (us : list Q) (D : list (list Z)),
    1 <= lo <= hi - 1 ->
    (forall u : Q, In u us -> (inject_Z (lo - 1) <= u)%Q /\ (u < inject_Z (hi - 1))%Q) ->
    hi - 1 <= cvrp_capacity override num_loc ->
    let i := gen_cvrp (cvrp_capacity override num_loc) us D in
    cvrp_wfb i = true /\ SDVRPProofs.sd_solvableb i = true /\ (forall k : Z, In k (dem i) -> 1 <= k).
Proof. exact gen_sdvrp_wf. Qed.
Print Assumptions C18_sdvrp_gen_wf.

Example C18_routing_nonvacuous :
  cvrptw_window 480 (101 # 2) 0 (1 # 1000) (2 # 1000) = (50, 51) /\
  cvrptw_customer_okb 480 (101 # 2) 0 (50, 51) = true /\
  dem (gen_cvrp (cvrp_capacity None 17) [0 # 1; 35 # 4; 3 # 1]%Q []) = [1; 9; 4] /\
  cvrp_capacity None 17 = 25 /\ cvrp_capacity None 350 = 70.
Proof. vm_compute. repeat split. Qed.
