(* C06 for ATSP -- check_solution_validity (len(actions) == number of nodes and sorted(actions) == arange(len(actions)))
   against the problem definition.  The length test was added by the fix 5d5f57a (known_findings.json: fixed
   "atsp/default: checker-accepts-tour-of-wrong-length"); soundness is now stated WITHOUT any hypothesis on the length
   of the action list. *)
From Coq Require Import ZArith List Bool.
From RL4CO Require Import Base.Num Base.EnvSig Spec.Tours Env.TourCore Env.ATSP Env.ATSPProofs.
Import ListNotations.
Open Scope Z_scope.

(* every tour (each node exactly once) is accepted *)
Theorem C06_atsp_checker_complete :
  forall (i : atsp_inst) (acts : list nat),
    atsp_wf i -> (forall j, (j < atsp_n i)%nat -> occ j acts = 1%nat) -> (forall a, In a acts -> (a < atsp_n i)%nat) ->
    atsp_checker i acts = true.
Proof. exact atsp_checker_complete_unfolded. Qed.
Print Assumptions C06_atsp_checker_complete.

(* EVERY accepted action list, of whatever length, is a tour of the instance: each node 0..n-1 exactly once *)
Theorem C06_atsp_checker_sound :
  forall (i : atsp_inst) (acts : list nat),
    atsp_wf i -> atsp_checker i acts = true ->
    (forall j, (j < atsp_n i)%nat -> occ j acts = 1%nat) /\ (forall a, In a acts -> (a < atsp_n i)%nat).
Proof. exact atsp_checker_sound. Qed.
Print Assumptions C06_atsp_checker_sound.

Theorem C06_atsp_checker_rejects_wrong_length :
  forall (i : atsp_inst) (acts : list nat), atsp_wf i -> length acts <> atsp_n i -> atsp_checker i acts = false.
Proof. exact atsp_checker_rejects_wrong_length. Qed.
Print Assumptions C06_atsp_checker_rejects_wrong_length.

Theorem C06_atsp_checker_rejects_missing :
  forall (i : atsp_inst) (acts : list nat) (j : nat),
    atsp_wf i -> (j < atsp_n i)%nat -> ~ In j acts -> atsp_checker i acts = false.
Proof. exact atsp_checker_rejects_missing. Qed.
Print Assumptions C06_atsp_checker_rejects_missing.

Theorem C06_atsp_checker_rejects_duplicate :
  forall (i : atsp_inst) (acts : list nat) (j : nat), atsp_wf i -> (2 <= occ j acts)%nat -> atsp_checker i acts = false.
Proof. exact atsp_checker_rejects_duplicate. Qed.
Print Assumptions C06_atsp_checker_rejects_duplicate.

Theorem C06_atsp_checker_rejects_out_of_range :
  forall (i : atsp_inst) (acts : list nat) (a : nat),
    atsp_wf i -> In a acts -> (atsp_n i <= a)%nat -> atsp_checker i acts = false.
Proof. exact atsp_checker_rejects_out_of_range. Qed.
Print Assumptions C06_atsp_checker_rejects_out_of_range.

(* non-vacuity, including the witness of the repaired defect: 3 nodes, actions [1; 0] (a permutation of 0..len-1 that
   never visits node 2) was accepted before the fix and is rejected now *)
Example C06_atsp_nonvacuous :
  let i := {| agen_n := 3; acost := [[0; 3; 4]; [7; 0; 5]; [1; 2; 0]] |} in
  atsp_checker i [2; 0; 1]%nat = true /\ atsp_checker i [2; 0; 2]%nat = false /\ atsp_checker i [3; 0; 1]%nat = false /\
  atsp_checker i [1; 0]%nat = false.
Proof. vm_compute. auto. Qed.
