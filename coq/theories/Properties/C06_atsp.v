(* C06 for ATSP -- check_solution_validity (sorted(actions) == arange(len(actions))) against the problem definition. *)
From Coq Require Import ZArith List Bool.
From RL4CO Require Import Base.Num Base.EnvSig Spec.Tours Env.TourCore Env.ATSP Env.ATSPProofs.
Import ListNotations.
Open Scope Z_scope.

(* every tour (each city exactly once) is accepted *)
Theorem C06_atsp_checker_complete :
  forall (i : atsp_inst) (acts : list nat),
    (forall j, (j < atsp_n i)%nat -> occ j acts = 1%nat) -> (forall a, In a acts -> (a < atsp_n i)%nat) ->
    atsp_checker acts = true.
Proof. exact atsp_checker_complete_unfolded. Qed.
Print Assumptions C06_atsp_checker_complete.

(* accepted action lists OF THE INSTANCE'S LENGTH are tours *)
Theorem C06_atsp_checker_sound :
  forall (i : atsp_inst) (acts : list nat),
    length acts = atsp_n i -> atsp_checker acts = true ->
    (forall j, (j < atsp_n i)%nat -> occ j acts = 1%nat) /\ (forall a, In a acts -> (a < atsp_n i)%nat).
Proof. exact atsp_checker_sound. Qed.
Print Assumptions C06_atsp_checker_sound.

(* what acceptance means for an action list of ANY length L: a permutation of 0..L-1 *)
Theorem C06_atsp_checker_sound_any_length :
  forall (acts : list nat), atsp_checker acts = true ->
    (forall j, (j < length acts)%nat -> occ j acts = 1%nat) /\ (forall a, In a acts -> (a < length acts)%nat).
Proof. exact atsp_checker_sound_general. Qed.
Print Assumptions C06_atsp_checker_sound_any_length.

Theorem C06_atsp_checker_rejects_missing :
  forall (i : atsp_inst) (acts : list nat) (j : nat),
    length acts = atsp_n i -> (j < atsp_n i)%nat -> ~ In j acts -> atsp_checker acts = false.
Proof. exact atsp_checker_rejects_missing. Qed.
Print Assumptions C06_atsp_checker_rejects_missing.

Theorem C06_atsp_checker_rejects_duplicate :
  forall (acts : list nat) (j : nat), (2 <= occ j acts)%nat -> atsp_checker acts = false.
Proof. exact atsp_checker_rejects_duplicate. Qed.
Print Assumptions C06_atsp_checker_rejects_duplicate.

Theorem C06_atsp_checker_rejects_out_of_range :
  forall (i : atsp_inst) (acts : list nat) (a : nat),
    length acts = atsp_n i -> In a acts -> (atsp_n i <= a)%nat -> atsp_checker acts = false.
Proof. exact atsp_checker_rejects_out_of_range. Qed.
Print Assumptions C06_atsp_checker_rejects_out_of_range.

(* REFUTED without the length hypothesis: the checker never looks at the number of cities, so a "tour" that omits
   the highest-numbered city is accepted (3 cities, actions [1; 0]) *)
Theorem C06_atsp_checker_truncated_refuted :
  exists (i : atsp_inst) (acts : list nat),
    atsp_wfb i = true /\ atsp_checker acts = true /\ ~ atsp_feasible i acts /\ ~ In 2%nat acts /\ (2 < atsp_n i)%nat.
Proof. exact atsp_checker_truncated_refuted. Qed.
Print Assumptions C06_atsp_checker_truncated_refuted.

Example C06_atsp_nonvacuous :
  atsp_checker [2; 0; 1]%nat = true /\ atsp_checker [2; 0; 2]%nat = false /\ atsp_checker [3; 0; 1]%nat = false.
Proof. vm_compute. auto. Qed.
