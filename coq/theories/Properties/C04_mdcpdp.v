(* C04 for MDCPDP -- padding steps are inert; a row's step does not look at the rest of the batch. Statements only.
   The model's only window on the batch is [solo i] / [legs0 i]: when [solo i] is false, the raw step lengths come
   from [legs0 i] (the step lengths of batch row 0), which is what torch.where([B,1], 0, [B]) + scatter_add_ compute. *)
From Coq Require Import ZArith List Bool.
From RL4CO Require Import Base.Num Base.EnvSig Spec.MultiDepotPD Env.MDCPDP Env.MDCPDPDefs Env.MDCPDPProofs Env.MDCPDPRefuted.
Import ListNotations.
Open Scope Z_scope.

(* after a row has finished, for ANY number k of further steps: exactly the current depot e is offered, the row stays
   finished, the mask does not change, and from the first padding step on the reward is the objective of the episode
   proper (hence constant in k >= 1).  Under every combination F of repairs, the code as it is included. *)
Theorem C04_mdcpdp_padding :
  forall (F : mdfix) (i : md_inst) (acts : list nat) (k : nat),
    md_wfb i = true -> md_good F i = true -> solo i || fx_leg F = true ->
    adm (E:=MDCPDP exact F) i acts = true ->
    (forall p q, acts = p ++ q -> q <> [] -> done (MDCPDP exact F) i (run (E:=MDCPDP exact F) i p) = false) ->
    done (MDCPDP exact F) i (run (E:=MDCPDP exact F) i acts) = true ->
    let e := depot (run (E:=MDCPDP exact F) i acts) in
    let pad := repeat e k in
    adm (E:=MDCPDP exact F) i (acts ++ pad) = true /\
    done (MDCPDP exact F) i (run (E:=MDCPDP exact F) i (acts ++ pad)) = true /\
    mask (MDCPDP exact F) i (run (E:=MDCPDP exact F) i (acts ++ pad)) = map (fun j => Nat.eqb j e) (seq 0 (ndep i + nloc i)) /\
    ((1 <= k)%nat -> (mode i < 3)%nat ->
     md_reward exact F i (run (E:=MDCPDP exact F) i (acts ++ pad)) = spec_objective i acts).
Proof. intros F i acts k Hwf Hg Hs. exact (md_padding F i Hwf Hg Hs acts k). Qed.
Print Assumptions C04_mdcpdp_padding.

(* with the return-leg repair (or for the open problem) also k = 0: the reward does not depend on the padding at all *)
Theorem C04_mdcpdp_padding_inert :
  forall (F : mdfix) (i : md_inst) (acts : list nat) (k : nat),
    md_wfb i = true -> md_good F i = true -> solo i || fx_leg F = true ->
    fx_ret F = true \/ opn i = true -> (mode i < 3)%nat ->
    adm (E:=MDCPDP exact F) i acts = true ->
    (forall p q, acts = p ++ q -> q <> [] -> done (MDCPDP exact F) i (run (E:=MDCPDP exact F) i p) = false) ->
    done (MDCPDP exact F) i (run (E:=MDCPDP exact F) i acts) = true ->
    md_reward exact F i (run (E:=MDCPDP exact F) i (acts ++ repeat (depot (run (E:=MDCPDP exact F) i acts)) k))
    = md_reward exact F i (run (E:=MDCPDP exact F) i acts).
Proof.
  intros F i acts k Hwf Hg Hs Hr Hm Ha Hl Hd. rewrite (md_reward_is_objective F i Hwf Hg Hs acts Ha Hl Hd Hr Hm).
  destruct k as [|k]; [cbn [repeat]; rewrite app_nil_r; apply (md_reward_is_objective F i Hwf Hg Hs acts Ha Hl Hd Hr Hm)|].
  destruct (md_padding F i Hwf Hg Hs acts (S k) Ha Hl Hd) as (_ & _ & _ & H). apply H; [apply le_n_S, PeanoNat.Nat.le_0_l | exact Hm].
Qed.
Print Assumptions C04_mdcpdp_padding_inert.

(* with the step-length repair fx_leg the row's run and admissibility do not depend on whether it is alone, nor on what
   batch row 0 does (masks never do, under any F) *)
Theorem C04_mdcpdp_row_independent :
  forall (F : mdfix) (i : md_inst) (so : bool) (l0 : list Z) (acts : list nat),
    fx_leg F = true ->
    run (E:=MDCPDP exact F) (with_batch i so l0) acts = run (E:=MDCPDP exact F) i acts /\
    adm (E:=MDCPDP exact F) (with_batch i so l0) acts = adm (E:=MDCPDP exact F) i acts.
Proof. exact md_run_row_independent. Qed.
Print Assumptions C04_mdcpdp_row_independent.

Theorem C04_mdcpdp_mask_row_independent :
  forall (F : mdfix) (i : md_inst) (so : bool) (l0 : list Z) (s : md_st), md_mask F (with_batch i so l0) s = md_mask F i s.
Proof. exact md_mask_row_independent. Qed.
Print Assumptions C04_mdcpdp_mask_row_independent.

(* the code as it is: one padding step changes the reward (-7 -> -14) *)
Theorem C04_mdcpdp_refuted_padding :
  exists i acts, md_wfb i = true /\ md_good as_is i = true /\ adm (E:=MDCPDP exact as_is) i (acts ++ [0%nat]) = true /\ live as_is i acts /\
                 done (MDCPDP exact as_is) i (run (E:=MDCPDP exact as_is) i acts) = true /\
                 md_reward exact as_is i (run (E:=MDCPDP exact as_is) i acts) = Some (-7) /\
                 md_reward exact as_is i (run (E:=MDCPDP exact as_is) i (acts ++ [0%nat])) = Some (-14).
Proof. exact md_padding_refuted. Qed.
Print Assumptions C04_mdcpdp_refuted_padding.

(* the code as it is: the same row with the same actions gets another reward next to another batch row 0 *)
Theorem C04_mdcpdp_refuted_row0_lengths :
  exists i l0 acts, md_wfb i = true /\ md_good as_is i = true /\
     md_reward exact as_is (with_batch i true []) (run (E:=MDCPDP exact as_is) (with_batch i true []) acts) = Some (-14) /\
     md_reward exact as_is (with_batch i false l0) (run (E:=MDCPDP exact as_is) (with_batch i false l0) acts) = Some (-300).
Proof. exact md_row_independent_refuted. Qed.
Print Assumptions C04_mdcpdp_refuted_row0_lengths.

Example C04_mdcpdp_nonvacuous :
  let i := inst 1 2 [1] (line_dist [0; 3; 7]) 0 in
  let acts := [0; 1; 2]%nat in
  md_wfb i = true /\ adm (E:=MDCPDP exact repaired) i (acts ++ [0; 0]%nat) = true /\ liveb repaired i acts = true /\
  done (MDCPDP exact repaired) i (run (E:=MDCPDP exact repaired) i acts) = true /\
  md_reward exact repaired i (run (E:=MDCPDP exact repaired) i acts) = Some (-14) /\
  md_reward exact repaired i (run (E:=MDCPDP exact repaired) i (acts ++ [0; 0]%nat)) = Some (-14).
Proof. vm_compute. repeat split; reflexivity. Qed.
