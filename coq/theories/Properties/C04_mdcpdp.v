(* C04 for MDCPDP -- padding steps are inert; a row's step does not look at the rest of the batch. Statements only.
   The model's only window on the batch is [solo i] / [legs0 i] (the step lengths of batch row 0, which the code before
   the repair ad2c92d added to every row).  The running code is [repaired] (defects recorded as fixed in
   known_findings.json); the [as_is] statements at the end are history. *)
From Coq Require Import ZArith List Bool.
From RL4CO Require Import Base.Num Base.EnvSig Spec.MultiDepotPD Env.MDCPDP Env.MDCPDPDefs Env.MDCPDPProofs Env.MDCPDPRefuted.
Import ListNotations.
Open Scope Z_scope.

(* after a row has finished, for ANY number k >= 0 of further steps: exactly the current depot e is offered, the row
   stays finished, the mask does not change, and the reward is the reward of the unpadded episode *)
Theorem C04_mdcpdp_padding_inert :
  forall (i : md_inst) (acts : list nat) (k : nat),
    md_wfb i = true -> (mode i <= 3)%nat ->
    adm (E:=MDCPDP exact repaired) i acts = true ->
    (forall p q, acts = p ++ q -> q <> [] -> done (MDCPDP exact repaired) i (run (E:=MDCPDP exact repaired) i p) = false) ->
    done (MDCPDP exact repaired) i (run (E:=MDCPDP exact repaired) i acts) = true ->
    let e := depot (run (E:=MDCPDP exact repaired) i acts) in
    let pad := repeat e k in
    adm (E:=MDCPDP exact repaired) i (acts ++ pad) = true /\
    done (MDCPDP exact repaired) i (run (E:=MDCPDP exact repaired) i (acts ++ pad)) = true /\
    mask (MDCPDP exact repaired) i (run (E:=MDCPDP exact repaired) i (acts ++ pad)) = map (fun j => Nat.eqb j e) (seq 0 (ndep i + nloc i)) /\
    md_reward exact repaired i (run (E:=MDCPDP exact repaired) i (acts ++ pad)) = md_reward exact repaired i (run (E:=MDCPDP exact repaired) i acts).
Proof.
  intros i acts k Hwf Hm Ha Hl Hd. cbv zeta.
  destruct (md_padding repaired i Hwf (repaired_good i) (repaired_solo i) acts k Ha Hl Hd) as (H1 & H2 & H3 & H4).
  split; [exact H1|]. split; [exact H2|]. split; [exact H3|].
  rewrite (md_reward_is_objective repaired i Hwf (repaired_good i) (repaired_solo i) acts Ha Hl Hd (or_introl eq_refl) (repaired_mode_ok i Hm)).
  destruct k as [|k]; [cbn [repeat]; rewrite app_nil_r; apply (md_reward_is_objective repaired i Hwf (repaired_good i) (repaired_solo i) acts Ha Hl Hd (or_introl eq_refl) (repaired_mode_ok i Hm))|].
  apply H4; [apply le_n_S, PeanoNat.Nat.le_0_l | exact (repaired_mode_ok i Hm)].
Qed.
Print Assumptions C04_mdcpdp_padding_inert.

(* the row's run and admissibility do not depend on whether it is alone, nor on what batch row 0 does; masks never do *)
Theorem C04_mdcpdp_row_independent :
  forall (i : md_inst) (so : bool) (l0 : list Z) (acts : list nat),
    run (E:=MDCPDP exact repaired) (with_batch i so l0) acts = run (E:=MDCPDP exact repaired) i acts /\
    adm (E:=MDCPDP exact repaired) (with_batch i so l0) acts = adm (E:=MDCPDP exact repaired) i acts.
Proof. intros i so l0 acts. apply md_run_row_independent. reflexivity. Qed.
Print Assumptions C04_mdcpdp_row_independent.

Theorem C04_mdcpdp_mask_row_independent :
  forall (F : mdfix) (i : md_inst) (so : bool) (l0 : list Z) (s : md_st), md_mask F (with_batch i so l0) s = md_mask F i s.
Proof. exact md_mask_row_independent. Qed.
Print Assumptions C04_mdcpdp_mask_row_independent.

(* for any subset F of the repairs: masks/done under padding, and from the first padding step on the reward is the
   objective of the episode proper (this held for the unrepaired code too, on single-depot instances stepped alone) *)
Theorem C04_mdcpdp_padding_any_repair_set :
  forall (F : mdfix) (i : md_inst) (acts : list nat) (k : nat),
    md_wfb i = true -> md_good F i = true -> solo i || fx_leg F = true ->
    adm (E:=MDCPDP exact F) i acts = true ->
    (forall p q, acts = p ++ q -> q <> [] -> done (MDCPDP exact F) i (run (E:=MDCPDP exact F) i p) = false) ->
    done (MDCPDP exact F) i (run (E:=MDCPDP exact F) i acts) = true ->
    let e := depot (run (E:=MDCPDP exact F) i acts) in
    let pad := repeat e k in
    adm (E:=MDCPDP exact F) i (acts ++ pad) = true /\
    done (MDCPDP exact F) i (run (E:=MDCPDP exact F) i (acts ++ pad)) = true /\
    mask (MDCPDP exact F) i (run (E:=MDCPDP exact F) i (acts ++ pad)) = map (fun j => Nat.eqb j e) (seq 0 (ndep i + nloc i)) /\
    ((1 <= k)%nat -> md_mode_ok F i = true ->
     md_reward exact F i (run (E:=MDCPDP exact F) i (acts ++ pad)) = spec_objective i acts).
Proof. intros F i acts k Hwf Hg Hs. exact (md_padding F i Hwf Hg Hs acts k). Qed.
Print Assumptions C04_mdcpdp_padding_any_repair_set.

(* HISTORY ([as_is]): one padding step changed the reward (-7 -> -14) *)
Theorem C04_mdcpdp_refuted_padding :
  exists i acts, md_wfb i = true /\ md_good as_is i = true /\ adm (E:=MDCPDP exact as_is) i (acts ++ [0%nat]) = true /\ live as_is i acts /\
                 done (MDCPDP exact as_is) i (run (E:=MDCPDP exact as_is) i acts) = true /\
                 md_reward exact as_is i (run (E:=MDCPDP exact as_is) i acts) = Some (-7) /\
                 md_reward exact as_is i (run (E:=MDCPDP exact as_is) i (acts ++ [0%nat])) = Some (-14).
Proof. exact md_padding_refuted. Qed.
Print Assumptions C04_mdcpdp_refuted_padding.

(* HISTORY ([as_is]): the same row with the same actions got another reward next to another batch row 0 *)
Theorem C04_mdcpdp_refuted_row0_lengths :
  exists i l0 acts, md_wfb i = true /\ md_good as_is i = true /\
     md_reward exact as_is (with_batch i true []) (run (E:=MDCPDP exact as_is) (with_batch i true []) acts) = Some (-14) /\
     md_reward exact as_is (with_batch i false l0) (run (E:=MDCPDP exact as_is) (with_batch i false l0) acts) = Some (-300).
Proof. exact md_row_independent_refuted. Qed.
Print Assumptions C04_mdcpdp_refuted_row0_lengths.

Example C04_mdcpdp_nonvacuous :
  let i := with_batch (inst 1 2 [1] (line_dist [0; 3; 7]) 0) false [0; 100; 100; 100; 100] in
  let acts := [0; 1; 2]%nat in
  md_wfb i = true /\ adm (E:=MDCPDP exact repaired) i (acts ++ [0; 0]%nat) = true /\ liveb repaired i acts = true /\
  done (MDCPDP exact repaired) i (run (E:=MDCPDP exact repaired) i acts) = true /\
  md_reward exact repaired i (run (E:=MDCPDP exact repaired) i acts) = Some (-14) /\
  md_reward exact repaired i (run (E:=MDCPDP exact repaired) i (acts ++ [0; 0]%nat)) = Some (-14).
Proof. vm_compute. repeat split; reflexivity. Qed.
