(* C03 (unit sched) -- the reward FJSPEnv, JSSPEnv, FFSPEnv and SMTWTPEnv report is the objective of the executed solution:
   minus the makespan (= the latest completion time of the schedule the actions induce; the schedule is valid for the
   instance, so this IS the objective of a solution of the instance) resp. minus the total weighted tardiness.
   Only statements closed by [exact] and their Print Assumptions.  Models: Env/FJSP.v, Env/FFSP.v, Env/SMTWTP.v (one batch
   row, as coded); independent problem definitions: Spec/Schedule.v, Spec/FlowShop.v, SMTWTP.weighted_tardiness.
   [schedule_of s] / [FFSP.schedule_of i s] = the schedule a user reads off the final TensorDict; the model state [s] is a
   function of (instance, actions) only: [run cfg i (reset i) acts]. *)
From Coq Require Import ZArith List Bool Arith Permutation.
From RL4CO Require Import Base.FFSPLists Spec.Schedule Spec.FlowShop Env.FFSP Env.FFSPProofs Env.SMTWTP Env.SchedBatch2 Harness.HC07_ffsp.
From RL4CO Require Import Env.FJSP Env.FJSPProofs Env.SchedBatch Env.SchedStepwise.
Import ListNotations.
Open Scope nat_scope.

(* ================================================================ FJSP / JSSP *)
(* for every instance, both values of mask_no_ops and every mask-confined action list (waits and post-finish padding
   included) that ends done: reward = -mk where mk is the makespan of the induced schedule, and that schedule is a valid
   schedule of the instance (every real operation once, eligible machine, exact duration, job order, no machine overlap) *)
Theorem C03_fjsp_reward_is_minus_makespan :
  forall (cfg : bool) (i : inst) (acts : list nat),
    wfb i = true -> solvableb i = true -> admb cfg i (reset i) acts = true ->
    exists s : st, run cfg i (reset i) acts = Some s /\
      (done s = true ->
       exists mk : Z, reward i s = Some (- mk)%Z /\ valid_schedule (sinst_of i) (schedule_of s) mk).
Proof. exact FJSP_valid. Qed.
Print Assumptions C03_fjsp_reward_is_minus_makespan.

Theorem C03_jssp_reward_is_minus_makespan :
  forall (cfg : bool) (i : inst) (acts : list nat),
    wfb i = true -> jssp_wfb i = true -> jssp_admb cfg i (reset i) acts = true ->
    exists s : st, jssp_run cfg i (reset i) acts = Some s /\
      (done s = true ->
       exists mk : Z, reward i s = Some (- mk)%Z /\ valid_schedule (sinst_of i) (schedule_of s) mk).
Proof. exact JSSP_valid. Qed.
Print Assumptions C03_jssp_reward_is_minus_makespan.

(* "the" makespan: the latest completion time of a schedule is unique, so the theorem above pins the reward down *)
Theorem C03_makespan_unique :
  forall (es : list entry) (mk1 mk2 : Z), is_makespan es mk1 -> is_makespan es mk2 -> mk1 = mk2.
Proof. exact is_makespan_unique. Qed.
Print Assumptions C03_makespan_unique.

(* post-finish padding does not change the reward: the final state is the very same *)
Theorem C03_fjsp_reward_unchanged_by_padding :
  forall (cfg : bool) (i : inst) (acts pad : list nat) (s : st),
    run cfg i (reset i) acts = Some s -> done s = true ->
    run cfg i (reset i) (acts ++ pad) = Some s /\
    (admb cfg i (reset i) acts = true -> admb cfg i (reset i) (acts ++ repeat 0 (length pad)) = true).
Proof. exact fjsp_padding_inert_episode. Qed.
Print Assumptions C03_fjsp_reward_unchanged_by_padding.

(* the boolean evaluator the check runs on the induced schedule decides the specification *)
Theorem C03_valid_scheduleb_decides :
  forall (I : sinst) (es : list entry) (mk : Z), valid_scheduleb I es mk = true <-> valid_schedule I es mk.
Proof. exact valid_scheduleb_iff. Qed.
Print Assumptions C03_valid_scheduleb_decides.

(* ================================================================ FJSPEnv / JSSPEnv constructed with stepwise_reward = True *)
(* _step then stores the DENSE reward  td["reward"] = -(lbs.max(1) - td["lbs"].max(1)),  lbs = calc_lower_bound(td): minus the
   change of the largest lower bound on an operation's finish time.  The statement of C03 for this mode: for ANY potential
   LB : st -> Z on the states of the row model (the real one is calc_lower_bound's maximum; nothing about its shape is
   used), every instance, both values of mask_no_ops and every mask-confined action list (waits and post-finish padding
   included): [tr] being the states after each step,
       LB(reset) - (sum of the step rewards  -(LB tr_k - LB tr_(k-1)))  =  LB(final state),
   and when the row is finished and LB(final state) is the makespan mk of the (valid) induced schedule -- which is what
   calc_lower_bound's own assert says (LB = finish time of every scheduled operation) and what the correspondence checks
   on every run -- the initial lower bound minus the sum of the step rewards IS that makespan, i.e. minus the sparse reward. *)
Theorem C03_fjsp_stepwise_rewards_telescope_to_makespan :
  forall (LB : st -> Z) (cfg : bool) (i : inst) (acts : list nat),
    wfb i = true -> solvableb i = true -> admb cfg i (reset i) acts = true ->
    exists (tr : list st) (s : st),
      trace cfg i (reset i) acts = Some tr /\ length tr = length acts /\ last tr (reset i) = s /\
      run cfg i (reset i) acts = Some s /\
      (LB (reset i) - zsum (sw_rewards st LB (reset i) tr))%Z = LB s /\
      (done s = true ->
       exists mk : Z, reward i s = Some (- mk)%Z /\ valid_schedule (sinst_of i) (schedule_of s) mk /\
         (LB s = mk -> (LB (reset i) - zsum (sw_rewards st LB (reset i) tr))%Z = mk)).
Proof. exact fjsp_stepwise_telescopes. Qed.
Print Assumptions C03_fjsp_stepwise_rewards_telescope_to_makespan.

Theorem C03_jssp_stepwise_rewards_telescope_to_makespan :
  forall (LB : st -> Z) (cfg : bool) (i : inst) (acts : list nat),
    wfb i = true -> jssp_wfb i = true -> jssp_admb cfg i (reset i) acts = true ->
    exists (tr : list st) (s : st),
      jssp_trace cfg i (reset i) acts = Some tr /\ length tr = length acts /\ last tr (reset i) = s /\
      jssp_run cfg i (reset i) acts = Some s /\
      (LB (reset i) - zsum (sw_rewards st LB (reset i) tr))%Z = LB s /\
      (done s = true ->
       exists mk : Z, reward i s = Some (- mk)%Z /\ valid_schedule (sinst_of i) (schedule_of s) mk /\
         (LB s = mk -> (LB (reset i) - zsum (sw_rewards st LB (reset i) tr))%Z = mk)).
Proof. exact jssp_stepwise_telescopes. Qed.
Print Assumptions C03_jssp_stepwise_rewards_telescope_to_makespan.

(* the identity itself, for any state space and any potential: the rewards along s -> tr_1 -> tr_2 -> ... telescope *)
Theorem C03_stepwise_rewards_telescope :
  forall (State : Type) (LB : State -> Z) (tr : list State) (s : State),
    (LB s - zsum (sw_rewards State LB s tr))%Z = LB (last tr s).
Proof. exact sw_telescope. Qed.
Print Assumptions C03_stepwise_rewards_telescope.

(* post-finish padding steps earn reward 0 under any potential (a finished row is not changed by a step) *)
Theorem C03_fjsp_stepwise_padding_reward_zero :
  forall (LB : st -> Z) (cfg : bool) (i : inst) (s : st) (a : nat),
    done s = true -> exists s' : st, step cfg i s a = Some s' /\ sw_reward st LB s s' = 0%Z.
Proof. exact fjsp_stepwise_padding_reward_zero. Qed.
Print Assumptions C03_fjsp_stepwise_padding_reward_zero.

(* ================================================================ FFSP *)
(* the reward written once every row is done is minus the makespan of the row's (valid) flow-shop schedule *)
Theorem C03_ffsp_reward_is_minus_makespan :
  forall (i : FFSP.inst) (acts : list nat),
    FFSP.wfb i = true -> FFSP.adm i (FFSP.reset i) acts = true ->
    exists s, FFSP.run i (FFSP.reset i) acts = Some s /\
      (FFSP.done s = true ->
         FlowShop.valid (FFSP.nJ i) (FFSP.nS i) (FFSP.nM i) (FFSP.pt i) (FFSP.schedule_of i s) /\
         FlowShop.is_makespan (FFSP.nJ i) (FFSP.nS i) (FFSP.nM i) (FFSP.pt i) (FFSP.schedule_of i s)
                              (- FFSP.reward_of i s)).
Proof. exact FFSPProofs.FFSP_valid. Qed.
Print Assumptions C03_ffsp_reward_is_minus_makespan.

Theorem C03_ffsp_makespan_unique :
  forall (J S M : nat) (pt : nat -> nat -> Z) (sch : FlowShop.sched) (C1 C2 : Z),
    FlowShop.is_makespan J S M pt sch C1 -> FlowShop.is_makespan J S M pt sch C2 -> C1 = C2.
Proof. exact FlowShop.is_makespan_unique. Qed.
Print Assumptions C03_ffsp_makespan_unique.

(* the reward is written by the step that finishes the LAST row of the batch: for a row that finished earlier and has
   been padded with waits since, it is still the reward of the row's own finishing state *)
Theorem C03_ffsp_reward_unchanged_by_padding :
  forall (i : FFSP.inst), FFSP.wfb i = true -> forall (pad acts : list nat) (s : FFSP.st),
    FFSP.adm i (FFSP.reset i) (acts ++ pad) = true -> FFSP.run i (FFSP.reset i) acts = Some s -> FFSP.done s = true ->
    pad = repeat (FFSP.nJ i) (length pad) /\
    exists s', FFSP.run i (FFSP.reset i) (acts ++ pad) = Some s' /\ FFSP.done s' = true /\
      FFSP.schedule_of i s' = FFSP.schedule_of i s /\ FFSP.reward_of i s' = FFSP.reward_of i s.
Proof. exact ffsp_padding_frozen. Qed.
Print Assumptions C03_ffsp_reward_unchanged_by_padding.

(* the duration bound in wfb (d < 999999, the magnitude of the code's "empty" marker) is needed *)
Theorem C03_ffsp_reward_needs_duration_bound :
  FFSP.adm FFSPProofs.big_i (FFSP.reset FFSPProofs.big_i) [0] = true /\
  exists s, FFSP.run FFSPProofs.big_i (FFSP.reset FFSPProofs.big_i) [0] = Some s /\ FFSP.done s = true /\
    FFSP.schedule_of FFSPProofs.big_i s = [[Some 0%Z]; [None]] /\ FFSP.reward_of FFSPProofs.big_i s = (- 1000001)%Z /\
    FlowShop.is_makespan 1 1 2 (FFSP.pt FFSPProofs.big_i) (FFSP.schedule_of FFSPProofs.big_i s) 1%Z.
Proof. exact FFSPProofs.reward_needs_duration_bound. Qed.
Print Assumptions C03_ffsp_reward_needs_duration_bound.

Theorem C03_flowshop_evaluators_sound :
  forall (J S M : nat) (pt : nat -> nat -> Z) (sch : FlowShop.sched) (C : Z),
    FlowShop.is_makespanb J S M pt sch C = true -> FlowShop.is_makespan J S M pt sch C.
Proof. exact FlowShop.is_makespanb_sound. Qed.
Print Assumptions C03_flowshop_evaluators_sound.

(* ================================================================ SMTWTP *)
(* _get_reward (gather / cumsum / clamp / weight / sum / negate) = minus sum_k w(a_k) * max(0, C_k - d(a_k)), C_k the
   completion time of the k-th processed job -- for every action list *)
Theorem C03_smtwtp_reward_is_minus_weighted_tardiness :
  forall (i : SMTWTP.inst) (acts : list nat),
    SMTWTP.reward i acts = (- SMTWTP.weighted_tardiness i 0 acts)%Z.
Proof. exact SMTWTP.SMTWTP_reward. Qed.
Print Assumptions C03_smtwtp_reward_is_minus_weighted_tardiness.

(* ... and a completed mask-confined episode is a permutation of the jobs 1..n (a solution of the instance) *)
Theorem C03_smtwtp_episode_is_a_solution :
  forall (i : SMTWTP.inst) (acts : list nat),
    SMTWTP.wfb i = true -> SMTWTP.adm i (SMTWTP.reset i) acts = true ->
    exists s, SMTWTP.run i (SMTWTP.reset i) acts = Some s /\
      nth 0 (SMTWTP.mask s) false = false /\
      ~ In 0 acts /\ NoDup acts /\
      (SMTWTP.done s = true <-> length acts = SMTWTP.n_job i) /\
      (SMTWTP.done s = true -> Permutation acts (seq 1 (SMTWTP.n_job i))) /\
      (SMTWTP.done s = true -> forall a, nth a (SMTWTP.mask s) false = false).
Proof. exact SMTWTP.SMTWTP_perm. Qed.
Print Assumptions C03_smtwtp_episode_is_a_solution.

(* ================================================================ non-vacuity *)
Example C03_sched_nonvacuous :
  wfb ex_i = true /\ solvableb ex_i = true /\ admb true ex_i (reset ex_i) [1; 4; 2; 0] = true /\
  match run true ex_i (reset ex_i) [1; 4; 2; 0] with
  | Some s => done s = true /\ reward ex_i s = Some (-5)%Z /\ valid_scheduleb (sinst_of ex_i) (schedule_of s) 5%Z = true
  | None => False end /\
  FFSP.wfb FFSP.ex_i = true /\ FFSP.adm FFSP.ex_i (FFSP.reset FFSP.ex_i) FFSP.ex_acts = true /\
  match FFSP.run FFSP.ex_i (FFSP.reset FFSP.ex_i) FFSP.ex_acts with
  | Some s => FFSP.done s = true /\ FFSP.reward_of FFSP.ex_i s = (-6)%Z
  | None => False end /\
  SMTWTP.reward SMTWTP.ex_i [2; 3; 1] = (-9)%Z.
Proof. vm_compute. repeat split. Qed.

(* stepwise_reward = True: a concrete potential (finish time once scheduled, cheapest processing time before) on the example
   episode: lower bounds 3, 3, 3, 5, 5, step rewards 0, 0, -2, 0, and 3 - (-2) = 5 = the makespan = minus the sparse reward *)
Example C03_stepwise_nonvacuous :
  wfb ex_i = true /\ solvableb ex_i = true /\ admb true ex_i (reset ex_i) [1; 4; 2; 0] = true /\
  match trace true ex_i (reset ex_i) [1; 4; 2; 0] with
  | Some tr => map (ex_LB ex_i) (reset ex_i :: tr) = [3; 3; 3; 5; 5]%Z /\
               sw_rewards st (ex_LB ex_i) (reset ex_i) tr = [0; 0; -2; 0]%Z /\
               (ex_LB ex_i (reset ex_i) - zsum (sw_rewards st (ex_LB ex_i) (reset ex_i) tr))%Z = 5%Z /\
               reward ex_i (last tr (reset ex_i)) = Some (-5)%Z
  | None => False
  end.
Proof. exact stepwise_example. Qed.
