(* C03 (unit sched) -- the reward FJSPEnv, JSSPEnv, FFSPEnv and SMTWTPEnv report is the objective of the executed solution:
   minus the makespan (= the latest completion time of the schedule the actions induce; the schedule is valid for the
   instance, so this IS the objective of a solution of the instance) resp. minus the total weighted tardiness.
   Only statements closed by [exact] and their Print Assumptions.  Models: Env/FJSP.v, Env/FFSP.v, Env/SMTWTP.v (one batch
   row, as coded); independent problem definitions: Spec/Schedule.v, Spec/FlowShop.v, SMTWTP.weighted_tardiness.
   [schedule_of s] / [FFSP.schedule_of i s] = the schedule a user reads off the final TensorDict; the model state [s] is a
   function of (instance, actions) only: [run cfg i (reset i) acts]. *)
From Coq Require Import ZArith List Bool Arith Permutation.
From RL4CO Require Import Base.FFSPLists Spec.Schedule Spec.FlowShop Env.FFSP Env.FFSPProofs Env.SMTWTP Env.SchedBatch2 Harness.HC07_ffsp.
From RL4CO Require Import Env.FJSP Env.FJSPProofs Env.SchedBatch.
Import ListNotations.
Open Scope nat_scope.

(* ================================================================ FJSP / JSSP *)
(* for every instance, both values of mask_no_ops and every mask-confined action list (waits and post-finish padding
   included) that ends done: reward = -mk where mk is the makespan of the induced schedule, and that schedule is a valid
   schedule of the instance (every real operation once, eligible machine, exact duration, job order, no machine overlap) *)
Theorem C03_fjsp_reward_is_minus_makespan :
  forall (cfg : bool) (i : inst) (acts : list nat),
    wfb i = true -> solvableb i = true -> admb cfg i (reset i) acts = true ->
    exists s : st, run cfg i (reset i) acts = Some s /\
      (done s = true ->
       exists mk : Z, reward i s = Some (- mk)%Z /\ valid_schedule (sinst_of i) (schedule_of s) mk).
Proof. exact FJSP_valid. Qed.
Print Assumptions C03_fjsp_reward_is_minus_makespan.

Theorem C03_jssp_reward_is_minus_makespan :
  forall (cfg : bool) (i : inst) (acts : list nat),
    wfb i = true -> jssp_wfb i = true -> jssp_admb cfg i (reset i) acts = true ->
    exists s : st, jssp_run cfg i (reset i) acts = Some s /\
      (done s = true ->
       exists mk : Z, reward i s = Some (- mk)%Z /\ valid_schedule (sinst_of i) (schedule_of s) mk).
Proof. exact JSSP_valid. Qed.
Print Assumptions C03_jssp_reward_is_minus_makespan.

(* "the" makespan: the latest completion time of a schedule is unique, so the theorem above pins the reward down *)
Theorem C03_makespan_unique :
  forall (es : list entry) (mk1 mk2 : Z), is_makespan es mk1 -> is_makespan es mk2 -> mk1 = mk2.
Proof. exact is_makespan_unique. Qed.
Print Assumptions C03_makespan_unique.

(* post-finish padding does not change the reward: the final state is the very same *)
Theorem C03_fjsp_reward_unchanged_by_padding :
  forall (cfg : bool) (i : inst) (acts pad : list nat) (s : st),
    run cfg i (reset i) acts = Some s -> done s = true ->
    run cfg i (reset i) (acts ++ pad) = Some s /\
    (admb cfg i (reset i) acts = true -> admb cfg i (reset i) (acts ++ repeat 0 (length pad)) = true).
Proof. exact fjsp_padding_inert_episode. Qed.
Print Assumptions C03_fjsp_reward_unchanged_by_padding.

(* the boolean evaluator the check runs on the induced schedule decides the specification *)
Theorem C03_valid_scheduleb_decides :
  forall (I : sinst) (es : list entry) (mk : Z), valid_scheduleb I es mk = true <-> valid_schedule I es mk.
Proof. exact valid_scheduleb_iff. Qed.
Print Assumptions C03_valid_scheduleb_decides.

(* ================================================================ FFSP *)
(* the reward written once every row is done is minus the makespan of the row's (valid) flow-shop schedule *)
Theorem C03_ffsp_reward_is_minus_makespan :
  forall (i : FFSP.inst) (acts : list nat),
    FFSP.wfb i = true -> FFSP.adm i (FFSP.reset i) acts = true ->
    exists s, FFSP.run i (FFSP.reset i) acts = Some s /\
      (FFSP.done s = true ->
         FlowShop.valid (FFSP.nJ i) (FFSP.nS i) (FFSP.nM i) (FFSP.pt i) (FFSP.schedule_of i s) /\
         FlowShop.is_makespan (FFSP.nJ i) (FFSP.nS i) (FFSP.nM i) (FFSP.pt i) (FFSP.schedule_of i s)
                              (- FFSP.reward_of i s)).
Proof. exact FFSPProofs.FFSP_valid. Qed.
Print Assumptions C03_ffsp_reward_is_minus_makespan.

Theorem C03_ffsp_makespan_unique :
  forall (J S M : nat) (pt : nat -> nat -> Z) (sch : FlowShop.sched) (C1 C2 : Z),
    FlowShop.is_makespan J S M pt sch C1 -> FlowShop.is_makespan J S M pt sch C2 -> C1 = C2.
Proof. exact FlowShop.is_makespan_unique. Qed.
Print Assumptions C03_ffsp_makespan_unique.

(* the reward is written by the step that finishes the LAST row of the batch: for a row that finished earlier and has
   been padded with waits since, it is still the reward of the row's own finishing state *)
Theorem C03_ffsp_reward_unchanged_by_padding :
  forall (i : FFSP.inst), FFSP.wfb i = true -> forall (pad acts : list nat) (s : FFSP.st),
    FFSP.adm i (FFSP.reset i) (acts ++ pad) = true -> FFSP.run i (FFSP.reset i) acts = Some s -> FFSP.done s = true ->
    pad = repeat (FFSP.nJ i) (length pad) /\
    exists s', FFSP.run i (FFSP.reset i) (acts ++ pad) = Some s' /\ FFSP.done s' = true /\
      FFSP.schedule_of i s' = FFSP.schedule_of i s /\ FFSP.reward_of i s' = FFSP.reward_of i s.
Proof. exact ffsp_padding_frozen. Qed.
Print Assumptions C03_ffsp_reward_unchanged_by_padding.

(* the duration bound in wfb (d < 999999, the magnitude of the code's "empty" marker) is needed *)
Theorem C03_ffsp_reward_needs_duration_bound :
  FFSP.adm FFSPProofs.big_i (FFSP.reset FFSPProofs.big_i) [0] = true /\
  exists s, FFSP.run FFSPProofs.big_i (FFSP.reset FFSPProofs.big_i) [0] = Some s /\ FFSP.done s = true /\
    FFSP.schedule_of FFSPProofs.big_i s = [[Some 0%Z]; [None]] /\ FFSP.reward_of FFSPProofs.big_i s = (- 1000001)%Z /\
    FlowShop.is_makespan 1 1 2 (FFSP.pt FFSPProofs.big_i) (FFSP.schedule_of FFSPProofs.big_i s) 1%Z.
Proof. exact FFSPProofs.reward_needs_duration_bound. Qed.
Print Assumptions C03_ffsp_reward_needs_duration_bound.

Theorem C03_flowshop_evaluators_sound :
  forall (J S M : nat) (pt : nat -> nat -> Z) (sch : FlowShop.sched) (C : Z),
    FlowShop.is_makespanb J S M pt sch C = true -> FlowShop.is_makespan J S M pt sch C.
Proof. exact FlowShop.is_makespanb_sound. Qed.
Print Assumptions C03_flowshop_evaluators_sound.

(* ================================================================ SMTWTP *)
(* _get_reward (gather / cumsum / clamp / weight / sum / negate) = minus sum_k w(a_k) * max(0, C_k - d(a_k)), C_k the
   completion time of the k-th processed job -- for every action list *)
Theorem C03_smtwtp_reward_is_minus_weighted_tardiness :
  forall (i : SMTWTP.inst) (acts : list nat),
    SMTWTP.reward i acts = (- SMTWTP.weighted_tardiness i 0 acts)%Z.
Proof. exact SMTWTP.SMTWTP_reward. Qed.
Print Assumptions C03_smtwtp_reward_is_minus_weighted_tardiness.

(* ... and a completed mask-confined episode is a permutation of the jobs 1..n (a solution of the instance) *)
Theorem C03_smtwtp_episode_is_a_solution :
  forall (i : SMTWTP.inst) (acts : list nat),
    SMTWTP.wfb i = true -> SMTWTP.adm i (SMTWTP.reset i) acts = true ->
    exists s, SMTWTP.run i (SMTWTP.reset i) acts = Some s /\
      nth 0 (SMTWTP.mask s) false = false /\
      ~ In 0 acts /\ NoDup acts /\
      (SMTWTP.done s = true <-> length acts = SMTWTP.n_job i) /\
      (SMTWTP.done s = true -> Permutation acts (seq 1 (SMTWTP.n_job i))) /\
      (SMTWTP.done s = true -> forall a, nth a (SMTWTP.mask s) false = false).
Proof. exact SMTWTP.SMTWTP_perm. Qed.
Print Assumptions C03_smtwtp_episode_is_a_solution.

(* ================================================================ non-vacuity *)
Example C03_sched_nonvacuous :
  wfb ex_i = true /\ solvableb ex_i = true /\ admb true ex_i (reset ex_i) [1; 4; 2; 0] = true /\
  match run true ex_i (reset ex_i) [1; 4; 2; 0] with
  | Some s => done s = true /\ reward ex_i s = Some (-5)%Z /\ valid_scheduleb (sinst_of ex_i) (schedule_of s) 5%Z = true
  | None => False end /\
  FFSP.wfb FFSP.ex_i = true /\ FFSP.adm FFSP.ex_i (FFSP.reset FFSP.ex_i) FFSP.ex_acts = true /\
  match FFSP.run FFSP.ex_i (FFSP.reset FFSP.ex_i) FFSP.ex_acts with
  | Some s => FFSP.done s = true /\ FFSP.reward_of FFSP.ex_i s = (-6)%Z
  | None => False end /\
  SMTWTP.reward SMTWTP.ex_i [2; 3; 1] = (-9)%Z.
Proof. vm_compute. repeat split. Qed.
