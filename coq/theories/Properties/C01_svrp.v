(* C01 for SVRPEnv -- mask-confined episodes yield feasible solutions. Statements only.
   Model: Env/SVRP.v; [fx = false] is the code as it is, [fx = true] the repaired technician indexing (see there);
   the correspondence check runs the model at [fx := svrp_repaired].  This theorem holds for both. *)
From Coq Require Import ZArith List Bool.
From RL4CO Require Import Base.Num Base.EnvSig Spec.Routes Env.SVRP Env.SVRPProofs.
Import ListNotations.
Open Scope Z_scope.

(* For every instance in the documented format (m >= 1 technicians, n >= 1 customers, one cost factor per technician)
   and EVERY action list whose actions each lie in the mask of the state they are taken in, once the row reports done:
   every customer occurs exactly once, only existing nodes occur, and -- splitting the action list at the depot visits,
   the k-th segment being the route of technician k -- every non-empty route belongs to an existing technician
   (k < m) and every customer on it requires at most that technician's skill. *)
Theorem C01_svrp_mask_sound :
  forall (fx : bool) (i : svrp_inst) (acts : list nat),
    svrp_wf i ->
    adm (E:=SVRP fx) i acts = true ->
    done (SVRP fx) i (run (E:=SVRP fx) i acts) = true ->
    (forall j, (1 <= j <= sn_of i)%nat -> occ j acts = 1%nat) /\
    (forall a, In a acts -> (a <= sn_of i)%nat) /\
    routes_ok i 0 (routes acts).
Proof. exact svrp_mask_sound. Qed.
Print Assumptions C01_svrp_mask_sound.

(* non-vacuity, with a requirement equal to the technician's skill (customer 2: 5 <= 5) *)
Example C01_svrp_nonvacuous :
  let i := {| techs := [2; 5; 9]; skills := [2; 5; 6]; tcosts := [1; 2; 3]; sdist := [] |} in
  svrp_wfb i = true /\ adm (E:=SVRP false) i [1; 0; 2; 0; 3]%nat = true /\
  done (SVRP false) i (run (E:=SVRP false) i [1; 0; 2; 0; 3]%nat) = true /\
  adm (E:=SVRP false) i [1; 0; 3]%nat = false.
Proof. vm_compute. repeat split; reflexivity. Qed.
