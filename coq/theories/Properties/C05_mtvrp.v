(* C05 for MTVRP -- the mask never hides a feasible solution.  Full-strength statement for the code as it is ([<=] time
   comparisons since /repo 9b8ead8); the strict-slack statement and the boundary witnesses of the former strict mask are
   kept as history (recorded as fixed in known_findings.json). Statements only. *)
From Coq Require Import ZArith List Bool.
From RL4CO Require Import Base.Num Base.EnvSig Spec.Routes Spec.VRPFeatures Env.MTVRP Env.MTVRPProofs.
Import ListNotations.
Open Scope Z_scope.

(* THE THEOREM.  EVERY solution of the problem definition -- non-empty routes partitioning the customers 1..n, each with
   delivery load <= capacity and pickup load <= capacity, linehauls before backhauls, route length (way back included
   unless open) <= limit, every service started by the end of its window and (closed routes) the vehicle back by the
   depot's deadline; zero slack, EQUALITIES INCLUDED -- is reachable through the mask (R = true: the code as it is) in its
   canonical encoding (one depot visit after each route), the row is finished at its end, and decoding the encoding
   gives the same routes back.  Metric hypothesis (true of distances computed from coordinates): going straight home is
   not longer / slower than going home via another node. *)
Theorem C05_mtvrp_mask_complete :
  forall (i : mtvrp_inst) (rs : list (list nat)),
    mtvrp_wfb i = true -> mtvrp_metricb i = true ->
    rs <> [] -> Forall (fun r => r <> []) rs -> NoDup (concat rs) ->
    (forall x, In x (concat rs) <-> (1 <= x <= n_of i)%nat) ->
    Forall (fun r => route_ok (dlf i) (dbf i) (cap i) (dfun i) (tfun i) (lim i) (opn i) (lo i) (hi i) (sv i) 0 r = true) rs ->
    adm (E:=MTVRP exact true) i (enc_routes rs) = true /\
    done (MTVRP exact true) i (run (E:=MTVRP exact true) i (enc_routes rs)) = true /\
    routes (enc_routes rs) = rs ++ [[]].
Proof. exact mtvrp_mask_complete_repaired. Qed.
Print Assumptions C05_mtvrp_mask_complete.

(* the canonical encoding keeps the objective: the optimum over solutions is reachable *)
Theorem C05_mtvrp_encoding_keeps_objective :
  forall (i : mtvrp_inst) (rs : list (list nat)),
    dfun i 0%nat 0%nat = 0 -> Forall (fun r => Forall (fun x => x <> 0%nat) r) rs ->
    mtvrp_objective i (enc_routes rs) = - sumZ (map (route_cost (dfun i) (opn i)) rs).
Proof. exact mtvrp_encode_objective. Qed.
Print Assumptions C05_mtvrp_encoding_keeps_objective.

(* non-vacuity with every constraint kind met with equality somewhere: capacity filled exactly (32 + 32 = 64), route
   length exactly at the limit (16 + 16 = 32), and -- second instance -- arrival exactly when the window closes *)
Example C05_mtvrp_nonvacuous :
  let i := {| dl := [0; 32; 32; 0]; db := [0; 0; 0; 40]; cap := 64; lim := 32; opn := false;
              tlo := [0; 0; 10; 0]; thi := [200; 50; 60; 90]; svc := [0; 2; 2; 2];
              dist := [[0; 5; 9; 16]; [5; 0; 4; 11]; [9; 4; 0; 7]; [16; 11; 7; 0]];
              tt := [[0; 5; 9; 16]; [5; 0; 4; 11]; [9; 4; 0; 7]; [16; 11; 7; 0]] |} in
  mtvrp_wfb i = true /\ mtvrp_metricb i = true /\
  adm (E:=MTVRP exact true) i (enc_routes [[1; 2]; [3]]%nat) = true /\
  load (dlf i) [1; 2]%nat = cap i /\ route_cost (dfun i) (opn i) [3]%nat = lim i /\
  adm (E:=MTVRP exact true) tw_eq_inst (enc_routes [[1]]%nat) = true /\ tfun tw_eq_inst 0%nat 1%nat = hi tw_eq_inst 1%nat.
Proof. vm_compute. repeat split. Qed.

(* ------------------------------------------------------------------------------------------------------------------
   HISTORY: the former strict mask (R = false: [<] in can_reach_customer and can_reach_depot), repaired by /repo 9b8ead8
   and recorded as fixed in known_findings.json.  Kept so that the old behaviour is named precisely if it returns. *)

(* the strict mask was complete only for solutions with STRICT time slack *)
Theorem C05_mtvrp_mask_complete_strict :
  forall (i : mtvrp_inst) (rs : list (list nat)),
    mtvrp_wfb i = true -> mtvrp_metricb i = true ->
    rs <> [] -> Forall (fun r => r <> []) rs -> NoDup (concat rs) ->
    (forall x, In x (concat rs) <-> (1 <= x <= n_of i)%nat) ->
    Forall (fun r => load (dlf i) r <= cap i /\ load (dbf i) r <= cap i /\ prec_ok (dlf i) (dbf i) r = true /\
                     route_cost (dfun i) (opn i) r <= lim i /\
                     tw_strict (tfun i) (opn i) (lo i) (hi i) (sv i) 0%nat 0 r = true) rs ->
    adm (E:=MTVRP exact false) i (enc_routes rs) = true /\
    done (MTVRP exact false) i (run (E:=MTVRP exact false) i (enc_routes rs)) = true /\
    routes (enc_routes rs) = rs ++ [[]].
Proof. exact mtvrp_mask_complete_strict. Qed.
Print Assumptions C05_mtvrp_mask_complete_strict.

(* ... and not for more: one customer whose travel time from the depot equals the end of its window (80 = 0.625 * 128).
   The visit is feasible by the problem definition, the checker accepts it, the mask as it is admits it; the strict mask
   hid the customer at reset ... *)
Theorem C05_mtvrp_tw_equality_hidden_refuted :
  exists (i : mtvrp_inst) (rs : list (list nat)),
    mtvrp_wfb i = true /\ mtvrp_metricb i = true /\ mtvrp_solvableb true i = true /\
    mtvrp_feasible i (enc_routes rs) /\
    Forall (fun r => route_ok (dlf i) (dbf i) (cap i) (dfun i) (tfun i) (lim i) (opn i) (lo i) (hi i) (sv i) 0 r = true) rs /\
    mtvrp_checker exact i (enc_routes rs) = true /\
    adm (E:=MTVRP exact true) i (enc_routes rs) = true /\
    adm (E:=MTVRP exact false) i (enc_routes rs) = false /\
    mask (MTVRP exact false) i (reset (MTVRP exact false) i) = [true; false].
Proof. exact mtvrp_tw_equality_hidden_refuted. Qed.
Print Assumptions C05_mtvrp_tw_equality_hidden_refuted.

(* ... for ever: no mask-confined episode of the strict mask on that instance finished *)
Theorem C05_mtvrp_tw_equality_never_served :
  forall acts, adm (E:=MTVRP exact false) tw_eq_inst acts = true ->
               done (MTVRP exact false) tw_eq_inst (run (E:=MTVRP exact false) tw_eq_inst acts) = false.
Proof. exact mtvrp_tw_equality_never_served. Qed.
Print Assumptions C05_mtvrp_tw_equality_never_served.

(* same boundary at the second strict site (back at the depot exactly at the depot's deadline) *)
Theorem C05_mtvrp_depot_deadline_equality_hidden_refuted :
  exists (i : mtvrp_inst) (acts : list nat),
    mtvrp_wfb i = true /\ mtvrp_metricb i = true /\ mtvrp_feasible i acts /\ mtvrp_checker exact i acts = true /\
    adm (E:=MTVRP exact true) i acts = true /\
    mask (MTVRP exact false) i (reset (MTVRP exact false) i) = [true; false].
Proof. exact mtvrp_depot_deadline_equality_hidden_refuted. Qed.
Print Assumptions C05_mtvrp_depot_deadline_equality_hidden_refuted.
