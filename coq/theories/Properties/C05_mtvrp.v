(* C05 for MTVRP -- the mask never hides a feasible solution: true of the repaired mask, true of the shipped mask only
   for solutions with STRICT time slack; the boundary instance is exhibited. Statements only. *)
From Coq Require Import ZArith List Bool.
From RL4CO Require Import Base.Num Base.EnvSig Spec.Routes Spec.VRPFeatures Env.MTVRP Env.MTVRPProofs.
Import ListNotations.
Open Scope Z_scope.

(* SHIPPED CODE (R = false).  EVERY solution -- non-empty routes partitioning the customers 1..n, each with delivery
   load <= capacity and pickup load <= capacity (equality allowed), linehauls before backhauls, route length (way
   back included unless open) <= limit (equality allowed) -- whose service starts are all STRICTLY before the end of
   their windows and whose depot returns (closed routes) are STRICTLY before the depot's deadline, is reachable
   through the mask in its canonical encoding (one depot visit after each route), the row is finished at its end,
   and decoding the encoding gives the same routes back.  Metric hypothesis (true of distances computed from
   coordinates): going straight home is not longer / slower than going home via another node. *)
Theorem C05_mtvrp_mask_complete_strict :
  forall (i : mtvrp_inst) (rs : list (list nat)),
    mtvrp_wfb i = true -> mtvrp_metricb i = true ->
    rs <> [] -> Forall (fun r => r <> []) rs -> NoDup (concat rs) ->
    (forall x, In x (concat rs) <-> (1 <= x <= n_of i)%nat) ->
    Forall (fun r => load (dlf i) r <= cap i /\ load (dbf i) r <= cap i /\ prec_ok (dlf i) (dbf i) r = true /\
                     route_cost (dfun i) (opn i) r <= lim i /\
                     tw_strict (tfun i) (opn i) (lo i) (hi i) (sv i) 0%nat 0 r = true) rs ->
    adm (E:=MTVRP exact false) i (enc_routes rs) = true /\
    done (MTVRP exact false) i (run (E:=MTVRP exact false) i (enc_routes rs)) = true /\
    routes (enc_routes rs) = rs ++ [[]].
Proof. exact mtvrp_mask_complete_strict. Qed.
Print Assumptions C05_mtvrp_mask_complete_strict.

(* REPAIRED MASK (R = true: [<=] instead of [<] in can_reach_customer and can_reach_depot): the full-strength
   statement -- every solution of the problem definition (zero slack, equalities included) is reachable *)
Theorem C05_mtvrp_mask_complete_repaired :
  forall (i : mtvrp_inst) (rs : list (list nat)),
    mtvrp_wfb i = true -> mtvrp_metricb i = true ->
    rs <> [] -> Forall (fun r => r <> []) rs -> NoDup (concat rs) ->
    (forall x, In x (concat rs) <-> (1 <= x <= n_of i)%nat) ->
    Forall (fun r => route_ok (dlf i) (dbf i) (cap i) (dfun i) (tfun i) (lim i) (opn i) (lo i) (hi i) (sv i) 0 r = true) rs ->
    adm (E:=MTVRP exact true) i (enc_routes rs) = true /\
    done (MTVRP exact true) i (run (E:=MTVRP exact true) i (enc_routes rs)) = true /\
    routes (enc_routes rs) = rs ++ [[]].
Proof. exact mtvrp_mask_complete_repaired. Qed.
Print Assumptions C05_mtvrp_mask_complete_repaired.

(* the full-strength statement is FALSE of the shipped mask: one customer whose travel time from the depot equals the
   end of its window (80 = 0.625 * 128).  The visit is feasible by the problem definition, the shipped checker accepts
   it, the repaired mask admits it; the shipped mask hides the customer at reset ... *)
Theorem C05_mtvrp_tw_equality_hidden_refuted :
  exists (i : mtvrp_inst) (rs : list (list nat)),
    mtvrp_wfb i = true /\ mtvrp_metricb i = true /\ mtvrp_solvableb true i = true /\
    mtvrp_feasible i (enc_routes rs) /\
    Forall (fun r => route_ok (dlf i) (dbf i) (cap i) (dfun i) (tfun i) (lim i) (opn i) (lo i) (hi i) (sv i) 0 r = true) rs /\
    mtvrp_checker exact i (enc_routes rs) = true /\
    adm (E:=MTVRP exact true) i (enc_routes rs) = true /\
    adm (E:=MTVRP exact false) i (enc_routes rs) = false /\
    mask (MTVRP exact false) i (reset (MTVRP exact false) i) = [true; false].
Proof. exact mtvrp_tw_equality_hidden_refuted. Qed.
Print Assumptions C05_mtvrp_tw_equality_hidden_refuted.

(* ... and for ever: no mask-confined episode of the shipped code on that instance finishes *)
Theorem C05_mtvrp_tw_equality_never_served :
  forall acts, adm (E:=MTVRP exact false) tw_eq_inst acts = true ->
               done (MTVRP exact false) tw_eq_inst (run (E:=MTVRP exact false) tw_eq_inst acts) = false.
Proof. exact mtvrp_tw_equality_never_served. Qed.
Print Assumptions C05_mtvrp_tw_equality_never_served.

(* same boundary at the second strict site (back at the depot exactly at the depot's deadline) *)
Theorem C05_mtvrp_depot_deadline_equality_hidden_refuted :
  exists (i : mtvrp_inst) (acts : list nat),
    mtvrp_wfb i = true /\ mtvrp_metricb i = true /\ mtvrp_feasible i acts /\ mtvrp_checker exact i acts = true /\
    adm (E:=MTVRP exact true) i acts = true /\
    mask (MTVRP exact false) i (reset (MTVRP exact false) i) = [true; false].
Proof. exact mtvrp_depot_deadline_equality_hidden_refuted. Qed.
Print Assumptions C05_mtvrp_depot_deadline_equality_hidden_refuted.

(* the canonical encoding keeps the objective: the optimum over solutions is reachable wherever the solutions are *)
Theorem C05_mtvrp_encoding_keeps_objective :
  forall (i : mtvrp_inst) (rs : list (list nat)),
    dfun i 0%nat 0%nat = 0 -> Forall (fun r => Forall (fun x => x <> 0%nat) r) rs ->
    mtvrp_objective i (enc_routes rs) = - sumZ (map (route_cost (dfun i) (opn i)) rs).
Proof. exact mtvrp_encode_objective. Qed.
Print Assumptions C05_mtvrp_encoding_keeps_objective.

(* non-vacuity: capacity filled exactly (32 + 32 = 64), route length exactly at the limit (5 + 4 + 9 = 18),
   strict time slack *)
Example C05_mtvrp_nonvacuous :
  let i := {| dl := [0; 32; 32; 0]; db := [0; 0; 0; 40]; cap := 64; lim := 32; opn := false;
              tlo := [0; 0; 10; 0]; thi := [200; 50; 60; 90]; svc := [0; 2; 2; 2];
              dist := [[0; 5; 9; 16]; [5; 0; 4; 11]; [9; 4; 0; 7]; [16; 11; 7; 0]];
              tt := [[0; 5; 9; 16]; [5; 0; 4; 11]; [9; 4; 0; 7]; [16; 11; 7; 0]] |} in
  mtvrp_wfb i = true /\ mtvrp_metricb i = true /\
  adm (E:=MTVRP exact false) i (enc_routes [[1; 2]; [3]]%nat) = true /\
  load (dlf i) [1; 2]%nat = cap i /\ route_cost (dfun i) (opn i) [3]%nat = lim i /\
  tw_strict (tfun i) (opn i) (lo i) (hi i) (sv i) 0%nat 0 [1; 2]%nat = true.
Proof. vm_compute. repeat split. Qed.
