(* C05 (unit sched) -- SMTWTPEnv, FJSPEnv, JSSPEnv, FFSPEnv: does the mask hide a schedule that matters?
   Only statements closed by [exact] and their Print Assumptions.
   Models: Env/SMTWTP.v, Env/FJSP.v (cfg = mask_no_ops), Env/FFSP.v (C07's; one batch row, variable by variable).
   Specifications: SMTWTP: permutations of 1..n with total weighted tardiness; FJSP/JSSP: Spec/Schedule.v [valid_schedule]
   (every real operation exactly once on an eligible machine for its exact duration, job precedence, machine exclusivity,
   makespan = latest completion; ANY start times); FFSP: Spec/FlowShop.v.
   [admb cfg i (reset i) acts = true] = every action lies inside the mask of the state it is taken in;
   [run cfg i (reset i) acts = Some s] = no step raises and s is the state reached.
   Verdict: SMTWTP complete.  FJSP/JSSP with mask_no_ops = False: complete in the sense that matters (every valid schedule is
   dominated operation by operation by a reachable one; event-time schedules are reached exactly; the optimal makespan is
   reached).  FJSP/JSSP with the DEFAULT mask_no_ops = True and FFSP: the optimum is NOT always reachable (witnesses).
   All positive statements hold for every number of jobs, machines, operations. *)
From Coq Require Import ZArith List Bool Arith Permutation.
From RL4CO Require Import Base.FFSPLists Spec.Schedule Spec.FlowShop Env.FJSP Env.FJSPProofs Env.FFSP Env.SMTWTP
                          Env.SchedComplete Env.FJSPComplete.
Import ListNotations.
Open Scope nat_scope.

(* ================================================================ SMTWTP: all n! orders are reachable *)
Theorem C05_smtwtp_mask_complete :
  forall (i : SMTWTP.inst) (acts : list nat),
    SMTWTP.wfb i = true -> Permutation acts (seq 1 (SMTWTP.n_job i)) ->
    SMTWTP.adm i (SMTWTP.reset i) acts = true /\
    (exists s, SMTWTP.run i (SMTWTP.reset i) acts = Some s /\ SMTWTP.done s = true) /\
    (forall k s', k < length acts -> SMTWTP.run i (SMTWTP.reset i) (firstn k acts) = Some s' -> SMTWTP.done s' = false) /\
    SMTWTP.reward i acts = (- SMTWTP.weighted_tardiness i 0 acts)%Z.
Proof. exact SMTWTPComplete.smtwtp_mask_complete. Qed.
Print Assumptions C05_smtwtp_mask_complete.

(* ================================================================ FJSP, mask_no_ops = False *)
(* what is offered at a decision point, exactly: the pairs (job whose next operation is released and not in process, idle
   machine with positive processing time for it), and the wait action while some job is being processed *)
Theorem C05_fjsp_offers_exactly :
  forall (i : inst) (acts : list nat) (s : st),
    wfb i = true -> solvableb i = true ->
    admb false i (reset i) acts = true -> run false i (reset i) acts = Some s -> done s = false ->
    (forall j m, j < nJ i -> m < nM i ->
       (maskb false i s (S (j * nM i + m)) = true <->
        jdone s j = false /\ inp s j = false /\ (bu s m <= time s)%Z /\ (0 < P i m (nxt s j))%Z)) /\
    (maskb false i s 0 = true <-> exists j, j < nJ i /\ inp s j = true).
Proof. exact fjsp_offers_exactly_reachable. Qed.
Print Assumptions C05_fjsp_offers_exactly.

(* EVERY valid schedule [es] (any start times) is dominated by a reachable finished episode: same machine for every operation,
   every operation completes no later, so the makespan is not larger *)
Theorem C05_fjsp_dominating_reachable :
  forall (i : inst) (es : list entry) (mk : Z),
    wfb i = true -> valid_schedule (sinst_of i) es mk ->
    exists acts s', admb false i (reset i) acts = true /\ run false i (reset i) acts = Some s' /\ done s' = true /\
      (forall e, In e es -> asg s' (e_ma e) (e_op e) = true /\ (fin s' (e_op e) <= e_end e)%Z) /\
      exists mk', reward i s' = Some (- mk')%Z /\ (mk' <= mk)%Z.
Proof. exact fjsp_dominating_reachable. Qed.
Print Assumptions C05_fjsp_dominating_reachable.

(* the optimal makespan (least over all valid schedules) is the reward of a mask-confined finished episode *)
Theorem C05_fjsp_optimal_makespan_reached :
  forall (i : inst) (es : list entry) (opt : Z),
    wfb i = true -> valid_schedule (sinst_of i) es opt ->
    (forall es' mk', valid_schedule (sinst_of i) es' mk' -> (opt <= mk')%Z) ->
    exists acts s', admb false i (reset i) acts = true /\ run false i (reset i) acts = Some s' /\ done s' = true /\
      reward i s' = Some (- opt)%Z.
Proof. exact fjsp_optimal_makespan_reached. Qed.
Print Assumptions C05_fjsp_optimal_makespan_reached.

(* event-time schedules -- every operation starts at time 0 or at the completion time of some operation; this class contains
   the semi-active and the active schedules -- are reached EXACTLY: same machines, same start and completion times *)
Theorem C05_fjsp_mask_complete :
  forall (i : inst) (es : list entry) (mk : Z),
    wfb i = true -> valid_schedule (sinst_of i) es mk ->
    (forall e, In e es -> e_start e = 0%Z \/ exists e', In e' es /\ e_end e' = e_start e) ->
    exists acts s', admb false i (reset i) acts = true /\ run false i (reset i) acts = Some s' /\ done s' = true /\
      (forall e, In e es -> asg s' (e_ma e) (e_op e) = true /\ stt s' (e_op e) = e_start e /\ fin s' (e_op e) = e_end e) /\
      reward i s' = Some (- mk)%Z.
Proof. exact fjsp_mask_complete. Qed.
Print Assumptions C05_fjsp_mask_complete.

(* ================================================================ JSSP (one eligible machine per operation; actions = jobs), mask_no_ops = False *)
Theorem C05_jssp_dominating_reachable :
  forall (i : inst) (es : list entry) (mk : Z),
    wfb i = true -> jssp_wfb i = true -> valid_schedule (sinst_of i) es mk ->
    exists acts s', jssp_admb false i (reset i) acts = true /\ jssp_run false i (reset i) acts = Some s' /\ done s' = true /\
      (forall e, In e es -> asg s' (e_ma e) (e_op e) = true /\ (fin s' (e_op e) <= e_end e)%Z) /\
      exists mk', reward i s' = Some (- mk')%Z /\ (mk' <= mk)%Z.
Proof. exact jssp_dominating_reachable. Qed.
Print Assumptions C05_jssp_dominating_reachable.

Theorem C05_jssp_mask_complete :
  forall (i : inst) (es : list entry) (mk : Z),
    wfb i = true -> jssp_wfb i = true -> valid_schedule (sinst_of i) es mk ->
    (forall e, In e es -> e_start e = 0%Z \/ exists e', In e' es /\ e_end e' = e_start e) ->
    exists acts s', jssp_admb false i (reset i) acts = true /\ jssp_run false i (reset i) acts = Some s' /\ done s' = true /\
      (forall e, In e es -> asg s' (e_ma e) (e_op e) = true /\ stt s' (e_op e) = e_start e /\ fin s' (e_op e) = e_end e) /\
      reward i s' = Some (- mk)%Z.
Proof. exact jssp_mask_complete. Qed.
Print Assumptions C05_jssp_mask_complete.

(* ================================================================ the DEFAULT mask_no_ops = True: non-delay schedules only; C05 is FALSE there *)
(* witness A = (M0,10),(M1,1), B = (M1,1),(M0,1),(M1,10): every finished episode has makespan >= 21 (attained), a valid schedule
   with makespan 13 exists, and mask_no_ops = False reaches it *)
Theorem C05_jssp_nondelay_optimum_refuted :
  wfb NonDelay.nd_i = true /\ jssp_wfb NonDelay.nd_i = true /\
  valid_schedule (sinst_of NonDelay.nd_i) NonDelay.nd_opt 13%Z /\
  (forall acts s', jssp_admb true NonDelay.nd_i (reset NonDelay.nd_i) acts = true ->
     jssp_run true NonDelay.nd_i (reset NonDelay.nd_i) acts = Some s' -> done s' = true ->
     exists mk, reward NonDelay.nd_i s' = Some (- mk)%Z /\ (21 <= mk)%Z) /\
  (exists acts s', jssp_admb true NonDelay.nd_i (reset NonDelay.nd_i) acts = true /\
     jssp_run true NonDelay.nd_i (reset NonDelay.nd_i) acts = Some s' /\ done s' = true /\
     reward NonDelay.nd_i s' = Some (-21)%Z) /\
  (exists acts s', jssp_admb false NonDelay.nd_i (reset NonDelay.nd_i) acts = true /\
     jssp_run false NonDelay.nd_i (reset NonDelay.nd_i) acts = Some s' /\ done s' = true /\
     reward NonDelay.nd_i s' = Some (-13)%Z).
Proof. exact NonDelay.jssp_nondelay_optimum_refuted. Qed.
Print Assumptions C05_jssp_nondelay_optimum_refuted.

Theorem C05_fjsp_nondelay_optimum_refuted :
  wfb NonDelay.nd_i = true /\ solvableb NonDelay.nd_i = true /\
  valid_schedule (sinst_of NonDelay.nd_i) NonDelay.nd_opt 13%Z /\
  (forall acts s', admb true NonDelay.nd_i (reset NonDelay.nd_i) acts = true ->
     run true NonDelay.nd_i (reset NonDelay.nd_i) acts = Some s' -> done s' = true ->
     exists mk, reward NonDelay.nd_i s' = Some (- mk)%Z /\ (21 <= mk)%Z) /\
  (exists acts s', admb true NonDelay.nd_i (reset NonDelay.nd_i) acts = true /\
     run true NonDelay.nd_i (reset NonDelay.nd_i) acts = Some s' /\ done s' = true /\
     reward NonDelay.nd_i s' = Some (-21)%Z) /\
  (exists acts s', admb false NonDelay.nd_i (reset NonDelay.nd_i) acts = true /\
     run false NonDelay.nd_i (reset NonDelay.nd_i) acts = Some s' /\ done s' = true /\
     reward NonDelay.nd_i s' = Some (-13)%Z).
Proof. exact NonDelay.fjsp_nondelay_optimum_refuted. Qed.
Print Assumptions C05_fjsp_nondelay_optimum_refuted.

(* ================================================================ FFSP *)
(* what the mask offers, exactly *)
Theorem C05_ffsp_offers_exactly :
  forall (i : FFSP.inst) (acts : list nat) (s : FFSP.st),
    FFSP.wfb i = true -> FFSP.adm i (FFSP.reset i) acts = true -> FFSP.run i (FFSP.reset i) acts = Some s ->
    (forall j, j < FFSP.nJ i ->
       nth j (FFSP.mask s) false =
         ((FFSP.loc s j =? FFSP.stage_of i (FFSP.sub s)) && (FFSP.jw s j =? 0)%Z)) /\
    nth (FFSP.nJ i) (FFSP.mask s) false =
      (existsb (fun j => FFSP.loc s j <? FFSP.stage_of i (FFSP.sub s)) (seq 0 (FFSP.nJ i))
       || existsb (fun j => (FFSP.loc s j =? FFSP.stage_of i (FFSP.sub s)) && (0 <? FFSP.jw s j)%Z) (seq 0 (FFSP.nJ i))
       || FFSP.done s).
Proof. exact FFSPWait.ffsp_offers_exactly. Qed.
Print Assumptions C05_ffsp_offers_exactly.

(* the wait action is hidden when every job of the stage is ready, so a free machine must take one: 2 jobs, 1 stage, 2 machines,
   durations (1,3),(1,3): every complete episode has makespan 3 (wait not offered at reset), "both on machine 0" has makespan 2 *)
Theorem C05_ffsp_optimum_refuted :
  FFSP.wfb FFSPWait.fw_i = true /\
  FlowShop.validb 2 1 2 (FFSP.pt FFSPWait.fw_i) FFSPWait.fw_opt = true /\
  FlowShop.is_makespanb 2 1 2 (FFSP.pt FFSPWait.fw_i) FFSPWait.fw_opt 2 = true /\
  (forall acts s', FFSPWait.ffsp_episode FFSPWait.fw_i (FFSP.reset FFSPWait.fw_i) acts s' ->
     (FFSP.reward_of FFSPWait.fw_i s' <= -3)%Z) /\
  (exists acts s', FFSPWait.ffsp_episode FFSPWait.fw_i (FFSP.reset FFSPWait.fw_i) acts s' /\
     FFSP.reward_of FFSPWait.fw_i s' = (-3)%Z) /\
  nth 2 (FFSP.mask (FFSP.reset FFSPWait.fw_i)) true = false.
Proof. exact FFSPWait.ffsp_optimum_refuted. Qed.
Print Assumptions C05_ffsp_optimum_refuted.

(* ================================================================ non-vacuity *)
(* a valid event-time schedule of FJSP.ex_i, and a valid schedule that is NOT event-time (dominated, not reached) *)
Example C05_sched_nonvacuous :
  wfb ex_i = true /\ valid_schedule (sinst_of ex_i) cex_es 5%Z /\ event_time cex_es /\
  valid_schedule (sinst_of ex_i) cex_delayed 5%Z /\ ~ event_time cex_delayed.
Proof. exact complete_ex. Qed.
Example C05_smtwtp_nonvacuous :
  SMTWTP.wfb SMTWTP.ex_i = true /\ Permutation [3; 1; 2]%nat (seq 1 (SMTWTP.n_job SMTWTP.ex_i)) /\
  SMTWTP.adm SMTWTP.ex_i (SMTWTP.reset SMTWTP.ex_i) [3; 1; 2]%nat = true /\
  SMTWTP.reward SMTWTP.ex_i [3; 1; 2]%nat = (- SMTWTP.weighted_tardiness SMTWTP.ex_i 0 [3; 1; 2]%nat)%Z /\
  SMTWTP.reward SMTWTP.ex_i [3; 1; 2]%nat = (-9)%Z.
Proof. exact SMTWTPComplete.smtwtp_complete_ex. Qed.
