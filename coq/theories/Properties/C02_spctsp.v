(* C02 for SPCTSPEnv -- no dead ends, finished stays finished, step bound n + 1, no crash. Statements only.
   (The statements do not depend on which prize vector is in use: they hold for [stoch i] either way.) *)
From Coq Require Import ZArith List Bool.
From RL4CO Require Import Base.Num Base.EnvSig Spec.Routes Env.PCTSP Env.PCTSPProofs.
Import ListNotations.
Open Scope Z_scope.

(* every state reached through offered actions (finished or not) offers at least one action; no extra solvability
   condition is needed: the depot opens as soon as every customer is visited *)
Theorem C02_spctsp_no_dead_end :
  forall (i : pctsp_inst) (acts : list nat),
    pctsp_wf i -> adm (E:=PCTSP exact) i acts = true ->
    anyb (mask (PCTSP exact) i (run (E:=PCTSP exact) i acts)) = true.
Proof. exact pctsp_no_dead_end. Qed.
Print Assumptions C02_spctsp_no_dead_end.

Theorem C02_spctsp_done_stable :
  forall (i : pctsp_inst) (acts : list nat) (a : nat),
    pctsp_wf i -> adm (E:=PCTSP exact) i (acts ++ [a]) = true ->
    done (PCTSP exact) i (run (E:=PCTSP exact) i acts) = true ->
    done (PCTSP exact) i (run (E:=PCTSP exact) i (acts ++ [a])) = true.
Proof. exact pctsp_done_stable. Qed.
Print Assumptions C02_spctsp_done_stable.

(* an admitted action list none of whose proper prefixes is finished has at most n + 1 actions *)
Theorem C02_spctsp_bound :
  forall (i : pctsp_inst) (acts : list nat),
    pctsp_wf i -> adm (E:=PCTSP exact) i acts = true ->
    (forall p q, acts = p ++ q -> q <> [] -> done (PCTSP exact) i (run (E:=PCTSP exact) i p) = false) ->
    (length acts <= pn_of i + 1)%nat.
Proof. exact pctsp_bound. Qed.
Print Assumptions C02_spctsp_bound.

(* offered actions never index outside real_prize / penalty / visited *)
Theorem C02_spctsp_step_ok :
  forall (i : pctsp_inst) (acts : list nat) (a : nat),
    pctsp_wf i -> adm (E:=PCTSP exact) i acts = true ->
    offered (E:=PCTSP exact) i (run (E:=PCTSP exact) i acts) a = true ->
    stepok (PCTSP exact) i (run (E:=PCTSP exact) i acts) a = true.
Proof. exact pctsp_step_ok. Qed.
Print Assumptions C02_spctsp_step_ok.

(* non-vacuity: total prize below the requirement, so every customer is needed and the bound n + 1 is attained *)
Example C02_spctsp_nonvacuous :
  let i := {| dprize := [1; 1; 1]; sprize := [1; 1; 1]; stoch := true; pen := [3; 4; 5]; pdist := []; preq := 64; pthr := 63 |} in
  pctsp_wfb i = true /\ adm (E:=PCTSP exact) i [2; 3; 1; 0]%nat = true /\
  done (PCTSP exact) i (run (E:=PCTSP exact) i [2; 3; 1]%nat) = false /\
  done (PCTSP exact) i (run (E:=PCTSP exact) i [2; 3; 1; 0]%nat) = true /\
  mask (PCTSP exact) i (run (E:=PCTSP exact) i [2; 3]%nat) = [false; true; false; false].
Proof. vm_compute. auto. Qed.
