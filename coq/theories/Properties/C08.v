(* C08 -- selection environments pick exactly the quota of distinct, allowed items; the bookkeeping shown
   to the policy equals what follows from the selection made so far.
   This file contains only statements closed by [exact] and their Print Assumptions.
   Models: Env/FLP.v, Env/MCP.v, Env/DPP.v (one batch row each, written after the source variable by
   variable); shared induction: Env/Selection.v.  All theorems are unbounded: any number of items, any
   quota >= 1, any instance data, any mask-admitted selection order (induction over the action list).
   [*_run I (reset I) as_ = Some s] reads: starting from reset, every action of [as_] lay inside the action
   mask of the state it was taken in, no step raised, and [s] is the state reached. *)
From Coq Require Import ZArith List Bool Arith.
From RL4CO Require Import Env.Selection Env.FLP Env.MCP Env.DPP Env.SelectionStore.
Import ListNotations.
Open Scope Z_scope.

(* ================================================================ FLP *)
Theorem C08_flp_quota_distinct_in_range :
  forall (I : flp_inst) (as_ : list nat) (s : flp_st),
    flp_wf I ->
    flp_run I (flp_reset I) as_ = Some s ->
    f_done s = true ->
    (forall k s', (0 < k < length as_)%nat -> flp_run I (flp_reset I) (firstn k as_) = Some s' -> f_done s' = false) ->
    Z.of_nat (length as_) = f_q I /\ NoDup as_ /\ Forall (fun a => (a < f_n I)%nat) as_.
Proof. exact flp_sel_quota. Qed.
Print Assumptions C08_flp_quota_distinct_in_range.

Theorem C08_flp_done_exactly_from_quota_on :
  forall (I : flp_inst) (as_ : list nat) (s : flp_st),
    flp_wf I -> flp_run I (flp_reset I) as_ = Some s ->
    f_done s = negb (Nat.eqb (length as_) 0) && (f_q I <=? Z.of_nat (length as_)).
Proof. exact flp_done_iff. Qed.
Print Assumptions C08_flp_done_exactly_from_quota_on.

Theorem C08_flp_selection_distinct_mask_is_unchosen :
  forall (I : flp_inst) (as_ : list nat) (s : flp_st),
    flp_wf I -> flp_run I (flp_reset I) as_ = Some s ->
    NoDup as_ /\ Forall (fun a => (a < f_n I)%nat) as_ /\
    f_mask s = clear_all (repeat true (f_n I)) as_ /\ f_i s = Z.of_nat (length as_).
Proof. exact flp_distinct_in_range. Qed.
Print Assumptions C08_flp_selection_distinct_mask_is_unchosen.

Theorem C08_flp_masked_step_never_raises :
  forall (I : flp_inst) (as_ : list nat) (s : flp_st) (a : nat),
    flp_wf I -> flp_run I (flp_reset I) as_ = Some s -> nth a (f_mask s) false = true ->
    exists s', flp_step I s a = Some s'.
Proof. exact flp_progress. Qed.
Print Assumptions C08_flp_masked_step_never_raises.

Theorem C08_flp_no_dead_end :
  forall (I : flp_inst) (as_ : list nat) (s : flp_st),
    flp_wf I -> flp_run I (flp_reset I) as_ = Some s ->
    Z.of_nat (length as_) < f_q I -> f_q I <= Z.of_nat (f_n I) ->
    exists a, nth a (f_mask s) false = true.
Proof. exact flp_no_dead_end. Qed.
Print Assumptions C08_flp_no_dead_end.

Theorem C08_flp_every_partial_episode_completes :
  forall (I : flp_inst) (as_ : list nat) (s : flp_st),
    flp_wf I -> f_q I <= Z.of_nat (f_n I) ->
    flp_run I (flp_reset I) as_ = Some s -> Z.of_nat (length as_) <= f_q I ->
    exists ext s', flp_run I (flp_reset I) (as_ ++ ext) = Some s' /\ Z.of_nat (length (as_ ++ ext)) = f_q I.
Proof. exact flp_episode_completes. Qed.
Print Assumptions C08_flp_every_partial_episode_completes.

(* td["distances"] after any non-empty sequence of selections the code accepts (mask-confined or not):
   entry p is the least D[a][p] over the selected a; the reward is minus their sum *)
Theorem C08_flp_bookkeeping_distances_and_reward :
  forall (I : flp_inst) (as_ : list nat) (s : flp_st),
    flp_wf I -> flp_run_all I (flp_reset I) as_ = Some s -> as_ <> [] ->
    length (f_dist s) = f_n I /\
    (forall p, (p < f_n I)%nat ->
       (exists a, In a as_ /\ nth p (f_dist s) 0 = Dat I a p) /\
       (forall a, In a as_ -> nth p (f_dist s) 0 <= Dat I a p)) /\
    f_dist s = map (spec_mindist I as_) (seq 0 (f_n I)) /\
    flp_reward I s = Some (- sumZ (f_dist s)).
Proof. exact flp_bookkeeping. Qed.
Print Assumptions C08_flp_bookkeeping_distances_and_reward.

(* ================================================================ MCP *)
Theorem C08_mcp_quota_distinct_in_range :
  forall (I : mcp_inst) (as_ : list nat) (s : mcp_st),
    mcp_wf I ->
    mcp_run I (mcp_reset I) as_ = Some s ->
    m_done s = true ->
    (forall k s', (0 < k < length as_)%nat -> mcp_run I (mcp_reset I) (firstn k as_) = Some s' -> m_done s' = false) ->
    Z.of_nat (length as_) = m_q I /\ NoDup as_ /\ Forall (fun a => (a < length (m_mem I))%nat) as_.
Proof. exact mcp_sel_quota. Qed.
Print Assumptions C08_mcp_quota_distinct_in_range.

Theorem C08_mcp_done_exactly_from_quota_on :
  forall (I : mcp_inst) (as_ : list nat) (s : mcp_st),
    mcp_wf I -> mcp_run I (mcp_reset I) as_ = Some s ->
    m_done s = negb (Nat.eqb (length as_) 0) && (m_q I <=? Z.of_nat (length as_)).
Proof. exact mcp_done_iff. Qed.
Print Assumptions C08_mcp_done_exactly_from_quota_on.

Theorem C08_mcp_selection_distinct_mask_is_unchosen :
  forall (I : mcp_inst) (as_ : list nat) (s : mcp_st),
    mcp_wf I -> mcp_run I (mcp_reset I) as_ = Some s ->
    NoDup as_ /\ Forall (fun a => (a < length (m_mem I))%nat) as_ /\
    m_mask s = clear_all (repeat true (length (m_mem I))) as_ /\ m_i s = Z.of_nat (length as_).
Proof. exact mcp_distinct_in_range. Qed.
Print Assumptions C08_mcp_selection_distinct_mask_is_unchosen.

(* includes: no item id of a well-formed membership tensor ever indexes out of range *)
Theorem C08_mcp_masked_step_never_raises :
  forall (I : mcp_inst) (as_ : list nat) (s : mcp_st) (a : nat),
    mcp_wf I -> mcp_run I (mcp_reset I) as_ = Some s -> nth a (m_mask s) false = true ->
    exists s', mcp_step I s a = Some s'.
Proof. exact mcp_progress. Qed.
Print Assumptions C08_mcp_masked_step_never_raises.

Theorem C08_mcp_no_dead_end :
  forall (I : mcp_inst) (as_ : list nat) (s : mcp_st),
    mcp_wf I -> mcp_run I (mcp_reset I) as_ = Some s ->
    Z.of_nat (length as_) < m_q I -> m_q I <= Z.of_nat (length (m_mem I)) ->
    exists a, nth a (m_mask s) false = true.
Proof. exact mcp_no_dead_end. Qed.
Print Assumptions C08_mcp_no_dead_end.

Theorem C08_mcp_every_partial_episode_completes :
  forall (I : mcp_inst) (as_ : list nat) (s : mcp_st),
    mcp_wf I -> m_q I <= Z.of_nat (length (m_mem I)) ->
    mcp_run I (mcp_reset I) as_ = Some s -> Z.of_nat (length as_) <= m_q I ->
    exists ext s', mcp_run I (mcp_reset I) (as_ ++ ext) = Some s' /\ Z.of_nat (length (as_ ++ ext)) = m_q I.
Proof. exact mcp_episode_completes. Qed.
Print Assumptions C08_mcp_every_partial_episode_completes.

(* td["weights"], td["membership"], td["chosen"] after any sequence of selections the code accepts, and the
   final reward.  Item j (0-based position in the weight vector) has id j+1 in the 1-based, 0-padded
   membership tensor; [coveredb mem as_ j] = some selected set lists id j+1. *)
Theorem C08_mcp_bookkeeping_weights_membership_reward :
  forall (I : mcp_inst) (as_ : list nat) (s : mcp_st),
    mcp_wf I -> mcp_run_all I (mcp_reset I) as_ = Some s ->
    m_weights s = map (fun j => if coveredb (m_mem I) as_ j then 0 else nth j (m_w I) 0) (seq 0 (length (m_w I))) /\
    m_membership s = map (fun k => if memb k as_ then zero_row (nth k (m_mem I) []) else nth k (m_mem I) [])
                         (seq 0 (length (m_mem I))) /\
    (forall k, (k < length (m_mem I))%nat -> nth k (m_chosen s) false = memb k as_) /\
    mcp_reward I s =
      Some (sumZ (map (fun j => if coveredb (m_mem I) as_ j then nth j (m_w I) 0 else 0) (seq 0 (length (m_w I))))).
Proof. exact mcp_bookkeeping. Qed.
Print Assumptions C08_mcp_bookkeeping_weights_membership_reward.

Theorem C08_mcp_covered_means_listed_by_a_selected_set :
  forall (mem : list (list Z)) (as_ : list nat) (j : nat),
    coveredb mem as_ j = true <-> exists a, In a as_ /\ In (Z.of_nat (S j)) (nth a mem []).
Proof. exact coveredb_iff. Qed.
Print Assumptions C08_mcp_covered_means_listed_by_a_selected_set.

(* ================================================================ DPP *)
(* dpp_allowed I a  =  a is a cell of the grid, not a keep-out cell, not the probing port *)
Theorem C08_dpp_quota_distinct_never_keepout_never_probe :
  forall (I : dpp_inst) (as_ : list nat) (s : dpp_st),
    dpp_wf I ->
    dpp_run I (dpp_reset I) as_ = Some s ->
    d_done s = true ->
    (forall k s', (0 < k < length as_)%nat -> dpp_run I (dpp_reset I) (firstn k as_) = Some s' -> d_done s' = false) ->
    Z.of_nat (length as_) = d_q I /\ NoDup as_ /\
    Forall (fun a => (a < length (d_avail I))%nat /\ nth a (map negb (d_avail I)) false = false /\ a <> d_probe I) as_.
Proof. exact dpp_sel_quota. Qed.
Print Assumptions C08_dpp_quota_distinct_never_keepout_never_probe.

Theorem C08_dpp_done_exactly_from_quota_on :
  forall (I : dpp_inst) (as_ : list nat) (s : dpp_st),
    dpp_wf I -> dpp_run I (dpp_reset I) as_ = Some s ->
    d_done s = negb (Nat.eqb (length as_) 0) && (d_q I <=? Z.of_nat (length as_)).
Proof. exact dpp_done_iff. Qed.
Print Assumptions C08_dpp_done_exactly_from_quota_on.

Theorem C08_dpp_every_prefix_distinct_allowed_keepout_constant :
  forall (I : dpp_inst) (as_ : list nat) (s : dpp_st),
    dpp_wf I -> dpp_run I (dpp_reset I) as_ = Some s ->
    NoDup as_ /\ Forall (dpp_allowed I) as_ /\ d_keepout s = map negb (d_avail I) /\
    d_mask s = clear_all (d_avail I) as_ /\ d_i s = Z.of_nat (length as_).
Proof. exact dpp_distinct_allowed. Qed.
Print Assumptions C08_dpp_every_prefix_distinct_allowed_keepout_constant.

Theorem C08_dpp_masked_step_never_raises :
  forall (I : dpp_inst) (as_ : list nat) (s : dpp_st) (a : nat),
    dpp_wf I -> dpp_run I (dpp_reset I) as_ = Some s -> nth a (d_mask s) false = true ->
    exists s', dpp_step I s a = Some s'.
Proof. exact dpp_progress. Qed.
Print Assumptions C08_dpp_masked_step_never_raises.

Theorem C08_dpp_no_dead_end_when_quota_fits :
  forall (I : dpp_inst) (as_ : list nat) (s : dpp_st),
    dpp_wf I -> dpp_run I (dpp_reset I) as_ = Some s ->
    Z.of_nat (length as_) < d_q I -> d_q I <= Z.of_nat (count_true (d_avail I)) ->
    exists a, nth a (d_mask s) false = true.
Proof. exact dpp_no_dead_end. Qed.
Print Assumptions C08_dpp_no_dead_end_when_quota_fits.

(* ================================================================ MDPP *)
Theorem C08_mdpp_quota_distinct_never_keepout_never_probe :
  forall (I : mdpp_inst) (as_ : list nat) (s : dpp_st),
    mdpp_wf I ->
    mdpp_run I (mdpp_reset I) as_ = Some s ->
    d_done s = true ->
    (forall k s', (0 < k < length as_)%nat -> mdpp_run I (mdpp_reset I) (firstn k as_) = Some s' -> d_done s' = false) ->
    Z.of_nat (length as_) = md_q I /\ NoDup as_ /\
    Forall (fun a => (a < length (md_avail I))%nat /\ nth a (map negb (md_avail I)) false = false /\
                     nth a (md_probe I) false = false) as_.
Proof. exact mdpp_sel_quota. Qed.
Print Assumptions C08_mdpp_quota_distinct_never_keepout_never_probe.

Theorem C08_mdpp_done_exactly_from_quota_on :
  forall (I : mdpp_inst) (as_ : list nat) (s : dpp_st),
    mdpp_wf I -> mdpp_run I (mdpp_reset I) as_ = Some s ->
    d_done s = negb (Nat.eqb (length as_) 0) && (md_q I <=? Z.of_nat (length as_)).
Proof. exact mdpp_done_iff. Qed.
Print Assumptions C08_mdpp_done_exactly_from_quota_on.

Theorem C08_mdpp_every_prefix_distinct_allowed_keepout_constant :
  forall (I : mdpp_inst) (as_ : list nat) (s : dpp_st),
    mdpp_wf I -> mdpp_run I (mdpp_reset I) as_ = Some s ->
    NoDup as_ /\ Forall (mdpp_allowed I) as_ /\ d_keepout s = map negb (md_avail I) /\
    d_mask s = clear_all (mdpp_mask0 I) as_ /\ d_i s = Z.of_nat (length as_).
Proof. exact mdpp_distinct_allowed. Qed.
Print Assumptions C08_mdpp_every_prefix_distinct_allowed_keepout_constant.

Theorem C08_mdpp_masked_step_never_raises :
  forall (I : mdpp_inst) (as_ : list nat) (s : dpp_st) (a : nat),
    mdpp_wf I -> mdpp_run I (mdpp_reset I) as_ = Some s -> nth a (d_mask s) false = true ->
    exists s', mdpp_step I s a = Some s'.
Proof. exact mdpp_progress. Qed.
Print Assumptions C08_mdpp_masked_step_never_raises.

Theorem C08_mdpp_no_dead_end_when_quota_fits :
  forall (I : mdpp_inst) (as_ : list nat) (s : dpp_st),
    mdpp_wf I -> mdpp_run I (mdpp_reset I) as_ = Some s ->
    Z.of_nat (length as_) < md_q I -> md_q I <= Z.of_nat (count_true (mdpp_mask0 I)) ->
    exists a, nth a (d_mask s) false = true.
Proof. exact mdpp_no_dead_end. Qed.
Print Assumptions C08_mdpp_no_dead_end_when_quota_fits.

(* ================================================================ batches (FLP/MCP done is a B x B matrix) *)
Theorem C08_done_matrix_rows_are_rowwise_done_when_quotas_equal :
  forall (is_ qs : list Z) (q : Z),
    length is_ = length qs -> (forall q', In q' qs -> q' = q) ->
    forall r, (r < length qs)%nat -> nth r (done_bxb is_ qs) [] = done_rowwise is_ qs.
Proof. exact done_bxb_equal_quota. Qed.
Print Assumptions C08_done_matrix_rows_are_rowwise_done_when_quotas_equal.

Theorem C08_done_matrix_in_lockstep_says_all_rows_done :
  forall (is_ qs : list Z) (i : Z),
    (forall i', In i' is_ -> i' = i) -> is_ <> [] -> length is_ = length qs ->
    all_done (done_bxb is_ qs) = forallb (fun b => b) (done_rowwise is_ qs) /\
    forall r c, (r < length qs)%nat -> (c < length is_)%nat ->
      nth c (nth r (done_bxb is_ qs) []) false = nth r (done_rowwise is_ qs) false.
Proof. exact done_bxb_lockstep. Qed.
Print Assumptions C08_done_matrix_in_lockstep_says_all_rows_done.

(* ================================================================ refuted (findings; witnesses by vm_compute) *)
(* per-row quotas: the done matrix is not the row-wise vector ... *)
Theorem C08_done_matrix_per_row_quota_refuted :
  exists is_ qs, length is_ = length qs /\
    exists r, (r < length qs)%nat /\ nth r (done_bxb is_ qs) [] <> done_rowwise is_ qs.
Proof. exact done_bxb_refuted. Qed.
Print Assumptions C08_done_matrix_per_row_quota_refuted.

(* ... and, whatever the shape of done, a row whose quota is reached earlier than its batch-mates' has no
   inert action: rl4co's rollout loop (while not done.all()) makes it select past its quota. *)
Theorem C08_mcp_row_selects_past_quota_in_mixed_batch_refuted :
  exists Is steps ss m,
    Forall mcp_wf Is /\
    mcp_brun Is (map mcp_reset Is) (map (fun _ => [false]) Is) steps = Some (ss, m) /\ all_done m = true /\
    exists r I s, nth_error Is r = Some I /\ nth_error ss r = Some s /\
      Z.of_nat (count_true (m_chosen s)) <> m_q I /\
      exists s1, mcp_run I (mcp_reset I) (firstn 1 (map (fun acts => nth r acts 0%nat) steps)) = Some s1 /\
                 m_done s1 = true /\ mcp_reward I s1 <> mcp_reward I s.
Proof. exact mcp_batch_quota_refuted. Qed.
Print Assumptions C08_mcp_row_selects_past_quota_in_mixed_batch_refuted.

Theorem C08_flp_row_selects_past_quota_in_mixed_batch_refuted :
  exists Is steps ss m,
    Forall flp_wf Is /\
    flp_brun Is (map flp_reset Is) (map (fun _ => [false]) Is) steps = Some (ss, m) /\ all_done m = true /\
    exists r I s, nth_error Is r = Some I /\ nth_error ss r = Some s /\
      Z.of_nat (count_true (f_chosen s)) <> f_q I /\
      exists s1, flp_run I (flp_reset I) (firstn 1 (map (fun acts => nth r acts 0%nat) steps)) = Some s1 /\
                 f_done s1 = true /\ flp_reward I s1 <> flp_reward I s.
Proof. exact flp_batch_quota_refuted. Qed.
Print Assumptions C08_flp_row_selects_past_quota_in_mixed_batch_refuted.

(* The quota MDPPEnv / DPPEnv enforce is their own generator's max_decaps (for MDPP this holds since the repair
   recorded as fixed in known_findings.json; before it the env kept the default 20). *)
Theorem C08_mdpp_env_quota_is_generator_quota : forall g, mdpp_env_max_decaps g = g.
Proof. exact mdpp_env_quota_is_generator_quota. Qed.
Print Assumptions C08_mdpp_env_quota_is_generator_quota.

Theorem C08_dpp_env_quota_is_generator_quota : forall g, dpp_env_max_decaps g = g.
Proof. exact dpp_env_quota_is_generator_quota. Qed.
Print Assumptions C08_dpp_env_quota_is_generator_quota.

(* quota < 1 and quota > number of allowed items are outside the theorems for a reason *)
Theorem C08_flp_quota_zero_selects_one_refuted :
  exists I as_ s, f_q I = 0 /\ flp_run I (flp_reset I) as_ = Some s /\ f_done s = true /\ length as_ = 1%nat /\
                  f_done (flp_reset I) = false.
Proof. exact flp_quota_zero_refuted. Qed.
Print Assumptions C08_flp_quota_zero_selects_one_refuted.

Theorem C08_dpp_dead_end_when_quota_exceeds_allowed_cells :
  exists I as_ s, dpp_wf I /\ dpp_run I (dpp_reset I) as_ = Some s /\ d_done s = false /\
                  forallb negb (d_mask s) = true /\ Z.of_nat (count_true (d_avail I)) < d_q I.
Proof. exact dpp_dead_end_when_quota_exceeds_cells. Qed.
Print Assumptions C08_dpp_dead_end_when_quota_exceeds_allowed_cells.

(* ================================================================ episodes on one instance do not see each other *)
(* Store-level model (Env/SelectionStore.v): tensors are buffers in [heap h], the caller's own tensor is at
   address 0, every live episode holds a reference to its selection tensor (td["chosen"] for FLP/MCP,
   td["action_mask"] for DPP/MDPP) next to the rest of its state.  A schedule [evs] is any list of
   [EvReset same_container] (start another episode on the same instance; [true] = env.reset(td) on the caller's
   own TensorDict object, which torchrl updates in place) and [EvStep k a] (step episode k with action a): any
   number of episodes, one after the other or stepped alternately.  [*_store_run fresh clone]:
   fresh = _reset allocates the tensor (false: returns the one it is handed), clone = _step writes into a new
   tensor (false: scatters in place).  [acts_of k evs] = the actions addressed to episode k, in order.
   The theorems say: with the code's discipline every episode of every schedule is in the state the row model
   reaches on a fresh run of its own actions, its tensor read through the store is that state's tensor, and the
   caller's tensor is bit-identical -- i.e. reset is a function of the instance only and step of (instance,
   state, action) only.  This is the generic statement; the four instances follow. *)
Theorem C08_store_model_with_clone_discipline_refines_row_model :
  forall (inst st : Type) (get : st -> list bool) (reset : inst -> st) (reset_view : inst -> list bool -> st)
         (step : inst -> st -> nat -> option st) (v : bool) (finish : inst -> st -> nat -> list bool -> option st),
    (forall I s a, step I s a = if (length (get s) <=? a)%nat then None else finish I s a (set_nth a v (get s))) ->
    (forall I s a b s', finish I s a b = Some s' -> get s' = b) ->
    (forall I, reset_view I (get (reset I)) = reset I) ->
    forall (fresh : bool) (I : inst) (c0 : list bool) (evs : list ev),
      (fresh = false -> c0 = get (reset I) /\ no_same evs = true) ->
      option_map (fun h => map snd (eps h)) (h_run inst st get reset reset_view v finish fresh true I evs (h_init st c0))
        = f_run inst st reset step I evs [] /\
      forall h, h_run inst st get reset reset_view v finish fresh true I evs (h_init st c0) = Some h ->
        nth 0%nat (heap h) [] = c0 /\
        forall k r s, nth_error (eps h) k = Some (r, s) ->
          nth r (heap h) [] = get s /\ run_all (step I) (reset I) (acts_of k evs) = Some s.
Proof. exact sel_store_refines. Qed.
Print Assumptions C08_store_model_with_clone_discipline_refines_row_model.

(* FLP as coded (chosen: fresh zeros at reset, .clone() before the scatter), whatever the caller's td["chosen"] holds *)
Theorem C08_flp_repeated_and_interleaved_episodes_are_fresh_runs :
  forall (I : flp_inst) (c0 : list bool) (evs : list ev) (h : hstore flp_st),
    flp_store_run true true I evs (h_init flp_st c0) = Some h ->
    nth 0%nat (heap h) [] = c0 /\
    forall k r s, nth_error (eps h) k = Some (r, s) ->
      nth r (heap h) [] = f_chosen s /\ flp_run_all I (flp_reset I) (acts_of k evs) = Some s.
Proof. exact flp_store_refines. Qed.
Print Assumptions C08_flp_repeated_and_interleaved_episodes_are_fresh_runs.

Theorem C08_flp_store_model_raises_exactly_when_the_row_model_does :
  forall (I : flp_inst) (c0 : list bool) (evs : list ev),
    option_map (fun h => map snd (eps h)) (flp_store_run true true I evs (h_init flp_st c0)) =
    f_run flp_inst flp_st flp_reset flp_step I evs [].
Proof. exact flp_store_same_outcome. Qed.
Print Assumptions C08_flp_store_model_raises_exactly_when_the_row_model_does.

Theorem C08_mcp_repeated_and_interleaved_episodes_are_fresh_runs :
  forall (I : mcp_inst) (c0 : list bool) (evs : list ev) (h : hstore mcp_st),
    mcp_store_run true true I evs (h_init mcp_st c0) = Some h ->
    nth 0%nat (heap h) [] = c0 /\
    forall k r s, nth_error (eps h) k = Some (r, s) ->
      nth r (heap h) [] = m_chosen s /\ mcp_run_all I (mcp_reset I) (acts_of k evs) = Some s.
Proof. exact mcp_store_refines. Qed.
Print Assumptions C08_mcp_repeated_and_interleaved_episodes_are_fresh_runs.

(* DPP as coded: _reset keeps the caller's action_mask tensor, _step scatters out of place; every reset is handed
   a TensorDict whose action_mask entry is the caller's tensor ([no_same]: see the last refuted theorem) *)
Theorem C08_dpp_repeated_and_interleaved_episodes_are_fresh_runs :
  forall (I : dpp_inst) (evs : list ev) (h : hstore dpp_st),
    no_same evs = true ->
    dpp_store_run false true I evs (h_init dpp_st (d_avail I)) = Some h ->
    nth 0%nat (heap h) [] = d_avail I /\
    forall k r s, nth_error (eps h) k = Some (r, s) ->
      nth r (heap h) [] = d_mask s /\ run_all (dpp_step I) (dpp_reset I) (acts_of k evs) = Some s.
Proof. exact dpp_store_refines. Qed.
Print Assumptions C08_dpp_repeated_and_interleaved_episodes_are_fresh_runs.

Theorem C08_mdpp_repeated_and_interleaved_episodes_are_fresh_runs :
  forall (I : mdpp_inst) (c0 : list bool) (evs : list ev) (h : hstore dpp_st),
    mdpp_store_run true true I evs (h_init dpp_st c0) = Some h ->
    nth 0%nat (heap h) [] = c0 /\
    forall k r s, nth_error (eps h) k = Some (r, s) ->
      nth r (heap h) [] = d_mask s /\ run_all (mdpp_step I) (mdpp_reset I) (acts_of k evs) = Some s.
Proof. exact mdpp_store_refines. Qed.
Print Assumptions C08_mdpp_repeated_and_interleaved_episodes_are_fresh_runs.

(* the disciplines that do NOT refine (witnesses by vm_compute).  (1) _reset returns the caller's chosen tensor
   and _step scatters in place: the caller's tensor is mutated and the second episode on the instance, after its
   own quota of 2, holds 4 facilities *)
Theorem C08_flp_alias_reset_inplace_step_second_episode_refuted :
  exists I evs h, flp_wf I /\
    flp_store_run false false I evs (h_init flp_st (f_chosen (flp_reset I))) = Some h /\
    no_same evs = true /\
    nth 0%nat (heap h) [] <> f_chosen (flp_reset I) /\
    exists r s, nth_error (eps h) 1%nat = Some (r, s) /\
      flp_run_all I (flp_reset I) (acts_of 1%nat evs) <> Some s /\
      f_done s = true /\ Z.of_nat (count_true (nth r (heap h) [])) = 4 /\ f_q I = 2.
Proof. exact flp_alias_inplace_second_episode_refuted. Qed.
Print Assumptions C08_flp_alias_reset_inplace_step_second_episode_refuted.

(* (2) the same discipline, two rollouts stepped alternately: episode 1 took action 1 only and shows {1,3} *)
Theorem C08_flp_alias_reset_inplace_step_interleaved_refuted :
  exists I evs h, flp_wf I /\
    flp_store_run false false I evs (h_init flp_st (f_chosen (flp_reset I))) = Some h /\ no_same evs = true /\
    exists r s, nth_error (eps h) 1%nat = Some (r, s) /\
      acts_of 1%nat evs = [1%nat] /\ nth r (heap h) [] = [false; true; false; true] /\
      flp_run_all I (flp_reset I) (acts_of 1%nat evs) <> Some s.
Proof. exact flp_alias_inplace_interleaved_refuted. Qed.
Print Assumptions C08_flp_alias_reset_inplace_step_interleaved_refuted.

(* (3) _reset returning the tensor it is handed is already wrong when the second env.reset(td) is given the
   caller's own TensorDict object (no tensor is written twice; the container entry is the end of episode 0) *)
Theorem C08_flp_alias_reset_same_container_refuted :
  exists I evs h, flp_wf I /\
    flp_store_run false true I evs (h_init flp_st (f_chosen (flp_reset I))) = Some h /\
    nth 0%nat (heap h) [] = f_chosen (flp_reset I) /\
    exists r s, nth_error (eps h) 1%nat = Some (r, s) /\ acts_of 1%nat evs = [] /\ s <> flp_reset I.
Proof. exact flp_alias_reset_same_container_refuted. Qed.
Print Assumptions C08_flp_alias_reset_same_container_refuted.

(* (4) why [no_same] is a hypothesis for DPP: DPPEnv._reset takes the instance from the entry its own _step
   overwrites in the caller's TensorDict (torchrl's in-place reset contract; outside this property, recorded in
   the evidence as an out-of-scope observation) *)
Theorem C08_dpp_second_reset_of_the_same_tensordict_object_refuted :
  exists I evs h, dpp_wf I /\
    dpp_store_run false true I evs (h_init dpp_st (d_avail I)) = Some h /\
    nth 0%nat (heap h) [] = d_avail I /\
    exists r s, nth_error (eps h) 1%nat = Some (r, s) /\ acts_of 1%nat evs = [] /\ d_mask s <> d_mask (dpp_reset I).
Proof. exact dpp_same_container_second_reset_refuted. Qed.
Print Assumptions C08_dpp_second_reset_of_the_same_tensordict_object_refuted.

(* ================================================================ non-vacuity *)
Example C08_flp_nonvacuous :
  flp_wf flp_ex /\
  option_map (fun s => (f_dist s, f_done s, f_mask s)) (flp_run flp_ex (flp_reset flp_ex) [3%nat; 1%nat])
  = Some ([5; 0; 4; 0], true, [true; false; true; false]) /\
  option_map f_done (flp_run flp_ex (flp_reset flp_ex) [3%nat]) = Some false.
Proof. vm_compute. repeat split; reflexivity. Qed.
Example C08_mcp_nonvacuous :
  mcp_wf mcp_ex /\
  option_map (fun s => (m_weights s, m_done s)) (mcp_run mcp_ex (mcp_reset mcp_ex) [0%nat; 3%nat])
  = Some ([0; 20; 30; 40; 0; 0], true) /\
  option_map m_done (mcp_run mcp_ex (mcp_reset mcp_ex) [0%nat]) = Some false.
Proof. vm_compute. repeat split; reflexivity. Qed.
Example C08_dpp_nonvacuous :
  dpp_wf dpp_ex /\ option_map d_done (dpp_run dpp_ex (dpp_reset dpp_ex) [8; 0; 5]%nat) = Some true /\
  option_map d_done (dpp_run dpp_ex (dpp_reset dpp_ex) [8; 0]%nat) = Some false.
Proof. vm_compute. repeat split; reflexivity. Qed.
Example C08_mdpp_nonvacuous :
  mdpp_wf mdpp_ex /\ option_map d_done (mdpp_run mdpp_ex (mdpp_reset mdpp_ex) [6; 0]%nat) = Some true /\
  mdpp_run mdpp_ex (mdpp_reset mdpp_ex) [3]%nat = None.
Proof. vm_compute. repeat split; reflexivity. Qed.
Example C08_store_nonvacuous :
  option_map (fun h => (nth 0%nat (heap h) [], map (fun p => nth (fst p) (heap h) []) (eps h), map (fun p => f_done (snd p)) (eps h)))
             (flp_store_run true true flp_ex store_ex_evs (h_init flp_st [false; false; false; false]))
  = Some ([false; false; false; false],
          [[false; true; false; true]; [true; false; true; false]; [true; true; false; false]; [false; false; true; true]],
          [true; true; true; true]) /\
  acts_of 1%nat store_ex_evs = [0; 2]%nat /\ acts_of 3%nat store_ex_evs = [2; 3]%nat /\
  no_same [EvReset false; EvStep 0 8; EvReset false; EvStep 1 0; EvStep 0 0]%nat = true /\
  option_map (fun h => map (fun p => d_mask (snd p)) (eps h))
             (dpp_store_run false true dpp_ex [EvReset false; EvStep 0 8; EvReset false; EvStep 1 0; EvStep 0 0]%nat
                            (h_init dpp_st (d_avail dpp_ex)))
  = Some [[false; false; true; true; false; true; true; false; false];
          [false; false; true; true; false; true; true; false; true]].
Proof. vm_compute. repeat split; reflexivity. Qed.
