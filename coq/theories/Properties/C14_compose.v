(* C14 composed with C04 / C02 / C10 / C01 / C03 at the REAL CVRP environment model: inference is per-instance for
   the greedy policy over process_logits on CVRP.  This file contains only statements closed by [exact] and their
   Print Assumptions (plus Examples); definitions and proofs are in Compose/PolicyOnCVRP.v.

   Reading guide.
     CVRP exact : Env                 the CVRP model of Env/CVRP.v (exact arithmetic), tied to rl4co's CVRPEnv by C01-C06;
                                      rows of a batch are pairs (cvrp_inst * cvrp_st); node 0 is the depot.
     greedy_choose clip tmp top_p top_k logits mask = (a, p)
                                      DecodingStrategy.step of one row, greedy: pr = process_logits (the C10 model at
                                      logits Z, probabilities Qc, weights 2^z), a = greedy pr (first arg-max), p = pr[a].
     log-likelihood                   traj_ll 1 Qcmult : the PRODUCT of the step probabilities, an exact rational (log
                                      domain (Qc, 1, *, id) of Decoding/DecodeLoopInst.v; lg 1 = 0 reads 1 here).
     bpolicy (CVRP exact) benc bnet choose fuel is_ = (tr, fin)
                                      the batched loop of Decoding/Rowwise.v (ConstructivePolicy.forward, greedy) run on
                                      the PLAIN CVRP model from the reset rows of the instance list is_:
                                      tr = per step, the list over rows of (action, probability); fin = final rows.
     row_traj 1 r tr                  what the caller reads off for batch row r;  traj_actions / traj_ll of it.
     solo (CVRP exact) enc net choose fuel i
                                      the instance decoded ALONE (the loop of a batch of one: stop when finished).
     benc / enc, bnet / net           encoder and decoder of the neural network on whole batches, and their per-row
                                      readings.  THE ONLY HYPOTHESES LEFT are about them:
         benc is_ = map enc is_                                  the encoder is row-wise
         bnet hs rows = map2 net hs rows                         the decoder is row-wise -- required only on batches whose
                                                                 rows were reached from reset (by any action list) by
                                                                 instances with dfun i 0 0 = 0
         length (net h (i, run i acts)) = S (n_of i)             one logit per node (depot + customers)
       (that attention / normalisation / linear layers ARE row-wise is not proved: K3 assumption, differential test).
     instance hypotheses              dfun j 0 0 = 0 for every batch member (the depot-depot distance is zero, as for
                                      every distance matrix computed from coordinates): the hypothesis of C03/C04's
                                      reward statements.  cvrp_wfb is NOT needed for per-instance inference (it is
                                      needed for feasibility of the result, C14_greedy_batched_solution_on_cvrp).  No
                                      common-width hypothesis is needed: rows are decoded independently.

   How it is proved.  C14_policy_rowwise (Properties/C14.v) quantifies its three padding hypotheses over ALL rows and
   ALL action lists of the environment; for the plain CVRP model they are FALSE at junk states
   (C14_pad_hypotheses_at_junk_states_refuted below).  They hold in every state reached from reset: the visited vector
   keeps its length, so a finished state offers the depot only (C04), process_logits puts probability one on a single
   offered action (C10 pl_normalised + pl_support_masked) and greedy takes it, a step from a finished state leaves it
   finished (C02), and one more depot visit leaves the reward alone (C04, walk_len_pad).  So C14_policy_rowwise is
   instantiated at the environment [restrict (hist (CVRP exact)) (dfun i 0 0 =? 0)] of Compose/EnvRestrict.v (state =
   action history) and the result is transported back along a simulation (Compose/PolicyOnCVRP.v, Section Sim): the
   statements below speak about the plain model only.

   Round 2: OP, PCTSP (= SPCTSP, field [stoch]) and SDVRP (second half of this file; Compose/PolicyOnEnvs2.v).
     OP exact / PCTSP exact / SDVRP exact : Env     the models of Env/OP.v, Env/PCTSP.v, Env/SDVRP.v (SDVRP re-uses cvrp_inst
                                      and cvrp_reward); op_n / pn_of / n_of = number of customers; node 0 is the depot.
     instance hypotheses              op_wfb j = true (non-negative length limit and eps, zero depot-depot distance);
                                      pctsp_P j := pctsp_wfb j && (pdfun j 0 0 =? 0);  sdvrp_P j := cvrp_wfb j && (dfun j 0 0 =? 0):
                                      the hypotheses of C04_<env>_padding_inert, for every batch member.
     network hypotheses               as for CVRP (row-wise encoder, decoder row-wise on rows reached from reset by
                                      instances satisfying the instance hypothesis, one logit per node).
     extra conclusions                the solo and the batched action lists are INSIDE THE MASKS (adm ... = true).
   How it is proved.  For these environments the padding facts do NOT hold in every state reached from reset: they need
   the run to stay inside the masks (PCTSP: C14_pctsp_pad_at_nonadmitted_states_refuted -- a finished state with an EMPTY
   mask; SDVRP: the demand bookkeeping).  C14_policy_rowwise is therefore generalised by a row invariant that holds at
   reset and is kept by the policy's own steps (Compose/PolicyOnEnvs2.v, policy_rowwise_inv; C14_policy_rowwise is the
   case "True"), instantiated at [restrict (hist E) P] with the invariant "the history stayed inside the masks" -- kept
   by greedy because greedy over process_logits takes an offered action (C10 greedy_feasible) and these environments
   always offer one (C02_<env>_no_dead_end) -- with the padding hypotheses discharged from C04_<env>_padding_inert and
   C10 (single offered action => probability one), and transported back along the same simulation. *)
From Coq Require Import ZArith QArith Qcanon List Bool Arith.
From RL4CO Require Import Base.Num Base.OFieldQc Base.EnvSig Decoding.ProcessLogits Decoding.PLInst Decoding.Rowwise
                          Env.CVRP Env.CVRPProofs Env.OP Env.OPProofs Env.PCTSP Env.PCTSPProofs Env.SDVRP Env.SDVRPProofs
                          Compose.PolicyOnCVRP Compose.PolicyOnEnvs2.
Import ListNotations.
Local Open Scope nat_scope.

(* Instance i sits at position r of the batch is_ (any size, any batch-mates); the batch was decoded greedily to the
   end (every row finished within the fuel = max_steps).  Then row r's actions are the actions of i decoded ALONE
   followed by depot visits; reward and log-likelihood are those of i decoded alone. *)
Theorem C14_policy_rowwise_on_cvrp :
  forall (hidden : Type) (clip tmp : Z -> Z) (top_p : Qc) (top_k : nat)
         (benc : list cvrp_inst -> list hidden) (enc : cvrp_inst -> hidden)
         (bnet : list hidden -> list (cvrp_inst * cvrp_st) -> list (list Z))
         (net : hidden -> cvrp_inst * cvrp_st -> list Z),
    (* the network is row-wise and returns one logit per node *)
    (forall is_ : list cvrp_inst, benc is_ = map enc is_) ->
    (forall (hs : list hidden) (rows : list (cvrp_inst * cvrp_st)),
        length hs = length rows ->
        Forall (fun rw => dfun (fst rw) 0 0 = 0%Z /\ exists acts, snd rw = run (E:=CVRP exact) (fst rw) acts) rows ->
        bnet hs rows = Rowwise.map2 net hs rows) ->
    (forall (h : hidden) (i : cvrp_inst) (acts : list nat),
        dfun i 0 0 = 0%Z -> length (net h (i, run (E:=CVRP exact) i acts)) = S (n_of i)) ->
    forall (fuel : nat) (is_ : list cvrp_inst) (r : nat) (i : cvrp_inst)
           (tr : list (list (nat * Qc))) (fin : list (cvrp_inst * cvrp_st)),
      (forall j, In j is_ -> dfun j 0 0 = 0%Z) ->
      nth_error is_ r = Some i ->
      bpolicy (CVRP exact) benc bnet (greedy_choose clip tmp top_p top_k) fuel is_ = (tr, fin) ->
      all_done (CVRP exact) fin = true ->
      let batched := row_traj 1%Qc r tr in
      let alone := solo (CVRP exact) enc net (greedy_choose clip tmp top_p top_k) fuel i in
      exists k : nat,
        traj_actions batched = traj_actions alone ++ repeat 0 k /\
        cvrp_done i (run (E:=CVRP exact) i (traj_actions alone)) = true /\
        cvrp_reward i (traj_actions batched) = cvrp_reward i (traj_actions alone) /\
        traj_ll 1%Qc Qcmult batched = traj_ll 1%Qc Qcmult alone.
Proof. exact policy_rowwise_on_cvrp. Qed.
Print Assumptions C14_policy_rowwise_on_cvrp.

(* the same instance in two different batches (any sizes, any positions, any batch-mates): same reward, same
   log-likelihood, actions equal up to depot padding *)
Theorem C14_policy_batch_independent_on_cvrp :
  forall (hidden : Type) (clip tmp : Z -> Z) (top_p : Qc) (top_k : nat)
         (benc : list cvrp_inst -> list hidden) (enc : cvrp_inst -> hidden)
         (bnet : list hidden -> list (cvrp_inst * cvrp_st) -> list (list Z))
         (net : hidden -> cvrp_inst * cvrp_st -> list Z),
    (forall is_ : list cvrp_inst, benc is_ = map enc is_) ->
    (forall (hs : list hidden) (rows : list (cvrp_inst * cvrp_st)),
        length hs = length rows ->
        Forall (fun rw => dfun (fst rw) 0 0 = 0%Z /\ exists acts, snd rw = run (E:=CVRP exact) (fst rw) acts) rows ->
        bnet hs rows = Rowwise.map2 net hs rows) ->
    (forall (h : hidden) (i : cvrp_inst) (acts : list nat),
        dfun i 0 0 = 0%Z -> length (net h (i, run (E:=CVRP exact) i acts)) = S (n_of i)) ->
    forall (fuel : nat) (is1 is2 : list cvrp_inst) (r1 r2 : nat) (i : cvrp_inst)
           (tr1 : list (list (nat * Qc))) (fin1 : list (cvrp_inst * cvrp_st))
           (tr2 : list (list (nat * Qc))) (fin2 : list (cvrp_inst * cvrp_st)),
      (forall j, In j is1 -> dfun j 0 0 = 0%Z) -> (forall j, In j is2 -> dfun j 0 0 = 0%Z) ->
      nth_error is1 r1 = Some i -> nth_error is2 r2 = Some i ->
      bpolicy (CVRP exact) benc bnet (greedy_choose clip tmp top_p top_k) fuel is1 = (tr1, fin1) ->
      all_done (CVRP exact) fin1 = true ->
      bpolicy (CVRP exact) benc bnet (greedy_choose clip tmp top_p top_k) fuel is2 = (tr2, fin2) ->
      all_done (CVRP exact) fin2 = true ->
      let t1 := row_traj 1%Qc r1 tr1 in let t2 := row_traj 1%Qc r2 tr2 in
      cvrp_reward i (traj_actions t1) = cvrp_reward i (traj_actions t2) /\
      traj_ll 1%Qc Qcmult t1 = traj_ll 1%Qc Qcmult t2 /\
      exists (common : list nat) (k1 k2 : nat),
        traj_actions t1 = common ++ repeat 0 k1 /\ traj_actions t2 = common ++ repeat 0 k2 /\
        cvrp_done i (run (E:=CVRP exact) i common) = true.
Proof. exact policy_batch_independent_on_cvrp. Qed.
Print Assumptions C14_policy_batch_independent_on_cvrp.

(* the loop run on the batch [i] (batch size 1) IS the solo reference *)
Theorem C14_batch_of_one_is_solo_on_cvrp :
  forall (hidden : Type) (clip tmp : Z -> Z) (top_p : Qc) (top_k : nat)
         (benc : list cvrp_inst -> list hidden) (enc : cvrp_inst -> hidden)
         (bnet : list hidden -> list (cvrp_inst * cvrp_st) -> list (list Z))
         (net : hidden -> cvrp_inst * cvrp_st -> list Z),
    (forall is_ : list cvrp_inst, benc is_ = map enc is_) ->
    (forall (hs : list hidden) (rows : list (cvrp_inst * cvrp_st)),
        length hs = length rows ->
        Forall (fun rw => dfun (fst rw) 0 0 = 0%Z /\ exists acts, snd rw = run (E:=CVRP exact) (fst rw) acts) rows ->
        bnet hs rows = Rowwise.map2 net hs rows) ->
    forall (fuel : nat) (i : cvrp_inst) (tr : list (list (nat * Qc))) (fin : list (cvrp_inst * cvrp_st)),
      dfun i 0 0 = 0%Z ->
      bpolicy (CVRP exact) benc bnet (greedy_choose clip tmp top_p top_k) fuel [i] = (tr, fin) ->
      row_traj 1%Qc 0 tr = solo (CVRP exact) enc net (greedy_choose clip tmp top_p top_k) fuel i.
Proof. exact batch_of_one_is_solo_on_cvrp. Qed.
Print Assumptions C14_batch_of_one_is_solo_on_cvrp.

(* End to end (C14 x C10 x C02 x C04 x C01 x C03): in ANY batch, what the greedy policy returns for a well-formed
   instance -- padding included -- is an action list inside the masks (C10 greedy_feasible: greedy takes an offered
   action; the CVRP mask always offers one), finished, a FEASIBLE CVRP solution by the independent specification
   (C01 cvrp_mask_sound via C04 cvrp_padding_inert), and its reward is minus the total route length (C03) of the
   solution found when the instance is decoded alone. *)
Theorem C14_greedy_batched_solution_on_cvrp :
  forall (hidden : Type) (clip tmp : Z -> Z) (top_p : Qc) (top_k : nat)
         (benc : list cvrp_inst -> list hidden) (enc : cvrp_inst -> hidden)
         (bnet : list hidden -> list (cvrp_inst * cvrp_st) -> list (list Z))
         (net : hidden -> cvrp_inst * cvrp_st -> list Z),
    (forall is_ : list cvrp_inst, benc is_ = map enc is_) ->
    (forall (hs : list hidden) (rows : list (cvrp_inst * cvrp_st)),
        length hs = length rows ->
        Forall (fun rw => dfun (fst rw) 0 0 = 0%Z /\ exists acts, snd rw = run (E:=CVRP exact) (fst rw) acts) rows ->
        bnet hs rows = Rowwise.map2 net hs rows) ->
    (forall (h : hidden) (i : cvrp_inst) (acts : list nat),
        dfun i 0 0 = 0%Z -> length (net h (i, run (E:=CVRP exact) i acts)) = S (n_of i)) ->
    forall (fuel : nat) (is_ : list cvrp_inst) (r : nat) (i : cvrp_inst)
           (tr : list (list (nat * Qc))) (fin : list (cvrp_inst * cvrp_st)),
      (forall j, In j is_ -> dfun j 0 0 = 0%Z) -> cvrp_wfb i = true ->
      nth_error is_ r = Some i ->
      bpolicy (CVRP exact) benc bnet (greedy_choose clip tmp top_p top_k) fuel is_ = (tr, fin) ->
      all_done (CVRP exact) fin = true ->
      let acts := traj_actions (row_traj 1%Qc r tr) in
      adm (E:=CVRP exact) i acts = true /\
      cvrp_done i (run (E:=CVRP exact) i acts) = true /\
      cvrp_feasible i acts /\
      cvrp_reward i acts
        = cvrp_objective i (traj_actions (solo (CVRP exact) enc net (greedy_choose clip tmp top_p top_k) fuel i)).
Proof. exact greedy_batched_solution_on_cvrp. Qed.
Print Assumptions C14_greedy_batched_solution_on_cvrp.

(* why C14_policy_rowwise cannot be instantiated at the plain model directly: its hypotheses pad_lp / pad_done range
   over junk states.  A state whose visited vector is empty is "done", yet offers both customers and not the depot;
   the action chosen there has probability 1/2, not 1 (well-formed instance, zero depot-depot distance) *)
Theorem C14_pad_hypotheses_at_junk_states_refuted :
  exists (i : cvrp_inst) (s : cvrp_st),
    cvrp_wfb i = true /\ dfun i 0 0 = 0%Z /\
    rdone (CVRP exact) (i, s) = true /\ rmask (CVRP exact) (i, s) = [false; true; true] /\
    snd (pick (CVRP exact) (fun (_ : unit) _ => [0; 0; 0]%Z) (greedy_choose (fun z => z) (fun z => z) 0%Qc 0) tt (i, s))
      <> 1%Qc.
Proof. exact junk_state_refutes_pad. Qed.
Print Assumptions C14_pad_hypotheses_at_junk_states_refuted.

(* all hypotheses of C14_policy_rowwise_on_cvrp are satisfiable together: a closed instance (state-dependent integer
   logits Ex.net, encoder Ex.enc; see Compose/PolicyOnCVRP.v, Module Ex) *)
Theorem C14_ex_policy_rowwise_on_cvrp :
  forall (fuel : nat) (is_ : list cvrp_inst) (r : nat) (i : cvrp_inst)
         (tr : list (list (nat * Qc))) (fin : list (cvrp_inst * cvrp_st)),
    (forall j, In j is_ -> dfun j 0 0 = 0%Z) ->
    nth_error is_ r = Some i ->
    bpolicy (CVRP exact) Ex.benc Ex.bnet Ex.gc fuel is_ = (tr, fin) -> all_done (CVRP exact) fin = true ->
    let batched := row_traj 1%Qc r tr in
    let alone := solo (CVRP exact) Ex.enc Ex.rnet Ex.gc fuel i in
    exists k : nat,
      traj_actions batched = traj_actions alone ++ repeat 0 k /\
      cvrp_done i (run (E:=CVRP exact) i (traj_actions alone)) = true /\
      cvrp_reward i (traj_actions batched) = cvrp_reward i (traj_actions alone) /\
      traj_ll 1%Qc Qcmult batched = traj_ll 1%Qc Qcmult alone.
Proof. exact Ex.ex_policy_rowwise_on_cvrp. Qed.
Print Assumptions C14_ex_policy_rowwise_on_cvrp.

(* ------------------------------------------------------------------ examples (by computation) *)
(* two well-formed instances of the same width whose solutions have different lengths *)
Example C14_ex_instances :
  cvrp_wfb Ex.i1 = true /\ cvrp_wfb Ex.i2 = true /\ dfun Ex.i1 0 0 = 0%Z /\ dfun Ex.i2 0 0 = 0%Z /\ n_of Ex.i1 = n_of Ex.i2.
Proof. exact Ex.instances_wf. Qed.
(* i1 decoded alone: three customers and the depot ... *)
Example C14_ex_alone :
  Ex.rview 0 (fst (bpolicy (CVRP exact) Ex.benc Ex.bnet Ex.gc 20 [Ex.i1]))
  = [(3, (4 # 7)%Q); (1, (8 # 17)%Q); (2, (4 # 5)%Q); (0, 1%Q)].
Proof. exact Ex.cvrp_alone. Qed.
(* ... and at position 0 of the batch [i1; i2]: the same steps, then one depot visit of probability 1 while row 1
   (three routes, five steps) finishes *)
Example C14_ex_in_batch :
  Ex.rview 0 (fst (bpolicy (CVRP exact) Ex.benc Ex.bnet Ex.gc 20 [Ex.i1; Ex.i2]))
    = [(3, (4 # 7)%Q); (1, (8 # 17)%Q); (2, (4 # 5)%Q); (0, 1%Q); (0, 1%Q)] /\
  Ex.rview 1 (fst (bpolicy (CVRP exact) Ex.benc Ex.bnet Ex.gc 20 [Ex.i1; Ex.i2]))
    = [(3, (4 # 7)%Q); (0, 1%Q); (2, (2 # 3)%Q); (0, 1%Q); (1, 1%Q)] /\
  all_done (CVRP exact) (snd (bpolicy (CVRP exact) Ex.benc Ex.bnet Ex.gc 20 [Ex.i1; Ex.i2])) = true.
Proof. exact Ex.cvrp_in_batch. Qed.

(* ==================================================================================================================
   Round 2: OP, PCTSP, SDVRP (see the second half of the reading guide) *)

(* ------------------------------------------------------------------ OP *)
(* per-instance inference on OP: row r's actions are those of i decoded alone followed by depot visits, both
   inside the masks; reward and log-likelihood are those of i decoded alone *)
Theorem C14_policy_rowwise_on_op :
  forall (hidden : Type) (clip tmp : Z -> Z) (top_p : Qc) (top_k : nat)
         (benc : list op_inst -> list hidden) (enc : op_inst -> hidden)
         (bnet : list hidden -> list (op_inst * op_st) -> list (list Z))
         (net : hidden -> op_inst * op_st -> list Z),
    (forall is_ : list op_inst, benc is_ = map enc is_) ->
    (forall (hs : list hidden) (rows : list (op_inst * op_st)),
        length hs = length rows ->
        Forall (fun rw => op_wfb (fst rw) = true /\ exists acts, snd rw = run (E:=OP exact) (fst rw) acts) rows ->
        bnet hs rows = Rowwise.map2 net hs rows) ->
    (forall (h : hidden) (i : op_inst) (acts : list nat),
        op_wfb i = true -> length (net h (i, run (E:=OP exact) i acts)) = S (op_n i)) ->
    forall (fuel : nat) (is_ : list op_inst) (r : nat) (i : op_inst)
           (tr : list (list (nat * Qc))) (fin : list (op_inst * op_st)),
      (forall j, In j is_ -> op_wfb j = true) ->
      nth_error is_ r = Some i ->
      bpolicy (OP exact) benc bnet (greedy_choose clip tmp top_p top_k) fuel is_ = (tr, fin) ->
      all_done (OP exact) fin = true ->
      let batched := row_traj 1%Qc r tr in
      let alone := solo (OP exact) enc net (greedy_choose clip tmp top_p top_k) fuel i in
      exists k : nat,
        traj_actions batched = traj_actions alone ++ repeat 0 k /\
        done (OP exact) i (run (E:=OP exact) i (traj_actions alone)) = true /\
        adm (E:=OP exact) i (traj_actions alone) = true /\ adm (E:=OP exact) i (traj_actions batched) = true /\
        op_reward i (traj_actions batched) = op_reward i (traj_actions alone) /\
        traj_ll 1%Qc Qcmult batched = traj_ll 1%Qc Qcmult alone.
Proof. exact policy_rowwise_on_op. Qed.
Print Assumptions C14_policy_rowwise_on_op.

Theorem C14_policy_batch_independent_on_op :
  forall (hidden : Type) (clip tmp : Z -> Z) (top_p : Qc) (top_k : nat)
         (benc : list op_inst -> list hidden) (enc : op_inst -> hidden)
         (bnet : list hidden -> list (op_inst * op_st) -> list (list Z))
         (net : hidden -> op_inst * op_st -> list Z),
    (forall is_ : list op_inst, benc is_ = map enc is_) ->
    (forall (hs : list hidden) (rows : list (op_inst * op_st)),
        length hs = length rows ->
        Forall (fun rw => op_wfb (fst rw) = true /\ exists acts, snd rw = run (E:=OP exact) (fst rw) acts) rows ->
        bnet hs rows = Rowwise.map2 net hs rows) ->
    (forall (h : hidden) (i : op_inst) (acts : list nat),
        op_wfb i = true -> length (net h (i, run (E:=OP exact) i acts)) = S (op_n i)) ->
    forall (fuel : nat) (is1 is2 : list op_inst) (r1 r2 : nat) (i : op_inst)
           (tr1 : list (list (nat * Qc))) (fin1 : list (op_inst * op_st))
           (tr2 : list (list (nat * Qc))) (fin2 : list (op_inst * op_st)),
      (forall j, In j is1 -> op_wfb j = true) -> (forall j, In j is2 -> op_wfb j = true) ->
      nth_error is1 r1 = Some i -> nth_error is2 r2 = Some i ->
      bpolicy (OP exact) benc bnet (greedy_choose clip tmp top_p top_k) fuel is1 = (tr1, fin1) ->
      all_done (OP exact) fin1 = true ->
      bpolicy (OP exact) benc bnet (greedy_choose clip tmp top_p top_k) fuel is2 = (tr2, fin2) ->
      all_done (OP exact) fin2 = true ->
      let t1 := row_traj 1%Qc r1 tr1 in let t2 := row_traj 1%Qc r2 tr2 in
      op_reward i (traj_actions t1) = op_reward i (traj_actions t2) /\
      traj_ll 1%Qc Qcmult t1 = traj_ll 1%Qc Qcmult t2 /\
      exists (common : list nat) (k1 k2 : nat),
        traj_actions t1 = common ++ repeat 0 k1 /\ traj_actions t2 = common ++ repeat 0 k2 /\
        adm (E:=OP exact) i common = true /\ done (OP exact) i (run (E:=OP exact) i common) = true.
Proof. exact policy_batch_independent_on_op. Qed.
Print Assumptions C14_policy_batch_independent_on_op.

(* the hypotheses are satisfiable together: a closed instance (ExOP.net / ExOP.enc of Compose/PolicyOnEnvs2.v) *)
Theorem C14_ex_policy_rowwise_on_op :
  forall (fuel : nat) (is_ : list op_inst) (r : nat) (i : op_inst)
         (tr : list (list (nat * Qc))) (fin : list (op_inst * op_st)),
    (forall j, In j is_ -> op_wfb j = true) ->
    nth_error is_ r = Some i ->
    bpolicy (OP exact) ExOP.benc ExOP.bnet gc2 fuel is_ = (tr, fin) -> all_done (OP exact) fin = true ->
    let batched := row_traj 1%Qc r tr in
    let alone := solo (OP exact) ExOP.enc ExOP.rnet gc2 fuel i in
    exists k : nat,
      traj_actions batched = traj_actions alone ++ repeat 0 k /\
      done (OP exact) i (run (E:=OP exact) i (traj_actions alone)) = true /\
      adm (E:=OP exact) i (traj_actions alone) = true /\ adm (E:=OP exact) i (traj_actions batched) = true /\
      op_reward i (traj_actions batched) = op_reward i (traj_actions alone) /\
      traj_ll 1%Qc Qcmult batched = traj_ll 1%Qc Qcmult alone.
Proof. exact ExOP.ex_policy_rowwise_on_op. Qed.
Print Assumptions C14_ex_policy_rowwise_on_op.

(* ------------------------------------------------------------------ PCTSP *)
(* per-instance inference on PCTSP: row r's actions are those of i decoded alone followed by depot visits, both
   inside the masks; reward and log-likelihood are those of i decoded alone *)
Theorem C14_policy_rowwise_on_pctsp :
  forall (hidden : Type) (clip tmp : Z -> Z) (top_p : Qc) (top_k : nat)
         (benc : list pctsp_inst -> list hidden) (enc : pctsp_inst -> hidden)
         (bnet : list hidden -> list (pctsp_inst * pctsp_st) -> list (list Z))
         (net : hidden -> pctsp_inst * pctsp_st -> list Z),
    (forall is_ : list pctsp_inst, benc is_ = map enc is_) ->
    (forall (hs : list hidden) (rows : list (pctsp_inst * pctsp_st)),
        length hs = length rows ->
        Forall (fun rw => pctsp_P (fst rw) = true /\ exists acts, snd rw = run (E:=PCTSP exact) (fst rw) acts) rows ->
        bnet hs rows = Rowwise.map2 net hs rows) ->
    (forall (h : hidden) (i : pctsp_inst) (acts : list nat),
        pctsp_P i = true -> length (net h (i, run (E:=PCTSP exact) i acts)) = S (pn_of i)) ->
    forall (fuel : nat) (is_ : list pctsp_inst) (r : nat) (i : pctsp_inst)
           (tr : list (list (nat * Qc))) (fin : list (pctsp_inst * pctsp_st)),
      (forall j, In j is_ -> pctsp_P j = true) ->
      nth_error is_ r = Some i ->
      bpolicy (PCTSP exact) benc bnet (greedy_choose clip tmp top_p top_k) fuel is_ = (tr, fin) ->
      all_done (PCTSP exact) fin = true ->
      let batched := row_traj 1%Qc r tr in
      let alone := solo (PCTSP exact) enc net (greedy_choose clip tmp top_p top_k) fuel i in
      exists k : nat,
        traj_actions batched = traj_actions alone ++ repeat 0 k /\
        done (PCTSP exact) i (run (E:=PCTSP exact) i (traj_actions alone)) = true /\
        adm (E:=PCTSP exact) i (traj_actions alone) = true /\ adm (E:=PCTSP exact) i (traj_actions batched) = true /\
        pctsp_reward i (traj_actions batched) = pctsp_reward i (traj_actions alone) /\
        traj_ll 1%Qc Qcmult batched = traj_ll 1%Qc Qcmult alone.
Proof. exact policy_rowwise_on_pctsp. Qed.
Print Assumptions C14_policy_rowwise_on_pctsp.

Theorem C14_policy_batch_independent_on_pctsp :
  forall (hidden : Type) (clip tmp : Z -> Z) (top_p : Qc) (top_k : nat)
         (benc : list pctsp_inst -> list hidden) (enc : pctsp_inst -> hidden)
         (bnet : list hidden -> list (pctsp_inst * pctsp_st) -> list (list Z))
         (net : hidden -> pctsp_inst * pctsp_st -> list Z),
    (forall is_ : list pctsp_inst, benc is_ = map enc is_) ->
    (forall (hs : list hidden) (rows : list (pctsp_inst * pctsp_st)),
        length hs = length rows ->
        Forall (fun rw => pctsp_P (fst rw) = true /\ exists acts, snd rw = run (E:=PCTSP exact) (fst rw) acts) rows ->
        bnet hs rows = Rowwise.map2 net hs rows) ->
    (forall (h : hidden) (i : pctsp_inst) (acts : list nat),
        pctsp_P i = true -> length (net h (i, run (E:=PCTSP exact) i acts)) = S (pn_of i)) ->
    forall (fuel : nat) (is1 is2 : list pctsp_inst) (r1 r2 : nat) (i : pctsp_inst)
           (tr1 : list (list (nat * Qc))) (fin1 : list (pctsp_inst * pctsp_st))
           (tr2 : list (list (nat * Qc))) (fin2 : list (pctsp_inst * pctsp_st)),
      (forall j, In j is1 -> pctsp_P j = true) -> (forall j, In j is2 -> pctsp_P j = true) ->
      nth_error is1 r1 = Some i -> nth_error is2 r2 = Some i ->
      bpolicy (PCTSP exact) benc bnet (greedy_choose clip tmp top_p top_k) fuel is1 = (tr1, fin1) ->
      all_done (PCTSP exact) fin1 = true ->
      bpolicy (PCTSP exact) benc bnet (greedy_choose clip tmp top_p top_k) fuel is2 = (tr2, fin2) ->
      all_done (PCTSP exact) fin2 = true ->
      let t1 := row_traj 1%Qc r1 tr1 in let t2 := row_traj 1%Qc r2 tr2 in
      pctsp_reward i (traj_actions t1) = pctsp_reward i (traj_actions t2) /\
      traj_ll 1%Qc Qcmult t1 = traj_ll 1%Qc Qcmult t2 /\
      exists (common : list nat) (k1 k2 : nat),
        traj_actions t1 = common ++ repeat 0 k1 /\ traj_actions t2 = common ++ repeat 0 k2 /\
        adm (E:=PCTSP exact) i common = true /\ done (PCTSP exact) i (run (E:=PCTSP exact) i common) = true.
Proof. exact policy_batch_independent_on_pctsp. Qed.
Print Assumptions C14_policy_batch_independent_on_pctsp.

(* the hypotheses are satisfiable together: a closed instance (ExPC.net / ExPC.enc of Compose/PolicyOnEnvs2.v) *)
Theorem C14_ex_policy_rowwise_on_pctsp :
  forall (fuel : nat) (is_ : list pctsp_inst) (r : nat) (i : pctsp_inst)
         (tr : list (list (nat * Qc))) (fin : list (pctsp_inst * pctsp_st)),
    (forall j, In j is_ -> pctsp_P j = true) ->
    nth_error is_ r = Some i ->
    bpolicy (PCTSP exact) ExPC.benc ExPC.bnet gc2 fuel is_ = (tr, fin) -> all_done (PCTSP exact) fin = true ->
    let batched := row_traj 1%Qc r tr in
    let alone := solo (PCTSP exact) ExPC.enc ExPC.rnet gc2 fuel i in
    exists k : nat,
      traj_actions batched = traj_actions alone ++ repeat 0 k /\
      done (PCTSP exact) i (run (E:=PCTSP exact) i (traj_actions alone)) = true /\
      adm (E:=PCTSP exact) i (traj_actions alone) = true /\ adm (E:=PCTSP exact) i (traj_actions batched) = true /\
      pctsp_reward i (traj_actions batched) = pctsp_reward i (traj_actions alone) /\
      traj_ll 1%Qc Qcmult batched = traj_ll 1%Qc Qcmult alone.
Proof. exact ExPC.ex_policy_rowwise_on_pctsp. Qed.
Print Assumptions C14_ex_policy_rowwise_on_pctsp.

(* ------------------------------------------------------------------ SDVRP *)
(* per-instance inference on SDVRP: row r's actions are those of i decoded alone followed by depot visits, both
   inside the masks; reward and log-likelihood are those of i decoded alone *)
Theorem C14_policy_rowwise_on_sdvrp :
  forall (hidden : Type) (clip tmp : Z -> Z) (top_p : Qc) (top_k : nat)
         (benc : list cvrp_inst -> list hidden) (enc : cvrp_inst -> hidden)
         (bnet : list hidden -> list (cvrp_inst * sd_st) -> list (list Z))
         (net : hidden -> cvrp_inst * sd_st -> list Z),
    (forall is_ : list cvrp_inst, benc is_ = map enc is_) ->
    (forall (hs : list hidden) (rows : list (cvrp_inst * sd_st)),
        length hs = length rows ->
        Forall (fun rw => sdvrp_P (fst rw) = true /\ exists acts, snd rw = run (E:=SDVRP exact) (fst rw) acts) rows ->
        bnet hs rows = Rowwise.map2 net hs rows) ->
    (forall (h : hidden) (i : cvrp_inst) (acts : list nat),
        sdvrp_P i = true -> length (net h (i, run (E:=SDVRP exact) i acts)) = S (n_of i)) ->
    forall (fuel : nat) (is_ : list cvrp_inst) (r : nat) (i : cvrp_inst)
           (tr : list (list (nat * Qc))) (fin : list (cvrp_inst * sd_st)),
      (forall j, In j is_ -> sdvrp_P j = true) ->
      nth_error is_ r = Some i ->
      bpolicy (SDVRP exact) benc bnet (greedy_choose clip tmp top_p top_k) fuel is_ = (tr, fin) ->
      all_done (SDVRP exact) fin = true ->
      let batched := row_traj 1%Qc r tr in
      let alone := solo (SDVRP exact) enc net (greedy_choose clip tmp top_p top_k) fuel i in
      exists k : nat,
        traj_actions batched = traj_actions alone ++ repeat 0 k /\
        done (SDVRP exact) i (run (E:=SDVRP exact) i (traj_actions alone)) = true /\
        adm (E:=SDVRP exact) i (traj_actions alone) = true /\ adm (E:=SDVRP exact) i (traj_actions batched) = true /\
        cvrp_reward i (traj_actions batched) = cvrp_reward i (traj_actions alone) /\
        traj_ll 1%Qc Qcmult batched = traj_ll 1%Qc Qcmult alone.
Proof. exact policy_rowwise_on_sdvrp. Qed.
Print Assumptions C14_policy_rowwise_on_sdvrp.

Theorem C14_policy_batch_independent_on_sdvrp :
  forall (hidden : Type) (clip tmp : Z -> Z) (top_p : Qc) (top_k : nat)
         (benc : list cvrp_inst -> list hidden) (enc : cvrp_inst -> hidden)
         (bnet : list hidden -> list (cvrp_inst * sd_st) -> list (list Z))
         (net : hidden -> cvrp_inst * sd_st -> list Z),
    (forall is_ : list cvrp_inst, benc is_ = map enc is_) ->
    (forall (hs : list hidden) (rows : list (cvrp_inst * sd_st)),
        length hs = length rows ->
        Forall (fun rw => sdvrp_P (fst rw) = true /\ exists acts, snd rw = run (E:=SDVRP exact) (fst rw) acts) rows ->
        bnet hs rows = Rowwise.map2 net hs rows) ->
    (forall (h : hidden) (i : cvrp_inst) (acts : list nat),
        sdvrp_P i = true -> length (net h (i, run (E:=SDVRP exact) i acts)) = S (n_of i)) ->
    forall (fuel : nat) (is1 is2 : list cvrp_inst) (r1 r2 : nat) (i : cvrp_inst)
           (tr1 : list (list (nat * Qc))) (fin1 : list (cvrp_inst * sd_st))
           (tr2 : list (list (nat * Qc))) (fin2 : list (cvrp_inst * sd_st)),
      (forall j, In j is1 -> sdvrp_P j = true) -> (forall j, In j is2 -> sdvrp_P j = true) ->
      nth_error is1 r1 = Some i -> nth_error is2 r2 = Some i ->
      bpolicy (SDVRP exact) benc bnet (greedy_choose clip tmp top_p top_k) fuel is1 = (tr1, fin1) ->
      all_done (SDVRP exact) fin1 = true ->
      bpolicy (SDVRP exact) benc bnet (greedy_choose clip tmp top_p top_k) fuel is2 = (tr2, fin2) ->
      all_done (SDVRP exact) fin2 = true ->
      let t1 := row_traj 1%Qc r1 tr1 in let t2 := row_traj 1%Qc r2 tr2 in
      cvrp_reward i (traj_actions t1) = cvrp_reward i (traj_actions t2) /\
      traj_ll 1%Qc Qcmult t1 = traj_ll 1%Qc Qcmult t2 /\
      exists (common : list nat) (k1 k2 : nat),
        traj_actions t1 = common ++ repeat 0 k1 /\ traj_actions t2 = common ++ repeat 0 k2 /\
        adm (E:=SDVRP exact) i common = true /\ done (SDVRP exact) i (run (E:=SDVRP exact) i common) = true.
Proof. exact policy_batch_independent_on_sdvrp. Qed.
Print Assumptions C14_policy_batch_independent_on_sdvrp.

(* the hypotheses are satisfiable together: a closed instance (ExSD.net / ExSD.enc of Compose/PolicyOnEnvs2.v) *)
Theorem C14_ex_policy_rowwise_on_sdvrp :
  forall (fuel : nat) (is_ : list cvrp_inst) (r : nat) (i : cvrp_inst)
         (tr : list (list (nat * Qc))) (fin : list (cvrp_inst * sd_st)),
    (forall j, In j is_ -> sdvrp_P j = true) ->
    nth_error is_ r = Some i ->
    bpolicy (SDVRP exact) ExSD.benc ExSD.bnet gc2 fuel is_ = (tr, fin) -> all_done (SDVRP exact) fin = true ->
    let batched := row_traj 1%Qc r tr in
    let alone := solo (SDVRP exact) ExSD.enc ExSD.rnet gc2 fuel i in
    exists k : nat,
      traj_actions batched = traj_actions alone ++ repeat 0 k /\
      done (SDVRP exact) i (run (E:=SDVRP exact) i (traj_actions alone)) = true /\
      adm (E:=SDVRP exact) i (traj_actions alone) = true /\ adm (E:=SDVRP exact) i (traj_actions batched) = true /\
      cvrp_reward i (traj_actions batched) = cvrp_reward i (traj_actions alone) /\
      traj_ll 1%Qc Qcmult batched = traj_ll 1%Qc Qcmult alone.
Proof. exact ExSD.ex_policy_rowwise_on_sdvrp. Qed.
Print Assumptions C14_ex_policy_rowwise_on_sdvrp.

(* why the row invariant is needed: for PCTSP the padding hypotheses fail at a finished state reached by a run that left
   the masks (depot visited while masked): the mask is EMPTY and the "chosen" action has probability 0, not 1.  Every
   history environment contains this state; no greedy row reaches it *)
Theorem C14_pctsp_pad_at_nonadmitted_states_refuted :
  exists (i : pctsp_inst) (acts : list nat),
    pctsp_P i = true /\ adm (E:=PCTSP exact) i acts = false /\
    done (PCTSP exact) i (run (E:=PCTSP exact) i acts) = true /\
    mask (PCTSP exact) i (run (E:=PCTSP exact) i acts) = [false; false; false; false] /\
    snd (greedy_choose (fun z => z) (fun z => z) 0%Qc 0 [0; 0; 0; 0]%Z
           (mask (PCTSP exact) i (run (E:=PCTSP exact) i acts))) <> 1%Qc.
Proof. exact pctsp_nonadmitted_done_state_refutes_pad. Qed.
Print Assumptions C14_pctsp_pad_at_nonadmitted_states_refuted.

(* ------------------------------------------------------------------ examples (by computation): per environment,
   instance i1 alone and at position 0 of the batch [i1; i2] -- the same steps, then depot visits of probability 1 *)
Example C14_ex_op :
  op_wfb ExOP.i1 = true /\ op_wfb ExOP.i2 = true /\
  rview2 0 (fst (bpolicy (OP exact) ExOP.benc ExOP.bnet gc2 20 [ExOP.i1])) = [(1, (16 # 19)%Q); (0, 1%Q)] /\
  rview2 0 (fst (bpolicy (OP exact) ExOP.benc ExOP.bnet gc2 20 [ExOP.i1; ExOP.i2]))
    = [(1, (16 # 19)%Q); (0, 1%Q); (0, 1%Q); (0, 1%Q)] /\
  rview2 1 (fst (bpolicy (OP exact) ExOP.benc ExOP.bnet gc2 20 [ExOP.i1; ExOP.i2]))
    = [(2, (16 # 27)%Q); (3, (8 # 11)%Q); (1, (4 # 5)%Q); (0, 1%Q)] /\
  all_done (OP exact) (snd (bpolicy (OP exact) ExOP.benc ExOP.bnet gc2 20 [ExOP.i1; ExOP.i2])) = true.
Proof.
  split; [exact (proj1 ExOP.instances_wf)|]. split; [exact (proj1 (proj2 ExOP.instances_wf))|].
  split; [exact ExOP.alone | exact ExOP.in_batch].
Qed.
Example C14_ex_pctsp :
  pctsp_P ExPC.i1 = true /\ pctsp_P ExPC.i2 = true /\
  rview2 0 (fst (bpolicy (PCTSP exact) ExPC.benc ExPC.bnet gc2 20 [ExPC.i1]))
    = [(2, (8 # 13)%Q); (3, (4 # 5)%Q); (0, (16 # 17)%Q)] /\
  rview2 0 (fst (bpolicy (PCTSP exact) ExPC.benc ExPC.bnet gc2 20 [ExPC.i1; ExPC.i2]))
    = [(2, (8 # 13)%Q); (3, (4 # 5)%Q); (0, (16 # 17)%Q); (0, 1%Q)] /\
  rview2 1 (fst (bpolicy (PCTSP exact) ExPC.benc ExPC.bnet gc2 20 [ExPC.i1; ExPC.i2]))
    = [(2, (8 # 13)%Q); (3, (4 # 5)%Q); (1, 1%Q); (0, 1%Q)] /\
  all_done (PCTSP exact) (snd (bpolicy (PCTSP exact) ExPC.benc ExPC.bnet gc2 20 [ExPC.i1; ExPC.i2])) = true.
Proof.
  split; [exact (proj1 ExPC.instances_wf)|]. split; [exact (proj1 (proj2 ExPC.instances_wf))|].
  split; [exact ExPC.alone | exact ExPC.in_batch].
Qed.
Example C14_ex_sdvrp :
  sdvrp_P ExSD.i1 = true /\ sdvrp_P ExSD.i2 = true /\
  rview2 0 (fst (bpolicy (SDVRP exact) ExSD.benc ExSD.bnet gc2 20 [ExSD.i1])) = [(2, (2 # 3)%Q); (1, (4 # 5)%Q)] /\
  rview2 0 (fst (bpolicy (SDVRP exact) ExSD.benc ExSD.bnet gc2 20 [ExSD.i1; ExSD.i2]))
    = [(2, (2 # 3)%Q); (1, (4 # 5)%Q); (0, 1%Q); (0, 1%Q)] /\
  rview2 1 (fst (bpolicy (SDVRP exact) ExSD.benc ExSD.bnet gc2 20 [ExSD.i1; ExSD.i2]))
    = [(2, (2 # 3)%Q); (1, (8 # 9)%Q); (0, 1%Q); (1, 1%Q)] /\
  all_done (SDVRP exact) (snd (bpolicy (SDVRP exact) ExSD.benc ExSD.bnet gc2 20 [ExSD.i1; ExSD.i2])) = true.
Proof.
  split; [exact (proj1 ExSD.instances_wf)|]. split; [exact (proj1 (proj2 ExSD.instances_wf))|].
  split; [exact ExSD.alone | exact ExSD.in_batch].
Qed.
