(* C14 composed with C04 / C02 / C10 / C01 / C03 at the REAL CVRP environment model: inference is per-instance for
   the greedy policy over process_logits on CVRP.  This file contains only statements closed by [exact] and their
   Print Assumptions (plus Examples); definitions and proofs are in Compose/PolicyOnCVRP.v.

   Reading guide.
     CVRP exact : Env                 the CVRP model of Env/CVRP.v (exact arithmetic), tied to rl4co's CVRPEnv by C01-C06;
                                      rows of a batch are pairs (cvrp_inst * cvrp_st); node 0 is the depot.
     greedy_choose clip tmp top_p top_k logits mask = (a, p)
                                      DecodingStrategy.step of one row, greedy: pr = process_logits (the C10 model at
                                      logits Z, probabilities Qc, weights 2^z), a = greedy pr (first arg-max), p = pr[a].
     log-likelihood                   traj_ll 1 Qcmult : the PRODUCT of the step probabilities, an exact rational (log
                                      domain (Qc, 1, *, id) of Decoding/DecodeLoopInst.v; lg 1 = 0 reads 1 here).
     bpolicy (CVRP exact) benc bnet choose fuel is_ = (tr, fin)
                                      the batched loop of Decoding/Rowwise.v (ConstructivePolicy.forward, greedy) run on
                                      the PLAIN CVRP model from the reset rows of the instance list is_:
                                      tr = per step, the list over rows of (action, probability); fin = final rows.
     row_traj 1 r tr                  what the caller reads off for batch row r;  traj_actions / traj_ll of it.
     solo (CVRP exact) enc net choose fuel i
                                      the instance decoded ALONE (the loop of a batch of one: stop when finished).
     benc / enc, bnet / net           encoder and decoder of the neural network on whole batches, and their per-row
                                      readings.  THE ONLY HYPOTHESES LEFT are about them:
         benc is_ = map enc is_                                  the encoder is row-wise
         bnet hs rows = map2 net hs rows                         the decoder is row-wise -- required only on batches whose
                                                                 rows were reached from reset (by any action list) by
                                                                 instances with dfun i 0 0 = 0
         length (net h (i, run i acts)) = S (n_of i)             one logit per node (depot + customers)
       (that attention / normalisation / linear layers ARE row-wise is not proved: K3 assumption, differential test).
     instance hypotheses              dfun j 0 0 = 0 for every batch member (the depot-depot distance is zero, as for
                                      every distance matrix computed from coordinates): the hypothesis of C03/C04's
                                      reward statements.  cvrp_wfb is NOT needed for per-instance inference (it is
                                      needed for feasibility of the result, C14_greedy_batched_solution_on_cvrp).  No
                                      common-width hypothesis is needed: rows are decoded independently.

   How it is proved.  C14_policy_rowwise (Properties/C14.v) quantifies its three padding hypotheses over ALL rows and
   ALL action lists of the environment; for the plain CVRP model they are FALSE at junk states
   (C14_pad_hypotheses_at_junk_states_refuted below).  They hold in every state reached from reset: the visited vector
   keeps its length, so a finished state offers the depot only (C04), process_logits puts probability one on a single
   offered action (C10 pl_normalised + pl_support_masked) and greedy takes it, a step from a finished state leaves it
   finished (C02), and one more depot visit leaves the reward alone (C04, walk_len_pad).  So C14_policy_rowwise is
   instantiated at the environment [restrict (hist (CVRP exact)) (dfun i 0 0 =? 0)] of Compose/EnvRestrict.v (state =
   action history) and the result is transported back along a simulation (Compose/PolicyOnCVRP.v, Section Sim): the
   statements below speak about the plain model only. *)
From Coq Require Import ZArith QArith Qcanon List Bool Arith.
From RL4CO Require Import Base.Num Base.OFieldQc Base.EnvSig Decoding.ProcessLogits Decoding.PLInst Decoding.Rowwise
                          Env.CVRP Env.CVRPProofs Compose.PolicyOnCVRP.
Import ListNotations.
Local Open Scope nat_scope.

(* Instance i sits at position r of the batch is_ (any size, any batch-mates); the batch was decoded greedily to the
   end (every row finished within the fuel = max_steps).  Then row r's actions are the actions of i decoded ALONE
   followed by depot visits; reward and log-likelihood are those of i decoded alone. *)
Theorem C14_policy_rowwise_on_cvrp :
  forall (hidden : Type) (clip tmp : Z -> Z) (top_p : Qc) (top_k : nat)
         (benc : list cvrp_inst -> list hidden) (enc : cvrp_inst -> hidden)
         (bnet : list hidden -> list (cvrp_inst * cvrp_st) -> list (list Z))
         (net : hidden -> cvrp_inst * cvrp_st -> list Z),
    (* the network is row-wise and returns one logit per node *)
    (forall is_ : list cvrp_inst, benc is_ = map enc is_) ->
    (forall (hs : list hidden) (rows : list (cvrp_inst * cvrp_st)),
        length hs = length rows ->
        Forall (fun rw => dfun (fst rw) 0 0 = 0%Z /\ exists acts, snd rw = run (E:=CVRP exact) (fst rw) acts) rows ->
        bnet hs rows = Rowwise.map2 net hs rows) ->
    (forall (h : hidden) (i : cvrp_inst) (acts : list nat),
        dfun i 0 0 = 0%Z -> length (net h (i, run (E:=CVRP exact) i acts)) = S (n_of i)) ->
    forall (fuel : nat) (is_ : list cvrp_inst) (r : nat) (i : cvrp_inst)
           (tr : list (list (nat * Qc))) (fin : list (cvrp_inst * cvrp_st)),
      (forall j, In j is_ -> dfun j 0 0 = 0%Z) ->
      nth_error is_ r = Some i ->
      bpolicy (CVRP exact) benc bnet (greedy_choose clip tmp top_p top_k) fuel is_ = (tr, fin) ->
      all_done (CVRP exact) fin = true ->
      let batched := row_traj 1%Qc r tr in
      let alone := solo (CVRP exact) enc net (greedy_choose clip tmp top_p top_k) fuel i in
      exists k : nat,
        traj_actions batched = traj_actions alone ++ repeat 0 k /\
        cvrp_done i (run (E:=CVRP exact) i (traj_actions alone)) = true /\
        cvrp_reward i (traj_actions batched) = cvrp_reward i (traj_actions alone) /\
        traj_ll 1%Qc Qcmult batched = traj_ll 1%Qc Qcmult alone.
Proof. exact policy_rowwise_on_cvrp. Qed.
Print Assumptions C14_policy_rowwise_on_cvrp.

(* the same instance in two different batches (any sizes, any positions, any batch-mates): same reward, same
   log-likelihood, actions equal up to depot padding *)
Theorem C14_policy_batch_independent_on_cvrp :
  forall (hidden : Type) (clip tmp : Z -> Z) (top_p : Qc) (top_k : nat)
         (benc : list cvrp_inst -> list hidden) (enc : cvrp_inst -> hidden)
         (bnet : list hidden -> list (cvrp_inst * cvrp_st) -> list (list Z))
         (net : hidden -> cvrp_inst * cvrp_st -> list Z),
    (forall is_ : list cvrp_inst, benc is_ = map enc is_) ->
    (forall (hs : list hidden) (rows : list (cvrp_inst * cvrp_st)),
        length hs = length rows ->
        Forall (fun rw => dfun (fst rw) 0 0 = 0%Z /\ exists acts, snd rw = run (E:=CVRP exact) (fst rw) acts) rows ->
        bnet hs rows = Rowwise.map2 net hs rows) ->
    (forall (h : hidden) (i : cvrp_inst) (acts : list nat),
        dfun i 0 0 = 0%Z -> length (net h (i, run (E:=CVRP exact) i acts)) = S (n_of i)) ->
    forall (fuel : nat) (is1 is2 : list cvrp_inst) (r1 r2 : nat) (i : cvrp_inst)
           (tr1 : list (list (nat * Qc))) (fin1 : list (cvrp_inst * cvrp_st))
           (tr2 : list (list (nat * Qc))) (fin2 : list (cvrp_inst * cvrp_st)),
      (forall j, In j is1 -> dfun j 0 0 = 0%Z) -> (forall j, In j is2 -> dfun j 0 0 = 0%Z) ->
      nth_error is1 r1 = Some i -> nth_error is2 r2 = Some i ->
      bpolicy (CVRP exact) benc bnet (greedy_choose clip tmp top_p top_k) fuel is1 = (tr1, fin1) ->
      all_done (CVRP exact) fin1 = true ->
      bpolicy (CVRP exact) benc bnet (greedy_choose clip tmp top_p top_k) fuel is2 = (tr2, fin2) ->
      all_done (CVRP exact) fin2 = true ->
      let t1 := row_traj 1%Qc r1 tr1 in let t2 := row_traj 1%Qc r2 tr2 in
      cvrp_reward i (traj_actions t1) = cvrp_reward i (traj_actions t2) /\
      traj_ll 1%Qc Qcmult t1 = traj_ll 1%Qc Qcmult t2 /\
      exists (common : list nat) (k1 k2 : nat),
        traj_actions t1 = common ++ repeat 0 k1 /\ traj_actions t2 = common ++ repeat 0 k2 /\
        cvrp_done i (run (E:=CVRP exact) i common) = true.
Proof. exact policy_batch_independent_on_cvrp. Qed.
Print Assumptions C14_policy_batch_independent_on_cvrp.

(* the loop run on the batch [i] (batch size 1) IS the solo reference *)
Theorem C14_batch_of_one_is_solo_on_cvrp :
  forall (hidden : Type) (clip tmp : Z -> Z) (top_p : Qc) (top_k : nat)
         (benc : list cvrp_inst -> list hidden) (enc : cvrp_inst -> hidden)
         (bnet : list hidden -> list (cvrp_inst * cvrp_st) -> list (list Z))
         (net : hidden -> cvrp_inst * cvrp_st -> list Z),
    (forall is_ : list cvrp_inst, benc is_ = map enc is_) ->
    (forall (hs : list hidden) (rows : list (cvrp_inst * cvrp_st)),
        length hs = length rows ->
        Forall (fun rw => dfun (fst rw) 0 0 = 0%Z /\ exists acts, snd rw = run (E:=CVRP exact) (fst rw) acts) rows ->
        bnet hs rows = Rowwise.map2 net hs rows) ->
    forall (fuel : nat) (i : cvrp_inst) (tr : list (list (nat * Qc))) (fin : list (cvrp_inst * cvrp_st)),
      dfun i 0 0 = 0%Z ->
      bpolicy (CVRP exact) benc bnet (greedy_choose clip tmp top_p top_k) fuel [i] = (tr, fin) ->
      row_traj 1%Qc 0 tr = solo (CVRP exact) enc net (greedy_choose clip tmp top_p top_k) fuel i.
Proof. exact batch_of_one_is_solo_on_cvrp. Qed.
Print Assumptions C14_batch_of_one_is_solo_on_cvrp.

(* End to end (C14 x C10 x C02 x C04 x C01 x C03): in ANY batch, what the greedy policy returns for a well-formed
   instance -- padding included -- is an action list inside the masks (C10 greedy_feasible: greedy takes an offered
   action; the CVRP mask always offers one), finished, a FEASIBLE CVRP solution by the independent specification
   (C01 cvrp_mask_sound via C04 cvrp_padding_inert), and its reward is minus the total route length (C03) of the
   solution found when the instance is decoded alone. *)
Theorem C14_greedy_batched_solution_on_cvrp :
  forall (hidden : Type) (clip tmp : Z -> Z) (top_p : Qc) (top_k : nat)
         (benc : list cvrp_inst -> list hidden) (enc : cvrp_inst -> hidden)
         (bnet : list hidden -> list (cvrp_inst * cvrp_st) -> list (list Z))
         (net : hidden -> cvrp_inst * cvrp_st -> list Z),
    (forall is_ : list cvrp_inst, benc is_ = map enc is_) ->
    (forall (hs : list hidden) (rows : list (cvrp_inst * cvrp_st)),
        length hs = length rows ->
        Forall (fun rw => dfun (fst rw) 0 0 = 0%Z /\ exists acts, snd rw = run (E:=CVRP exact) (fst rw) acts) rows ->
        bnet hs rows = Rowwise.map2 net hs rows) ->
    (forall (h : hidden) (i : cvrp_inst) (acts : list nat),
        dfun i 0 0 = 0%Z -> length (net h (i, run (E:=CVRP exact) i acts)) = S (n_of i)) ->
    forall (fuel : nat) (is_ : list cvrp_inst) (r : nat) (i : cvrp_inst)
           (tr : list (list (nat * Qc))) (fin : list (cvrp_inst * cvrp_st)),
      (forall j, In j is_ -> dfun j 0 0 = 0%Z) -> cvrp_wfb i = true ->
      nth_error is_ r = Some i ->
      bpolicy (CVRP exact) benc bnet (greedy_choose clip tmp top_p top_k) fuel is_ = (tr, fin) ->
      all_done (CVRP exact) fin = true ->
      let acts := traj_actions (row_traj 1%Qc r tr) in
      adm (E:=CVRP exact) i acts = true /\
      cvrp_done i (run (E:=CVRP exact) i acts) = true /\
      cvrp_feasible i acts /\
      cvrp_reward i acts
        = cvrp_objective i (traj_actions (solo (CVRP exact) enc net (greedy_choose clip tmp top_p top_k) fuel i)).
Proof. exact greedy_batched_solution_on_cvrp. Qed.
Print Assumptions C14_greedy_batched_solution_on_cvrp.

(* why C14_policy_rowwise cannot be instantiated at the plain model directly: its hypotheses pad_lp / pad_done range
   over junk states.  A state whose visited vector is empty is "done", yet offers both customers and not the depot;
   the action chosen there has probability 1/2, not 1 (well-formed instance, zero depot-depot distance) *)
Theorem C14_pad_hypotheses_at_junk_states_refuted :
  exists (i : cvrp_inst) (s : cvrp_st),
    cvrp_wfb i = true /\ dfun i 0 0 = 0%Z /\
    rdone (CVRP exact) (i, s) = true /\ rmask (CVRP exact) (i, s) = [false; true; true] /\
    snd (pick (CVRP exact) (fun (_ : unit) _ => [0; 0; 0]%Z) (greedy_choose (fun z => z) (fun z => z) 0%Qc 0) tt (i, s))
      <> 1%Qc.
Proof. exact junk_state_refutes_pad. Qed.
Print Assumptions C14_pad_hypotheses_at_junk_states_refuted.

(* all hypotheses of C14_policy_rowwise_on_cvrp are satisfiable together: a closed instance (state-dependent integer
   logits Ex.net, encoder Ex.enc; see Compose/PolicyOnCVRP.v, Module Ex) *)
Theorem C14_ex_policy_rowwise_on_cvrp :
  forall (fuel : nat) (is_ : list cvrp_inst) (r : nat) (i : cvrp_inst)
         (tr : list (list (nat * Qc))) (fin : list (cvrp_inst * cvrp_st)),
    (forall j, In j is_ -> dfun j 0 0 = 0%Z) ->
    nth_error is_ r = Some i ->
    bpolicy (CVRP exact) Ex.benc Ex.bnet Ex.gc fuel is_ = (tr, fin) -> all_done (CVRP exact) fin = true ->
    let batched := row_traj 1%Qc r tr in
    let alone := solo (CVRP exact) Ex.enc Ex.rnet Ex.gc fuel i in
    exists k : nat,
      traj_actions batched = traj_actions alone ++ repeat 0 k /\
      cvrp_done i (run (E:=CVRP exact) i (traj_actions alone)) = true /\
      cvrp_reward i (traj_actions batched) = cvrp_reward i (traj_actions alone) /\
      traj_ll 1%Qc Qcmult batched = traj_ll 1%Qc Qcmult alone.
Proof. exact Ex.ex_policy_rowwise_on_cvrp. Qed.
Print Assumptions C14_ex_policy_rowwise_on_cvrp.

(* ------------------------------------------------------------------ examples (by computation) *)
(* two well-formed instances of the same width whose solutions have different lengths *)
Example C14_ex_instances :
  cvrp_wfb Ex.i1 = true /\ cvrp_wfb Ex.i2 = true /\ dfun Ex.i1 0 0 = 0%Z /\ dfun Ex.i2 0 0 = 0%Z /\ n_of Ex.i1 = n_of Ex.i2.
Proof. exact Ex.instances_wf. Qed.
(* i1 decoded alone: three customers and the depot ... *)
Example C14_ex_alone :
  Ex.rview 0 (fst (bpolicy (CVRP exact) Ex.benc Ex.bnet Ex.gc 20 [Ex.i1]))
  = [(3, (4 # 7)%Q); (1, (8 # 17)%Q); (2, (4 # 5)%Q); (0, 1%Q)].
Proof. exact Ex.cvrp_alone. Qed.
(* ... and at position 0 of the batch [i1; i2]: the same steps, then one depot visit of probability 1 while row 1
   (three routes, five steps) finishes *)
Example C14_ex_in_batch :
  Ex.rview 0 (fst (bpolicy (CVRP exact) Ex.benc Ex.bnet Ex.gc 20 [Ex.i1; Ex.i2]))
    = [(3, (4 # 7)%Q); (1, (8 # 17)%Q); (2, (4 # 5)%Q); (0, 1%Q); (0, 1%Q)] /\
  Ex.rview 1 (fst (bpolicy (CVRP exact) Ex.benc Ex.bnet Ex.gc 20 [Ex.i1; Ex.i2]))
    = [(3, (4 # 7)%Q); (0, 1%Q); (2, (2 # 3)%Q); (0, 1%Q); (1, 1%Q)] /\
  all_done (CVRP exact) (snd (bpolicy (CVRP exact) Ex.benc Ex.bnet Ex.gc 20 [Ex.i1; Ex.i2])) = true.
Proof. exact Ex.cvrp_in_batch. Qed.
