(* C13 x (C02, C10, C01) -- beam search on the real environment models CVRP, TSP, OP and PCTSP / SPCTSP.
   Only statements closed by [exact], their Print Assumptions, and Examples.  Proofs: Compose/BeamOnEnvs.v, BeamOnEnvs2.v.

   Reading guide.
   * Properties/C13.v proves the beam-search theorems for an ABSTRACT environment E; its totality theorems
     (C13_no_assertion_without_dead_ends, C13_step_total_without_dead_ends, C13_beam_search_Qc) take their
     environment hypotheses -- no dead end along admitted non-empty histories, step-ok of offered actions,
     "the mask has N entries", "the decoder emits N logits" -- quantified over ALL instances and ALL states of E.
   * Here E is a real model.  Vocabulary as in C13.v: [pre_hook] = pre_decoder_hook (refuses beam widths below 2),
     [loop] = the decoding loop with [fuel] = the maximal number of steps, None = the real code raises;
     [starts_offered] = the forced first moves are offered by the reset masks (C12); row r of the W * B rows holds
     (instance r mod B, state, ghost history h of that state); [adm i h] = every move of h was offered by the mask of
     the state it was taken in; [score] = accumulated probability; step scores = the C10 model of process_logits
     at (Z, Qc, 2^z) applied to the logits of an ARBITRARY decoder [dec] (the only thing left abstract: the neural
     network; it must emit one logit per node) with arbitrary clip / temperature maps, top_p, top_k.
   * CVRP (sections 1, 2): the hypotheses hold for [restrict (CVRP exact) (cvrp_okb n)] (Compose/EnvRestrict.v:
     instances that are well-formed, solvable and have exactly n >= 1 customers); the result is carried to
     [CVRP exact] and plain instances by a homomorphism lemma (Compose/BeamOnEnvs.v Part 0).  Composed: C13 totality,
     C10 (support / arg-max kept), C02 (cvrp_no_dead_end, cvrp_step_ok, cvrp_done_stable, cvrp_bound),
     C01 (cvrp_mask_sound).  [cvrp_feasible] is the CVRP SPECIFICATION of Env/CVRPProofs.v: every customer exactly
     once, nodes in range, every route load <= capacity.
   * TSP (sections 3, 4): two hypotheses of the abstract theorems are FALSE for TSP (section 3): a finished row has
     an empty mask (a dead end), and the mask is a field of the state, so junk states have masks of any length.
     The abstract theorem is therefore instantiated with [pad (restrict TSP (tsp_okb n)) n] (all-true mask wherever
     the TSP mask is empty or of the wrong length) and carried back to [TSP] itself: all rows move in lockstep, so
     the loop never expands a finished row (section 4).  Composed: C13 totality, C10, C02 (tsp_no_dead_end,
     tsp_done_iff, tsp_bound via lockstep), C01 (tsp_mask_sound).  [tsp_feasible] = every city exactly once.
   * OP and PCTSP / SPCTSP (sections 5, 6; proofs in Compose/BeamOnEnvs2.v): variable-length environments with a
     padding action, handled like CVRP (restriction to the well-formed instances with n customers + homomorphism),
     through ONE generic theorem (BeamOnEnvs2.v Part A) whose hypotheses are exactly the C02 / C01 theorems of an
     environment.  No hypothesis of the abstract theorems is false for them.  OP: C02 (op_no_dead_end, op_step_ok,
     op_done_stable, op_bound), C01 (op_mask_sound); [op_feasible] = no customer twice, nodes exist, total walk
     length (every return to the depot included) <= the ORIGINAL max_length.  PCTSP: C02 (pctsp_no_dead_end,
     pctsp_step_ok, pctsp_done_stable, pctsp_bound), C01 (pctsp_mask_sound); [pctsp_feasible] = one closed tour,
     no customer twice, nodes exist, collected prize >= the requirement unless every customer is visited.  The PCTSP
     model covers SPCTSPEnv too: the instance field [stoch] selects the prize vector that is collected (C01_spctsp.v),
     and the theorems quantify over it. *)
From Coq Require Import List Bool Arith Lia ZArith QArith Qcanon.
From RL4CO Require Import Base.Num Base.OField Base.OFieldQc Base.EnvSig Spec.Routes Spec.Tours
     Decoding.Beam Decoding.BeamProofs Env.CVRP Env.CVRPProofs Env.TSP Env.TSPProofs Env.OP Env.OPProofs Env.PCTSP Env.PCTSPProofs
     Compose.EnvRestrict Compose.BeamOnEnvs Compose.BeamOnEnvs2.
Import ListNotations.
Local Open Scope nat_scope.

(* ================================================================================================ *)
(** * 1. CVRP: the abstract hypotheses hold *)

(* the four environment/decoder hypotheses of C13_beam_search_Qc, for ALL instances and ALL states of the
   restricted environment, with N = n + 1 nodes *)
Theorem C13_cvrp_satisfies_abstract_hypotheses :
  forall (n : nat), 1 <= n -> forall (dec : cvrp_inst -> cvrp_st -> list Z),
    (forall i s, cvrp_wf i -> cvrp_solvable i -> n_of i = n -> length (dec i s) = S n) ->
    let E1 := restrict (CVRP exact) (cvrp_okb n) in
    let dec1 := fun (i : inst E1) (s : st E1) => dec (under i) s in
    (forall (i : inst E1) (s : st E1), length (dec1 i s) = S n) /\
    (forall (i : inst E1) (s : st E1), length (mask E1 i s) = S n) /\
    (forall (i : inst E1) h, adm i h = true -> h <> [] -> exists a, offered i (run i h) a = true) /\
    (forall (i : inst E1) h a, adm i h = true -> h <> [] -> offered i (run i h) a = true -> stepok E1 i (run i h) a = true).
Proof. exact cvrp_restricted_satisfies_abstract_hypotheses. Qed.
Print Assumptions C13_cvrp_satisfies_abstract_hypotheses.

(* ================================================================================================ *)
(** * 2. CVRP: beam search never raises and returns feasible beams *)

(* For every n >= 1, every process_logits configuration, every decoder emitting n + 1 logits, every beam width (pre_hook
   itself refuses W < 2), every non-empty batch of well-formed solvable CVRP instances with n customers, every list
   of forced first moves accepted by pre_hook and offered by the reset masks, and EVERY fuel: the loop returns a
   state (never raises: no index out of range, no "infeasible action selected"); each of its W * B rows holds an
   instance i of the batch and a history h such that the row's state is the one reached by h; h is admitted by the
   CVRP masks and has positive probability; and whenever the row is finished, h satisfies the CVRP specification. *)
Theorem C13_beam_search_on_cvrp_never_raises_and_beams_feasible :
  forall (n : nat), 1 <= n ->
  forall (clip tmp : Z -> Z) (top_p : Qc) (top_k : nat) (dec : cvrp_inst -> cvrp_st -> list Z),
    (forall i s, cvrp_wf i -> cvrp_solvable i -> n_of i = n -> length (dec i s) = S n) ->
  forall (W B : nat) (insts : list cvrp_inst) (starts : list nat) (bs0 : bstate (CVRP exact) Qc) (fuel : nat),
    length insts = B -> 0 < B ->
    (forall i, In i insts -> cvrp_wf i /\ cvrp_solvable i /\ n_of i = n) ->
    pre_hook (CVRP exact) Qc 1%Qc W insts starts = Some bs0 ->
    (forall r i a, nth_error insts (r mod B) = Some i -> nth_error starts r = Some a ->
       offered (E:=CVRP exact) i (reset (CVRP exact) i) a = true) ->
    exists bs, loop (CVRP exact) Qc Qcmult 0%Qc Qcleb (lpQc clip tmp top_p top_k (CVRP exact) dec) fuel W bs0 = Some bs /\
      forall r, r < W * B -> exists (i : cvrp_inst) (h : list nat),
        nth_error insts (r mod B) = Some i /\
        nth_error (b_rows (CVRP exact) Qc bs) r = Some (i, run (E:=CVRP exact) i h, h) /\ h <> [] /\
        adm (E:=CVRP exact) i h = true /\
        (0 < score (CVRP exact) Qc Qcmult 1%Qc 0%Qc (lpQc clip tmp top_p top_k (CVRP exact) dec) i h)%Qc /\
        (done (CVRP exact) i (run (E:=CVRP exact) i h) = true -> cvrp_feasible i h).
Proof. exact beam_search_on_cvrp. Qed.
Print Assumptions C13_beam_search_on_cvrp_never_raises_and_beams_feasible.

(* The model's loop stops exactly when all rows are done or the fuel is used up, and every step makes every history
   one move longer.  By the C02 step bound (at most 2n+1 moves, the first of them forced by pre_hook) fuel for 2n steps
   is enough: the loop stops with ALL rows finished, and every returned beam is a solution of its CVRP instance. *)
Theorem C13_beam_search_on_cvrp_finishes_within_2n_steps :
  forall (n : nat), 1 <= n ->
  forall (clip tmp : Z -> Z) (top_p : Qc) (top_k : nat) (dec : cvrp_inst -> cvrp_st -> list Z),
    (forall i s, cvrp_wf i -> cvrp_solvable i -> n_of i = n -> length (dec i s) = S n) ->
  forall (W B : nat) (insts : list cvrp_inst) (starts : list nat) (bs0 : bstate (CVRP exact) Qc) (fuel : nat),
    length insts = B -> 0 < B ->
    (forall i, In i insts -> cvrp_wf i /\ cvrp_solvable i /\ n_of i = n) ->
    pre_hook (CVRP exact) Qc 1%Qc W insts starts = Some bs0 ->
    (forall r i a, nth_error insts (r mod B) = Some i -> nth_error starts r = Some a ->
       offered (E:=CVRP exact) i (reset (CVRP exact) i) a = true) ->
    2 * n <= fuel ->
    exists bs, loop (CVRP exact) Qc Qcmult 0%Qc Qcleb (lpQc clip tmp top_p top_k (CVRP exact) dec) fuel W bs0 = Some bs /\
      all_done (CVRP exact) Qc bs = true /\
      forall r, r < W * B -> exists (i : cvrp_inst) (h : list nat),
        nth_error insts (r mod B) = Some i /\
        nth_error (b_rows (CVRP exact) Qc bs) r = Some (i, run (E:=CVRP exact) i h, h) /\ h <> [] /\
        adm (E:=CVRP exact) i h = true /\
        (0 < score (CVRP exact) Qc Qcmult 1%Qc 0%Qc (lpQc clip tmp top_p top_k (CVRP exact) dec) i h)%Qc /\
        done (CVRP exact) i (run (E:=CVRP exact) i h) = true /\ cvrp_feasible i h.
Proof. exact beam_search_on_cvrp_finishes. Qed.
Print Assumptions C13_beam_search_on_cvrp_finishes_within_2n_steps.

(* ================================================================================================ *)
(** * 3. TSP: two hypotheses of the abstract totality theorems are false *)

(* "along admitted non-empty histories some action is offered" (env_nde of C13_beam_search_Qc; lp_nde of
   C13_no_assertion_without_dead_ends and C13_step_total_without_dead_ends) fails at finished rows: a well-formed
   2-city instance, the admitted history [0; 1], finished, nothing offered.  (C02's tsp_done_mask_empty shows the
   same at EVERY finished row: the hypothesis is too strong for fixed-length environments without a padding action.) *)
Theorem C13_abstract_no_dead_end_hypothesis_refuted_for_tsp :
  exists (i : tsp_inst) (h : list nat),
    tsp_wfb i = true /\ adm (E:=TSP) i h = true /\ h <> [] /\ done TSP i (run (E:=TSP) i h) = true /\
    forall a, offered (E:=TSP) i (run (E:=TSP) i h) a = false.
Proof. exact tsp_abstract_no_dead_end_refuted. Qed.
Print Assumptions C13_abstract_no_dead_end_hypothesis_refuted_for_tsp.

(* "the mask has N entries in every state" fails for every non-empty restriction of TSP: the mask is a state field *)
Theorem C13_abstract_mask_length_hypothesis_refuted_for_tsp :
  forall (P : tsp_inst -> bool) (N : nat), (exists i, P i = true) ->
    ~ (forall (i : inst (restrict TSP P)) (s : st (restrict TSP P)), length (mask (restrict TSP P) i s) = N).
Proof. exact tsp_abstract_mask_len_refuted. Qed.
Print Assumptions C13_abstract_mask_length_hypothesis_refuted_for_tsp.

(* ================================================================================================ *)
(** * 4. TSP: the instantiation that works, and the result on TSP itself *)

(* [pad Ev N]: the environment Ev with the mask replaced by N times True (and every step allowed) in the states whose
   mask is empty or has another length than N.  The hypotheses of C13_beam_search_Qc hold for the padded restricted
   TSP environment, for ALL its instances and states, with N = n *)
Theorem C13_padded_tsp_satisfies_abstract_hypotheses :
  forall (n : nat), 1 <= n -> forall (dec : tsp_inst -> tsp_st -> list Z),
    (forall i s, tsp_wfb i = true -> tsp_n i = n -> length (dec i s) = n) ->
    let E1 := pad (restrict TSP (tsp_okb n)) n in
    let dec1 := fun (i : inst E1) (s : st E1) => dec (under i) s in
    (forall (i : inst E1) (s : st E1), length (dec1 i s) = n) /\
    (forall (i : inst E1) (s : st E1), length (mask E1 i s) = n) /\
    (forall (i : inst E1) h, adm i h = true -> h <> [] -> exists a, offered i (run i h) a = true) /\
    (forall (i : inst E1) h a, adm i h = true -> h <> [] -> offered i (run i h) a = true -> stepok E1 i (run i h) a = true).
Proof. exact tsp_padded_satisfies_abstract_hypotheses. Qed.
Print Assumptions C13_padded_tsp_satisfies_abstract_hypotheses.

(* The statement is about [TSP] itself (no padding, plain instances).  For every n >= 1, every process_logits
   configuration, every decoder emitting n logits, every non-empty batch of instances passing the well-formedness
   check with n cities, every accepted list of offered forced first moves and EVERY fuel: the loop never raises;
   every row holds an instance of the batch and the history of its state, admitted by the TSP masks, with positive
   probability, and a tour of the instance whenever the row is finished. *)
Theorem C13_beam_search_on_tsp_never_raises_and_beams_feasible :
  forall (n : nat), 1 <= n ->
  forall (clip tmp : Z -> Z) (top_p : Qc) (top_k : nat) (dec : tsp_inst -> tsp_st -> list Z),
    (forall i s, tsp_wfb i = true -> tsp_n i = n -> length (dec i s) = n) ->
  forall (W B : nat) (insts : list tsp_inst) (starts : list nat) (bs0 : bstate TSP Qc) (fuel : nat),
    length insts = B -> 0 < B ->
    (forall i, In i insts -> tsp_wfb i = true /\ tsp_n i = n) ->
    pre_hook TSP Qc 1%Qc W insts starts = Some bs0 ->
    (forall r i a, nth_error insts (r mod B) = Some i -> nth_error starts r = Some a ->
       offered (E:=TSP) i (reset TSP i) a = true) ->
    exists bs, loop TSP Qc Qcmult 0%Qc Qcleb (lpQc clip tmp top_p top_k TSP dec) fuel W bs0 = Some bs /\
      forall r, r < W * B -> exists (i : tsp_inst) (h : list nat),
        nth_error insts (r mod B) = Some i /\
        nth_error (b_rows TSP Qc bs) r = Some (i, run (E:=TSP) i h, h) /\ h <> [] /\
        adm (E:=TSP) i h = true /\
        (0 < score TSP Qc Qcmult 1%Qc 0%Qc (lpQc clip tmp top_p top_k TSP dec) i h)%Qc /\
        (done TSP i (run (E:=TSP) i h) = true -> tsp_feasible i h).
Proof. exact beam_search_on_tsp. Qed.
Print Assumptions C13_beam_search_on_tsp_never_raises_and_beams_feasible.

(* a tour has n moves, the first forced by pre_hook: fuel for n - 1 steps is enough, the loop stops with ALL rows
   finished and every returned beam is a tour of its instance *)
Theorem C13_beam_search_on_tsp_finishes_within_n_minus_1_steps :
  forall (n : nat), 1 <= n ->
  forall (clip tmp : Z -> Z) (top_p : Qc) (top_k : nat) (dec : tsp_inst -> tsp_st -> list Z),
    (forall i s, tsp_wfb i = true -> tsp_n i = n -> length (dec i s) = n) ->
  forall (W B : nat) (insts : list tsp_inst) (starts : list nat) (bs0 : bstate TSP Qc) (fuel : nat),
    length insts = B -> 0 < B ->
    (forall i, In i insts -> tsp_wfb i = true /\ tsp_n i = n) ->
    pre_hook TSP Qc 1%Qc W insts starts = Some bs0 ->
    (forall r i a, nth_error insts (r mod B) = Some i -> nth_error starts r = Some a ->
       offered (E:=TSP) i (reset TSP i) a = true) ->
    n <= S fuel ->
    exists bs, loop TSP Qc Qcmult 0%Qc Qcleb (lpQc clip tmp top_p top_k TSP dec) fuel W bs0 = Some bs /\
      all_done TSP Qc bs = true /\
      forall r, r < W * B -> exists (i : tsp_inst) (h : list nat),
        nth_error insts (r mod B) = Some i /\
        nth_error (b_rows TSP Qc bs) r = Some (i, run (E:=TSP) i h, h) /\ h <> [] /\
        adm (E:=TSP) i h = true /\
        (0 < score TSP Qc Qcmult 1%Qc 0%Qc (lpQc clip tmp top_p top_k TSP dec) i h)%Qc /\
        done TSP i (run (E:=TSP) i h) = true /\ tsp_feasible i h.
Proof. exact beam_search_on_tsp_finishes. Qed.
Print Assumptions C13_beam_search_on_tsp_finishes_within_n_minus_1_steps.

(* ================================================================================================ *)
(** * 5. OP: beam search never raises and returns feasible beams *)

(* For every n (n = 0 included), every process_logits configuration, every decoder emitting n + 1 logits, every beam
   width, every non-empty batch of OP instances in the documented format (op_wf) with n customers, every accepted
   list of offered forced first moves and EVERY fuel: the loop never raises; every row holds an instance of the batch
   and the history of its state, admitted by the OP masks, with positive probability, and a solution of the
   orienteering instance whenever the row is finished. *)
Theorem C13_beam_search_on_op_never_raises_and_beams_feasible :
  forall (n : nat) (clip tmp : Z -> Z) (top_p : Qc) (top_k : nat) (dec : op_inst -> op_st -> list Z),
    (forall i s, op_wf i -> op_n i = n -> length (dec i s) = S n) ->
  forall (W B : nat) (insts : list op_inst) (starts : list nat) (bs0 : bstate (OP exact) Qc) (fuel : nat),
    length insts = B -> 0 < B ->
    (forall i, In i insts -> op_wf i /\ op_n i = n) ->
    pre_hook (OP exact) Qc 1%Qc W insts starts = Some bs0 ->
    (forall r i a, nth_error insts (r mod B) = Some i -> nth_error starts r = Some a ->
       offered (E:=OP exact) i (reset (OP exact) i) a = true) ->
    exists bs, loop (OP exact) Qc Qcmult 0%Qc Qcleb (lpQc clip tmp top_p top_k (OP exact) dec) fuel W bs0 = Some bs /\
      forall r, r < W * B -> exists (i : op_inst) (h : list nat),
        nth_error insts (r mod B) = Some i /\
        nth_error (b_rows (OP exact) Qc bs) r = Some (i, run (E:=OP exact) i h, h) /\ h <> [] /\
        adm (E:=OP exact) i h = true /\
        (0 < score (OP exact) Qc Qcmult 1%Qc 0%Qc (lpQc clip tmp top_p top_k (OP exact) dec) i h)%Qc /\
        (done (OP exact) i (run (E:=OP exact) i h) = true -> op_feasible i h).
Proof. exact beam_search_on_op. Qed.
Print Assumptions C13_beam_search_on_op_never_raises_and_beams_feasible.

(* C02 bound: an admitted episode none of whose proper prefixes is finished has at most max(n + 1, 2) moves, the first
   of them forced by pre_hook: fuel for max(n, 1) steps is enough, the loop stops with ALL rows finished and every
   returned beam is a solution of its orienteering instance *)
Theorem C13_beam_search_on_op_finishes_within_n_steps :
  forall (n : nat) (clip tmp : Z -> Z) (top_p : Qc) (top_k : nat) (dec : op_inst -> op_st -> list Z),
    (forall i s, op_wf i -> op_n i = n -> length (dec i s) = S n) ->
  forall (W B : nat) (insts : list op_inst) (starts : list nat) (bs0 : bstate (OP exact) Qc) (fuel : nat),
    length insts = B -> 0 < B ->
    (forall i, In i insts -> op_wf i /\ op_n i = n) ->
    pre_hook (OP exact) Qc 1%Qc W insts starts = Some bs0 ->
    (forall r i a, nth_error insts (r mod B) = Some i -> nth_error starts r = Some a ->
       offered (E:=OP exact) i (reset (OP exact) i) a = true) ->
    Nat.max n 1 <= fuel ->
    exists bs, loop (OP exact) Qc Qcmult 0%Qc Qcleb (lpQc clip tmp top_p top_k (OP exact) dec) fuel W bs0 = Some bs /\
      all_done (OP exact) Qc bs = true /\
      forall r, r < W * B -> exists (i : op_inst) (h : list nat),
        nth_error insts (r mod B) = Some i /\
        nth_error (b_rows (OP exact) Qc bs) r = Some (i, run (E:=OP exact) i h, h) /\ h <> [] /\
        adm (E:=OP exact) i h = true /\
        (0 < score (OP exact) Qc Qcmult 1%Qc 0%Qc (lpQc clip tmp top_p top_k (OP exact) dec) i h)%Qc /\
        done (OP exact) i (run (E:=OP exact) i h) = true /\ op_feasible i h.
Proof. exact beam_search_on_op_finishes. Qed.
Print Assumptions C13_beam_search_on_op_finishes_within_n_steps.

(* ================================================================================================ *)
(** * 6. PCTSP / SPCTSP: beam search never raises and returns feasible beams *)

(* The same for the prize-collecting environments (pctsp_wf contains n >= 1; [stoch i] = false is a PCTSPEnv row,
   [stoch i] = true an SPCTSPEnv row; a batch may even mix them). *)
Theorem C13_beam_search_on_pctsp_never_raises_and_beams_feasible :
  forall (n : nat) (clip tmp : Z -> Z) (top_p : Qc) (top_k : nat) (dec : pctsp_inst -> pctsp_st -> list Z),
    (forall i s, pctsp_wf i -> pn_of i = n -> length (dec i s) = S n) ->
  forall (W B : nat) (insts : list pctsp_inst) (starts : list nat) (bs0 : bstate (PCTSP exact) Qc) (fuel : nat),
    length insts = B -> 0 < B ->
    (forall i, In i insts -> pctsp_wf i /\ pn_of i = n) ->
    pre_hook (PCTSP exact) Qc 1%Qc W insts starts = Some bs0 ->
    (forall r i a, nth_error insts (r mod B) = Some i -> nth_error starts r = Some a ->
       offered (E:=PCTSP exact) i (reset (PCTSP exact) i) a = true) ->
    exists bs, loop (PCTSP exact) Qc Qcmult 0%Qc Qcleb (lpQc clip tmp top_p top_k (PCTSP exact) dec) fuel W bs0 = Some bs /\
      forall r, r < W * B -> exists (i : pctsp_inst) (h : list nat),
        nth_error insts (r mod B) = Some i /\
        nth_error (b_rows (PCTSP exact) Qc bs) r = Some (i, run (E:=PCTSP exact) i h, h) /\ h <> [] /\
        adm (E:=PCTSP exact) i h = true /\
        (0 < score (PCTSP exact) Qc Qcmult 1%Qc 0%Qc (lpQc clip tmp top_p top_k (PCTSP exact) dec) i h)%Qc /\
        (done (PCTSP exact) i (run (E:=PCTSP exact) i h) = true -> pctsp_feasible i h).
Proof. exact beam_search_on_pctsp. Qed.
Print Assumptions C13_beam_search_on_pctsp_never_raises_and_beams_feasible.

(* C02 bound n + 1 moves, the first forced: fuel for n steps finishes every row *)
Theorem C13_beam_search_on_pctsp_finishes_within_n_steps :
  forall (n : nat) (clip tmp : Z -> Z) (top_p : Qc) (top_k : nat) (dec : pctsp_inst -> pctsp_st -> list Z),
    (forall i s, pctsp_wf i -> pn_of i = n -> length (dec i s) = S n) ->
  forall (W B : nat) (insts : list pctsp_inst) (starts : list nat) (bs0 : bstate (PCTSP exact) Qc) (fuel : nat),
    length insts = B -> 0 < B ->
    (forall i, In i insts -> pctsp_wf i /\ pn_of i = n) ->
    pre_hook (PCTSP exact) Qc 1%Qc W insts starts = Some bs0 ->
    (forall r i a, nth_error insts (r mod B) = Some i -> nth_error starts r = Some a ->
       offered (E:=PCTSP exact) i (reset (PCTSP exact) i) a = true) ->
    n <= fuel ->
    exists bs, loop (PCTSP exact) Qc Qcmult 0%Qc Qcleb (lpQc clip tmp top_p top_k (PCTSP exact) dec) fuel W bs0 = Some bs /\
      all_done (PCTSP exact) Qc bs = true /\
      forall r, r < W * B -> exists (i : pctsp_inst) (h : list nat),
        nth_error insts (r mod B) = Some i /\
        nth_error (b_rows (PCTSP exact) Qc bs) r = Some (i, run (E:=PCTSP exact) i h, h) /\ h <> [] /\
        adm (E:=PCTSP exact) i h = true /\
        (0 < score (PCTSP exact) Qc Qcmult 1%Qc 0%Qc (lpQc clip tmp top_p top_k (PCTSP exact) dec) i h)%Qc /\
        done (PCTSP exact) i (run (E:=PCTSP exact) i h) = true /\ pctsp_feasible i h.
Proof. exact beam_search_on_pctsp_finishes. Qed.
Print Assumptions C13_beam_search_on_pctsp_finishes_within_n_steps.

(* ================================================================================================ *)
(** * Examples (non-vacuity): concrete batches and decoders satisfying every hypothesis, and their runs *)

(* two CVRP instances (demands 3 4 5 and 2 2 6, capacity 8), decoder logits [0; 2; 1; current node], beam width 2,
   forced first moves (1, 2) for the first and (1, 3) for the second instance *)
Example C13_compose_ex_cvrp_hypotheses :
  (forall i, In i [ex_cvrp_a; ex_cvrp_b] -> cvrp_wf i /\ cvrp_solvable i /\ n_of i = 3) /\
  (forall i s, cvrp_wf i -> cvrp_solvable i -> n_of i = 3 -> length (ex_cvrp_dec i s) = 4) /\
  (forall r i a, nth_error [ex_cvrp_a; ex_cvrp_b] (r mod 2) = Some i -> nth_error [1; 1; 2; 3] r = Some a ->
     offered (E:=CVRP exact) i (reset (CVRP exact) i) a = true).
Proof. exact ex_cvrp_hypotheses. Qed.

(* pre_hook accepts; with fuel 2n = 6 the loop stops after 3 steps: rows (history, cvrp_feasibleb, finished) and the
   accumulated probabilities.  Both instances return to the depot once (3 + 4 + 5 > 8, 2 + 2 + 6 > 8). *)
Example C13_compose_ex_cvrp_run :
  ex_cvrp_show (match pre_hook (CVRP exact) Qc 1%Qc 2 [ex_cvrp_a; ex_cvrp_b] [1; 1; 2; 3] with
                | Some bs0 => loop (CVRP exact) Qc Qcmult 0%Qc Qcleb ex_cvrp_lp 6 2 bs0 | None => None end)
  = Some ([([2; 1; 0; 3], true, true); ([3; 1; 0; 2], true, true); ([1; 2; 0; 3], true, true); ([1; 2; 0; 3], true, true)],
          [4 # 5; 4 # 7; 2 # 5; 2 # 5]%Q).
Proof. vm_compute. reflexivity. Qed.

(* out of fuel after 2 steps: still Some, admitted and positive, rows unfinished (the conditional form of section 2) *)
Example C13_compose_ex_cvrp_run_out_of_fuel :
  ex_cvrp_show (match pre_hook (CVRP exact) Qc 1%Qc 2 [ex_cvrp_a; ex_cvrp_b] [1; 1; 2; 3] with
                | Some bs0 => loop (CVRP exact) Qc Qcmult 0%Qc Qcleb ex_cvrp_lp 2 2 bs0 | None => None end)
  = Some ([([2; 1; 0], false, false); ([3; 1; 0], false, false); ([1; 2; 0], false, false); ([1; 2; 0], false, false)],
          [4 # 5; 4 # 7; 2 # 5; 2 # 5]%Q).
Proof. vm_compute. reflexivity. Qed.

(* two 3-city TSP instances, decoder logits [current node; 2; 1], beam width 2, forced first moves (0, 2) and (1, 2) *)
Example C13_compose_ex_tsp_hypotheses :
  (forall i, In i [ex_tsp_a; ex_tsp_b] -> tsp_wfb i = true /\ tsp_n i = 3) /\
  (forall i s, tsp_wfb i = true -> tsp_n i = 3 -> length (ex_tsp_dec i s) = 3) /\
  (forall r i a, nth_error [ex_tsp_a; ex_tsp_b] (r mod 2) = Some i -> nth_error [0; 1; 2; 2] r = Some a ->
     offered (E:=TSP) i (reset TSP i) a = true).
Proof. exact ex_tsp_hypotheses. Qed.

(* fuel n - 1 = 2: all four beams are finished tours *)
Example C13_compose_ex_tsp_run :
  ex_tsp_show (match pre_hook TSP Qc 1%Qc 2 [ex_tsp_a; ex_tsp_b] [0; 1; 2; 2] with
               | Some bs0 => loop TSP Qc Qcmult 0%Qc Qcleb ex_tsp_lp 2 2 bs0 | None => None end)
  = Some ([([0; 1; 2], true, true); ([1; 0; 2], true, true); ([2; 0; 1], true, true); ([1; 2; 0], true, true)],
          [2 # 3; 1 # 2; 1 # 2; 1 # 2]%Q).
Proof. vm_compute. reflexivity. Qed.

(* what the abstract "no dead end" hypothesis protects against does happen on TSP when a finished batch is stepped
   once more (the top-W of all -inf expansions selects a masked action) -- the loop never does that *)
Example C13_compose_ex_tsp_step_after_done_raises :
  match pre_hook TSP Qc 1%Qc 2 [ex_tsp_a; ex_tsp_b] [0; 1; 2; 2] with
  | Some bs0 => match loop TSP Qc Qcmult 0%Qc Qcleb ex_tsp_lp 2 2 bs0 with
                | Some bs => all_done TSP Qc bs = true /\ beam_step TSP Qc Qcmult 0%Qc Qcleb ex_tsp_lp 2 bs = None
                | None => False end
  | None => False
  end.
Proof. exact ex_tsp_step_after_done_raises. Qed.

(* two OP instances with 2 customers (distances 3, 4, 5; length limits 13 and 20), decoder logits [0; 2; current node],
   beam width 2, forced first moves (1, 2) for both *)
Example C13_compose_ex_op_hypotheses :
  (forall i, In i [ex_op_a; ex_op_b] -> op_wf i /\ op_n i = 2) /\
  (forall i s, op_wf i -> op_n i = 2 -> length (ex_op_dec i s) = 3) /\
  (forall r i a, nth_error [ex_op_a; ex_op_b] (r mod 2) = Some i -> nth_error [1; 1; 2; 2] r = Some a ->
     offered (E:=OP exact) i (reset (OP exact) i) a = true).
Proof. exact ex_op_hypotheses. Qed.

(* fuel max(n, 1) = 2: rows (history, op_feasibleb, finished) and the accumulated probabilities *)
Example C13_compose_ex_op_run :
  ex_op_show (match pre_hook (OP exact) Qc 1%Qc 2 [ex_op_a; ex_op_b] [1; 1; 2; 2] with
              | Some bs0 => loop (OP exact) Qc Qcmult 0%Qc Qcleb ex_op_lp 2 2 bs0 | None => None end)
  = Some ([([2; 1; 0], true, true); ([2; 1; 0], true, true); ([1; 2; 0], true, true); ([1; 2; 0], true, true)],
          [4 # 5; 4 # 5; 2 # 3; 2 # 3]%Q).
Proof. vm_compute. reflexivity. Qed.

(* one PCTSPEnv row and one SPCTSPEnv row with 3 customers, decoder logits [0; 2; 1; current node], beam width 2 *)
Example C13_compose_ex_pctsp_hypotheses :
  (forall i, In i [ex_pc_a; ex_pc_b] -> pctsp_wf i /\ pn_of i = 3) /\
  (forall i s, pctsp_wf i -> pn_of i = 3 -> length (ex_pc_dec i s) = 4) /\
  (forall r i a, nth_error [ex_pc_a; ex_pc_b] (r mod 2) = Some i -> nth_error [1; 1; 2; 3] r = Some a ->
     offered (E:=PCTSP exact) i (reset (PCTSP exact) i) a = true).
Proof. exact ex_pctsp_hypotheses. Qed.

(* fuel n = 3: rows (history, pctsp_feasibleb, finished) *)
Example C13_compose_ex_pctsp_run :
  ex_pc_show (match pre_hook (PCTSP exact) Qc 1%Qc 2 [ex_pc_a; ex_pc_b] [1; 1; 2; 3] with
              | Some bs0 => loop (PCTSP exact) Qc Qcmult 0%Qc Qcleb ex_pc_lp 3 2 bs0 | None => None end)
  = Some ([([1; 3; 2; 0], true, true); ([3; 1; 2; 0], true, true); ([1; 2; 3; 0], true, true); ([1; 2; 3; 0], true, true)],
          [1 # 2; 2 # 3; 2 # 5; 2 # 5]%Q).
Proof. vm_compute. reflexivity. Qed.

(* out of fuel after 1 step: Some, admitted, positive, unfinished and not yet solutions (the conditional form) *)
Example C13_compose_ex_pctsp_run_out_of_fuel :
  ex_pc_show (match pre_hook (PCTSP exact) Qc 1%Qc 2 [ex_pc_a; ex_pc_b] [1; 1; 2; 3] with
              | Some bs0 => loop (PCTSP exact) Qc Qcmult 0%Qc Qcleb ex_pc_lp 1 2 bs0 | None => None end)
  = Some ([([1; 2], false, false); ([3; 1], false, false); ([1; 3], false, false); ([1; 2], false, false)],
          [1 # 2; 2 # 3; 1 # 2; 1 # 2]%Q).
Proof. vm_compute. reflexivity. Qed.
