(* C03 for CVRP -- the reward formula (cyclic gather+roll length) equals the route-wise objective. *)
From Coq Require Import ZArith List Bool.
From RL4CO Require Import Base.Num Base.EnvSig Spec.Routes Env.CVRP Env.CVRPProofs.
Import ListNotations.
Open Scope Z_scope.

(* for ANY action list: minus the sum of consecutive distances along depot :: actions (cyclically), which is what
   _get_reward computes, equals minus the sum over routes of depot -> customers -> depot, whenever d(0,0)=0 *)
Theorem C03_cvrp_reward_is_objective :
  forall (i : cvrp_inst) (acts : list nat),
    mget (dist i) 0 0 = 0 ->
    - walk_len (dfun i) 0%nat acts = - sumZ (map (route_len (dfun i)) (routes acts)).
Proof. exact cvrp_reward_is_objective. Qed.
Print Assumptions C03_cvrp_reward_is_objective.

Example C03_cvrp_nonvacuous :
  let i := {| dem := [1; 1]; cap := 2; dist := [[0; 3; 4]; [3; 0; 5]; [4; 5; 0]]; tol := 0 |} in
  cvrp_reward i [1; 0; 2]%nat = -14 /\ cvrp_objective i [1; 0; 2]%nat = -14.
Proof. vm_compute. auto. Qed.
