(* C06 for SDVRP -- check_solution_validity against the split-delivery problem. Statements only. *)
From Coq Require Import ZArith List Bool.
From RL4CO Require Import Base.Num Base.EnvSig Spec.Routes Spec.SplitDelivery Env.CVRP Env.CVRPProofs Env.SDVRP Env.SDVRPProofs.
Import ListNotations.
Open Scope Z_scope.

(* for EVERY action list the checker (which has no tolerance constant: it tests `== 0`) decides exactly: existing
   nodes only, no two consecutive depot visits while demand is unserved (its documented format restriction), all
   demand served by the greedy decoding.  (Before the repair 56d7d8e of /repo it also demanded a depot visit somewhere
   in the list; that conjunct and the refutation witness are recorded as fixed in known_findings.json; the witness
   stays in the correspondence stream.) *)
Theorem C06_sdvrp_checker_iff :
  forall (i : cvrp_inst) (acts : list nat),
    cvrp_wf i ->
    (sd_checker exact i acts = true <->
     (forall a, In a acts -> (a <= n_of i)%nat) /\
     no_early_double_depot (0 :: dem i) (cap i) 0 false acts = true /\
     forallb (fun d => d =? 0) (greedy_rem (0 :: dem i) (cap i) 0 acts) = true).
Proof. exact sdvrp_checker_iff. Qed.
Print Assumptions C06_sdvrp_checker_iff.

(* soundness: accepted => the decoded plan solves the problem (existing nodes, no route above the capacity, every
   customer receives exactly its demand) *)
Theorem C06_sdvrp_checker_sound :
  forall (i : cvrp_inst) (acts : list nat),
    cvrp_wf i -> sd_checker exact i acts = true ->
    let p := greedy (0 :: dem i) (cap i) 0 acts in
    (forall v, In v p -> (fst v <= n_of i)%nat) /\
    Forall (fun r => sumZ (map snd r) <= cap i) (plan_routes p) /\
    (forall j, (1 <= j <= n_of i)%nat -> delivered_to j p = demand i j).
Proof. exact sdvrp_checker_sound. Qed.
Print Assumptions C06_sdvrp_checker_sound.

(* completeness: every solution without an early double depot is accepted, with or without a depot visit in the list *)
Theorem C06_sdvrp_checker_complete :
  forall (i : cvrp_inst) (acts : list nat),
    cvrp_wf i ->
    sd_plan_ok (n_of i) (demand i) (cap i) (greedy (0 :: dem i) (cap i) 0 acts) ->
    no_early_double_depot (0 :: dem i) (cap i) 0 false acts = true ->
    sd_checker exact i acts = true.
Proof. exact sdvrp_checker_complete. Qed.
Print Assumptions C06_sdvrp_checker_complete.

(* ... in particular every completed mask-made episode, padded or not (C01 + completeness; capacity > 0) *)
Theorem C06_sdvrp_checker_accepts_mask_made :
  forall (i : cvrp_inst) (acts : list nat),
    cvrp_wf i -> 0 < cap i -> adm (E:=SDVRP exact) i acts = true ->
    done (SDVRP exact) i (run (E:=SDVRP exact) i acts) = true ->
    sd_checker exact i acts = true.
Proof. exact sdvrp_checker_accepts_mask_made. Qed.
Print Assumptions C06_sdvrp_checker_accepts_mask_made.

Theorem C06_sdvrp_checker_rejects_unserved :
  forall (i : cvrp_inst) (acts : list nat) (j : nat),
    cvrp_wf i -> (1 <= j <= n_of i)%nat ->
    delivered_to j (greedy (0 :: dem i) (cap i) 0 acts) <> demand i j ->
    sd_checker exact i acts = false.
Proof. exact sdvrp_checker_rejects_unserved. Qed.
Print Assumptions C06_sdvrp_checker_rejects_unserved.

Theorem C06_sdvrp_checker_rejects_unknown_node :
  forall (i : cvrp_inst) (acts : list nat) (a : nat),
    cvrp_wf i -> In a acts -> (n_of i < a)%nat -> sd_checker exact i acts = false.
Proof. exact sdvrp_checker_rejects_unknown_node. Qed.
Print Assumptions C06_sdvrp_checker_rejects_unknown_node.

(* the former witness (everything served in one route, no depot visit in the list) is now accepted *)
Example C06_sdvrp_former_single_route_witness_accepted :
  let i := {| dem := [3; 4]; cap := 8; dist := []; tol := 0 |} in
  adm (E:=SDVRP exact) i [1; 2]%nat = true /\ done (SDVRP exact) i (run (E:=SDVRP exact) i [1; 2]%nat) = true /\
  sd_checker exact i [1; 2]%nat = true.
Proof. vm_compute. auto. Qed.

Example C06_sdvrp_nonvacuous :
  let i := {| dem := [40; 40]; cap := 64; dist := []; tol := 0 |} in
  sd_checker exact i [1; 2; 0; 2]%nat = true /\ sd_checker exact i [1; 2; 0; 2; 0; 0]%nat = true /\
  sd_checker exact i [1; 2; 0]%nat = false /\ sd_checker exact i [1; 0; 0; 2; 0; 2]%nat = false /\
  sd_checker exact i [1; 2; 0; 2; 2]%nat = true.
Proof. vm_compute. auto. Qed.
