(* C06 for SDVRP -- check_solution_validity against the split-delivery problem. Statements only. *)
From Coq Require Import ZArith List Bool.
From RL4CO Require Import Base.Num Base.EnvSig Spec.Routes Spec.SplitDelivery Env.CVRP Env.CVRPProofs Env.SDVRP Env.SDVRPProofs.
Import ListNotations.
Open Scope Z_scope.

(* the checker (which has no tolerance constant: it tests `== 0`) decides exactly: existing nodes only, SOME depot
   visit in the list, no two consecutive depot visits while demand is unserved, all demand served by the greedy decoding *)
Theorem C06_sdvrp_checker_iff :
  forall (i : cvrp_inst) (acts : list nat),
    cvrp_wf i -> 0 < cap i ->
    (sd_checker exact i acts = true <->
     (forall a, In a acts -> (a <= n_of i)%nat) /\ In 0%nat acts /\
     no_early_double_depot (0 :: dem i) (cap i) 0 false acts = true /\
     forallb (fun d => d =? 0) (greedy_rem (0 :: dem i) (cap i) 0 acts) = true).
Proof. exact sdvrp_checker_iff. Qed.
Print Assumptions C06_sdvrp_checker_iff.

(* soundness: accepted => the decoded plan solves the problem (existing nodes, no route above the capacity, every
   customer receives exactly its demand) *)
Theorem C06_sdvrp_checker_sound :
  forall (i : cvrp_inst) (acts : list nat),
    cvrp_wf i -> 0 < cap i -> sd_checker exact i acts = true ->
    let p := greedy (0 :: dem i) (cap i) 0 acts in
    (forall v, In v p -> (fst v <= n_of i)%nat) /\
    Forall (fun r => sumZ (map snd r) <= cap i) (plan_routes p) /\
    (forall j, (1 <= j <= n_of i)%nat -> delivered_to j p = demand i j).
Proof. intros i acts H1 H2 H3. exact (proj1 (sdvrp_checker_sound i acts H1 H2 H3)). Qed.
Print Assumptions C06_sdvrp_checker_sound.

(* completeness in the checker's format: a solution that contains a depot visit and no early double depot is accepted *)
Theorem C06_sdvrp_checker_complete :
  forall (i : cvrp_inst) (acts : list nat),
    cvrp_wf i -> 0 < cap i ->
    sd_plan_ok (n_of i) (demand i) (cap i) (greedy (0 :: dem i) (cap i) 0 acts) ->
    In 0%nat acts -> no_early_double_depot (0 :: dem i) (cap i) 0 false acts = true ->
    sd_checker exact i acts = true.
Proof. exact sdvrp_checker_complete. Qed.
Print Assumptions C06_sdvrp_checker_complete.

Theorem C06_sdvrp_checker_rejects_unserved :
  forall (i : cvrp_inst) (acts : list nat) (j : nat),
    cvrp_wf i -> 0 < cap i -> (1 <= j <= n_of i)%nat ->
    delivered_to j (greedy (0 :: dem i) (cap i) 0 acts) <> demand i j ->
    sd_checker exact i acts = false.
Proof. exact sdvrp_checker_rejects_unserved. Qed.
Print Assumptions C06_sdvrp_checker_rejects_unserved.

Theorem C06_sdvrp_checker_rejects_unknown_node :
  forall (i : cvrp_inst) (acts : list nat) (a : nat),
    cvrp_wf i -> 0 < cap i -> In a acts -> (n_of i < a)%nat -> sd_checker exact i acts = false.
Proof. exact sdvrp_checker_rejects_unknown_node. Qed.
Print Assumptions C06_sdvrp_checker_rejects_unknown_node.

(* FINDING (faithful model): completeness does NOT extend to the solutions the mask itself produces when everything is
   served in one route and the row is not padded: the list contains no depot visit, the depot column of the checker's
   vector still holds -capacity and the final `(demands == 0).all()` fails.  Reproduced on the real checker. *)
Theorem C06_sdvrp_checker_single_route_refuted :
  exists (i : cvrp_inst) (acts : list nat),
    cvrp_wf i /\ 0 < cap i /\ adm (E:=SDVRP exact) i acts = true /\
    done (SDVRP exact) i (run (E:=SDVRP exact) i acts) = true /\
    sd_plan_ok (n_of i) (demand i) (cap i) (greedy (0 :: dem i) (cap i) 0 acts) /\ sd_checker exact i acts = false.
Proof. exact sdvrp_checker_single_route_refuted. Qed.
Print Assumptions C06_sdvrp_checker_single_route_refuted.

Example C06_sdvrp_nonvacuous :
  let i := {| dem := [40; 40]; cap := 64; dist := []; tol := 0 |} in
  sd_checker exact i [1; 2; 0; 2]%nat = true /\ sd_checker exact i [1; 2; 0; 2; 0; 0]%nat = true /\
  sd_checker exact i [1; 2; 0]%nat = false /\ sd_checker exact i [1; 0; 0; 2; 0; 2]%nat = false /\
  sd_checker exact i [1; 2; 0; 2; 2]%nat = true.
Proof. vm_compute. auto. Qed.
