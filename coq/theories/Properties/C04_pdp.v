(* C04 for PDP -- PDPEnv._step contains no batch-global construct (every update is a per-row scatter/and), so the row
   model IS the batched model; what remains to state is that no padding exists.  The equality of batched and solo runs
   of the IMPLEMENTATION (masks, done, reward, current_node, i) is the differential part of the check. *)
From Coq Require Import ZArith List Bool.
From RL4CO Require Import Base.Num Base.EnvSig Spec.Tours Env.TourCore Env.PDP Env.PDPProofs.
Import ListNotations.
Open Scope Z_scope.

Theorem C04_pdp_no_padding :
  forall (i : pdp_inst) (acts pad : list nat),
    pdp_wf i -> adm (E:=PDP) i (acts ++ pad) = true -> done PDP i (run (E:=PDP) i acts) = true -> pad = [].
Proof. exact pdp_no_padding. Qed.
Print Assumptions C04_pdp_no_padding.
