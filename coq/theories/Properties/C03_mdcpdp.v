(* C03 for MDCPDP -- the reported reward is the objective of the executed solution. Statements only.
   md_reward A F i s = what _get_reward returns on the final TensorDict s (None = it raises), in units of [one i];
   md_objective = minus the cost of the routes read off the action list alone (Spec/MultiDepotPD.v):
   mode 0 sum of the closed (or open) route lengths, mode 1 the longest route, mode 2 (1 - w) * sum + w * sum of the
   distances travelled by the vehicles when they reach each delivery node. *)
From Coq Require Import ZArith List Bool.
From RL4CO Require Import Base.Num Base.EnvSig Spec.MultiDepotPD Env.MDCPDP Env.MDCPDPDefs Env.MDCPDPProofs Env.MDCPDPRefuted.
Import ListNotations.
Open Scope Z_scope.

(* all three implemented modes, closed and open problem: when the row is stepped alone (or the step-length repair
   fx_leg is in), and the return leg is accounted for (repair fx_ret, or the problem is open), the reward of a
   finished row is the objective of its episode *)
Theorem C03_mdcpdp_reward_is_objective :
  forall (F : mdfix) (i : md_inst) (acts : list nat),
    md_wfb i = true -> md_good F i = true -> solo i || fx_leg F = true ->
    adm (E:=MDCPDP exact F) i acts = true ->
    (forall p q, acts = p ++ q -> q <> [] -> done (MDCPDP exact F) i (run (E:=MDCPDP exact F) i p) = false) ->
    done (MDCPDP exact F) i (run (E:=MDCPDP exact F) i acts) = true ->
    fx_ret F = true \/ opn i = true -> (mode i < 3)%nat ->
    md_reward exact F i (run (E:=MDCPDP exact F) i acts)
    = md_objective (ndep i) (nloc i / 2) (fun a b => mget (dist i) a b) (opn i) (mode i) (one i) (lw i) acts.
Proof. intros F i acts Hwf Hg Hs. exact (md_reward_is_objective F i Hwf Hg Hs acts). Qed.
Print Assumptions C03_mdcpdp_reward_is_objective.

(* the code after the repairs: every instance, every batch position *)
Theorem C03_mdcpdp_reward_is_objective_repaired :
  forall (i : md_inst) (acts : list nat),
    md_wfb i = true ->
    adm (E:=MDCPDP exact repaired) i acts = true ->
    (forall p q, acts = p ++ q -> q <> [] -> done (MDCPDP exact repaired) i (run (E:=MDCPDP exact repaired) i p) = false) ->
    done (MDCPDP exact repaired) i (run (E:=MDCPDP exact repaired) i acts) = true ->
    (mode i < 3)%nat ->
    md_reward exact repaired i (run (E:=MDCPDP exact repaired) i acts) = spec_objective i acts.
Proof.
  intros i acts Hwf Ha Hl Hd Hm. apply (md_reward_is_objective repaired i Hwf (repaired_good i)); auto.
  cbn. apply Bool.orb_true_r.
Qed.
Print Assumptions C03_mdcpdp_reward_is_objective_repaired.

(* the code as it is, single depot, row stepped alone: the reward is the objective once the finished row has been
   stepped at least once more (any number k >= 1 of padding steps; closed and open problem) *)
Theorem C03_mdcpdp_as_is_single_depot_after_padding :
  forall (i : md_inst) (acts : list nat) (k : nat),
    md_wfb i = true -> ndep i = 1%nat -> length (caps i) = 1%nat -> start i = 0%nat -> solo i = true ->
    adm (E:=MDCPDP exact as_is) i acts = true ->
    (forall p q, acts = p ++ q -> q <> [] -> done (MDCPDP exact as_is) i (run (E:=MDCPDP exact as_is) i p) = false) ->
    done (MDCPDP exact as_is) i (run (E:=MDCPDP exact as_is) i acts) = true ->
    (1 <= k)%nat -> (mode i < 3)%nat ->
    md_reward exact as_is i (run (E:=MDCPDP exact as_is) i (acts ++ repeat (depot (run (E:=MDCPDP exact as_is) i acts)) k))
    = spec_objective i acts.
Proof.
  intros i acts k Hwf H1 H2 H3 Hs Ha Hl Hd Hk Hm.
  assert (Hg : md_good as_is i = true) by (apply as_is_good; auto).
  assert (Hs' : solo i || fx_leg as_is = true) by (rewrite Hs; reflexivity).
  destruct (md_padding as_is i Hwf Hg Hs' acts k Ha Hl Hd) as (_ & _ & _ & H). apply H; assumption.
Qed.
Print Assumptions C03_mdcpdp_as_is_single_depot_after_padding.

(* the code as it is, without the padding step: the way home is missing (tour 0 -> 3 -> 7 -> 0 on a line: -7, not -14) *)
Theorem C03_mdcpdp_refuted_return_leg :
  exists i acts, md_wfb i = true /\ md_good as_is i = true /\ adm (E:=MDCPDP exact as_is) i acts = true /\ live as_is i acts /\
                 done (MDCPDP exact as_is) i (run (E:=MDCPDP exact as_is) i acts) = true /\
                 md_reward exact as_is i (run (E:=MDCPDP exact as_is) i acts) = Some (-7) /\ spec_objective i acts = Some (-14).
Proof. exact md_reward_refuted_return_leg. Qed.
Print Assumptions C03_mdcpdp_refuted_return_leg.

(* the code as it is, two depots: all lengths are booked on the start depot, the min-max cost is the total (14, not 4) *)
Theorem C03_mdcpdp_refuted_minmax_booked_on_start_depot :
  exists i acts e, md_wfb i = true /\ length (caps i) = ndep i /\ adm (E:=MDCPDP exact as_is) i (acts ++ [e]) = true /\ live as_is i acts /\
                   done (MDCPDP exact as_is) i (run (E:=MDCPDP exact as_is) i acts) = true /\
                   md_reward exact as_is i (run (E:=MDCPDP exact as_is) i (acts ++ [e])) = Some (-14) /\ spec_objective i acts = Some (-4).
Proof. exact md_reward_refuted_minmax_booked_on_start_depot. Qed.
Print Assumptions C03_mdcpdp_refuted_minmax_booked_on_start_depot.

(* the code as it is, in a batch: the row adds the step lengths of batch row 0 (300 instead of 14) *)
Theorem C03_mdcpdp_refuted_row0_lengths :
  exists i l0 acts, md_wfb i = true /\ md_good as_is i = true /\
     md_reward exact as_is (with_batch i true []) (run (E:=MDCPDP exact as_is) (with_batch i true []) acts) = Some (-14) /\
     md_reward exact as_is (with_batch i false l0) (run (E:=MDCPDP exact as_is) (with_batch i false l0) acts) = Some (-300).
Proof. exact md_row_independent_refuted. Qed.
Print Assumptions C03_mdcpdp_refuted_row0_lengths.

(* reward_mode = "lateness_square" (documented, accepted by the constructor) always raises *)
Theorem C03_mdcpdp_lateness_square_raises :
  forall (A : arith) (F : mdfix) (i : md_inst) (s : md_st), mode i = 3%nat -> md_reward A F i s = None.
Proof. exact md_reward_lateness_square_raises. Qed.
Print Assumptions C03_mdcpdp_lateness_square_raises.

(* non-vacuity: lateness mode with weight 1/2 (one = 2, lw = 1) on a line, two depots, repaired code *)
Example C03_mdcpdp_nonvacuous :
  let i := {| ndep := 2; nloc := 4; caps := [1; 1]; dist := line_dist [0; 10; 1; 9; 2; 8]; start := 0; opn := false; mode := 2;
              one := 2; lw := 1; solo := false; legs0 := [] |} in
  let acts := [0; 2; 4; 0; 1; 3; 5]%nat in
  md_wfb i = true /\ adm (E:=MDCPDP exact repaired) i acts = true /\ liveb repaired i acts = true /\
  done (MDCPDP exact repaired) i (run (E:=MDCPDP exact repaired) i acts) = true /\
  md_reward exact repaired i (run (E:=MDCPDP exact repaired) i acts) = Some (-12) /\ spec_objective i acts = Some (-12).
Proof. vm_compute. repeat split; reflexivity. Qed.
