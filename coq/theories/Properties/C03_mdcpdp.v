(* C03 for MDCPDP -- the reported reward is the objective of the executed solution. Statements only.
   md_reward A F i s = what _get_reward returns on the final TensorDict s (None = it raises), in units of [one i]
   (mode 3: [one i]^2); md_objective = minus the cost of the routes read off the action list alone
   (Spec/MultiDepotPD.v): mode 0 sum of the closed (or open) route lengths, mode 1 the longest route,
   mode 2 (1 - w) * sum + w * (sum of the distances travelled by the vehicles when they reach each delivery node),
   mode 3 the same with the SQUARES of those distances.
   The running code is [repaired] (defects recorded as fixed in known_findings.json); [as_is] statements are history. *)
From Coq Require Import ZArith List Bool.
From RL4CO Require Import Base.Num Base.EnvSig Spec.MultiDepotPD Env.MDCPDP Env.MDCPDPDefs Env.MDCPDPProofs Env.MDCPDPRefuted.
Import ListNotations.
Open Scope Z_scope.

(* all four reward modes (minsum, minmax, lateness, lateness_square), closed and open problem, any documented capacity
   format, any start depot, any batch position: the reward of a finished row is the objective of its episode *)
Theorem C03_mdcpdp_reward_is_objective :
  forall (i : md_inst) (acts : list nat),
    md_wfb i = true ->
    adm (E:=MDCPDP exact repaired) i acts = true ->
    (forall p q, acts = p ++ q -> q <> [] -> done (MDCPDP exact repaired) i (run (E:=MDCPDP exact repaired) i p) = false) ->
    done (MDCPDP exact repaired) i (run (E:=MDCPDP exact repaired) i acts) = true ->
    (mode i <= 3)%nat ->
    md_reward exact repaired i (run (E:=MDCPDP exact repaired) i acts)
    = md_objective (ndep i) (nloc i / 2) (fun a b => mget (dist i) a b) (opn i) (mode i) (one i) (lw i) acts.
Proof.
  intros i acts Hwf Ha Hl Hd Hm.
  exact (md_reward_is_objective repaired i Hwf (repaired_good i) (repaired_solo i) acts Ha Hl Hd (or_introl eq_refl) (repaired_mode_ok i Hm)).
Qed.
Print Assumptions C03_mdcpdp_reward_is_objective.

(* reward_mode = "lateness_square" spelled out: the reward is minus
   (1 - w) * (sum of the route lengths) + w * (sum over delivery nodes of the squared distance travelled on arrival) *)
Theorem C03_mdcpdp_lateness_square_is_objective :
  forall (i : md_inst) (acts : list nat) (ps : pstate),
    md_wfb i = true -> mode i = 3%nat ->
    adm (E:=MDCPDP exact repaired) i acts = true ->
    (forall p q, acts = p ++ q -> q <> [] -> done (MDCPDP exact repaired) i (run (E:=MDCPDP exact repaired) i p) = false) ->
    done (MDCPDP exact repaired) i (run (E:=MDCPDP exact repaired) i acts) = true ->
    parse (ndep i) acts = Some ps ->
    md_reward exact repaired i (run (E:=MDCPDP exact repaired) i acts)
    = Some (- (one i * (one i - lw i) * sumZ (map (route_length (ndep i) (nloc i / 2) (fun a b => mget (dist i) a b) (opn i)) (all_routes ps))
               + lw i * sumZ (map (route_late_sq (ndep i) (nloc i / 2) (fun a b => mget (dist i) a b)) (all_routes ps)))).
Proof.
  intros i acts ps Hwf Hm Ha Hl Hd Hp.
  rewrite (md_reward_is_objective repaired i Hwf (repaired_good i) (repaired_solo i) acts Ha Hl Hd (or_introl eq_refl) (repaired_mode_ok i ltac:(rewrite Hm; apply le_n))).
  unfold spec_objective, md_objective, md_cost, hh, dfun. rewrite Hp, Hm. reflexivity.
Qed.
Print Assumptions C03_mdcpdp_lateness_square_is_objective.

(* the same for any subset F of the repairs: under [md_good F i], for a row stepped alone or with fx_leg, with the return
   leg accounted for (fx_ret or open problem), and a mode the code computes (mode <= 2, or 3 with fx_sq) *)
Theorem C03_mdcpdp_reward_is_objective_any_repair_set :
  forall (F : mdfix) (i : md_inst) (acts : list nat),
    md_wfb i = true -> md_good F i = true -> solo i || fx_leg F = true ->
    adm (E:=MDCPDP exact F) i acts = true ->
    (forall p q, acts = p ++ q -> q <> [] -> done (MDCPDP exact F) i (run (E:=MDCPDP exact F) i p) = false) ->
    done (MDCPDP exact F) i (run (E:=MDCPDP exact F) i acts) = true ->
    fx_ret F = true \/ opn i = true -> md_mode_ok F i = true ->
    md_reward exact F i (run (E:=MDCPDP exact F) i acts) = spec_objective i acts.
Proof. intros F i acts Hwf Hg Hs. exact (md_reward_is_objective F i Hwf Hg Hs acts). Qed.
Print Assumptions C03_mdcpdp_reward_is_objective_any_repair_set.

(* ---------------------------------------------------------------- HISTORY: the code before the repairs ([as_is]) *)
(* without a padding step the way home was missing (tour 0 -> 3 -> 7 -> 0 on a line: -7, not -14) *)
Theorem C03_mdcpdp_refuted_return_leg :
  exists i acts, md_wfb i = true /\ md_good as_is i = true /\ adm (E:=MDCPDP exact as_is) i acts = true /\ live as_is i acts /\
                 done (MDCPDP exact as_is) i (run (E:=MDCPDP exact as_is) i acts) = true /\
                 md_reward exact as_is i (run (E:=MDCPDP exact as_is) i acts) = Some (-7) /\ spec_objective i acts = Some (-14).
Proof. exact md_reward_refuted_return_leg. Qed.
Print Assumptions C03_mdcpdp_refuted_return_leg.

(* two depots: all lengths were booked on the start depot, the min-max cost was the total (14, not 4) *)
Theorem C03_mdcpdp_refuted_minmax_booked_on_start_depot :
  exists i acts e, md_wfb i = true /\ length (caps i) = ndep i /\ adm (E:=MDCPDP exact as_is) i (acts ++ [e]) = true /\ live as_is i acts /\
                   done (MDCPDP exact as_is) i (run (E:=MDCPDP exact as_is) i acts) = true /\
                   md_reward exact as_is i (run (E:=MDCPDP exact as_is) i (acts ++ [e])) = Some (-14) /\ spec_objective i acts = Some (-4).
Proof. exact md_reward_refuted_minmax_booked_on_start_depot. Qed.
Print Assumptions C03_mdcpdp_refuted_minmax_booked_on_start_depot.

(* in a batch the row added the step lengths of batch row 0 (300 instead of 14) *)
Theorem C03_mdcpdp_refuted_row0_lengths :
  exists i l0 acts, md_wfb i = true /\ md_good as_is i = true /\
     md_reward exact as_is (with_batch i true []) (run (E:=MDCPDP exact as_is) (with_batch i true []) acts) = Some (-14) /\
     md_reward exact as_is (with_batch i false l0) (run (E:=MDCPDP exact as_is) (with_batch i false l0) acts) = Some (-300).
Proof. exact md_row_independent_refuted. Qed.
Print Assumptions C03_mdcpdp_refuted_row0_lengths.

(* reward_mode = "lateness_square" always raised *)
Theorem C03_mdcpdp_refuted_lateness_square_raised :
  forall (A : arith) (i : md_inst) (s : md_st), mode i = 3%nat -> md_reward A as_is i s = None.
Proof. exact md_reward_lateness_square_raised. Qed.
Print Assumptions C03_mdcpdp_refuted_lateness_square_raised.

(* non-vacuity: two depots on a line, generator capacity format, row inside a batch (solo = false), weight 1/2 (one = 2, lw = 1):
   lateness: 1 * 8 + 1 * (2 + 2) = 12; lateness_square (units one^2): 2 * 1 * 8 + 1 * (4 + 4) = 24 *)
Example C03_mdcpdp_nonvacuous :
  let i := {| ndep := 2; nloc := 4; caps := [1]; dist := line_dist [0; 10; 1; 9; 2; 8]; start := 0; opn := false; mode := 2;
              one := 2; lw := 1; solo := false; legs0 := [] |} in
  let acts := [0; 2; 4; 0; 1; 3; 5]%nat in
  md_wfb i = true /\ adm (E:=MDCPDP exact repaired) i acts = true /\ liveb repaired i acts = true /\
  done (MDCPDP exact repaired) i (run (E:=MDCPDP exact repaired) i acts) = true /\
  md_reward exact repaired i (run (E:=MDCPDP exact repaired) i acts) = Some (-12) /\ spec_objective i acts = Some (-12).
Proof. vm_compute. repeat split; reflexivity. Qed.
Example C03_mdcpdp_nonvacuous_square :
  let i := {| ndep := 2; nloc := 4; caps := [1]; dist := line_dist [0; 10; 1; 9; 2; 8]; start := 1; opn := false; mode := 3;
              one := 2; lw := 1; solo := false; legs0 := [] |} in
  let acts := [0; 2; 4; 0; 1; 3; 5]%nat in
  md_wfb i = true /\ adm (E:=MDCPDP exact repaired) i acts = true /\ liveb repaired i acts = true /\
  done (MDCPDP exact repaired) i (run (E:=MDCPDP exact repaired) i acts) = true /\
  md_reward exact repaired i (run (E:=MDCPDP exact repaired) i acts) = Some (-24) /\ spec_objective i acts = Some (-24).
Proof. vm_compute. repeat split; reflexivity. Qed.
