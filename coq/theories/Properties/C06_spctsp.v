(* C06 for SPCTSPEnv -- check_solution_validity agrees with the problem definition. Statements only. *)
From Coq Require Import ZArith List Bool.
From RL4CO Require Import Base.Num Base.EnvSig Spec.Routes Env.PCTSP Env.PCTSPProofs.
Import ListNotations.
Open Scope Z_scope.

(* the verdict characterised exactly: accepted iff no customer occurs twice, only existing nodes occur, and the
   collected stochastic (revealed) prize is at least the checker's threshold (1 - 1e-5 as float32) or every customer occurs.
   This gives soundness up to exactly the checker's own tolerance, and each rejection named by the property. *)
Theorem C06_spctsp_checker_iff :
  forall (i : pctsp_inst), stoch i = true -> forall (acts : list nat),
    pctsp_checker exact i acts = true <->
    NoDup (customers acts) /\ (forall a, In a acts -> (a <= pn_of i)%nat) /\
    (pthr i <= sumZ (map (fun a => nth a (0 :: sprize i) 0) (customers acts)) \/ forall j, (1 <= j <= pn_of i)%nat -> In j acts).
Proof. exact checker_iff_stoch. Qed.
Print Assumptions C06_spctsp_checker_iff.

(* every action list valid by the problem definition (requirement 1.0, equality allowed) is accepted, whatever its
   shape: with or without the closing depot step, with padding, with interior depot steps *)
Theorem C06_spctsp_checker_complete :
  forall (i : pctsp_inst), stoch i = true -> forall (acts : list nat),
    pthr i <= preq i ->
    NoDup (customers acts) -> (forall a, In a acts -> (a <= pn_of i)%nat) ->
    (preq i <= sumZ (map (fun a => nth a (0 :: sprize i) 0) (customers acts)) \/ forall j, (1 <= j <= pn_of i)%nat -> In j acts) ->
    pctsp_checker exact i acts = true.
Proof. exact checker_complete_stoch. Qed.
Print Assumptions C06_spctsp_checker_complete.

Theorem C06_spctsp_checker_accepts_mask_made :
  forall (i : pctsp_inst) (acts : list nat),
    pctsp_wf i -> pthr i <= preq i -> adm (E:=PCTSP exact) i acts = true ->
    done (PCTSP exact) i (run (E:=PCTSP exact) i acts) = true ->
    pctsp_checker exact i acts = true.
Proof. exact pctsp_checker_accepts_mask_made. Qed.
Print Assumptions C06_spctsp_checker_accepts_mask_made.

Theorem C06_spctsp_checker_rejects_duplicate :
  forall (i : pctsp_inst) (acts : list nat) (j : nat),
    (1 <= j)%nat -> (2 <= occ j acts)%nat -> pctsp_checker exact i acts = false.
Proof. exact pctsp_checker_rejects_duplicate. Qed.
Print Assumptions C06_spctsp_checker_rejects_duplicate.

Theorem C06_spctsp_checker_rejects_shortfall :
  forall (i : pctsp_inst), stoch i = true -> forall (acts : list nat) (j : nat),
    sumZ (map (fun a => nth a (0 :: sprize i) 0) (customers acts)) < pthr i -> (1 <= j <= pn_of i)%nat -> ~ In j acts ->
    pctsp_checker exact i acts = false.
Proof. exact checker_rejects_shortfall_stoch. Qed.
Print Assumptions C06_spctsp_checker_rejects_shortfall.

Theorem C06_spctsp_checker_rejects_unknown_node :
  forall (i : pctsp_inst) (acts : list nat) (a : nat),
    In a acts -> (pn_of i < a)%nat -> pctsp_checker exact i acts = false.
Proof. exact pctsp_checker_rejects_unknown_node. Qed.
Print Assumptions C06_spctsp_checker_rejects_unknown_node.

Example C06_spctsp_nonvacuous :
  let i := {| dprize := [1; 1; 1]; sprize := [32; 32; 10]; stoch := true; pen := [3; 4; 5]; pdist := [[0; 3; 4; 5]; [3; 0; 5; 4]; [4; 5; 0; 3]; [5; 4; 3; 0]]; preq := 64; pthr := 63 |} in
  pctsp_checker exact i [1; 2; 0]%nat = true /\ pctsp_checker exact i [2; 1]%nat = true /\
  pctsp_checker exact i [2; 3; 0]%nat = false /\ pctsp_checker exact i [1; 2; 1; 0]%nat = false /\
  pctsp_checker exact i [3; 2; 1]%nat = true.
Proof. vm_compute. auto. Qed.
