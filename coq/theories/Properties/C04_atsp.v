(* C04 for ATSP -- the batch-global first-step test `batch_to_scalar(td["i"]) == 0` (row 0's counter decides for all rows) is benign, and there is no padding.
   (The equality of batched and solo runs of the IMPLEMENTATION is the differential part of the check.) *)
From Coq Require Import ZArith List Bool.
From RL4CO Require Import Base.Num Base.EnvSig Spec.Tours Env.TourCore Env.ATSP Env.ATSPProofs.
Import ListNotations.
Open Scope Z_scope.

(* one batched step (with the literal batch-global test) equals the row-wise steps whenever all rows of the batch
   share the step counter ... *)
Theorem C04_atsp_batched_step_is_rowwise :
  forall (i : atsp_inst) (rows : list atsp_st) (acts : list nat) (c : nat),
    (forall s, In s rows -> acnt s = c) ->
    atsp_bstep rows acts = map (fun sa => atsp_step i (fst sa) (snd sa)) (combine rows acts).
Proof. exact atsp_bstep_rowwise. Qed.
Print Assumptions C04_atsp_batched_step_is_rowwise.

(* ... which is an invariant of batched runs (it holds after reset, with c = 0, and is preserved) ... *)
Theorem C04_atsp_shared_counter_preserved :
  forall (rows : list atsp_st) (acts : list nat) (c : nat),
    (forall s, In s rows -> acnt s = c) -> forall s', In s' (atsp_bstep rows acts) -> acnt s' = S c.
Proof. exact atsp_bstep_keeps_counter. Qed.
Print Assumptions C04_atsp_shared_counter_preserved.

(* ... hence for whole episodes: row r of the batched run from reset, for ANY batch of instances and ANY per-step
   action vectors, is exactly the solo run of instance r on its own column of actions *)
Theorem C04_atsp_batched_run_is_rowwise :
  forall (insts : list atsp_inst) (steps : list (list nat)),
    Forall (fun av => length av = length insts) steps ->
    forall r dflt_i, (r < length insts)%nat ->
      nth r (atsp_brun (map atsp_reset insts) steps) (atsp_reset dflt_i)
      = run (E:=ATSP) (nth r insts dflt_i) (map (fun av => nth r av 0%nat) steps).
Proof. exact atsp_brun_rowwise. Qed.
Print Assumptions C04_atsp_batched_run_is_rowwise.

(* padding: a finished row has an empty mask, so no admitted action list continues past done *)
Theorem C04_atsp_no_padding :
  forall (i : atsp_inst) (acts pad : list nat),
    atsp_wf i -> adm (E:=ATSP) i (acts ++ pad) = true -> done ATSP i (run (E:=ATSP) i acts) = true -> pad = [].
Proof. exact atsp_no_padding. Qed.
Print Assumptions C04_atsp_no_padding.

(* non-vacuity: the batch-global test really differs from the row-wise one when counters differ *)
Example C04_atsp_test_differs_without_invariant :
  let s0 := {| afirst := 0; acur := 0; acnt := 0; aavail := [true; true]; adn := false |} in
  let s1 := {| afirst := 1; acur := 1; acnt := 1; aavail := [true; false]; adn := false |} in
  map afirst (atsp_bstep [s0; s1] [1; 0]%nat) = [1; 0]%nat /\
  afirst (atsp_step {| agen_n := 2; acost := [] |} s1 0) = 1%nat.
Proof. vm_compute. auto. Qed.
