(* C06 for SVRPEnv -- check_solution_validity against the problem definition. Statements only.
   The checker looks at the customers BEFORE each depot visit only: completeness holds, soundness holds for the routes
   closed by a depot visit; the refutation exhibits an accepted solution whose last route violates the skill
   requirement.  For the code as it is, more depot visits than technicians raise an IndexError (second refutation). *)
From Coq Require Import ZArith List Bool.
From RL4CO Require Import Base.Num Base.EnvSig Spec.Routes Env.SVRP Env.SVRPProofs.
Import ListNotations.
Open Scope Z_scope.

(* every feasible action list of sufficient length is accepted: always for the repaired behaviour; for the code as it
   is, when it contains at most as many depot visits as there are technicians *)
Theorem C06_svrp_checker_complete :
  forall (fx : bool) (i : svrp_inst) (acts : list nat),
    svrp_wf i -> svrp_feasible i acts -> (sn_of i <= length acts)%nat ->
    (fx = true \/ (occ 0 acts <= sm_of i)%nat) ->
    svrp_checker fx i acts = true.
Proof. exact svrp_checker_complete. Qed.
Print Assumptions C06_svrp_checker_complete.

Theorem C06_svrp_checker_accepts_mask_made :
  forall (fx : bool) (i : svrp_inst) (acts : list nat),
    svrp_wf i -> adm (E:=SVRP fx) i acts = true -> done (SVRP fx) i (run (E:=SVRP fx) i acts) = true ->
    (fx = true \/ (occ 0 acts <= sm_of i)%nat) ->
    svrp_checker fx i acts = true.
Proof. exact svrp_checker_accepts_mask_made. Qed.
Print Assumptions C06_svrp_checker_accepts_mask_made.

(* accepted => every customer exactly once, only existing nodes, and every route CLOSED by a depot visit within the
   skill of the technician the code indexes for it ([tidx]: k itself; clamped to m - 1 for the repaired behaviour) *)
Theorem C06_svrp_checker_sound_closed_routes :
  forall (fx : bool) (i : svrp_inst) (acts : list nat),
    svrp_checker fx i acts = true ->
    (forall j, (1 <= j <= sn_of i)%nat -> occ j acts = 1%nat) /\
    (forall a, In a acts -> (a <= sn_of i)%nat) /\
    (forall q r, nth_error (routes acts) q = Some r -> (S q < length (routes acts))%nat ->
       exists t, tidx fx (sm_of i) q = Some t /\ Forall (fun j => sskill i j <= tskill i t) r).
Proof. exact svrp_checker_sound_closed. Qed.
Print Assumptions C06_svrp_checker_sound_closed_routes.

(* accepted, ending with a depot visit, at most m depot visits => feasible *)
Theorem C06_svrp_checker_sound_if_closed :
  forall (fx : bool) (i : svrp_inst) (acts : list nat),
    svrp_checker fx i acts = true -> last (routes acts) [] = [] -> (occ 0 acts <= sm_of i)%nat ->
    svrp_feasible i acts.
Proof. exact svrp_checker_sound_if_closed. Qed.
Print Assumptions C06_svrp_checker_sound_if_closed.

Theorem C06_svrp_checker_rejects_missing :
  forall (fx : bool) (i : svrp_inst) (acts : list nat) (j : nat),
    (1 <= j <= sn_of i)%nat -> ~ In j acts -> svrp_checker fx i acts = false.
Proof. exact svrp_checker_rejects_missing. Qed.
Print Assumptions C06_svrp_checker_rejects_missing.

Theorem C06_svrp_checker_rejects_duplicate :
  forall (fx : bool) (i : svrp_inst) (acts : list nat) (j : nat),
    (1 <= j <= sn_of i)%nat -> (2 <= occ j acts)%nat -> svrp_checker fx i acts = false.
Proof. exact svrp_checker_rejects_duplicate. Qed.
Print Assumptions C06_svrp_checker_rejects_duplicate.

Theorem C06_svrp_checker_rejects_unmet_skill_in_closed_route :
  forall (fx : bool) (i : svrp_inst) (acts : list nat) (q : nat) (r : list nat) (j : nat),
    nth_error (routes acts) q = Some r -> (S q < length (routes acts))%nat -> In j r ->
    (forall t, tidx fx (sm_of i) q = Some t -> tskill i t < sskill i j) ->
    svrp_checker fx i acts = false.
Proof. exact svrp_checker_rejects_unmet_skill. Qed.
Print Assumptions C06_svrp_checker_rejects_unmet_skill_in_closed_route.

(* the full soundness statement is false: the customers after the last depot visit are never checked *)
Theorem C06_svrp_checker_sound_refuted :
  exists i acts, svrp_wfb i = true /\ svrp_solvableb i = true /\
    svrp_checker false i acts = true /\ ~ svrp_feasible i acts.
Proof. exact svrp_checker_sound_refuted. Qed.
Print Assumptions C06_svrp_checker_sound_refuted.

(* the code as it is rejects a feasible padded solution with more depot visits than technicians *)
Theorem C06_svrp_checker_complete_refuted :
  exists i acts, svrp_wfb i = true /\ svrp_feasible i acts /\ (sn_of i <= length acts)%nat /\ svrp_checker false i acts = false.
Proof. exact svrp_checker_complete_refuted. Qed.
Print Assumptions C06_svrp_checker_complete_refuted.

Example C06_svrp_nonvacuous :
  let i := {| techs := [2; 5; 9]; skills := [2; 5; 6]; tcosts := [1; 2; 3]; sdist := [] |} in
  svrp_checker false i [1; 0; 2; 0; 3]%nat = true /\ svrp_checker false i [2; 0; 1; 0; 3]%nat = false /\
  svrp_checker false i [1; 0; 2; 0]%nat = false /\ svrp_checker false i [1; 0; 3; 2]%nat = true.
Proof. vm_compute. repeat split; reflexivity. Qed.
