(* C06 for SVRPEnv -- check_solution_validity against the problem definition. Statements only.
   [fx = true] is the code in /repo (fixes 9849631 + 335bbfb: technician index clamped, no customer after m or more depot
   visits), [fx = false] the code before them; the correspondence runs at [svrp_repaired].
   The checker looks at the customers BEFORE each depot visit only: completeness holds (for fx = true without any
   condition, padded lists included), soundness holds for the routes closed by a depot visit -- exactly the
   specification's condition, including "a segment after m or more depot visits is empty"; the refutation exhibits an
   accepted solution whose LAST route violates the skill requirement (open finding).  Before the fixes, more depot
   visits than technicians raised an IndexError (second refutation, fx = false). *)
From Coq Require Import ZArith List Bool.
From RL4CO Require Import Base.Num Base.EnvSig Spec.Routes Env.SVRP Env.SVRPProofs.
Import ListNotations.
Open Scope Z_scope.

(* every feasible action list of sufficient length is accepted: always for the repaired behaviour; for the code as it
   is, when it contains at most as many depot visits as there are technicians *)
Theorem C06_svrp_checker_complete :
  forall (fx : bool) (i : svrp_inst) (acts : list nat),
    svrp_wf i -> svrp_feasible i acts -> (sn_of i <= length acts)%nat ->
    (fx = true \/ (occ 0 acts <= sm_of i)%nat) ->
    svrp_checker fx i acts = true.
Proof. exact svrp_checker_complete. Qed.
Print Assumptions C06_svrp_checker_complete.

Theorem C06_svrp_checker_accepts_mask_made :
  forall (fx : bool) (i : svrp_inst) (acts : list nat),
    svrp_wf i -> adm (E:=SVRP fx) i acts = true -> done (SVRP fx) i (run (E:=SVRP fx) i acts) = true ->
    (fx = true \/ (occ 0 acts <= sm_of i)%nat) ->
    svrp_checker fx i acts = true.
Proof. exact svrp_checker_accepts_mask_made. Qed.
Print Assumptions C06_svrp_checker_accepts_mask_made.

(* accepted => every customer exactly once, only existing nodes, and every route CLOSED by a depot visit (q-th segment, a
   later segment exists) satisfies the specification: if it is non-empty, q is below the number of technicians -- a
   segment after m or more depot visits must be empty -- and every customer on it requires at most technician q's skill *)
Theorem C06_svrp_checker_sound_closed_routes :
  forall (fx : bool) (i : svrp_inst) (acts : list nat),
    svrp_checker fx i acts = true ->
    (forall j, (1 <= j <= sn_of i)%nat -> occ j acts = 1%nat) /\
    (forall a, In a acts -> (a <= sn_of i)%nat) /\
    (forall q r, nth_error (routes acts) q = Some r -> (S q < length (routes acts))%nat ->
       (r <> [] -> (q < sm_of i)%nat) /\ Forall (fun j => sskill i j <= tskill i q) r).
Proof. exact svrp_checker_sound_closed. Qed.
Print Assumptions C06_svrp_checker_sound_closed_routes.

(* accepted and ending with a depot visit (any amount of padding) => feasible *)
Theorem C06_svrp_checker_sound_if_closed :
  forall (fx : bool) (i : svrp_inst) (acts : list nat),
    svrp_checker fx i acts = true -> last (routes acts) [] = [] -> svrp_feasible i acts.
Proof. exact svrp_checker_sound_if_closed. Qed.
Print Assumptions C06_svrp_checker_sound_if_closed.

Theorem C06_svrp_checker_rejects_missing :
  forall (fx : bool) (i : svrp_inst) (acts : list nat) (j : nat),
    (1 <= j <= sn_of i)%nat -> ~ In j acts -> svrp_checker fx i acts = false.
Proof. exact svrp_checker_rejects_missing. Qed.
Print Assumptions C06_svrp_checker_rejects_missing.

Theorem C06_svrp_checker_rejects_duplicate :
  forall (fx : bool) (i : svrp_inst) (acts : list nat) (j : nat),
    (1 <= j <= sn_of i)%nat -> (2 <= occ j acts)%nat -> svrp_checker fx i acts = false.
Proof. exact svrp_checker_rejects_duplicate. Qed.
Print Assumptions C06_svrp_checker_rejects_duplicate.

Theorem C06_svrp_checker_rejects_unmet_skill_in_closed_route :
  forall (fx : bool) (i : svrp_inst) (acts : list nat) (q : nat) (r : list nat) (j : nat),
    nth_error (routes acts) q = Some r -> (S q < length (routes acts))%nat -> In j r ->
    tskill i q < sskill i j ->
    svrp_checker fx i acts = false.
Proof. exact svrp_checker_rejects_unmet_skill. Qed.
Print Assumptions C06_svrp_checker_rejects_unmet_skill_in_closed_route.

(* customers in a closed route that starts after as many depot visits as there are technicians (or more): rejected *)
Theorem C06_svrp_checker_rejects_route_after_last_technician :
  forall (fx : bool) (i : svrp_inst) (acts : list nat) (q : nat) (r : list nat),
    nth_error (routes acts) q = Some r -> (S q < length (routes acts))%nat -> r <> [] -> (sm_of i <= q)%nat ->
    svrp_checker fx i acts = false.
Proof. exact svrp_checker_rejects_route_after_last_technician. Qed.
Print Assumptions C06_svrp_checker_rejects_route_after_last_technician.

(* the full soundness statement is false: the customers after the last depot visit are never checked *)
Theorem C06_svrp_checker_sound_refuted :
  exists i acts, svrp_wfb i = true /\ svrp_solvableb i = true /\
    svrp_checker false i acts = true /\ ~ svrp_feasible i acts.
Proof. exact svrp_checker_sound_refuted. Qed.
Print Assumptions C06_svrp_checker_sound_refuted.

(* the code as it is rejects a feasible padded solution with more depot visits than technicians *)
Theorem C06_svrp_checker_complete_refuted :
  exists i acts, svrp_wfb i = true /\ svrp_feasible i acts /\ (sn_of i <= length acts)%nat /\ svrp_checker false i acts = false.
Proof. exact svrp_checker_complete_refuted. Qed.
Print Assumptions C06_svrp_checker_complete_refuted.

Example C06_svrp_nonvacuous :
  let i := {| techs := [2; 5; 9]; skills := [2; 5; 6]; tcosts := [1; 2; 3]; sdist := [] |} in
  svrp_checker true i [1; 0; 2; 0; 3]%nat = true /\ svrp_checker true i [2; 0; 1; 0; 3]%nat = false /\
  svrp_checker true i [1; 0; 2; 0]%nat = false /\ svrp_checker true i [1; 0; 3; 2]%nat = true /\
  (* padding beyond the last technician is accepted, customers there are not *)
  svrp_checker true i [1; 0; 2; 0; 3; 0; 0; 0; 0]%nat = true /\ svrp_checker true i [0; 0; 0; 1; 2; 3; 0]%nat = false /\
  svrp_checker false i [1; 0; 2; 0; 3]%nat = true /\ svrp_checker false i [1; 0; 2; 0; 3; 0; 0]%nat = false.
Proof. vm_compute. repeat split; reflexivity. Qed.
