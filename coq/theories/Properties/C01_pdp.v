(* C01 for PDP (force_start_at_depot False and True) -- mask-confined episodes yield feasible pickup-and-delivery
   routes. Statements only. *)
From Coq Require Import ZArith List Bool.
From RL4CO Require Import Base.Num Base.EnvSig Spec.Tours Env.TourCore Env.PDP Env.PDPProofs.
Import ListNotations.
Open Scope Z_scope.

(* For every instance in the documented format (n even, n >= 2) and EVERY action list whose actions each lie in the
   mask of the state they are taken in, once the row reports done: the route (depot :: actions when the depot is
   implicit, the actions themselves with force_start_at_depot) contains every node 0..n exactly once, starts at the
   depot, and every pickup k in 1..n/2 comes before its delivery k + n/2. *)
Theorem C01_pdp_mask_sound :
  forall (i : pdp_inst) (acts : list nat),
    pdp_wf i -> adm (E:=PDP) i acts = true -> done PDP i (run (E:=PDP) i acts) = true ->
    let n := pgen_n i in
    let route := if pforce i then acts else 0%nat :: acts in
    ((forall j, (j < n + 1)%nat -> occ j route = 1%nat) /\ (forall a, In a route -> (a < n + 1)%nat)) /\
    (exists rest, route = 0%nat :: rest) /\
    (forall k, (1 <= k <= n / 2)%nat -> (pos k route < pos (k + n / 2) route)%nat).
Proof. exact pdp_mask_sound_unfolded. Qed.
Print Assumptions C01_pdp_mask_sound.

Example C01_pdp_nonvacuous :
  let i := {| pgen_n := 4; pforce := false; pdist := [[0;1;2;3;4]; [1;0;1;2;3]; [2;1;0;1;2]; [3;2;1;0;1]; [4;3;2;1;0]] |} in let j := {| pgen_n := 4; pforce := true; pdist := [[0;1;2;3;4]; [1;0;1;2;3]; [2;1;0;1;2]; [3;2;1;0;1]; [4;3;2;1;0]] |} in
  pdp_wfb i = true /\ adm (E:=PDP) i [2; 1; 4; 3]%nat = true /\ done PDP i (run (E:=PDP) i [2; 1; 4; 3]%nat) = true /\
  adm (E:=PDP) i [2; 3]%nat = false /\
  pdp_wfb j = true /\ adm (E:=PDP) j [0; 2; 1; 4; 3]%nat = true /\ done PDP j (run (E:=PDP) j [0; 2; 1; 4; 3]%nat) = true /\
  adm (E:=PDP) j [2]%nat = false.
Proof. vm_compute. repeat split. Qed.
