(* C01 for PCTSPEnv -- mask-confined episodes yield feasible solutions. Statements only.
   Model: Env/PCTSP.v with [stoch i = false]: the prize the environment accumulates and compares with 1.0 is the
   deterministic prize td["deterministic_prize"]. *)
From Coq Require Import ZArith List Bool.
From RL4CO Require Import Base.Num Base.EnvSig Spec.Routes Env.PCTSP Env.PCTSPProofs.
Import ListNotations.
Open Scope Z_scope.

(* For every instance in the documented format (one prize of each kind and one penalty per customer, n >= 1) and EVERY
   action list whose actions each lie in the mask of the state they are taken in, once the row reports done: the
   action list is a sequence of non-depot nodes followed by one or more depot steps (one closed tour from the depot);
   no customer occurs twice; only existing nodes occur; and the deterministic prize collected over the visited customers
   reaches the requirement (the code's literal 1.0) unless every customer is visited. *)
Theorem C01_pctsp_mask_sound :
  forall (i : pctsp_inst), stoch i = false -> forall (acts : list nat),
    pctsp_wf i ->
    adm (E:=PCTSP exact) i acts = true ->
    done (PCTSP exact) i (run (E:=PCTSP exact) i acts) = true ->
    (exists cs k, acts = cs ++ repeat 0%nat (S k) /\ Forall (fun x => x <> 0%nat) cs) /\
    NoDup (customers acts) /\
    (forall a, In a acts -> (a <= pn_of i)%nat) /\
    (preq i <= sumZ (map (fun a => nth a (0 :: dprize i) 0) (customers acts)) \/ forall j, (1 <= j <= pn_of i)%nat -> In j acts).
Proof. exact mask_sound_det. Qed.
Print Assumptions C01_pctsp_mask_sound.

(* non-vacuity, with the requirement met with equality (32/64 + 32/64 = 1) *)
Example C01_pctsp_nonvacuous :
  let i := {| dprize := [32; 32; 10]; sprize := [1; 1; 1]; stoch := false; pen := [3; 4; 5]; pdist := [[0; 3; 4; 5]; [3; 0; 5; 4]; [4; 5; 0; 3]; [5; 4; 3; 0]]; preq := 64; pthr := 63 |} in
  pctsp_wfb i = true /\ adm (E:=PCTSP exact) i [1; 2; 0]%nat = true /\
  done (PCTSP exact) i (run (E:=PCTSP exact) i [1; 2; 0]%nat) = true /\
  adm (E:=PCTSP exact) i [1; 0]%nat = false /\ adm (E:=PCTSP exact) i [1; 3; 0]%nat = false.
Proof. vm_compute. auto. Qed.
