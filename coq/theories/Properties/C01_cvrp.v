(* C01 for CVRP -- mask-confined episodes yield feasible solutions. Statements only. *)
From Coq Require Import ZArith List Bool.
From RL4CO Require Import Base.Num Base.EnvSig Spec.Routes Env.CVRP Env.CVRPProofs.
Import ListNotations.
Open Scope Z_scope.

(* For every instance in the documented format (non-negative demands and capacity) and EVERY action list whose
   actions each lie in the mask of the state they are taken in, once the row reports done the action list visits
   every customer exactly once, uses only existing nodes, and no route (maximal depot-free segment) carries more
   than the capacity. *)
Theorem C01_cvrp_mask_sound :
  forall (i : cvrp_inst) (acts : list nat),
    cvrp_wf i ->
    adm (E:=CVRP exact) i acts = true ->
    done (CVRP exact) i (run (E:=CVRP exact) i acts) = true ->
    (forall j, (1 <= j <= n_of i)%nat -> occ j acts = 1%nat) /\
    (forall a, In a acts -> (a <= n_of i)%nat) /\
    Forall (fun r => sumZ (map (demand i) r) <= cap i) (routes acts).
Proof. exact cvrp_mask_sound. Qed.
Print Assumptions C01_cvrp_mask_sound.

Example C01_cvrp_nonvacuous :
  let i := {| dem := [3; 4; 5]; cap := 8; dist := []; tol := 0 |} in
  cvrp_wfb i = true /\ adm (E:=CVRP exact) i [1; 3; 0; 2]%nat = true /\
  done (CVRP exact) i (run (E:=CVRP exact) i [1; 3; 0; 2]%nat) = true.
Proof. vm_compute. auto. Qed.
