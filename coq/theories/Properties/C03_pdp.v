(* C03 for PDP -- the reward formula (depot prepended, gather + roll + norm) equals minus the closed route length. *)
From Coq Require Import ZArith List Bool.
From RL4CO Require Import Base.Num Base.EnvSig Spec.Tours Env.TourCore Env.PDP Env.PDPProofs.
Import ListNotations.
Open Scope Z_scope.

(* for ANY action list (with force_start_at_depot: any list that starts with the depot visit): what _get_reward
   computes equals minus the length of the closed tour along the route (depot :: actions, resp. the actions), when the
   distance data is symmetric with d(depot, depot) = 0 (true of Euclidean distances; checked on every instance) *)
Theorem C03_pdp_reward_is_objective :
  forall (i : pdp_inst) (acts : list nat),
    (forall a b, pdp_d i a b = pdp_d i b a) -> pdp_d i 0 0 = 0 ->
    (pforce i = true -> exists rest, acts = 0%nat :: rest) ->
    pdp_reward i acts = - closed_len (pdp_d i) (if pforce i then acts else 0%nat :: acts).
Proof. exact pdp_reward_is_objective. Qed.
Print Assumptions C03_pdp_reward_is_objective.

Example C03_pdp_nonvacuous :
  let i := {| pgen_n := 4; pforce := false; pdist := [[0;1;2;3;4]; [1;0;1;2;3]; [2;1;0;1;2]; [3;2;1;0;1]; [4;3;2;1;0]] |} in let j := {| pgen_n := 4; pforce := true; pdist := [[0;1;2;3;4]; [1;0;1;2;3]; [2;1;0;1;2]; [3;2;1;0;1]; [4;3;2;1;0]] |} in
  pdp_reward i [2; 1; 4; 3]%nat = -10 /\ closed_len (pdp_d i) [0; 2; 1; 4; 3]%nat = 10 /\
  pdp_reward j [0; 2; 1; 4; 3]%nat = -10.
Proof. vm_compute. auto. Qed.
