(* C06 for CVRPTW -- check_solution_validity against the problem definition. Statements only.
   [cvrptw_checker exact false] is the checker as coded (arrival times truncated by .int() to whole time units [tu i];
   the depot deadline [hz0 i] of batch row 0 used for every row); [cvrptw_checker exact true] is the repaired checker
   (no truncation, the row's own depot deadline). *)
From Coq Require Import ZArith List Bool.
From RL4CO Require Import Base.Num Base.EnvSig Spec.Routes Spec.TimeWindows Env.CVRP Env.CVRPProofs Env.CVRPTW Env.CVRPTWProofs.
Import ListNotations.
Open Scope Z_scope.

(* COMPLETENESS (as coded and repaired): on instances in the documented format with strict windows tw_lo < tw_hi
   (generator step 7), symmetric depot legs and the return bound, when the horizon the checker reads is the row's own,
   every feasible action list of sufficient length (incl. ones that never return to the depot) is accepted *)
Theorem C06_cvrptw_checker_complete :
  forall (fx : bool) (i : cvrptw_inst) (acts : list nat),
    cvrptw_wf i ->
    ((forall j, (j <= tn_of i)%nat -> lo i j < hi i j) /\ (forall j, (j <= tn_of i)%nat -> dd i 0 j = dd i j 0)) ->
    (forall j, (j <= tn_of i)%nat -> hi i j + du i j + dd i j 0 <= hi i 0) ->
    (if fx then hi i 0 else hz0 i) = hi i 0 ->
    0 <= tol (base i) ->
    cvrptw_feasible i acts -> (tn_of i <= length acts)%nat ->
    cvrptw_checker exact fx i acts = true.
Proof. exact cvrptw_checker_complete. Qed.
Print Assumptions C06_cvrptw_checker_complete.

(* SOUNDNESS AT FULL STRENGTH IS FALSE for the checker as coded ... *)
Theorem C06_cvrptw_checker_sound_refuted :
  ~ (forall i acts, cvrptw_wf i ->
       (forall j, (j <= tn_of i)%nat -> hi i j + du i j + dd i j 0 <= hi i 0) ->
       hz0 i = hi i 0 -> 0 <= tol (base i) ->
       cvrptw_checker exact false i acts = true ->
       (forall j, (1 <= j <= tn_of i)%nat -> occ j acts = 1%nat) /\
       (forall a, In a acts -> (a <= tn_of i)%nat) /\
       Forall (fun r => sumZ (map (demand (base i)) r) <= cap (base i) + tol (base i)) (routes acts) /\
       Forall (fun r => route_times_ok (dd i) (lo i) (hi i) (du i) 0 0%nat 0 r) (routes acts)).
Proof. exact cvrptw_checker_sound_refuted. Qed.
Print Assumptions C06_cvrptw_checker_sound_refuted.

(* ... the witness: customer at distance 5.408 time units with window [0, 5]; the tour [1, 0] is accepted although the
   service starts 0.408 time units late (infeasible even with a slack of 0.4), the mask refuses the customer, and the
   repaired checker rejects *)
Example C06_cvrptw_truncation_witness :
  cvrptw_wfb witness_trunc = true /\ cvrptw_returnb witness_trunc = true /\ cvrptw_strictb witness_trunc = true /\
  cvrptw_checker exact false witness_trunc [1; 0]%nat = true /\
  cvrptw_checker exact true witness_trunc [1; 0]%nat = false /\
  cvrptw_feasibleb witness_trunc 0 400 [1; 0]%nat = false /\
  mask (CVRPTW exact) witness_trunc (tw_reset witness_trunc) = [false; false].
Proof. exact witness_trunc_facts. Qed.

(* ... it IS sound where .int() cannot lose anything (integral data: time unit = grid unit) ... *)
Theorem C06_cvrptw_checker_sound_integral :
  forall (i : cvrptw_inst) (acts : list nat),
    tu i = 1 -> cvrptw_wf i ->
    (forall j, (j <= tn_of i)%nat -> hi i j + du i j + dd i j 0 <= hi i 0) ->
    0 <= tol (base i) -> cvrptw_checker exact false i acts = true ->
    (forall j, (1 <= j <= tn_of i)%nat -> occ j acts = 1%nat) /\
    (forall a, In a acts -> (a <= tn_of i)%nat) /\
    Forall (fun r => sumZ (map (demand (base i)) r) <= cap (base i) + tol (base i)) (routes acts) /\
    Forall (fun r => route_times_ok (dd i) (lo i) (hi i) (du i) 0 0%nat 0 r) (routes acts).
Proof. exact cvrptw_checker_sound_integral. Qed.
Print Assumptions C06_cvrptw_checker_sound_integral.

(* ... and on arbitrary data its CVRP part stays sound (each customer once, nodes in range, load within capacity + 1e-5) *)
Theorem C06_cvrptw_checker_sound_cvrp_part :
  forall (fx : bool) (i : cvrptw_inst) (acts : list nat),
    cvrptw_wf i -> 0 <= tol (base i) -> cvrptw_checker exact fx i acts = true ->
    (forall j, (1 <= j <= tn_of i)%nat -> occ j acts = 1%nat) /\
    (forall a, In a acts -> (a <= tn_of i)%nat) /\
    Forall (fun r => sumZ (map (demand (base i)) r) <= cap (base i) + tol (base i)) (routes acts).
Proof. exact cvrptw_checker_sound_cvrp_part. Qed.
Print Assumptions C06_cvrptw_checker_sound_cvrp_part.

(* THE REPAIRED CHECKER IS SOUND: accepted => feasible, with tolerance only on the load *)
Theorem C06_cvrptw_checker_fixed_sound :
  forall (i : cvrptw_inst) (acts : list nat),
    cvrptw_wf i ->
    (forall j, (j <= tn_of i)%nat -> hi i j + du i j + dd i j 0 <= hi i 0) ->
    0 <= tol (base i) -> cvrptw_checker exact true i acts = true ->
    (forall j, (1 <= j <= tn_of i)%nat -> occ j acts = 1%nat) /\
    (forall a, In a acts -> (a <= tn_of i)%nat) /\
    Forall (fun r => sumZ (map (demand (base i)) r) <= cap (base i) + tol (base i)) (routes acts) /\
    Forall (fun r => route_times_ok (dd i) (lo i) (hi i) (du i) 0 0%nat 0 r) (routes acts).
Proof. exact cvrptw_checker_fixed_sound. Qed.
Print Assumptions C06_cvrptw_checker_fixed_sound.

(* second defect of the checker as coded: the horizon of batch row 0 is used for every row, so a feasible solution is
   rejected next to a row 0 with an earlier horizon (the repaired checker accepts it) *)
Theorem C06_cvrptw_checker_row0_horizon_refuted :
  exists i acts, cvrptw_wfb i = true /\ cvrptw_returnb i = true /\ cvrptw_strictb i = true /\
    cvrptw_feasibleb i 0 0 acts = true /\ hz0 i <> hi i 0 /\
    cvrptw_checker exact false i acts = false /\ cvrptw_checker exact true i acts = true.
Proof. exact cvrptw_checker_row0_horizon_refuted. Qed.
Print Assumptions C06_cvrptw_checker_row0_horizon_refuted.

(* fault kinds: rejected by the checker as coded and by the repaired one ... *)
Theorem C06_cvrptw_checker_rejects_missing :
  forall (fx : bool) (i : cvrptw_inst) (acts : list nat) (j : nat),
    (1 <= j <= tn_of i)%nat -> ~ In j acts -> cvrptw_checker exact fx i acts = false.
Proof. exact cvrptw_checker_rejects_missing. Qed.
Print Assumptions C06_cvrptw_checker_rejects_missing.

Theorem C06_cvrptw_checker_rejects_duplicate :
  forall (fx : bool) (i : cvrptw_inst) (acts : list nat) (j : nat),
    (1 <= j <= tn_of i)%nat -> (2 <= occ j acts)%nat -> cvrptw_checker exact fx i acts = false.
Proof. exact cvrptw_checker_rejects_duplicate. Qed.
Print Assumptions C06_cvrptw_checker_rejects_duplicate.

Theorem C06_cvrptw_checker_rejects_overload :
  forall (fx : bool) (i : cvrptw_inst) (acts : list nat) (r : list nat),
    cvrptw_wf i -> 0 <= tol (base i) -> In r (routes acts) ->
    cap (base i) + tol (base i) < sumZ (map (demand (base i)) r) ->
    cvrptw_checker exact fx i acts = false.
Proof. exact cvrptw_checker_rejects_overload. Qed.
Print Assumptions C06_cvrptw_checker_rejects_overload.

(* ... a missed time window only where arrival times are not truncated (repaired checker, or integral data) *)
Theorem C06_cvrptw_checker_rejects_missed_window :
  forall (fx : bool) (i : cvrptw_inst) (acts : list nat) (r : list nat),
    (forall x, trunc fx i x = x) -> cvrptw_wf i ->
    (forall j, (j <= tn_of i)%nat -> hi i j + du i j + dd i j 0 <= hi i 0) ->
    0 <= tol (base i) -> In r (routes acts) ->
    ~ route_times_ok (dd i) (lo i) (hi i) (du i) 0 0%nat 0 r ->
    cvrptw_checker exact fx i acts = false.
Proof. exact cvrptw_checker_rejects_missed_window. Qed.
Print Assumptions C06_cvrptw_checker_rejects_missed_window.

Example C06_cvrptw_nonvacuous :
  let i := {| base := {| dem := [3; 5]; cap := 8; dist := [[0; 3; 4]; [3; 0; 5]; [4; 5; 0]]; tol := 0 |};
              twlo := [0; 0; 8]; twhi := [14; 3; 9]; durs := [0; 1; 1]; tu := 1; hz0 := 14; tsl := 0 |} in
  cvrptw_wfb i = true /\ cvrptw_strictb i = true /\ cvrptw_returnb i = true /\
  cvrptw_checker exact false i [1; 2; 0]%nat = true /\ cvrptw_checker exact false i [1; 2]%nat = true /\
  cvrptw_checker exact false i [2; 1; 0]%nat = false /\ cvrptw_checker exact false i [1; 1; 0]%nat = false.
Proof. vm_compute. repeat split; reflexivity. Qed.
