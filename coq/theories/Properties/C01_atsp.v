(* C01 for ATSP -- mask-confined episodes yield tours. Statements only. *)
From Coq Require Import ZArith List Bool.
From RL4CO Require Import Base.Num Base.EnvSig Spec.Tours Env.TourCore Env.ATSP Env.ATSPProofs.
Import ListNotations.
Open Scope Z_scope.

(* For every instance with at least one city and EVERY action list whose actions each lie in the mask of the state
   they are taken in, once the row reports done the action list contains every city 0..n-1 exactly once and
   nothing else. *)
Theorem C01_atsp_mask_sound :
  forall (i : atsp_inst) (acts : list nat),
    atsp_wf i ->
    adm (E:=ATSP) i acts = true ->
    done ATSP i (run (E:=ATSP) i acts) = true ->
    (forall j, (j < atsp_n i)%nat -> occ j acts = 1%nat) /\ (forall a, In a acts -> (a < atsp_n i)%nat).
Proof. exact atsp_mask_sound. Qed.
Print Assumptions C01_atsp_mask_sound.

Example C01_atsp_nonvacuous :
  let i := {| agen_n := 3; acost := [[0; 3; 4]; [7; 0; 5]; [1; 2; 0]] |} in
  atsp_wfb i = true /\ adm (E:=ATSP) i [2; 0; 1]%nat = true /\ done ATSP i (run (E:=ATSP) i [2; 0; 1]%nat) = true /\
  adm (E:=ATSP) i [2; 0; 2]%nat = false.
Proof. vm_compute. auto. Qed.
