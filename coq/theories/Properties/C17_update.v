(* C17 / unit "update" -- the decision of RolloutBaseline.epoch_callback (replace the baseline policy or keep it) and the
   state it leaves.  Only statements closed by [exact] and their Print Assumptions (plus Examples).
   Vocabulary (Data/BaselineUpdate.v), exact on Q: [qmean l] the mean; [diffs cand bl] the paired differences
   (-cand_i) - (-bl_i) handed to ttest_rel; [t2_num d / t2_den d] = S^2 (n-1) / (n sum d^2 - S^2) = the SQUARE of the paired
   t statistic; [pv df x] = the one-sided p-value as a function of the degrees of freedom and x = t^2, an ABSTRACT function
   assumed monotone decreasing in x; [update_decision pv cand bl alpha] = Some true (the baseline is replaced) /
   Some false (kept) / None (the code raises: nan statistic for n = 1).  [bstate] = (policy, evaluation set, stored
   bl_vals, stored mean); [epoch_callback st cand fresh bb alpha] = the callback, [fresh] being the evaluation set
   env.dataset generates if the baseline is replaced. *)
From Coq Require Import List Arith QArith.
From RL4CO Require Import Data.Dataset Data.DatasetStore Data.BaselineUpdate.
Import ListNotations.
Close Scope Q_scope.

(* never replaced unless the candidate's mean reward is STRICTLY better (whatever the p-value function) *)
Theorem C17_update_never_unless_better :
  forall (pv : nat -> Q -> Q) (cand bl : list Q) (alpha : Q),
    (qmean cand <= qmean bl)%Q -> update_decision pv cand bl alpha = Some false.
Proof. exact no_update_unless_better. Qed.
Print Assumptions C17_update_never_unless_better.

(* a replacement means: same number of values, n >= 2, and either all paired differences coincide (t = -inf, p = 0) and
   alpha > 0, or the p-value at t^2 is below alpha *)
Theorem C17_update_implies_significant :
  forall (pv : nat -> Q -> Q) (cand bl : list Q) (alpha : Q),
    update_decision pv cand bl alpha = Some true ->
    length cand = length bl /\ 2 <= length cand /\
    ((t2_den (diffs cand bl) == 0 /\ 0 < alpha)%Q \/
     (~ (t2_den (diffs cand bl) == 0)%Q /\
      (pv (length (diffs cand bl) - 1)%nat (t2_num (diffs cand bl) / t2_den (diffs cand bl)) < alpha)%Q)).
Proof. exact update_implies_significant. Qed.
Print Assumptions C17_update_implies_significant.

(* the decision does not change when the same constant is added to every reward of both vectors ... *)
Theorem C17_update_shift_invariant :
  forall pv : nat -> Q -> Q, (forall (df : nat) (x y : Q), (x <= y)%Q -> (pv df y <= pv df x)%Q) ->
  forall (c : Q) (cand bl : list Q) (alpha : Q), length cand = length bl ->
    update_decision pv (map (Qplus c) cand) (map (Qplus c) bl) alpha = update_decision pv cand bl alpha.
Proof. exact decision_shift_invariant. Qed.
Print Assumptions C17_update_shift_invariant.

(* ... nor when every reward of both vectors is multiplied by the same positive factor *)
Theorem C17_update_scale_invariant :
  forall pv : nat -> Q -> Q, (forall (df : nat) (x y : Q), (x <= y)%Q -> (pv df y <= pv df x)%Q) ->
  forall (k : Q) (cand bl : list Q) (alpha : Q), (0 < k)%Q ->
    update_decision pv (map (Qmult k) cand) (map (Qmult k) bl) alpha = update_decision pv cand bl alpha.
Proof. exact decision_scale_invariant. Qed.
Print Assumptions C17_update_scale_invariant.

Theorem C17_update_alpha_monotone :
  forall (pv : nat -> Q -> Q) (cand bl : list Q) (alpha alpha' : Q), (alpha <= alpha')%Q ->
    update_decision pv cand bl alpha = Some true -> update_decision pv cand bl alpha' = Some true.
Proof. exact decision_alpha_mono. Qed.
Print Assumptions C17_update_alpha_monotone.

(* the callback on a state whose stored values are the current policy's on the stored evaluation set, for a row-wise
   candidate: it follows update_decision on (candidate's values on the STORED set, stored values); kept = the state is
   unchanged; replaced = the policy is the candidate, the evaluation set is the fresh one and the stored values / mean are
   the CANDIDATE's on that fresh set *)
Theorem C17_update_epoch_callback_spec :
  forall (K : Type) (K_eqb : K -> K -> bool), (forall a b : K, K_eqb a b = true <-> a = b) ->
  forall (dV : Q) (pv : nat -> Q -> Q) (st : bstate) (cand : item -> Q) (fresh : td) (bb : nat) (alpha : Q),
    bstate_ok K_eqb dV st -> td_wfb K_eqb fresh = true -> 1 <= bsz fresh -> 1 <= bb ->
    match update_decision pv (map cand (rows dV (b_data st))) (b_vals st) alpha with
    | Some true =>
        exists st' : bstate,
          epoch_callback K_eqb dV pv st cand fresh bb alpha = Some (true, st') /\ bstate_ok K_eqb dV st' /\
          b_pol st' = cand /\ b_data st' = fresh /\ b_vals st' = map cand (rows dV fresh) /\
          b_mean st' = qmean (map cand (rows dV fresh))
    | Some false => epoch_callback K_eqb dV pv st cand fresh bb alpha = Some (false, st)
    | None => epoch_callback K_eqb dV pv st cand fresh bb alpha = None
    end.
Proof. exact (@epoch_callback_spec). Qed.
Print Assumptions C17_update_epoch_callback_spec.

(* tie to the store model: wrap_dataset of a training set t under the policy the baseline holds (the candidate after a
   replacement), in the middle of ANY history of wrappings and reads of that training set: every read through that
   wrapper gives instance p untouched followed by (kx, current policy's value of instance p) *)
Theorem C17_update_wrap_carries_current_policy :
  forall (K : Type) (K_eqb : K -> K -> bool), (forall a b : K, K_eqb a b = true <-> a = b) ->
  forall (dV : Q) (st : bstate) (t : td) (kx : K) (pre : list event) (bb : nat) (post : list event) (s0 s : store),
    td_wfb K_eqb t = true -> ~ In kx (td_keys t) ->
    (forall (it : item) (v : Q), b_pol st (aset K_eqb kx v it) = b_pol st it) ->
    Forall (ev_key_ok kx) pre -> Forall (ev_key_ok kx) post ->
    run_state K_eqb dV Assign (store_init dV t) pre = Some s0 ->
    run_state K_eqb dV Assign s0 (EWrapPol kx (polB_of_pol dV (b_pol st)) bb :: post) = Some s ->
    exists e : ekds,
      nth_error (st_wrappers s) (length (st_wrappers s0)) = Some e /\ ek_extra e = map (b_pol st) (rows dV t) /\
      (forall i, i < bsz t -> exists h' : heap,
         sk_getitem K_eqb Assign e (st_heap s) i = Some (row_at dV t i ++ [(kx, b_pol st (row_at dV t i))], h')) /\
      (forall (b : nat) (shuffle : option (list nat)), 1 <= b -> shuffle_ok (bsz t) shuffle ->
         exists (batches : list td) (h' : heap),
           dataloader (D_sk K_eqb dV Assign e) (st_heap s) b shuffle = Some (batches, h') /\
           map (rows dV) batches
             = map (map (fun p => row_at dV t p ++ [(kx, b_pol st (row_at dV t p))])) (chunks b (order_of (bsz t) shuffle)) /\
           map bsz batches = map (@length nat) (chunks b (order_of (bsz t) shuffle))).
Proof. exact (@wrap_after_callback_carries_current_policy). Qed.
Print Assumptions C17_update_wrap_carries_current_policy.

(* non-vacuity: 1/(1+x) is a monotone decreasing stand-in for the p-value; the decision table on it *)
Example C17_update_nonvacuous :
  (forall (df : nat) (x y : Q), (x <= y)%Q -> (ex_pv df y <= ex_pv df x)%Q) /\
  map (fun cb => update_decision ex_pv (fst cb) (snd cb) (1 # 10)%Q)
    [ ([-1; -(9#8); -(7#8); -(33#32)], [-2; -(17#8); -(15#8); -2]);
      ([-2; -(17#8); -(15#8); -2], [-1; -(9#8); -(7#8); -(33#32)]);
      ([-1; -3; -1; -3], [-3; -(3#2); -3; -(3#2)]);
      ([-2; -1], [-1; -2]);
      ([-1; -2], [-2; -(49#16)]);
      ([-1; -(9#8); -(7#8); -1], [-2; -(17#8); -(15#8); -2]);
      ([-1], [-2]) ]%Q
  = [Some true; Some false; Some false; Some false; Some true; Some true; None].
Proof. split; [exact ex_pv_mono|exact ex_decision_table]. Qed.
