(* C03 for OP -- the reward (gathered padded prizes, summed) equals the prizes of the visited customers. *)
From Coq Require Import ZArith List Bool.
From RL4CO Require Import Base.Num Base.EnvSig Spec.Routes Env.OP Env.OPProofs.
Import ListNotations.
Open Scope Z_scope.

(* for every completed mask-confined episode: what _get_reward computes (0 for a one-column action tensor, else the
   sum over ALL actions of the depot-padded prize vector) equals the sum over the customers 1..n of
   "prize j if j occurs among the actions, else 0" *)
Theorem C03_op_reward_is_objective :
  forall (i : op_inst) (acts : list nat),
    op_wf i -> adm (E:=OP exact) i acts = true -> done (OP exact) i (run (E:=OP exact) i acts) = true ->
    op_reward i acts =
    sumZ (map (fun j => if existsb (Nat.eqb j) acts then nth (j - 1) (prz i) 0 else 0) (seq 1 (op_n i))).
Proof. exact op_reward_is_objective. Qed.
Print Assumptions C03_op_reward_is_objective.

(* the algebraic core, for ANY action list without repeated customers over existing nodes *)
Theorem C03_op_gathered_prizes :
  forall (i : op_inst) (acts : list nat),
    (forall j, (1 <= j)%nat -> (occ j acts <= 1)%nat) -> (forall a, In a acts -> (a <= op_n i)%nat) ->
    sumZ (map (pz i) acts) = op_objective i acts.
Proof. exact sum_pz_objective. Qed.
Print Assumptions C03_op_gathered_prizes.

Example C03_op_nonvacuous :
  let i := {| prz := [10; 20]; maxlen := 13; eps := 1; odist := [[0; 3; 4]; [3; 0; 5]; [4; 5; 0]]; otol := 0 |} in
  op_reward i [2; 0; 0]%nat = 20 /\ op_objective i [2; 0; 0]%nat = 20 /\ op_reward i [1; 2; 0]%nat = 30.
Proof. vm_compute. auto. Qed.
