(* C06 for TSP -- check_solution_validity (len(actions) == number of nodes and sorted(actions) == arange(len(actions)))
   against the problem definition.  The length test was added by the fix 5d5f57a (known_findings.json: fixed
   "tsp/default: checker-accepts-tour-of-wrong-length"); soundness is now stated WITHOUT any hypothesis on the length
   of the action list. *)
From Coq Require Import ZArith List Bool.
From RL4CO Require Import Base.Num Base.EnvSig Spec.Tours Env.TourCore Env.TSP Env.TSPProofs.
Import ListNotations.
Open Scope Z_scope.

(* every tour (each node exactly once) is accepted *)
Theorem C06_tsp_checker_complete :
  forall (i : tsp_inst) (acts : list nat),
    (forall j, (j < tsp_n i)%nat -> occ j acts = 1%nat) -> (forall a, In a acts -> (a < tsp_n i)%nat) ->
    tsp_checker i acts = true.
Proof. exact tsp_checker_complete_unfolded. Qed.
Print Assumptions C06_tsp_checker_complete.

(* EVERY accepted action list, of whatever length, is a tour of the instance: each node 0..n-1 exactly once *)
Theorem C06_tsp_checker_sound :
  forall (i : tsp_inst) (acts : list nat),
    tsp_checker i acts = true ->
    (forall j, (j < tsp_n i)%nat -> occ j acts = 1%nat) /\ (forall a, In a acts -> (a < tsp_n i)%nat).
Proof. exact tsp_checker_sound. Qed.
Print Assumptions C06_tsp_checker_sound.

Theorem C06_tsp_checker_rejects_wrong_length :
  forall (i : tsp_inst) (acts : list nat), length acts <> tsp_n i -> tsp_checker i acts = false.
Proof. exact tsp_checker_rejects_wrong_length. Qed.
Print Assumptions C06_tsp_checker_rejects_wrong_length.

Theorem C06_tsp_checker_rejects_missing :
  forall (i : tsp_inst) (acts : list nat) (j : nat),
    (j < tsp_n i)%nat -> ~ In j acts -> tsp_checker i acts = false.
Proof. exact tsp_checker_rejects_missing. Qed.
Print Assumptions C06_tsp_checker_rejects_missing.

Theorem C06_tsp_checker_rejects_duplicate :
  forall (i : tsp_inst) (acts : list nat) (j : nat), (2 <= occ j acts)%nat -> tsp_checker i acts = false.
Proof. exact tsp_checker_rejects_duplicate. Qed.
Print Assumptions C06_tsp_checker_rejects_duplicate.

Theorem C06_tsp_checker_rejects_out_of_range :
  forall (i : tsp_inst) (acts : list nat) (a : nat),
    In a acts -> (tsp_n i <= a)%nat -> tsp_checker i acts = false.
Proof. exact tsp_checker_rejects_out_of_range. Qed.
Print Assumptions C06_tsp_checker_rejects_out_of_range.

(* non-vacuity, including the witness of the repaired defect: 3 nodes, actions [1; 0] (a permutation of 0..len-1 that
   never visits node 2) was accepted before the fix and is rejected now *)
Example C06_tsp_nonvacuous :
  let i := {| tdist := [[0; 3; 4]; [3; 0; 5]; [4; 5; 0]] |} in
  tsp_checker i [2; 0; 1]%nat = true /\ tsp_checker i [2; 0; 2]%nat = false /\ tsp_checker i [3; 0; 1]%nat = false /\
  tsp_checker i [1; 0]%nat = false.
Proof. vm_compute. auto. Qed.
