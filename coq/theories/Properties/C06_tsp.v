(* C06 for TSP -- check_solution_validity (sorted(actions) == arange(len(actions))) against the problem definition. *)
From Coq Require Import ZArith List Bool.
From RL4CO Require Import Base.Num Base.EnvSig Spec.Tours Env.TourCore Env.TSP Env.TSPProofs.
Import ListNotations.
Open Scope Z_scope.

(* every tour (each city exactly once) is accepted *)
Theorem C06_tsp_checker_complete :
  forall (i : tsp_inst) (acts : list nat),
    (forall j, (j < tsp_n i)%nat -> occ j acts = 1%nat) -> (forall a, In a acts -> (a < tsp_n i)%nat) ->
    tsp_checker acts = true.
Proof. exact tsp_checker_complete_unfolded. Qed.
Print Assumptions C06_tsp_checker_complete.

(* accepted action lists OF THE INSTANCE'S LENGTH are tours *)
Theorem C06_tsp_checker_sound :
  forall (i : tsp_inst) (acts : list nat),
    length acts = tsp_n i -> tsp_checker acts = true ->
    (forall j, (j < tsp_n i)%nat -> occ j acts = 1%nat) /\ (forall a, In a acts -> (a < tsp_n i)%nat).
Proof. exact tsp_checker_sound. Qed.
Print Assumptions C06_tsp_checker_sound.

(* what acceptance means for an action list of ANY length L: a permutation of 0..L-1 *)
Theorem C06_tsp_checker_sound_any_length :
  forall (acts : list nat), tsp_checker acts = true ->
    (forall j, (j < length acts)%nat -> occ j acts = 1%nat) /\ (forall a, In a acts -> (a < length acts)%nat).
Proof. exact tsp_checker_sound_general. Qed.
Print Assumptions C06_tsp_checker_sound_any_length.

Theorem C06_tsp_checker_rejects_missing :
  forall (i : tsp_inst) (acts : list nat) (j : nat),
    length acts = tsp_n i -> (j < tsp_n i)%nat -> ~ In j acts -> tsp_checker acts = false.
Proof. exact tsp_checker_rejects_missing. Qed.
Print Assumptions C06_tsp_checker_rejects_missing.

Theorem C06_tsp_checker_rejects_duplicate :
  forall (acts : list nat) (j : nat), (2 <= occ j acts)%nat -> tsp_checker acts = false.
Proof. exact tsp_checker_rejects_duplicate. Qed.
Print Assumptions C06_tsp_checker_rejects_duplicate.

Theorem C06_tsp_checker_rejects_out_of_range :
  forall (i : tsp_inst) (acts : list nat) (a : nat),
    length acts = tsp_n i -> In a acts -> (tsp_n i <= a)%nat -> tsp_checker acts = false.
Proof. exact tsp_checker_rejects_out_of_range. Qed.
Print Assumptions C06_tsp_checker_rejects_out_of_range.

(* REFUTED without the length hypothesis: the checker never looks at the number of cities, so a "tour" that omits
   the highest-numbered city is accepted (3 cities, actions [1; 0]) *)
Theorem C06_tsp_checker_truncated_refuted :
  exists (i : tsp_inst) (acts : list nat),
    tsp_wfb i = true /\ tsp_checker acts = true /\ ~ tsp_feasible i acts /\ ~ In 2%nat acts /\ (2 < tsp_n i)%nat.
Proof. exact tsp_checker_truncated_refuted. Qed.
Print Assumptions C06_tsp_checker_truncated_refuted.

Example C06_tsp_nonvacuous :
  tsp_checker [2; 0; 1]%nat = true /\ tsp_checker [2; 0; 2]%nat = false /\ tsp_checker [3; 0; 1]%nat = false.
Proof. vm_compute. auto. Qed.
