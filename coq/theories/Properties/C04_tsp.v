(* C04 for TSP -- the batch-global first-step test `td["i"].all() == 0` is benign, and there is no padding.
   (The equality of batched and solo runs of the IMPLEMENTATION is the differential part of the check.) *)
From Coq Require Import ZArith List Bool.
From RL4CO Require Import Base.Num Base.EnvSig Spec.Tours Env.TourCore Env.TSP Env.TSPProofs.
Import ListNotations.
Open Scope Z_scope.

(* one batched step (with the literal batch-global test) equals the row-wise steps whenever all rows of the batch
   share the step counter ... *)
Theorem C04_tsp_batched_step_is_rowwise :
  forall (i : tsp_inst) (rows : list tsp_st) (acts : list nat) (c : nat),
    (forall s, In s rows -> tcnt s = c) ->
    tsp_bstep rows acts = map (fun sa => tsp_step i (fst sa) (snd sa)) (combine rows acts).
Proof. exact tsp_bstep_rowwise. Qed.
Print Assumptions C04_tsp_batched_step_is_rowwise.

(* ... which is an invariant of batched runs (it holds after reset, with c = 0, and is preserved) ... *)
Theorem C04_tsp_shared_counter_preserved :
  forall (rows : list tsp_st) (acts : list nat) (c : nat),
    (forall s, In s rows -> tcnt s = c) -> forall s', In s' (tsp_bstep rows acts) -> tcnt s' = S c.
Proof. exact tsp_bstep_keeps_counter. Qed.
Print Assumptions C04_tsp_shared_counter_preserved.

(* ... hence for whole episodes: row r of the batched run from reset, for ANY batch of instances and ANY per-step
   action vectors, is exactly the solo run of instance r on its own column of actions *)
Theorem C04_tsp_batched_run_is_rowwise :
  forall (insts : list tsp_inst) (steps : list (list nat)),
    Forall (fun av => length av = length insts) steps ->
    forall r dflt_i, (r < length insts)%nat ->
      nth r (tsp_brun (map tsp_reset insts) steps) (tsp_reset dflt_i)
      = run (E:=TSP) (nth r insts dflt_i) (map (fun av => nth r av 0%nat) steps).
Proof. exact tsp_brun_rowwise. Qed.
Print Assumptions C04_tsp_batched_run_is_rowwise.

(* padding: a finished row has an empty mask, so no admitted action list continues past done *)
Theorem C04_tsp_no_padding :
  forall (i : tsp_inst) (acts pad : list nat),
    tsp_wf i -> adm (E:=TSP) i (acts ++ pad) = true -> done TSP i (run (E:=TSP) i acts) = true -> pad = [].
Proof. exact tsp_no_padding. Qed.
Print Assumptions C04_tsp_no_padding.

(* non-vacuity: the batch-global test really differs from the row-wise one when counters differ *)
Example C04_tsp_test_differs_without_invariant :
  let s0 := {| tfirst := 0; tcur := 0; tcnt := 0; tavail := [true; true]; tdn := false |} in
  let s1 := {| tfirst := 1; tcur := 1; tcnt := 1; tavail := [true; false]; tdn := false |} in
  map tfirst (tsp_bstep [s0; s1] [1; 0]%nat) = [1; 0]%nat /\
  tfirst (tsp_step {| tdist := [] |} s1 0) = 1%nat.
Proof. vm_compute. auto. Qed.
