(* C05 for PCTSPEnv -- the mask never hides a feasible solution. Statements only. *)
From Coq Require Import ZArith List Bool.
From RL4CO Require Import Base.Num Base.EnvSig Spec.Routes Env.PCTSP Env.PCTSPProofs.
Import ListNotations.
Open Scope Z_scope.

(* EVERY solution of the problem -- a non-empty sequence of distinct customers whose collected deterministic prize
   reaches the requirement (EQUALITY ALLOWED) or which contains every customer -- is admitted by the mask when
   followed by the return to the depot, and the row is finished there. *)
Theorem C05_pctsp_mask_complete :
  forall (i : pctsp_inst), stoch i = false -> forall (cs : list nat),
    pctsp_wf i -> cs <> [] -> NoDup cs -> (forall x, In x cs -> (1 <= x <= pn_of i)%nat) ->
    (preq i <= sumZ (map (fun a => nth a (0 :: dprize i) 0) cs) \/ forall j, (1 <= j <= pn_of i)%nat -> In j cs) ->
    adm (E:=PCTSP exact) i (cs ++ [0%nat]) = true /\
    done (PCTSP exact) i (run (E:=PCTSP exact) i (cs ++ [0%nat])) = true.
Proof. exact mask_complete_det. Qed.
Print Assumptions C05_pctsp_mask_complete.

(* and its reward is minus (closed length of the tour + penalties of the customers left out): the optimum over
   solutions is reachable *)
Theorem C05_pctsp_encoding_keeps_objective :
  forall (i : pctsp_inst) (cs : list nat),
    pdfun i 0%nat 0%nat = 0 -> cs <> [] -> NoDup cs -> (forall x, In x cs -> (1 <= x <= pn_of i)%nat) ->
    pctsp_reward i (cs ++ [0%nat]) =
    - (route_len (pdfun i) cs + sumZ (map (penalty i) (filter (fun j => negb (existsb (Nat.eqb j) cs)) (seq 1 (pn_of i))))).
Proof. exact pctsp_encode_objective. Qed.
Print Assumptions C05_pctsp_encoding_keeps_objective.

(* non-vacuity: the requirement met with equality is offered, one grid unit below is not *)
Example C05_pctsp_nonvacuous :
  let i := {| dprize := [32; 32; 10]; sprize := [1; 1; 1]; stoch := false; pen := [3; 4; 5]; pdist := [[0; 3; 4; 5]; [3; 0; 5; 4]; [4; 5; 0; 3]; [5; 4; 3; 0]]; preq := 64; pthr := 63 |} in
  adm (E:=PCTSP exact) i ([1; 2] ++ [0])%nat = true /\ adm (E:=PCTSP exact) i ([2; 3] ++ [0])%nat = false.
Proof. vm_compute. auto. Qed.
