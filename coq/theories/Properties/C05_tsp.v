(* C05 for TSP -- the mask never hides a tour: all n! visiting orders are reachable. Statements only. *)
From Coq Require Import ZArith List Bool.
From RL4CO Require Import Base.Num Base.EnvSig Spec.Tours Env.TourCore Env.TSP Env.TSPProofs.
Import ListNotations.
Open Scope Z_scope.

(* EVERY list that contains each city 0..n-1 exactly once (any first city) is admitted by the masks, step by step,
   and the row is done at its end; the encoding is the identity, so its reward is its own tour length (C03) and
   the optimum is among the reachable sequences *)
Theorem C05_tsp_mask_complete :
  forall (i : tsp_inst) (acts : list nat),
    tsp_wf i ->
    (forall j, (j < tsp_n i)%nat -> occ j acts = 1%nat) -> (forall a, In a acts -> (a < tsp_n i)%nat) ->
    adm (E:=TSP) i acts = true /\ done TSP i (run (E:=TSP) i acts) = true.
Proof. exact tsp_mask_complete_unfolded. Qed.
Print Assumptions C05_tsp_mask_complete.

Example C05_tsp_nonvacuous :
  let i := {| tdist := [[0; 3; 4]; [3; 0; 5]; [4; 5; 0]] |} in
  forallb (fun p => adm (E:=TSP) i p && done TSP i (run (E:=TSP) i p))
          [[0;1;2]; [0;2;1]; [1;0;2]; [1;2;0]; [2;0;1]; [2;1;0]]%nat = true.
Proof. vm_compute. auto. Qed.
