(* C05 for ATSP -- the mask never hides a tour: all n! visiting orders are reachable. Statements only. *)
From Coq Require Import ZArith List Bool.
From RL4CO Require Import Base.Num Base.EnvSig Spec.Tours Env.TourCore Env.ATSP Env.ATSPProofs.
Import ListNotations.
Open Scope Z_scope.

(* EVERY list that contains each city 0..n-1 exactly once (any first city) is admitted by the masks, step by step,
   and the row is done at its end; the encoding is the identity, so its reward is its own tour length (C03) and
   the optimum is among the reachable sequences *)
Theorem C05_atsp_mask_complete :
  forall (i : atsp_inst) (acts : list nat),
    atsp_wf i ->
    (forall j, (j < atsp_n i)%nat -> occ j acts = 1%nat) -> (forall a, In a acts -> (a < atsp_n i)%nat) ->
    adm (E:=ATSP) i acts = true /\ done ATSP i (run (E:=ATSP) i acts) = true.
Proof. exact atsp_mask_complete_unfolded. Qed.
Print Assumptions C05_atsp_mask_complete.

Example C05_atsp_nonvacuous :
  let i := {| agen_n := 3; acost := [[0; 3; 4]; [7; 0; 5]; [1; 2; 0]] |} in
  forallb (fun p => adm (E:=ATSP) i p && done ATSP i (run (E:=ATSP) i p))
          [[0;1;2]; [0;2;1]; [1;0;2]; [1;2;0]; [2;0;1]; [2;1;0]]%nat = true.
Proof. vm_compute. auto. Qed.
