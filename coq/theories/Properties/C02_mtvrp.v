(* C02 for MTVRP -- no dead ends, finished stays finished, step bound, no crash. Statements only. *)
From Coq Require Import ZArith List Bool.
From RL4CO Require Import Base.Num Base.EnvSig Spec.Routes Spec.VRPFeatures Env.MTVRP Env.MTVRPProofs.
Import ListNotations.
Open Scope Z_scope.

(* EVERY state (reachable or not, finished or not, whatever the instance) offers at least one action: the depot is
   masked only when some customer is offered *)
Theorem C02_mtvrp_no_dead_end :
  forall (R : bool) (i : mtvrp_inst) (s : mtvrp_st), anyb (mask (MTVRP exact R) i s) = true.
Proof. exact mtvrp_no_dead_end. Qed.
Print Assumptions C02_mtvrp_no_dead_end.

Theorem C02_mtvrp_done_stable :
  forall (R : bool) (i : mtvrp_inst) (acts : list nat) (a : nat),
    done (MTVRP exact R) i (run (E:=MTVRP exact R) i acts) = true ->
    done (MTVRP exact R) i (run (E:=MTVRP exact R) i (acts ++ [a])) = true.
Proof. exact mtvrp_done_stable. Qed.
Print Assumptions C02_mtvrp_done_stable.

(* an admitted action list none of whose proper prefixes is finished has at most 2n+1 actions, provided every
   customer can be served on a route of its own ([mtvrp_solvableb]: demand <= capacity, out-and-back (out only if
   open) <= limit, reached by the time its window closes and back in time -- with the mask's own comparison: [<=]
   for the code as it is, R = true) *)
Theorem C02_mtvrp_bound :
  forall (R : bool) (i : mtvrp_inst) (acts : list nat),
    mtvrp_wfb i = true -> mtvrp_solvableb R i = true -> adm (E:=MTVRP exact R) i acts = true ->
    (forall p q, acts = p ++ q -> q <> [] -> done (MTVRP exact R) i (run (E:=MTVRP exact R) i p) = false) ->
    (length acts <= 2 * n_of i + 1)%nat.
Proof. exact mtvrp_bound. Qed.
Print Assumptions C02_mtvrp_bound.

(* offered actions never index outside the tensors *)
Theorem C02_mtvrp_step_ok :
  forall (R : bool) (i : mtvrp_inst) (acts : list nat) (a : nat),
    mtvrp_wfb i = true -> adm (E:=MTVRP exact R) i acts = true ->
    offered (E:=MTVRP exact R) i (run (E:=MTVRP exact R) i acts) a = true ->
    stepok (MTVRP exact R) i (run (E:=MTVRP exact R) i acts) a = true.
Proof. exact mtvrp_step_ok. Qed.
Print Assumptions C02_mtvrp_step_ok.

(* the solvability hypothesis is needed: a customer that cannot be reached before its window closes (travel time 80,
   window end 79) is never offered and no mask-confined episode ever finishes *)
Theorem C02_mtvrp_unsolvable_never_finishes :
  mtvrp_wfb tw_late_inst = true /\ mtvrp_solvableb true tw_late_inst = false /\
  forall acts, adm (E:=MTVRP exact true) tw_late_inst acts = true ->
               done (MTVRP exact true) tw_late_inst (run (E:=MTVRP exact true) tw_late_inst acts) = false.
Proof. exact mtvrp_unsolvable_never_finishes. Qed.
Print Assumptions C02_mtvrp_unsolvable_never_finishes.

(* HISTORY (recorded as fixed in known_findings.json, /repo 9b8ead8): with the former strict mask (R = false) the boundary
   instance -- customer reached exactly when its window closes, solvable by the problem definition -- never finished *)
Theorem C02_mtvrp_strict_mask_boundary_never_finished :
  mtvrp_wfb tw_eq_inst = true /\ mtvrp_solvableb false tw_eq_inst = false /\ mtvrp_solvableb true tw_eq_inst = true /\
  forall acts, adm (E:=MTVRP exact false) tw_eq_inst acts = true ->
               done (MTVRP exact false) tw_eq_inst (run (E:=MTVRP exact false) tw_eq_inst acts) = false.
Proof. repeat (split; [vm_compute; reflexivity|]). exact mtvrp_tw_equality_never_served. Qed.
Print Assumptions C02_mtvrp_strict_mask_boundary_never_finished.

Example C02_mtvrp_nonvacuous :
  let i := {| dl := [0; 32; 32; 0]; db := [0; 0; 0; 40]; cap := 64; lim := 60; opn := false;
              tlo := [0; 0; 10; 0]; thi := [200; 50; 60; 90]; svc := [0; 2; 2; 2];
              dist := [[0; 5; 9; 16]; [5; 0; 4; 11]; [9; 4; 0; 7]; [16; 11; 7; 0]];
              tt := [[0; 5; 9; 16]; [5; 0; 4; 11]; [9; 4; 0; 7]; [16; 11; 7; 0]] |} in
  mtvrp_wfb i = true /\ mtvrp_solvableb true i = true /\ adm (E:=MTVRP exact true) i [1; 0; 2; 0; 3]%nat = true.
Proof. vm_compute. auto. Qed.
