(* C02 for TSP -- no dead ends, step bound, done exactly at step n, all rows of a batch finish together.
   TSP is a fixed-length environment: its mask is EMPTY once the row is done (there is no padding action), so
   "finished rows stay steppable" takes the batch-level form: all rows finish at the same step. Statements only. *)
From Coq Require Import ZArith List Bool.
From RL4CO Require Import Base.Num Base.EnvSig Spec.Tours Env.TourCore Env.FixedLenLoop Env.TSP Env.TSPProofs.
Import ListNotations.
Open Scope Z_scope.

(* an unfinished row reached through offered actions is offered at least one action *)
Theorem C02_tsp_no_dead_end :
  forall (i : tsp_inst) (acts : list nat),
    tsp_wf i -> adm (E:=TSP) i acts = true -> done TSP i (run (E:=TSP) i acts) = false ->
    anyb (mask TSP i (run (E:=TSP) i acts)) = true.
Proof. exact tsp_no_dead_end. Qed.
Print Assumptions C02_tsp_no_dead_end.

(* every admitted action list has at most n actions *)
Theorem C02_tsp_bound :
  forall (i : tsp_inst) (acts : list nat), adm (E:=TSP) i acts = true -> (length acts <= tsp_n i)%nat.
Proof. exact tsp_bound. Qed.
Print Assumptions C02_tsp_bound.

(* the row is done exactly when n admitted actions have been taken *)
Theorem C02_tsp_done_exactly_at_n :
  forall (i : tsp_inst) (acts : list nat),
    (1 <= tsp_n i)%nat -> adm (E:=TSP) i acts = true ->
    (done TSP i (run (E:=TSP) i acts) = true <-> length acts = tsp_n i).
Proof. exact tsp_done_iff. Qed.
Print Assumptions C02_tsp_done_exactly_at_n.

(* offered actions never index outside the tensors *)
Theorem C02_tsp_step_ok :
  forall (i : tsp_inst) (acts : list nat) (a : nat),
    adm (E:=TSP) i acts = true -> offered (E:=TSP) i (run (E:=TSP) i acts) a = true ->
    stepok TSP i (run (E:=TSP) i acts) a = true.
Proof. exact tsp_step_ok. Qed.
Print Assumptions C02_tsp_step_ok.

(* a finished row offers nothing ... *)
Theorem C02_tsp_done_mask_empty :
  forall (i : tsp_inst) (acts : list nat) (a : nat),
    tsp_wf i -> adm (E:=TSP) i acts = true -> done TSP i (run (E:=TSP) i acts) = true ->
    offered (E:=TSP) i (run (E:=TSP) i acts) a = false.
Proof. exact tsp_done_mask_empty. Qed.
Print Assumptions C02_tsp_done_mask_empty.

(* ... so "finished stays finished" holds vacuously ... *)
Theorem C02_tsp_done_stable :
  forall (i : tsp_inst) (acts : list nat) (a : nat),
    tsp_wf i -> adm (E:=TSP) i (acts ++ [a]) = true -> done TSP i (run (E:=TSP) i acts) = true ->
    done TSP i (run (E:=TSP) i (acts ++ [a])) = true.
Proof. exact tsp_done_stable. Qed.
Print Assumptions C02_tsp_done_stable.

(* ... and what the decoding loop relies on is the batch-level fact: the rows of a batch have the same number n of
   cities and after t loop iterations each has taken t admitted actions; then t <= n, while t < n NO row is done and
   every row has a non-empty mask, and at t = n EVERY row is done (no row idles while another one runs) *)
Theorem C02_tsp_batch_lockstep :
  forall (n t : nat) (rows : list (tsp_inst * list nat)),
    (forall r, In r rows -> tsp_wf (fst r) /\ tsp_n (fst r) = n /\ length (snd r) = t /\ adm (E:=TSP) (fst r) (snd r) = true) ->
    rows <> [] ->
    (t <= n)%nat /\
    ((t < n)%nat -> forall r, In r rows -> done TSP (fst r) (run (E:=TSP) (fst r) (snd r)) = false /\
                                           anyb (mask TSP (fst r) (run (E:=TSP) (fst r) (snd r))) = true) /\
    (t = n -> forall r, In r rows -> done TSP (fst r) (run (E:=TSP) (fst r) (snd r)) = true).
Proof. exact tsp_batch_lockstep. Qed.
Print Assumptions C02_tsp_batch_lockstep.

(* the batched decoding loop `while not done.all(): act; step` (Env/FixedLenLoop.v: [loop] returns Some t when it leaves
   normally after t iterations, None when the fuel -- the safety cap -- runs out or a row with an all-False mask is
   met while the loop is running): from reset, for ANY non-empty batch of well-formed instances with the same step
   bound B and ANY policy that picks an offered action whenever one is offered, the loop ends after exactly B
   iterations, for every cap >= B *)
Theorem C02_tsp_rollout_terminates :
  forall (choose : nat -> tsp_inst * tsp_st -> nat),
    (forall t i s, anyb (mask TSP i s) = true -> offered (E:=TSP) i s (choose t (i, s)) = true) ->
    forall (insts : list tsp_inst) (B extra : nat),
      insts <> [] -> (forall i, In i insts -> tsp_wf i /\ tsp_n i = B) ->
      loop TSP choose (B + extra) (map (fun i => (i, reset TSP i)) insts) 0 = Some B.
Proof. exact tsp_rollout_terminates. Qed.
Print Assumptions C02_tsp_rollout_terminates.

Example C02_tsp_nonvacuous :
  let i := {| tdist := [[0; 3; 4]; [3; 0; 5]; [4; 5; 0]] |} in
  tsp_wfb i = true /\ adm (E:=TSP) i [2; 0]%nat = true /\ done TSP i (run (E:=TSP) i [2; 0]%nat) = false /\
  mask TSP i (run (E:=TSP) i [2; 0]%nat) = [false; true; false] /\
  mask TSP i (run (E:=TSP) i [2; 0; 1]%nat) = [false; false; false].
Proof. vm_compute. auto. Qed.
