(* C01 for MTVRP (all 16 variants = one model) -- mask-confined episodes yield feasible solutions. Statements only. *)
From Coq Require Import ZArith List Bool.
From RL4CO Require Import Base.Num Base.EnvSig Spec.Routes Spec.VRPFeatures Env.MTVRP Env.MTVRPProofs.
Import ListNotations.
Open Scope Z_scope.

(* For the mask as it is (R = true, [<=] time comparisons since /repo 9b8ead8) and for the former strict one (R = false): for every instance in the documented format
   and EVERY action list whose actions each lie in the mask of the state they are taken in, once the row reports
   done the action list visits every customer exactly once, uses only existing nodes, and every route (maximal
   depot-free segment, the last one included even when the list does not end at the depot) satisfies the problem
   definition of Spec/VRPFeatures.v with zero slack: delivery load <= capacity, pickup load <= capacity, no linehaul
   customer after a backhaul customer, route length (with the way back unless routes are open) <= limit, every
   service starts within its window (waiting allowed) and, unless routes are open, the vehicle is back at the depot
   by the depot's deadline. *)
Theorem C01_mtvrp_mask_sound :
  forall (R : bool) (i : mtvrp_inst) (acts : list nat),
    mtvrp_wfb i = true ->
    adm (E:=MTVRP exact R) i acts = true ->
    done (MTVRP exact R) i (run (E:=MTVRP exact R) i acts) = true ->
    (forall j, (1 <= j <= n_of i)%nat -> occ j acts = 1%nat) /\
    (forall a, In a acts -> (a <= n_of i)%nat) /\
    Forall (fun r => route_ok (dlf i) (dbf i) (cap i) (dfun i) (tfun i) (lim i) (opn i) (lo i) (hi i) (sv i) 0 r = true)
           (routes acts).
Proof. exact mtvrp_mask_sound. Qed.
Print Assumptions C01_mtvrp_mask_sound.

(* non-vacuity: a VRPBLTW instance (backhaul customer 3, limit, windows, closed routes) and an admitted complete episode
   that ends at a customer *)
Example C01_mtvrp_nonvacuous :
  let i := {| dl := [0; 32; 32; 0]; db := [0; 0; 0; 40]; cap := 64; lim := 60; opn := false;
              tlo := [0; 0; 10; 0]; thi := [200; 50; 60; 90]; svc := [0; 2; 2; 2];
              dist := [[0; 5; 9; 16]; [5; 0; 4; 11]; [9; 4; 0; 7]; [16; 11; 7; 0]];
              tt := [[0; 5; 9; 16]; [5; 0; 4; 11]; [9; 4; 0; 7]; [16; 11; 7; 0]] |} in
  mtvrp_wfb i = true /\ adm (E:=MTVRP exact true) i [1; 2; 0; 3]%nat = true /\
  done (MTVRP exact true) i (run (E:=MTVRP exact true) i [1; 2; 0; 3]%nat) = true /\
  mask (MTVRP exact true) i (run (E:=MTVRP exact true) i [1]%nat) = [true; false; true; true] /\
  mask (MTVRP exact true) i (run (E:=MTVRP exact true) i [3]%nat) = [true; false; false; false].
Proof. vm_compute. auto. Qed.
