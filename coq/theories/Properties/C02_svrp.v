(* C02 for SVRPEnv -- no dead ends, finished stays finished, step bound n + m, no crash. Statements only.
   [fx = false] is the code as it is: there "no crash" holds only for rows that are not finished (and m >= 2);
   the two refutations exhibit the raise on a finished row (padding) and, with one technician, on an unfinished one.
   [fx = true] is the repaired behaviour, for which the statements hold at full strength (left disjuncts). *)
From Coq Require Import ZArith List Bool.
From RL4CO Require Import Base.Num Base.EnvSig Spec.Routes Env.SVRP Env.SVRPProofs.
Import ListNotations.
Open Scope Z_scope.

(* every state reached through offered actions without a raise (finished or not) offers at least one action *)
Theorem C02_svrp_no_dead_end :
  forall (fx : bool) (i : svrp_inst) (acts : list nat),
    svrp_wf i -> adm (E:=SVRP fx) i acts = true ->
    (fx = true \/ ok_from (E:=SVRP fx) i (reset (SVRP fx) i) acts = true) ->
    anyb (mask (SVRP fx) i (run (E:=SVRP fx) i acts)) = true.
Proof. exact svrp_no_dead_end. Qed.
Print Assumptions C02_svrp_no_dead_end.

Theorem C02_svrp_done_stable :
  forall (fx : bool) (i : svrp_inst) (acts : list nat) (a : nat),
    adm (E:=SVRP fx) i (acts ++ [a]) = true ->
    done (SVRP fx) i (run (E:=SVRP fx) i acts) = true ->
    done (SVRP fx) i (run (E:=SVRP fx) i (acts ++ [a])) = true.
Proof. exact svrp_done_stable. Qed.
Print Assumptions C02_svrp_done_stable.

(* an admitted action list none of whose proper prefixes is finished has at most n + m actions, provided the last
   technician can serve every customer *)
Theorem C02_svrp_bound :
  forall (fx : bool) (i : svrp_inst) (acts : list nat),
    svrp_wf i -> svrp_solvable i -> adm (E:=SVRP fx) i acts = true ->
    (forall p q, acts = p ++ q -> q <> [] -> done (SVRP fx) i (run (E:=SVRP fx) i p) = false) ->
    (length acts <= sn_of i + sm_of i)%nat.
Proof. exact svrp_bound. Qed.
Print Assumptions C02_svrp_bound.

(* offered actions never index outside the tensors: always for the repaired behaviour; for the code as it is, on rows
   that are not yet finished when there are at least two technicians *)
Theorem C02_svrp_step_ok :
  forall (fx : bool) (i : svrp_inst) (acts : list nat) (a : nat),
    svrp_wf i -> svrp_solvable i -> adm (E:=SVRP fx) i acts = true ->
    offered (E:=SVRP fx) i (run (E:=SVRP fx) i acts) a = true ->
    (fx = true \/ (done (SVRP fx) i (run (E:=SVRP fx) i acts) = false /\ (2 <= sm_of i)%nat)) ->
    stepok (SVRP fx) i (run (E:=SVRP fx) i acts) a = true.
Proof. exact svrp_step_ok. Qed.
Print Assumptions C02_svrp_step_ok.

(* the code as it is: a finished row is offered the depot as padding and the step raises *)
Theorem C02_svrp_step_ok_refuted :
  exists i acts a, svrp_wfb i = true /\ svrp_solvableb i = true /\
    adm (E:=SVRP false) i acts = true /\ done (SVRP false) i (run (E:=SVRP false) i acts) = true /\
    offered (E:=SVRP false) i (run (E:=SVRP false) i acts) a = true /\
    stepok (SVRP false) i (run (E:=SVRP false) i acts) a = false.
Proof. exact svrp_step_ok_refuted. Qed.
Print Assumptions C02_svrp_step_ok_refuted.

(* the code as it is, one technician: the closing depot visit of an unfinished row raises *)
Theorem C02_svrp_step_ok_single_technician_refuted :
  exists i acts a, svrp_wfb i = true /\ svrp_solvableb i = true /\
    adm (E:=SVRP false) i acts = true /\ done (SVRP false) i (run (E:=SVRP false) i acts) = false /\
    offered (E:=SVRP false) i (run (E:=SVRP false) i acts) a = true /\
    stepok (SVRP false) i (run (E:=SVRP false) i acts) a = false.
Proof. exact svrp_step_ok_single_technician_refuted. Qed.
Print Assumptions C02_svrp_step_ok_single_technician_refuted.

(* the solvability hypothesis is needed: when the last technician cannot serve a customer the row never finishes
   (repaired behaviour: the depot stays the only offered action; code as it is: the next depot visit raises) *)
Example C02_svrp_unsolvable_never_finishes :
  let i := {| techs := [1; 2]; skills := [1; 9]; tcosts := [1; 2]; sdist := [] |} in
  svrp_wfb i = true /\ svrp_solvableb i = false /\
  mask (SVRP true) i (run (E:=SVRP true) i [1; 0; 0; 0]%nat) = [true; false; false] /\
  done (SVRP true) i (run (E:=SVRP true) i [1; 0; 0; 0]%nat) = false /\
  adm (E:=SVRP false) i [1; 0; 0]%nat = true /\ stepok (SVRP false) i (run (E:=SVRP false) i [1; 0]%nat) 0 = false.
Proof. vm_compute. repeat split; reflexivity. Qed.

Example C02_svrp_nonvacuous :
  let i := {| techs := [2; 5; 9]; skills := [2; 5; 6]; tcosts := [1; 2; 3]; sdist := [] |} in
  svrp_wfb i = true /\ svrp_solvableb i = true /\ adm (E:=SVRP false) i [1; 0; 2; 0; 3]%nat = true /\
  ok_from (E:=SVRP false) i (reset (SVRP false) i) [1; 0; 2; 0; 3]%nat = true /\
  mask (SVRP false) i (run (E:=SVRP false) i [1; 0]%nat) = [false; false; true; false].
Proof. vm_compute. repeat split; reflexivity. Qed.
