(* C01 for TSP -- mask-confined episodes yield tours. Statements only. *)
From Coq Require Import ZArith List Bool.
From RL4CO Require Import Base.Num Base.EnvSig Spec.Tours Env.TourCore Env.TSP Env.TSPProofs.
Import ListNotations.
Open Scope Z_scope.

(* For every instance with at least one city and EVERY action list whose actions each lie in the mask of the state
   they are taken in, once the row reports done the action list contains every city 0..n-1 exactly once and
   nothing else. *)
Theorem C01_tsp_mask_sound :
  forall (i : tsp_inst) (acts : list nat),
    tsp_wf i ->
    adm (E:=TSP) i acts = true ->
    done TSP i (run (E:=TSP) i acts) = true ->
    (forall j, (j < tsp_n i)%nat -> occ j acts = 1%nat) /\ (forall a, In a acts -> (a < tsp_n i)%nat).
Proof. exact tsp_mask_sound. Qed.
Print Assumptions C01_tsp_mask_sound.

Example C01_tsp_nonvacuous :
  let i := {| tdist := [[0; 3; 4]; [3; 0; 5]; [4; 5; 0]] |} in
  tsp_wfb i = true /\ adm (E:=TSP) i [2; 0; 1]%nat = true /\ done TSP i (run (E:=TSP) i [2; 0; 1]%nat) = true /\
  adm (E:=TSP) i [2; 0; 2]%nat = false.
Proof. vm_compute. auto. Qed.
