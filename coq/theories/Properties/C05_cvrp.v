(* C05 for CVRP -- the mask never hides a feasible solution. Statements only. *)
From Coq Require Import ZArith List Bool.
From RL4CO Require Import Base.Num Base.EnvSig Spec.Routes Env.CVRP Env.CVRPProofs.
Import ListNotations.
Open Scope Z_scope.

(* EVERY solution of the problem -- non-empty routes that partition the customers 1..n, each with load <= capacity
   (equality allowed) -- is reachable through the mask in its canonical encoding (one depot visit after each
   route: the documented pruning only removes depot->depot moves), the row is finished at its end, and decoding the
   encoding gives the same routes back *)
Theorem C05_cvrp_mask_complete :
  forall (i : cvrp_inst) (rs : list (list nat)),
    cvrp_wf i ->
    rs <> [] -> Forall (fun r => r <> []) rs -> NoDup (concat rs) ->
    (forall x, In x (concat rs) <-> (1 <= x <= n_of i)%nat) ->
    Forall (fun r => sumZ (map (demand i) r) <= cap i) rs ->
    adm (E:=CVRP exact) i (encode_routes rs) = true /\
    done (CVRP exact) i (run (E:=CVRP exact) i (encode_routes rs)) = true /\
    routes (encode_routes rs) = rs ++ [[]].
Proof. exact cvrp_mask_complete_unfolded. Qed.
Print Assumptions C05_cvrp_mask_complete.

(* and its reward is minus the sum of the closed route lengths: the optimum over solutions is reachable *)
Theorem C05_cvrp_encoding_keeps_objective :
  forall (i : cvrp_inst) (rs : list (list nat)),
    dfun i 0%nat 0%nat = 0 -> Forall (fun r => Forall (fun x => x <> 0%nat) r) rs ->
    cvrp_objective i (encode_routes rs) = - sumZ (map (route_len (dfun i)) rs).
Proof. exact cvrp_encode_objective. Qed.
Print Assumptions C05_cvrp_encoding_keeps_objective.

(* non-vacuity, with a route that fills the vehicle exactly (3 + 5 = 8) *)
Example C05_cvrp_nonvacuous :
  let i := {| dem := [3; 4; 5]; cap := 8; dist := []; tol := 0 |} in
  adm (E:=CVRP exact) i (encode_routes [[1; 3]; [2]]%nat) = true /\
  done (CVRP exact) i (run (E:=CVRP exact) i (encode_routes [[1; 3]; [2]]%nat)) = true.
Proof. vm_compute. auto. Qed.
