(* C04 (unit graph) -- FLPEnv, MCPEnv, DPPEnv, MDPPEnv: an instance's outcome is independent of its batch-mates.
   The batch-global constructs of these envs, written literally on whole batches and related to the row-wise reading:
     * `done = td["i"] >= td["to_choose"] - 1` with i of shape [B] and the quota of shape [B,1] (MCP always, FLP with the
       documented shape): a B x B matrix (Env/Selection.v, done_bxb);
     * FLP `chosen.nonzero(as_tuple=True)[1].view(batch, -1)` in _step and _get_reward: needs the same number of chosen
       locations in every row (Env/GraphBatch.v).
   Padding: these envs have no inert action, so no padding step exists that could be inert; with equal quotas all rows
   finish together and none is needed.  With per-row quotas in one batch the statement is false (kept as _refuted: the
   finished row is made to select past its quota and is rewarded for the larger selection).
   Only statements closed by [exact] and their Print Assumptions. *)
From Coq Require Import ZArith List Bool Arith.
From RL4CO Require Import Env.Selection Env.FLP Env.MCP Env.DPP Env.GraphBatch.
Import ListNotations.
Open Scope Z_scope.

(* ================================================================ done: [B] >= [B,1] *)
Theorem C04_done_matrix_rows_are_rowwise_done_when_quotas_equal :
  forall (is_ qs : list Z) (q : Z),
    length is_ = length qs -> (forall q', In q' qs -> q' = q) ->
    forall r, (r < length qs)%nat -> nth r (done_bxb is_ qs) [] = done_rowwise is_ qs.
Proof. exact done_bxb_equal_quota. Qed.
Print Assumptions C04_done_matrix_rows_are_rowwise_done_when_quotas_equal.

(* rows stepped in lockstep (all counters equal, as in every rl4co rollout): entry [r][c] is row r's own done, and
   td["done"].all() is "every row has reached its own quota", whatever the quotas *)
Theorem C04_done_matrix_in_lockstep_is_rowwise :
  forall (is_ qs : list Z) (i : Z),
    (forall i', In i' is_ -> i' = i) -> is_ <> [] -> length is_ = length qs ->
    all_done (done_bxb is_ qs) = forallb (fun b => b) (done_rowwise is_ qs) /\
    forall r c, (r < length qs)%nat -> (c < length is_)%nat ->
      nth c (nth r (done_bxb is_ qs) []) false = nth r (done_rowwise is_ qs) false.
Proof. exact done_bxb_lockstep. Qed.
Print Assumptions C04_done_matrix_in_lockstep_is_rowwise.

Theorem C04_done_matrix_per_row_quota_refuted :
  exists is_ qs, length is_ = length qs /\
    exists r, (r < length qs)%nat /\ nth r (done_bxb is_ qs) [] <> done_rowwise is_ qs.
Proof. exact done_bxb_refuted. Qed.
Print Assumptions C04_done_matrix_per_row_quota_refuted.

(* ================================================================ FLP: nonzero().view(batch, -1) *)
(* the same number k of chosen locations in every row: the view hands every row exactly its own chosen indices *)
Theorem C04_flp_nonzero_view_is_rowwise_when_counts_equal :
  forall (chosen : list (list bool)) (k : nat),
    (forall c, In c chosen -> length (nonzero c) = k) -> b_nonzero_view chosen = Some (map nonzero chosen).
Proof. exact b_nonzero_view_equal_counts. Qed.
Print Assumptions C04_flp_nonzero_view_is_rowwise_when_counts_equal.

(* different counts: the call raises, or -- total divisible by B -- silently hands a row the indices of its neighbour *)
Theorem C04_flp_nonzero_view_unequal_counts_refuted :
  (exists chosen, b_nonzero_view chosen = None) /\
  (exists chosen v, b_nonzero_view chosen = Some v /\ v <> map nonzero chosen /\
                    nth 0 v [] = [0%nat; 0%nat] /\ nth 0 (map nonzero chosen) [] = [0%nat]).
Proof. exact b_nonzero_view_unequal_counts_refuted. Qed.
Print Assumptions C04_flp_nonzero_view_unequal_counts_refuted.

(* the invariant that really holds: after k mask-confined steps a row has exactly k chosen locations (BECAUSE every
   offered action selects a new one: no inert action) *)
Theorem C04_flp_row_has_as_many_chosen_as_steps :
  forall (I : flp_inst) (as_ : list nat) (s : flp_st),
    flp_wf I -> flp_run I (flp_reset I) as_ = Some s -> length (nonzero (f_chosen s)) = length as_.
Proof. exact flp_chosen_count. Qed.
Print Assumptions C04_flp_row_has_as_many_chosen_as_steps.

(* hence: in ANY lockstep batch (every row k mask-confined steps from reset; any instances, any quotas) the batched
   distance update of _step and the batched reward of _get_reward are, row by row, what each row computes alone *)
Theorem C04_flp_lockstep_batch_distances_and_reward_are_rowwise :
  forall (rows : list (flp_inst * list nat * flp_st)) (k : nat),
    (forall r, In r rows -> flp_wf (fst (fst r)) /\ length (snd (fst r)) = k /\
                            flp_run (fst (fst r)) (flp_reset (fst (fst r))) (snd (fst r)) = Some (snd r)) ->
    let brows := map (fun r => (fst (fst r), f_chosen (snd r))) rows in
    flp_b_curmin brows = all_some (map (fun r => flp_curmin (fst (fst r)) (f_chosen (snd r))) rows) /\
    flp_b_reward brows = match all_some (map (fun r => flp_reward (fst (fst r)) (snd r)) rows) with
                         | Some l => Some l | None => None end.
Proof. exact flp_lockstep_batch_rowwise. Qed.
Print Assumptions C04_flp_lockstep_batch_distances_and_reward_are_rowwise.

(* ================================================================ padding *)
(* there is no padding action (see C02_*_no_inert_action); equal quotas => all rows finish at the same step, so none is
   ever needed and the outcome of a row is that of its solo run *)
Theorem C04_flp_equal_quota_rows_finish_together :
  forall (I1 I2 : flp_inst) (as1 as2 : list nat) (s1 s2 : flp_st),
    flp_wf I1 -> flp_wf I2 -> f_q I1 = f_q I2 -> length as1 = length as2 ->
    flp_run I1 (flp_reset I1) as1 = Some s1 -> flp_run I2 (flp_reset I2) as2 = Some s2 -> f_done s1 = f_done s2.
Proof. exact flp_equal_quota_finish_together. Qed.
Print Assumptions C04_flp_equal_quota_rows_finish_together.

Theorem C04_mcp_equal_quota_rows_finish_together :
  forall (I1 I2 : mcp_inst) (as1 as2 : list nat) (s1 s2 : mcp_st),
    mcp_wf I1 -> mcp_wf I2 -> m_q I1 = m_q I2 -> length as1 = length as2 ->
    mcp_run I1 (mcp_reset I1) as1 = Some s1 -> mcp_run I2 (mcp_reset I2) as2 = Some s2 -> m_done s1 = m_done s2.
Proof. exact mcp_equal_quota_finish_together. Qed.
Print Assumptions C04_mcp_equal_quota_rows_finish_together.

(* per-row quotas in one batch: FALSE (recorded finding; witnesses by vm_compute, reproduced on the real envs) *)
Theorem C04_mcp_outcome_depends_on_batch_mates_with_other_quota_refuted :
  exists Is steps ss m,
    Forall mcp_wf Is /\
    mcp_brun Is (map mcp_reset Is) (map (fun _ => [false]) Is) steps = Some (ss, m) /\ all_done m = true /\
    exists r I s, nth_error Is r = Some I /\ nth_error ss r = Some s /\
      Z.of_nat (count_true (m_chosen s)) <> m_q I /\
      exists s1, mcp_run I (mcp_reset I) (firstn 1 (map (fun acts => nth r acts 0%nat) steps)) = Some s1 /\
                 m_done s1 = true /\ mcp_reward I s1 <> mcp_reward I s.
Proof. exact mcp_batch_quota_refuted. Qed.
Print Assumptions C04_mcp_outcome_depends_on_batch_mates_with_other_quota_refuted.

Theorem C04_flp_outcome_depends_on_batch_mates_with_other_quota_refuted :
  exists Is steps ss m,
    Forall flp_wf Is /\
    flp_brun Is (map flp_reset Is) (map (fun _ => [false]) Is) steps = Some (ss, m) /\ all_done m = true /\
    exists r I s, nth_error Is r = Some I /\ nth_error ss r = Some s /\
      Z.of_nat (count_true (f_chosen s)) <> f_q I /\
      exists s1, flp_run I (flp_reset I) (firstn 1 (map (fun acts => nth r acts 0%nat) steps)) = Some s1 /\
                 f_done s1 = true /\ flp_reward I s1 <> flp_reward I s.
Proof. exact flp_batch_quota_refuted. Qed.
Print Assumptions C04_flp_outcome_depends_on_batch_mates_with_other_quota_refuted.

(* ================================================================ non-vacuity *)
Example C04_graph_nonvacuous :
  done_bxb [1; 1; 1] [2; 2; 2] = [[true; true; true]; [true; true; true]; [true; true; true]] /\
  done_rowwise [1; 1; 1] [2; 2; 2] = [true; true; true] /\
  b_nonzero_view [[false; true; false; true]; [true; false; false; true]] = Some [[1; 3]; [0; 3]]%nat /\
  flp_b_curmin [(flp_ex, [false; true; false; true]); (flp_ex, [true; false; false; true])] = Some [[5; 0; 4; 0]; [0; 5; 4; 0]].
Proof. vm_compute. repeat split; reflexivity. Qed.
