(* C04 for OP -- post-finish padding is inert (the row-wise half of C04; the batched half is differential). *)
From Coq Require Import ZArith List Bool.
From RL4CO Require Import Base.Num Base.EnvSig Spec.Routes Env.OP Env.OPProofs.
Import ListNotations.
Open Scope Z_scope.

(* after a row has finished, any number k of further steps: the depot is offered (and only it), the row stays
   finished, the mask does not change, and the reward of the padded action list equals that of the unpadded one *)
Theorem C04_op_padding_inert :
  forall (i : op_inst) (acts : list nat) (k : nat),
    op_wf i -> adm (E:=OP exact) i acts = true -> done (OP exact) i (run (E:=OP exact) i acts) = true ->
    let pad := repeat 0%nat k in
    adm (E:=OP exact) i (acts ++ pad) = true /\
    done (OP exact) i (run (E:=OP exact) i (acts ++ pad)) = true /\
    mask (OP exact) i (run (E:=OP exact) i (acts ++ pad)) = true :: repeat false (op_n i) /\
    op_reward i (acts ++ pad) = op_reward i acts.
Proof. exact op_padding_inert. Qed.
Print Assumptions C04_op_padding_inert.

Example C04_op_nonvacuous :
  let i := {| prz := [10; 20]; maxlen := 13; eps := 1; odist := [[0; 3; 4]; [3; 0; 5]; [4; 5; 0]]; otol := 0 |} in
  done (OP exact) i (run (E:=OP exact) i [2; 0]%nat) = true /\
  mask (OP exact) i (run (E:=OP exact) i [2; 0; 0; 0]%nat) = [true; false; false] /\ op_reward i [2; 0; 0; 0]%nat = 20.
Proof. vm_compute. auto. Qed.
