(* C06, unit "improve" -- check_solution_validity of TSPkoptEnv and PDPRuinRepairEnv (they look at td["rec_best"]).
   Only statements closed by [exact] and their Print Assumptions.
   [tspk_checker] / [pdp_checker] model the two checkers (sort == arange; plus the visited_time comparison for
   PDP); [is_tour] / [pdp_valid] are the independent definitions (Env/Improve.v, Env/ImprovePDP.v). *)
From Coq Require Import ZArith List Bool Arith Permutation.
From RL4CO Require Import Env.Improve Env.ImprovePDP Env.ImproveChecker Env.ImproveCheckerFix.
Import ListNotations.

(* THE CHECKERS AS THEY ARE NOW (/repo carries the "fix:" commits b35ddfb and 90f2aa9: both checkers additionally walk
   the successor array from node 0 and require every node to be reached): they decide validity EXACTLY, for every n.
   [tspk_checker_fix] / [pdp_checker_fix] are their models; the statements further down are about the checkers as
   found ([tspk_checker] / [pdp_checker]: permutation test only) and are kept as the record of the repaired
   defects (known_findings.json: fixed). *)
Theorem C06_improve_tspkopt_checker_exact :
  forall rec : list nat, tspk_checker_fix rec = true <-> is_tour rec.
Proof. exact tspk_checker_fix_exact. Qed.
Print Assumptions C06_improve_tspkopt_checker_exact.

Theorem C06_improve_pdprr_checker_exact :
  forall (rec : list nat) (h : nat), length rec = 2 * h + 1 -> (pdp_checker_fix rec = true <-> pdp_valid rec).
Proof. exact pdp_checker_fix_exact. Qed.
Print Assumptions C06_improve_pdprr_checker_exact.

(* ---- HISTORY: the checkers as found ---- *)
(* complete (all n): every single-cycle tour is accepted *)
Theorem C06_improve_tspkopt_checker_complete :
  forall rec : list nat, is_tour rec -> tspk_checker rec = true.
Proof. exact tspk_checker_complete. Qed.
Print Assumptions C06_improve_tspkopt_checker_complete.

(* what the TSPkopt checker decides exactly: "rec is a permutation of 0..n-1" *)
Theorem C06_improve_tspkopt_checker_is_permutation_test :
  forall rec : list nat, tspk_checker rec = true <-> Permutation rec (seq 0 (length rec)).
Proof. exact tspk_checker_perm. Qed.
Print Assumptions C06_improve_tspkopt_checker_is_permutation_test.

(* complete (all n = 2h+1): every valid PDP tour is accepted *)
Theorem C06_improve_pdprr_checker_complete :
  forall (rec : list nat) (h : nat), length rec = 2 * h + 1 -> pdp_valid rec -> pdp_checker rec = true.
Proof. exact pdp_checker_complete. Qed.
Print Assumptions C06_improve_pdprr_checker_complete.

(* sound once the array is known to be a single cycle: precedence violations are rejected (all n = 2h+1) *)
Theorem C06_improve_pdprr_checker_sound_on_single_cycles :
  forall (rec : list nat) (h : nat),
    length rec = 2 * h + 1 -> is_tour rec -> pdp_checker rec = true -> pdp_valid rec.
Proof. exact pdp_checker_sound_on_tours. Qed.
Print Assumptions C06_improve_pdprr_checker_sound_on_single_cycles.

(* REFUTED: "accepts => single cycle" fails for both checkers (sub-cycle permutations are accepted) *)
Theorem C06_improve_tspkopt_checker_sound_refuted :
  exists rec, tspk_checker rec = true /\ is_tourb rec = false.
Proof. exact tspk_checker_sound_refuted. Qed.
Print Assumptions C06_improve_tspkopt_checker_sound_refuted.

Theorem C06_improve_tspkopt_checker_sound_statement_false :
  ~ (forall rec, tspk_checker rec = true -> is_tour rec).
Proof. exact tspk_checker_sound_statement_false. Qed.
Print Assumptions C06_improve_tspkopt_checker_sound_statement_false.

Theorem C06_improve_pdprr_checker_sound_refuted :
  exists rec, length rec = 2 * 2 + 1 /\ pdp_checker rec = true /\ is_tourb rec = false.
Proof. exact pdp_checker_sound_refuted. Qed.
Print Assumptions C06_improve_pdprr_checker_sound_refuted.

Theorem C06_improve_pdprr_checker_sound_statement_false :
  ~ (forall rec h, length rec = 2 * h + 1 -> pdp_checker rec = true -> pdp_valid rec).
Proof. exact pdp_checker_sound_statement_false. Qed.
Print Assumptions C06_improve_pdprr_checker_sound_statement_false.

Example C06_improve_ex_tspkopt : is_tourb [3; 5; 4; 1; 0; 2] = true /\ tspk_checker [3; 5; 4; 1; 0; 2] = true.
Proof. exact tspk_checker_ex. Qed.
Example C06_improve_ex_pdprr :
  pdp_validb [2; 5; 1; 6; 3; 4; 0] = true /\ pdp_checker [2; 5; 1; 6; 3; 4; 0] = true
  /\ is_tourb [4; 2; 5; 6; 1; 3; 0] = true /\ pdp_checker [4; 2; 5; 6; 1; 3; 0] = false.
Proof. exact pdp_checker_ex. Qed.
