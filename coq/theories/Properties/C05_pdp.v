(* C05 for PDP -- the mask never hides a feasible route. Statements only. *)
From Coq Require Import ZArith List Bool.
From RL4CO Require Import Base.Num Base.EnvSig Spec.Tours Env.TourCore Env.PDP Env.PDPProofs.
Import ListNotations.
Open Scope Z_scope.

(* EVERY route that contains each node 0..n exactly once, starts at the depot and has each pickup before its delivery
   is admitted by the masks step by step (as its customer order when the depot is implicit, as itself with
   force_start_at_depot) and the row is done at its end; the encoding is the identity on the customer order, so the
   optimum is among the reachable sequences *)
Theorem C05_pdp_mask_complete :
  forall (i : pdp_inst) (acts : list nat),
    pdp_wf i ->
    let n := pgen_n i in
    let route := if pforce i then acts else 0%nat :: acts in
    (forall j, (j < n + 1)%nat -> occ j route = 1%nat) -> (forall a, In a route -> (a < n + 1)%nat) ->
    (exists rest, route = 0%nat :: rest) ->
    (forall k, (1 <= k <= n / 2)%nat -> (pos k route < pos (k + n / 2) route)%nat) ->
    adm (E:=PDP) i acts = true /\ done PDP i (run (E:=PDP) i acts) = true.
Proof. exact pdp_mask_complete_unfolded. Qed.
Print Assumptions C05_pdp_mask_complete.

(* the only other encodings the problem definition (and the checker) allows with force_start_at_depot put the depot
   visit last instead of first: that is the same closed tour and has the same reward as the reachable encoding *)
Theorem C05_pdp_depot_last_same_reward :
  forall (i : pdp_inst) (rest : list nat),
    (forall a b, pdp_d i a b = pdp_d i b a) -> pdp_d i 0 0 = 0 ->
    pdp_reward i (rest ++ [0%nat]) = pdp_reward i (0%nat :: rest).
Proof. exact pdp_depot_last_same_reward. Qed.
Print Assumptions C05_pdp_depot_last_same_reward.

(* all six precedence-respecting orders of two pairs are reachable *)
Example C05_pdp_nonvacuous :
  let i := {| pgen_n := 4; pforce := false; pdist := [[0;1;2;3;4]; [1;0;1;2;3]; [2;1;0;1;2]; [3;2;1;0;1]; [4;3;2;1;0]] |} in
  forallb (fun p => adm (E:=PDP) i p && done PDP i (run (E:=PDP) i p))
          [[1;2;3;4]; [1;2;4;3]; [2;1;3;4]; [2;1;4;3]; [1;3;2;4]; [2;4;1;3]]%nat = true.
Proof. vm_compute. auto. Qed.
