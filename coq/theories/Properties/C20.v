(* C20 -- running statistics and stateful baselines are exact for any training history.
   This file contains only statements closed by [exact] and their Print Assumptions. *)
From Coq Require Import List Arith Reals.
From RL4CO Require Import Base.OField Base.OFieldQc Base.OFieldR Train.Welford Train.Baselines Train.GenEq
  Train.WelfordZeroVar Gen.GenWelford Gen.GenBaselines.
Import ListNotations.
Open Scope of_scope.

(* the code as translated from /repo on this run, over every ordered field, for every history of batches *)
Theorem C20_welford_translated_code_exact :
  forall (K : ofield) (bs : list (list (list K))),   (* a history of batches, each a tensor given as its list of rows *)
    let xs := concat (map (@concat K) bs) in
    match gen_scaler_run K bs with
    | (c, m, M2) => c = length xs /\ of_nat (length xs) * m = fsum xs /\ M2 = ssd xs m
    end.
Proof. exact gen_welford_exact. Qed.
Print Assumptions C20_welford_translated_code_exact.

Theorem C20_welford_mean :
  forall (K : ofield) (bs : list (list K)), concat bs <> [] -> w_mean (w_run bs) = fmean (concat bs).
Proof. exact welford_mean. Qed.
Print Assumptions C20_welford_mean.

Theorem C20_welford_sample_variance :
  forall (K : ofield) (bs : list (list K)), concat bs <> [] ->
    w_var (w_run bs) = ssd (concat bs) (fmean (concat bs)) / (of_nat (length (concat bs)) - f1).
Proof. exact welford_variance. Qed.
Print Assumptions C20_welford_sample_variance.

Theorem C20_scaler_norm_output :
  forall (K : ofield) (sq : K -> K) (eps : K) (bs : list (list K)) (x : list K),
    let all := concat (bs ++ [x]) in
    all <> [] ->
    snd (w_call_norm sq eps (w_run bs) x) =
      map (fun v => (v - fmean all) / (sq (ssd all (fmean all) / (of_nat (length all) - f1)) + eps)) x.
Proof. exact scaler_call_norm. Qed.
Print Assumptions C20_scaler_norm_output.

Theorem C20_scaler_scale_output :
  forall (K : ofield) (sq : K -> K) (eps : K) (bs : list (list K)) (x : list K),
    let all := concat (bs ++ [x]) in
    all <> [] ->
    snd (w_call_scale sq eps (w_run bs) x) =
      map (fun v => v / (sq (ssd all (fmean all) / (of_nat (length all) - f1)) + eps)) x.
Proof. exact scaler_call_scale. Qed.
Print Assumptions C20_scaler_scale_output.

(* zero-variance histories (every value observed so far, the current batch included, is the same number c):
   sqrt is abstract with the single hypothesis sq 0 = 0; the scaling factor  std + eps  is then exactly eps *)
Theorem C20_scaler_scale_output_zero_variance :
  forall (K : ofield) (sq : K -> K) (eps c : K) (bs : list (list K)) (x : list K),
    sq f0 = f0 ->
    let all := concat (bs ++ [x]) in
    all <> [] -> Forall (fun v => v = c) all ->
    snd (w_call_scale sq eps (w_run bs) x) = map (fun v => v / eps) x.
Proof. exact scaler_call_scale_zero_variance. Qed.
Print Assumptions C20_scaler_scale_output_zero_variance.

Theorem C20_scaler_norm_output_zero_variance :
  forall (K : ofield) (sq : K -> K) (eps c : K) (bs : list (list K)) (x : list K),
    sq f0 = f0 ->
    let all := concat (bs ++ [x]) in
    all <> [] -> Forall (fun v => v = c) all ->
    snd (w_call_norm sq eps (w_run bs) x) = map (fun _ => f0) x.
Proof. exact scaler_call_norm_zero_variance. Qed.
Print Assumptions C20_scaler_norm_output_zero_variance.

(* the sign of eps in the factor is observable exactly there: dividing by (0 - eps) negates the output *)
Theorem C20_scale_by_minus_eps_negates :
  forall (K : ofield) (eps v : K), eps <> f0 -> v / (f0 - eps) = - (v / eps).
Proof. exact scale_by_minus_eps. Qed.
Print Assumptions C20_scale_by_minus_eps_negates.

Example C20_zero_variance_example :   (* RewardScaler('scale')([2,2,2]) with eps = 2^-23: 2 * 2^23 = 16777216 *)
  snd (w_call_scale (K:=QcF) (fun _ => qc 0 1) (qc 1 8388608) (w_run []) [qc 2 1; qc 2 1; qc 2 1])
  = [qc 16777216 1; qc 16777216 1; qc 16777216 1].
Proof. vm_compute. reflexivity. Qed.

Theorem C20_chunking_irrelevant :
  forall (K : ofield) (bs bs' : list (list K)),
    concat bs = concat bs' -> concat bs <> [] ->
    w_count (w_run bs) = w_count (w_run bs') /\ w_mean (w_run bs) = w_mean (w_run bs') /\
    w_M2 (w_run bs) = w_M2 (w_run bs').
Proof. exact welford_chunking_irrelevant. Qed.
Print Assumptions C20_chunking_irrelevant.

Theorem C20_ema_recurrence :
  forall (K : ofield) (beta : K) (r0 : list K) (hist : list (list K)),
    ema_run beta None (r0 :: hist) = fmean r0 :: ema_spec beta (fmean r0) (map fmean hist).
Proof. exact ema_recurrence. Qed.
Print Assumptions C20_ema_recurrence.

Theorem C20_ema_translated_is_model :
  forall (K : ofield) (beta : K) (v : option K) (r : list K), gen_ema_eval K beta v r = ema_eval beta v r.
Proof. exact ema_eval_gen_eq. Qed.
Print Assumptions C20_ema_translated_is_model.

Theorem C20_ema_bounded :
  forall (K : ofield) (beta lo hi prev : K) (means : list K),
    fle f0 beta -> fle beta f1 -> fle lo prev -> fle prev hi ->
    Forall (fun m => fle lo m /\ fle m hi) means ->
    Forall (fun v => fle lo v /\ fle v hi) (ema_spec beta prev means).
Proof. exact ema_bounded. Qed.
Print Assumptions C20_ema_bounded.

Theorem C20_mean_baseline_is_beta0 :
  forall (K : ofield) (v : option K) (r : list K), ema_value (ema_eval f0 v r) = fmean r.
Proof. exact mean_baseline_is_beta0. Qed.
Print Assumptions C20_mean_baseline_is_beta0.

Theorem C20_warmup_convex_translated :
  forall (K : ofield) (alpha v_b l_b v_wb l_wb : K),
    gen_warmup_eval K alpha v_b l_b v_wb l_wb =
      (alpha * v_b + (f1 - alpha) * v_wb, alpha * l_b + (f1 - alpha) * l_wb).
Proof. intros K alpha v_b l_b v_wb l_wb. rewrite warmup_eval_gen_eq. exact (warmup_convex K alpha v_b l_b v_wb l_wb). Qed.
Print Assumptions C20_warmup_convex_translated.

Theorem C20_warmup_alpha :
  forall (K : ofield) (n_epochs e : nat), (0 < n_epochs)%nat ->
    warmup_alpha_after (K:=K) n_epochs e = if Nat.leb n_epochs e then f1 else of_nat e / of_nat n_epochs.
Proof. exact warmup_alpha. Qed.
Print Assumptions C20_warmup_alpha.

Theorem C20_warmup_alpha_range :
  forall (K : ofield) (n_epochs e : nat), (0 < n_epochs)%nat ->
    fle f0 (warmup_alpha_after (K:=K) n_epochs e) /\ fle (warmup_alpha_after (K:=K) n_epochs e) f1.
Proof. exact warmup_alpha_range. Qed.
Print Assumptions C20_warmup_alpha_range.

Theorem C20_warmup_alpha_monotone :
  forall (K : ofield) (n_epochs e : nat), (0 < n_epochs)%nat ->
    fle (warmup_alpha_after (K:=K) n_epochs e) (warmup_alpha_after n_epochs (S e)).
Proof. exact warmup_alpha_monotone. Qed.
Print Assumptions C20_warmup_alpha_monotone.

(* the statement about real arithmetic (instance at Coq's R; real-number axioms appear here) *)
Theorem C20_welford_exact_over_R :
  forall bs : list (list (list R)),
    let xs := concat (map (@concat R) bs) in
    match gen_scaler_run RF bs with
    | (c, m, M2) => c = length xs /\ (INR (length xs) * m = fold_right Rplus 0 xs)%R
    end.
Proof. exact welford_exact_R. Qed.
Print Assumptions C20_welford_exact_over_R.

(* non-vacuity: a concrete history at the executable instance *)
Example C20_nonvacuous :
  w_count (w_run (K:=QcF) [[qc 1 2; qc 3 4]; [qc 5 1]]) = 3%nat /\
  w_mean (w_run (K:=QcF) [[qc 1 2; qc 3 4]; [qc 5 1]]) = qc 25 12.
Proof. split; [reflexivity | apply Qcanon.Qc_is_canon; vm_compute; reflexivity]. Qed.
