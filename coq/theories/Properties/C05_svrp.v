(* C05 for SVRPEnv -- which solutions the mask admits. Statements only.
   The mask prunes more than pointless moves: a technician who could serve a waiting customer may not stay at home.
   Completeness is proved for exactly the solutions that respect this ([canonical]); the refutation shows that the
   pruning loses the optimum. *)
From Coq Require Import ZArith List Bool.
From RL4CO Require Import Base.Num Base.EnvSig Spec.Routes Env.SVRP Env.SVRPProofs.
Import ListNotations.
Open Scope Z_scope.

(* EVERY solution -- one route per technician 0..L-1 (L <= m), possibly empty, partitioning the customers, every customer
   within the skill of its technician (EQUALITY ALLOWED) -- in which a technician stays at home only when none of the
   customers on later routes is within his skill, and the last listed technician drives, is admitted by the mask in its
   encoding (routes separated by one depot visit; a closing depot visit when only technician 0 is listed), and the
   row is finished at its end *)
Theorem C05_svrp_mask_complete :
  forall (fx : bool) (i : svrp_inst) (rs : list (list nat)),
    svrp_wf i -> rs <> [] -> (length rs <= sm_of i)%nat -> NoDup (concat rs) ->
    (forall x, In x (concat rs) <-> (1 <= x <= sn_of i)%nat) ->
    routes_ok i 0 rs -> canonical i 0 rs ->
    adm (E:=SVRP fx) i (encode rs) = true /\ done (SVRP fx) i (run (E:=SVRP fx) i (encode rs)) = true.
Proof. exact svrp_mask_complete. Qed.
Print Assumptions C05_svrp_mask_complete.

Theorem C05_svrp_encoding_keeps_objective :
  forall (i : svrp_inst) (rs : list (list nat)),
    sdfun i 0%nat 0%nat = 0 -> rs <> [] -> Forall (fun r => Forall (fun x => x <> 0%nat) r) rs ->
    svrp_objective i (encode rs) = - wsum i 0 rs.
Proof. exact svrp_encode_objective. Qed.
Print Assumptions C05_svrp_encoding_keeps_objective.

(* the pruning hides the optimum: on [idle_inst] the feasible solution "technician 0 stays at home, technician 1 serves
   both customers" costs 140, is not admitted, and every complete admitted episode (of at most n + m + ... 5 steps,
   the proven bound for episodes without padding) costs at least 172 *)
Theorem C05_svrp_idle_technician_hidden_refuted :
  svrp_wfb idle_inst = true /\ svrp_solvableb idle_inst = true /\
  let sol := [0; 1; 2]%nat in
  svrp_feasible idle_inst sol /\ svrp_objective idle_inst sol = -140 /\
  adm (E:=SVRP false) idle_inst sol = false /\
  forall acts, (length acts <= sn_of idle_inst + sm_of idle_inst)%nat ->
    adm (E:=SVRP false) idle_inst acts = true -> done (SVRP false) idle_inst (run (E:=SVRP false) idle_inst acts) = true ->
    svrp_objective idle_inst acts <= -172.
Proof. exact svrp_idle_technician_hidden_refuted. Qed.
Print Assumptions C05_svrp_idle_technician_hidden_refuted.

(* non-vacuity: technician 0 (skill 2) cannot serve anybody waiting, so staying at home is canonical *)
Example C05_svrp_nonvacuous :
  let i := {| techs := [2; 5; 9]; skills := [5; 3]; tcosts := [1; 2; 3]; sdist := [] |} in
  canonical i 0 [[]; [1; 2]]%nat /\ adm (E:=SVRP false) i (encode [[]; [1; 2]]%nat) = true /\
  done (SVRP false) i (run (E:=SVRP false) i (encode [[]; [1; 2]]%nat)) = true.
Proof. split; [|vm_compute; repeat split; reflexivity]. cbn. repeat split; try discriminate; try congruence; intros j [<-|[<-|[]]]; vm_compute; reflexivity. Qed.
