(* MTSPEnv (rl4co/envs/routing/mtsp/env.py), one batch row, bookkeeping variable by variable.
   Node 0 is the depot, cities are 1..n (num_loc = n + 1 nodes).  All quantities are scaled integers;
   [A : arith] is the rounding applied where the code performs a float32 operation.

   The code as it is has two defects (DESIGN section 8 and the report of this unit):
     - _step keeps accumulating current_length on rows that are already finished (minmax reward changes with padding);
     - _get_reward for cost_type "sum" gathers with [actions.unsqueeze(-1).expand_as(locs)] (raises unless there are
       exactly num_loc actions, or a single one, which is broadcast and gives reward 0) and measures the closed tour
       through the ACTIONS only (not anchored at the depot).
   The model follows the code; the two repairs are switchable through [mtsp_cfg] so that the full-strength
   statements are proved about the repaired model already.  [cfg_code] is the single switch that says which
   configuration the code in /repo currently has (used by the correspondence harness only). *)
From Coq Require Import ZArith List Bool Lia ZifyBool Arith.
From RL4CO Require Import Base.Num Base.EnvSig.
Import ListNotations.
Open Scope Z_scope.

Record mtsp_cfg := {
  freeze_done : bool;     (* true: a row that was already finished before the step adds no leg to current_length *)
  sum_anchored : bool;    (* true: the "sum" reward is the closed walk depot :: actions, any number of actions *)
}.
Definition cfg_faithful : mtsp_cfg := {| freeze_done := false; sum_anchored := false |}.
Definition cfg_repaired : mtsp_cfg := {| freeze_done := true; sum_anchored := true |}.
(* >>> the switch: which configuration rl4co's working tree has <<< *)
Definition cfg_code : mtsp_cfg := cfg_repaired.  (* /repo carries the three mTSP "fix:" commits since 2026-10-01 *)

Record mtsp_inst := {
  nag : Z;                 (* td["num_agents"] (int64) *)
  dist : list (list Z);    (* pairwise distances of td["locs"] (depot first): what get_distance returns *)
}.
Definition nnodes (i : mtsp_inst) : nat := length (dist i).       (* num_loc *)
Definition n_of (i : mtsp_inst) : nat := nnodes i - 1.            (* number of cities *)
Definition dfun (i : mtsp_inst) (a b : nat) : Z := mget (dist i) a b.

Record mtsp_st := {
  cur : nat;            (* td["current_node"] *)
  agent : Z;            (* td["agent_idx"] *)
  curlen : Z;           (* td["current_length"] *)
  maxsub : Z;           (* td["max_subtour_length"]; td["reward"] = - maxsub *)
  avail : list bool;    (* td["action_mask"] *)
  cnt : nat;            (* td["i"] *)
  first : nat;          (* td["first_node"] *)
  dn : bool;            (* td["done"] *)
}.

Section Model.
  Variable A : arith.
  Variable C : mtsp_cfg.

  Definition mtsp_reset (i : mtsp_inst) : mtsp_st :=
    {| cur := 0; agent := 0; curlen := 0; maxsub := 0;
       avail := set_nth 0 false (repeat true (nnodes i));
       cnt := 0; first := 0; dn := false |}.

  (* [is_first] is the value of  batch_to_scalar(td["i"]) == 0 ; row-wise it is  cnt s = 0 *)
  Definition mtsp_step_g (is_first : bool) (i : mtsp_inst) (s : mtsp_st) (a : nat) : mtsp_st :=
    let first_node := if is_first then a else first s in
    let cur_agent := agent s + (if Nat.eqb a 0 then 1 else 0) in
    let av1 := set_nth a false (avail s) in                                   (* scatter(-1, current_node, 0) *)
    let dep := negb (Nat.eqb a 0) && (agent s <? nag i - 1) in                (* logical_and(current_node != 0, agent_idx < num_agents - 1) *)
    let av2 := set_nth 0 dep av1 in
    let done := negb (anyb (tl av2)) in                                       (* count_nonzero(available[..., 1:]) == 0 *)
    let av3 := set_nth 0 (done || dep) av2 in
    (* repair: rows already finished before this step (no city left in the incoming mask) add no leg *)
    let was_done := negb (anyb (tl (avail s))) in
    let leg := if freeze_done C && was_done then 0 else dfun i (cur s) a in    (* get_distance(cur_loc, prev_loc) *)
    let cl1 := rnd A (curlen s + leg) in
    let cl2 := if done then rnd A (cl1 + dfun i a 0) else cl1 in              (* + get_distance(cur_loc, depot_loc) *)
    let mx := if maxsub s <? cl2 then cl2 else maxsub s in                    (* where(current_length > max, ...) *)
    let cl3 := if Nat.eqb a 0 then 0 else cl2 in                              (* *= (cur_agent_idx == agent_idx) *)
    {| cur := a; agent := cur_agent; curlen := cl3; maxsub := mx; avail := av3;
       cnt := S (cnt s); first := first_node; dn := done |}.

  Definition mtsp_step (i : mtsp_inst) (s : mtsp_st) (a : nat) : mtsp_st :=
    mtsp_step_g (Nat.eqb (cnt s) 0) i s a.

  (* gather / scatter indices must be inside the tensors *)
  Definition mtsp_stepok (i : mtsp_inst) (s : mtsp_st) (a : nat) : bool := Nat.ltb a (nnodes i).

  Definition mtsp_mask (i : mtsp_inst) (s : mtsp_st) : list bool := avail s.
  Definition mtsp_done (i : mtsp_inst) (s : mtsp_st) : bool := dn s.

  Definition MTSP : Env := {|
    inst := mtsp_inst; st := mtsp_st;
    reset := mtsp_reset; step := mtsp_step; stepok := mtsp_stepok; mask := mtsp_mask; done := mtsp_done |}.

  (* ------------------------------------------------------------------ the batched step, literally *)
  (* is_first_action = batch_to_scalar(td["i"]) == 0  reads row 0 of the batch and is used for every row *)
  Definition mtsp_bstep (rows : list (mtsp_inst * mtsp_st)) (acts : list nat) : list mtsp_st :=
    match rows with
    | [] => []
    | (_, s0) :: _ =>
        let is_first := Nat.eqb (cnt s0) 0 in
        map (fun ra => mtsp_step_g is_first (fst (fst ra)) (snd (fst ra)) (snd ra)) (combine rows acts)
    end.
  Definition mtsp_rowwise (rows : list (mtsp_inst * mtsp_st)) (acts : list nat) : list mtsp_st :=
    map (fun ra => mtsp_step (fst (fst ra)) (snd (fst ra)) (snd ra)) (combine rows acts).

  (* ------------------------------------------------------------------ rewards *)
  (* cost_type "minmax": td["reward"] of the last step *)
  Definition mtsp_reward_minmax (s : mtsp_st) : Z := - maxsub s.

  (* consecutive distances from [from] along [l], no return leg *)
  Fixpoint plen (d : nat -> nat -> Z) (from : nat) (l : list nat) : Z :=
    match l with [] => 0 | x :: r => d from x + plen d x r end.
  (* get_tour_length(locs.gather(actions)): closed tour through the actions themselves *)
  Definition tsp_cycle (d : nat -> nat -> Z) (acts : list nat) : Z :=
    match acts with [] => 0 | a0 :: r => plen d a0 r + d (last r a0) a0 end.

  (* cost_type "sum":  locs.gather(1, actions.unsqueeze(-1).expand_as(locs)).
     expand_as needs exactly num_loc actions; a SINGLE action is broadcast to num_loc copies of itself (a "tour" of
     num_loc identical points); any other number of actions raises (None) *)
  Definition mtsp_reward_sum (i : mtsp_inst) (acts : list nat) : option Z :=
    if sum_anchored C then Some (- (plen (dfun i) 0%nat acts + dfun i (last acts 0%nat) 0%nat))
    else if Nat.eqb (length acts) (nnodes i) then Some (- tsp_cycle (dfun i) acts)
    else match acts with
         | [a] => Some (- (Z.of_nat (nnodes i) * dfun i a a))
         | _ => None
         end.
End Model.
