(* FFSP -- rl4co/envs/scheduling/ffsp/env.py (FFSPEnv._reset, _step, _move_to_next_machine, _update_step_state,
   IndexTables), one batch row, variable by variable.

   Instance of a row: num_job J, num_stage S, num_machine M (per stage), run_time (J rows of S*M durations),
   the row of IndexTables.machine_table this batch row reads (`mtab`; the code picks it by  idx // bs , i.e. by
   the POSITION of the row in the batch), and the flatten_stages flag (only used for stage_machine_idx).

   State of a row: time_idx, sub_time_idx, machine_idx, machine_wait_step, job_wait_step, job_location,
   schedule (machine-major table of start times, -999999 = empty, with the dummy job in column J),
   done, and the three fields only _update_step_state writes (action_mask, stage_idx, stage_machine_idx).

   _move_to_next_machine is a do-while over (sub_time_idx, time_idx); it is modelled by `move` with explicit
   fuel `fuel_of`, and FFSPProofs.v proves that this fuel always suffices (termination of the loop).

   Batch-global constructs of the code and how the row model treats them: `if td["done"].all()` (twice in
   _step), `while ~ready.all()` with the shrinking index set `idx`, the two `.all()` asserts, the shared
   IndexTables object with `bs`, and `step_cnt`.  The loop treats each unfinished row independently (a row
   leaves `idx` when it is ready) and skips finished rows; the row model does exactly that.  The first
   `done.all()` skips _update_step_state on the step that finishes the LAST row of the batch, so the stored
   action_mask / stage_idx of that final state are stale; the row model always refreshes them (this is what
   a finished row next to an unfinished one gets).  No step is ever taken from the all-done state, and the
   harness does not compare these three fields there.  The second `done.all()` writes `reward` for every row
   once all rows are finished; `reward_of` is that expression, a function of the row's schedule, whose job
   columns no longer change once the row is done (FFSPProofs.done_frozen). *)
From Coq Require Import ZArith List Bool Lia ZifyBool Arith.
From RL4CO Require Import Base.FFSPLists Spec.FlowShop.
Import ListNotations.
Open Scope Z_scope.

Module FFSP.

Definition sentinel : Z := -999999.

Record inst := { nJ : nat; nS : nat; nM : nat; rt : list (list Z); mtab : list nat; flat : bool }.

Definition nT (i : inst) : nat := (nS i * nM i)%nat.
(* job_duration[: J] = run_time, job_duration[J] = 0 (dummy job) *)
Definition job_duration (i : inst) : list (list Z) := rt i ++ [repeat 0 (nT i)].
Definition jdur (i : inst) (j m : nat) : Z := nth m (nth j (job_duration i) []) 0.
(* IndexTables.stage_table = arange(S).repeat_interleave(M) *)
Definition stage_of (i : inst) (k : nat) : nat := (k / nM i)%nat.
(* IndexTables.stage_machine_table: machine_table if flatten_stages else the bare permutation *)
Definition sm_of (i : inst) (k : nat) : nat :=
  if flat i then nth k (mtab i) 0%nat else (nth k (mtab i) 0 - stage_of i k * nM i)%nat.

(* input format: sizes positive, run_time is J x (S*M) with 0 <= d < 999999, the machine-table row has S*M
   entries and entry k is a machine of stage k / M.  (The bound 999999 is the magnitude of the code's
   "empty" marker; FFSPProofs.reward_needs_duration_bound shows that it is needed.) *)
Definition wfb (i : inst) : bool :=
  (1 <=? nJ i)%nat && (1 <=? nS i)%nat && (1 <=? nM i)%nat
  && (length (rt i) =? nJ i)%nat
  && forallb (fun row => (length row =? nT i)%nat && forallb (fun d => (0 <=? d) && (d <? 999999)) row) (rt i)
  && (length (mtab i) =? nT i)%nat
  && forallb (fun k => (nth k (mtab i) 0 <? nT i)%nat && (nth k (mtab i) 0 / nM i =? k / nM i)%nat) (seq 0 (nT i)).

Record st := {
  time : Z; sub : nat; mach : nat;
  mws : list Z; jws : list Z; jloc : list nat; sched : list (list Z);
  done : bool;
  amask : list bool; stage_idx : nat; sm_idx : nat
}.

Definition reset (i : inst) : st := {|
  time := 0; sub := 0; mach := nth 0 (mtab i) 0%nat;
  mws := repeat 0 (nT i); jws := repeat 0 (S (nJ i)); jloc := repeat 0%nat (S (nJ i));
  sched := repeat (repeat sentinel (S (nJ i))) (nT i);
  done := false;
  amask := repeat true (nJ i) ++ [false]; stage_idx := stage_of i 0; sm_idx := sm_of i 0
|}.

Definition mask (s : st) : list bool := amask s.

(* accessors *)
Definition mw (s : st) (m : nat) : Z := nth m (mws s) 0.
Definition jw (s : st) (j : nat) : Z := nth j (jws s) 0.
Definition loc (s : st) (j : nat) : nat := nth j (jloc s) 0%nat.
Definition sc (s : st) (m j : nat) : Z := nth j (nth m (sched s) []) sentinel.

(* first half of _step: the writes caused by the action (job index a, J = wait) on the current machine *)
Definition act (i : inst) (s : st) (a : nat) : st :=
  let d := jdur i a (mach s) in
  let jl := set_nth a (S (loc s a)) (jloc s) in
  {| time := time s; sub := sub s; mach := mach s;
     mws := set_nth (mach s) d (mws s);
     jws := set_nth a d (jws s);
     jloc := jl;
     sched := set_nth (mach s) (set_nth a (time s) (nth (mach s) (sched s) [])) (sched s);
     done := forallb (fun l => (l =? nS i)%nat) (firstn (nJ i) jl);
     amask := amask s; stage_idx := stage_idx s; sm_idx := sm_idx s |}.

(* one iteration of the while loop of _move_to_next_machine *)
Definition dec (req : bool) (l : list Z) : list Z :=
  map (fun w => let w1 := if req then w - 1 else w in if w1 <? 0 then 0 else w1) l.

Definition tick (i : inst) (s : st) : st :=
  let nsub := S (sub s) in
  let req := (nsub =? nT i)%nat in
  let nsub' := if req then 0%nat else nsub in
  {| time := if req then time s + 1 else time s; sub := nsub'; mach := nth nsub' (mtab i) 0%nat;
     mws := dec req (mws s); jws := dec req (jws s);
     jloc := jloc s; sched := sched s; done := done s;
     amask := amask s; stage_idx := stage_idx s; sm_idx := sm_idx s |}.

(* ready = machine_ready & job_ready *)
Definition readyb (i : inst) (s : st) : bool :=
  (mw s (mach s) =? 0)
  && existsb (fun j => (loc s j =? stage_of i (sub s))%nat && (jw s j =? 0)) (seq 0 (nJ i)).

Fixpoint move (i : inst) (fuel : nat) (s : st) : option st :=
  match fuel with
  | O => None
  | S f => let s' := tick i s in if readyb i s' then Some s' else move i f s'
  end.

(* fuel: (largest wait counter + 2) sweeps over the stage x machine table *)
Definition fuel_of (i : inst) (s : st) : nat :=
  let w := maxl (0 :: mws s ++ jws s) in ((Z.to_nat w + 2) * nT i)%nat.

(* _update_step_state *)
Definition mask_of (i : inst) (s : st) : list bool :=
  let stg := stage_of i (sub s) in
  let jobs := seq 0 (nJ i) in
  map (fun j => (loc s j =? stg)%nat && (jw s j =? 0)) jobs
  ++ [ existsb (fun j => (loc s j <? stg)%nat) jobs
       || existsb (fun j => (loc s j =? stg)%nat && (0 <? jw s j)) jobs
       || done s ].

Definition upd (i : inst) (s : st) : st :=
  {| time := time s; sub := sub s; mach := mach s; mws := mws s; jws := jws s; jloc := jloc s;
     sched := sched s; done := done s;
     amask := mask_of i s; stage_idx := stage_of i (sub s); sm_idx := sm_of i (sub s) |}.

(* _step for one row.  None = the real code raises (index out of range) or the loop does not terminate
   within the fuel; FFSPProofs.FFSP_step_total shows neither happens on admitted actions. *)
Definition step (i : inst) (s : st) (a : nat) : option st :=
  if (a <=? nJ i)%nat && (mach s <? nT i)%nat then
    let s1 := act i s a in
    if done s1 then Some (upd i s1)
    else match move i (fuel_of i s1) s1 with
         | Some s2 => Some (upd i s2)
         | None => None
         end
  else None.

Fixpoint run (i : inst) (s : st) (acts : list nat) : option st :=
  match acts with
  | [] => Some s
  | a :: r => match step i s a with Some s' => run i s' r | None => None end
  end.

Fixpoint adm (i : inst) (s : st) (acts : list nat) : bool :=
  match acts with
  | [] => true
  | a :: r => nth a (mask s) false && match step i s a with Some s' => adm i s' r | None => false end
  end.

(* the expression _step stores in td["reward"] once every row is done:
   end_schedule = schedule + job_duration.permute(0,2,1); max over the J real jobs, then over machines *)
Definition reward_of (i : inst) (s : st) : Z :=
  - maxl (map (fun m => maxl (map (fun j => sc s m j + jdur i j m) (seq 0 (nJ i)))) (seq 0 (nT i))).

(* the schedule a user reads off td["schedule"]: real-job columns, -999999 = not processed here *)
Definition table_to_sched (J : nat) (tbl : list (list Z)) : FlowShop.sched :=
  map (fun row => map (fun v => if v =? sentinel then None else Some v) (firstn J row)) tbl.
Definition schedule_of (i : inst) (s : st) : FlowShop.sched := table_to_sched (nJ i) (sched s).

Definition pt (i : inst) (j m : nat) : Z := nth m (nth j (rt i) []) 0.

(* ---------------- a concrete run (the first row of a real 3-job, 2-stage, 2-machine episode) ------------- *)
Definition ex_i : inst := {| nJ := 3; nS := 2; nM := 2; rt := [[1; 3; 2; 3]; [2; 2; 3; 2]; [1; 2; 1; 3]];
                             mtab := [0; 1; 2; 3]%nat; flat := true |}.
Definition ex_acts : list nat := [1; 0; 2; 3; 3; 2; 1; 0]%nat.
Example ex_run : wfb ex_i = true /\ adm ex_i (reset ex_i) ex_acts = true /\
  match run ex_i (reset ex_i) ex_acts with
  | Some s => done s = true /\ reward_of ex_i s = -6 /\
              schedule_of ex_i s = [[None; Some 0; Some 2]; [Some 0; None; None]; [Some 4; None; Some 3]; [None; Some 3; None]]
  | None => False
  end.
Proof. vm_compute. repeat split; reflexivity. Qed.

End FFSP.
