(* OPEnv (rl4co/envs/routing/op/env.py), one batch row, bookkeeping variable by variable.
   Node 0 is the depot, customers are 1..n.  All quantities are scaled integers; [A : arith] is the rounding
   applied where the code performs a float32 operation.
   Distances are instance data: [dist a b] stands for |loc b - loc a|, the vector FROM a TO b, at every site:
     _step            (current_loc - previus_loc).norm            = dist prev cur
     get_action_mask  (td["locs"] - current_loc).norm             = dist cur j
     _reset           (td["depot"] - locs_with_depot).norm        = dist j 0     (the return leg of node j)
     checker          (td["locs"][..., 0:1, :] - td["locs"]).norm = dist j 0
     get_tour_length  (roll(locs, -1) - locs).norm                = dist a_k a_{k+1}                         *)
From Coq Require Import ZArith List Bool Lia ZifyBool Arith.
From RL4CO Require Import Base.Num Base.EnvSig Base.SortNat.
Import ListNotations.
Open Scope Z_scope.

Record op_inst := {
  prz : list Z;            (* td["prize"], customers only *)
  maxlen : Z;              (* td["max_length"]: the ORIGINAL length limit of the instance *)
  eps : Z;                 (* the constant 1e-6 of _reset (and of the checker), as the float32 the code uses, scaled *)
  odist : list (list Z);   (* pairwise distances of the nodes, depot first *)
  otol : Z;                (* the constant 1e-5 of check_solution_validity, scaled *)
}.
Definition op_n (i : op_inst) : nat := length (prz i).
Definition odfun (i : op_inst) (a b : nat) : Z := mget (odist i) a b.
(* F.pad(td["prize"], (1, 0)): prize with a 0 for the depot in front *)
Definition pz (i : op_inst) (a : nat) : Z := nth a (0 :: prz i) 0.
Definition prize (i : op_inst) (j : nat) : Z := nth (j - 1) (prz i) 0.   (* prize of customer j >= 1 *)

(* tour_length, current_node, visited, current_total_prize, i, done *)
Record op_st := { ocur : nat; otl : Z; ovis : list bool; otot : Z; ocnt : nat; odn : bool }.

Section Model.
  Variable A : arith.

  (* td_reset["max_length"][j] = max_length - |depot - loc j| - 1e-6   (two float32 operations) *)
  Definition op_maxl (i : op_inst) (j : nat) : Z := rnd A (rnd A (maxlen i - odfun i j 0) - eps i).

  Definition op_reset (i : op_inst) : op_st :=
    {| ocur := 0; otl := 0; ovis := repeat false (S (op_n i)); otot := 0; ocnt := 0; odn := false |}.

  Definition op_step (i : op_inst) (s : op_st) (a : nat) : op_st :=
    {| ocur := a;
       otl := rnd A (otl s + odfun i (ocur s) a);
       ovis := set_nth a true (ovis s);
       otot := rnd A (otot s + pz i a);
       ocnt := S (ocnt s);
       odn := Nat.eqb a 0 && Nat.ltb 0 (ocnt s) |}.

  (* gather / scatter indices must be inside the tensors *)
  Definition op_stepok (i : op_inst) (s : op_st) (a : nat) : bool := Nat.leb a (op_n i).

  Definition op_done (i : op_inst) (s : op_st) : bool := odn s.

  (* True = masked out, as in the code before the negation *)
  Definition op_exceeds (i : op_inst) (s : op_st) (j : nat) : bool :=
    op_maxl i j <? rnd A (otl s + odfun i (ocur s) j).
  Definition op_mask_loc (i : op_inst) (s : op_st) (j : nat) : bool :=
    nth j (ovis s) false || nth 0 (ovis s) false || op_exceeds i s j.
  (* action_mask[..., 0] = 1 *)
  Definition op_mask (i : op_inst) (s : op_st) : list bool :=
    true :: map (fun j => negb (op_mask_loc i s j)) (seq 1 (op_n i)).

  Definition OP : Env := {|
    inst := op_inst; st := op_st;
    reset := op_reset; step := op_step; stepok := op_stepok; mask := op_mask; done := op_done |}.

  (* ---------------------------------------------------------------- check_solution_validity *)
  (* (sorted[1:] == 0) | (sorted[1:] > sorted[:-1]) *)
  Fixpoint adj_ok (l : list nat) : bool :=
    match l with
    | x :: ((y :: _) as r) => (Nat.eqb y 0 || Nat.ltb x y) && adj_ok r
    | _ => true
    end.
  (* threshold of column j: ((td["max_length"][j] + |loc 0 - loc j|) + 1e-6) + 1e-5 *)
  Definition op_thr (i : op_inst) (j : nat) : Z :=
    rnd A (rnd A (rnd A (op_maxl i j + odfun i j 0) + eps i) + otol i).
End Model.

(* get_tour_length(cat(depot, gather(locs, actions))): consecutive distances along depot :: actions, cyclically, i.e.
   the closed walk depot -> actions -> depot (exact sum; the implementation's float32 sum is compared with a margin).
   (Before the repair 728e3da the depot was not prepended and an action list that did not end at the depot was measured
   without its depot legs: recorded as fixed in known_findings.json.) *)
Fixpoint op_walk (d : nat -> nat -> Z) (from : nat) (l : list nat) : Z :=
  match l with
  | [] => d from 0%nat
  | a :: r => d from a + op_walk d a r
  end.
Definition op_tour_len (d : nat -> nat -> Z) (l : list nat) : Z := op_walk d 0%nat l.

(* [margin] is added to the length before the comparison (0 = the checker itself) *)
Definition op_checker_m (A : arith) (margin : Z) (i : op_inst) (acts : list nat) : bool :=
  adj_ok (sort_nat acts) &&
  forallb (fun a => Nat.leb a (op_n i)) acts &&
  forallb (fun j => op_tour_len (odfun i) acts + margin <=? op_thr A i j) (seq 0 (S (op_n i))).
Definition op_checker (A : arith) := op_checker_m A 0.

(* _get_reward: zeros when the action tensor has a single column, else the gathered (padded) prizes summed *)
Definition op_reward (i : op_inst) (acts : list nat) : Z :=
  match acts with
  | [_] => 0
  | _ => sumZ (map (pz i) acts)
  end.
