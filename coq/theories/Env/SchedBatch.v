(* Env/SchedBatch.v -- the batch-global constructs of the scheduling environments, written literally on whole
   batches, and proved equal to the row-wise reading (C04), plus the C02/C03/C04 facts about the row models
   of Env/FJSP.v, Env/FFSP.v, Env/SMTWTP.v that Env/FJSPProofs.v / Env/FFSPProofs.v do not state.

   Part A  FJSPEnv._step on a batch:  `no_op.any()`, `_transit_to_next_time(mask, td)` (time update on the
           selected rows, release phase on ALL rows, the assert over the selected rows), `td.masked_select(req_op)`
           / `td[req_op] = td_op`, `while step_complete.any()`, the variable `dones`; JSSP translation on top.
   Part B  FJSPEnv._get_reward: `assert td["done"].all()`.
   Part C  fjsp/utils.py get_job_op_view / blockify: the batch maximum `max_ops_per_job`.
   (FFSP, SMTWTP: Env/SchedBatch2.v -- separate file because Base/FFSPLists.v and Env/FJSP.v both define list
   helpers with the same names.) *)
From Coq Require Import ZArith List Bool Lia ZifyBool Arith.
From RL4CO Require Import Spec.Schedule Env.FJSP Env.FJSPProofs.
Import ListNotations.

(* ================================================================ generic list plumbing *)
Fixpoint all_some {A} (l : list (option A)) : option (list A) :=
  match l with
  | [] => Some []
  | None :: _ => None
  | Some x :: r => match all_some r with Some t => Some (x :: t) | None => None end
  end.
Fixpoint zipw {A B C} (f : A -> B -> C) (l1 : list A) (l2 : list B) : list C :=
  match l1, l2 with
  | x :: r1, y :: r2 => f x y :: zipw f r1 r2
  | _, _ => []
  end.
Definition anyb (l : list bool) : bool := existsb (fun b => b) l.
Definition allb (l : list bool) : bool := forallb (fun b => b) l.

Lemma zipw_map_l {A B C} (f : B -> A -> C) (g : A -> B) l : zipw f (map g l) l = map (fun x => f (g x) x) l.
Proof. induction l as [|x r IH]; cbn; [reflexivity|]. rewrite IH. reflexivity. Qed.
Lemma zipw_map_r {A B C} (f : A -> B -> C) (g : A -> B) l : zipw f l (map g l) = map (fun x => f x (g x)) l.
Proof. induction l as [|x r IH]; cbn; [reflexivity|]. rewrite IH. reflexivity. Qed.
Lemma zipw_map_map {A B C D} (f : B -> C -> D) (g : A -> B) (h : A -> C) l :
  zipw f (map g l) (map h l) = map (fun x => f (g x) (h x)) l.
Proof. induction l as [|x r IH]; cbn; [reflexivity|]. rewrite IH. reflexivity. Qed.

Lemma all_some_map {A B} (f : A -> option B) (g : A -> B) l :
  (forall x, In x l -> f x = Some (g x)) -> all_some (map f l) = Some (map g l).
Proof.
  induction l as [|x r IH]; intros H; cbn; [reflexivity|].
  rewrite (H x (or_introl eq_refl)). rewrite IH; [reflexivity|]. intros y Hy. apply H. right. exact Hy.
Qed.
Lemma all_some_map_Some {A} (l : list A) : all_some (map Some l) = Some l.
Proof. rewrite (all_some_map Some (fun x => x)); [rewrite map_id; reflexivity|reflexivity]. Qed.
Lemma anyb_map_false {A} (f : A -> bool) l : anyb (map f l) = false <-> forall x, In x l -> f x = false.
Proof.
  unfold anyb. induction l as [|x r IH]; cbn; [tauto|]. rewrite orb_false_iff, IH. split.
  - intros [H1 H2] y [<-|Hy]; auto.
  - intros H. split; [apply H; left; reflexivity|intros y Hy; apply H; right; exact Hy].
Qed.
Lemma anyb_map_true {A} (f : A -> bool) l : anyb (map f l) = true <-> exists x, In x l /\ f x = true.
Proof.
  unfold anyb. rewrite existsb_exists. split.
  - intros [b [Hb E]]. apply in_map_iff in Hb as [x [Hx Hin]]. exists x. split; [exact Hin|congruence].
  - intros [x [Hx E]]. exists true. split; [|reflexivity]. rewrite <- E. apply in_map. exact Hx.
Qed.

(* ================================================================ Part A: FJSPEnv._step on a batch *)
(* One row of the TensorDict: its instance tensors, its state tensors, td["action"]. *)
Record brow := { r_i : inst; r_s : st; r_a : nat }.
Definition set_s (r : brow) (s : st) : brow := {| r_i := r_i r; r_s := s; r_a := r_a r |}.

(* _transit_to_next_time(sel, td):
     available_time = where(busy_until > time, busy_until, inf).min(1)
     assert not any(available_time[sel].isinf())                 -- None for the WHOLE batch
     time = where(sel, available_time, time)
     release phase (op_finished, next_op, job_in_process, job_done, done) -- for EVERY row, selected or not *)
Definition row_transit (sel : bool) (r : brow) : option brow :=
  if sel then match next_time (r_s r) with
              | None => None
              | Some t => Some (set_s r (release (r_i r) (set_time (r_s r) t)))
              end
  else Some (set_s r (release (r_i r) (r_s r))).
Definition b_transit (sel : list bool) (rows : list brow) : option (list brow) :=
  all_some (zipw row_transit sel rows).
Definition b_dones (rows : list brow) : list bool := map (fun r => done (r_s r)) rows.   (* td["done"].squeeze(1) *)
(* _check_step_complete(td, dones) = ~reduce(action_mask, any) & ~dones *)
Definition b_step_complete (cfg : bool) (rows : list brow) (dones : list bool) : list bool :=
  zipw (fun r d => negb (anyb (mask cfg (r_i r) (r_s r))) && negb d) rows dones.
(* while step_complete.any(): td, dones = _transit_to_next_time(step_complete, td); recompute mask *)
Fixpoint b_loop (cfg : bool) (fuel : nat) (rows : list brow) (dones : list bool) : option (list brow) :=
  let sc := b_step_complete cfg rows dones in
  if anyb sc then
    match fuel with
    | O => None
    | S f => match b_transit sc rows with
             | None => None
             | Some rows' => b_loop cfg f rows' (b_dones rows')
             end
    end
  else Some rows.
(* td_op = td.masked_select(req_op); td_op = _make_step(td_op); td[req_op] = td_op
   (td["action"] has been decremented: job = (a-1) // num_mas, machine = (a-1) % num_mas; the assert inside
   _make_step is over the sub-batch: one failing row raises for everybody) *)
Definition row_make_step (req : bool) (r : brow) : option brow :=
  if req then
    match make_step (r_i r) (r_s r) ((r_a r - 1) / nM (r_i r)) ((r_a r - 1) mod nM (r_i r)) with
    | Some s' => Some (set_s r s')
    | None => None
    end
  else Some r.

(* FJSPEnv._step; [fuel] bounds the while loop (the theorem below: num_mas iterations always suffice) *)
Definition b_step (cfg : bool) (fuel : nat) (rows : list brow) : option (list st) :=
  let dones := b_dones rows in
  let no_op := zipw (fun r d => (r_a r =? 0) && negb d) rows dones in      (* action.eq(NO_OP_ID) & ~dones *)
  let req_op := zipw (fun n d => negb n && negb d) no_op dones in          (* ~no_op & ~dones *)
  let ph1 := if anyb no_op                                                 (* if no_op.any(): *)
             then match b_transit no_op rows with
                  | Some rows1 => Some (rows1, b_dones rows1)
                  | None => None
                  end
             else Some (rows, dones) in
  match ph1 with
  | None => None
  | Some (rows1, dones1) =>
      match all_some (zipw row_make_step req_op rows1) with
      | None => None
      | Some rows2 =>
          match b_loop cfg fuel rows2 dones1 with
          | Some rows3 => Some (map r_s rows3)
          | None => None
          end
      end
  end.

(* ---------------------------------------------------------------- the loop, row by row *)
Lemma b_step_complete_rowwise cfg rows :
  b_step_complete cfg rows (b_dones rows) = map (fun r => step_complete cfg (r_i r) (r_s r)) rows.
Proof. unfold b_step_complete, b_dones. rewrite zipw_map_r. reflexivity. Qed.

Lemma advance_incomplete cfg i fuel s : step_complete cfg i s = false -> advance cfg i fuel s = Some s.
Proof. intros H. destruct fuel; cbn [advance]; rewrite H; reflexivity. Qed.

(* what a row still has to do: [advance] with the remaining fuel ends in [o] *)
Definition loop_row (cfg : bool) (fuel : nat) (r : brow) (o : st) : Prop :=
  wf (r_i r) /\ Inv (r_i r) (r_s r) /\ advance cfg (r_i r) fuel (r_s r) = Some o.

Lemma b_loop_rowwise cfg : forall fuel rows (outs : list st),
  Forall2 (loop_row cfg fuel) rows outs ->
  exists rows', b_loop cfg fuel rows (b_dones rows) = Some rows' /\ map r_s rows' = outs.
Proof.
  induction fuel as [|f IH]; intros rows outs HF.
  - cbn [b_loop]. rewrite b_step_complete_rowwise.
    destruct (anyb (map (fun r => step_complete cfg (r_i r) (r_s r)) rows)) eqn:E.
    + exfalso. apply anyb_map_true in E as [r [Hr Hsc]].
      clear -HF Hr Hsc. induction HF as [|r0 o rows outs H0 HF IHF]; [destruct Hr|].
      destruct Hr as [->|Hr]; [|apply IHF; exact Hr].
      destruct H0 as (_ & _ & Ha). cbn [advance] in Ha. rewrite Hsc in Ha. discriminate.
    + exists rows. split; [reflexivity|].
      pose proof (proj1 (anyb_map_false _ _) E) as Hall. clear E.
      induction HF as [|r0 o rows outs H0 HF IHF]; [reflexivity|]. cbn [map]. f_equal.
      * destruct H0 as (_ & _ & Ha). rewrite advance_incomplete in Ha by (apply Hall; left; reflexivity).
        inversion Ha. reflexivity.
      * apply IHF. intros x Hx. apply Hall. right. exact Hx.
  - cbn [b_loop]. rewrite b_step_complete_rowwise.
    destruct (anyb (map (fun r => step_complete cfg (r_i r) (r_s r)) rows)) eqn:E.
    + (* one more batch transit: selected rows transit, the others get the (inert) release phase *)
      unfold b_transit. rewrite zipw_map_l.
      assert (Hex : exists rows1, all_some (map (fun r => row_transit (step_complete cfg (r_i r) (r_s r)) r) rows) = Some rows1
                                  /\ Forall2 (loop_row cfg f) rows1 outs).
      { clear E IH. induction HF as [|r0 o rows outs H0 HF IHF].
        - exists []. split; [reflexivity|constructor].
        - destruct IHF as (rows1 & E1 & F1). destruct H0 as (W & IV & Ha).
          cbn [map all_some]. unfold row_transit at 1.
          destruct (step_complete cfg (r_i r0) (r_s r0)) eqn:Hsc.
          + cbn [advance] in Ha. rewrite Hsc in Ha. unfold transit in Ha.
            destruct (next_time (r_s r0)) as [t|] eqn:Ent; [|discriminate].
            rewrite E1. eexists. split; [reflexivity|]. constructor; [|exact F1].
            assert (Htr : transit (r_i r0) (r_s r0) = Some (release (r_i r0) (set_time (r_s r0) t)))
              by (unfold transit; rewrite Ent; reflexivity).
            destruct (transit_inv _ _ _ W IV Htr) as (IV1 & _ & _).
            split; [exact W|]. split; [exact IV1|exact Ha].
          + rewrite (FJSP_release_inert _ _ IV). rewrite E1. eexists. split; [reflexivity|].
            constructor; [|exact F1]. split; [exact W|]. split; [exact IV|].
            rewrite advance_incomplete in Ha by exact Hsc. rewrite advance_incomplete by exact Hsc. exact Ha. }
      destruct Hex as (rows1 & E1 & F1). rewrite E1. apply IH. exact F1.
    + exists rows. split; [reflexivity|].
      pose proof (proj1 (anyb_map_false _ _) E) as Hall. clear E.
      induction HF as [|r0 o rows outs H0 HF IHF]; [reflexivity|]. cbn [map]. f_equal.
      * destruct H0 as (_ & _ & Ha). rewrite advance_incomplete in Ha by (apply Hall; left; reflexivity).
        inversion Ha. reflexivity.
      * apply IHF. intros x Hx. apply Hall. right. exact Hx.
Qed.

(* ---------------------------------------------------------------- the whole step *)
(* what the property quantifies over: a row in a state some mask-confined episode reaches, with an offered action *)
Definition reachable (cfg : bool) (i : inst) (s : st) : Prop :=
  exists acts, admb cfg i (reset i) acts = true /\ run cfg i (reset i) acts = Some s.
Definition row_ok (cfg : bool) (M : nat) (r : brow) : Prop :=
  wfb (r_i r) = true /\ solvableb (r_i r) = true /\ nM (r_i r) = M /\
  reachable cfg (r_i r) (r_s r) /\
  (done (r_s r) = false -> maskb cfg (r_i r) (r_s r) (r_a r) = true).   (* a finished row may carry ANY action *)

Lemma reachable_Reach cfg i s : wfb i = true -> solvableb i = true -> reachable cfg i s -> Reach cfg i s.
Proof.
  intros Hw Sv (acts & Ha & Hr). pose proof (wfb_wf i Hw) as W.
  destruct (run_reach cfg i W Sv acts (reset i) (reset_reach cfg i W Sv) Ha) as (s' & Hr' & R & _).
  rewrite Hr in Hr'. inversion Hr'; subst. exact R.
Qed.

(* the state of a row after phases 1 and 2, and what is left for the loop *)
Definition mid_state (any_noop : bool) (r : brow) : option st :=
  let s := r_s r in
  if done s then Some s
  else match r_a r with
       | O => transit (r_i r) s
       | S k => make_step (r_i r) s (k / nM (r_i r)) (k mod nM (r_i r))
       end.

Lemma step_via_mid cfg r : step cfg (r_i r) (r_s r) (r_a r) =
  match mid_state true r with
  | Some s1 => if done (r_s r) then Some s1 else advance cfg (r_i r) (nM (r_i r)) s1
  | None => None
  end.
Proof.
  unfold step, mid_state. destruct (done (r_s r)); [reflexivity|]. destruct (r_a r); [|reflexivity].
  destruct (transit (r_i r) (r_s r)); reflexivity.
Qed.

Theorem fjsp_bstep_rowwise cfg M rows :
  Forall (row_ok cfg M) rows ->
  exists outs, b_step cfg M rows = Some outs /\
               map Some outs = map (fun r => step cfg (r_i r) (r_s r) (r_a r)) rows.
Proof.
  intros HF.
  (* per-row facts *)
  assert (HR : forall r, In r rows ->
            wf (r_i r) /\ Inv (r_i r) (r_s r) /\ nM (r_i r) = M /\
            exists s1 o, mid_state true r = Some s1 /\ Inv (r_i r) s1 /\ done s1 = (if done (r_s r) then true else done s1) /\
                         advance cfg (r_i r) M s1 = Some o /\ step cfg (r_i r) (r_s r) (r_a r) = Some o).
  { intros r Hr. rewrite Forall_forall in HF. destruct (HF r Hr) as (Hw & Sv & HM & Hre & Hm).
    pose proof (wfb_wf _ Hw) as W. destruct (reachable_Reach cfg _ _ Hw Sv Hre) as [IV Hsc].
    split; [exact W|]. split; [exact IV|]. split; [exact HM|].
    assert (Hex : exists o, step cfg (r_i r) (r_s r) (r_a r) = Some o).
    { destruct (done (r_s r)) eqn:Ed.
      - exists (r_s r). apply FJSP_done_stable. exact Ed.
      - destruct (step_ok cfg _ _ _ W Sv IV (Hm eq_refl)) as (o & Hst & _). exists o. exact Hst. }
    destruct Hex as (o & Hst).
    rewrite step_via_mid in Hst. destruct (mid_state true r) as [s1|] eqn:Emid; [|discriminate].
    exists s1, o. split; [reflexivity|].
    assert (IV1 : Inv (r_i r) s1).
    { unfold mid_state in Emid. destruct (done (r_s r)) eqn:Ed; [inversion Emid; subst; exact IV|].
      destruct (r_a r) as [|k] eqn:Ea.
      - destruct (transit_inv _ _ _ W IV Emid) as (H & _). exact H.
      - specialize (Hm eq_refl). cbn [maskb] in Hm. apply andb_prop in Hm as [_ Hok].
        exact (make_step_inv _ _ _ _ _ W IV Hok Emid). }
    split; [exact IV1|]. split; [destruct (done (r_s r)) eqn:Ed; [|reflexivity]; unfold mid_state in Emid; rewrite Ed in Emid; inversion Emid; subst; exact Ed|].
    split; [|rewrite step_via_mid, Emid; exact Hst].
    destruct (done (r_s r)) eqn:Ed.
    - inversion Hst; subst o. apply advance_incomplete. unfold step_complete.
      unfold mid_state in Emid. rewrite Ed in Emid. inversion Emid; subst. rewrite Ed. apply andb_false_r.
    - rewrite <- HM. exact Hst. }
  unfold b_step.
  set (dones := b_dones rows).
  set (noopf := fun r : brow => (r_a r =? 0) && negb (done (r_s r))).
  set (reqf := fun r : brow => negb (noopf r) && negb (done (r_s r))).
  assert (Hno : zipw (fun r d => (r_a r =? 0) && negb d) rows dones = map noopf rows)
    by (unfold dones, b_dones; rewrite zipw_map_r; reflexivity).
  rewrite Hno.
  assert (Hrq : zipw (fun n d => negb n && negb d) (map noopf rows) dones = map reqf rows)
    by (unfold dones, b_dones; rewrite zipw_map_map; reflexivity).
  rewrite Hrq.
  (* phase 1 *)
  set (s_ph1 := fun r : brow => if noopf r then match transit (r_i r) (r_s r) with Some s => s | None => r_s r end else r_s r).
  assert (Hph1 : (if anyb (map noopf rows)
                  then match b_transit (map noopf rows) rows with
                       | Some rows1 => Some (rows1, b_dones rows1) | None => None end
                  else Some (rows, dones))
                 = Some (map (fun r => set_s r (s_ph1 r)) rows, b_dones (map (fun r => set_s r (s_ph1 r)) rows))).
  { destruct (anyb (map noopf rows)) eqn:Eany.
    - unfold b_transit. rewrite zipw_map_l.
      rewrite (all_some_map _ (fun r => set_s r (s_ph1 r))); [reflexivity|].
      intros r Hr. destruct (HR r Hr) as (W & IV & _ & s1 & o & Emid & _).
      unfold row_transit, s_ph1. destruct (noopf r) eqn:En.
      + unfold noopf in En. apply andb_prop in En as [Ea Ed]. apply Nat.eqb_eq in Ea. apply negb_true_iff in Ed.
        unfold mid_state in Emid. rewrite Ed, Ea in Emid. rewrite Emid. unfold transit in Emid.
        destruct (next_time (r_s r)); [inversion Emid; reflexivity|discriminate].
      + rewrite (FJSP_release_inert _ _ IV). reflexivity.
    - f_equal. pose proof (proj1 (anyb_map_false _ _) Eany) as Hall.
      assert (E : map (fun r => set_s r (s_ph1 r)) rows = rows).
      { rewrite <- (map_id rows) at 2. apply map_ext_in. intros r Hr. unfold s_ph1. rewrite (Hall r Hr). destruct r; reflexivity. }
      rewrite E. reflexivity. }
  rewrite Hph1. clear Hph1.
  (* phase 2 *)
  set (rows1 := map (fun r => set_s r (s_ph1 r)) rows).
  set (s_mid := fun r : brow => match mid_state true r with Some s => s | None => r_s r end).
  assert (Hph2 : all_some (zipw row_make_step (map reqf rows) rows1) = Some (map (fun r => set_s r (s_mid r)) rows)).
  { unfold rows1. rewrite zipw_map_map. apply all_some_map.
    intros r Hr. destruct (HR r Hr) as (W & IV & _ & s1 & o & Emid & _).
    unfold row_make_step, s_mid, s_ph1, reqf, noopf. rewrite Emid. unfold mid_state in Emid.
    destruct (done (r_s r)) eqn:Ed.
    - cbn [negb]. rewrite !andb_false_r. cbn [negb andb]. inversion Emid; subst. reflexivity.
    - cbn [negb]. rewrite !andb_true_r. destruct (r_a r) as [|k] eqn:Ea; cbn [Nat.eqb negb].
      + rewrite Emid. reflexivity.
      + cbn [set_s r_i r_s r_a]. rewrite Ea. replace (S k - 1) with k by lia. rewrite Emid. reflexivity. }
  rewrite Hph2. clear Hph2.
  (* dones1 = td["done"] of the rows after phase 2 as well (_make_step does not write it) *)
  set (rows2 := map (fun r => set_s r (s_mid r)) rows).
  assert (Hd : b_dones rows1 = b_dones rows2).
  { unfold rows1, rows2, b_dones. rewrite !map_map. apply map_ext_in. intros r Hr. cbn [set_s r_s].
    destruct (HR r Hr) as (W & IV & _ & s1 & o & Emid & _).
    unfold s_ph1, s_mid, noopf. rewrite Emid. unfold mid_state in Emid.
    destruct (done (r_s r)) eqn:Ed.
    - rewrite andb_false_r. inversion Emid; subst. reflexivity.
    - rewrite andb_true_r. destruct (r_a r) as [|k] eqn:Ea; cbn [Nat.eqb].
      + rewrite Emid. reflexivity.
      + unfold make_step in Emid.
        destruct (negb (k / nM (r_i r) <? nJ (r_i r)) || negb (k mod nM (r_i r) <? nM (r_i r)) ||
                  negb (nxt (r_s r) (k / nM (r_i r)) <? nN (r_i r))); [discriminate|].
        destruct (time (r_s r) <? bu (r_s r) (k mod nM (r_i r)))%Z; [discriminate|].
        inversion Emid; subst s1. reflexivity. }
  rewrite Hd.
  (* phase 3 *)
  set (outf := fun r : brow => match step cfg (r_i r) (r_s r) (r_a r) with Some o => o | None => r_s r end).
  destruct (b_loop_rowwise cfg M rows2 (map outf rows)) as (rows3 & E3 & Hout).
  { unfold rows2. clear -HR. induction rows as [|r rows IH]; [constructor|]. cbn [map]. constructor.
    - destruct (HR r (or_introl eq_refl)) as (W & IV & HM & s1 & o & Emid & IV1 & _ & Ha & Hst).
      unfold loop_row, outf, s_mid. cbn [set_s r_i r_s]. rewrite Emid, Hst. auto.
    - apply IH. intros x Hx. apply HR. right. exact Hx. }
  rewrite E3. exists (map outf rows). split; [rewrite Hout; reflexivity|].
  rewrite map_map. apply map_ext_in. intros r Hr. unfold outf.
  destruct (HR r Hr) as (_ & _ & _ & s1 & o & _ & _ & _ & _ & Hst). rewrite Hst. reflexivity.
Qed.

(* the `check_mask` assert at the end of _step (reduce(action_mask, any).all()) never fires *)
Corollary fjsp_bstep_masks_nonempty cfg M rows outs :
  Forall (row_ok cfg M) rows -> b_step cfg M rows = Some outs ->
  allb (zipw (fun r s => anyb (mask cfg (r_i r) s)) rows outs) = true.
Proof.
  intros HF Hb. destruct (fjsp_bstep_rowwise cfg M rows HF) as (outs' & Hb' & Hmap).
  rewrite Hb in Hb'. inversion Hb'; subst outs'. clear Hb Hb'.
  revert outs Hmap. induction HF as [|r rows Hr HF IH]; intros outs Hmap.
  - destruct outs; [reflexivity|discriminate].
  - destruct outs as [|o outs]; [discriminate|]. cbn [map] in Hmap. inversion Hmap as [[Ho Hrest]].
    cbn [zipw allb forallb]. unfold allb in IH. rewrite (IH outs Hrest), andb_true_r.
    destruct Hr as (Hw & Sv & _ & Hre & Hm). pose proof (wfb_wf _ Hw) as W.
    destruct (reachable_Reach cfg _ _ Hw Sv Hre) as [IV _].
    assert (Hex : exists o', step cfg (r_i r) (r_s r) (r_a r) = Some o' /\ step_complete cfg (r_i r) o' = false).
    { destruct (done (r_s r)) eqn:Ed.
      - exists (r_s r). split; [apply FJSP_done_stable; exact Ed|]. unfold step_complete. rewrite Ed. apply andb_false_r.
      - destruct (step_ok cfg _ _ _ W Sv IV (Hm eq_refl)) as (o' & Hst & _ & Hsc & _). exists o'. split; assumption. }
    destruct Hex as (o' & Hst & Hsc).
    rewrite Hst in Ho. inversion Ho; subst o'. unfold step_complete in Hsc.
    destruct (anyb (mask cfg (r_i r) o)) eqn:E; [reflexivity|]. unfold anyb in E. rewrite E in Hsc. cbn [negb andb] in Hsc.
    apply negb_false_iff in Hsc.
    assert (Hm0 : maskb cfg (r_i r) o 0 = true) by (cbn [maskb]; unfold noop_ok; rewrite Hsc; destruct cfg; [reflexivity|apply orb_true_r]).
    rewrite (mask_has cfg (r_i r) o 0 ltac:(lia) Hm0) in E. discriminate.
Qed.

(* JSSPEnv._step = FJSPEnv._step after the per-row action translation job -> (job, its one machine) *)
Definition jssp_row_translate (r : brow) : option brow :=
  if done (r_s r) then Some r
  else match r_a r with
       | O => Some r
       | S j => if j <? nJ (r_i r) then
                  match jssp_translate (r_i r) (r_s r) j with
                  | Some m => Some {| r_i := r_i r; r_s := r_s r; r_a := S (j * nM (r_i r) + m) |}
                  | None => None
                  end
                else None
       end.
Definition jssp_b_step (cfg : bool) (fuel : nat) (rows : list brow) : option (list st) :=
  match all_some (map jssp_row_translate rows) with
  | Some rows' => b_step cfg fuel rows'
  | None => None
  end.

Lemma jssp_step_translate cfg r r' : jssp_row_translate r = Some r' ->
  r_i r' = r_i r /\ r_s r' = r_s r /\ jssp_step cfg (r_i r) (r_s r) (r_a r) = step cfg (r_i r') (r_s r') (r_a r').
Proof.
  unfold jssp_row_translate, jssp_step. destruct (done (r_s r)) eqn:Ed.
  - intros H; inversion H; subst. repeat split. unfold step. rewrite Ed. reflexivity.
  - destruct (r_a r) as [|j] eqn:Ea.
    + intros H; inversion H; subst. repeat split. rewrite Ea. reflexivity.
    + destruct (j <? nJ (r_i r)); [|discriminate]. destruct (jssp_translate (r_i r) (r_s r) j); [|discriminate].
      intros H; inversion H; subst. cbn [r_i r_s r_a]. repeat split.
Qed.

(* the translated action of an unfinished JSSP row is offered by the FJSP mask *)
Lemma jssp_translate_mask cfg i s a :
  wf i -> jssp_wfb i = true -> Inv i s -> done s = false -> jssp_maskb cfg i s a = true ->
  exists r', jssp_row_translate {| r_i := i; r_s := s; r_a := a |} = Some r' /\ r_i r' = i /\ r_s r' = s /\
             maskb cfg i s (r_a r') = true.
Proof.
  intros W Jw IV Ed Hm. unfold jssp_row_translate. cbn [r_i r_s r_a]. rewrite Ed. destruct a as [|j].
  - eexists. split; [reflexivity|]. cbn [r_i r_s r_a]. repeat split. exact Hm.
  - cbn [jssp_maskb] in Hm. apply andb_prop in Hm as [Ej Hex]. rewrite Ej. apply Nat.ltb_lt in Ej.
    apply existsb_exists in Hex as [m' [Hm' Hok]]. apply in_seq in Hm'.
    destruct (pair_ok_facts s j m' Hok) as (Hd & Hi & _ & _).
    assert (Hs : sched s (nxt s j) = false) by (rewrite (I_cur _ _ IV j Ej), Hi, Hd; reflexivity).
    destruct (nxt_lt_total i s j W IV Ej) as [HoT HoN].
    destruct (I_uns _ _ IV _ HoN Hs) as [_ Hpc].
    unfold jssp_translate.
    rewrite (filter_ext (fun m => (0 <? pc s m (nxt s j))%Z) (fun m => (0 <? P i m (nxt s j))%Z)) by (intros m; rewrite Hpc; reflexivity).
    unfold jssp_wfb in Jw. rewrite forallb_forall in Jw. specialize (Jw (nxt s j) ltac:(apply in_seq; lia)).
    apply Nat.eqb_eq in Jw.
    destruct (filter (fun m => (0 <? P i m (nxt s j))%Z) (seq 0 (nM i))) as [|m [|m2 r]] eqn:Ef; try discriminate.
    assert (Hin : In m' [m]).
    { rewrite <- Ef. apply filter_In. split; [apply in_seq; lia|]. pose proof (pair_ok_pc_pos i s j m' W IV Ej Hok). rewrite Hpc in *. lia. }
    destruct Hin as [<-|[]].
    eexists. split; [reflexivity|]. cbn [r_i r_s r_a]. repeat split.
    cbn [maskb]. destruct (decode_pair (nM i) j m ltac:(lia)) as [-> ->].
    pose proof (pair_index_lt (nJ i) (nM i) j m Ej ltac:(lia)). replace (j * nM i + m <? nJ i * nM i) with true by lia. exact Hok.
Qed.

Definition jssp_reachable (cfg : bool) (i : inst) (s : st) : Prop :=
  exists acts, jssp_admb cfg i (reset i) acts = true /\ jssp_run cfg i (reset i) acts = Some s.
Definition jssp_row_ok (cfg : bool) (M : nat) (r : brow) : Prop :=
  wfb (r_i r) = true /\ jssp_wfb (r_i r) = true /\ nM (r_i r) = M /\
  jssp_reachable cfg (r_i r) (r_s r) /\
  (done (r_s r) = false -> jssp_maskb cfg (r_i r) (r_s r) (r_a r) = true).

Lemma jssp_reachable_fjsp cfg i s : wfb i = true -> jssp_wfb i = true -> jssp_reachable cfg i s -> reachable cfg i s.
Proof.
  intros Hw Jw (acts & Ha & Hr). destruct (JSSP_embedding cfg i acts Hw Jw Ha) as (s' & acts' & Hr' & _ & Ha' & Hrun).
  rewrite Hr in Hr'. inversion Hr'; subst s'. exists acts'. split; assumption.
Qed.

Theorem jssp_bstep_rowwise cfg M rows :
  Forall (jssp_row_ok cfg M) rows ->
  exists outs, jssp_b_step cfg M rows = Some outs /\
               map Some outs = map (fun r => jssp_step cfg (r_i r) (r_s r) (r_a r)) rows.
Proof.
  intros HF.
  assert (Htr : exists rows', all_some (map jssp_row_translate rows) = Some rows' /\
                  Forall (row_ok cfg M) rows' /\
                  map (fun r => step cfg (r_i r) (r_s r) (r_a r)) rows' =
                  map (fun r => jssp_step cfg (r_i r) (r_s r) (r_a r)) rows).
  { induction HF as [|r rows Hr HF IH].
    - exists []. repeat split; constructor.
    - destruct IH as (rows' & E & F & Hm). destruct Hr as (Hw & Jw & HM & Hre & Hmk).
      pose proof (wfb_wf _ Hw) as W. pose proof (jssp_wfb_solvable _ Jw) as Sv.
      pose proof (jssp_reachable_fjsp cfg _ _ Hw Jw Hre) as Hre'.
      destruct (reachable_Reach cfg _ _ Hw Sv Hre') as [IV _].
      assert (Hex : exists r', jssp_row_translate r = Some r' /\ r_i r' = r_i r /\ r_s r' = r_s r /\
                               (done (r_s r) = false -> maskb cfg (r_i r) (r_s r) (r_a r') = true)).
      { destruct (done (r_s r)) eqn:Ed.
        - exists r. unfold jssp_row_translate. rewrite Ed. repeat split. discriminate.
        - destruct (jssp_translate_mask cfg _ _ _ W Jw IV Ed (Hmk eq_refl)) as (r' & E' & H1 & H2 & H3).
          exists r'. destruct r; cbn [r_i r_s r_a] in *. repeat split; auto. }
      destruct Hex as (r' & E' & H1 & H2 & H3).
      exists (r' :: rows'). cbn [map all_some]. rewrite E', E. split; [reflexivity|]. split.
      + constructor; [|exact F]. unfold row_ok. rewrite H1, H2. repeat split; auto.
      + cbn [map]. f_equal; [|exact Hm].
        destruct (jssp_step_translate cfg r r' E') as (_ & _ & H). symmetry. exact H. }
  destruct Htr as (rows' & E & F & Hm). unfold jssp_b_step. rewrite E.
  destruct (fjsp_bstep_rowwise cfg M rows' F) as (outs & Hb & Ho). exists outs. split; [exact Hb|]. rewrite Ho. exact Hm.
Qed.

(* ================================================================ Part B: FJSPEnv._get_reward on a batch *)
(* assert td["done"].all(); -finish_times.masked_fill(pad_mask, -inf).max(1)   (None = the assert fails / -inf) *)
Definition b_reward (rows : list (inst * st)) : option (list Z) :=
  if allb (map (fun r => done (snd r)) rows) then all_some (map (fun r => reward (fst r) (snd r)) rows) else None.

Theorem fjsp_breward_rowwise rows :
  Forall (fun r => done (snd r) = true) rows ->
  forall rs, b_reward rows = Some rs -> map Some rs = map (fun r => reward (fst r) (snd r)) rows.
Proof.
  intros HF rs. unfold b_reward.
  assert (E : allb (map (fun r : inst * st => done (snd r)) rows) = true).
  { unfold allb. apply forallb_forall. intros b Hb. apply in_map_iff in Hb as [r [<- Hr]].
    rewrite Forall_forall in HF. exact (HF r Hr). }
  rewrite E. clear E HF. revert rs. induction rows as [|r rows IH]; intros rs H; cbn [map all_some] in *.
  - inversion H. reflexivity.
  - destruct (reward (fst r) (snd r)) as [x|]; [|discriminate].
    destruct (all_some (map (fun r0 : inst * st => reward (fst r0) (snd r0)) rows)) as [t|] eqn:E; [|discriminate].
    inversion H; subst. cbn [map]. f_equal. apply IH. reflexivity.
Qed.
(* and the assert is the only batch-global thing: one unfinished row makes the call fail for every row *)
Theorem fjsp_breward_needs_all_done rows : (exists r, In r rows /\ done (snd r) = false) -> b_reward rows = None.
Proof.
  intros (r & Hr & Hd). unfold b_reward.
  replace (allb (map (fun r0 : inst * st => done (snd r0)) rows)) with false; [reflexivity|].
  symmetry. unfold allb. destruct (forallb (fun b : bool => b) (map (fun r0 : inst * st => done (snd r0)) rows)) eqn:E; [|reflexivity].
  rewrite forallb_forall in E. rewrite <- Hd. symmetry. apply E. apply in_map_iff. exists r. split; [reflexivity|exact Hr].
Qed.

(* ================================================================ row facts for C02 / C04 not stated in FJSPProofs *)
(* a finished row is offered the no-op (both flag values) and exactly nothing changes when it takes it -- or any
   other action: padding is inert, for any number of padding steps *)
Lemma fjsp_finished_noop_offered cfg i s : done s = true -> maskb cfg i s 0 = true.
Proof. intros Hd. cbn [maskb]. unfold noop_ok. rewrite Hd. destruct cfg; [reflexivity|apply orb_true_r]. Qed.

Lemma fjsp_padding_inert cfg i s pad : done s = true ->
  run cfg i s pad = Some s /\ admb cfg i s (repeat 0 (length pad)) = true.
Proof.
  intros Hd. induction pad as [|a r [IH1 IH2]]; [split; reflexivity|].
  cbn [run length repeat admb]. rewrite (FJSP_done_stable cfg i s a Hd), (FJSP_done_stable cfg i s 0 Hd).
  rewrite (fjsp_finished_noop_offered cfg i s Hd). split; [exact IH1|exact IH2].
Qed.

Theorem fjsp_padding_inert_episode cfg i acts pad s :
  run cfg i (reset i) acts = Some s -> done s = true ->
  run cfg i (reset i) (acts ++ pad) = Some s /\
  (admb cfg i (reset i) acts = true -> admb cfg i (reset i) (acts ++ repeat 0 (length pad)) = true).
Proof.
  intros Hr Hd. destruct (fjsp_padding_inert cfg i s pad Hd) as [H1 H2]. split.
  - rewrite run_app, Hr. exact H1.
  - intros Ha. rewrite (admb_app cfg i acts _ _ s Hr), Ha, H2. reflexivity.
Qed.

(* one offered action from a reachable state never raises, the loop terminates, the next state is reachable *)
Theorem fjsp_step_total cfg i s a :
  wfb i = true -> solvableb i = true -> reachable cfg i s -> maskb cfg i s a = true ->
  exists s', step cfg i s a = Some s' /\ reachable cfg i s'.
Proof.
  intros Hw Sv Hre Hm. pose proof (wfb_wf i Hw) as W. destruct (reachable_Reach cfg i s Hw Sv Hre) as [IV _].
  destruct (step_ok cfg i s a W Sv IV Hm) as (s' & Hs & _). exists s'. split; [exact Hs|].
  destruct Hre as (acts & Ha & Hr). exists (acts ++ [a]). split.
  - rewrite (admb_app cfg i acts [a] _ s Hr), Ha. cbn [admb]. rewrite Hm, Hs. reflexivity.
  - rewrite run_app, Hr. cbn [run]. rewrite Hs. reflexivity.
Qed.

(* JSSP episodes step by step inside FJSP: same states after every prefix *)
Lemma jssp_embed_prefixes cfg i : wf i -> jssp_wfb i = true -> forall acts s, Reach cfg i s -> jssp_admb cfg i s acts = true ->
  exists acts', length acts' = length acts /\ admb cfg i s acts' = true /\
    forall k, run cfg i s (firstn k acts') = jssp_run cfg i s (firstn k acts).
Proof.
  intros W Jw. induction acts as [|a r IH]; intros s R Ha.
  - exists []. repeat split. intros k. destruct k; reflexivity.
  - cbn [jssp_admb] in Ha. apply andb_prop in Ha as [Hm Ha].
    destruct (jssp_step_reach cfg i s a W Jw R Hm) as (s1 & H1 & R1 & _). rewrite H1 in Ha.
    destruct (jssp_step_embed cfg i s a s1 W (proj1 R) Hm H1) as (a' & Hm' & Hs').
    destruct (IH s1 R1 Ha) as (acts' & Hl & Ha' & Hk).
    exists (a' :: acts'). split; [cbn; lia|]. split; [cbn [admb]; rewrite Hm', Hs'; exact Ha'|].
    intros [|k]; [reflexivity|]. cbn [firstn run jssp_run]. rewrite Hs', H1. apply Hk.
Qed.

Theorem jssp_bound_prefix cfg i acts :
  wfb i = true -> jssp_wfb i = true -> jssp_admb cfg i (reset i) acts = true ->
  (forall p q sp, acts = p ++ q -> q <> [] -> jssp_run cfg i (reset i) p = Some sp -> done sp = false) ->
  length acts <= step_bound cfg i.
Proof.
  intros Hw Jw Ha Hp. pose proof (wfb_wf i Hw) as W. pose proof (jssp_wfb_solvable i Jw) as Sv.
  destruct (jssp_embed_prefixes cfg i W Jw acts (reset i) (reset_reach cfg i W Sv) Ha) as (acts' & Hl & Ha' & Hk).
  rewrite <- Hl. apply (FJSP_bound_prefix cfg i acts' Hw Sv Ha').
  intros p q sp Hpq Hq Hr.
  assert (Hp' : p = firstn (length p) acts') by (rewrite Hpq, firstn_app, Nat.sub_diag, firstn_all; cbn; rewrite app_nil_r; reflexivity).
  rewrite Hp', Hk in Hr.
  apply (Hp (firstn (length p) acts) (skipn (length p) acts) sp); [symmetry; apply firstn_skipn| |exact Hr].
  intros E. pose proof (f_equal (@length nat) (firstn_skipn (length p) acts)) as HL. rewrite E, app_nil_r, firstn_length in HL.
  assert (length q <> 0) by (destruct q; [congruence|cbn; lia]).
  rewrite Hpq, app_length in Hl. lia.
Qed.

(* the makespan of a schedule is unique: "the objective" is well defined *)
Lemma is_makespan_unique es mk1 mk2 : is_makespan es mk1 -> is_makespan es mk2 -> mk1 = mk2.
Proof.
  intros [H1 [e1 [He1 E1]]] [H2 [e2 [He2 E2]]]. pose proof (H1 e2 He2). pose proof (H2 e1 He1). lia.
Qed.

(* ================================================================ Part C: get_job_op_view / blockify (fjsp/utils.py) *)
(* max_ops_per_job = int(td["job_ops_adj"].sum(-1).max())   -- a maximum over the WHOLE batch;
   new_view = full((bs, num_jobs, max_ops_per_job), pad_value); new_view[b, job(o), seq(o)] = tensor[b][o]  (unpadded o).
   Row b of the result: job j's slice = the values of its operations start_j..end_j, then pad_value up to the
   batch-wide width. *)
Section JobOpView.
  Context {A : Type}.
  Variable pad : A.
  Definition job_len (i : inst) (j : nat) : nat := S (ej i j) - sj i j.
  Definition row_width (i : inst) : nat := fold_right Nat.max 0 (map (job_len i) (seq 0 (nJ i))).
  Definition job_slice (i : inst) (vals : list A) (j : nat) : list A :=
    map (fun k => nth (sj i j + k) vals pad) (seq 0 (job_len i j)).
  Definition pad_to (w : nat) (l : list A) : list A := l ++ repeat pad (w - length l).
  (* the view of one row at a given width *)
  Definition view_at (w : nat) (i : inst) (vals : list A) : list (list A) :=
    map (fun j => pad_to w (job_slice i vals j)) (seq 0 (nJ i)).
  (* what the row computes on its own, and what the batched call returns *)
  Definition row_view (i : inst) (vals : list A) := view_at (row_width i) i vals.
  Definition batch_width (rows : list (inst * list A)) : nat := fold_right Nat.max 0 (map (fun r => row_width (fst r)) rows).
  Definition b_view (rows : list (inst * list A)) : list (list (list A)) :=
    map (fun r => view_at (batch_width rows) (fst r) (snd r)) rows.

  Lemma fold_max_ge (l : list nat) x : In x l -> x <= fold_right Nat.max 0 l.
  Proof. induction l as [|y r IH]; [intros []|]. cbn. intros [->|H]; [lia|]. specialize (IH H). lia. Qed.
  Lemma job_slice_length i vals j : length (job_slice i vals j) = job_len i j.
  Proof. unfold job_slice. rewrite map_length, seq_length. reflexivity. Qed.

  (* the batched view of a row = its own view, each job slice extended by pad_value to the batch width:
     the real entries are untouched, batch-mates only decide how many pad columns follow *)
  Theorem b_view_rowwise rows b i vals : nth_error rows b = Some (i, vals) ->
    exists v, nth_error (b_view rows) b = Some v /\
      row_width i <= batch_width rows /\
      length v = nJ i /\
      forall j, j < nJ i ->
        nth j v [] = nth j (row_view i vals) [] ++ repeat pad (batch_width rows - row_width i) /\
        firstn (job_len i j) (nth j v []) = job_slice i vals j.
  Proof.
    intros Hb. unfold b_view. rewrite nth_error_map, Hb. cbn [option_map fst snd]. eexists. split; [reflexivity|].
    assert (Hw : row_width i <= batch_width rows).
    { unfold batch_width. apply fold_max_ge. apply in_map_iff. exists (i, vals). split; [reflexivity|].
      eapply nth_error_In. exact Hb. }
    split; [exact Hw|]. split; [unfold view_at; rewrite map_length, seq_length; reflexivity|].
    intros j Hj. unfold row_view, view_at.
    assert (Hjl : job_len i j <= row_width i).
    { unfold row_width. apply fold_max_ge. apply in_map. apply in_seq. lia. }
    rewrite !nth_map_seq. replace (j <? nJ i) with true by lia. unfold pad_to. rewrite job_slice_length. split.
    - rewrite <- app_assoc, <- repeat_app. do 2 f_equal. lia.
    - rewrite firstn_app, job_slice_length, Nat.sub_diag. cbn [firstn]. rewrite app_nil_r.
      rewrite <- (job_slice_length i vals j) at 1. apply firstn_all.
  Qed.
End JobOpView.

(* a finished row: the no-op is offered and every action (offered or not) leaves the row exactly as it is *)
Lemma fjsp_finished_row_inert cfg i s : done s = true ->
  maskb cfg i s 0 = true /\ forall a, step cfg i s a = Some s.
Proof. intros Hd. split; [apply fjsp_finished_noop_offered; exact Hd|]. intros a. apply FJSP_done_stable. exact Hd. Qed.

(* two concrete rows (the instance of Env/FJSP.v in two different states, different actions, one of them finished)
   through the batched step *)
Example b_step_example :
  match run true ex_i (reset ex_i) [1], run true ex_i (reset ex_i) [1; 4; 2] with
  | Some sa, Some sb =>
      done sb = true /\
      b_step true 2 [ {| r_i := ex_i; r_s := sa; r_a := 4 |}; {| r_i := ex_i; r_s := sb; r_a := 0 |};
                      {| r_i := ex_i; r_s := reset ex_i; r_a := 4 |} ]
      = Some [ match step true ex_i sa 4 with Some x => x | None => sa end; sb;
               match step true ex_i (reset ex_i) 4 with Some x => x | None => sb end ]
  | _, _ => False
  end.
Proof. vm_compute. split; reflexivity. Qed.

Example jssp_b_step_example :
  match jssp_run true ex_i (reset ex_i) [1; 2; 1] with
  | Some sd =>
      done sd = true /\
      jssp_b_step true 2 [ {| r_i := ex_i; r_s := reset ex_i; r_a := 2 |}; {| r_i := ex_i; r_s := sd; r_a := 0 |} ]
      = Some [ match jssp_step true ex_i (reset ex_i) 2 with Some x => x | None => sd end; sd ]
  | None => False
  end.
Proof. vm_compute. split; reflexivity. Qed.
