(* Env/FJSP.v -- per-row model of rl4co/envs/scheduling/fjsp/env.py (FJSPEnv) and jssp/env.py (JSSPEnv),
   written variable by variable as the code is (NOT in the style of the specification).

   One batch row.  Tensors are lists, indices are [nat], times are [Z] (the code uses float32 holding small
   integers).  [None] = the real code raises (index out of range, a failed [assert]) or, for [advance],
   the fuel of the modelled [while step_complete.any()] loop ran out; Env/FJSPProofs.v proves that neither
   happens on actions taken inside the mask.

   source                                              model
   ------                                              -----
   FJSPEnv._reset                                      reset
   FJSPEnv._get_job_machine_availability               pair_ok           (negated: true = available)
   FJSPEnv.get_action_mask                             maskb / mask      (flattening "bs j m -> bs (j m)", no-op first)
   FJSPEnv._translate_action                           k / M , k mod M   (after action.subtract_(1))
   FJSPEnv._make_step                                  make_step
   FJSPEnv._transit_to_next_time                       transit = next_time + release
   FJSPEnv._check_step_complete + while loop           step_complete / advance (fuel = number of machines)
   FJSPEnv._step                                       step
   FJSPEnv._get_reward                                 reward
   JSSPEnv.get_action_mask / _translate_action         jssp_maskb / jssp_translate / jssp_step

   Not state of the model because nothing the property talks about reads them: ops_sequence_order,
   num_eligible, ops_ma_adj (= proc_cur > 0, used by JSSP's translation as such), lbs, is_ready, adjacency. *)
From Coq Require Import ZArith List Bool Lia ZifyBool Arith.
From RL4CO Require Import Spec.Schedule.
Import ListNotations.

(* ---------------------------------------------------------------- list helpers (indexed assignment) *)
Fixpoint upd {A} (n : nat) (x : A) (l : list A) {struct l} : list A :=
  match l, n with
  | [], _ => []
  | _ :: t, O => x :: t
  | h :: t, S k => h :: upd k x t
  end.
(* mat[r][c] = x *)
Definition upd2 {A} (r c : nat) (x : A) (mat : list (list A)) : list (list A) :=
  upd r (upd c x (nth r mat [])) mat.

(* ---------------------------------------------------------------- instance: the four tensors of the TensorDict *)
Record inst := {
  start_op : list nat;      (* start_op_per_job [J] *)
  end_op   : list nat;      (* end_op_per_job   [J] *)
  proc     : list (list Z); (* proc_times       [M][N]; 0 = machine not eligible *)
  pad_mask : list bool;     (* pad_mask         [N] *)
}.
Definition nJ (i : inst) : nat := length (start_op i).   (* set_instance_params: start_op_per_job.size(1) *)
Definition nM (i : inst) : nat := length (proc i).       (* proc_times.size(1) *)
Definition nN (i : inst) : nat := length (pad_mask i).   (* pad_mask.size(-1) = proc_times.size(2) (wfb) *)
Definition sj (i : inst) (j : nat) : nat := nth j (start_op i) 0.
Definition ej (i : inst) (j : nat) : nat := nth j (end_op i) 0.
Definition P (i : inst) (m o : nat) : Z := nth o (nth m (proc i) []) 0%Z.
Definition padv (i : inst) (o : nat) : bool := nth o (pad_mask i) true.
(* number of real operations: one past the last operation of the last job *)
Definition total_ops (i : inst) : nat := S (ej i (nJ i - 1)).

Definition INIT_FINISH : Z := 9999%Z.

(* Input format the generators / parsers produce (fjsp/generator.py, jssp/generator.py, */parser.py):
   jobs are consecutive non-empty index ranges starting at 0, padding is exactly the tail, times >= 0. *)
Definition wfb (i : inst) : bool :=
  (1 <=? nJ i) && (1 <=? nM i) && (length (end_op i) =? nJ i) &&
  forallb (fun r => length r =? nN i) (proc i) &&
  (sj i 0 =? 0) &&
  forallb (fun j => sj i j <=? ej i j) (seq 0 (nJ i)) &&
  forallb (fun j => sj i (S j) =? S (ej i j)) (seq 0 (nJ i - 1)) &&
  (total_ops i <=? nN i) &&
  forallb (fun o => Bool.eqb (padv i o) (total_ops i <=? o)) (seq 0 (nN i)) &&
  forallb (fun r => forallb (fun p => (0 <=? p)%Z) r) (proc i).
(* every real operation can be processed by at least one machine (C02's [solvableb]) *)
Definition solvableb (i : inst) : bool :=
  forallb (fun o => existsb (fun m => (0 <? P i m o)%Z) (seq 0 (nM i))) (seq 0 (total_ops i)).

(* ---------------------------------------------------------------- state: the keys _reset adds *)
Record st := {
  time : Z;
  busy_until : list Z;            (* [M] *)
  next_op : list nat;             (* [J] *)
  job_in_process : list bool;     (* [J] *)
  job_done : list bool;           (* [J] *)
  op_scheduled : list bool;       (* [N] *)
  start_times : list Z;           (* [N] *)
  finish_times : list Z;          (* [N] *)
  ma_assignment : list (list bool); (* [M][N] *)
  proc_cur : list (list Z);       (* td["proc_times"]: _make_step zeroes the column of a scheduled op *)
  done : bool;                    (* td["done"]: only _transit_to_next_time writes it *)
}.
Definition bu (s : st) (m : nat) : Z := nth m (busy_until s) 0%Z.
Definition nxt (s : st) (j : nat) : nat := nth j (next_op s) 0.
Definition inp (s : st) (j : nat) : bool := nth j (job_in_process s) false.
Definition jdone (s : st) (j : nat) : bool := nth j (job_done s) false.
Definition sched (s : st) (o : nat) : bool := nth o (op_scheduled s) false.
Definition stt (s : st) (o : nat) : Z := nth o (start_times s) 0%Z.
Definition fin (s : st) (o : nat) : Z := nth o (finish_times s) 0%Z.
Definition asg (s : st) (m o : nat) : bool := nth o (nth m (ma_assignment s) []) false.
Definition pc (s : st) (m o : nat) : Z := nth o (nth m (proc_cur s) []) 0%Z.

Definition reset (i : inst) : st := {|
  time := 0%Z;
  busy_until := repeat 0%Z (nM i);
  next_op := start_op i;
  job_in_process := repeat false (nJ i);
  job_done := repeat false (nJ i);
  op_scheduled := repeat false (nN i);
  start_times := repeat 0%Z (nN i);
  finish_times := repeat INIT_FINISH (nN i);
  ma_assignment := repeat (repeat false (nN i)) (nM i);
  proc_cur := proc i;
  done := false |}.

(* ---------------------------------------------------------------- mask *)
(* _get_job_machine_availability, negated:  job done | job in process | busy_until > time | proc == 0 *)
Definition pair_ok (s : st) (j m : nat) : bool :=
  negb (jdone s j || inp s j || (time s <? bu s m)%Z || (pc s m (nxt s j) =? 0)%Z).
(* no_op_mask; [cfg] = mask_no_ops *)
Definition noop_ok (cfg : bool) (s : st) : bool :=
  if cfg then done s
  else (existsb (fun b => b) (job_in_process s) && negb (done s)) || done s.
(* action 0 = no-op, action 1 + j*M + m = (job j, machine m) *)
Definition maskb (cfg : bool) (i : inst) (s : st) (a : nat) : bool :=
  match a with
  | O => noop_ok cfg s
  | S k => (k <? nJ i * nM i) && pair_ok s (k / nM i) (k mod nM i)
  end.
Definition mask (cfg : bool) (i : inst) (s : st) : list bool :=
  map (maskb cfg i s) (seq 0 (1 + nJ i * nM i)).

(* ---------------------------------------------------------------- _make_step (job j, machine m) *)
Definition make_step (i : inst) (s : st) (j m : nat) : option st :=
  let o := nxt s j in
  let p := pc s m o in
  if negb (j <? nJ i) || negb (m <? nM i) || negb (o <? nN i) then None   (* gather / index out of range *)
  else if (time s <? bu s m)%Z then None                                   (* assert busy_until <= time *)
  else Some {|
    time := time s;
    busy_until := upd m (time s + p)%Z (busy_until s);
    next_op := next_op s;
    job_in_process := upd j true (job_in_process s);
    job_done := job_done s;
    op_scheduled := upd o true (op_scheduled s);
    start_times := upd o (time s) (start_times s);
    finish_times := upd o (time s + p)%Z (finish_times s);
    ma_assignment := upd2 m o true (ma_assignment s);
    proc_cur := map (upd o 0%Z) (proc_cur s);
    done := done s |}.

(* ---------------------------------------------------------------- _transit_to_next_time *)
(* where(busy_until > time, busy_until, inf).min(); None = the assert on isinf fails *)
Definition next_time (s : st) : option Z :=
  match filter (fun b => (time s <? b)%Z) (busy_until s) with
  | [] => None
  | c :: r => Some (fold_left Z.min r c)
  end.
(* the part of _transit_to_next_time after the time update; elementwise over the job dimension *)
Definition op_finished (s : st) (j : nat) : bool := inp s j && (fin s (nxt s j) <=? time s)%Z.
Definition job_finished (i : inst) (s : st) (j : nat) : bool := op_finished s j && (nxt s j =? ej i j).
Definition release (i : inst) (s : st) : st :=
  let jobs := seq 0 (nJ i) in
  let jd := map (fun j => jdone s j || job_finished i s j) jobs in
  {| time := time s;
     busy_until := busy_until s;
     next_op := map (fun j => if op_finished s j && negb (job_finished i s j) then S (nxt s j) else nxt s j) jobs;
     job_in_process := map (fun j => if op_finished s j then false else inp s j) jobs;
     job_done := jd;
     op_scheduled := op_scheduled s;
     start_times := start_times s;
     finish_times := finish_times s;
     ma_assignment := ma_assignment s;
     proc_cur := proc_cur s;
     done := forallb (fun b => b) jd |}.
Definition set_time (s : st) (t : Z) : st :=
  {| time := t; busy_until := busy_until s; next_op := next_op s; job_in_process := job_in_process s;
     job_done := job_done s; op_scheduled := op_scheduled s; start_times := start_times s;
     finish_times := finish_times s; ma_assignment := ma_assignment s; proc_cur := proc_cur s; done := done s |}.
Definition transit (i : inst) (s : st) : option st :=
  match next_time s with
  | None => None
  | Some t => Some (release i (set_time s t))
  end.

(* ---------------------------------------------------------------- _check_step_complete and the while loop *)
Definition step_complete (cfg : bool) (i : inst) (s : st) : bool :=
  negb (existsb (fun b => b) (mask cfg i s)) && negb (done s).
(* while step_complete.any(): transit; recompute mask.   Per row: advance time until something is
   schedulable or the row is done.  Fuel is consumed by transits only. *)
Fixpoint advance (cfg : bool) (i : inst) (fuel : nat) (s : st) : option st :=
  if step_complete cfg i s then
    match fuel with
    | O => None
    | S f => match transit i s with
             | None => None
             | Some s' => advance cfg i f s'
             end
    end
  else Some s.

(* ---------------------------------------------------------------- _step *)
(* a finished row is neither no_op nor req_op: nothing happens to it *)
Definition step (cfg : bool) (i : inst) (s : st) (a : nat) : option st :=
  if done s then Some s
  else match a with
       | O => match transit i s with
              | None => None
              | Some s1 => advance cfg i (nM i) s1
              end
       | S k => match make_step i s (k / nM i) (k mod nM i) with
                | None => None
                | Some s1 => advance cfg i (nM i) s1
                end
       end.

Fixpoint run (cfg : bool) (i : inst) (s : st) (acts : list nat) : option st :=
  match acts with
  | [] => Some s
  | a :: r => match step cfg i s a with Some s' => run cfg i s' r | None => None end
  end.
(* every action lies inside the mask of the state it is taken in (nothing is asked after a crash:
   that a crash never happens is a theorem, not part of the hypothesis) *)
Fixpoint admb (cfg : bool) (i : inst) (s : st) (acts : list nat) : bool :=
  match acts with
  | [] => true
  | a :: r => maskb cfg i s a &&
              match step cfg i s a with Some s' => admb cfg i s' r | None => true end
  end.

(* ---------------------------------------------------------------- _get_reward *)
(* -finish_times.masked_fill(pad_mask, -inf).max(1);  None = -inf (no unpadded operation) *)
Definition zmax_opt (l : list Z) : option Z :=
  match l with [] => None | x :: r => Some (fold_left Z.max r x) end.
Definition unpadded_finish (i : inst) (s : st) : list Z :=
  map (fin s) (filter (fun o => negb (padv i o)) (seq 0 (nN i))).
Definition reward (i : inst) (s : st) : option Z :=
  match zmax_opt (unpadded_finish i s) with Some x => Some (- x)%Z | None => None end.

(* ================================================================ JSSPEnv (subclass) *)
(* get_action_mask: reduce(unavailable, "bs j m -> bs j", "all"), negated: some machine available *)
Definition jssp_maskb (cfg : bool) (i : inst) (s : st) (a : nat) : bool :=
  match a with
  | O => noop_ok cfg s
  | S j => (j <? nJ i) && existsb (fun m => pair_ok s j m) (seq 0 (nM i))
  end.
Definition jssp_mask (cfg : bool) (i : inst) (s : st) : list bool :=
  map (jssp_maskb cfg i s) (seq 0 (1 + nJ i)).
(* _translate_action: ma = ops_ma_adj[:, op].nonzero()[:, 1]; per row this is the machine only when exactly
   one machine has proc_cur > 0 for the op (otherwise the batch-wide nonzero() mis-aligns / mis-shapes: None) *)
Definition jssp_translate (i : inst) (s : st) (j : nat) : option nat :=
  match filter (fun m => (0 <? pc s m (nxt s j))%Z) (seq 0 (nM i)) with
  | [m] => Some m
  | _ => None
  end.
Definition jssp_step (cfg : bool) (i : inst) (s : st) (a : nat) : option st :=
  if done s then Some s
  else match a with
       | O => step cfg i s 0
       | S j => if j <? nJ i then
                  match jssp_translate i s j with
                  | Some m => step cfg i s (S (j * nM i + m))
                  | None => None
                  end
                else None
       end.
Fixpoint jssp_run (cfg : bool) (i : inst) (s : st) (acts : list nat) : option st :=
  match acts with
  | [] => Some s
  | a :: r => match jssp_step cfg i s a with Some s' => jssp_run cfg i s' r | None => None end
  end.
Fixpoint jssp_admb (cfg : bool) (i : inst) (s : st) (acts : list nat) : bool :=
  match acts with
  | [] => true
  | a :: r => jssp_maskb cfg i s a &&
              match jssp_step cfg i s a with Some s' => jssp_admb cfg i s' r | None => true end
  end.
(* JSSP instances: exactly one eligible machine per real operation *)
Definition jssp_wfb (i : inst) : bool :=
  forallb (fun o => length (filter (fun m => (0 <? P i m o)%Z) (seq 0 (nM i))) =? 1) (seq 0 (total_ops i)).

(* ================================================================ bridge to the vocabulary of Spec/Schedule.v *)
(* the instance as the specification sees it: jobs = consecutive index ranges [start_j .. end_j] *)
Definition sinst_of (i : inst) : sinst := {|
  si_nma := nM i;
  si_jobs := map (fun j => seq (sj i j) (S (ej i j) - sj i j)) (seq 0 (nJ i));
  si_proc := P i |}.
(* the observable schedule (start_times, finish_times, ma_assignment) as a list of processing intervals:
   one entry per 1 in the assignment matrix *)
Definition entries_of_arrays (stl finl : list Z) (asgm : list (list bool)) : list entry :=
  flat_map (fun m => flat_map (fun o =>
      if nth o (nth m asgm []) false
      then [ {| e_op := o; e_ma := m; e_start := nth o stl 0%Z; e_end := nth o finl 0%Z |} ] else [])
    (seq 0 (length (nth m asgm [])))) (seq 0 (length asgm)).
Definition schedule_of (s : st) : list entry :=
  entries_of_arrays (start_times s) (finish_times s) (ma_assignment s).

(* ---------------------------------------------------------------- executable sanity *)
(* jobs A = (M0,3),(M1,2)   B = (M1,2) ; one padded column *)
Definition ex_i : inst := {| start_op := [0; 2]; end_op := [1; 2];
  proc := [[3; 0; 0; 0]; [0; 2; 2; 0]]%Z; pad_mask := [false; false; false; true] |}.
Example ex_wf : wfb ex_i = true /\ solvableb ex_i = true /\ jssp_wfb ex_i = true.
Proof. vm_compute. repeat split. Qed.
(* A0 on M0 (a=1), B0 on M1 (a=4), [auto transit to t=2], ... A1 on M1 (a=2), [auto transit to done] *)
Example ex_run : match run true ex_i (reset ex_i) [1; 4; 2] with
                 | Some s => (done s, time s, start_times s, finish_times s, reward ex_i s)
                             = (true, 5%Z, [0; 3; 0; 0]%Z, [3; 5; 2; 9999]%Z, Some (-5)%Z)
                 | None => False end.
Proof. vm_compute. reflexivity. Qed.
Example ex_adm : admb true ex_i (reset ex_i) [1; 4; 2] = true /\ admb false ex_i (reset ex_i) [1; 4; 0; 0; 2; 0] = true.
Proof. vm_compute. split; reflexivity. Qed.
