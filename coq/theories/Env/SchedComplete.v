(* C05 / unit sched, part 1 -- SMTWTP completeness; exhaustive-expansion lemma; the three optimum-not-reachable witnesses.

   Models: Env/SMTWTP.v, Env/FJSP.v, Env/FFSP.v (C07's; imported, not edited).
   * SMTWTP: every permutation of the jobs 1..n is admitted, finished exactly at its end, and rewarded with minus its total
     weighted tardiness: all n! solutions are reachable (unbounded).
   * [Exhaust]: a generic, proved-sound exhaustive expansion of an env model over all mask entries; it turns "every complete
     mask-confined episode of THIS instance satisfies Q" into a vm_compute.
   * JSSP / FJSP with mask_no_ops = True (the default): only non-delay schedules are reachable; witness instance
     A = (M0,10),(M1,1), B = (M1,1),(M0,1),(M1,10): every complete episode has makespan >= 21, a valid schedule with
     makespan 13 exists and IS reached with mask_no_ops = False.
   * FFSP: the wait action is hidden whenever no job is upstream / still being processed upstream, so a free machine must
     take a job; witness 2 jobs, 1 stage, 2 machines, durations (1,3),(1,3): every complete episode has makespan 3, the
     schedule "both jobs on machine 0" has makespan 2. *)
From Coq Require Import ZArith List Bool Lia ZifyBool Arith Permutation.
From RL4CO Require Import Base.FFSPLists Spec.Schedule Spec.FlowShop Env.FJSP Env.FJSPProofs Env.FFSP Env.FFSPProofs Env.SMTWTP.
Import ListNotations.

(* ================================================================ SMTWTP *)
Module SMTWTPComplete.
Import SMTWTP.
Open Scope Z_scope.

Lemma adm_complete i : wfb i = true -> forall acts p s, Inv i p s -> NoDup acts ->
  (forall a, In a acts -> (1 <= a <= n_job i)%nat /\ ~ In a p) -> adm i s acts = true.
Proof.
  intros Hwf acts. induction acts as [|a r IH]; intros p s HI Hnd Hr; [reflexivity|].
  inversion Hnd as [|? ? Hnin Hnd']; subst.
  assert (Hm : nth a (mask s) false = true).
  { unfold mask. apply (inv_av i p s HI). apply Hr. left. reflexivity. }
  destruct (step_inv i p s a Hwf HI Hm) as [s1 [Hs HI1]].
  cbn [adm]. rewrite Hm, Hs. cbn [andb]. apply (IH (p ++ [a]) s1 HI1 Hnd').
  intros x Hx. destruct (Hr x (or_intror Hx)) as [H1 H2]. split; [exact H1|].
  intros Hin. apply in_app_iff in Hin as [Hin|[<-|[]]]; [contradiction | contradiction].
Qed.

Lemma adm_firstn i k : forall acts s, adm i s acts = true -> adm i s (firstn k acts) = true.
Proof.
  induction k as [|k IH]; intros acts s H; [reflexivity|]. destruct acts as [|a r]; [reflexivity|].
  cbn [firstn adm] in *. apply andb_prop in H as [Hm H]. rewrite Hm. cbn [andb].
  destruct (step i s a) as [s1|]; [apply IH; exact H | discriminate].
Qed.

(* every permutation of the jobs is a complete mask-confined episode, not finished before its last job, and its reward is
   minus the total weighted tardiness of that order *)
Theorem smtwtp_mask_complete i acts : wfb i = true -> Permutation acts (seq 1 (n_job i)) ->
  adm i (reset i) acts = true /\
  (exists s, run i (reset i) acts = Some s /\ done s = true) /\
  (forall k s', (k < length acts)%nat -> run i (reset i) (firstn k acts) = Some s' -> done s' = false) /\
  reward i acts = - weighted_tardiness i 0 acts.
Proof.
  intros Hwf HP.
  assert (Hnd : NoDup acts) by (apply (Permutation_NoDup (Permutation_sym HP)); apply seq_NoDup).
  assert (Hrng : forall a, In a acts -> (1 <= a <= n_job i)%nat /\ ~ In a []).
  { intros a Ha. apply (Permutation_in _ HP) in Ha. apply in_seq in Ha. split; [lia | intros []]. }
  assert (Hlen : length acts = n_job i) by (rewrite (Permutation_length HP); apply seq_length).
  pose proof (adm_complete i Hwf acts [] (reset i) (reset_inv i Hwf) Hnd Hrng) as Hadm.
  split; [exact Hadm|]. split; [|split].
  - destruct (SMTWTP_perm i acts Hwf Hadm) as [s [Hr [_ [_ [_ [Hd _]]]]]]. exists s. split; [exact Hr|]. apply Hd. exact Hlen.
  - intros k s' Hk Hr'. pose proof (adm_firstn i k acts (reset i) Hadm) as Hadm'.
    destruct (SMTWTP_perm i _ Hwf Hadm') as [s2 [Hr2 [_ [_ [_ [Hd _]]]]]]. rewrite Hr' in Hr2. injection Hr2 as <-.
    destruct (done s') eqn:E; [|reflexivity]. exfalso. apply proj1 in Hd. specialize (Hd eq_refl).
    rewrite firstn_length in Hd. lia.
  - apply SMTWTP_reward.
Qed.

(* hence every solution of the problem is a reachable episode with its own objective: the optimum is reachable *)
Corollary smtwtp_optimum_reachable i pi : wfb i = true -> Permutation pi (seq 1 (n_job i)) ->
  exists s, adm i (reset i) pi = true /\ run i (reset i) pi = Some s /\ done s = true /\
            reward i pi = - weighted_tardiness i 0 pi.
Proof.
  intros Hwf HP. destruct (smtwtp_mask_complete i pi Hwf HP) as [Ha [[s [Hr Hd]] [_ Hrew]]].
  exists s. repeat split; assumption.
Qed.

Example smtwtp_complete_ex :
  wfb ex_i = true /\ Permutation [3; 1; 2]%nat (seq 1 (n_job ex_i)) /\ adm ex_i (reset ex_i) [3; 1; 2]%nat = true /\
  reward ex_i [3; 1; 2]%nat = - weighted_tardiness ex_i 0 [3; 1; 2]%nat /\ reward ex_i [3; 1; 2]%nat = -9.
Proof.
  split; [reflexivity|]. split.
  - cbn. apply Permutation_sym. apply (perm_trans (l' := [1; 3; 2]%nat)).
    + apply perm_skip. apply perm_swap.
    + apply perm_swap.
  - vm_compute. repeat split; reflexivity.
Qed.
End SMTWTPComplete.

(* ================================================================ exhaustive expansion of an env model, proved sound *)
Section Exhaust.
  Variables (st : Type) (step : st -> nat -> option st) (maskb : st -> nat -> bool) (done : st -> bool)
            (cands : st -> list nat).
  Hypothesis cands_ok : forall s a, maskb s a = true -> In a (cands s).

  (* a complete mask-confined episode from [s]: every action inside the mask of its state, no step raises, it stops at the
     first finished state [s'] *)
  Fixpoint episode (s : st) (acts : list nat) (s' : st) : Prop :=
    match acts with
    | [] => s' = s /\ done s = true
    | a :: r => done s = false /\ maskb s a = true /\ exists s1, step s a = Some s1 /\ episode s1 r s'
    end.

  (* does every complete episode of at most [fuel] steps end in a state satisfying Q, and is there none that is longer or
     raises?  (false when the fuel runs out: the caller picks a fuel for which it says true) *)
  Fixpoint all_leaves (fuel : nat) (s : st) (Q : st -> bool) : bool :=
    if done s then Q s
    else match fuel with
         | O => false
         | S f => forallb (fun a => if maskb s a
                                    then match step s a with Some s1 => all_leaves f s1 Q | None => false end
                                    else true) (cands s)
         end.

  Lemma all_leaves_sound Q : forall fuel s, all_leaves fuel s Q = true ->
    forall acts s', episode s acts s' -> Q s' = true.
  Proof.
    induction fuel as [|f IH]; intros s H acts s' He.
    - cbn [all_leaves] in H. destruct acts as [|a r]; cbn [episode] in He.
      + destruct He as [-> Hd]. rewrite Hd in H. exact H.
      + destruct He as [Hd _]. rewrite Hd in H. discriminate.
    - cbn [all_leaves] in H. destruct acts as [|a r]; cbn [episode] in He.
      + destruct He as [-> Hd]. rewrite Hd in H. exact H.
      + destruct He as [Hd [Hm [s1 [Hs He]]]]. rewrite Hd in H. rewrite forallb_forall in H.
        specialize (H a (cands_ok s a Hm)). rewrite Hm, Hs in H. exact (IH s1 H r s' He).
  Qed.

  (* the number of complete episodes (for the record: "4 sequences", "26 sequences") *)
  Fixpoint count_leaves (fuel : nat) (s : st) : nat :=
    if done s then 1%nat
    else match fuel with
         | O => 0%nat
         | S f => fold_right (fun a acc => ((if maskb s a then match step s a with Some s1 => count_leaves f s1 | None => 0 end
                                             else 0) + acc)%nat) 0%nat (cands s)
         end.
End Exhaust.

(* ================================================================ FJSP / JSSP: the default flag reaches non-delay schedules only *)
Module NonDelay.
Open Scope Z_scope.

(* jobs A = ops 0,1 : (M0,10),(M1,1)     B = ops 2,3,4 : (M1,1),(M0,1),(M1,10) *)
Definition nd_i : inst := {| start_op := [0; 2]%nat; end_op := [1; 4]%nat;
  proc := [[10; 0; 0; 1; 0]; [0; 1; 1; 0; 10]]; pad_mask := [false; false; false; false; false] |}.
(* the optimal schedule: B goes first on both machines, A's first operation is DELAYED to time 2 although M0 is idle *)
Definition nd_opt : list entry :=
  [ {| e_op := 2; e_ma := 1; e_start := 0; e_end := 1 |}; {| e_op := 3; e_ma := 0; e_start := 1; e_end := 2 |};
    {| e_op := 4; e_ma := 1; e_start := 2; e_end := 12 |}; {| e_op := 0; e_ma := 0; e_start := 2; e_end := 12 |};
    {| e_op := 1; e_ma := 1; e_start := 12; e_end := 13 |} ].

Definition fjsp_cands (i : inst) (_ : st) : list nat := seq 0 (1 + nJ i * nM i).
Definition jssp_cands (i : inst) (_ : st) : list nat := seq 0 (1 + nJ i).
Lemma fjsp_cands_ok cfg i s a : maskb cfg i s a = true -> In a (fjsp_cands i s).
Proof.
  unfold fjsp_cands. intros H. apply in_seq. destruct a as [|k]; [lia|]. cbn [maskb] in H.
  apply andb_prop in H as [H _]. apply Nat.ltb_lt in H. lia.
Qed.
Lemma jssp_cands_ok cfg i s a : jssp_maskb cfg i s a = true -> In a (jssp_cands i s).
Proof.
  unfold jssp_cands. intros H. apply in_seq. destruct a as [|k]; [lia|]. cbn [jssp_maskb] in H.
  apply andb_prop in H as [H _]. apply Nat.ltb_lt in H. lia.
Qed.

(* an admitted run that ends finished contains a complete episode with the same final state (finished rows are inert) *)
Lemma fjsp_run_done cfg i s : FJSP.done s = true -> forall acts, run cfg i s acts = Some s.
Proof. intros Hd. induction acts as [|a r IH]; [reflexivity|]. cbn [run]. unfold step at 1. rewrite Hd. exact IH. Qed.
Lemma jssp_run_done cfg i s : FJSP.done s = true -> forall acts, jssp_run cfg i s acts = Some s.
Proof. intros Hd. induction acts as [|a r IH]; [reflexivity|]. cbn [jssp_run]. unfold jssp_step at 1. rewrite Hd. exact IH. Qed.

Lemma fjsp_episode_of_run cfg i : forall acts s s', admb cfg i s acts = true -> run cfg i s acts = Some s' ->
  FJSP.done s' = true -> exists acts0, episode st (step cfg i) (maskb cfg i) FJSP.done s acts0 s'.
Proof.
  induction acts as [|a r IH]; intros s s' Ha Hr Hd.
  - cbn in Hr. injection Hr as <-. exists []. cbn. auto.
  - destruct (FJSP.done s) eqn:Eds.
    + rewrite (fjsp_run_done cfg i s Eds) in Hr. injection Hr as <-. exists []. cbn. auto.
    + cbn [admb run] in *. apply andb_prop in Ha as [Hm Ha]. destruct (step cfg i s a) as [s1|] eqn:Es; [|discriminate].
      destruct (IH s1 s' Ha Hr Hd) as [acts0 He]. exists (a :: acts0). cbn [episode]. split; [exact Eds|]. split; [exact Hm|].
      exists s1. split; [exact Es | exact He].
Qed.
Lemma jssp_episode_of_run cfg i : forall acts s s', jssp_admb cfg i s acts = true -> jssp_run cfg i s acts = Some s' ->
  FJSP.done s' = true -> exists acts0, episode st (jssp_step cfg i) (jssp_maskb cfg i) FJSP.done s acts0 s'.
Proof.
  induction acts as [|a r IH]; intros s s' Ha Hr Hd.
  - cbn in Hr. injection Hr as <-. exists []. cbn. auto.
  - destruct (FJSP.done s) eqn:Eds.
    + rewrite (jssp_run_done cfg i s Eds) in Hr. injection Hr as <-. exists []. cbn. auto.
    + cbn [jssp_admb jssp_run] in *. apply andb_prop in Ha as [Hm Ha]. destruct (jssp_step cfg i s a) as [s1|] eqn:Es; [|discriminate].
      destruct (IH s1 s' Ha Hr Hd) as [acts0 He]. exists (a :: acts0). cbn [episode]. split; [exact Eds|]. split; [exact Hm|].
      exists s1. split; [exact Es | exact He].
Qed.

Definition mk_ge (i : inst) (b : Z) (s : st) : bool :=
  match reward i s with Some r => r <=? - b | None => false end.

(* JSSPEnv, mask_no_ops = True: every complete episode of nd_i has makespan >= 21; a valid schedule of makespan 13 exists;
   with mask_no_ops = False the env reaches makespan 13 *)
Theorem jssp_nondelay_optimum_refuted :
  wfb nd_i = true /\ jssp_wfb nd_i = true /\
  valid_schedule (sinst_of nd_i) nd_opt 13 /\
  (forall acts s', jssp_admb true nd_i (reset nd_i) acts = true -> jssp_run true nd_i (reset nd_i) acts = Some s' ->
     FJSP.done s' = true -> exists mk, reward nd_i s' = Some (- mk) /\ 21 <= mk) /\
  (exists acts s', jssp_admb true nd_i (reset nd_i) acts = true /\ jssp_run true nd_i (reset nd_i) acts = Some s' /\
     FJSP.done s' = true /\ reward nd_i s' = Some (-21)) /\
  (exists acts s', jssp_admb false nd_i (reset nd_i) acts = true /\ jssp_run false nd_i (reset nd_i) acts = Some s' /\
     FJSP.done s' = true /\ reward nd_i s' = Some (-13)).
Proof.
  split; [reflexivity|]. split; [reflexivity|]. split; [apply valid_scheduleb_iff; vm_compute; reflexivity|].
  split; [|split].
  - intros acts s' Ha Hr Hd. destruct (jssp_episode_of_run true nd_i acts _ s' Ha Hr Hd) as [acts0 He].
    assert (HQ : mk_ge nd_i 21 s' = true).
    { apply (all_leaves_sound st (jssp_step true nd_i) (jssp_maskb true nd_i) FJSP.done (jssp_cands nd_i)
               (jssp_cands_ok true nd_i) (mk_ge nd_i 21) 12 (reset nd_i)) with (acts := acts0); [vm_compute; reflexivity | exact He]. }
    unfold mk_ge in HQ. destruct (reward nd_i s') as [r|]; [|discriminate]. exists (- r). split; [f_equal; lia | lia].
  - exists [1; 2; 1; 2; 2]%nat. eexists. vm_compute. repeat split; reflexivity.
  - exists [2; 0; 2; 0; 1; 2; 0; 1; 0]%nat. eexists. vm_compute. repeat split; reflexivity.
Qed.

(* the same instance through FJSPEnv (actions = (job, machine) pairs) *)
Theorem fjsp_nondelay_optimum_refuted :
  wfb nd_i = true /\ solvableb nd_i = true /\
  valid_schedule (sinst_of nd_i) nd_opt 13 /\
  (forall acts s', admb true nd_i (reset nd_i) acts = true -> run true nd_i (reset nd_i) acts = Some s' ->
     FJSP.done s' = true -> exists mk, reward nd_i s' = Some (- mk) /\ 21 <= mk) /\
  (exists acts s', admb true nd_i (reset nd_i) acts = true /\ run true nd_i (reset nd_i) acts = Some s' /\
     FJSP.done s' = true /\ reward nd_i s' = Some (-21)) /\
  (exists acts s', admb false nd_i (reset nd_i) acts = true /\ run false nd_i (reset nd_i) acts = Some s' /\
     FJSP.done s' = true /\ reward nd_i s' = Some (-13)).
Proof.
  split; [reflexivity|]. split; [reflexivity|]. split; [apply valid_scheduleb_iff; vm_compute; reflexivity|].
  split; [|split].
  - intros acts s' Ha Hr Hd. destruct (fjsp_episode_of_run true nd_i acts _ s' Ha Hr Hd) as [acts0 He].
    assert (HQ : mk_ge nd_i 21 s' = true).
    { apply (all_leaves_sound st (step true nd_i) (maskb true nd_i) FJSP.done (fjsp_cands nd_i)
               (fjsp_cands_ok true nd_i) (mk_ge nd_i 21) 12 (reset nd_i)) with (acts := acts0); [vm_compute; reflexivity | exact He]. }
    unfold mk_ge in HQ. destruct (reward nd_i s') as [r|]; [|discriminate]. exists (- r). split; [f_equal; lia | lia].
  - exists [1; 4; 2; 3; 4]%nat. eexists. vm_compute. repeat split; reflexivity.
  - exists [4; 0; 3; 0; 1; 4; 0; 2; 0]%nat. eexists. vm_compute. repeat split; reflexivity.
Qed.

(* the counts DESIGN section 8 reports from the real env: 4 complete sequences with the default flag, 26 without *)
Example nd_counts :
  count_leaves st (jssp_step true nd_i) (jssp_maskb true nd_i) FJSP.done (jssp_cands nd_i) 12 (reset nd_i) = 4%nat /\
  count_leaves st (jssp_step false nd_i) (jssp_maskb false nd_i) FJSP.done (jssp_cands nd_i) 12 (reset nd_i) = 26%nat /\
  count_leaves st (step true nd_i) (maskb true nd_i) FJSP.done (fjsp_cands nd_i) 12 (reset nd_i) = 4%nat /\
  count_leaves st (step false nd_i) (maskb false nd_i) FJSP.done (fjsp_cands nd_i) 12 (reset nd_i) = 26%nat.
Proof. vm_compute. repeat split; reflexivity. Qed.
End NonDelay.

(* ================================================================ FFSP: the wait action is hidden when every job is ready *)
Module FFSPWait.
Import FFSP.
Open Scope Z_scope.

(* 2 jobs, 1 stage, 2 machines; each job takes 1 on machine 0 and 3 on machine 1 *)
Definition fw_i : inst := {| nJ := 2; nS := 1; nM := 2; rt := [[1; 3]; [1; 3]]; mtab := [0; 1]%nat; flat := true |}.
(* both jobs on machine 0, one after the other: makespan 2; machine 1 stays idle *)
Definition fw_opt : FlowShop.sched := [[Some 0; Some 1]; [None; None]].

Definition ffsp_maskb (s : st) (a : nat) : bool := nth a (mask s) false.
Definition ffsp_cands (s : st) : list nat := seq 0 (length (mask s)).
Lemma ffsp_cands_ok s a : ffsp_maskb s a = true -> In a (ffsp_cands s).
Proof.
  unfold ffsp_maskb, ffsp_cands. intros H. apply in_seq. split; [lia|]. cbn.
  destruct (Nat.ltb a (length (mask s))) eqn:E; [apply Nat.ltb_lt in E; exact E|].
  apply Nat.ltb_ge in E. rewrite nth_overflow in H by exact E. discriminate.
Qed.

(* a complete episode of the FFSP model: inside the mask, no raise, stops at the first finished state *)
Definition ffsp_episode (i : inst) := episode st (step i) ffsp_maskb done.

(* at time 0 machine 0 must take a job (wait is not offered: nobody is upstream), then machine 1 -- also free at time 0 --
   must take the other one (wait still not offered): every complete episode has makespan 3; the problem allows 2 *)
Theorem ffsp_optimum_refuted :
  wfb fw_i = true /\
  FlowShop.validb 2 1 2 (pt fw_i) fw_opt = true /\ FlowShop.is_makespanb 2 1 2 (pt fw_i) fw_opt 2 = true /\
  (forall acts s', ffsp_episode fw_i (reset fw_i) acts s' -> reward_of fw_i s' <= -3) /\
  (exists acts s', ffsp_episode fw_i (reset fw_i) acts s' /\ reward_of fw_i s' = -3) /\
  nth 2 (mask (reset fw_i)) true = false.
Proof.
  split; [reflexivity|]. split; [vm_compute; reflexivity|]. split; [vm_compute; reflexivity|]. split; [|split].
  - intros acts s' He.
    assert (HQ : (reward_of fw_i s' <=? -3) = true).
    { apply (all_leaves_sound st (step fw_i) ffsp_maskb done ffsp_cands ffsp_cands_ok (fun s => reward_of fw_i s <=? -3)
               8 (reset fw_i)) with (acts := acts); [vm_compute; reflexivity | exact He]. }
    lia.
  - exists [0; 1]%nat. eexists. unfold ffsp_episode. cbn [episode].
    split.
    + split; [reflexivity|]. split; [reflexivity|]. eexists. split; [vm_compute; reflexivity|].
      split; [reflexivity|]. split; [reflexivity|]. eexists. split; [vm_compute; reflexivity|].
      split; reflexivity.
    + vm_compute. reflexivity.
  - reflexivity.
Qed.

(* what the FFSP mask offers in every reachable state, exactly: job j iff it stands at the current machine's stage and is
   not being processed; the wait action iff some job is still upstream, or some job that has been sent to this stage is still
   being processed upstream, or the row is finished.  So when every unfinished job of the stage is ready the machine MUST
   take one: this is the pruning that loses the optimum above. *)
Theorem ffsp_offers_exactly i acts s : wfb i = true -> adm i (reset i) acts = true -> run i (reset i) acts = Some s ->
  (forall j, (j < nJ i)%nat ->
     nth j (mask s) false = ((loc s j =? stage_of i (sub s))%nat && (jw s j =? 0))) /\
  nth (nJ i) (mask s) false =
    (existsb (fun j => (loc s j <? stage_of i (sub s))%nat) (seq 0 (nJ i))
     || existsb (fun j => (loc s j =? stage_of i (sub s))%nat && (0 <? jw s j)) (seq 0 (nJ i)) || done s).
Proof.
  intros Hwf Hadm Hr. pose proof (FFSPProofs.wfb_WF i Hwf) as W.
  destruct (FFSPProofs.run_inv i W acts _ (FFSPProofs.reset_inv i W) (FFSPProofs.reset_dec i W) Hadm) as [s' [Hr' [_ D]]].
  rewrite Hr in Hr'. injection Hr' as <-. unfold mask. rewrite (FFSPProofs.d_mask i s D). split.
  - intros j Hj. apply FFSPProofs.mask_of_job. exact Hj.
  - apply FFSPProofs.mask_of_wait.
Qed.

Example fw_counts : count_leaves st (step fw_i) ffsp_maskb done ffsp_cands 8 (reset fw_i) = 2%nat.
Proof. vm_compute. reflexivity. Qed.
End FFSPWait.
