(* Proofs about the FFSP row model of Env/FFSP.v: the invariant linking the bookkeeping (wait counters,
   job_location, time_idx / sub_time_idx, the schedule table) to the flow-shop specification of Spec/FlowShop.v,
   termination of the _move_to_next_machine loop within `fuel_of`, totality of admitted steps, absence of dead
   ends, validity of every finished schedule and reward = - makespan.  All statements are for any number of
   jobs / stages / machines and any admitted action list (wait actions included). *)
From Coq Require Import ZArith List Bool Lia ZifyBool Arith.
From RL4CO Require Import Base.FFSPLists Spec.FlowShop Env.FFSP.
Import ListNotations.
Import FFSP.
Open Scope Z_scope.

Module FFSPProofs.

(* ------------------------------------------------------------------ generic list facts *)
Lemma nth_firstn_lt {A} (l : list A) n j d : (j < n)%nat -> nth j (firstn n l) d = nth j l d.
Proof.
  revert n j; induction l as [|h t IH]; intros [|n] [|j] H; simpl; try lia; auto. apply IH. lia.
Qed.

Lemma forallb_firstn_nth {A} (f : A -> bool) (l : list A) n d :
  (n <= length l)%nat ->
  (forallb f (firstn n l) = true <-> forall j, (j < n)%nat -> f (nth j l d) = true).
Proof.
  revert n; induction l as [|h t IH]; intros [|n] H; simpl in *; try lia.
  - split; [intros _ j Hj; lia|reflexivity].
  - split; [intros _ j Hj; lia|reflexivity].
  - rewrite andb_true_iff, (IH n) by lia. split.
    + intros [H1 H2] [|j] Hj; [exact H1|apply H2; lia].
    + intros H0. split; [apply (H0 0%nat); lia|]. intros j Hj. apply (H0 (S j)). lia.
Qed.

Lemma existsb_seq_true n f : existsb f (seq 0 n) = true <-> exists j, (j < n)%nat /\ f j = true.
Proof.
  rewrite existsb_exists. split.
  - intros [j [Hj H]]. apply in_seq in Hj. exists j. split; [lia|exact H].
  - intros [j [Hj H]]. exists j. split; [apply in_seq; lia|exact H].
Qed.

Lemma nth_map_seq {A} (f : nat -> A) n j d : (j < n)%nat -> nth j (map f (seq 0 n)) d = f j.
Proof.
  intros H. rewrite (nth_indep _ d (f 0%nat)) by (rewrite map_length, seq_length; exact H).
  rewrite map_nth. rewrite seq_nth by exact H. reflexivity.
Qed.

Lemma euclid_unique (T q1 r1 q2 r2 : Z) :
  0 <= r1 < T -> 0 <= r2 < T -> q1 * T + r1 = q2 * T + r2 -> q1 = q2 /\ r1 = r2.
Proof.
  intros H1 H2 E. apply (Z.div_mod_unique T q1 q2 r1 r2); [left; exact H1|left; exact H2|lia].
Qed.

(* ------------------------------------------------------------------ well-formed instances *)
Record WF (i : inst) : Prop := {
  wf_J : (1 <= nJ i)%nat;
  wf_S : (1 <= nS i)%nat;
  wf_M : (1 <= nM i)%nat;
  wf_rt : length (rt i) = nJ i;
  wf_dur : forall j m, (j < nJ i)%nat -> (m < nT i)%nat -> 0 <= pt i j m < 999999;
  wf_mtab : forall k, (k < nT i)%nat -> (nth k (mtab i) 0 < nT i)%nat /\ stage_of i (nth k (mtab i) 0%nat) = stage_of i k;
}.

Lemma wfb_WF i : wfb i = true -> WF i.
Proof.
  unfold wfb. intros H. repeat (apply andb_prop in H; destruct H as [H ?]).
  rename H into HJ, H5 into HS, H4 into HM, H3 into Hrt, H2 into Hrows, H1 into Hml, H0 into Hmt.
  apply Nat.eqb_eq in Hrt.
  constructor; try lia.
  - intros j m Hj Hm. rewrite forallb_forall in Hrows.
    assert (Hin : In (nth j (rt i) []) (rt i)) by (apply nth_In; lia).
    specialize (Hrows _ Hin). apply andb_prop in Hrows as [Hl Hd]. apply Nat.eqb_eq in Hl.
    rewrite forallb_forall in Hd. unfold pt.
    assert (Hin2 : In (nth m (nth j (rt i) []) 0) (nth j (rt i) [])) by (apply nth_In; lia).
    specialize (Hd _ Hin2). lia.
  - intros k Hk. rewrite forallb_forall in Hmt. assert (Hin : In k (seq 0 (nT i))) by (apply in_seq; lia).
    specialize (Hmt _ Hin). apply andb_prop in Hmt as [H1 H2]. apply Nat.ltb_lt in H1. apply Nat.eqb_eq in H2.
    split; [exact H1|exact H2].
Qed.

Lemma jdur_job i j m : WF i -> (j < nJ i)%nat -> jdur i j m = pt i j m.
Proof.
  intros W Hj. unfold jdur, pt, job_duration. rewrite app_nth1 by (rewrite (wf_rt i W); exact Hj). reflexivity.
Qed.

Lemma jdur_dummy i m : WF i -> jdur i (nJ i) m = 0.
Proof.
  intros W. unfold jdur, job_duration. rewrite app_nth2 by (rewrite (wf_rt i W); lia).
  rewrite (wf_rt i W), Nat.sub_diag. cbn [nth]. apply nth_repeat_same.
Qed.

Lemma jdur_nonneg i j m : WF i -> (j <= nJ i)%nat -> (m < nT i)%nat -> 0 <= jdur i j m.
Proof.
  intros W Hj Hm. destruct (Nat.eq_dec j (nJ i)) as [->|Hne].
  - rewrite jdur_dummy by exact W. lia.
  - rewrite jdur_job by (try exact W; lia). apply (wf_dur i W); [lia|exact Hm].
Qed.

Lemma stage_lt i k : WF i -> (k < nT i)%nat -> (stage_of i k < nS i)%nat.
Proof.
  intros W Hk. unfold stage_of, nT in *. pose proof (wf_M i W).
  apply Nat.div_lt_upper_bound; [lia|]. rewrite Nat.mul_comm. exact Hk.
Qed.

(* ------------------------------------------------------------------ shape of a state *)
Record Shape (i : inst) (s : st) : Prop := {
  sh_mws : length (mws s) = nT i;
  sh_jws : length (jws s) = S (nJ i);
  sh_jloc : length (jloc s) = S (nJ i);
  sh_sched : length (sched s) = nT i;
  sh_rows : forall m, (m < nT i)%nat -> length (nth m (sched s) []) = S (nJ i);
  sh_sub : (sub s < nT i)%nat;
  sh_mach : mach s = nth (sub s) (mtab i) 0%nat;
}.

Lemma mach_lt i s : WF i -> Shape i s -> (mach s < nT i)%nat.
Proof. intros W Sh. rewrite (sh_mach i s Sh). apply (wf_mtab i W). apply (sh_sub i s Sh). Qed.

Lemma mach_stage i s : WF i -> Shape i s -> stage_of i (mach s) = stage_of i (sub s).
Proof. intros W Sh. rewrite (sh_mach i s Sh). apply (wf_mtab i W). apply (sh_sub i s Sh). Qed.

(* ------------------------------------------------------------------ what `act` does, observationally *)
Section ActObs.
Variables (i : inst) (s : st) (a : nat).
Hypothesis W : WF i.
Hypothesis Sh : Shape i s.
Hypothesis Ha : (a <= nJ i)%nat.

Lemma act_loc j : loc (act i s a) j = if Nat.eqb j a then S (loc s a) else loc s j.
Proof.
  unfold loc at 1. cbn [act jloc]. rewrite nth_set_nth. rewrite (sh_jloc i s Sh).
  replace (Nat.ltb a (S (nJ i))) with true by (symmetry; apply Nat.ltb_lt; lia).
  rewrite andb_true_r. reflexivity.
Qed.

Lemma act_jw j : jw (act i s a) j = if Nat.eqb j a then jdur i a (mach s) else jw s j.
Proof.
  unfold jw at 1. cbn [act jws]. rewrite nth_set_nth. rewrite (sh_jws i s Sh).
  replace (Nat.ltb a (S (nJ i))) with true by (symmetry; apply Nat.ltb_lt; lia).
  rewrite andb_true_r. reflexivity.
Qed.

Lemma act_mw m : mw (act i s a) m = if Nat.eqb m (mach s) then jdur i a (mach s) else mw s m.
Proof.
  unfold mw at 1. cbn [act mws]. rewrite nth_set_nth. rewrite (sh_mws i s Sh).
  pose proof (mach_lt i s W Sh).
  replace (Nat.ltb (mach s) (nT i)) with true by (symmetry; apply Nat.ltb_lt; lia).
  rewrite andb_true_r. reflexivity.
Qed.

Lemma act_sc m j : sc (act i s a) m j = if Nat.eqb m (mach s) && Nat.eqb j a then time s else sc s m j.
Proof.
  unfold sc at 1. cbn [act sched]. pose proof (mach_lt i s W Sh) as Hm.
  rewrite nth_set_nth. rewrite (sh_sched i s Sh).
  replace (Nat.ltb (mach s) (nT i)) with true by (symmetry; apply Nat.ltb_lt; lia).
  rewrite andb_true_r. destruct (Nat.eqb m (mach s)) eqn:E; cbn [andb]; [|reflexivity].
  rewrite nth_set_nth. rewrite (sh_rows i s Sh _ Hm).
  replace (Nat.ltb a (S (nJ i))) with true by (symmetry; apply Nat.ltb_lt; lia).
  rewrite andb_true_r. apply Nat.eqb_eq in E. subst m. reflexivity.
Qed.

Lemma act_shape : Shape i (act i s a).
Proof.
  destruct Sh as [H1 H2 H3 H4 H5 H6 H7]. pose proof (mach_lt i s W Sh) as Hm.
  constructor; cbn [act mws jws jloc sched sub mach]; rewrite ?set_nth_length; auto.
  intros m Hlt. rewrite nth_set_nth. destruct (Nat.eqb m (mach s) && Nat.ltb (mach s) (length (sched s)))%bool.
  - rewrite set_nth_length. apply H5. exact Hm.
  - apply H5. exact Hlt.
Qed.

Lemma act_done_iff :
  done (act i s a) = true <-> forall j, (j < nJ i)%nat -> loc (act i s a) j = nS i.
Proof.
  cbn [act done]. rewrite (forallb_firstn_nth _ _ _ 0%nat) by (rewrite set_nth_length, (sh_jloc i s Sh); lia).
  split; intros H j Hj; specialize (H j Hj).
  - apply Nat.eqb_eq in H. unfold loc at 1. cbn [act jloc]. exact H.
  - apply Nat.eqb_eq. unfold loc at 1 in H. cbn [act jloc] in H. exact H.
Qed.
End ActObs.

(* ------------------------------------------------------------------ what `tick` does, observationally *)
Definition clamp (req : bool) (w : Z) : Z := Z.max 0 (if req then w - 1 else w).

Lemma dec_nth req l m : nth m (dec req l) 0 = clamp req (nth m l 0).
Proof.
  revert m; induction l as [|h t IH]; intros m.
  - destruct m, req; reflexivity.
  - destruct m as [|m]; [|apply IH]. cbn [dec map nth]. unfold clamp.
    destruct req; cbv zeta.
    + destruct (h - 1 <? 0) eqn:E; lia.
    + destruct (h <? 0) eqn:E; lia.
Qed.

Definition wraps (i : inst) (s : st) : bool := (S (sub s) =? nT i)%nat.

Lemma tick_mw i s m : mw (tick i s) m = clamp (wraps i s) (mw s m).
Proof. unfold mw. cbn [tick mws]. apply dec_nth. Qed.
Lemma tick_jw i s j : jw (tick i s) j = clamp (wraps i s) (jw s j).
Proof. unfold jw. cbn [tick jws]. apply dec_nth. Qed.
Lemma tick_loc i s j : loc (tick i s) j = loc s j.
Proof. reflexivity. Qed.
Lemma tick_sc i s m j : sc (tick i s) m j = sc s m j.
Proof. reflexivity. Qed.
Lemma tick_time i s : time (tick i s) = if wraps i s then time s + 1 else time s.
Proof. reflexivity. Qed.
Lemma tick_sub i s : sub (tick i s) = if wraps i s then 0%nat else S (sub s).
Proof. reflexivity. Qed.

Lemma dec_length req l : length (dec req l) = length l.
Proof. unfold dec. apply map_length. Qed.

Lemma tick_shape i s : WF i -> Shape i s -> Shape i (tick i s).
Proof.
  intros W [H1 H2 H3 H4 H5 H6 H7].
  constructor; cbn [tick mws jws jloc sched sub mach]; rewrite ?dec_length; auto.
  fold (wraps i s). unfold wraps. destruct (Nat.eqb_spec (S (sub s)) (nT i)); lia.
Qed.

(* ------------------------------------------------------------------ the invariant *)
Record Inv (i : inst) (s : st) : Prop := {
  i_shape : Shape i s;
  i_time : 0 <= time s;
  i_mw : forall m, 0 <= mw s m;
  i_jw : forall j, 0 <= jw s j;
  i_loc : forall j, (j < nJ i)%nat -> (loc s j <= nS i)%nat;
  i_done : done s = true <-> forall j, (j < nJ i)%nat -> loc s j = nS i;
  (* a filled cell holds a past start time and belongs to a stage the job has already entered *)
  i_ent : forall m j, (m < nT i)%nat -> (j < nJ i)%nat -> sc s m j <> sentinel ->
            0 <= sc s m j <= time s /\ (stage_of i m < loc s j)%nat;
  (* while the row is unfinished the wait counters cover the remaining processing of every started operation *)
  i_busy : done s = false -> forall m j, (m < nT i)%nat -> (j < nJ i)%nat -> sc s m j <> sentinel ->
            sc s m j + pt i j m <= time s + mw s m /\ sc s m j + pt i j m <= time s + jw s j;
  i_ex : forall j g, (j < nJ i)%nat -> (g < loc s j)%nat ->
            exists m, (m < nT i)%nat /\ stage_of i m = g /\ sc s m j <> sentinel;
  i_uni : forall j m1 m2, (j < nJ i)%nat -> (m1 < nT i)%nat -> (m2 < nT i)%nat -> stage_of i m1 = stage_of i m2 ->
            sc s m1 j <> sentinel -> sc s m2 j <> sentinel -> m1 = m2;
  i_ord : forall j m1 m2, (j < nJ i)%nat -> (m1 < nT i)%nat -> (m2 < nT i)%nat -> (stage_of i m1 < stage_of i m2)%nat ->
            sc s m1 j <> sentinel -> sc s m2 j <> sentinel -> sc s m1 j + pt i j m1 <= sc s m2 j;
  i_mach : forall m j1 j2, (m < nT i)%nat -> (j1 < nJ i)%nat -> (j2 < nJ i)%nat -> j1 <> j2 ->
            sc s m j1 <> sentinel -> sc s m j2 <> sentinel ->
            sc s m j1 + pt i j1 m <= sc s m j2 \/ sc s m j2 + pt i j2 m <= sc s m j1;
}.

(* what additionally holds in the states a policy sees (after reset / after a complete step) *)
Record Dec (i : inst) (s : st) : Prop := {
  d_mask : amask s = mask_of i s;
  d_ready : done s = false -> readyb i s = true;
}.

(* ------------------------------------------------------------------ the mask, read back *)
Lemma mask_of_job i s a : (a < nJ i)%nat ->
  nth a (mask_of i s) false = ((loc s a =? stage_of i (sub s))%nat && (jw s a =? 0)).
Proof.
  intros Ha. unfold mask_of. rewrite app_nth1 by (rewrite map_length, seq_length; exact Ha).
  exact (nth_map_seq (fun j => ((loc s j =? stage_of i (sub s))%nat && (jw s j =? 0))) (nJ i) a false Ha).
Qed.

Lemma mask_of_range i s a : nth a (mask_of i s) false = true -> (a <= nJ i)%nat.
Proof.
  intros H. destruct (Nat.leb a (nJ i)) eqn:E; [apply Nat.leb_le in E; exact E|]. apply Nat.leb_gt in E.
  rewrite nth_overflow in H; [discriminate|]. unfold mask_of. rewrite app_length, map_length, seq_length. simpl. lia.
Qed.

Lemma mask_of_wait i s : nth (nJ i) (mask_of i s) false =
  (existsb (fun j => (loc s j <? stage_of i (sub s))%nat) (seq 0 (nJ i))
   || existsb (fun j => (loc s j =? stage_of i (sub s))%nat && (0 <? jw s j)) (seq 0 (nJ i)) || done s).
Proof.
  unfold mask_of. rewrite app_nth2 by (rewrite map_length, seq_length; lia).
  rewrite map_length, seq_length, Nat.sub_diag. reflexivity.
Qed.

(* ------------------------------------------------------------------ reset *)
Lemma sc_reset i m j : sc (reset i) m j = sentinel.
Proof.
  unfold sc. cbn [reset sched].
  destruct (Nat.ltb m (nT i)) eqn:E.
  - apply Nat.ltb_lt in E. rewrite nth_repeat_lt by exact E. apply nth_repeat_same.
  - apply Nat.ltb_ge in E.
    rewrite (nth_overflow (repeat (repeat sentinel (S (nJ i))) (nT i)) []) by (rewrite repeat_length; exact E).
    destruct j; reflexivity.
Qed.

Lemma loc_reset i j : loc (reset i) j = 0%nat.
Proof. unfold loc. cbn [reset jloc]. apply nth_repeat_same. Qed.
Lemma jw_reset i j : jw (reset i) j = 0.
Proof. unfold jw. cbn [reset jws]. apply nth_repeat_same. Qed.
Lemma mw_reset i m : mw (reset i) m = 0.
Proof. unfold mw. cbn [reset mws]. apply nth_repeat_same. Qed.

Lemma stage_zero i : WF i -> stage_of i 0 = 0%nat.
Proof. intros W. unfold stage_of. apply Nat.div_0_l. pose proof (wf_M i W). lia. Qed.

Lemma nT_pos i : WF i -> (0 < nT i)%nat.
Proof. intros W. unfold nT. pose proof (wf_M i W). pose proof (wf_S i W). nia. Qed.

Lemma reset_inv i : WF i -> Inv i (reset i).
Proof.
  intros W. pose proof (nT_pos i W) as HT. pose proof (wf_S i W) as HS. pose proof (wf_J i W) as HJ.
  constructor.
  - constructor; cbn [reset mws jws jloc sched sub mach]; rewrite ?repeat_length; auto.
    intros m Hm. rewrite nth_repeat_lt by exact Hm. apply repeat_length.
  - cbn [reset time]. lia.
  - intros m. rewrite mw_reset. lia.
  - intros j. rewrite jw_reset. lia.
  - intros j _. rewrite loc_reset. lia.
  - cbn [reset done]. split; [discriminate|]. intros H. specialize (H 0%nat HJ). rewrite loc_reset in H. lia.
  - intros m j _ _ H. rewrite sc_reset in H. congruence.
  - intros _ m j _ _ H. rewrite sc_reset in H. congruence.
  - intros j g _ H. rewrite loc_reset in H. lia.
  - intros j m1 m2 _ _ _ _ H. rewrite sc_reset in H. congruence.
  - intros j m1 m2 _ _ _ _ H. rewrite sc_reset in H. congruence.
  - intros m j1 j2 _ _ _ _ H. rewrite sc_reset in H. congruence.
Qed.

Lemma map_const_true {A} (l : list A) : map (fun _ => true) l = repeat true (length l).
Proof. induction l; simpl; congruence. Qed.

Lemma reset_dec i : WF i -> Dec i (reset i).
Proof.
  intros W. pose proof (wf_J i W) as HJ. constructor.
  - cbn [reset amask]. unfold mask_of. cbn [reset sub done]. rewrite (stage_zero i W).
    f_equal.
    + rewrite <- (seq_length (nJ i) 0) at 1. rewrite <- map_const_true. apply map_ext.
      intros j. rewrite loc_reset, jw_reset. reflexivity.
    + f_equal. symmetry. rewrite orb_false_r. apply orb_false_iff. split.
      * destruct (existsb _ _) eqn:E; [|reflexivity]. apply existsb_seq_true in E as [j [_ E]].
        rewrite loc_reset in E. discriminate.
      * destruct (existsb _ _) eqn:E; [|reflexivity]. apply existsb_seq_true in E as [j [_ E]].
        rewrite jw_reset in E. rewrite andb_false_r in E. discriminate.
  - intros _. unfold readyb. cbn [reset mach sub]. rewrite mw_reset. cbn [Z.eqb andb].
    apply existsb_seq_true. exists 0%nat. split; [lia|]. rewrite loc_reset, jw_reset, (stage_zero i W). reflexivity.
Qed.


(* ------------------------------------------------------------------ invariant transfer between states that
   agree on everything the invariant reads for real jobs *)
Lemma inv_transfer i s s' :
  Inv i s -> Shape i s' -> time s' = time s ->
  (forall j, (j < nJ i)%nat -> loc s' j = loc s j) ->
  (forall j, (j < nJ i)%nat -> jw s' j = jw s j) -> (forall j, 0 <= jw s' j) ->
  (forall m j, (j < nJ i)%nat -> sc s' m j = sc s m j) ->
  (forall m, 0 <= mw s' m) -> (done s = false -> forall m, mw s' m = mw s m) ->
  done s' = done s -> Inv i s'.
Proof.
  intros I Sh Ht Hloc Hjw Hjw0 Hsc Hmw0 Hmw Hd.
  constructor.
  - exact Sh.
  - rewrite Ht. apply (i_time i s I).
  - exact Hmw0.
  - exact Hjw0.
  - intros j Hj. rewrite Hloc by exact Hj. apply (i_loc i s I). exact Hj.
  - rewrite Hd. rewrite (i_done i s I). split; intros H j Hj; specialize (H j Hj); rewrite Hloc in *; auto.
  - intros m j Hm Hj. rewrite Hsc, Hloc, Ht by exact Hj. apply (i_ent i s I); assumption.
  - rewrite Hd. intros Hnd m j Hm Hj. rewrite Hsc, Hjw, Ht, (Hmw Hnd) by exact Hj. apply (i_busy i s I); assumption.
  - intros j g Hj. rewrite Hloc by exact Hj. intros Hg. destruct (i_ex i s I j g Hj Hg) as [m [Hm [Hs Hn]]].
    exists m. rewrite Hsc by exact Hj. auto.
  - intros j m1 m2 Hj. rewrite !Hsc by exact Hj. apply (i_uni i s I). exact Hj.
  - intros j m1 m2 Hj. rewrite !Hsc by exact Hj. apply (i_ord i s I). exact Hj.
  - intros m j1 j2 Hm Hj1 Hj2. rewrite !Hsc by assumption. apply (i_mach i s I); assumption.
Qed.

Lemma bool_eq_iff (b1 b2 : bool) : (b1 = true <-> b2 = true) -> b1 = b2.
Proof. destruct b1, b2; intuition congruence. Qed.

(* ------------------------------------------------------------------ the wait action (dummy job J) *)
Lemma act_inv_wait i s : WF i -> Inv i s -> Dec i s -> Inv i (act i s (nJ i)) /\ done (act i s (nJ i)) = done s.
Proof.
  intros W I D. pose proof (i_shape i s I) as Sh.
  assert (Ha : (nJ i <= nJ i)%nat) by lia.
  pose proof (act_loc i s (nJ i) Sh Ha) as Eloc. pose proof (act_jw i s (nJ i) Sh Ha) as Ejw.
  pose proof (act_mw i s (nJ i) W Sh Ha) as Emw. pose proof (act_sc i s (nJ i) W Sh Ha) as Esc.
  assert (Hd : done (act i s (nJ i)) = done s).
  { apply bool_eq_iff. rewrite (act_done_iff i s (nJ i) Sh Ha), (i_done i s I).
    split; intros H j Hj; specialize (H j Hj); rewrite Eloc in *;
      (replace (Nat.eqb j (nJ i)) with false in * by (symmetry; apply Nat.eqb_neq; lia)); exact H. }
  split; [|exact Hd].
  apply (inv_transfer i s).
  - exact I.
  - apply act_shape; assumption.
  - reflexivity.
  - intros j Hj. rewrite Eloc. replace (Nat.eqb j (nJ i)) with false by (symmetry; apply Nat.eqb_neq; lia). reflexivity.
  - intros j Hj. rewrite Ejw. replace (Nat.eqb j (nJ i)) with false by (symmetry; apply Nat.eqb_neq; lia). reflexivity.
  - intros j. rewrite Ejw. destruct (Nat.eqb j (nJ i)); [rewrite jdur_dummy by exact W; lia|apply (i_jw i s I)].
  - intros m j Hj. rewrite Esc. replace (Nat.eqb j (nJ i)) with false by (symmetry; apply Nat.eqb_neq; lia).
    rewrite andb_false_r. reflexivity.
  - intros m. rewrite Emw. destruct (Nat.eqb m (mach s)); [rewrite jdur_dummy by exact W; lia|apply (i_mw i s I)].
  - intros Hnd m. rewrite Emw. destruct (Nat.eqb_spec m (mach s)) as [->|]; [|reflexivity].
    rewrite jdur_dummy by exact W. pose proof (d_ready i s D Hnd) as R. unfold readyb in R.
    apply andb_prop in R as [R _]. lia.
  - exact Hd.
Qed.

(* ------------------------------------------------------------------ scheduling a real job *)
Lemma act_inv_job i s a :
  WF i -> Inv i s -> Dec i s -> (a < nJ i)%nat -> nth a (amask s) false = true -> Inv i (act i s a).
Proof.
  intros W I D Ha Hm.
  rewrite (d_mask i s D), mask_of_job in Hm by exact Ha. apply andb_prop in Hm as [Hl Hw].
  apply Nat.eqb_eq in Hl. apply Z.eqb_eq in Hw.
  pose proof (i_shape i s I) as Sh. pose proof (mach_lt i s W Sh) as Hmach.
  pose proof (mach_stage i s W Sh) as Hst. pose proof (stage_lt i (sub s) W (sh_sub i s Sh)) as Hslt.
  assert (Hnd : done s = false).
  { destruct (done s) eqn:E; [|reflexivity]. pose proof (proj1 (i_done i s I) E a Ha). lia. }
  assert (Hrdy : mw s (mach s) = 0).
  { pose proof (d_ready i s D Hnd) as R. unfold readyb in R. apply andb_prop in R as [R _]. lia. }
  assert (Ha' : (a <= nJ i)%nat) by lia.
  pose proof (act_loc i s a Sh Ha') as Eloc. pose proof (act_jw i s a Sh Ha') as Ejw.
  pose proof (act_mw i s a W Sh Ha') as Emw. pose proof (act_sc i s a W Sh Ha') as Esc.
  assert (Hdpt : jdur i a (mach s) = pt i a (mach s)) by (apply jdur_job; assumption).
  pose proof (wf_dur i W a (mach s) Ha Hmach) as Hd.
  pose proof (i_time i s I) as Htime.
  assert (Htm : time (act i s a) = time s) by reflexivity.
  constructor.
  - apply act_shape; assumption.
  - rewrite Htm. exact Htime.
  - intros m. rewrite Emw. destruct (Nat.eqb m (mach s)); [lia|apply (i_mw i s I)].
  - intros j. rewrite Ejw. destruct (Nat.eqb j a); [lia|apply (i_jw i s I)].
  - intros j Hj. rewrite Eloc. destruct (Nat.eqb_spec j a) as [->|]; [lia|apply (i_loc i s I); exact Hj].
  - apply act_done_iff; assumption.
  - intros m j Hmm Hj. rewrite Esc, Eloc, Htm.
    destruct (Nat.eqb_spec m (mach s)) as [->|Hne1]; destruct (Nat.eqb_spec j a) as [->|Hne2]; cbn [andb]; intros H.
    + split; lia.
    + apply (i_ent i s I); assumption.
    + destruct (i_ent i s I m a Hmm Ha H). split; lia.
    + apply (i_ent i s I); assumption.
  - intros _ m j Hmm Hj. rewrite Esc, Emw, Ejw, Htm.
    destruct (Nat.eqb_spec m (mach s)) as [->|Hne1]; destruct (Nat.eqb_spec j a) as [->|Hne2]; cbn [andb]; intros H.
    + lia.
    + destruct (i_busy i s I Hnd (mach s) j Hmm Hj H). lia.
    + destruct (i_busy i s I Hnd m a Hmm Ha H). lia.
    + apply (i_busy i s I); assumption.
  - intros j g Hj. rewrite Eloc. destruct (Nat.eqb_spec j a) as [->|Hne].
    + intros Hg. destruct (Nat.eq_dec g (loc s a)) as [->|Hne].
      * exists (mach s). split; [exact Hmach|]. split; [lia|]. rewrite Esc, !Nat.eqb_refl. cbn [andb].
        unfold sentinel. lia.
      * destruct (i_ex i s I a g Ha) as [m [Hmm [Hs Hn]]]; [lia|].
        exists m. split; [exact Hmm|]. split; [exact Hs|]. rewrite Esc.
        destruct (Nat.eqb_spec m (mach s)) as [->|]; cbn [andb]; [exfalso; lia|exact Hn].
    + intros Hg. destruct (i_ex i s I j g Hj Hg) as [m [Hmm [Hs Hn]]].
      exists m. split; [exact Hmm|]. split; [exact Hs|]. rewrite Esc.
      replace (Nat.eqb j a) with false by (symmetry; apply Nat.eqb_neq; exact Hne). rewrite andb_false_r. exact Hn.
  - intros j m1 m2 Hj Hm1 Hm2 Hs12. rewrite !Esc.
    destruct (Nat.eqb_spec j a) as [->|Hne]; [|rewrite !andb_false_r; apply (i_uni i s I); assumption].
    rewrite !andb_true_r.
    destruct (Nat.eqb_spec m1 (mach s)) as [->|Hn1]; destruct (Nat.eqb_spec m2 (mach s)) as [->|Hn2]; intros H1 H2.
    + reflexivity.
    + destruct (i_ent i s I m2 a Hm2 Ha H2). exfalso. lia.
    + destruct (i_ent i s I m1 a Hm1 Ha H1). exfalso. lia.
    + apply (i_uni i s I a); assumption.
  - intros j m1 m2 Hj Hm1 Hm2 Hs12. rewrite !Esc.
    destruct (Nat.eqb_spec j a) as [->|Hne]; [|rewrite !andb_false_r; apply (i_ord i s I); assumption].
    rewrite !andb_true_r.
    destruct (Nat.eqb_spec m1 (mach s)) as [->|Hn1]; destruct (Nat.eqb_spec m2 (mach s)) as [->|Hn2]; intros H1 H2.
    + exfalso. lia.
    + destruct (i_ent i s I m2 a Hm2 Ha H2). exfalso. lia.
    + destruct (i_busy i s I Hnd m1 a Hm1 Ha H1). lia.
    + apply (i_ord i s I a); assumption.
  - intros m j1 j2 Hmm Hj1 Hj2 Hne. rewrite !Esc.
    destruct (Nat.eqb_spec m (mach s)) as [->|Hn]; cbn [andb]; [|apply (i_mach i s I); assumption].
    destruct (Nat.eqb_spec j1 a) as [->|Hn1]; destruct (Nat.eqb_spec j2 a) as [->|Hn2]; intros H1 H2.
    + contradiction.
    + destruct (i_busy i s I Hnd (mach s) j2 Hmm Hj2 H2). right. lia.
    + destruct (i_busy i s I Hnd (mach s) j1 Hmm Hj1 H1). left. lia.
    + apply (i_mach i s I); assumption.
Qed.

(* ------------------------------------------------------------------ one loop iteration keeps the invariant *)
Lemma clamp_bounds req w : 0 <= w -> 0 <= clamp req w /\ w <= clamp req w + (if req then 1 else 0).
Proof. unfold clamp. destruct req; lia. Qed.

Lemma tick_inv i s : WF i -> Inv i s -> Inv i (tick i s).
Proof.
  intros W I. pose proof (i_time i s I) as Ht.
  assert (Htime : time (tick i s) = time s + (if wraps i s then 1 else 0)).
  { rewrite tick_time. destruct (wraps i s); lia. }
  constructor.
  - apply tick_shape; [exact W|apply (i_shape i s I)].
  - rewrite Htime. destruct (wraps i s); lia.
  - intros m. rewrite tick_mw. apply clamp_bounds. apply (i_mw i s I).
  - intros j. rewrite tick_jw. apply clamp_bounds. apply (i_jw i s I).
  - intros j Hj. rewrite tick_loc. apply (i_loc i s I). exact Hj.
  - change (done (tick i s)) with (done s). apply (i_done i s I).
  - intros m j Hm Hj. rewrite tick_sc, tick_loc, Htime. intros H.
    destruct (i_ent i s I m j Hm Hj H). split; [|assumption]. destruct (wraps i s); lia.
  - change (done (tick i s)) with (done s). intros Hnd m j Hm Hj. rewrite tick_sc, tick_mw, tick_jw, Htime. intros H.
    destruct (i_busy i s I Hnd m j Hm Hj H).
    pose proof (clamp_bounds (wraps i s) (mw s m) (i_mw i s I m)).
    pose proof (clamp_bounds (wraps i s) (jw s j) (i_jw i s I j)). lia.
  - intros j g Hj Hg. rewrite tick_loc in Hg. destruct (i_ex i s I j g Hj Hg) as [m H]. exists m. exact H.
  - intros j m1 m2. rewrite !tick_sc. apply (i_uni i s I).
  - intros j m1 m2. rewrite !tick_sc. apply (i_ord i s I).
  - intros m j1 j2. rewrite !tick_sc. apply (i_mach i s I).
Qed.

Lemma move_inv i : WF i -> forall f s s', Inv i s -> move i f s = Some s' -> Inv i s' /\ readyb i s' = true.
Proof.
  intros W f. induction f as [|f IH]; intros s s' I H; cbn [move] in H; [discriminate|].
  destruct (readyb i (tick i s)) eqn:R.
  - inversion H. subst s'. split; [apply tick_inv; assumption|exact R].
  - apply (IH (tick i s)); [apply tick_inv; assumption|exact H].
Qed.

(* ------------------------------------------------------------------ termination of the loop *)
Fixpoint iter_tick (i : inst) (n : nat) (s : st) : st :=
  match n with O => s | S k => iter_tick i k (tick i s) end.

Lemma move_some i : forall f s n, (n < f)%nat -> readyb i (iter_tick i (S n) s) = true -> exists s', move i f s = Some s'.
Proof.
  induction f as [|f IH]; intros s n Hn R; [lia|]. cbn [move].
  destruct (readyb i (tick i s)) eqn:R1; [eexists; reflexivity|].
  destruct n as [|n]; [cbn [iter_tick] in R; congruence|].
  apply (IH (tick i s) n); [lia|exact R].
Qed.

(* closed form of n loop iterations: the pair (time_idx, sub_time_idx) is the quotient and remainder of a
   counter that grows by one per iteration, and the wait counters drop by the elapsed time, clamped at 0 *)
Lemma iter_tick_closed i : forall n s,
  (sub s < nT i)%nat -> (forall m, 0 <= mw s m) -> (forall j, 0 <= jw s j) ->
  let s' := iter_tick i n s in
  (sub s' < nT i)%nat /\ time s <= time s' /\
  time s' * Z.of_nat (nT i) + Z.of_nat (sub s') = time s * Z.of_nat (nT i) + Z.of_nat (sub s) + Z.of_nat n /\
  (forall m, mw s' m = Z.max 0 (mw s m - (time s' - time s))) /\
  (forall j, jw s' j = Z.max 0 (jw s j - (time s' - time s))) /\
  (forall j, loc s' j = loc s j) /\
  ((0 < n)%nat -> mach s' = nth (sub s') (mtab i) 0%nat).
Proof.
  induction n as [|n IH]; intros s Hsub Hmw Hjw; cbn [iter_tick]; cbv zeta.
  - repeat split; try lia.
    + intros m. specialize (Hmw m). lia.
    + intros j. specialize (Hjw j). lia.
  - set (s1 := tick i s).
    assert (Hsub1 : (sub s1 < nT i)%nat).
    { unfold s1. rewrite tick_sub. unfold wraps. destruct (Nat.eqb_spec (S (sub s)) (nT i)); lia. }
    assert (Hmw1 : forall m, 0 <= mw s1 m).
    { intros m. unfold s1. rewrite tick_mw. apply clamp_bounds. apply Hmw. }
    assert (Hjw1 : forall j, 0 <= jw s1 j).
    { intros j. unfold s1. rewrite tick_jw. apply clamp_bounds. apply Hjw. }
    destruct (IH s1 Hsub1 Hmw1 Hjw1) as [A1 [A2 [A3 [A4 [A5 [A6 A7]]]]]].
    assert (B : (wraps i s = true /\ time s1 = time s + 1 /\ sub s1 = 0%nat /\ S (sub s) = nT i) \/
                (wraps i s = false /\ time s1 = time s /\ sub s1 = S (sub s))).
    { unfold s1. rewrite tick_time, tick_sub. unfold wraps.
      destruct (Nat.eqb_spec (S (sub s)) (nT i)); [left|right]; auto. }
    split; [exact A1|]. split; [destruct B as [[_ [B _]]|[_ [B _]]]; lia|].
    split; [destruct B as [[_ [B1 [B2 B3]]]|[_ [B1 B2]]]; rewrite B1, B2 in A3; lia|].
    split; [|split; [|split]].
    + intros m. rewrite A4. unfold s1 at 1. rewrite tick_mw. unfold clamp. specialize (Hmw m).
      destruct B as [[-> [B _]]|[-> [B _]]]; lia.
    + intros j. rewrite A5. unfold s1 at 1. rewrite tick_jw. unfold clamp. specialize (Hjw j).
      destruct B as [[-> [B _]]|[-> [B _]]]; lia.
    + intros j. rewrite A6. reflexivity.
    + intros _. destruct n as [|n]; [|apply A7; lia]. cbn [iter_tick]. reflexivity.
Qed.

Lemma forallb_false_ex {A} (f : A -> bool) l : forallb f l = false -> exists x, In x l /\ f x = false.
Proof.
  induction l as [|h t IH]; simpl; [discriminate|]. intros H. apply andb_false_iff in H as [H|H].
  - exists h. auto.
  - destruct (IH H) as [x [Hx Hf]]. exists x. auto.
Qed.

Lemma unfinished_job i s : Inv i s -> done s = false -> exists j, (j < nJ i)%nat /\ (loc s j < nS i)%nat.
Proof.
  intros I Hnd. destruct (forallb (fun j => Nat.eqb (loc s j) (nS i)) (seq 0 (nJ i))) eqn:E.
  - exfalso. assert (done s = true); [|congruence]. apply (i_done i s I). intros j Hj.
    rewrite forallb_forall in E. apply Nat.eqb_eq. apply E. apply in_seq. lia.
  - apply forallb_false_ex in E as [j [Hj E]]. apply in_seq in Hj. apply Nat.eqb_neq in E.
    exists j. split; [lia|]. pose proof (i_loc i s I j). lia.
Qed.

Lemma wait_bound s : forall m j,
  mw s m <= maxl (0 :: mws s ++ jws s) /\ jw s j <= maxl (0 :: mws s ++ jws s) /\ 0 <= maxl (0 :: mws s ++ jws s).
Proof.
  intros m j. repeat split.
  - unfold mw. destruct (Nat.ltb m (length (mws s))) eqn:E.
    + apply Nat.ltb_lt in E. apply maxl_ge. right. apply in_or_app. left. apply nth_In. exact E.
    + apply Nat.ltb_ge in E. rewrite nth_overflow by exact E. apply maxl_ge. left. reflexivity.
  - unfold jw. destruct (Nat.ltb j (length (jws s))) eqn:E.
    + apply Nat.ltb_lt in E. apply maxl_ge. right. apply in_or_app. right. apply nth_In. exact E.
    + apply Nat.ltb_ge in E. rewrite nth_overflow by exact E. apply maxl_ge. left. reflexivity.
  - apply maxl_ge. left. reflexivity.
Qed.

Theorem move_terminates i s :
  WF i -> Inv i s -> done s = false -> exists s', move i (fuel_of i s) s = Some s'.
Proof.
  intros W I Hnd. destruct (unfinished_job i s I Hnd) as [j [Hj Hlj]].
  pose proof (i_shape i s I) as Sh. pose proof (sh_sub i s Sh) as Hsub.
  pose proof (wf_M i W) as HM.
  set (k := (loc s j * nM i)%nat).
  assert (Hk : (k < nT i)%nat) by (unfold k, nT; nia).
  assert (Hks : stage_of i k = loc s j) by (unfold stage_of, k; apply Nat.div_mul; lia).
  unfold fuel_of. cbv zeta. set (Wz := maxl (0 :: mws s ++ jws s)). set (Wn := Z.to_nat Wz).
  assert (HW : forall m j', mw s m <= Z.of_nat Wn /\ jw s j' <= Z.of_nat Wn).
  { intros m j'. destruct (wait_bound s m j') as [B1 [B2 B3]]. fold Wz in B1, B2, B3. unfold Wn. lia. }
  set (T := nT i) in *.
  assert (Hn : exists n, S n = ((Wn + 1) * T + k - sub s)%nat) by (exists ((Wn + 1) * T + k - sub s - 1)%nat; nia).
  destruct Hn as [n Hn].
  apply (move_some i _ s n); [nia|].
  destruct (iter_tick_closed i (S n) s Hsub (i_mw i s I) (i_jw i s I)) as [A1 [A2 [A3 [A4 [A5 [A6 A7]]]]]].
  set (s' := iter_tick i (S n) s) in *. fold T in A1, A3.
  assert (E : time s' = time s + Z.of_nat Wn + 1 /\ Z.of_nat (sub s') = Z.of_nat k).
  { apply (euclid_unique (Z.of_nat T)); [lia|lia|]. rewrite A3, Hn. nia. }
  destruct E as [E1 E2]. assert (E3 : sub s' = k) by lia.
  unfold readyb. apply andb_true_intro. split.
  - rewrite A4. destruct (HW (mach s') j). lia.
  - apply existsb_seq_true. exists j. split; [exact Hj|]. rewrite A6, A5, E3, Hks, Nat.eqb_refl. cbn [andb].
    destruct (HW 0%nat j). lia.
Qed.


(* ------------------------------------------------------------------ _update_step_state and the complete step *)
Lemma upd_inv i s : Inv i s -> Inv i (upd i s).
Proof.
  intros I. apply (inv_transfer i s); try reflexivity; try exact I.
  - destruct (i_shape i s I). constructor; assumption.
  - apply (i_jw i s I).
  - apply (i_mw i s I).
Qed.

Lemma upd_dec i s : (done s = false -> readyb i s = true) -> Dec i (upd i s).
Proof. intros H. constructor; [reflexivity|exact H]. Qed.

Lemma step_inv i s a :
  WF i -> Inv i s -> Dec i s -> nth a (mask s) false = true ->
  exists s', step i s a = Some s' /\ Inv i s' /\ Dec i s' /\
             (done s = true -> done s' = true /\ forall m j, (j < nJ i)%nat -> sc s' m j = sc s m j).
Proof.
  intros W I D Hm. unfold mask in Hm.
  pose proof Hm as Hr. rewrite (d_mask i s D) in Hr. apply mask_of_range in Hr.
  pose proof (mach_lt i s W (i_shape i s I)) as Hmach.
  unfold step.
  replace (Nat.leb a (nJ i)) with true by (symmetry; apply Nat.leb_le; exact Hr).
  replace (Nat.ltb (mach s) (nT i)) with true by (symmetry; apply Nat.ltb_lt; exact Hmach).
  cbn [andb].
  assert (I1 : Inv i (act i s a) /\
               (done s = true -> done (act i s a) = true /\ forall m j, (j < nJ i)%nat -> sc (act i s a) m j = sc s m j)).
  { destruct (Nat.eq_dec a (nJ i)) as [->|Hne].
    - destruct (act_inv_wait i s W I D) as [I1 Hd]. split; [exact I1|]. intros Hdn. split; [congruence|].
      intros m j Hj. rewrite (act_sc i s (nJ i) W (i_shape i s I)) by lia.
      replace (Nat.eqb j (nJ i)) with false by (symmetry; apply Nat.eqb_neq; lia). rewrite andb_false_r. reflexivity.
    - assert (Ha : (a < nJ i)%nat) by lia. split; [apply act_inv_job; assumption|].
      intros Hdn. exfalso. rewrite (d_mask i s D), mask_of_job in Hm by exact Ha.
      apply andb_prop in Hm as [Hl _]. apply Nat.eqb_eq in Hl.
      pose proof (proj1 (i_done i s I) Hdn a Ha).
      pose proof (stage_lt i (sub s) W (sh_sub i s (i_shape i s I))). lia. }
  destruct I1 as [I1 Hfr].
  destruct (done (act i s a)) eqn:Hd.
  - eexists. split; [reflexivity|]. split; [apply upd_inv; exact I1|]. split.
    + apply upd_dec. cbn [upd done]. congruence.
    + intros Hdn. destruct (Hfr Hdn) as [_ F]. split; [exact Hd|exact F].
  - destruct (move_terminates i (act i s a) W I1 Hd) as [s2 Hmv]. rewrite Hmv.
    destruct (move_inv i W _ _ _ I1 Hmv) as [I2 R2].
    eexists. split; [reflexivity|]. split; [apply upd_inv; exact I2|]. split.
    + apply upd_dec. intros _. exact R2.
    + intros Hdn. destruct (Hfr Hdn) as [C _]. congruence.
Qed.

Lemma run_inv i : WF i -> forall acts s,
  Inv i s -> Dec i s -> adm i s acts = true -> exists s', run i s acts = Some s' /\ Inv i s' /\ Dec i s'.
Proof.
  intros W acts. induction acts as [|a r IH]; intros s I D Hadm.
  - exists s. auto.
  - cbn [adm] in Hadm. apply andb_prop in Hadm as [Hm Hadm].
    destruct (step_inv i s a W I D Hm) as [s1 [Hs [I1 [D1 _]]]].
    cbn [run]. rewrite Hs in *. apply IH; assumption.
Qed.

(* admitted steps never crash and the loop always finds the next decision point within the fuel *)
Theorem FFSP_step_total i acts a :
  wfb i = true -> adm i (reset i) acts = true ->
  exists s, run i (reset i) acts = Some s /\
    (nth a (mask s) false = true -> exists s', step i s a = Some s').
Proof.
  intros Hwf Hadm. pose proof (wfb_WF i Hwf) as W.
  destruct (run_inv i W acts _ (reset_inv i W) (reset_dec i W) Hadm) as [s [Hr [I D]]].
  exists s. split; [exact Hr|]. intros Hm. destruct (step_inv i s a W I D Hm) as [s' [Hs _]]. exists s'. exact Hs.
Qed.

(* no dead end: every reachable state offers an action -- a real job while the row is unfinished (the code's
   own assert), the wait action once it is finished *)
Theorem FFSP_no_dead_end i acts :
  wfb i = true -> adm i (reset i) acts = true ->
  exists s, run i (reset i) acts = Some s /\
    (done s = false -> exists j, (j < nJ i)%nat /\ nth j (mask s) false = true) /\
    (done s = true -> nth (nJ i) (mask s) false = true /\ forall j, (j < nJ i)%nat -> nth j (mask s) false = false).
Proof.
  intros Hwf Hadm. pose proof (wfb_WF i Hwf) as W.
  destruct (run_inv i W acts _ (reset_inv i W) (reset_dec i W) Hadm) as [s [Hr [I D]]].
  exists s. split; [exact Hr|]. unfold mask. rewrite (d_mask i s D). split.
  - intros Hnd. pose proof (d_ready i s D Hnd) as R. unfold readyb in R. apply andb_prop in R as [_ R].
    apply existsb_seq_true in R as [j [Hj R]]. exists j. split; [exact Hj|]. rewrite mask_of_job by exact Hj. exact R.
  - intros Hdn. split.
    + rewrite mask_of_wait, Hdn. apply orb_true_r.
    + intros j Hj. rewrite mask_of_job by exact Hj.
      pose proof (proj1 (i_done i s I) Hdn j Hj).
      pose proof (stage_lt i (sub s) W (sh_sub i s (i_shape i s I))).
      replace (Nat.eqb (loc s j) (stage_of i (sub s))) with false by (symmetry; apply Nat.eqb_neq; lia). reflexivity.
Qed.

(* a finished row only ever receives the wait action, stays finished, and its real-job cells -- hence its
   schedule and its reward -- no longer change (what makes the batch-level `done.all()` harmless for the row) *)
Theorem done_frozen i acts a :
  wfb i = true -> adm i (reset i) (acts ++ [a]) = true ->
  forall s, run i (reset i) acts = Some s -> done s = true ->
  a = nJ i /\ exists s', step i s a = Some s' /\ done s' = true /\
     schedule_of i s' = schedule_of i s /\ reward_of i s' = reward_of i s.
Proof.
  intros Hwf Hadm s Hr Hdn. pose proof (wfb_WF i Hwf) as W.
  assert (Hpre : adm i (reset i) acts = true /\ forall s0, run i (reset i) acts = Some s0 -> nth a (mask s0) false = true).
  { clear Hr Hdn s. revert Hadm. generalize (reset i). induction acts as [|b r IH]; intros s0 H.
    - cbn [app adm] in H. apply andb_prop in H as [H _]. split; [reflexivity|]. intros s1 E. inversion E. subst. exact H.
    - cbn [app adm] in H. apply andb_prop in H as [H1 H2]. cbn [adm run]. rewrite H1.
      destruct (step i s0 b) as [s1|]; [|discriminate]. cbn [andb]. apply IH. exact H2. }
  destruct Hpre as [Hadm' Hm]. specialize (Hm s Hr).
  destruct (run_inv i W acts _ (reset_inv i W) (reset_dec i W) Hadm') as [s0 [Hr0 [I D]]].
  rewrite Hr in Hr0. inversion Hr0. subst s0.
  assert (Ha : a = nJ i).
  { pose proof Hm as Hm'. unfold mask in Hm'. rewrite (d_mask i s D) in Hm'. pose proof (mask_of_range i s a Hm') as Hle.
    destruct (Nat.eq_dec a (nJ i)) as [E|E]; [exact E|]. exfalso.
    assert (Hlt : (a < nJ i)%nat) by lia. rewrite mask_of_job in Hm' by exact Hlt.
    apply andb_prop in Hm' as [Hl _]. apply Nat.eqb_eq in Hl. pose proof (proj1 (i_done i s I) Hdn a Hlt).
    pose proof (stage_lt i (sub s) W (sh_sub i s (i_shape i s I))). lia. }
  split; [exact Ha|].
  destruct (step_inv i s a W I D Hm) as [s' [Hs [I' [D' Hfr]]]]. destruct (Hfr Hdn) as [Hd' F].
  exists s'. split; [exact Hs|]. split; [exact Hd'|].
  pose proof (i_shape i s I) as Sh. pose proof (i_shape i s' I') as Sh'.
  split.
  - unfold schedule_of, table_to_sched. apply (nth_ext _ _ [] []).
    + rewrite !map_length. rewrite (sh_sched i s Sh), (sh_sched i s' Sh'). reflexivity.
    + intros m Hm0. rewrite map_length, (sh_sched i s' Sh') in Hm0.
      set (F0 := fun row : list Z => map (fun v => if v =? sentinel then None else Some v) (firstn (nJ i) row)).
      rewrite (nth_indep (map F0 (sched s')) [] (F0 [])) by (rewrite map_length, (sh_sched i s' Sh'); exact Hm0).
      rewrite (nth_indep (map F0 (sched s)) [] (F0 [])) by (rewrite map_length, (sh_sched i s Sh); exact Hm0).
      rewrite !map_nth. unfold F0. f_equal.
      apply (nth_ext _ _ sentinel sentinel).
      * rewrite !firstn_length, (sh_rows i s Sh m Hm0), (sh_rows i s' Sh' m Hm0). reflexivity.
      * intros j Hj0. rewrite firstn_length, (sh_rows i s' Sh' m Hm0) in Hj0.
        assert (Hj : (j < nJ i)%nat) by lia. rewrite !nth_firstn_lt by exact Hj. apply (F m j Hj).
  - unfold reward_of. f_equal. f_equal. apply map_ext_in. intros m _. f_equal. apply map_ext_in.
    intros j Hj. apply in_seq in Hj. rewrite F by lia. reflexivity.
Qed.

(* ------------------------------------------------------------------ from the table to the specification *)
Lemma entry_schedule_of i s m j : Shape i s -> (m < nT i)%nat -> (j < nJ i)%nat ->
  FlowShop.entry (schedule_of i s) m j = if sc s m j =? sentinel then None else Some (sc s m j).
Proof.
  intros Sh Hm Hj. unfold FlowShop.entry, schedule_of, table_to_sched, sc.
  set (G := fun v : Z => if v =? sentinel then None else Some v).
  set (F0 := fun row : list Z => map G (firstn (nJ i) row)).
  rewrite (nth_indep (map F0 (sched s)) [] (F0 [])) by (rewrite map_length, (sh_sched i s Sh); exact Hm).
  rewrite map_nth. unfold F0.
  rewrite (nth_indep _ None (G sentinel)) by (rewrite map_length, firstn_length, (sh_rows i s Sh m Hm); lia).
  rewrite map_nth. rewrite nth_firstn_lt by exact Hj. reflexivity.
Qed.

Lemma entry_some i s m j t : Shape i s -> (m < nT i)%nat -> (j < nJ i)%nat ->
  FlowShop.entry (schedule_of i s) m j = Some t -> sc s m j = t /\ sc s m j <> sentinel.
Proof.
  intros Sh Hm Hj. rewrite entry_schedule_of by assumption.
  destruct (Z.eqb_spec (sc s m j) sentinel); [discriminate|]. intros E. inversion E. auto.
Qed.

Lemma entry_not_none i s m j : Shape i s -> (m < nT i)%nat -> (j < nJ i)%nat ->
  (FlowShop.entry (schedule_of i s) m j <> None <-> sc s m j <> sentinel).
Proof.
  intros Sh Hm Hj. rewrite entry_schedule_of by assumption.
  destruct (Z.eqb_spec (sc s m j) sentinel); split; congruence.
Qed.

Lemma inv_valid i s : WF i -> Inv i s -> done s = true ->
  FlowShop.valid (nJ i) (nS i) (nM i) (pt i) (schedule_of i s).
Proof.
  intros W I Hdn. pose proof (i_shape i s I) as Sh. pose proof (proj1 (i_done i s I) Hdn) as Hloc.
  fold (nT i). constructor; fold (nT i).
  - unfold schedule_of, table_to_sched. rewrite map_length. apply (sh_sched i s Sh).
  - intros m Hm. unfold schedule_of.
    set (F0 := fun row : list Z => map (fun v => if v =? sentinel then None else Some v) (firstn (nJ i) row)).
    rewrite (nth_indep (map F0 (sched s)) [] (F0 [])) by (rewrite map_length, (sh_sched i s Sh); exact Hm).
    rewrite map_nth. unfold F0. rewrite map_length, firstn_length, (sh_rows i s Sh m Hm). lia.
  - intros m j t Hm Hj E. destruct (entry_some i s m j t Sh Hm Hj E) as [<- Hn].
    apply (i_ent i s I m j Hm Hj Hn).
  - intros j g Hj Hg. destruct (i_ex i s I j g Hj) as [m [Hm [Hs Hn]]]; [rewrite Hloc by exact Hj; exact Hg|].
    exists m. split; [exact Hm|]. split; [exact Hs|]. apply entry_not_none; assumption.
  - intros j m1 m2 Hj Hm1 Hm2 Hs H1 H2. apply (i_uni i s I j m1 m2 Hj Hm1 Hm2 Hs).
    + apply (entry_not_none i s m1 j Sh Hm1 Hj). exact H1.
    + apply (entry_not_none i s m2 j Sh Hm2 Hj). exact H2.
  - intros j m1 m2 t1 t2 Hj Hm1 Hm2 Hlt E1 E2.
    destruct (entry_some i s m1 j t1 Sh Hm1 Hj E1) as [<- Hn1].
    destruct (entry_some i s m2 j t2 Sh Hm2 Hj E2) as [<- Hn2].
    apply (i_ord i s I j m1 m2); assumption.
  - intros m j1 j2 t1 t2 Hm Hj1 Hj2 Hne E1 E2.
    destruct (entry_some i s m j1 t1 Sh Hm Hj1 E1) as [<- Hn1].
    destruct (entry_some i s m j2 t2 Sh Hm Hj2 E2) as [<- Hn2].
    apply (i_mach i s I m j1 j2); assumption.
Qed.

Lemma inv_makespan i s : WF i -> Inv i s -> done s = true ->
  FlowShop.is_makespan (nJ i) (nS i) (nM i) (pt i) (schedule_of i s) (- reward_of i s).
Proof.
  intros W I Hdn. pose proof (i_shape i s I) as Sh. pose proof (proj1 (i_done i s I) Hdn) as Hloc.
  pose proof (wf_J i W) as HJ. pose proof (wf_S i W) as HS. pose proof (nT_pos i W) as HT.
  unfold reward_of. rewrite Z.opp_involutive.
  set (inner := fun m => maxl (map (fun j => sc s m j + jdur i j m) (seq 0 (nJ i)))).
  set (X := maxl (map inner (seq 0 (nT i)))).
  (* every real cell is below X *)
  assert (Hub : forall m j, (m < nT i)%nat -> (j < nJ i)%nat -> sc s m j + pt i j m <= X).
  { intros m j Hm Hj. transitivity (inner m).
    - unfold inner. apply maxl_ge. apply in_map_iff. exists j. split; [|apply in_seq; lia].
      rewrite jdur_job by assumption. reflexivity.
    - unfold X. apply maxl_ge. apply in_map_iff. exists m. split; [reflexivity|apply in_seq; lia]. }
  (* some real cell exists, so X >= 0 *)
  destruct (i_ex i s I 0%nat 0%nat) as [m1 [Hm1 [_ Hn1]]]; [lia|rewrite Hloc by lia; lia|].
  assert (HX0 : 0 <= X).
  { pose proof (Hub m1 0%nat Hm1 ltac:(lia)). destruct (i_ent i s I m1 0%nat Hm1 ltac:(lia) Hn1) as [[H0 _] _].
    pose proof (wf_dur i W 0%nat m1 ltac:(lia) Hm1). lia. }
  (* X is attained at a cell, which cannot be an empty one *)
  assert (Hat : exists m j, (m < nT i)%nat /\ (j < nJ i)%nat /\ X = sc s m j + pt i j m).
  { assert (In X (map inner (seq 0 (nT i)))) as Hin.
    { apply maxl_in. destruct (nT i); [lia|discriminate]. }
    apply in_map_iff in Hin as [m [Em Hm]]. apply in_seq in Hm.
    assert (In (inner m) (map (fun j => sc s m j + jdur i j m) (seq 0 (nJ i)))) as Hin2.
    { apply maxl_in. destruct (nJ i); [lia|discriminate]. }
    apply in_map_iff in Hin2 as [j [Ej Hj]]. apply in_seq in Hj.
    exists m, j. split; [lia|]. split; [lia|]. rewrite <- Em, <- Ej. rewrite jdur_job by (try assumption; lia). reflexivity. }
  destruct Hat as [m [j [Hm [Hj EX]]]].
  split.
  - assert (Hn : sc s m j <> sentinel).
    { intros E. rewrite E in EX. pose proof (wf_dur i W j m Hj Hm). unfold sentinel in EX. lia. }
    exists m, j, (sc s m j). split; [exact Hm|]. split; [exact Hj|]. split; [|exact EX].
    rewrite entry_schedule_of by assumption. destruct (Z.eqb_spec (sc s m j) sentinel); [contradiction|reflexivity].
  - intros m' j' t Hm' Hj' E. destruct (entry_some i s m' j' t Sh Hm' Hj' E) as [<- _]. apply Hub; assumption.
Qed.

(* ------------------------------------------------------------------ the property *)
Definition FFSP_valid_statement : Prop :=
  forall (i : inst) (acts : list nat),
    wfb i = true -> adm i (reset i) acts = true ->
    exists s, run i (reset i) acts = Some s /\
      (done s = true ->
         FlowShop.valid (nJ i) (nS i) (nM i) (pt i) (schedule_of i s) /\
         FlowShop.is_makespan (nJ i) (nS i) (nM i) (pt i) (schedule_of i s) (- reward_of i s)).

Theorem FFSP_valid : FFSP_valid_statement.
Proof.
  intros i acts Hwf Hadm. pose proof (wfb_WF i Hwf) as W.
  destruct (run_inv i W acts _ (reset_inv i W) (reset_dec i W) Hadm) as [s [Hr [I D]]].
  exists s. split; [exact Hr|]. intros Hdn. split; [apply inv_valid|apply inv_makespan]; assumption.
Qed.

(* done is reached exactly when every job went through every stage: J*S real-job actions *)
Theorem FFSP_done_iff i acts :
  wfb i = true -> adm i (reset i) acts = true ->
  exists s, run i (reset i) acts = Some s /\
    (done s = true <-> forall j, (j < nJ i)%nat -> loc s j = nS i).
Proof.
  intros Hwf Hadm. pose proof (wfb_WF i Hwf) as W.
  destruct (run_inv i W acts _ (reset_inv i W) (reset_dec i W) Hadm) as [s [Hr [I D]]].
  exists s. split; [exact Hr|apply (i_done i s I)].
Qed.

(* the duration bound of wfb is needed: the code adds durations to the -999999 "empty" marker before taking the
   maximum, so a huge duration on a machine the job never visits dominates the true makespan *)
Definition big_i : inst := {| nJ := 1; nS := 1; nM := 2; rt := [[1; 2000000]]; mtab := [0; 1]%nat; flat := true |}.
Theorem reward_needs_duration_bound :
  adm big_i (reset big_i) [0%nat] = true /\
  exists s, run big_i (reset big_i) [0%nat] = Some s /\ done s = true /\
    schedule_of big_i s = [[Some 0]; [None]] /\ reward_of big_i s = - 1000001 /\
    FlowShop.is_makespan 1 1 2 (pt big_i) (schedule_of big_i s) 1.
Proof.
  split; [vm_compute; reflexivity|]. eexists. split; [vm_compute; reflexivity|].
  split; [reflexivity|]. split; [reflexivity|]. split; [reflexivity|].
  apply FlowShop.is_makespanb_sound. vm_compute. reflexivity.
Qed.

(* non-vacuity of FFSP_valid: the concrete episode of FFSP.ex_run satisfies all hypotheses and is finished *)
Example FFSP_valid_nonvacuous :
  wfb ex_i = true /\ adm ex_i (reset ex_i) ex_acts = true /\
  exists s, run ex_i (reset ex_i) ex_acts = Some s /\ done s = true.
Proof. split; [vm_compute; reflexivity|]. split; [vm_compute; reflexivity|]. eexists. split; vm_compute; reflexivity. Qed.

End FFSPProofs.
