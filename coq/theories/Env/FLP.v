(* C08 -- FLPEnv (rl4co/envs/graph/flp/env.py), one batch row, variable by variable.

   td["chosen"]        -> f_chosen : list bool
   td["i"]             -> f_i      : Z
   td["distances"]     -> f_dist   : list Z     (scaled integers; what the policy is shown)
   td["action_mask"]   -> f_mask
   td["done"]          -> f_done
   td["orig_distances"]-> f_D (instance data, never computed here), td["to_choose"] -> f_q

   _step:   chosen[a] = True
            done = i >= to_choose - 1                         (i before the increment)
            cur_min_dist = gather(orig_distances, chosen.nonzero()).view(B,-1,n).min(dim=1)
                           -- rows of D indexed by the chosen locations (index order), min per column
            action_mask = ~chosen ;  i = i + 1
   _reset:  chosen = 0, i = 0, action_mask = 1, distances = td["distances"] (generator: constant fill)
   _get_reward: -(the same column minima, recomputed from chosen).sum(-1)                                *)
From Coq Require Import ZArith List Bool Lia ZifyBool Arith.
From RL4CO Require Import Env.Selection.
Import ListNotations.
Open Scope Z_scope.

Record flp_inst := { f_n : nat; f_D : list (list Z); f_dist0 : list Z; f_q : Z }.
Definition Dat (I : flp_inst) (c p : nat) : Z := nth p (nth c (f_D I) []) 0.

Record flp_st := { f_chosen : list bool; f_i : Z; f_dist : list Z; f_mask : list bool; f_done : bool }.

Definition flp_reset (I : flp_inst) : flp_st :=
  {| f_chosen := repeat false (f_n I); f_i := 0; f_dist := f_dist0 I;
     f_mask := repeat true (f_n I); f_done := false |}.

(* chosen.nonzero(): indices of the True entries, ascending *)
Definition nonzero (l : list bool) : list nat := filter (fun k => nth k l false) (seq 0 (length l)).
Definition minl (x : Z) (l : list Z) : Z := fold_left Z.min l x.

(* gather rows of D at the chosen indices, view as [k, n], min over the k rows; raises when k = 0 *)
Definition flp_curmin (I : flp_inst) (chosen : list bool) : option (list Z) :=
  match nonzero chosen with
  | [] => None
  | c0 :: cs => Some (map (fun p => minl (Dat I c0 p) (map (fun c => Dat I c p) cs)) (seq 0 (length chosen)))
  end.

Definition flp_step (I : flp_inst) (s : flp_st) (a : nat) : option flp_st :=
  if (length (f_chosen s) <=? a)%nat then None            (* chosen[arange, selected] = True: IndexError *)
  else
    let chosen := set_nth a true (f_chosen s) in
    match flp_curmin I chosen with
    | None => None
    | Some d => Some {| f_chosen := chosen; f_i := f_i s + 1; f_dist := d;
                        f_mask := map negb chosen; f_done := f_q I - 1 <=? f_i s |}
    end.

Definition flp_reward (I : flp_inst) (s : flp_st) : option Z :=
  match flp_curmin I (f_chosen s) with None => None | Some d => Some (- sumZ d) end.

(* documented input format: n x n matrix, quota at least 1, initial distances of length n *)
Definition flp_wfb (I : flp_inst) : bool :=
  (1 <=? f_q I) && Nat.eqb (length (f_D I)) (f_n I) &&
  forallb (fun row => Nat.eqb (length row) (f_n I)) (f_D I) && Nat.eqb (length (f_dist0 I)) (f_n I).
Definition flp_wf (I : flp_inst) : Prop := flp_wfb I = true.

Definition flp_run (I : flp_inst) := run_adm (flp_step I) f_mask.
Definition flp_run_all (I : flp_inst) := run_all (flp_step I).

(* ------------------------------------------------------------------ simulation into the shared core *)
Definition flp_mask0 (I : flp_inst) : list bool := repeat true (f_n I).
Definition flp_inv (I : flp_inst) (s : flp_st) : Prop :=
  length (f_chosen s) = f_n I /\ f_mask s = map negb (f_chosen s).

Lemma flp_wf_quota I : flp_wf I -> 1 <= f_q I.
Proof.
  unfold flp_wf, flp_wfb. intros H. apply andb_prop in H as [H _]. apply andb_prop in H as [H _].
  apply andb_prop in H as [H _]. lia.
Qed.

Lemma nonzero_In l c : In c (nonzero l) <-> nth c l false = true.
Proof.
  unfold nonzero. rewrite filter_In. split; [tauto|]. intros H. split; [|exact H].
  apply in_seq. pose proof (nth_true_lt _ _ H). lia.
Qed.

Lemma map_negb_repeat_false n : map negb (repeat false n) = repeat true n.
Proof. induction n; simpl; congruence. Qed.

Lemma flp_reset_ok I : flp_wf I ->
  flp_inv I (flp_reset I) /\ f_mask (flp_reset I) = flp_mask0 I /\ f_i (flp_reset I) = 0 /\
  f_done (flp_reset I) = false.
Proof.
  intros _. unfold flp_inv, flp_reset, flp_mask0. cbn [f_chosen f_mask f_i f_done].
  rewrite repeat_length, map_negb_repeat_false. repeat split; reflexivity.
Qed.

Lemma flp_step_ok I s a : flp_wf I -> flp_inv I s -> (a < length (f_mask s))%nat ->
  exists s', flp_step I s a = Some s' /\ flp_inv I s' /\ f_mask s' = set_nth a false (f_mask s) /\
             f_i s' = f_i s + 1 /\ f_done s' = (f_q I - 1 <=? f_i s).
Proof.
  intros _ [Hlen Hmask] Hlt. rewrite Hmask, map_length in Hlt.
  unfold flp_step. destruct (Nat.leb (length (f_chosen s)) a) eqn:E; [apply Nat.leb_le in E; lia|].
  destruct (flp_curmin I (set_nth a true (f_chosen s))) as [d|] eqn:Hc.
  - eexists. split; [reflexivity|]. unfold flp_inv. cbn [f_chosen f_mask f_i f_done].
    rewrite set_nth_length. rewrite Hmask, map_set_nth. repeat split; auto.
  - exfalso. unfold flp_curmin in Hc.
    destruct (nonzero (set_nth a true (f_chosen s))) as [|c0 cs] eqn:Hnz; [|discriminate].
    assert (Hin : In a (nonzero (set_nth a true (f_chosen s)))).
    { apply nonzero_In. rewrite nth_set_nth, Nat.eqb_refl.
      replace (Nat.ltb a (length (f_chosen s))) with true by (symmetry; apply Nat.ltb_lt; lia). reflexivity. }
    rewrite Hnz in Hin. destruct Hin.
Qed.

(* ------------------------------------------------------------------ quota theorems (instances of SelCore) *)
Lemma flp_allowed_range I as_ :
  Forall (fun a => nth a (flp_mask0 I) false = true) as_ -> Forall (fun a => (a < f_n I)%nat) as_.
Proof.
  apply Forall_impl. intros a H. apply nth_true_lt in H. unfold flp_mask0 in H. rewrite repeat_length in H. exact H.
Qed.

Theorem flp_sel_quota I as_ s : flp_wf I ->
  flp_run I (flp_reset I) as_ = Some s -> f_done s = true ->
  (forall k s', (0 < k < length as_)%nat -> flp_run I (flp_reset I) (firstn k as_) = Some s' -> f_done s' = false) ->
  Z.of_nat (length as_) = f_q I /\ NoDup as_ /\ Forall (fun a => (a < f_n I)%nat) as_.
Proof.
  intros Hwf Hrun Hd Hf.
  destruct (sel_quota flp_inst flp_st flp_wf flp_reset flp_step f_mask f_i f_done f_q flp_mask0 flp_inv
              flp_wf_quota flp_reset_ok flp_step_ok I as_ s Hwf Hrun Hd Hf) as [H1 [H2 H3]].
  repeat split; auto. apply flp_allowed_range. exact H3.
Qed.

Theorem flp_done_iff I as_ s : flp_wf I -> flp_run I (flp_reset I) as_ = Some s ->
  f_done s = negb (Nat.eqb (length as_) 0) && (f_q I <=? Z.of_nat (length as_)).
Proof.
  exact (sel_done_iff flp_inst flp_st flp_wf flp_reset flp_step f_mask f_i f_done f_q flp_mask0 flp_inv
           flp_reset_ok flp_step_ok I as_ s).
Qed.

Theorem flp_distinct_in_range I as_ s : flp_wf I -> flp_run I (flp_reset I) as_ = Some s ->
  NoDup as_ /\ Forall (fun a => (a < f_n I)%nat) as_ /\
  f_mask s = clear_all (repeat true (f_n I)) as_ /\ f_i s = Z.of_nat (length as_).
Proof.
  intros Hwf Hrun.
  destruct (sel_distinct_allowed flp_inst flp_st flp_wf flp_reset flp_step f_mask f_i f_done f_q flp_mask0 flp_inv
              flp_reset_ok flp_step_ok I as_ s Hwf Hrun) as [H1 [H2 [H3 H4]]].
  repeat split; auto. apply flp_allowed_range. exact H2.
Qed.

Theorem flp_progress I as_ s a : flp_wf I -> flp_run I (flp_reset I) as_ = Some s ->
  nth a (f_mask s) false = true -> exists s', flp_step I s a = Some s'.
Proof.
  exact (sel_progress flp_inst flp_st flp_wf flp_reset flp_step f_mask f_i f_done f_q flp_mask0 flp_inv
           flp_reset_ok flp_step_ok I as_ s a).
Qed.

Theorem flp_no_dead_end I as_ s : flp_wf I -> flp_run I (flp_reset I) as_ = Some s ->
  Z.of_nat (length as_) < f_q I -> f_q I <= Z.of_nat (f_n I) -> exists a, nth a (f_mask s) false = true.
Proof.
  intros Hwf Hrun Hlt Hq.
  apply (sel_no_dead_end flp_inst flp_st flp_wf flp_reset flp_step f_mask f_i f_done f_q flp_mask0 flp_inv
           flp_reset_ok flp_step_ok I as_ s Hwf Hrun Hlt).
  unfold flp_mask0. rewrite count_true_repeat_true. exact Hq.
Qed.

Theorem flp_episode_completes I as_ s : flp_wf I -> f_q I <= Z.of_nat (f_n I) ->
  flp_run I (flp_reset I) as_ = Some s -> Z.of_nat (length as_) <= f_q I ->
  exists ext s', flp_run I (flp_reset I) (as_ ++ ext) = Some s' /\ Z.of_nat (length (as_ ++ ext)) = f_q I.
Proof.
  intros Hwf Hq Hrun Hle.
  apply (sel_episode_completes flp_inst flp_st flp_wf flp_reset flp_step f_mask f_i f_done f_q flp_mask0 flp_inv
           flp_reset_ok flp_step_ok I Hwf) with (fuel := Z.to_nat (f_q I - Z.of_nat (length as_))) (s := s).
  - unfold flp_mask0. rewrite count_true_repeat_true. exact Hq.
  - exact Hrun.
  - lia.
Qed.

(* ------------------------------------------------------------------ bookkeeping: distances and reward *)
(* independent reading of "nearest chosen facility": v is the least D a p over the selected a *)
Definition is_min_over (I : flp_inst) (as_ : list nat) (p : nat) (v : Z) : Prop :=
  (exists a, In a as_ /\ v = Dat I a p) /\ (forall a, In a as_ -> v <= Dat I a p).
(* executable form used by the correspondence (folds over the action list in selection order) *)
Definition spec_mindist (I : flp_inst) (as_ : list nat) (p : nat) : Z :=
  match as_ with
  | [] => nth p (f_dist0 I) 0
  | a :: r => fold_left (fun m c => Z.min m (Dat I c p)) r (Dat I a p)
  end.

Lemma minl_spec l : forall x, (minl x l = x \/ In (minl x l) l) /\ minl x l <= x /\ (forall y, In y l -> minl x l <= y).
Proof.
  unfold minl. induction l as [|h t IH]; intros x; simpl.
  - repeat split; auto; try lia; try (intros y []); try tauto.
  - destruct (IH (Z.min x h)) as [H1 [H2 H3]]. split; [|split].
    + destruct H1 as [H1|H1]; [|right; right; exact H1].
      rewrite H1. destruct (Z.min_spec x h) as [[_ E]|[_ E]]; rewrite E; [left; reflexivity | right; left; reflexivity].
    + lia.
    + intros y [<-|Hy]; [lia | apply H3; exact Hy].
Qed.

Lemma min_over_list (f : nat -> Z) c0 cs :
  let v := minl (f c0) (map f cs) in (exists c, In c (c0 :: cs) /\ v = f c) /\ (forall c, In c (c0 :: cs) -> v <= f c).
Proof.
  intros v. destruct (minl_spec (map f cs) (f c0)) as [H1 [H2 H3]]. fold v in H1, H2, H3. split.
  - destruct H1 as [H1|H1].
    + exists c0. split; [left; reflexivity | exact H1].
    + apply in_map_iff in H1 as [c [E Hc]]. exists c. split; [right; exact Hc | symmetry; exact E].
  - intros c [<-|Hc]; [exact H2 | apply H3, in_map; exact Hc].
Qed.

Lemma is_min_unique I as_ p v v' : is_min_over I as_ p v -> is_min_over I as_ p v' -> v = v'.
Proof.
  intros [[a [Ha Ea]] Hle] [[a' [Ha' Ea']] Hle']. pose proof (Hle a' Ha'). pose proof (Hle' a Ha). lia.
Qed.

Lemma spec_mindist_is_min I a r p : is_min_over I (a :: r) p (spec_mindist I (a :: r) p).
Proof.
  unfold spec_mindist.
  replace (fold_left (fun m c => Z.min m (Dat I c p)) r (Dat I a p))
    with (minl (Dat I a p) (map (fun c => Dat I c p) r)).
  - exact (min_over_list (fun c => Dat I c p) a r).
  - unfold minl. generalize (Dat I a p). induction r as [|h t IH]; intros x; simpl; auto.
Qed.

(* what any successful run (mask-confined or not) leaves in [chosen] and [distances] *)
Lemma flp_step_shape I s a s' : flp_step I s a = Some s' ->
  (a < length (f_chosen s))%nat /\ f_chosen s' = set_nth a true (f_chosen s) /\
  flp_curmin I (f_chosen s') = Some (f_dist s').
Proof.
  unfold flp_step. destruct (Nat.leb (length (f_chosen s)) a) eqn:E; [discriminate|].
  apply Nat.leb_gt in E.
  destruct (flp_curmin I (set_nth a true (f_chosen s))) as [d|] eqn:Hc; [|discriminate].
  intros H. injection H as <-. cbn [f_chosen f_dist]. auto.
Qed.

Lemma flp_run_all_shape I : forall as_ s0 s, flp_run_all I s0 as_ = Some s ->
  f_chosen s = set_all (f_chosen s0) as_ /\ Forall (fun a => (a < length (f_chosen s0))%nat) as_ /\
  match as_ with [] => s = s0 | _ => flp_curmin I (f_chosen s) = Some (f_dist s) end.
Proof.
  unfold flp_run_all. induction as_ as [|a r IH]; intros s0 s H; simpl in H.
  - injection H as <-. repeat split; auto.
  - destruct (flp_step I s0 a) as [s1|] eqn:Hs; [|discriminate].
    destruct (flp_step_shape I s0 a s1 Hs) as [Hlt [Hch Hcm]].
    destruct (IH s1 s H) as [H1 [H2 H3]].
    split; [|split].
    + rewrite H1, Hch. reflexivity.
    + constructor; [exact Hlt|]. rewrite Hch, set_nth_length in H2. exact H2.
    + destruct r as [|b r']; [subst s; exact Hcm | exact H3].
Qed.

Theorem flp_bookkeeping I as_ s : flp_wf I -> flp_run_all I (flp_reset I) as_ = Some s -> as_ <> [] ->
  length (f_dist s) = f_n I /\
  (forall p, (p < f_n I)%nat -> is_min_over I as_ p (nth p (f_dist s) 0)) /\
  f_dist s = map (spec_mindist I as_) (seq 0 (f_n I)) /\
  flp_reward I s = Some (- sumZ (f_dist s)).
Proof.
  intros _ Hrun Hne.
  destruct (flp_run_all_shape I as_ _ s Hrun) as [Hch [Hrng Hcm]].
  assert (Hcm' : flp_curmin I (f_chosen s) = Some (f_dist s)) by (destruct as_; [congruence | exact Hcm]).
  clear Hcm.
  cbn [flp_reset f_chosen] in Hch, Hrng. rewrite repeat_length in Hrng.
  assert (Hlen : length (f_chosen s) = f_n I) by (rewrite Hch, set_all_length, repeat_length; reflexivity).
  assert (Hin : forall c, nth c (f_chosen s) false = true <-> In c as_).
  { intros c. rewrite Hch, nth_set_all, repeat_length.
    replace (nth c (repeat false (f_n I)) false) with false by (symmetry; apply nth_repeat).
    simpl. rewrite andb_true_iff, memb_In, Nat.ltb_lt. split; [tauto|].
    intros H. split; [exact H|]. rewrite Forall_forall in Hrng. apply Hrng. exact H. }
  unfold flp_curmin in Hcm'. destruct (nonzero (f_chosen s)) as [|c0 cs] eqn:Hnz; [discriminate|].
  injection Hcm' as Hd. rewrite Hlen in Hd.
  assert (Hmin : forall p, (p < f_n I)%nat -> is_min_over I as_ p (nth p (f_dist s) 0)).
  { intros p Hp. rewrite <- Hd. rewrite nth_map_seq by exact Hp.
    destruct (min_over_list (fun c => Dat I c p) c0 cs) as [[c [Hc Ec]] Hle].
    rewrite <- Hnz in Hc, Hle. split.
    - exists c. split; [apply Hin, nonzero_In, Hc | exact Ec].
    - intros a Ha. apply Hle. apply nonzero_In, Hin. exact Ha. }
  split; [rewrite <- Hd, map_length, seq_length; reflexivity|].
  split; [exact Hmin|]. split.
  - apply (list_eq_nth 0).
    + rewrite <- Hd, !map_length. reflexivity.
    + intros j Hj. rewrite <- Hd, map_length, seq_length in Hj.
      rewrite (nth_map_seq (spec_mindist I as_)) by exact Hj.
      apply (is_min_unique I as_ j); [apply Hmin; exact Hj|].
      destruct as_ as [|a0 r0]; [congruence|]. apply spec_mindist_is_min.
  - unfold flp_reward, flp_curmin. rewrite Hnz, Hlen, Hd. reflexivity.
Qed.

(* before the first selection the env shows whatever the instance carried (generator: a constant fill) *)
Lemma flp_bookkeeping_reset I : f_dist (flp_reset I) = f_dist0 I.
Proof. reflexivity. Qed.

(* ------------------------------------------------------------------ non-vacuity / executable sanity *)
Definition flp_ex : flp_inst :=
  {| f_n := 4; f_D := [[0; 5; 9; 13]; [5; 0; 4; 8]; [9; 4; 0; 4]; [13; 8; 4; 0]]; f_dist0 := [99; 99; 99; 99]; f_q := 2 |}.
Example flp_ex_wf : flp_wf flp_ex. Proof. reflexivity. Qed.
Example flp_ex_run :
  option_map (fun s => (f_dist s, f_done s, f_mask s)) (flp_run flp_ex (flp_reset flp_ex) [3%nat; 1%nat])
  = Some ([5; 0; 4; 0], true, [true; false; true; false]) /\
  option_map f_done (flp_run flp_ex (flp_reset flp_ex) [3%nat]) = Some false /\
  option_map (flp_reward flp_ex) (flp_run flp_ex (flp_reset flp_ex) [3%nat; 1%nat]) = Some (Some (-9)).
Proof. vm_compute. repeat split; reflexivity. Qed.

(* the hypothesis 1 <= quota is needed: with quota 0 the code still selects one item before it says done *)
Theorem flp_quota_zero_refuted : exists I as_ s,
  f_q I = 0 /\ flp_run I (flp_reset I) as_ = Some s /\ f_done s = true /\ length as_ = 1%nat /\
  f_done (flp_reset I) = false.
Proof.
  exists {| f_n := 2; f_D := [[0; 1]; [1; 0]]; f_dist0 := [9; 9]; f_q := 0 |}, [0%nat].
  eexists. vm_compute. repeat split; reflexivity.
Qed.

(* ------------------------------------------------------------------ batches: per-row quotas *)
(* FLP in a lockstep batch with the documented [B,1] quota shape (B x B done matrix).  Row 0 (quota 1) sits
   next to row 1 (quota 3): the loop runs until *all* entries are true, row 0 is offered (and must take)
   further unchosen locations, and ends with 3 facilities -- its reward is that of 3 facilities. *)
Definition flp_brun := brun flp_inst flp_st flp_step f_mask f_i f_q.
Theorem flp_batch_quota_refuted : exists Is steps ss m,
  Forall flp_wf Is /\
  flp_brun Is (map flp_reset Is) (map (fun _ => [false]) Is) steps = Some (ss, m) /\ all_done m = true /\
  exists r I s, nth_error Is r = Some I /\ nth_error ss r = Some s /\
    Z.of_nat (count_true (f_chosen s)) <> f_q I /\
    (* the same first action on its own already finishes the row, with a different reward *)
    exists s1, flp_run I (flp_reset I) (firstn 1 (map (fun acts => nth r acts 0%nat) steps)) = Some s1 /\
               f_done s1 = true /\ flp_reward I s1 <> flp_reward I s.
Proof.
  pose (I1 := {| f_n := 4; f_D := [[0; 5; 9; 13]; [5; 0; 4; 8]; [9; 4; 0; 4]; [13; 8; 4; 0]];
                 f_dist0 := [99; 99; 99; 99]; f_q := 1 |}).
  pose (I3 := {| f_n := 4; f_D := [[0; 5; 9; 13]; [5; 0; 4; 8]; [9; 4; 0; 4]; [13; 8; 4; 0]];
                 f_dist0 := [99; 99; 99; 99]; f_q := 3 |}).
  exists [I1; I3], [[0; 0]; [1; 1]; [3; 2]]%nat.
  eexists. eexists. split; [repeat constructor|].
  split; [vm_compute; reflexivity|]. split; [vm_compute; reflexivity|].
  exists 0%nat. eexists. eexists. split; [reflexivity|]. split; [reflexivity|].
  split; [vm_compute; discriminate|].
  eexists. split; [vm_compute; reflexivity|]. split; [reflexivity|]. vm_compute. discriminate.
Qed.
