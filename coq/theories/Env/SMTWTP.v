(* SMTWTP -- rl4co/envs/scheduling/smtwtp/env.py (SMTWTPEnv._reset, _step, _get_reward), one batch row.

   Model (as coded): node 0 is the dummy start node; `action_mask` (called `available` in the code) starts as
   [0,1,...,1]; a step scatters 0 at the chosen index, adds the chosen job's processing time to
   `current_time`, and sets done = (count_nonzero(available) <= 0).  Nothing in _step or _get_reward is
   batch-global.  An index outside the mask row makes `scatter` raise: step = None.
   Numbers are integers (the harness scales dyadic data); only + - max * occur.

   Spec: an episode is a permutation of the jobs 1..n; the objective is the total weighted tardiness
   sum_k w(a_k) * max(0, C_k - d(a_k)) with C_k the completion time of the k-th processed job. *)
From Coq Require Import ZArith List Bool Lia ZifyBool Arith Permutation.
From RL4CO Require Import Base.FFSPLists.
Import ListNotations.
Open Scope Z_scope.

Module SMTWTP.

Record inst := { n_job : nat; due : list Z; wgt : list Z; ptime : list Z }.

(* generator format: three rows of length n+1 (entry 0 belongs to the dummy node), at least one job *)
Definition wfb (i : inst) : bool :=
  (1 <=? n_job i)%nat && (length (due i) =? S (n_job i))%nat && (length (wgt i) =? S (n_job i))%nat
  && (length (ptime i) =? S (n_job i))%nat.

Record st := { cur_job : nat; cur_time : Z; avail : list bool; done : bool }.

Definition reset (i : inst) : st :=
  {| cur_job := 0; cur_time := 0; avail := false :: repeat true (n_job i); done := false |}.

Definition mask (s : st) : list bool := avail s.

Definition step (i : inst) (s : st) (a : nat) : option st :=
  if (a <? length (avail s))%nat && (a <? length (ptime i))%nat then
    let av := set_nth a false (avail s) in
    Some {| cur_job := a; cur_time := cur_time s + nth a (ptime i) 0; avail := av;
            done := (count_true av <=? 0)%nat |}
  else None.

Fixpoint run (i : inst) (s : st) (acts : list nat) : option st :=
  match acts with
  | [] => Some s
  | a :: r => match step i s a with Some s' => run i s' r | None => None end
  end.

(* every action lies inside the mask of the state it is taken in *)
Fixpoint adm (i : inst) (s : st) (acts : list nat) : bool :=
  match acts with
  | [] => true
  | a :: r => nth a (mask s) false && match step i s a with Some s' => adm i s' r | None => false end
  end.

(* _get_reward(td, actions): gather, cumsum, clamp at 0, weight, sum, negate *)
Definition gather (l : list Z) (acts : list nat) : list Z := map (fun a => nth a l 0) acts.
Fixpoint cumsum_from (acc : Z) (l : list Z) : list Z :=
  match l with [] => [] | x :: r => (acc + x) :: cumsum_from (acc + x) r end.
Definition reward (i : inst) (acts : list nat) : Z :=
  let presum := cumsum_from 0 (gather (ptime i) acts) in
  let tard := map2 (fun c d => let t := c - d in if t <? 0 then 0 else t) presum (gather (due i) acts) in
  - sumZ (map2 Z.mul (gather (wgt i) acts) tard).

(* ---------------- specification ---------------- *)
Fixpoint weighted_tardiness (i : inst) (t : Z) (acts : list nat) : Z :=
  match acts with
  | [] => 0
  | a :: r => let c := t + nth a (ptime i) 0 in
              nth a (wgt i) 0 * Z.max 0 (c - nth a (due i) 0) + weighted_tardiness i c r
  end.

(* ---------------- proofs ---------------- *)
Record Inv (i : inst) (p : list nat) (s : st) : Prop := {
  inv_len : length (avail s) = S (n_job i);
  inv_av : forall j, nth j (avail s) false = true <-> ((1 <= j <= n_job i)%nat /\ ~ In j p);
  inv_nodup : NoDup p;
  inv_rng : forall a, In a p -> (1 <= a <= n_job i)%nat;
  inv_cnt : (count_true (avail s) + length p = n_job i)%nat;
  inv_done : done s = (length p =? n_job i)%nat;
}.

Lemma count_true_repeat n : count_true (repeat true n) = n.
Proof. induction n; simpl; auto. Qed.

Lemma reset_inv i : wfb i = true -> Inv i [] (reset i).
Proof.
  intros Hwf. unfold wfb in Hwf.
  constructor; cbn [reset avail done length].
  - rewrite repeat_length. reflexivity.
  - intros [|j]; cbn [nth].
    + split; [discriminate|]. intros [H _]. lia.
    + split.
      * intros H. split; [|intros []].
        destruct (Nat.ltb j (n_job i)) eqn:E; [apply Nat.ltb_lt in E; lia|].
        apply Nat.ltb_ge in E. rewrite nth_overflow in H by (rewrite repeat_length; exact E). discriminate.
      * intros [H _]. apply nth_repeat_lt. lia.
  - constructor.
  - intros a [].
  - cbn [count_true]. rewrite count_true_repeat. lia.
  - symmetry. apply Nat.eqb_neq. lia.
Qed.

Lemma step_inv i p s a :
  wfb i = true -> Inv i p s -> nth a (mask s) false = true ->
  exists s', step i s a = Some s' /\ Inv i (p ++ [a]) s'.
Proof.
  intros Hwf [Hlen Hav Hnd Hrng Hcnt Hdone] Hm. unfold mask in Hm.
  pose proof (proj1 (Hav a) Hm) as [Ha Hnin].
  unfold step. unfold wfb in Hwf.
  assert (E1 : (a <? length (avail s))%nat = true) by (apply Nat.ltb_lt; lia).
  assert (E2 : (a <? length (ptime i))%nat = true) by (apply Nat.ltb_lt; lia).
  rewrite E1, E2. cbn [andb]. eexists. split; [reflexivity|].
  destruct (count_true_set_false a (avail s) Hm) as [Hc1 Hc2].
  constructor; cbn [avail done].
  - rewrite set_nth_length. exact Hlen.
  - intros j. rewrite nth_set_nth. rewrite E1.
    destruct (Nat.eqb j a) eqn:E; cbn [andb].
    + apply Nat.eqb_eq in E. subst j. split; [discriminate|]. intros [_ H]. exfalso. apply H.
      apply in_or_app. right. left. reflexivity.
    + apply Nat.eqb_neq in E. rewrite Hav. rewrite in_app_iff. simpl. intuition.
  - apply NoDup_rev in Hnd. rewrite <- (rev_involutive (p ++ [a])). apply NoDup_rev.
    rewrite rev_app_distr. simpl. constructor; [|exact Hnd]. rewrite <- in_rev. exact Hnin.
  - intros b Hb. apply in_app_iff in Hb as [Hb|[<-|[]]]; [apply Hrng; exact Hb|exact Ha].
  - rewrite Hc1, app_length. simpl. lia.
  - rewrite Hc1, app_length. simpl.
    destruct (Nat.eqb (length p + 1) (n_job i)) eqn:E.
    + apply Nat.eqb_eq in E. apply Nat.leb_le. lia.
    + apply Nat.eqb_neq in E. apply Nat.leb_gt. lia.
Qed.

Lemma run_inv i : wfb i = true -> forall acts p s,
  Inv i p s -> adm i s acts = true -> exists s', run i s acts = Some s' /\ Inv i (p ++ acts) s'.
Proof.
  intros Hwf acts. induction acts as [|a r IH]; intros p s HI Hadm.
  - exists s. rewrite app_nil_r. split; [reflexivity|exact HI].
  - cbn [adm] in Hadm. apply andb_prop in Hadm as [Hm Hadm].
    destruct (step_inv i p s a Hwf HI Hm) as [s1 [Hs HI1]].
    cbn [run]. rewrite Hs in *. destruct (IH _ _ HI1 Hadm) as [s' [Hr HI']].
    exists s'. split; [exact Hr|]. rewrite <- app_assoc in HI'. exact HI'.
Qed.

(* every admitted action list can be executed (no crash), the dummy node is never offered, the episode is
   done exactly when n actions were taken, and then it is a permutation of the jobs 1..n *)
Theorem SMTWTP_perm i acts :
  wfb i = true -> adm i (reset i) acts = true ->
  exists s, run i (reset i) acts = Some s /\
    nth 0 (mask s) false = false /\
    ~ In 0%nat acts /\ NoDup acts /\
    (done s = true <-> length acts = n_job i) /\
    (done s = true -> Permutation acts (seq 1 (n_job i))) /\
    (done s = true -> forall a, nth a (mask s) false = false).
Proof.
  intros Hwf Hadm.
  destruct (run_inv i Hwf acts [] (reset i) (reset_inv i Hwf) Hadm) as [s [Hr HI]].
  cbn [app] in HI. destruct HI as [Hlen Hav Hnd Hrng Hcnt Hdone].
  exists s. split; [exact Hr|]. repeat split.
  - destruct (nth 0 (mask s) false) eqn:E; [|reflexivity]. apply Hav in E. lia.
  - intros H. apply Hrng in H. lia.
  - exact Hnd.
  - rewrite Hdone. apply Nat.eqb_eq.
  - rewrite Hdone. intros H. apply Nat.eqb_eq. exact H.
  - intros Hd. rewrite Hdone in Hd. apply Nat.eqb_eq in Hd.
    apply NoDup_Permutation_bis; [exact Hnd| |].
    + rewrite seq_length. lia.
    + intros a Ha. apply in_seq. apply Hrng in Ha. lia.
  - intros Hd a. rewrite Hdone in Hd. apply Nat.eqb_eq in Hd.
    apply count_true_zero_nth. unfold mask. lia.
Qed.

(* the mask never offers the dummy node in any reachable state, done or not (prefix form) *)
Corollary SMTWTP_dummy_never_admitted i acts :
  wfb i = true -> adm i (reset i) (acts ++ [0%nat]) = false.
Proof.
  intros Hwf. destruct (adm i (reset i) (acts ++ [0%nat])) eqn:E; [|reflexivity]. exfalso.
  destruct (SMTWTP_perm i _ Hwf E) as [s [_ [_ [H _]]]]. apply H. apply in_or_app. right. left. reflexivity.
Qed.

(* reward-is-objective, for every action list *)
Lemma reward_gen i acts : forall t,
  sumZ (map2 Z.mul (gather (wgt i) acts)
          (map2 (fun c d => let x := c - d in if x <? 0 then 0 else x)
                (cumsum_from t (gather (ptime i) acts)) (gather (due i) acts)))
  = weighted_tardiness i t acts.
Proof.
  induction acts as [|a r IH]; intros t; [reflexivity|].
  cbn [gather map cumsum_from map2 sumZ weighted_tardiness]. fold (gather (wgt i) r) (gather (ptime i) r) (gather (due i) r).
  rewrite IH. cbv zeta.
  destruct (t + nth a (ptime i) 0 - nth a (due i) 0 <? 0) eqn:E;
    [rewrite Z.max_l by lia|rewrite Z.max_r by lia]; lia.
Qed.

Theorem SMTWTP_reward i acts : reward i acts = - weighted_tardiness i 0 acts.
Proof. unfold reward. rewrite reward_gen. reflexivity. Qed.

(* the state's clock is the completion time of the last processed job *)
Lemma run_time i : forall acts s s', run i s acts = Some s' ->
  cur_time s' = cur_time s + sumZ (gather (ptime i) acts).
Proof.
  induction acts as [|a r IH]; intros s s' H; cbn [run] in H.
  - inversion H. subst. simpl. lia.
  - destruct (step i s a) as [s1|] eqn:Es; [|discriminate].
    rewrite (IH _ _ H). unfold step in Es.
    destruct ((a <? length (avail s))%nat && (a <? length (ptime i))%nat); [|discriminate].
    inversion Es. subst s1. cbn [cur_time gather map sumZ]. fold (gather (ptime i) r). lia.
Qed.

(* ---------------- non-vacuity ---------------- *)
Definition ex_i : inst := {| n_job := 3; due := [0; 2; 3; 1]; wgt := [0; 1; 2; 3]; ptime := [0; 2; 1; 2] |}.
Example ex_adm : wfb ex_i = true /\ adm ex_i (reset ex_i) [2%nat; 3%nat; 1%nat] = true /\
  reward ex_i [2%nat; 3%nat; 1%nat] = -9.
Proof. vm_compute. repeat split. Qed.

End SMTWTP.
