(* C08 -- DPPEnv (rl4co/envs/eda/dpp/env.py) and MDPPEnv (eda/mdpp/env.py), one batch row.

   td["i"] -> d_i ; td["action_mask"] -> d_mask ; td["keepout"] -> d_keepout ; td["done"] -> d_done
   instance: td["probe"] (DPP: one cell index; MDPP: a boolean vector), the generator's td["action_mask"]
   (d_avail: False on keep-out cells and, for DPP, on the probing port), and env.max_decaps (d_q).

   DPPEnv._reset :  i = 0 ; action_mask = td["action_mask"] ; keepout = ~td["action_mask"]
   MDPPEnv._reset:  the same, then action_mask = logical_and(action_mask, ~probe) (keepout unchanged)
   _step (shared; MDPPEnv._step calls super()._step):
          available = action_mask.scatter(-1, action, 0) ; done = i >= max_decaps - 1 ; i = i + 1
   The decap simulator (_get_reward) is not part of C08 and is not modelled.                              *)
From Coq Require Import ZArith List Bool Lia ZifyBool Arith.
From RL4CO Require Import Env.Selection.
Import ListNotations.
Open Scope Z_scope.

Record dpp_st := { d_i : Z; d_mask : list bool; d_keepout : list bool; d_done : bool }.

(* the step both envs run; [q] = self.max_decaps *)
Definition eda_step (q : Z) (s : dpp_st) (a : nat) : option dpp_st :=
  if (length (d_mask s) <=? a)%nat then None           (* scatter: index out of bounds *)
  else Some {| d_i := d_i s + 1; d_mask := set_nth a false (d_mask s); d_keepout := d_keepout s;
               d_done := q - 1 <=? d_i s |}.

(* ------------------------------------------------------------------ DPP *)
Record dpp_inst := { d_probe : nat; d_avail : list bool; d_q : Z }.
Definition dpp_reset (I : dpp_inst) : dpp_st :=
  {| d_i := 0; d_mask := d_avail I; d_keepout := map negb (d_avail I); d_done := false |}.
Definition dpp_step (I : dpp_inst) := eda_step (d_q I).
Definition dpp_run (I : dpp_inst) := run_adm (dpp_step I) d_mask.

(* generator format: "action_mask eliminates the keepout regions and the probe location" *)
Definition dpp_wfb (I : dpp_inst) : bool :=
  (1 <=? d_q I) && Nat.ltb (d_probe I) (length (d_avail I)) && negb (nth (d_probe I) (d_avail I) false).
Definition dpp_wf (I : dpp_inst) : Prop := dpp_wfb I = true.

Definition eda_inv (keep : list bool) (s : dpp_st) : Prop := d_keepout s = keep.

Lemma dpp_wf_quota I : dpp_wf I -> 1 <= d_q I.
Proof. unfold dpp_wf, dpp_wfb. intros H. apply andb_prop in H as [H _]. apply andb_prop in H as [H _]. lia. Qed.

Lemma dpp_reset_ok I : dpp_wf I ->
  eda_inv (map negb (d_avail I)) (dpp_reset I) /\ d_mask (dpp_reset I) = d_avail I /\ d_i (dpp_reset I) = 0 /\
  d_done (dpp_reset I) = false.
Proof. intros _. unfold eda_inv. repeat split; reflexivity. Qed.

Lemma eda_step_ok keep q s a : eda_inv keep s -> (a < length (d_mask s))%nat ->
  exists s', eda_step q s a = Some s' /\ eda_inv keep s' /\ d_mask s' = set_nth a false (d_mask s) /\
             d_i s' = d_i s + 1 /\ d_done s' = (q - 1 <=? d_i s).
Proof.
  intros Hk Hlt. unfold eda_step. destruct (Nat.leb (length (d_mask s)) a) eqn:E; [apply Nat.leb_le in E; lia|].
  eexists. split; [reflexivity|]. unfold eda_inv in *. cbn [d_keepout d_mask d_i d_done]. repeat split; auto.
Qed.

Lemma dpp_step_ok I s a : dpp_wf I -> eda_inv (map negb (d_avail I)) s -> (a < length (d_mask s))%nat ->
  exists s', dpp_step I s a = Some s' /\ eda_inv (map negb (d_avail I)) s' /\ d_mask s' = set_nth a false (d_mask s) /\
             d_i s' = d_i s + 1 /\ d_done s' = (d_q I - 1 <=? d_i s).
Proof. intros _. apply eda_step_ok. Qed.

(* a cell a decap may go on: inside the grid, not keep-out, not the probing port *)
Definition dpp_allowed (I : dpp_inst) (a : nat) : Prop :=
  (a < length (d_avail I))%nat /\ nth a (map negb (d_avail I)) false = false /\ a <> d_probe I.

Lemma nth_map_negb' l k : (k < length l)%nat -> nth k (map negb l) false = negb (nth k l false).
Proof.
  intros H. rewrite (nth_indep _ false (negb true)) by (rewrite map_length; exact H).
  rewrite map_nth. f_equal. apply nth_indep. exact H.
Qed.

Lemma dpp_allowed_of_avail I as_ : dpp_wf I ->
  Forall (fun a => nth a (d_avail I) false = true) as_ -> Forall (dpp_allowed I) as_.
Proof.
  intros Hwf. apply Forall_impl. intros a H. pose proof (nth_true_lt _ _ H) as Hlt.
  unfold dpp_allowed. split; [exact Hlt|]. split.
  - rewrite nth_map_negb' by exact Hlt. rewrite H. reflexivity.
  - intros ->. unfold dpp_wf, dpp_wfb in Hwf. apply andb_prop in Hwf as [_ Hp]. rewrite H in Hp. discriminate.
Qed.

Theorem dpp_sel_quota I as_ s : dpp_wf I ->
  dpp_run I (dpp_reset I) as_ = Some s -> d_done s = true ->
  (forall k s', (0 < k < length as_)%nat -> dpp_run I (dpp_reset I) (firstn k as_) = Some s' -> d_done s' = false) ->
  Z.of_nat (length as_) = d_q I /\ NoDup as_ /\ Forall (dpp_allowed I) as_.
Proof.
  intros Hwf Hrun Hd Hf.
  destruct (sel_quota dpp_inst dpp_st dpp_wf dpp_reset dpp_step d_mask d_i d_done d_q d_avail
              (fun I => eda_inv (map negb (d_avail I))) dpp_wf_quota dpp_reset_ok dpp_step_ok I as_ s Hwf Hrun Hd Hf)
    as [H1 [H2 H3]].
  repeat split; auto. apply dpp_allowed_of_avail; assumption.
Qed.

Theorem dpp_done_iff I as_ s : dpp_wf I -> dpp_run I (dpp_reset I) as_ = Some s ->
  d_done s = negb (Nat.eqb (length as_) 0) && (d_q I <=? Z.of_nat (length as_)).
Proof.
  exact (sel_done_iff dpp_inst dpp_st dpp_wf dpp_reset dpp_step d_mask d_i d_done d_q d_avail
           (fun I => eda_inv (map negb (d_avail I))) dpp_reset_ok dpp_step_ok I as_ s).
Qed.

(* at every point of a mask-confined run: cells placed so far are distinct and allowed, the keep-out map
   shown to the policy is still the instance's, the mask is "available and not yet used" *)
Theorem dpp_distinct_allowed I as_ s : dpp_wf I -> dpp_run I (dpp_reset I) as_ = Some s ->
  NoDup as_ /\ Forall (dpp_allowed I) as_ /\ d_keepout s = map negb (d_avail I) /\
  d_mask s = clear_all (d_avail I) as_ /\ d_i s = Z.of_nat (length as_).
Proof.
  intros Hwf Hrun.
  destruct (sel_distinct_allowed dpp_inst dpp_st dpp_wf dpp_reset dpp_step d_mask d_i d_done d_q d_avail
              (fun I => eda_inv (map negb (d_avail I))) dpp_reset_ok dpp_step_ok I as_ s Hwf Hrun) as [H1 [H2 [H3 H4]]].
  pose proof (sel_reach_inv dpp_inst dpp_st dpp_wf dpp_reset dpp_step d_mask d_i d_done d_q d_avail
                (fun I => eda_inv (map negb (d_avail I))) dpp_reset_ok dpp_step_ok I as_ s Hwf Hrun) as Hk.
  repeat split; auto. apply dpp_allowed_of_avail; assumption.
Qed.

Theorem dpp_progress I as_ s a : dpp_wf I -> dpp_run I (dpp_reset I) as_ = Some s ->
  nth a (d_mask s) false = true -> exists s', dpp_step I s a = Some s'.
Proof.
  exact (sel_progress dpp_inst dpp_st dpp_wf dpp_reset dpp_step d_mask d_i d_done d_q d_avail
           (fun I => eda_inv (map negb (d_avail I))) dpp_reset_ok dpp_step_ok I as_ s a).
Qed.

(* no dead end as long as the number of decaps does not exceed the number of allowed cells *)
Theorem dpp_no_dead_end I as_ s : dpp_wf I -> dpp_run I (dpp_reset I) as_ = Some s ->
  Z.of_nat (length as_) < d_q I -> d_q I <= Z.of_nat (count_true (d_avail I)) ->
  exists a, nth a (d_mask s) false = true.
Proof.
  exact (sel_no_dead_end dpp_inst dpp_st dpp_wf dpp_reset dpp_step d_mask d_i d_done d_q d_avail
           (fun I => eda_inv (map negb (d_avail I))) dpp_reset_ok dpp_step_ok I as_ s).
Qed.

(* ... and the converse is a genuine dead end of the env: more decaps than allowed cells empties the mask
   before done (the bundled generator allows this: up to 49 keep-out cells + probe, 20 decaps, 100 cells
   is fine, but num_keepout_max / max_decaps are free parameters) *)
Theorem dpp_dead_end_when_quota_exceeds_cells : exists I as_ s,
  dpp_wf I /\ dpp_run I (dpp_reset I) as_ = Some s /\ d_done s = false /\
  forallb negb (d_mask s) = true /\ Z.of_nat (count_true (d_avail I)) < d_q I.
Proof.
  exists {| d_probe := 0; d_avail := [false; true; false; true]; d_q := 3 |}, [1; 3]%nat.
  eexists. vm_compute. repeat split; reflexivity.
Qed.

Definition dpp_ex : dpp_inst :=
  {| d_probe := 4; d_avail := [true; false; true; true; false; true; true; false; true]; d_q := 3 |}.
Example dpp_ex_wf : dpp_wf dpp_ex. Proof. reflexivity. Qed.
Example dpp_ex_run :
  option_map (fun s => (d_mask s, d_done s, d_keepout s)) (dpp_run dpp_ex (dpp_reset dpp_ex) [8; 0; 5]%nat)
  = Some ([false; false; true; true; false; false; true; false; false], true,
          [false; true; false; false; true; false; false; true; false]) /\
  option_map d_done (dpp_run dpp_ex (dpp_reset dpp_ex) [8; 0]%nat) = Some false /\
  dpp_run dpp_ex (dpp_reset dpp_ex) [4]%nat = None /\ dpp_run dpp_ex (dpp_reset dpp_ex) [8; 8]%nat = None.
Proof. vm_compute. repeat split; reflexivity. Qed.

(* ------------------------------------------------------------------ MDPP *)
Record mdpp_inst := { md_probe : list bool; md_avail : list bool; md_q : Z }.
(* torch.logical_and(action_mask, ~probe), elementwise *)
Definition mdpp_mask0 (I : mdpp_inst) : list bool :=
  map (fun k => nth k (md_avail I) false && negb (nth k (md_probe I) false)) (seq 0 (length (md_avail I))).
Definition mdpp_reset (I : mdpp_inst) : dpp_st :=
  {| d_i := 0; d_mask := mdpp_mask0 I; d_keepout := map negb (md_avail I); d_done := false |}.
Definition mdpp_step (I : mdpp_inst) := eda_step (md_q I).
Definition mdpp_run (I : mdpp_inst) := run_adm (mdpp_step I) d_mask.

Definition mdpp_wfb (I : mdpp_inst) : bool := (1 <=? md_q I) && Nat.eqb (length (md_probe I)) (length (md_avail I)).
Definition mdpp_wf (I : mdpp_inst) : Prop := mdpp_wfb I = true.

Lemma mdpp_wf_quota I : mdpp_wf I -> 1 <= md_q I.
Proof. unfold mdpp_wf, mdpp_wfb. intros H. apply andb_prop in H as [H _]. lia. Qed.

Lemma mdpp_reset_ok I : mdpp_wf I ->
  eda_inv (map negb (md_avail I)) (mdpp_reset I) /\ d_mask (mdpp_reset I) = mdpp_mask0 I /\
  d_i (mdpp_reset I) = 0 /\ d_done (mdpp_reset I) = false.
Proof. intros _. unfold eda_inv. repeat split; reflexivity. Qed.

Lemma mdpp_step_ok I s a : mdpp_wf I -> eda_inv (map negb (md_avail I)) s -> (a < length (d_mask s))%nat ->
  exists s', mdpp_step I s a = Some s' /\ eda_inv (map negb (md_avail I)) s' /\ d_mask s' = set_nth a false (d_mask s) /\
             d_i s' = d_i s + 1 /\ d_done s' = (md_q I - 1 <=? d_i s).
Proof. intros _. apply eda_step_ok. Qed.

(* a cell a decap may go on: inside the grid, not keep-out, not one of the probing ports *)
Definition mdpp_allowed (I : mdpp_inst) (a : nat) : Prop :=
  (a < length (md_avail I))%nat /\ nth a (map negb (md_avail I)) false = false /\ nth a (md_probe I) false = false.

Lemma mdpp_allowed_of_mask0 I as_ :
  Forall (fun a => nth a (mdpp_mask0 I) false = true) as_ -> Forall (mdpp_allowed I) as_.
Proof.
  apply Forall_impl. intros a H. pose proof (nth_true_lt _ _ H) as Hlt.
  unfold mdpp_mask0 in Hlt. rewrite map_length, seq_length in Hlt.
  unfold mdpp_mask0 in H. rewrite nth_map_seq in H by exact Hlt. apply andb_prop in H as [Ha Hp].
  unfold mdpp_allowed. split; [exact Hlt|]. split.
  - rewrite nth_map_negb' by exact Hlt. rewrite Ha. reflexivity.
  - apply negb_true_iff. exact Hp.
Qed.

Theorem mdpp_sel_quota I as_ s : mdpp_wf I ->
  mdpp_run I (mdpp_reset I) as_ = Some s -> d_done s = true ->
  (forall k s', (0 < k < length as_)%nat -> mdpp_run I (mdpp_reset I) (firstn k as_) = Some s' -> d_done s' = false) ->
  Z.of_nat (length as_) = md_q I /\ NoDup as_ /\ Forall (mdpp_allowed I) as_.
Proof.
  intros Hwf Hrun Hd Hf.
  destruct (sel_quota mdpp_inst dpp_st mdpp_wf mdpp_reset mdpp_step d_mask d_i d_done md_q mdpp_mask0
              (fun I => eda_inv (map negb (md_avail I))) mdpp_wf_quota mdpp_reset_ok mdpp_step_ok I as_ s Hwf Hrun Hd Hf)
    as [H1 [H2 H3]].
  repeat split; auto. apply mdpp_allowed_of_mask0; assumption.
Qed.

Theorem mdpp_done_iff I as_ s : mdpp_wf I -> mdpp_run I (mdpp_reset I) as_ = Some s ->
  d_done s = negb (Nat.eqb (length as_) 0) && (md_q I <=? Z.of_nat (length as_)).
Proof.
  exact (sel_done_iff mdpp_inst dpp_st mdpp_wf mdpp_reset mdpp_step d_mask d_i d_done md_q mdpp_mask0
           (fun I => eda_inv (map negb (md_avail I))) mdpp_reset_ok mdpp_step_ok I as_ s).
Qed.

Theorem mdpp_distinct_allowed I as_ s : mdpp_wf I -> mdpp_run I (mdpp_reset I) as_ = Some s ->
  NoDup as_ /\ Forall (mdpp_allowed I) as_ /\ d_keepout s = map negb (md_avail I) /\
  d_mask s = clear_all (mdpp_mask0 I) as_ /\ d_i s = Z.of_nat (length as_).
Proof.
  intros Hwf Hrun.
  destruct (sel_distinct_allowed mdpp_inst dpp_st mdpp_wf mdpp_reset mdpp_step d_mask d_i d_done md_q mdpp_mask0
              (fun I => eda_inv (map negb (md_avail I))) mdpp_reset_ok mdpp_step_ok I as_ s Hwf Hrun) as [H1 [H2 [H3 H4]]].
  pose proof (sel_reach_inv mdpp_inst dpp_st mdpp_wf mdpp_reset mdpp_step d_mask d_i d_done md_q mdpp_mask0
                (fun I => eda_inv (map negb (md_avail I))) mdpp_reset_ok mdpp_step_ok I as_ s Hwf Hrun) as Hk.
  repeat split; auto. apply mdpp_allowed_of_mask0; assumption.
Qed.

Theorem mdpp_progress I as_ s a : mdpp_wf I -> mdpp_run I (mdpp_reset I) as_ = Some s ->
  nth a (d_mask s) false = true -> exists s', mdpp_step I s a = Some s'.
Proof.
  exact (sel_progress mdpp_inst dpp_st mdpp_wf mdpp_reset mdpp_step d_mask d_i d_done md_q mdpp_mask0
           (fun I => eda_inv (map negb (md_avail I))) mdpp_reset_ok mdpp_step_ok I as_ s a).
Qed.

Theorem mdpp_no_dead_end I as_ s : mdpp_wf I -> mdpp_run I (mdpp_reset I) as_ = Some s ->
  Z.of_nat (length as_) < md_q I -> md_q I <= Z.of_nat (count_true (mdpp_mask0 I)) ->
  exists a, nth a (d_mask s) false = true.
Proof.
  exact (sel_no_dead_end mdpp_inst dpp_st mdpp_wf mdpp_reset mdpp_step d_mask d_i d_done md_q mdpp_mask0
           (fun I => eda_inv (map negb (md_avail I))) mdpp_reset_ok mdpp_step_ok I as_ s).
Qed.

Definition mdpp_ex : mdpp_inst :=
  {| md_probe := [false; false; false; true; false; false; false; false; true];
     md_avail := [true; false; true; false; false; true; true; false; false]; md_q := 2 |}.
Example mdpp_ex_wf : mdpp_wf mdpp_ex. Proof. reflexivity. Qed.
Example mdpp_ex_run :
  d_mask (mdpp_reset mdpp_ex) = [true; false; true; false; false; true; true; false; false] /\
  option_map (fun s => (d_mask s, d_done s)) (mdpp_run mdpp_ex (mdpp_reset mdpp_ex) [6; 0]%nat)
  = Some ([false; false; true; false; false; true; false; false; false], true) /\
  mdpp_run mdpp_ex (mdpp_reset mdpp_ex) [3]%nat = None.
Proof. vm_compute. repeat split; reflexivity. Qed.

(* ------------------------------------------------------------------ where the quota comes from *)
(* DPPEnv.__init__ :  generator = DPPGenerator(generator_params...) ; self.max_decaps = self.generator.max_decaps
   MDPPEnv.__init__:  super().__init__(kwargs...)   -- builds a default DPPGenerator() (max_decaps = 20) first,
                      self.generator = MDPPGenerator(generator_params...)
                      self.max_decaps = self.generator.max_decaps       -- refreshed from its own generator
   (before the repair "fix: MDPPEnv takes max_decaps ... from its own generator" the last line was missing and the
    env kept the default 20: recorded as fixed in known_findings.json) *)
Definition dpp_generator_default_max_decaps : Z := 20.
Definition dpp_env_max_decaps (generator_max_decaps : Z) : Z := generator_max_decaps.
Definition mdpp_env_max_decaps (generator_max_decaps : Z) : Z :=
  let inherited := dpp_env_max_decaps dpp_generator_default_max_decaps in   (* value left by DPPEnv.__init__ *)
  let refreshed := generator_max_decaps in                                    (* overwritten by MDPPEnv.__init__ *)
  refreshed.

Theorem dpp_env_quota_is_generator_quota g : dpp_env_max_decaps g = g.
Proof. reflexivity. Qed.
Theorem mdpp_env_quota_is_generator_quota g : mdpp_env_max_decaps g = g.
Proof. reflexivity. Qed.
