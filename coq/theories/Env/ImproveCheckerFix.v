(* C06, unit "improve" -- the PROPOSED REPAIR of the two improvement-environment checkers, proved exact.

   The checkers of the current code (Env/ImproveChecker.v) accept successor arrays made of several cycles
   (tspk_checker_sound_refuted, pdp_checker_sound_refuted).  Smallest repair: after the permutation test run
   the visited_time loop the PDP checker already contains
       pre = 0; for i in range(n): cur = rec[pre]; visited_time[cur] = i + 1; pre = cur
   and add   assert (visited_time > 0).all()   -- every node is reached by the walk from node 0.
   (TSPkoptEnv: add the loop and the assert; PDPRuinRepairEnv: add the one assert before the precedence test.)

   Proved here for all n: the repaired TSPkopt checker accepts EXACTLY the tours ([is_tour]), the repaired PDP
   checker accepts EXACTLY the valid pickup-and-delivery tours ([pdp_valid]); so the repair neither rejects a
   valid solution nor accepts an invalid one.  Nothing here is about the current code: these definitions are
   the model the harness should switch to once the repair is applied to /repo. *)
From Coq Require Import ZArith List Bool Lia ZifyBool Arith Permutation.
From RL4CO Require Import Env.Improve Env.ImprovePDP Env.ImproveChecker.
Import ListNotations.

(* assert (visited_time > 0).all() *)
Definition all_reached (rec : list nat) : bool :=
  forallb (fun v => Nat.ltb 0 (nth v (visited_time rec) 0)) (seq 0 (length rec)).

Definition tspk_checker_fix (rec : list nat) : bool := tspk_checker rec && all_reached rec.

Definition pdp_checker_fix (rec : list nat) : bool :=
  let half := length rec / 2 in
  let vt := visited_time rec in
  tspk_checker rec && all_reached rec
  && forallb (fun j => Nat.ltb (nth j vt 0) (nth (j + half) vt 0)) (seq 1 half).

(* a node with a positive stamp was written by the loop (or was positive before) *)
Lemma vt_loop_pos rec k : forall i pre vt v,
  0 < nth v (vt_loop rec k i pre vt) 0 -> In v (walk rec (nxt rec pre) k) \/ 0 < nth v vt 0.
Proof.
  induction k as [|k IH]; intros i pre vt v H; [right; exact H|].
  cbn [vt_loop walk] in *. apply IH in H as [H|H]; [left; right; exact H|].
  destruct (Nat.eq_dec v (nxt rec pre)) as [->|Hne]; [left; left; reflexivity|].
  rewrite nth_set_nth_neq in H by exact Hne. right; exact H.
Qed.

Lemma nth_repeat0 v n : nth v (repeat 0 n) 0 = 0.
Proof. revert v; induction n as [|n IH]; intros [|v]; simpl; auto. Qed.

Lemma all_reached_walk rec :
  all_reached rec = true -> forall v, v < length rec -> In v (walk rec (nxt rec 0) (length rec)).
Proof.
  unfold all_reached. rewrite forallb_forall. intros H v Hv.
  assert (Hin : In v (seq 0 (length rec))) by (apply in_seq; lia).
  specialize (H v Hin). apply Nat.ltb_lt in H. unfold visited_time in H.
  apply vt_loop_pos in H as [H|H]; [exact H|]. rewrite nth_repeat0 in H. lia.
Qed.

Lemma perm_cons_same_tail (z s : nat) T : NoDup (s :: T) -> Permutation (z :: T) (s :: T) -> z = s.
Proof.
  intros Hnd P.
  assert (Hz : In z (s :: T)) by (eapply Permutation_in; [exact P|left; reflexivity]).
  destruct Hz as [Hz|Hz]; [symmetry; exact Hz|].
  exfalso. assert (Hnd' : NoDup (z :: T)) by (eapply Permutation_NoDup; [apply Permutation_sym; exact P|exact Hnd]).
  inversion Hnd'; subst. tauto.
Qed.

(* sound: a permutation all of whose nodes are reached by the walk from node 0 is one cycle *)
Theorem tspk_checker_fix_sound rec : tspk_checker_fix rec = true -> is_tour rec.
Proof.
  unfold tspk_checker_fix. intros H. apply andb_prop in H as [Hp Hr].
  apply tspk_checker_perm in Hp. pose proof (all_reached_walk rec Hr) as Hcov.
  destruct (covers_full (length rec) (walk rec (nxt rec 0) (length rec)) (walk_length _ _ _) Hcov) as [Hnd Hf].
  apply (cyc_full_is_tour rec (walk rec (nxt rec 0) (length rec))); [|exact Hf].
  split; [exact Hnd|].
  destruct (length rec) as [|m] eqn:En; [exact I|].
  assert (Hmap : map (nxt rec) (seq 0 (S m)) = rec) by (rewrite <- En; exact (map_nth_seq rec)).
  set (s := nxt rec 0) in *. set (W := walk rec s (S m)) in *.
  assert (HW : W = s :: walk rec (nxt rec s) m) by reflexivity.
  set (T := walk rec (nxt rec s) m) in *.
  set (z := iter_nxt rec (S m) s).
  assert (Hc : chain rec (W ++ [z])) by (unfold W, z; rewrite <- walk_S_last; apply chain_walk).
  assert (Hzs : z = s).
  { (* map nxt W = tl (W ++ [z]) = T ++ [z]; it is a permutation of rec, hence of 0..m, hence of W *)
    pose proof (chain_map_nxt _ _ _ Hc) as Hm. rewrite HW in Hm at 2. cbn [app tl] in Hm.
    assert (PW : Permutation W (seq 0 (S m))).
    { apply NoDup_Permutation; [exact Hnd|apply seq_NoDup|]. intros x. rewrite in_seq. rewrite (Hf x). lia. }
    assert (P1 : Permutation (T ++ [z]) W).
    { rewrite <- Hm. eapply Permutation_trans; [apply Permutation_map; exact PW|].
      rewrite Hmap. eapply Permutation_trans; [exact Hp|]. apply Permutation_sym. exact PW. }
    apply (perm_cons_same_tail z s T); [rewrite <- HW; exact Hnd|].
    rewrite <- HW. eapply Permutation_trans; [apply Permutation_cons_append|exact P1]. }
  rewrite HW at 2. change (hd 0 (s :: T)) with s. rewrite <- Hzs. exact Hc.
Qed.

(* complete: every tour passes the repaired checker *)
Theorem tspk_checker_fix_complete rec : is_tour rec -> tspk_checker_fix rec = true.
Proof.
  intros Ht. unfold tspk_checker_fix. apply andb_true_iff. split; [apply tspk_checker_complete; exact Ht|].
  unfold all_reached. apply forallb_forall. intros v Hv. apply in_seq in Hv. apply Nat.ltb_lt.
  rewrite (visited_time_tour rec v Ht) by lia.
  destruct (Nat.eqb v 0) eqn:E; [lia|]. apply Nat.eqb_neq in E.
  destruct (length rec) as [|m]; [lia|]. cbn [walk index_of].
  destruct (Nat.eqb 0 v) eqn:E1; [apply Nat.eqb_eq in E1; lia|lia].
Qed.

Theorem tspk_checker_fix_exact rec : tspk_checker_fix rec = true <-> is_tour rec.
Proof. split; [apply tspk_checker_fix_sound|apply tspk_checker_fix_complete]. Qed.

Lemma pdp_checker_fix_split rec : pdp_checker_fix rec = tspk_checker_fix rec && pdp_checker rec.
Proof.
  unfold pdp_checker_fix, tspk_checker_fix, pdp_checker.
  destruct (tspk_checker rec); destruct (all_reached rec); reflexivity.
Qed.

Theorem pdp_checker_fix_exact rec h :
  length rec = 2 * h + 1 -> (pdp_checker_fix rec = true <-> pdp_valid rec).
Proof.
  intros Hn. rewrite pdp_checker_fix_split, andb_true_iff. split.
  - intros [Hf Hc]. apply (pdp_checker_sound_on_tours rec h Hn); [apply tspk_checker_fix_sound; exact Hf|exact Hc].
  - intros Hv. split; [apply tspk_checker_fix_complete; exact (proj1 Hv)|apply (pdp_checker_complete rec h Hn Hv)].
Qed.

(* the refuted witnesses of the current checkers are rejected by the repaired ones; non-vacuity *)
Example checker_fix_rejects_witnesses :
  tspk_checker [1; 0; 3; 2] = true /\ tspk_checker_fix [1; 0; 3; 2] = false /\
  pdp_checker [3; 2; 1; 4; 0] = true /\ pdp_checker_fix [3; 2; 1; 4; 0] = false.
Proof. vm_compute. repeat split; reflexivity. Qed.
Example checker_fix_accepts :
  tspk_checker_fix [3; 5; 4; 1; 0; 2] = true /\ pdp_checker_fix [2; 5; 1; 6; 3; 4; 0] = true /\
  is_tourb [4; 2; 5; 6; 1; 3; 0] = true /\ pdp_checker_fix [4; 2; 5; 6; 1; 3; 0] = false.
Proof. vm_compute. repeat split; reflexivity. Qed.
