(* MTVRP: the independent specification instantiated at an instance, well-formedness / solvability, and the
   theorems for C01-C06.  All theorems are about exact arithmetic ([exact]). *)
From Coq Require Import ZArith List Bool Lia ZifyBool Arith.
From RL4CO Require Import Base.Num Base.EnvSig Base.SortNat Spec.Routes Spec.VRPFeatures Env.MTVRP.
Import ListNotations.
Open Scope Z_scope.

(* ---------------------------------------------------------------- specification at an instance *)
Definition route_okI (i : mtvrp_inst) (slack : Z) (r : list nat) : bool :=
  route_ok (dlf i) (dbf i) (cap i) (dfun i) (tfun i) (lim i) (opn i) (lo i) (hi i) (sv i) slack r.

(* [slack] = 0 is the problem definition *)
Definition mtvrp_feasibleb (i : mtvrp_inst) (slack : Z) (acts : list nat) : bool :=
  forallb (fun j => Nat.eqb (occ j acts) 1) (seq 1 (n_of i)) &&
  forallb (fun a => Nat.leb a (n_of i)) acts &&
  forallb (route_okI i slack) (routes acts).

Definition mtvrp_feasible (i : mtvrp_inst) (acts : list nat) : Prop :=
  (forall j, (1 <= j <= n_of i)%nat -> occ j acts = 1%nat) /\
  (forall a, In a acts -> (a <= n_of i)%nat) /\
  Forall (fun r => route_okI i 0 r = true) (routes acts).

Lemma mtvrp_feasibleb_ok i acts : mtvrp_feasibleb i 0 acts = true <-> mtvrp_feasible i acts.
Proof.
  unfold mtvrp_feasibleb, mtvrp_feasible. rewrite !andb_true_iff, !forallb_forall, Forall_forall. split.
  - intros [[H1 H2] H3]. repeat split.
    + intros j Hj. apply Nat.eqb_eq. apply H1. apply in_seq. lia.
    + intros a Ha. apply Nat.leb_le. apply H2. exact Ha.
    + exact H3.
  - intros (H1 & H2 & H3). repeat split.
    + intros j Hj. apply Nat.eqb_eq. apply H1. apply in_seq in Hj. lia.
    + intros a Ha. apply Nat.leb_le. apply H2. exact Ha.
    + exact H3.
Qed.

Definition mtvrp_objective (i : mtvrp_inst) (acts : list nat) : Z := - total_cost (dfun i) (opn i) acts.
Definition mtvrp_reward (i : mtvrp_inst) (acts : list nat) : Z := - cyclic_len (cost_fun i) acts.

(* ---------------------------------------------------------------- documented input format *)
Definition nodes (i : mtvrp_inst) : list nat := seq 0 (nn i).

(* per node: quantities non-negative; a customer is a linehaul customer (delivery > 0) or a backhaul customer
   (pickup > 0), never both ("customers are either linehaul or backhaul customers", q_i > 0, p_i > 0); window
   start and service duration non-negative, window of positive length (the env's own checker insists on lo < hi);
   distances and travel times non-negative with zero diagonal; the depot has no demand; capacity and limit
   non-negative; every vector has one entry per node *)
Definition mtvrp_wfb (i : mtvrp_inst) : bool :=
  Nat.ltb 0 (nn i) &&
  Nat.eqb (length (db i)) (nn i) && Nat.eqb (length (tlo i)) (nn i) && Nat.eqb (length (thi i)) (nn i) &&
  Nat.eqb (length (svc i)) (nn i) &&
  (0 <=? cap i) && (0 <=? lim i) &&
  (dlf i 0%nat =? 0) && (dbf i 0%nat =? 0) &&
  forallb (fun j => (0 <=? dlf i j) && (0 <=? dbf i j) && negb ((0 <? dlf i j) && (0 <? dbf i j))
                    && (Nat.eqb j 0 || (0 <? dlf i j) || (0 <? dbf i j))
                    && (0 <=? lo i j) && (0 <=? sv i j) && (lo i j <? hi i j)
                    && (dfun i j j =? 0) && (tfun i j j =? 0)
                    && forallb (fun k => (0 <=? dfun i j k) && (0 <=? tfun i j k)) (nodes i)) (nodes i).
Definition mtvrp_wf (i : mtvrp_inst) : Prop := mtvrp_wfb i = true.

(* minimal extra condition for C02 (termination within the bound): from the depot, with an empty vehicle at
   time 0, every customer can be served on a route of its own -- its demand fits, the out-and-back trip (out only, if open) respects the limit, it is reached before its window
   closes and the vehicle is back in time.  The two time conditions use the mask's comparison: strict for the
   shipped code (R = false) *)
Definition solv_at (R : bool) (i : mtvrp_inst) (j : nat) : bool :=
  (dlf i j <=? cap i) && (dbf i j <=? cap i) &&
  (dfun i 0%nat j + (if opn i then 0 else dfun i j 0%nat) <=? lim i) &&
  tcmp R (tfun i 0%nat j) (hi i j) &&
  tcmp R (if opn i then 0 else Z.max (tfun i 0%nat j) (lo i j) + sv i j + tfun i j 0%nat) (hi i 0%nat).
Definition mtvrp_solvableb (R : bool) (i : mtvrp_inst) : bool := forallb (solv_at R i) (locs i).
Definition mtvrp_solvable (R : bool) (i : mtvrp_inst) : Prop := mtvrp_solvableb R i = true.

(* metric facts used by the completeness theorem (C05) only: going straight back to the depot is never longer
   (nor slower) than going back via another node *)
Definition mtvrp_metricb (i : mtvrp_inst) : bool :=
  forallb (fun x => forallb (fun y => (dfun i x 0%nat <=? dfun i x y + dfun i y 0%nat)
                                       && (tfun i x 0%nat <=? tfun i x y + tfun i y 0%nat)) (nodes i)) (nodes i).

(* ================================================================ basic facts *)
Lemma wf_parts i : mtvrp_wf i ->
  (0 < nn i)%nat /\ 0 <= cap i /\ 0 <= lim i /\ dlf i 0%nat = 0 /\ dbf i 0%nat = 0 /\
  forall j, (j < nn i)%nat ->
    0 <= dlf i j /\ 0 <= dbf i j /\ (dlf i j = 0 \/ dbf i j = 0) /\ (j = 0%nat \/ 0 < dlf i j \/ 0 < dbf i j) /\
    0 <= lo i j /\ 0 <= sv i j /\ lo i j < hi i j /\ dfun i j j = 0 /\ tfun i j j = 0 /\
    forall k, (k < nn i)%nat -> 0 <= dfun i j k /\ 0 <= tfun i j k.
Proof.
  unfold mtvrp_wf, mtvrp_wfb. rewrite !andb_true_iff.
  intros [[[[[[[[[H1 H2] H3] H4] H5] H6] H7] H8] H9] H10].
  repeat split; try lia.
  all: rewrite forallb_forall in H10; specialize (H10 j ltac:(apply in_seq; lia));
       apply andb_prop in H10 as [Ha Hb]; try lia.
  all: rewrite forallb_forall in Hb; specialize (Hb k ltac:(apply in_seq; lia)); lia.
Qed.

Lemma dlf_nonneg i j : mtvrp_wf i -> 0 <= dlf i j.
Proof.
  intros Hwf. destruct (Nat.ltb j (nn i)) eqn:El.
  - apply Nat.ltb_lt in El. apply wf_parts in Hwf. destruct Hwf as (_ & _ & _ & _ & _ & H). specialize (H j El). tauto.
  - apply Nat.ltb_ge in El. unfold dlf. rewrite nth_overflow by exact El. lia.
Qed.
Lemma dbf_nonneg i j : mtvrp_wf i -> 0 <= dbf i j.
Proof.
  intros Hwf. destruct (Nat.ltb j (nn i)) eqn:El.
  - apply Nat.ltb_lt in El. apply wf_parts in Hwf. destruct Hwf as (_ & _ & _ & _ & _ & H). specialize (H j El). tauto.
  - apply Nat.ltb_ge in El. unfold dbf.
    assert (length (db i) = nn i) as L.
    { unfold mtvrp_wf, mtvrp_wfb in Hwf. rewrite !andb_true_iff in Hwf. destruct Hwf as [[[[[[[[[_ H2] _] _] _] _] _] _] _] _]. apply Nat.eqb_eq in H2. exact H2. }
    rewrite nth_overflow by lia. lia.
Qed.

Lemma last_rev_hd (c : list nat) : last (rev c) 0%nat = hd 0%nat c.
Proof. destruct c as [|x c]; [reflexivity|]. cbn [rev hd]. apply last_last. Qed.

Lemma tcmp_le R x y : tcmp R x y = true -> x <= y.
Proof. unfold tcmp. destruct R; lia. Qed.
Lemma tcmp_of_lt R x y : x < y -> tcmp R x y = true.
Proof. unfold tcmp. destruct R; lia. Qed.

(* a sum of non-negative terms is at least each term *)
Lemma sum_ge_term (f : nat -> Z) n j : (forall k, 0 <= f k) -> (j < n)%nat -> f j <= sumZ (map f (seq 0 n)).
Proof.
  intros Hf. induction n as [|n IH]; intros Hj; [lia|].
  rewrite seq_S, map_app, sumZ_app. cbn [map sumZ plus].
  assert (0 <= sumZ (map f (seq 0 n))) by (apply sumZ_nonneg, Forall_forall; intros x Hx; apply in_map_iff in Hx as (k & <- & _); apply Hf).
  destruct (Nat.eq_dec j n) as [->|Hn]; [lia|]. specialize (IH ltac:(lia)). specialize (Hf n). lia.
Qed.

Section Proofs.
Variable R : bool.
Notation E := (MTVRP exact R).
Notation cmp0 := (fun x y : Z => x <=? y + 0).

Lemma offered_depot i s : offered (E:=E) i s 0 = negb (mask_depot exact R i s).
Proof. reflexivity. Qed.

Lemma offered_loc i s a : (1 <= a)%nat ->
  offered (E:=E) i s a = (Nat.leb a (n_of i) && can_visit exact R i s a)%bool.
Proof.
  intros Ha. unfold offered. cbn [mask MTVRP]; unfold mtvrp_mask. destruct a as [|a]; [lia|]. cbn [nth].
  unfold locs. destruct (Nat.leb (S a) (n_of i)) eqn:El.
  - apply Nat.leb_le in El. rewrite nth_map_seq by lia. reflexivity.
  - apply Nat.leb_gt in El. rewrite nth_overflow by (rewrite map_length, seq_length; lia). reflexivity.
Qed.

(* ================================================================ the invariant *)
(* state s reached after prefix p whose open route (since the last depot visit) is c, in reverse *)
Record Inv (i : mtvrp_inst) (p c : list nat) (s : mtvrp_st) : Prop := {
  inv_len : length (vis s) = nn i;
  inv_vis : forall j, (j < nn i)%nat -> nth j (vis s) false = true <-> In j p;
  inv_cnt : forall j, (1 <= j <= n_of i)%nat -> (occ j p <= 1)%nat;
  inv_rng : forall a, In a p -> (a <= n_of i)%nat;
  inv_cur : cur s = hd 0%nat c;
  inv_curp : cur s = last p 0%nat;
  inv_crng : forall x, In x c -> (1 <= x <= n_of i)%nat;
  inv_usedl : usedl s = load (dlf i) (rev c);
  inv_usedb : usedb s = load (dbf i) (rev c);
  inv_capl : usedl s <= cap i;
  inv_capb : usedb s <= cap i;
  inv_prec : prec_ok (dlf i) (dbf i) (rev c) = true;
  inv_nb : is_carrying_backhaul i s = false -> forallb (fun y => negb (is_backhaul (dbf i) y)) (rev c) = true;
  inv_rlen : rlen s = opath_len (dfun i) 0%nat (rev c);
  inv_lim : c <> [] -> rlen s + (if opn i then 0 else dfun i (cur s) 0%nat) <= lim i;
  inv_tim : tim s = dep_time (tfun i) (lo i) (sv i) 0%nat 0 (rev c);
  inv_twp : tw_pref (tfun i) (lo i) (hi i) (sv i) cmp0 0%nat 0 (rev c) = true;
  inv_ret : c <> [] -> opn i = false -> tim s + tfun i (cur s) 0%nat <= hi i 0%nat;
}.

Lemma reset_inv i : mtvrp_wf i -> Inv i [] [] (mtvrp_reset i).
Proof.
  intros Hwf. pose proof (wf_parts i Hwf) as (Hn & Hc & Hl & _).
  constructor; cbn [mtvrp_reset vis usedl usedb cur rlen tim rev hd last]; try reflexivity; try lia; try congruence.
  - rewrite repeat_length. reflexivity.
  - intros j Hj. split; [|intros []]. intros H. exfalso. rewrite nth_repeat in H. discriminate.
  - intros j Hj. simpl. lia.
  - intros a [].
  - intros x [].
Qed.

(* the open route of an invariant state is a feasible route of the specification *)
Lemma inv_route_ok i p c s : Inv i p c s -> route_okI i 0 (rev c) = true.
Proof.
  intros HI. destruct c as [|x c]; [reflexivity|].
  assert (Hne : x :: c <> []) by discriminate.
  unfold route_okI, route_ok. destruct (rev (x :: c)) eqn:Er.
  { exfalso. apply (f_equal (@length nat)) in Er. rewrite rev_length in Er. discriminate. }
  rewrite <- Er. clear Er.
  pose proof (inv_capl _ _ _ _ HI). pose proof (inv_capb _ _ _ _ HI).
  rewrite <- (inv_usedl _ _ _ _ HI), <- (inv_usedb _ _ _ _ HI), (inv_prec _ _ _ _ HI).
  rewrite route_cost_eq, <- (inv_rlen _ _ _ _ HI), last_rev_hd, <- (inv_cur _ _ _ _ HI).
  pose proof (inv_lim _ _ _ _ HI Hne).
  rewrite tw_ok_gen, tw_gen_split, (inv_twp _ _ _ _ HI), <- (inv_tim _ _ _ _ HI), last_rev_hd, <- (inv_cur _ _ _ _ HI).
  pose proof (inv_ret _ _ _ _ HI Hne) as Hret.
  destruct (opn i); [lia|]. specialize (Hret eq_refl). lia.
Qed.

Lemma step_inv i p c s a :
  mtvrp_wf i -> Inv i p c s -> offered (E:=E) i s a = true ->
  Inv i (p ++ [a]) (if Nat.eqb a 0 then [] else a :: c) (mtvrp_step exact i s a).
Proof.
  intros Hwf HI Hm. pose proof (wf_parts i Hwf) as (Hnn & Hcap & Hlim & Hdl0 & Hdb0 & Hnode).
  destruct HI as [Hlen Hvis Hcnt Hrng Hcur Hcurp Hcrng Hul Hub Hcl Hcb Hprec Hnb Hrl Hli Htim Htwp Hret].
  destruct (Nat.eqb a 0) eqn:Ea.
  - apply Nat.eqb_eq in Ea; subst a.
    constructor; cbn [mtvrp_step vis usedl usedb cur rlen tim rev hd]; rewrite ?Nat.eqb_refl; try reflexivity; try lia; try congruence.
    + rewrite set_nth_length; exact Hlen.
    + intros j Hj. rewrite nth_set_nth, Hlen. rewrite in_app_iff. cbn [In].
      destruct (Nat.eqb j 0) eqn:Ej.
      * apply Nat.eqb_eq in Ej. subst j. replace (Nat.ltb 0 (nn i)) with true by (symmetry; apply Nat.ltb_lt; lia). cbn. tauto.
      * apply Nat.eqb_neq in Ej. cbn [andb]. rewrite Hvis by exact Hj. split; [tauto|]. intros [H|[H|[]]]; [exact H|lia].
    + intros j Hj. rewrite occ_app, occ_cons. replace (Nat.eqb 0 j) with false by (symmetry; apply Nat.eqb_neq; lia).
      specialize (Hcnt j Hj). rewrite occ_nil. lia.
    + intros b Hb. apply in_app_iff in Hb as [Hb|[<-|[]]]; [auto|lia].
    + rewrite last_last. reflexivity.
    + intros x [].
  - pose proof Ea as Ea0. apply Nat.eqb_neq in Ea0.
    rewrite offered_loc in Hm by lia. apply andb_prop in Hm as [Hle Hcv]. apply Nat.leb_le in Hle.
    assert (Ha : (1 <= a <= n_of i)%nat) by lia.
    assert (Han : (a < nn i)%nat) by (unfold n_of in *; lia).
    destruct (Hnode a Han) as (Hdla & Hdba & Hone & _ & Hloa & Hsva & Hlohi & _ & _ & _).
    unfold can_visit in Hcv. rewrite !andb_true_iff in Hcv. destruct Hcv as [[[[Hrc Hrd] Hmd] Hdl] Hnv].
    unfold can_reach_customer, arrival in Hrc. rewrite !rnd_exact in Hrc. apply tcmp_le in Hrc.
    unfold can_reach_depot, back_time, arrival in Hrd. rewrite !rnd_exact in Hrd. apply tcmp_le in Hrd.
    unfold exceeds_dist_limit in Hdl. rewrite !rnd_exact in Hdl.
    apply negb_true_iff in Hnv.
    unfold meets_demand_constraint, exceeds_cap_linehaul, exceeds_cap_backhaul in Hmd. rewrite !rnd_exact in Hmd.
    (* which branch of the demand rule admitted a: linehaul (not after a backhaul) or backhaul *)
    assert (Hdem : (0 < dlf i a /\ dbf i a = 0 /\ dlf i a + usedl s <= cap i /\ is_carrying_backhaul i s = false)
                   \/ (0 < dbf i a /\ dlf i a = 0 /\ dbf i a + usedb s <= cap i)).
    { apply orb_prop in Hmd as [Hb|Hb].
      - left. rewrite !andb_true_iff in Hb. destruct Hb as [[[_ H1] H2] H3]. apply negb_true_iff in H2. repeat split; lia.
      - right. apply andb_prop in Hb as [H1 H2]. repeat split; lia. }
    constructor; cbn [mtvrp_step vis usedl usedb cur rlen tim hd]; rewrite ?Ea, ?rnd_exact.
    + rewrite set_nth_length; exact Hlen.
    + intros j Hj. rewrite nth_set_nth, Hlen.
      replace (Nat.ltb a (nn i)) with true by (symmetry; apply Nat.ltb_lt; lia).
      rewrite andb_true_r, in_app_iff. cbn [In].
      destruct (Nat.eqb j a) eqn:Ej.
      * apply Nat.eqb_eq in Ej. subst. tauto.
      * apply Nat.eqb_neq in Ej. rewrite Hvis by exact Hj. split; [tauto|]. intros [H|[H|[]]]; [exact H|congruence].
    + intros j Hj. rewrite occ_app, occ_cons, occ_nil.
      destruct (Nat.eqb a j) eqn:Ej.
      * apply Nat.eqb_eq in Ej. subst j.
        assert (~ In a p) as Hn. { rewrite <- Hvis by lia. rewrite Hnv. discriminate. }
        apply occ_not_In in Hn. lia.
      * specialize (Hcnt j Hj). lia.
    + intros b Hb. apply in_app_iff in Hb as [Hb|[<-|[]]]; [auto|lia].
    + reflexivity.
    + rewrite last_last. reflexivity.
    + intros x [<-|Hx]; [lia | auto].
    + cbn [rev]. rewrite load_snoc, Hul. reflexivity.
    + cbn [rev]. rewrite load_snoc, Hub. reflexivity.
    + destruct Hdem as [(H1 & H2 & H3 & _)|(H1 & H2 & H3)]; lia.
    + destruct Hdem as [(H1 & H2 & H3 & _)|(H1 & H2 & H3)]; lia.
    + cbn [rev]. rewrite prec_ok_snoc, Hprec. cbn [andb].
      destruct Hdem as [(H1 & H2 & H3 & H4)|(H1 & H2 & H3)].
      * rewrite (Hnb H4). reflexivity.
      * unfold is_linehaul. replace (0 <? dlf i a) with false by lia. apply orb_true_r.
    + unfold is_carrying_backhaul. cbn [mtvrp_step cur]. intros Hc.
      cbn [rev]. rewrite forallb_app. cbn [forallb]. rewrite andb_true_r. apply andb_true_intro. split.
      * destruct Hdem as [(H1 & H2 & H3 & H4)|(H1 & H2 & H3)]; [exact (Hnb H4) | lia].
      * unfold is_backhaul. rewrite Hc. reflexivity.
    + cbn [rev]. rewrite opath_len_snoc, last_rev_hd, <- Hcur, Hrl. reflexivity.
    + intros _. destruct (opn i); lia.
    + cbn [rev]. rewrite dep_time_snoc, last_rev_hd, <- Hcur, <- Htim. reflexivity.
    + cbn [rev]. rewrite tw_pref_snoc, Htwp, last_rev_hd, <- Hcur, <- Htim. cbn [andb]. lia.
    + intros _ Ho. rewrite Ho in Hrd. lia.
Qed.

(* invariant along a run, together with the feasibility of the routes closed on the way *)
Lemma run_inv i : mtvrp_wf i -> forall acts p c s,
  Inv i p c s -> adm_from (E:=E) i s acts = true ->
  Forall (fun r => route_okI i 0 r = true) (routes_aux acts c) /\
  exists c', Inv i (p ++ acts) c' (run_from (E:=E) i s acts).
Proof.
  intros Hwf acts. induction acts as [|a r IH]; intros p c s HI Hadm; cbn [adm_from run_from routes_aux] in *.
  - split.
    + constructor; [|constructor]. exact (inv_route_ok _ _ _ _ HI).
    + exists c. rewrite app_nil_r. exact HI.
  - apply andb_prop in Hadm as [Hm Hadm].
    pose proof (step_inv i p c s a Hwf HI Hm) as HI'.
    destruct (IH _ _ _ HI' Hadm) as [HF [c' HI'']].
    destruct (Nat.eqb a 0) eqn:Ea.
    + split.
      * constructor; [|exact HF]. exact (inv_route_ok _ _ _ _ HI).
      * exists c'. rewrite <- app_assoc in HI''. exact HI''.
    + split; [exact HF|]. exists c'. rewrite <- app_assoc in HI''. exact HI''.
Qed.

Lemma adm_inv i acts : mtvrp_wf i -> adm (E:=E) i acts = true -> exists c, Inv i acts c (run (E:=E) i acts).
Proof.
  intros Hwf Hadm. destruct (run_inv i Hwf acts [] [] _ (reset_inv i Hwf) Hadm) as [_ [c H]]. exists c. exact H.
Qed.

(* ================================================================ C01 *)
Theorem mtvrp_mask_sound i acts :
  mtvrp_wf i -> adm (E:=E) i acts = true -> done E i (run (E:=E) i acts) = true -> mtvrp_feasible i acts.
Proof.
  intros Hwf Hadm Hdone.
  destruct (run_inv i Hwf acts [] [] _ (reset_inv i Hwf) Hadm) as [HF [c' HI]].
  cbn [app] in HI. pose proof (inv_len _ _ _ _ HI) as Hlen. pose proof (inv_vis _ _ _ _ HI) as Hvis.
  pose proof (inv_cnt _ _ _ _ HI) as Hcnt. pose proof (inv_rng _ _ _ _ HI) as Hrng.
  split; [|split].
  - intros j Hj. specialize (Hcnt j Hj).
    assert (In j acts) as Hin.
    { apply Hvis; [unfold n_of in Hj; lia|]. apply allb_nth; [exact Hdone|]. unfold run in Hlen. unfold n_of in Hj. lia. }
    apply occ_In in Hin. lia.
  - exact Hrng.
  - exact HF.
Qed.

(* ================================================================ C02 *)
Theorem mtvrp_step_ok i acts a :
  mtvrp_wf i -> adm (E:=E) i acts = true -> offered (E:=E) i (run (E:=E) i acts) a = true ->
  stepok E i (run (E:=E) i acts) a = true.
Proof.
  intros Hwf Hadm Ho. cbn [stepok MTVRP]. unfold mtvrp_stepok. pose proof (wf_parts i Hwf) as (Hnn & _).
  destruct a as [|a]; [apply Nat.ltb_lt; exact Hnn|].
  rewrite offered_loc in Ho by lia. apply andb_prop in Ho as [Hle _]. apply Nat.leb_le in Hle.
  apply Nat.ltb_lt. unfold n_of in Hle. lia.
Qed.

(* no hypothesis at all: the depot is masked only when some customer is offered *)
Theorem mtvrp_no_dead_end i s : anyb (mask E i s) = true.
Proof.
  cbn [mask MTVRP]; unfold mtvrp_mask. unfold anyb. cbn [existsb].
  destruct (mask_depot exact R i s) eqn:Ed; [|reflexivity]. cbn [negb orb].
  unfold mask_depot in Ed. apply andb_prop in Ed as [_ Hex].
  apply existsb_exists in Hex as (j & Hj & Hjm). apply existsb_exists.
  exists true. split; [|reflexivity]. apply in_map_iff. exists j. split; [exact Hjm | exact Hj].
Qed.

Theorem mtvrp_done_stable i acts a :
  done E i (run (E:=E) i acts) = true -> done E i (run (E:=E) i (acts ++ [a])) = true.
Proof.
  intros Hd. rewrite run_snoc. cbn [done MTVRP step] in *. unfold mtvrp_done in *.
  cbn [mtvrp_step vis]. apply allb_forall. intros j Hj. rewrite set_nth_length in Hj.
  rewrite nth_set_nth. destruct (Nat.eqb j a && Nat.ltb a (length (vis (run (E:=E) i acts))))%bool; [reflexivity|].
  apply allb_nth; assumption.
Qed.

Definition ncust (p : list nat) : Z := Z.of_nat (length (customers p)).
Lemma ncust_snoc p a : ncust (p ++ [a]) = ncust p + (if Nat.eqb a 0 then 0 else 1).
Proof. unfold ncust, customers. rewrite filter_app, app_length. simpl. destruct (Nat.eqb a 0); simpl; lia. Qed.

Lemma customers_bound n p : (forall j, (1 <= j <= n)%nat -> (occ j p <= 1)%nat) ->
  (forall a, In a p -> (a <= n)%nat) -> (length (customers p) <= n)%nat.
Proof.
  intros Hc Hr.
  assert (ND : NoDup (customers p)).
  { apply (NoDup_count_occ Nat.eq_dec). intros x. unfold customers.
    destruct (Nat.eqb x 0) eqn:Ex.
    - apply Nat.eqb_eq in Ex. subst x.
      assert (~ In 0%nat (filter (fun a => negb (Nat.eqb a 0)) p)) as H.
      { intros H. apply filter_In in H as [_ H]. discriminate. }
      apply (count_occ_not_In Nat.eq_dec) in H. lia.
    - apply Nat.eqb_neq in Ex.
      destruct (in_dec Nat.eq_dec x p) as [Hin|Hnin].
      + assert (count_occ Nat.eq_dec (filter (fun a => negb (Nat.eqb a 0)) p) x <= count_occ Nat.eq_dec p x)%nat as Hle.
        { clear. induction p as [|y p IH]; simpl; [lia|]. destruct (Nat.eqb y 0); simpl; destruct (Nat.eq_dec y x); lia. }
        specialize (Hc x). specialize (Hr x Hin). unfold occ in Hc. lia.
      + assert (~ In x (filter (fun a => negb (Nat.eqb a 0)) p)) as H by (intros H; apply filter_In in H; tauto).
        apply (count_occ_not_In Nat.eq_dec) in H. lia. }
  assert (Hincl : incl (customers p) (seq 1 n)).
  { intros x Hx. unfold customers in Hx. apply filter_In in Hx as [Hx Hnz]. apply in_seq.
    apply negb_true_iff, Nat.eqb_neq in Hnz. specialize (Hr x Hx). lia. }
  pose proof (NoDup_incl_length ND Hincl) as H. rewrite seq_length in H. exact H.
Qed.

(* at the depot with an empty vehicle every unvisited customer of a solvable instance is offered *)
Lemma fresh_can_visit i p s j :
  mtvrp_wf i -> mtvrp_solvable R i -> Inv i p [] s -> cur s = 0%nat -> (1 <= j <= n_of i)%nat ->
  nth j (vis s) false = false -> can_visit exact R i s j = true.
Proof.
  intros Hwf Hsol HI Hc Hj Hv. pose proof (wf_parts i Hwf) as (Hnn & Hcap & Hlim & Hdl0 & Hdb0 & Hnode).
  assert (Hjn : (j < nn i)%nat) by (unfold n_of in Hj; lia).
  destruct (Hnode j Hjn) as (Hdl & Hdb & Hone & Hpos & _).
  unfold mtvrp_solvable, mtvrp_solvableb in Hsol. rewrite forallb_forall in Hsol.
  specialize (Hsol j ltac:(apply in_seq; lia)). unfold solv_at in Hsol. rewrite !andb_true_iff in Hsol.
  destruct Hsol as [[[[S1 S2] S3] S4] S5].
  pose proof (inv_usedl _ _ _ _ HI) as Hul. pose proof (inv_usedb _ _ _ _ HI) as Hub.
  pose proof (inv_rlen _ _ _ _ HI) as Hrl. pose proof (inv_tim _ _ _ _ HI) as Htm. cbn in Hul, Hub, Hrl, Htm.
  unfold can_visit. rewrite Hv. cbn [negb]. rewrite andb_true_r.
  unfold can_reach_customer, can_reach_depot, back_time, arrival, exceeds_dist_limit, meets_demand_constraint,
    exceeds_cap_linehaul, exceeds_cap_backhaul, is_carrying_backhaul.
  rewrite !rnd_exact, Hc, Hul, Hub, Hrl, Htm, Hdb0. rewrite !Z.add_0_l, !Z.add_0_r.
  rewrite S4, S5. cbn [andb].
  apply andb_true_intro. split; [|lia].
  destruct (0 <? dlf i j) eqn:Ed; [|lia].
  assert (linehauls_missing i s = true) as ->; [|lia].
  unfold linehauls_missing.
  pose proof (sum_ge_term (fun k => if nth k (vis s) false then 0 else dlf i k) (nn i) j) as Hs. cbn beta in Hs. rewrite Hv in Hs.
  assert (forall k, 0 <= (if nth k (vis s) false then 0 else dlf i k)) as Hk.
  { intros k. destruct (nth k (vis s) false); [lia | apply dlf_nonneg; exact Hwf]. }
  specialize (Hs Hk Hjn). lia.
Qed.

Theorem mtvrp_bound i acts :
  mtvrp_wf i -> mtvrp_solvable R i -> adm (E:=E) i acts = true ->
  (forall p q, acts = p ++ q -> q <> [] -> done E i (run (E:=E) i p) = false) ->
  (length acts <= 2 * n_of i + 1)%nat.
Proof.
  intros Hwf Hsol Hadm Hnd.
  assert (G : forall p q, acts = p ++ q ->
             exists c, Inv i p c (run (E:=E) i p) /\
             Z.of_nat (length p) <= 2 * ncust p + (if Nat.eqb (cur (run (E:=E) i p)) 0 then (if Nat.eqb (length p) 0 then 0 else 1) else 0)).
  { intros p. induction p as [|a p IH] using rev_ind; intros q Hq.
    - exists []. split; [apply reset_inv; exact Hwf|]. cbn. lia.
    - rewrite <- app_assoc in Hq. destruct (IH _ Hq) as [c [HI Hb]].
      assert (Hadm' : adm (E:=E) i (p ++ [a]) = true).
      { rewrite Hq in Hadm. rewrite app_assoc in Hadm. apply adm_prefix in Hadm. exact Hadm. }
      rewrite adm_snoc in Hadm'. apply andb_prop in Hadm' as [Hap Hoa].
      pose proof (step_inv i p c _ a Hwf HI Hoa) as HI'.
      exists (if Nat.eqb a 0 then [] else a :: c). rewrite run_snoc. split; [exact HI'|].
      rewrite app_length, ncust_snoc. cbn [length step MTVRP mtvrp_step cur].
      replace (Nat.eqb (length p + 1) 0) with false by (symmetry; apply Nat.eqb_neq; lia).
      assert (Hb' : Z.of_nat (length p) <= 2 * ncust p + 1)
        by (destruct (Nat.eqb (cur (run (E:=E) i p)) 0); destruct (Nat.eqb (length p) 0); lia).
      destruct (Nat.eqb a 0) eqn:Ea; [|lia].
      apply Nat.eqb_eq in Ea. subst a.
      destruct (Nat.eqb (cur (run (E:=E) i p)) 0) eqn:Ec; [|lia].
      destruct (Nat.eqb (length p) 0) eqn:El; [lia|]. exfalso.
      apply Nat.eqb_eq in Ec. apply Nat.eqb_neq in El.
      rewrite offered_depot in Hoa. apply negb_true_iff in Hoa. unfold mask_depot in Hoa. rewrite Ec in Hoa. cbn [Nat.eqb andb] in Hoa.
      assert (Hc0 : c = []).
      { pose proof (inv_cur _ _ _ _ HI) as H1. pose proof (inv_crng _ _ _ _ HI) as H2. destruct c as [|x c]; [reflexivity|].
        cbn in H1. specialize (H2 x (or_introl eq_refl)). lia. }
      subst c.
      assert (Hd : done E i (run (E:=E) i p) = true).
      { cbn [done MTVRP]. unfold mtvrp_done. apply allb_forall. intros j Hj. rewrite (inv_len _ _ _ _ HI) in Hj.
        destruct j as [|j].
        - apply (inv_vis _ _ _ _ HI); [lia|]. rewrite (inv_curp _ _ _ _ HI) in Ec.
          destruct p as [|x p] using rev_ind; [cbn in El; lia|]. rewrite last_last in Ec. subst x. apply in_app_iff. right. left. reflexivity.
        - destruct (nth (S j) (vis (run (E:=E) i p)) false) eqn:Ev; [reflexivity|]. exfalso.
          assert (Hin : In (S j) (locs i)) by (apply in_seq; unfold n_of; lia).
          assert (can_visit exact R i (run (E:=E) i p) (S j) = true) as Hoff
            by (apply (fresh_can_visit i p); auto; unfold n_of; lia).
          assert (existsb (can_visit exact R i (run (E:=E) i p)) (locs i) = true) as Hex
            by (apply existsb_exists; exists (S j); split; assumption).
          congruence. }
      rewrite (Hnd p ([0%nat] ++ q)) in Hd; [discriminate | exact Hq | discriminate]. }
  destruct (G acts [] (eq_sym (app_nil_r acts))) as [c [HI Hb]].
  pose proof (customers_bound (n_of i) acts (inv_cnt _ _ _ _ HI) (inv_rng _ _ _ _ HI)) as Hcb.
  unfold ncust in Hb. destruct (Nat.eqb (cur (run (E:=E) i acts)) 0); destruct (Nat.eqb (length acts) 0); lia.
Qed.

(* ================================================================ C04 (row-wise half): padding is inert *)
Lemma done_mask i s : length (vis s) = nn i -> (0 < nn i)%nat -> mtvrp_done i s = true ->
  mtvrp_mask exact R i s = true :: repeat false (n_of i).
Proof.
  intros Hl Hn Hds. unfold mtvrp_mask.
  assert (Hall : forall j, In j (locs i) -> can_visit exact R i s j = false).
  { intros j Hj. apply in_seq in Hj. unfold can_visit. unfold mtvrp_done in Hds.
    rewrite (allb_nth _ j Hds) by (unfold n_of in Hj; lia). cbn [negb]. apply andb_false_r. }
  f_equal.
  - unfold mask_depot. replace (existsb (can_visit exact R i s) (locs i)) with false; [rewrite andb_false_r; reflexivity|].
    symmetry. apply not_true_iff_false. intros H. apply existsb_exists in H as (j & Hj & Hm). rewrite Hall in Hm by exact Hj. discriminate.
  - unfold locs in *. clear -Hall. revert Hall. generalize 1%nat. induction (n_of i) as [|n IH]; intros st Hall; [reflexivity|].
    cbn [seq map repeat]. rewrite Hall by (left; reflexivity). f_equal. apply IH. intros j Hj. apply Hall. right. exact Hj.
Qed.

Theorem mtvrp_padding_inert i acts k :
  mtvrp_wf i -> adm (E:=E) i acts = true -> done E i (run (E:=E) i acts) = true ->
  let pad := repeat 0%nat k in
  adm (E:=E) i (acts ++ pad) = true /\
  done E i (run (E:=E) i (acts ++ pad)) = true /\
  mask E i (run (E:=E) i (acts ++ pad)) = true :: repeat false (n_of i) /\
  mtvrp_reward i (acts ++ pad) = mtvrp_reward i acts.
Proof.
  intros Hwf Hadm Hd. cbv zeta. pose proof (wf_parts i Hwf) as (Hnn & _ & _ & _ & _ & Hnode).
  assert (H00 : cost_fun i 0%nat 0%nat = 0).
  { unfold cost_fun. destruct (opn i); cbn; [reflexivity|]. destruct (Hnode 0%nat Hnn) as (_ & _ & _ & _ & _ & _ & _ & H & _). exact H. }
  induction k as [|k IH].
  - cbn [repeat]. rewrite app_nil_r. destruct (adm_inv i acts Hwf Hadm) as [c HI].
    repeat split; auto. apply done_mask; [exact (inv_len _ _ _ _ HI) | exact Hnn | exact Hd].
  - destruct IH as (IH1 & IH2 & IH3 & IH4).
    replace (repeat 0%nat (S k)) with (repeat 0%nat k ++ [0%nat]) by (symmetry; apply (repeat_cons k 0%nat)).
    rewrite app_assoc.
    assert (Ho : offered (E:=E) i (run (E:=E) i (acts ++ repeat 0%nat k)) 0 = true).
    { unfold offered. rewrite IH3. reflexivity. }
    assert (Hadm' : adm (E:=E) i ((acts ++ repeat 0%nat k) ++ [0%nat]) = true) by (rewrite adm_snoc, IH1, Ho; reflexivity).
    assert (Hd' : done E i (run (E:=E) i ((acts ++ repeat 0%nat k) ++ [0%nat])) = true) by (apply mtvrp_done_stable; assumption).
    destruct (adm_inv i _ Hwf Hadm') as [c HI].
    repeat split; auto.
    + apply done_mask; [exact (inv_len _ _ _ _ HI) | exact Hnn | exact Hd'].
    + rewrite <- app_assoc.
      replace (repeat 0%nat k ++ [0%nat]) with (repeat 0%nat (S k)) by (apply (repeat_cons k 0%nat)).
      unfold mtvrp_reward, cyclic_len. rewrite walk_len_pad by exact H00. reflexivity.
Qed.

(* ================================================================ C05 *)
(* A solution of the problem is a list of non-empty routes partitioning the customers, each feasible.
   Its canonical encoding visits the depot once after every route. *)
Definition enc_routes (rs : list (list nat)) : list nat := concat (map (fun r => r ++ [0%nat]) rs).

(* the route predicate the mask is complete for: every inequality of the problem definition as it is, except
   that the time comparisons are the mask's ([<=] when repaired, [<] for the shipped code) *)
Definition tw_for (i : mtvrp_inst) (r : list nat) : bool :=
  tw_gen (tfun i) (opn i) (lo i) (hi i) (sv i) (tcmp R) 0%nat 0 r.
Definition route_ok_for (i : mtvrp_inst) (r : list nat) : bool :=
  (load (dlf i) r <=? cap i) && (load (dbf i) r <=? cap i) && prec_ok (dlf i) (dbf i) r
  && (route_cost (dfun i) (opn i) r <=? lim i) && tw_for i r.

Lemma tcmp_mono R' x x' y : x' <= x -> tcmp R' x y = true -> tcmp R' x' y = true.
Proof. unfold tcmp. destruct R'; lia. Qed.

Lemma metric_parts i : mtvrp_metricb i = true -> forall x y, (x < nn i)%nat -> (y < nn i)%nat ->
  dfun i x 0%nat <= dfun i x y + dfun i y 0%nat /\ tfun i x 0%nat <= tfun i x y + tfun i y 0%nat.
Proof.
  unfold mtvrp_metricb. intros H x y Hx Hy. rewrite forallb_forall in H. specialize (H x ltac:(apply in_seq; lia)).
  rewrite forallb_forall in H. specialize (H y ltac:(apply in_seq; lia)). lia.
Qed.

Lemma last_app_ne (a b : list nat) d : b <> [] -> last (a ++ b) d = last b d.
Proof.
  intros Hb. induction a as [|x a IH]; [reflexivity|]. cbn [app]. destruct (a ++ b) eqn:E.
  - destruct a; [cbn in E; congruence | discriminate].
  - rewrite <- IH. reflexivity.
Qed.
Lemma last_cons (y : nat) b x : last (y :: b) x = last b y.
Proof. destruct b as [|z b]; [reflexivity|]. change (last (y :: z :: b) x) with (last (z :: b) x). apply last_default_irrel. Qed.

(* going on via b and then home is never shorter than going home directly *)
Lemma back_le i : mtvrp_metricb i = true -> forall b x, (x < nn i)%nat -> (forall y, In y b -> (y < nn i)%nat) ->
  dfun i x 0%nat <= opath_len (dfun i) x b + dfun i (last b x) 0%nat.
Proof.
  intros Hm b. induction b as [|y b IH]; intros x Hx Hb; [simpl; lia|].
  cbn [opath_len]. rewrite last_cons.
  specialize (IH y (Hb y (or_introl eq_refl)) (fun z Hz => Hb z (or_intror Hz))).
  destruct (metric_parts i Hm x y Hx (Hb y (or_introl eq_refl))). lia.
Qed.
Lemma opath_nonneg i : mtvrp_wf i -> forall b x, (x < nn i)%nat -> (forall y, In y b -> (y < nn i)%nat) ->
  0 <= opath_len (dfun i) x b.
Proof.
  intros Hwf b. pose proof (wf_parts i Hwf) as (_ & _ & _ & _ & _ & Hnode).
  induction b as [|y b IH]; intros x Hx Hb; [simpl; lia|]. cbn [opath_len].
  specialize (IH y (Hb y (or_introl eq_refl)) (fun z Hz => Hb z (or_intror Hz))).
  destruct (Hnode x Hx) as (_ & _ & _ & _ & _ & _ & _ & _ & _ & Hd). destruct (Hd y (Hb y (or_introl eq_refl))). lia.
Qed.
(* if the rest of a closed route can be completed in time, the vehicle could also go home right away *)
Lemma tw_back i : mtvrp_wf i -> mtvrp_metricb i = true -> opn i = false ->
  forall b x tm, (x < nn i)%nat -> (forall y, In y b -> (y < nn i)%nat) ->
  tw_gen (tfun i) (opn i) (lo i) (hi i) (sv i) (tcmp R) x tm b = true ->
  tcmp R (tm + tfun i x 0%nat) (hi i 0%nat) = true.
Proof.
  intros Hwf Hm Ho b. pose proof (wf_parts i Hwf) as (_ & _ & _ & _ & _ & Hnode).
  induction b as [|y b IH]; intros x tm Hx Hb H; cbn [tw_gen] in H.
  - rewrite Ho in H. exact H.
  - apply andb_prop in H as [_ H]. assert (Hy : (y < nn i)%nat) by (apply Hb; left; reflexivity).
    specialize (IH y _ Hy (fun z Hz => Hb z (or_intror Hz)) H).
    destruct (metric_parts i Hm x y Hx Hy) as [_ Ht]. destruct (Hnode y Hy) as (_ & _ & _ & _ & _ & Hsv & _).
    eapply tcmp_mono; [|exact IH]. lia.
Qed.

Lemma adm_route i : mtvrp_wf i -> mtvrp_metricb i = true -> forall r p c s,
  Inv i p c s -> NoDup r -> (forall x, In x r -> (1 <= x <= n_of i)%nat /\ ~ In x p) ->
  route_ok_for i (rev c ++ r) = true ->
  adm_from (E:=E) i s r = true /\ Inv i (p ++ r) (rev r ++ c) (run_from (E:=E) i s r).
Proof.
  intros Hwf Hmet r. pose proof (wf_parts i Hwf) as (Hnn & Hcap & Hlim & Hdl0 & Hdb0 & Hnode).
  induction r as [|x r IH]; intros p c s HI Hnd Hin Hok.
  - cbn. rewrite app_nil_r. split; [reflexivity | exact HI].
  - cbn [adm_from run_from].
    destruct (Hin x (or_introl eq_refl)) as [Hx Hxp].
    assert (Hxn : (x < nn i)%nat) by (unfold n_of in Hx; lia).
    assert (Hrn : forall y, In y r -> (y < nn i)%nat).
    { intros y Hy. destruct (Hin y (or_intror Hy)) as [H _]. unfold n_of in H. lia. }
    assert (Hcn : (cur s < nn i)%nat).
    { rewrite (inv_cur _ _ _ _ HI). destruct c as [|y c]; [exact Hnn|]. cbn.
      pose proof (inv_crng _ _ _ _ HI y (or_introl eq_refl)) as H. unfold n_of in H. lia. }
    destruct (Hnode x Hxn) as (Hdlx & Hdbx & Honex & Hposx & Hlox & Hsvx & Hlohix & _).
    unfold route_ok_for in Hok. rewrite !andb_true_iff in Hok. destruct Hok as [[[[Kl Kb] Kp] Kc] Kt].
    assert (Ho : offered (E:=E) i s x = true).
    { rewrite offered_loc by lia. apply andb_true_intro. split; [apply Nat.leb_le; lia|].
      unfold can_visit. rewrite !andb_true_iff. repeat split.
      - (* customer deadline *)
        unfold can_reach_customer, arrival. rewrite rnd_exact.
        unfold tw_for in Kt. rewrite tw_gen_app in Kt. apply andb_prop in Kt as [_ Kt]. cbn [tw_gen] in Kt.
        apply andb_prop in Kt as [Kt _]. rewrite last_rev_hd, <- (inv_cur _ _ _ _ HI), <- (inv_tim _ _ _ _ HI) in Kt.
        eapply tcmp_mono; [|exact Kt]. lia.
      - (* depot deadline *)
        unfold can_reach_depot, back_time, arrival. rewrite !rnd_exact.
        destruct (opn i) eqn:Eo.
        + apply tcmp_of_lt. destruct (Hnode 0%nat Hnn) as (_ & _ & _ & _ & H1 & _ & H2 & _). lia.
        + unfold tw_for in Kt. rewrite tw_gen_app in Kt. apply andb_prop in Kt as [_ Kt]. cbn [tw_gen] in Kt.
          apply andb_prop in Kt as [_ Kt]. rewrite last_rev_hd, <- (inv_cur _ _ _ _ HI), <- (inv_tim _ _ _ _ HI) in Kt.
          apply (tw_back i Hwf Hmet Eo r x _ Hxn Hrn) in Kt. exact Kt.
      - (* demand rule *)
        unfold meets_demand_constraint, exceeds_cap_linehaul, exceeds_cap_backhaul. rewrite !rnd_exact.
        rewrite load_app in Kl, Kb. rewrite <- (inv_usedl _ _ _ _ HI) in Kl. rewrite <- (inv_usedb _ _ _ _ HI) in Kb.
        replace (load (dlf i) (x :: r)) with (dlf i x + load (dlf i) r) in Kl by reflexivity.
        replace (load (dbf i) (x :: r)) with (dbf i x + load (dbf i) r) in Kb by reflexivity.
        pose proof (load_nonneg (dlf i) r (fun y => dlf_nonneg i y Hwf)).
        pose proof (load_nonneg (dbf i) r (fun y => dbf_nonneg i y Hwf)).
        destruct (0 <? dbf i x) eqn:Eb; [apply orb_true_iff; right; lia|].
        assert (Hl : 0 < dlf i x) by lia.
        apply orb_true_iff. left. rewrite !andb_true_iff. repeat split; try lia.
        + unfold linehauls_missing.
          pose proof (sum_ge_term (fun k => if nth k (vis s) false then 0 else dlf i k) (nn i) x) as Hs. cbn beta in Hs.
          assert (nth x (vis s) false = false) as Hv.
          { destruct (nth x (vis s) false) eqn:Ev; [|reflexivity]. exfalso. apply Hxp. apply (inv_vis _ _ _ _ HI); [exact Hxn | exact Ev]. }
          rewrite Hv in Hs.
          assert (forall k, 0 <= (if nth k (vis s) false then 0 else dlf i k)) as Hk.
          { intros k. destruct (nth k (vis s) false); [lia | apply dlf_nonneg; exact Hwf]. }
          specialize (Hs Hk Hxn). lia.
        + (* x is a linehaul customer, so no backhaul customer precedes it in the route *)
          rewrite prec_ok_app in Kp. rewrite !andb_true_iff in Kp. destruct Kp as [_ Kp].
          cbn [forallb] in Kp. unfold is_linehaul at 1 in Kp. replace (0 <? dlf i x) with true in Kp by lia.
          cbn [negb andb] in Kp. rewrite orb_false_r in Kp.
          unfold is_carrying_backhaul. rewrite (inv_cur _ _ _ _ HI). destruct c as [|y c]; [cbn; lia|].
          cbn [hd]. cbn [rev] in Kp. rewrite forallb_app in Kp. apply andb_prop in Kp as [_ Kp]. cbn [forallb] in Kp.
          unfold is_backhaul in Kp. lia.
      - (* distance limit *)
        unfold exceeds_dist_limit. rewrite !rnd_exact. apply negb_true_iff.
        rewrite route_cost_eq, opath_len_app, last_rev_hd, <- (inv_cur _ _ _ _ HI), <- (inv_rlen _ _ _ _ HI) in Kc.
        cbn [opath_len] in Kc.
        replace (last (rev c ++ x :: r) 0%nat) with (last r x) in Kc.
        2:{ rewrite last_app_ne by discriminate. symmetry; apply last_cons. }
        pose proof (opath_nonneg i Hwf r x Hxn Hrn).
        destruct (opn i); [lia|]. pose proof (back_le i Hmet r x Hxn Hrn). lia.
      - (* not yet visited *)
        apply negb_true_iff. destruct (nth x (vis s) false) eqn:Ev; [|reflexivity]. exfalso. apply Hxp.
        apply (inv_vis _ _ _ _ HI); [exact Hxn | exact Ev]. }
    pose proof (step_inv i p c s x Hwf HI Ho) as HI'.
    replace (Nat.eqb x 0) with false in HI' by (symmetry; apply Nat.eqb_neq; lia).
    inversion Hnd as [|? ? Hxr Hnd']; subst.
    destruct (IH (p ++ [x]) (x :: c) _ HI' Hnd') as [Ha HI''].
    + intros y Hy. destruct (Hin y (or_intror Hy)) as [Hy1 Hy2]. split; [exact Hy1|].
      intros Hc. apply in_app_iff in Hc as [Hc|[Hc|[]]]; [tauto | subst; tauto].
    + cbn [rev]. rewrite <- app_assoc. cbn [app]. unfold route_ok_for. rewrite Kl, Kb, Kp, Kc, Kt. reflexivity.
    + cbn [step MTVRP] in *. rewrite Ho, Ha. split; [reflexivity|]. cbn [rev]. rewrite <- !app_assoc in *. exact HI''.
Qed.

Lemma adm_routes i : mtvrp_wf i -> mtvrp_metricb i = true -> forall rs p s,
  Inv i p [] s ->
  Forall (fun r => r <> []) rs -> NoDup (concat rs) ->
  (forall x, In x (concat rs) -> (1 <= x <= n_of i)%nat /\ ~ In x p) ->
  Forall (fun r => route_ok_for i r = true) rs ->
  adm_from (E:=E) i s (enc_routes rs) = true /\
  Inv i (p ++ enc_routes rs) [] (run_from (E:=E) i s (enc_routes rs)).
Proof.
  intros Hwf Hmet rs. induction rs as [|r rs IH]; intros p s HI Hne Hnd Hin Hload.
  - cbn. rewrite app_nil_r. split; [reflexivity | exact HI].
  - unfold enc_routes. cbn [map concat]. fold (enc_routes rs).
    inversion Hne as [|? ? Hr Hne']; subst. inversion Hload as [|? ? Hlr Hload']; subst.
    cbn [concat] in Hnd, Hin. pose proof (NoDup_app_l _ _ Hnd) as Hndr.
    destruct (adm_route i Hwf Hmet r p [] s HI Hndr) as [Ha1 HI1].
    { intros x Hx. apply Hin. apply in_app_iff. left. exact Hx. }
    { cbn. exact Hlr. }
    set (s1 := run_from (E:=E) i s r) in *.
    assert (Hc1 : cur s1 <> 0%nat).
    { rewrite (inv_curp _ _ _ _ HI1). destruct r as [|x r] using rev_ind; [congruence|].
      rewrite app_assoc, last_last. destruct (Hin x) as [Hx _]; [apply in_app_iff; left; apply in_app_iff; right; left; reflexivity|]. lia. }
    assert (Ho : offered (E:=E) i s1 0 = true).
    { rewrite offered_depot. unfold mask_depot. apply Nat.eqb_neq in Hc1. rewrite Hc1. reflexivity. }
    pose proof (step_inv i _ _ s1 0%nat Hwf HI1 Ho) as HI2. cbn [Nat.eqb] in HI2.
    destruct (IH ((p ++ r) ++ [0%nat]) _ HI2 Hne') as [Ha3 HI3].
    + apply NoDup_app_r in Hnd. exact Hnd.
    + intros x Hx. destruct (Hin x) as [Hx1 Hx2]; [apply in_app_iff; right; exact Hx|]. split; [exact Hx1|].
      intros Hc. apply in_app_iff in Hc as [Hc|[Hc|[]]]; [|lia].
      apply in_app_iff in Hc as [Hc|Hc]; [tauto|].
      exact (NoDup_app_disj _ _ x Hnd Hc Hx).
    + exact Hload'.
    + rewrite <- !app_assoc. rewrite adm_from_app, Ha1. cbn [andb]. fold s1.
      rewrite run_from_app. fold s1. cbn [app adm_from run_from]. rewrite Ho. cbn [andb].
      split; [exact Ha3|]. rewrite <- !app_assoc in HI3. cbn [app] in HI3. exact HI3.
Qed.

Lemma routes_enc rs : Forall (fun r => Forall (fun x => x <> 0%nat) r) rs -> routes (enc_routes rs) = rs ++ [[]].
Proof.
  intros Hnz. unfold routes.
  assert (G : forall r c, Forall (fun x => x <> 0%nat) r -> forall rest, routes_aux (r ++ 0%nat :: rest) c = (rev c ++ r) :: routes_aux rest []).
  { induction r as [|x r IHr]; intros c Hr rest; cbn [app routes_aux].
    - cbn. rewrite app_nil_r. reflexivity.
    - inversion Hr as [|? ? Hx Hr']; subst. apply Nat.eqb_neq in Hx. rewrite Hx. rewrite IHr by exact Hr'. cbn [rev]. rewrite <- app_assoc. reflexivity. }
  induction rs as [|r rs IH]; [reflexivity|]. inversion Hnz as [|? ? Hr Hnz']; subst.
  unfold enc_routes. cbn [map concat]. fold (enc_routes rs). rewrite <- app_assoc. cbn [app].
  rewrite G by exact Hr. cbn [rev app]. f_equal. apply IH. exact Hnz'.
Qed.

Definition mtvrp_feasible_routes_for (i : mtvrp_inst) (rs : list (list nat)) : Prop :=
  rs <> [] /\ Forall (fun r => r <> []) rs /\ NoDup (concat rs) /\
  (forall x, In x (concat rs) <-> (1 <= x <= n_of i)%nat) /\
  Forall (fun r => route_ok_for i r = true) rs.

Theorem mtvrp_mask_complete_gen i rs :
  mtvrp_wf i -> mtvrp_metricb i = true -> mtvrp_feasible_routes_for i rs ->
  adm (E:=E) i (enc_routes rs) = true /\
  done E i (run (E:=E) i (enc_routes rs)) = true /\
  routes (enc_routes rs) = rs ++ [[]].
Proof.
  intros Hwf Hmet (Hne & Hnn & Hnd & Hin & Hload).
  destruct (adm_routes i Hwf Hmet rs [] _ (reset_inv i Hwf) Hnn Hnd) as [Ha HI]; [|exact Hload|].
  { intros x Hx. split; [apply Hin; exact Hx | intros []]. }
  split; [exact Ha|]. split.
  - cbn [done MTVRP]. unfold mtvrp_done. apply allb_forall. intros j Hj. cbn [app] in HI.
    unfold run in *. cbn [reset MTVRP] in *.
    rewrite (inv_len _ _ _ _ HI) in Hj. apply (inv_vis _ _ _ _ HI); [lia|].
    destruct j as [|j].
    + destruct rs as [|r rs]; [congruence|]. unfold enc_routes. cbn [map concat].
      apply in_app_iff. left. apply in_app_iff. right. left. reflexivity.
    + assert (Hj' : In (S j) (concat rs)) by (apply Hin; unfold n_of; lia).
      clear -Hj'. induction rs as [|r rs IH]; [destruct Hj'|]. unfold enc_routes. cbn [map concat] in *.
      apply in_app_iff in Hj' as [H|H]; apply in_app_iff; [left; apply in_app_iff; left; exact H | right; apply IH; exact H].
  - apply routes_enc. apply Forall_forall. intros r Hr. apply Forall_forall. intros x Hx.
    assert (In x (concat rs)) as Hc by (apply in_concat; exists r; split; assumption). apply Hin in Hc. lia.
Qed.

End Proofs.

(* ================================================================ C03 *)
Lemma path_cost_open i : opn i = true -> forall r from, Forall (fun x => x <> 0%nat) r ->
  path_len (cost_fun i) from r = opath_len (dfun i) from r.
Proof.
  intros Eo r. induction r as [|x r IH]; intros from Hnz; cbn [path_len opath_len]; unfold cost_fun at 1; rewrite Eo.
  - reflexivity.
  - inversion Hnz as [|? ? Hx Hr]; subst. apply Nat.eqb_neq in Hx. rewrite Hx. cbn [andb]. rewrite IH by exact Hr. reflexivity.
Qed.
Lemma path_cost_closed i : opn i = false -> forall r from, path_len (cost_fun i) from r = path_len (dfun i) from r.
Proof.
  intros Eo r. induction r as [|x r IH]; intros from; cbn [path_len]; unfold cost_fun at 1; rewrite Eo; cbn [andb];
    [reflexivity | rewrite IH; reflexivity].
Qed.
Lemma route_len_cost_fun i r : Forall (fun x => x <> 0%nat) r ->
  route_len (cost_fun i) r = route_cost (dfun i) (opn i) r.
Proof.
  intros Hnz. unfold route_cost, route_len. destruct (opn i) eqn:Eo.
  - apply path_cost_open; assumption.
  - apply path_cost_closed; assumption.
Qed.

(* for ANY action list: what _get_reward computes (cyclic walk along depot :: actions, legs into the depot of an open
   route not charged) is minus the sum over routes of the route cost of the problem definition *)
Theorem mtvrp_reward_is_objective i acts :
  dfun i 0%nat 0%nat = 0 -> mtvrp_reward i acts = mtvrp_objective i acts.
Proof.
  intros H00. unfold mtvrp_reward, mtvrp_objective, total_cost.
  rewrite cyclic_len_is_total_len by (unfold cost_fun; destruct (opn i); cbn; [reflexivity | exact H00]).
  unfold total_len. f_equal. f_equal. pose proof (routes_nonzero acts) as Hnz.
  induction Hnz as [|r l Hr _ IH]; [reflexivity|]. cbn [map]. rewrite IH, route_len_cost_fun by exact Hr. reflexivity.
Qed.

(* ================================================================ C05: the two instances of the general theorem *)
Lemma tw_gen_ext t o l h s (c1 c2 : Z -> Z -> bool) : (forall x y, c1 x y = c2 x y) ->
  forall r from tm, tw_gen t o l h s c1 from tm r = tw_gen t o l h s c2 from tm r.
Proof.
  intros Hc r. induction r as [|x r IH]; intros from tm; cbn [tw_gen]; [destruct o; [reflexivity | apply Hc]|].
  rewrite Hc, IH. reflexivity.
Qed.

(* HISTORY (the mask before /repo 9b8ead8, strict time comparisons; recorded as fixed in known_findings.json): every
   solution whose service starts and depot returns all have STRICT slack was reachable through that mask *)
Theorem mtvrp_mask_complete_strict i rs :
  mtvrp_wf i -> mtvrp_metricb i = true ->
  rs <> [] -> Forall (fun r => r <> []) rs -> NoDup (concat rs) ->
  (forall x, In x (concat rs) <-> (1 <= x <= n_of i)%nat) ->
  Forall (fun r => load (dlf i) r <= cap i /\ load (dbf i) r <= cap i /\ prec_ok (dlf i) (dbf i) r = true /\
                   route_cost (dfun i) (opn i) r <= lim i /\
                   tw_strict (tfun i) (opn i) (lo i) (hi i) (sv i) 0%nat 0 r = true) rs ->
  adm (E:=MTVRP exact false) i (enc_routes rs) = true /\
  done (MTVRP exact false) i (run (E:=MTVRP exact false) i (enc_routes rs)) = true /\
  routes (enc_routes rs) = rs ++ [[]].
Proof.
  intros Hwf Hmet H1 H2 H3 H4 H5. apply mtvrp_mask_complete_gen; [exact Hwf | exact Hmet|].
  unfold mtvrp_feasible_routes_for. split; [exact H1|]. split; [exact H2|]. split; [exact H3|]. split; [exact H4|].
  rewrite Forall_forall in *. intros r Hr. destruct (H5 r Hr) as (A1 & A2 & A3 & A4 & A5).
  unfold route_ok_for, tw_for. rewrite A3. rewrite tw_strict_gen in A5.
  rewrite (tw_gen_ext _ _ _ _ _ (tcmp false) Z.ltb) by reflexivity. rewrite A5. lia.
Qed.

(* THE MASK AS IT IS ([<=] in the two time comparisons since /repo 9b8ead8): every solution of the problem is reachable *)
Theorem mtvrp_mask_complete_repaired i rs :
  mtvrp_wf i -> mtvrp_metricb i = true ->
  rs <> [] -> Forall (fun r => r <> []) rs -> NoDup (concat rs) ->
  (forall x, In x (concat rs) <-> (1 <= x <= n_of i)%nat) ->
  Forall (fun r => route_okI i 0 r = true) rs ->
  adm (E:=MTVRP exact true) i (enc_routes rs) = true /\
  done (MTVRP exact true) i (run (E:=MTVRP exact true) i (enc_routes rs)) = true /\
  routes (enc_routes rs) = rs ++ [[]].
Proof.
  intros Hwf Hmet H1 H2 H3 H4 H5. apply mtvrp_mask_complete_gen; [exact Hwf | exact Hmet|].
  unfold mtvrp_feasible_routes_for. split; [exact H1|]. split; [exact H2|]. split; [exact H3|]. split; [exact H4|].
  rewrite Forall_forall in *. intros r Hr. specialize (H5 r Hr). specialize (H2 r Hr).
  unfold route_okI, route_ok in H5. destruct r as [|x r]; [congruence|].
  rewrite !andb_true_iff in H5. destruct H5 as [[[[A1 A2] A3] A4] A5].
  unfold route_ok_for, tw_for. rewrite A3. rewrite tw_ok_gen in A5.
  rewrite (tw_gen_ext _ _ _ _ _ (tcmp true) (fun x y => x <=? y + 0)) by (intros; unfold tcmp; lia). rewrite A5. lia.
Qed.

(* the canonical encoding loses nothing: its objective is minus the total cost of the routes *)
Theorem mtvrp_encode_objective i rs :
  dfun i 0%nat 0%nat = 0 -> Forall (fun r => Forall (fun x => x <> 0%nat) r) rs ->
  mtvrp_objective i (enc_routes rs) = - sumZ (map (route_cost (dfun i) (opn i)) rs).
Proof.
  intros H00 Hnz. unfold mtvrp_objective, total_cost. rewrite routes_enc by exact Hnz.
  rewrite map_app, sumZ_app. cbn [map sumZ]. unfold route_cost at 2, route_len. cbn [opath_len path_len].
  destruct (opn i); lia.
Qed.

(* ---- HISTORY, recorded as fixed in known_findings.json (/repo 9b8ead8).  The boundary instance of DESIGN section 8: one customer at travel time 80 (= 0.625 * 128) whose window
   closes at 80; depot window [0, 512] *)
Definition tw_eq_inst : mtvrp_inst :=
  {| dl := [0; 32]; db := [0; 0]; cap := 64; lim := 100000; opn := false;
     tlo := [0; 0]; thi := [512; 80]; svc := [0; 0];
     dist := [[0; 80]; [80; 0]]; tt := [[0; 80]; [80; 0]] |}.

(* feasible by the problem definition, accepted by the checker, admitted by the mask as it is now (R = true) -- and
   the former strict mask (R = false) does not offer the customer at reset *)
Theorem mtvrp_tw_equality_hidden_refuted :
  exists (i : mtvrp_inst) (rs : list (list nat)),
    mtvrp_wf i /\ mtvrp_metricb i = true /\ mtvrp_solvableb true i = true /\
    mtvrp_feasible i (enc_routes rs) /\
    Forall (fun r => route_okI i 0 r = true) rs /\
    mtvrp_checker exact i (enc_routes rs) = true /\
    adm (E:=MTVRP exact true) i (enc_routes rs) = true /\
    adm (E:=MTVRP exact false) i (enc_routes rs) = false /\
    mask (MTVRP exact false) i (reset (MTVRP exact false) i) = [true; false].
Proof.
  exists tw_eq_inst, [[1%nat]].
  repeat (split; [vm_compute; reflexivity|]).
  split; [apply mtvrp_feasibleb_ok; vm_compute; reflexivity|].
  split; [repeat constructor|].
  repeat (split; [vm_compute; reflexivity|]). vm_compute; reflexivity.
Qed.

(* ... and no mask-confined episode of the former strict mask ever serves that customer: the row never finishes *)
Theorem mtvrp_tw_equality_never_served :
  forall acts, adm (E:=MTVRP exact false) tw_eq_inst acts = true ->
               done (MTVRP exact false) tw_eq_inst (run (E:=MTVRP exact false) tw_eq_inst acts) = false.
Proof.
  intros acts. unfold adm, run.
  assert (G : forall s, (s = reset (MTVRP exact false) tw_eq_inst \/ s = step (MTVRP exact false) tw_eq_inst (reset (MTVRP exact false) tw_eq_inst) 0%nat) ->
              adm_from (E:=MTVRP exact false) tw_eq_inst s acts = true ->
              done (MTVRP exact false) tw_eq_inst (run_from (E:=MTVRP exact false) tw_eq_inst s acts) = false).
  { induction acts as [|a r IH]; intros s Hs Hadm.
    - destruct Hs as [-> | ->]; vm_compute; reflexivity.
    - cbn [adm_from run_from] in *. apply andb_prop in Hadm as [Ho Hadm].
      destruct a as [|[|a]].
      + apply IH; [|exact Hadm]. right. destruct Hs as [-> | ->]; vm_compute; reflexivity.
      + exfalso. destruct Hs as [-> | ->]; vm_compute in Ho; discriminate.
      + exfalso. destruct Hs as [-> | ->]; unfold offered in Ho; cbn in Ho; destruct a; discriminate. }
  apply G. left. reflexivity.
Qed.

(* the same boundary at the other strict site: the vehicle would be back at the depot exactly at the depot's deadline *)
Definition depot_eq_inst : mtvrp_inst :=
  {| dl := [0; 32]; db := [0; 0]; cap := 64; lim := 100000; opn := false;
     tlo := [0; 0]; thi := [160; 128]; svc := [0; 0];
     dist := [[0; 80]; [80; 0]]; tt := [[0; 80]; [80; 0]] |}.
Theorem mtvrp_depot_deadline_equality_hidden_refuted :
  exists (i : mtvrp_inst) (acts : list nat),
    mtvrp_wf i /\ mtvrp_metricb i = true /\ mtvrp_feasible i acts /\ mtvrp_checker exact i acts = true /\
    adm (E:=MTVRP exact true) i acts = true /\
    mask (MTVRP exact false) i (reset (MTVRP exact false) i) = [true; false].
Proof.
  exists depot_eq_inst, [1; 0]%nat.
  repeat (split; [vm_compute; reflexivity|]).
  split; [apply mtvrp_feasibleb_ok; vm_compute; reflexivity|].
  repeat (split; [vm_compute; reflexivity|]). vm_compute; reflexivity.
Qed.

(* ================================================================ C06 *)
Notation cmp0 := (fun x y : Z => x <=? y + 0).

Lemma sorted_ok_iff i acts :
  sorted_ok i acts = true <->
  (n_of i <= length acts)%nat /\ (forall j, (1 <= j <= n_of i)%nat -> occ j acts = 1%nat) /\ (forall a, In a acts -> (a <= n_of i)%nat).
Proof.
  unfold sorted_ok. set (n := n_of i). set (k := (length acts - n)%nat). set (s := sort_nat acts).
  rewrite !andb_true_iff, Nat.leb_le. split.
  - intros [[Hlen Hz] Hs]. split; [exact Hlen|].
    destruct (list_eq_dec Nat.eq_dec (skipn k s) (seq 1 n)) as [Hsk|]; [|discriminate].
    apply (sort_is_zeros_seq acts n Hlen). fold k. fold s.
    rewrite <- (firstn_skipn k s). rewrite Hsk. f_equal.
    assert (Hl : length (firstn k s) = k) by (unfold s; rewrite firstn_length, sort_length; unfold k; lia).
    rewrite <- Hl at 2. clear -Hz. induction (firstn k s) as [|x l IH]; [reflexivity|].
    cbn [forallb] in Hz. apply andb_prop in Hz as [Hx Hz]. apply Nat.eqb_eq in Hx. subst x. cbn [length repeat]. f_equal. apply IH. exact Hz.
  - intros (Hlen & Hocc & Hrng). pose proof (proj2 (sort_is_zeros_seq acts n Hlen) (conj Hocc Hrng)) as Hs. fold k in Hs. fold s in Hs.
    split; [split; [exact Hlen|]|].
    + rewrite Hs. rewrite firstn_app, repeat_length, Nat.sub_diag. cbn [firstn]. rewrite app_nil_r, firstn_all2 by (rewrite repeat_length; lia).
      apply forallb_forall. intros x Hx. apply repeat_spec in Hx. subst. reflexivity.
    + rewrite Hs. rewrite skipn_app, repeat_length, Nat.sub_diag. cbn [skipn]. rewrite skipn_all2 by (rewrite repeat_length; lia). cbn [app].
      destruct (list_eq_dec Nat.eq_dec (seq 1 n) (seq 1 n)); [reflexivity | congruence].
Qed.

Lemma routes_aux_ne acts : forall c, routes_aux acts c <> [].
Proof. induction acts as [|a r IH]; intros c; cbn [routes_aux]; [discriminate|]. destruct (Nat.eqb a 0); [discriminate | apply IH]. Qed.
Lemma removelast_cons_ne {A} (x : A) l : l <> [] -> removelast (x :: l) = x :: removelast l.
Proof. destruct l; [congruence | reflexivity]. Qed.
Lemma routes_aux_snoc0 acts : forall c, routes_aux (acts ++ [0%nat]) c = routes_aux acts c ++ [[]].
Proof. induction acts as [|a r IH]; intros c; cbn [app routes_aux]; [reflexivity|]. destruct (Nat.eqb a 0); [rewrite IH; reflexivity | apply IH]. Qed.

(* head route of a split: the open route continued up to the next depot visit *)
Lemma routes_aux_head acts : forall c, exists h t, routes_aux acts c = (rev c ++ h) :: t /\ (forall x, In x h -> In x acts).
Proof.
  induction acts as [|a r IH]; intros c; cbn [routes_aux].
  - exists [], []. rewrite app_nil_r. split; [reflexivity | intros x []].
  - destruct (Nat.eqb a 0).
    + exists [], (routes_aux r []). rewrite app_nil_r. split; [reflexivity | intros x []].
    + destruct (IH (a :: c)) as (h & t & E & Hh). exists (a :: h), t. split.
      * rewrite E. cbn [rev]. rewrite <- app_assoc. reflexivity.
      * intros x [<-|Hx]; [left; reflexivity | right; apply Hh; exact Hx].
Qed.

(* ---------------------------------------------------------------- soundness *)
Lemma walk_sound i : forall acts c node len t,
  node = hd 0%nat c -> len = opath_len (dfun i) 0%nat (rev c) ->
  t = dep_time (tfun i) (lo i) (sv i) 0%nat 0 (rev c) ->
  tw_pref (tfun i) (lo i) (hi i) (sv i) cmp0 0%nat 0 (rev c) = true ->
  walk_ok exact i node len t acts = true ->
  Forall (fun r => route_cost (dfun i) (opn i) r <= lim i /\
                   tw_ok (tfun i) (opn i) (lo i) (hi i) (sv i) 0 0%nat 0 r = true) (removelast (routes_aux acts c)).
Proof.
  induction acts as [|a r IH]; intros c node len t Hn Hl Ht Hp Hw; cbn [walk_ok routes_aux] in *.
  - constructor.
  - rewrite !rnd_exact in Hw. rewrite !andb_true_iff in Hw. destruct Hw as [[W1 W2] W3].
    destruct (Nat.eqb a 0) eqn:Ea.
    + apply Nat.eqb_eq in Ea. subst a. rewrite removelast_cons_ne by apply routes_aux_ne. constructor.
      * rewrite andb_true_r in W1. split.
        -- rewrite route_cost_eq, last_rev_hd, <- Hn, <- Hl. destruct (opn i); lia.
        -- rewrite tw_ok_gen, tw_gen_split, Hp, last_rev_hd, <- Hn, <- Ht. destruct (opn i); [reflexivity | lia].
      * apply (IH [] 0%nat 0 0); try reflexivity. exact W3.
    + rewrite andb_false_r in W1, W3. refine (IH (a :: c) a _ _ eq_refl _ _ _ W3).
      * cbn [rev]. rewrite opath_len_snoc, last_rev_hd, <- Hn, <- Hl. reflexivity.
      * cbn [rev]. rewrite dep_time_snoc, last_rev_hd, <- Hn, <- Ht. reflexivity.
      * cbn [rev]. rewrite tw_pref_snoc, Hp, last_rev_hd, <- Hn, <- Ht. cbn [andb]. lia.
Qed.

Lemma cap_sound i dem : dem 0%nat = 0 -> forall acts c u,
  u = load dem (rev c) -> u <= cap i -> cap_ok exact i dem u acts = true ->
  Forall (fun r => load dem r <= cap i) (routes_aux acts c).
Proof.
  intros H0 acts. induction acts as [|a r IH]; intros c u Hu Hc Hk; cbn [cap_ok routes_aux] in *.
  - constructor; [lia | constructor].
  - rewrite rnd_exact in Hk. apply andb_prop in Hk as [K1 K2]. destruct (Nat.eqb a 0) eqn:Ea.
    + apply Nat.eqb_eq in Ea. subst a. constructor; [lia|]. refine (IH [] _ _ _ K2); [cbn; lia | lia].
    + refine (IH (a :: c) _ _ _ K2); [cbn [rev]; rewrite load_snoc; lia | lia].
Qed.

(* accepted (any speed) => every customer exactly once, nodes in range, both loads of every route within the
   capacity, and for every route that is closed by a depot visit: length within the limit and all time windows met.
   NOT implied: linehauls before backhauls (never tested), and anything about the way back of a last route that the
   action list does not close with a depot visit. *)
Theorem mtvrp_checker_sound i acts :
  mtvrp_wf i -> mtvrp_checker exact i acts = true ->
  (forall j, (1 <= j <= n_of i)%nat -> occ j acts = 1%nat) /\
  (forall a, In a acts -> (a <= n_of i)%nat) /\
  Forall (fun r => load (dlf i) r <= cap i /\ load (dbf i) r <= cap i) (routes acts) /\
  Forall (fun r => route_cost (dfun i) (opn i) r <= lim i /\
                   tw_ok (tfun i) (opn i) (lo i) (hi i) (sv i) 0 0%nat 0 r = true) (removelast (routes acts)).
Proof.
  intros Hwf Hc. pose proof (wf_parts i Hwf) as (Hnn & Hcap & Hlim & Hdl0 & Hdb0 & Hnode).
  unfold mtvrp_checker in Hc. rewrite !andb_true_iff in Hc. destruct Hc as [[[[Hs _] Hw] Hcl] Hcb].
  apply sorted_ok_iff in Hs as (_ & Hocc & Hrng).
  split; [exact Hocc|]. split; [exact Hrng|]. split.
  - pose proof (cap_sound i (dlf i) Hdl0 acts [] 0 eq_refl Hcap Hcl) as F1.
    pose proof (cap_sound i (dbf i) Hdb0 acts [] 0 eq_refl Hcap Hcb) as F2.
    unfold routes. rewrite Forall_forall in *. intros r Hr. split; [apply F1 | apply F2]; exact Hr.
  - apply (walk_sound i acts [] 0%nat 0 0); try reflexivity. exact Hw.
Qed.

Lemma prec_ok_nobackhaul (dl' db' : nat -> Z) r : (forall x, db' x = 0) -> prec_ok dl' db' r = true.
Proof. intros H. induction r as [|x r IH]; cbn [prec_ok]; [reflexivity|]. unfold is_backhaul at 1. rewrite H, IH. reflexivity. Qed.

(* in particular: without backhaul customers, an accepted action list that ends at the depot is a solution *)
Corollary mtvrp_checker_sound_nobackhaul i acts' :
  mtvrp_wf i -> (forall x, dbf i x = 0) ->
  mtvrp_checker exact i (acts' ++ [0%nat]) = true -> mtvrp_feasible i (acts' ++ [0%nat]).
Proof.
  intros Hwf Hnb Hc. destruct (mtvrp_checker_sound i _ Hwf Hc) as (H1 & H2 & H3 & H4).
  split; [exact H1|]. split; [exact H2|].
  unfold routes in *. rewrite routes_aux_snoc0 in *. rewrite removelast_last in H4.
  apply Forall_app. split; [|constructor; [reflexivity | constructor]].
  apply Forall_app in H3 as [H3 _]. rewrite Forall_forall in *. intros r Hr.
  destruct (H3 r Hr) as [A1 A2]. destruct (H4 r Hr) as [A3 A4].
  unfold route_okI, route_ok. destruct r as [|x r]; [reflexivity|].
  rewrite (prec_ok_nobackhaul _ _ _ Hnb), A4. lia.
Qed.

(* each fault kind named by the property is rejected *)
Corollary mtvrp_checker_rejects_missing i acts j :
  (1 <= j <= n_of i)%nat -> ~ In j acts -> mtvrp_checker exact i acts = false.
Proof.
  intros Hj Hn. apply not_true_iff_false. intros Hc. unfold mtvrp_checker in Hc. rewrite !andb_true_iff in Hc.
  destruct Hc as [[[[Hs _] _] _] _]. apply sorted_ok_iff in Hs as (_ & Hocc & _). specialize (Hocc j Hj). apply occ_not_In in Hn. lia.
Qed.
Corollary mtvrp_checker_rejects_duplicate i acts j :
  (1 <= j <= n_of i)%nat -> (2 <= occ j acts)%nat -> mtvrp_checker exact i acts = false.
Proof.
  intros Hj Hn. apply not_true_iff_false. intros Hc. unfold mtvrp_checker in Hc. rewrite !andb_true_iff in Hc.
  destruct Hc as [[[[Hs _] _] _] _]. apply sorted_ok_iff in Hs as (_ & Hocc & _). specialize (Hocc j Hj). lia.
Qed.
Corollary mtvrp_checker_rejects_overload i acts r :
  mtvrp_wf i -> In r (routes acts) -> (cap i < load (dlf i) r \/ cap i < load (dbf i) r) ->
  mtvrp_checker exact i acts = false.
Proof.
  intros Hwf Hr Hl. apply not_true_iff_false. intros Hc.
  destruct (mtvrp_checker_sound i acts Hwf Hc) as (_ & _ & HF & _). rewrite Forall_forall in HF. specialize (HF r Hr). lia.
Qed.
(* over-length route / missed window, for routes closed by a depot visit *)
Corollary mtvrp_checker_rejects_overlength i acts r :
  mtvrp_wf i -> In r (removelast (routes acts)) -> lim i < route_cost (dfun i) (opn i) r ->
  mtvrp_checker exact i acts = false.
Proof.
  intros Hwf Hr Hl. apply not_true_iff_false. intros Hc.
  destruct (mtvrp_checker_sound i acts Hwf Hc) as (_ & _ & _ & HF). rewrite Forall_forall in HF. specialize (HF r Hr). lia.
Qed.
Corollary mtvrp_checker_rejects_late i acts r :
  mtvrp_wf i -> In r (removelast (routes acts)) ->
  tw_ok (tfun i) (opn i) (lo i) (hi i) (sv i) 0 0%nat 0 r = false ->
  mtvrp_checker exact i acts = false.
Proof.
  intros Hwf Hr Hl. apply not_true_iff_false. intros Hc.
  destruct (mtvrp_checker_sound i acts Hwf Hc) as (_ & _ & _ & HF). rewrite Forall_forall in HF. destruct (HF r Hr) as [_ H]. congruence.
Qed.

(* ---------------------------------------------------------------- completeness *)
(* open routes: the checker also clocks the (uncharged) way back and tests the depot deadline on it; this is the
   instance-level condition under which that extra demand is harmless -- whatever the customer, serving it as late
   as allowed still leaves time to drive home *)
Definition open_slack (i : mtvrp_inst) : Prop :=
  forall x, (1 <= x <= n_of i)%nat -> hi i x + sv i x + tfun i x 0%nat <= hi i 0%nat.

Notation okD i := (route_ok (dlf i) (dbf i) (cap i) (dfun i) (tfun i) (lim i) (opn i) (lo i) (hi i) (sv i) 0).

Lemma last_in (l : list nat) d : l <> [] -> In (last l d) l.
Proof.
  induction l as [|x l IH]; [congruence|]. intros _. destruct l as [|y l]; [left; reflexivity|].
  right. change (last (x :: y :: l) d) with (last (y :: l) d). apply IH. discriminate.
Qed.

Lemma route_ok_ne dl' db' cap' d' t' lim' o' lo' hi' sv' slack (r : list nat) : r <> [] ->
  route_ok dl' db' cap' d' t' lim' o' lo' hi' sv' slack r =
  (load dl' r <=? cap' + slack) && (load db' r <=? cap' + slack) && prec_ok dl' db' r
  && (route_cost d' o' r <=? lim' + slack) && tw_ok t' o' lo' hi' sv' slack 0%nat 0 r.
Proof. destruct r; [congruence | reflexivity]. Qed.

Lemma walk_complete i : mtvrp_wf i -> (opn i = false \/ open_slack i) -> forall acts c node len t,
  (forall a, In a acts -> (a < nn i)%nat) -> (forall x, In x c -> (1 <= x <= n_of i)%nat) ->
  node = hd 0%nat c -> len = opath_len (dfun i) 0%nat (rev c) ->
  t = dep_time (tfun i) (lo i) (sv i) 0%nat 0 (rev c) ->
  Forall (fun r => okD i r = true) (routes_aux acts c) ->
  walk_ok exact i node len t acts = true.
Proof.
  intros Hwf Hopen. pose proof (wf_parts i Hwf) as (Hnn & Hcap & Hlim & Hdl0 & Hdb0 & Hnode).
  induction acts as [|a r IH]; intros c node len t Hra Hrc Hn Hl Ht HF; cbn [walk_ok routes_aux] in *; [reflexivity|].
  rewrite !rnd_exact.
  assert (Hnr : (node < nn i)%nat).
  { subst node. destruct c as [|x c]; [exact Hnn|]. cbn. specialize (Hrc x (or_introl eq_refl)). unfold n_of in Hrc. lia. }
  destruct (Nat.eqb a 0) eqn:Ea.
  - apply Nat.eqb_eq in Ea. subst a. apply Forall_cons_iff in HF as [H1 H2]. rewrite andb_true_r.
    rewrite (IH [] 0%nat 0 0); try reflexivity; try exact H2; [|intros a Ha; apply Hra; right; exact Ha | intros x []].
    rewrite andb_true_r.
    destruct (Hnode 0%nat Hnn) as (_ & _ & _ & _ & Hlo0 & _ & Hlh0 & Hd00 & Ht00 & _).
    destruct c as [|x c].
    + cbn [hd rev opath_len dep_time] in *. subst node len t. rewrite Hd00, Ht00. destruct (opn i); lia.
    + assert (Hxr : (1 <= x <= n_of i)%nat) by (apply Hrc; left; reflexivity).
      assert (Hxn : (x < nn i)%nat) by (unfold n_of in Hxr; lia).
      rewrite route_ok_ne in H1 by (cbn [rev]; intros Hc; apply app_eq_nil in Hc as [_ Hc]; discriminate).
      rewrite !andb_true_iff in H1. destruct H1 as [[[[_ _] _] Kc] Kt].
      rewrite route_cost_eq, last_rev_hd, <- Hl in Kc. cbn [hd] in *.
      rewrite tw_ok_gen, tw_gen_split, last_rev_hd, <- Ht in Kt. cbn [hd] in Kt. apply andb_prop in Kt as [Kp Kr].
      destruct (opn i) eqn:Eo.
      * destruct Hopen as [Ho|Ho]; [congruence|]. specialize (Ho x Hxr).
        cbn [rev] in Kp, Ht. rewrite tw_pref_snoc in Kp. apply andb_prop in Kp as [_ Kp]. rewrite dep_time_snoc in Ht. subst node. lia.
      * subst node. lia.
  - rewrite andb_false_r.
    assert (Han : (a < nn i)%nat) by (apply Hra; left; reflexivity).
    assert (Ha1 : (1 <= a <= n_of i)%nat) by (apply Nat.eqb_neq in Ea; unfold n_of; lia).
    destruct (routes_aux_head r (a :: c)) as (h & tl & E & Hh). pose proof HF as HF'. rewrite E in HF. apply Forall_cons_iff in HF as [H1 _].
    assert (Hhr : forall y, In y h -> (y < nn i)%nat) by (intros y Hy; apply Hra; right; apply Hh; exact Hy).
    assert (Hne : (rev c ++ [a]) ++ h <> []).
    { intros Hc. apply app_eq_nil in Hc as [Hc _]. apply app_eq_nil in Hc as [_ Hc]. discriminate. }
    cbn [rev] in H1. rewrite route_ok_ne in H1 by exact Hne. rewrite !andb_true_iff in H1. destruct H1 as [[[[_ _] _] Kc] Kt].
    rewrite route_cost_eq, opath_len_app, opath_len_snoc, !last_last, last_rev_hd, <- Hn, <- Hl in Kc.
    rewrite tw_ok_gen, tw_gen_app, tw_pref_snoc, last_rev_hd, <- Hn, <- Ht in Kt.
    rewrite !andb_true_iff in Kt. destruct Kt as [[_ Kt] _].
    pose proof (opath_nonneg i Hwf h a Han Hhr) as Hpos.
    assert (Hret : 0 <= (if opn i then 0 else dfun i (last ((rev c ++ [a]) ++ h) 0%nat) 0%nat)).
    { destruct (opn i); [lia|].
      assert (In (last ((rev c ++ [a]) ++ h) 0%nat) ((rev c ++ [a]) ++ h)) as Hin by (apply last_in; exact Hne).
      assert ((last ((rev c ++ [a]) ++ h) 0%nat < nn i)%nat) as Hln.
      { apply in_app_iff in Hin as [Hin|Hin]; [|apply Hhr; exact Hin].
        apply in_app_iff in Hin as [Hin|[<-|[]]]; [|exact Han]. apply in_rev in Hin. specialize (Hrc _ Hin). unfold n_of in Hrc. lia. }
      destruct (Hnode _ Hln) as (_ & _ & _ & _ & _ & _ & _ & _ & _ & Hd). destruct (Hd 0%nat Hnn). lia. }
    replace (len + dfun i node a <=? lim i) with true by lia.
    replace (Z.max (t + tfun i node a) (lo i a) <=? hi i a) with true by lia. cbn [andb].
    apply (IH (a :: c) a).
    + intros b Hb. apply Hra. right. exact Hb.
    + intros x [<-|Hx]; [exact Ha1 | apply Hrc; exact Hx].
    + reflexivity.
    + cbn [rev]. rewrite opath_len_snoc, last_rev_hd, <- Hn, <- Hl. reflexivity.
    + cbn [rev]. rewrite dep_time_snoc, last_rev_hd, <- Hn, <- Ht. reflexivity.
    + exact HF'.
Qed.

Lemma cap_complete i dem : 0 <= cap i -> (forall j, 0 <= dem j) -> dem 0%nat = 0 -> forall acts c u,
  u = load dem (rev c) ->
  Forall (fun r => load dem r <= cap i) (routes_aux acts c) ->
  cap_ok exact i dem u acts = true.
Proof.
  intros Hcap Hd H0 acts. induction acts as [|a r IH]; intros c u Hu HF; cbn [cap_ok routes_aux] in *; [reflexivity|].
  rewrite rnd_exact. destruct (Nat.eqb a 0) eqn:Ea.
  - apply Nat.eqb_eq in Ea. subst a. apply Forall_cons_iff in HF as [_ H2]. rewrite H0.
    change (0 + 0) with 0. rewrite (IH [] 0 eq_refl H2). lia.
  - destruct (routes_aux_head r (a :: c)) as (h & tl & E & _). pose proof HF as HF'. rewrite E in HF. apply Forall_cons_iff in HF as [H1 _].
    cbn [rev] in H1. rewrite load_app, load_snoc in H1. pose proof (load_nonneg dem h Hd).
    rewrite (IH (a :: c) _); [lia | cbn [rev]; rewrite load_snoc, Hu; reflexivity | exact HF'].
Qed.

(* every solution of the problem (any speed; incl. action lists that never return to the depot at the end) is accepted,
   provided the instance passes the checker's own data asserts and, for open routes, leaves time to drive home *)
Theorem mtvrp_checker_complete i acts :
  mtvrp_wf i -> data_ok exact i = true -> (opn i = false \/ open_slack i) ->
  mtvrp_feasible i acts -> (n_of i <= length acts)%nat ->
  mtvrp_checker exact i acts = true.
Proof.
  intros Hwf Hdata Hopen (Hocc & Hrng & HF) Hlen. pose proof (wf_parts i Hwf) as (Hnn & Hcap & Hlim & Hdl0 & Hdb0 & Hnode).
  unfold route_okI in HF. unfold routes in HF.
  unfold mtvrp_checker. rewrite Hdata. rewrite !andb_true_iff. repeat split.
  - apply sorted_ok_iff. auto.
  - apply (walk_complete i Hwf Hopen acts [] 0%nat 0 0); try reflexivity; [|intros x []|exact HF].
    intros a Ha. specialize (Hrng a Ha). unfold n_of in Hrng. lia.
  - apply (cap_complete i (dlf i) Hcap (fun j => dlf_nonneg i j Hwf) Hdl0 acts [] 0 eq_refl).
    rewrite Forall_forall in *. intros r Hr. specialize (HF r Hr). unfold route_ok in HF. destruct r; [cbn; lia|].
    rewrite !andb_true_iff in HF. lia.
  - apply (cap_complete i (dbf i) Hcap (fun j => dbf_nonneg i j Hwf) Hdb0 acts [] 0 eq_refl).
    rewrite Forall_forall in *. intros r Hr. specialize (HF r Hr). unfold route_ok in HF. destruct r; [cbn; lia|].
    rewrite !andb_true_iff in HF. lia.
Qed.

(* ---------------------------------------------------------------- where the shipped checker deviates (witnesses) *)
(* (1) linehaul after backhaul is never tested: customer 2 (backhaul) before customer 1 (linehaul) is accepted *)
Definition prec_inst : mtvrp_inst :=
  {| dl := [0; 32; 0]; db := [0; 0; 32]; cap := 64; lim := 100000; opn := false;
     tlo := [0; 0; 0]; thi := [100000; 100000; 100000]; svc := [0; 0; 0];
     dist := [[0; 5; 9]; [5; 0; 4]; [9; 4; 0]]; tt := [[0; 5; 9]; [5; 0; 4]; [9; 4; 0]] |}.
Theorem mtvrp_checker_precedence_refuted :
  exists (i : mtvrp_inst) (acts : list nat),
    mtvrp_wf i /\ mtvrp_checker exact i acts = true /\ mtvrp_feasibleb i 0 acts = false /\
    Forall (fun r => prec_ok (dlf i) (dbf i) r = false) (removelast (routes acts)).
Proof. exists prec_inst, [2; 1; 0]%nat. repeat (split; [vm_compute; reflexivity|]). repeat constructor. Qed.

(* (2) the way back of a last route that is not closed by a depot visit is not tested: limit 128, customer 2 at
   distance 80; [1;0;2] is accepted although route [2] is 160 long *)
Definition ret_inst : mtvrp_inst :=
  {| dl := [0; 32; 32]; db := [0; 0; 0]; cap := 64; lim := 128; opn := false;
     tlo := [0; 0; 0]; thi := [100000; 100000; 100000]; svc := [0; 0; 0];
     dist := [[0; 5; 80]; [5; 0; 75]; [80; 75; 0]]; tt := [[0; 5; 80]; [5; 0; 75]; [80; 75; 0]] |}.
Theorem mtvrp_checker_final_return_refuted :
  exists (i : mtvrp_inst) (acts : list nat),
    mtvrp_wf i /\ mtvrp_checker exact i acts = true /\ mtvrp_feasibleb i 0 acts = false /\
    mtvrp_checker exact i (acts ++ [0%nat]) = false.
Proof. exists ret_inst, [1; 0; 2]%nat. repeat (split; [vm_compute; reflexivity|]). vm_compute; reflexivity. Qed.

(* (3) open routes: the depot deadline is tested on the way back, which an open route does not drive: a solution made
   through the mask, feasible by the problem definition, on an instance that passes the data asserts, is rejected *)
Definition open_inst : mtvrp_inst :=
  {| dl := [0; 32]; db := [0; 0]; cap := 64; lim := 100000; opn := true;
     tlo := [0; 0]; thi := [128; 115]; svc := [0; 0];
     dist := [[0; 80]; [80; 0]]; tt := [[0; 80]; [80; 0]] |}.
Theorem mtvrp_checker_open_depot_deadline_refuted :
  exists (i : mtvrp_inst) (acts : list nat),
    mtvrp_wf i /\ data_ok exact i = true /\
    adm (E:=MTVRP exact true) i acts = true /\ done (MTVRP exact true) i (run (E:=MTVRP exact true) i acts) = true /\
    mtvrp_feasibleb i 0 acts = true /\ mtvrp_checker exact i acts = false.
Proof. exists open_inst, [1; 0]%nat. repeat (split; [vm_compute; reflexivity|]). vm_compute; reflexivity. Qed.

(* (4, FIXED by /repo ea27328, recorded as fixed in known_findings.json) the clock of the checker used to advance by
   the distance, not by distance / speed.  The two old witnesses now behave as the problem definition says: at speed 2
   the mask-made feasible solution is accepted, at speed 1/2 the late visit is rejected -- as instances of the two
   theorems above, which hold for any speed *)
Definition fast_inst : mtvrp_inst :=
  {| dl := [0; 32]; db := [0; 0]; cap := 64; lim := 100000; opn := false;
     tlo := [0; 0]; thi := [512; 64]; svc := [0; 0];
     dist := [[0; 80]; [80; 0]]; tt := [[0; 40]; [40; 0]] |}.
Definition slow_inst : mtvrp_inst :=
  {| dl := [0; 32]; db := [0; 0]; cap := 64; lim := 100000; opn := false;
     tlo := [0; 0]; thi := [512; 128]; svc := [0; 0];
     dist := [[0; 80]; [80; 0]]; tt := [[0; 160]; [160; 0]] |}.
Example mtvrp_checker_respects_speed :
  mtvrp_wfb fast_inst = true /\ adm (E:=MTVRP exact true) fast_inst [1; 0]%nat = true /\
  mtvrp_feasibleb fast_inst 0 [1; 0]%nat = true /\ mtvrp_checker exact fast_inst [1; 0]%nat = true /\
  mtvrp_wfb slow_inst = true /\ mtvrp_feasibleb slow_inst 0 [1; 0]%nat = false /\ mtvrp_checker exact slow_inst [1; 0]%nat = false.
Proof. vm_compute. repeat split. Qed.

(* ---- the solvability hypothesis of the step bound is needed for the mask as it is (R = true): a customer that cannot
   be reached before its window closes (travel time 80, window end 79) is never offered and the row never finishes *)
Definition tw_late_inst : mtvrp_inst :=
  {| dl := [0; 32]; db := [0; 0]; cap := 64; lim := 100000; opn := false;
     tlo := [0; 0]; thi := [512; 79]; svc := [0; 0];
     dist := [[0; 80]; [80; 0]]; tt := [[0; 80]; [80; 0]] |}.
Theorem mtvrp_unsolvable_never_finishes :
  mtvrp_wfb tw_late_inst = true /\ mtvrp_solvableb true tw_late_inst = false /\
  forall acts, adm (E:=MTVRP exact true) tw_late_inst acts = true ->
               done (MTVRP exact true) tw_late_inst (run (E:=MTVRP exact true) tw_late_inst acts) = false.
Proof.
  repeat (split; [vm_compute; reflexivity|]).
  intros acts. unfold adm, run.
  assert (G : forall s, (s = reset (MTVRP exact true) tw_late_inst \/ s = step (MTVRP exact true) tw_late_inst (reset (MTVRP exact true) tw_late_inst) 0%nat) ->
              adm_from (E:=MTVRP exact true) tw_late_inst s acts = true ->
              done (MTVRP exact true) tw_late_inst (run_from (E:=MTVRP exact true) tw_late_inst s acts) = false).
  { induction acts as [|a r IH]; intros s Hs Hadm.
    - destruct Hs as [-> | ->]; vm_compute; reflexivity.
    - cbn [adm_from run_from] in *. apply andb_prop in Hadm as [Ho Hadm].
      destruct a as [|[|a]].
      + apply IH; [|exact Hadm]. right. destruct Hs as [-> | ->]; vm_compute; reflexivity.
      + exfalso. destruct Hs as [-> | ->]; vm_compute in Ho; discriminate.
      + exfalso. destruct Hs as [-> | ->]; unfold offered in Ho; cbn in Ho; destruct a; discriminate. }
  apply G. left. reflexivity.
Qed.
