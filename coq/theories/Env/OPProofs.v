(* OP: independent specification and the theorems for C01 (mask soundness), C02 (no dead end, done stable, step bound),
   C03 (reward = objective), C04 (padding inert), C05 (mask completeness up to the env's epsilon), C06 (checker).
   All in exact arithmetic ([exact]). *)
From Coq Require Import ZArith List Bool Lia ZifyBool Arith Permutation.
From RL4CO Require Import Base.Num Base.EnvSig Base.SortNat Spec.Routes Env.OP.
Import ListNotations.
Open Scope Z_scope.

Notation E := (OP exact).

(* ---------------------------------------------------------------- specification (Spec/Routes vocabulary only) *)
(* An action list describes the closed walk depot -> actions -> depot.  It is a solution of the orienteering problem
   when no customer occurs twice, every node exists, and the total length of the walk (every return to the depot
   included) does not exceed the ORIGINAL length limit of the instance. *)
Definition op_feasible (i : op_inst) (acts : list nat) : Prop :=
  (forall j, (1 <= j)%nat -> (occ j acts <= 1)%nat) /\
  (forall a, In a acts -> (a <= op_n i)%nat) /\
  total_len (odfun i) acts <= maxlen i.

(* objective: the prizes of the customers that are visited, each counted once *)
Definition visitedb (j : nat) (acts : list nat) : bool := existsb (Nat.eqb j) acts.
Definition op_objective (i : op_inst) (acts : list nat) : Z :=
  sumZ (map (fun j => if visitedb j acts then prize i j else 0) (seq 1 (op_n i))).

(* documented input format: a non-negative length limit; the constant of the env is non-negative; a node is at
   distance 0 from itself (needed for the depot only) *)
Definition op_wf (i : op_inst) : Prop := 0 <= maxlen i /\ 0 <= eps i /\ odfun i 0%nat 0%nat = 0.
Definition op_wfb (i : op_inst) : bool := (0 <=? maxlen i) && (0 <=? eps i) && (odfun i 0%nat 0%nat =? 0).
Lemma op_wfb_ok i : op_wfb i = true <-> op_wf i.
Proof. unfold op_wfb, op_wf. rewrite !andb_true_iff. lia. Qed.

(* metric fact used by the triangle-inequality form of C05 only: returning to the depot early is never longer *)
Definition op_tri0 (i : op_inst) : Prop := forall a b, odfun i a 0%nat <= odfun i a b + odfun i b 0%nat.
Definition op_tri0b (i : op_inst) : bool :=
  forallb (fun a => forallb (fun b => odfun i a 0%nat <=? odfun i a b + odfun i b 0%nat) (seq 0 (S (op_n i)))) (seq 0 (S (op_n i))).

(* executable twin of the specification; [slack] relaxes the length limit (0 = the specification itself) *)
Definition op_feasibleb (i : op_inst) (slack : Z) (acts : list nat) : bool :=
  forallb (fun j => Nat.leb (occ j acts) 1) (seq 1 (op_n i)) &&
  forallb (fun a => Nat.leb a (op_n i)) acts &&
  (total_len (odfun i) acts <=? maxlen i + slack).

Lemma op_feasibleb_ok i acts : op_feasibleb i 0 acts = true <-> op_feasible i acts.
Proof.
  unfold op_feasibleb, op_feasible. rewrite !andb_true_iff, !forallb_forall. split.
  - intros [[H1 H2] H3]. repeat split.
    + intros j Hj. destruct (Nat.leb j (op_n i)) eqn:El.
      * apply Nat.leb_le in El. apply Nat.leb_le. apply H1. apply in_seq. lia.
      * apply Nat.leb_gt in El. assert (~ In j acts) as Hn by (intros Hc; apply H2 in Hc; apply Nat.leb_le in Hc; lia).
        apply occ_not_In in Hn. lia.
    + intros a Ha. apply Nat.leb_le. apply H2. exact Ha.
    + lia.
  - intros (H1 & H2 & H3). repeat split.
    + intros j Hj. apply in_seq in Hj. apply Nat.leb_le. apply H1. lia.
    + intros a Ha. apply Nat.leb_le. apply H2. exact Ha.
    + lia.
Qed.

(* ---------------------------------------------------------------- walks *)
(* open length of the walk from -> p (no closing leg) *)
Fixpoint olen (d : nat -> nat -> Z) (from : nat) (p : list nat) : Z :=
  match p with [] => 0 | a :: r => d from a + olen d a r end.

Lemma walk_len_olen d p : forall from, walk_len d from p = olen d from p + d (last p from) 0%nat.
Proof.
  induction p as [|a r IH]; intros from; [simpl; lia|].
  change (d from a + walk_len d a r = d from a + olen d a r + d (last (a :: r) from) 0%nat).
  rewrite IH. destruct r as [|b r]; [simpl; lia|].
  rewrite (last_default_irrel r b a from). change (last (a :: b :: r) from) with (last (b :: r) from). lia.
Qed.

Lemma olen_snoc d p a : forall from, olen d from (p ++ [a]) = olen d from p + d (last p from) a.
Proof.
  induction p as [|x r IH]; intros from; [simpl; lia|].
  change (d from x + olen d x (r ++ [a]) = d from x + olen d x r + d (last (x :: r) from) a).
  rewrite IH. destruct r as [|b r]; [simpl; lia|].
  rewrite (last_default_irrel r b x from). change (last (x :: b :: r) from) with (last (b :: r) from). lia.
Qed.

Lemma path_len_walk_len d r : forall from, path_len d from r = walk_len d from r.
Proof. induction r as [|x r IH]; intros from; simpl; [reflexivity | rewrite IH; reflexivity]. Qed.

Lemma walk_len_snoc d l : forall f x,
  walk_len d f (l ++ [x]) = walk_len d f l - d (last l f) 0%nat + d (last l f) x + d x 0%nat.
Proof. intros f x. rewrite <- !path_len_walk_len. apply path_len_snoc. Qed.

(* ---------------------------------------------------------------- mask facts *)
Lemma offered_depot i s : offered (E:=E) i s 0 = true.
Proof. reflexivity. Qed.

Lemma offered_loc i s a : (1 <= a)%nat ->
  offered (E:=E) i s a = (Nat.leb a (op_n i) && negb (op_mask_loc exact i s a))%bool.
Proof.
  intros Ha. unfold offered. cbn [mask OP]; unfold op_mask. destruct a as [|a]; [lia|]. cbn [nth].
  destruct (Nat.leb (S a) (op_n i)) eqn:El.
  - apply Nat.leb_le in El. rewrite nth_map_seq by lia. reflexivity.
  - apply Nat.leb_gt in El. rewrite nth_overflow by (rewrite map_length, seq_length; lia). reflexivity.
Qed.

Lemma offered_range i s a : offered (E:=E) i s a = true -> (a <= op_n i)%nat.
Proof.
  destruct a as [|a]; [lia|]. rewrite offered_loc by lia. intros H. apply andb_prop in H as [H _]. apply Nat.leb_le in H. exact H.
Qed.

(* ---------------------------------------------------------------- the invariant *)
Record Inv (i : op_inst) (p : list nat) (s : op_st) : Prop := {
  inv_len : length (ovis s) = S (op_n i);
  inv_vis : forall j, (j <= op_n i)%nat -> nth j (ovis s) false = true <-> In j p;
  inv_cnt : forall j, (1 <= j)%nat -> (occ j p <= 1)%nat;
  inv_rng : forall a, In a p -> (a <= op_n i)%nat;
  inv_cur : ocur s = last p 0%nat;
  inv_n : ocnt s = length p;
  inv_tl : otl s = olen (odfun i) 0%nat p;
  (* the walk can always be closed within the limit; away from the depot even with the env's epsilon to spare *)
  inv_close : otl s + odfun i (ocur s) 0%nat + (if Nat.eqb (ocur s) 0 then 0 else eps i) <= maxlen i;
  inv_dn : odn s = true -> In 0%nat p /\ (2 <= length p)%nat;
}.

Lemma reset_inv i : op_wf i -> Inv i [] (op_reset i).
Proof.
  intros (Hm & He & H0). constructor; cbn [op_reset ovis ocur ocnt otl odn olen last length Nat.eqb].
  - rewrite repeat_length. reflexivity.
  - intros j Hj. split; [|intros []]. intros H. exfalso. rewrite nth_repeat in H. discriminate.
  - intros j Hj. rewrite occ_nil. lia.
  - intros a [].
  - reflexivity.
  - reflexivity.
  - reflexivity.
  - lia.
  - discriminate.
Qed.

Lemma step_inv i p s a :
  op_wf i -> Inv i p s -> offered (E:=E) i s a = true -> Inv i (p ++ [a]) (op_step exact i s a).
Proof.
  intros (Hm & He & H0) [Hlen Hvis Hcnt Hrng Hcur Hn Htl Hclose Hdn] Hm'.
  pose proof (offered_range i s a Hm') as Hle.
  assert (Hnew : (1 <= a)%nat -> ~ In a p /\ ~ In 0%nat p /\ otl s + odfun i (ocur s) a + odfun i a 0%nat + eps i <= maxlen i).
  { intros Ha. rewrite offered_loc in Hm' by exact Ha. apply andb_prop in Hm' as [_ Hml].
    unfold op_mask_loc, op_exceeds, op_maxl in Hml. rewrite !rnd_exact in Hml.
    apply negb_true_iff in Hml. apply orb_false_iff in Hml as [Hml Hex]. apply orb_false_iff in Hml as [Hva Hv0].
    repeat split.
    - intros Hc. apply (Hvis a Hle) in Hc. congruence.
    - intros Hc. apply (Hvis 0%nat ltac:(lia)) in Hc. congruence.
    - lia. }
  constructor; cbn [op_step ovis ocur ocnt otl odn].
  - rewrite set_nth_length; exact Hlen.
  - intros j Hj. rewrite nth_set_nth, Hlen.
    replace (Nat.ltb a (S (op_n i))) with true by (symmetry; apply Nat.ltb_lt; lia).
    rewrite andb_true_r, in_app_iff. cbn [In].
    destruct (Nat.eqb j a) eqn:Ej.
    + apply Nat.eqb_eq in Ej. subst. tauto.
    + apply Nat.eqb_neq in Ej. rewrite Hvis by exact Hj. split; [tauto|]. intros [H|[H|[]]]; [exact H|congruence].
  - intros j Hj. rewrite occ_app, occ_cons, occ_nil.
    destruct (Nat.eqb a j) eqn:Ej.
    + apply Nat.eqb_eq in Ej. subst j. destruct (Hnew Hj) as (Hn' & _ & _). apply occ_not_In in Hn'. lia.
    + specialize (Hcnt j Hj). lia.
  - intros b Hb. apply in_app_iff in Hb as [Hb|[<-|[]]]; [auto|lia].
  - rewrite last_last. reflexivity.
  - rewrite app_length, Hn. cbn [length]. lia.
  - rewrite rnd_exact, olen_snoc, Htl, Hcur. reflexivity.
  - rewrite rnd_exact. destruct (Nat.eqb a 0) eqn:Ea.
    + apply Nat.eqb_eq in Ea. subst a. rewrite H0. destruct (Nat.eqb (ocur s) 0); lia.
    + apply Nat.eqb_neq in Ea. destruct (Hnew ltac:(lia)) as (_ & _ & Hl). lia.
  - intros Hd. apply andb_prop in Hd as [Ha Hc]. apply Nat.eqb_eq in Ha. apply Nat.ltb_lt in Hc. subst a.
    split; [apply in_app_iff; right; left; reflexivity|]. rewrite app_length. cbn [length]. lia.
Qed.

Lemma adm_inv i acts : op_wf i -> adm (E:=E) i acts = true -> Inv i acts (run (E:=E) i acts).
Proof.
  intros Hwf. apply (adm_invariant E i (fun p s => Inv i p s)).
  - apply reset_inv; exact Hwf.
  - intros p s a HI Ho. apply step_inv; assumption.
Qed.

(* ================================================================ C01 *)
(* every admitted prefix is already a solution: the walk so far can be closed within the limit *)
Lemma op_prefix_feasible i acts :
  op_wf i -> adm (E:=E) i acts = true -> op_feasible i acts.
Proof.
  intros Hwf Hadm. pose proof (adm_inv i acts Hwf Hadm) as [_ _ Hcnt Hrng Hcur _ Htl Hclose _].
  destruct Hwf as (Hm & He & H0).
  split; [exact Hcnt|]. split; [exact Hrng|].
  rewrite <- cyclic_len_is_total_len by exact H0. unfold cyclic_len. rewrite walk_len_olen, <- Htl, <- Hcur.
  destruct (Nat.eqb (ocur (run (E:=E) i acts)) 0); lia.
Qed.

Theorem op_mask_sound i acts :
  op_wf i -> adm (E:=E) i acts = true -> done E i (run (E:=E) i acts) = true -> op_feasible i acts.
Proof. intros Hwf Hadm _. apply op_prefix_feasible; assumption. Qed.

(* ================================================================ C02 *)
Theorem op_step_ok i acts a :
  offered (E:=E) i (run (E:=E) i acts) a = true -> stepok E i (run (E:=E) i acts) a = true.
Proof. intros Ho. cbn [stepok OP]. unfold op_stepok. apply Nat.leb_le. apply (offered_range _ _ _ Ho). Qed.

(* the depot is offered in every state whatsoever *)
Theorem op_no_dead_end i (s : op_st) : anyb (mask E i s) = true.
Proof. reflexivity. Qed.

(* in a finished row only the depot is offered *)
Lemma done_only_depot i p s a : Inv i p s -> odn s = true -> offered (E:=E) i s a = true -> a = 0%nat.
Proof.
  intros HI Hd Ho. destruct a as [|a]; [reflexivity|]. exfalso.
  rewrite offered_loc in Ho by lia. apply andb_prop in Ho as [_ Hml].
  unfold op_mask_loc in Hml. apply negb_true_iff in Hml. apply orb_false_iff in Hml as [Hml _]. apply orb_false_iff in Hml as [_ Hv0].
  destruct (inv_dn _ _ _ HI Hd) as [H0 _]. apply (inv_vis _ _ _ HI 0%nat ltac:(lia)) in H0. congruence.
Qed.

Theorem op_done_stable i acts a :
  op_wf i -> adm (E:=E) i (acts ++ [a]) = true -> done E i (run (E:=E) i acts) = true ->
  done E i (run (E:=E) i (acts ++ [a])) = true.
Proof.
  intros Hwf Hadm Hd. pose proof Hadm as Hadm'. rewrite adm_snoc in Hadm'. apply andb_prop in Hadm' as [Ha Ho].
  pose proof (adm_inv i acts Hwf Ha) as HI. cbn [done OP] in *. unfold op_done in *.
  pose proof (done_only_depot i acts _ a HI Hd Ho) as ->.
  rewrite run_snoc. cbn [step OP op_step odn Nat.eqb andb]. apply Nat.ltb_lt.
  rewrite (inv_n _ _ _ HI). destruct (inv_dn _ _ _ HI Hd) as [_ H2]. lia.
Qed.

Lemma length_zero_customers p : length p = (occ 0 p + length (customers p))%nat.
Proof.
  induction p as [|a p IH]; [reflexivity|]. rewrite occ_cons. unfold customers in *. cbn [filter length].
  destruct (Nat.eqb a 0) eqn:Ea; cbn [negb length]; lia.
Qed.

Lemma customers_bound n p : (forall j, (1 <= j)%nat -> (occ j p <= 1)%nat) ->
  (forall a, In a p -> (a <= n)%nat) -> (length (customers p) <= n)%nat.
Proof.
  intros Hc Hr.
  assert (ND : NoDup (customers p)).
  { apply (NoDup_count_occ Nat.eq_dec). intros x. unfold customers.
    destruct (Nat.eqb x 0) eqn:Ex.
    - apply Nat.eqb_eq in Ex. subst x.
      assert (~ In 0%nat (filter (fun a => negb (Nat.eqb a 0)) p)) as H.
      { intros H. apply filter_In in H as [_ H]. discriminate. }
      apply (count_occ_not_In Nat.eq_dec) in H. lia.
    - apply Nat.eqb_neq in Ex.
      assert (count_occ Nat.eq_dec (filter (fun a => negb (Nat.eqb a 0)) p) x <= count_occ Nat.eq_dec p x)%nat as Hle.
      { clear. induction p as [|y p IH]; simpl; [lia|]. destruct (Nat.eqb y 0); simpl; destruct (Nat.eq_dec y x); lia. }
      specialize (Hc x). unfold occ in Hc. lia. }
  assert (Hincl : incl (customers p) (seq 1 n)).
  { intros x Hx. unfold customers in Hx. apply filter_In in Hx as [Hx Hnz]. apply in_seq.
    apply negb_true_iff, Nat.eqb_neq in Hnz. specialize (Hr x Hx). lia. }
  pose proof (NoDup_incl_length ND Hincl) as H. rewrite seq_length in H. exact H.
Qed.

(* An admitted action list none of whose proper prefixes is finished has at most n+1 actions (customers, then the
   depot), except the list [0;0] (leave for the depot at once: the first step never finishes a row). *)
Theorem op_bound i acts :
  op_wf i -> adm (E:=E) i acts = true ->
  (forall p q, acts = p ++ q -> q <> [] -> done E i (run (E:=E) i p) = false) ->
  (length acts <= Nat.max (op_n i + 1) 2)%nat.
Proof.
  intros Hwf Hadm Hnd.
  assert (G : forall p q, acts = p ++ q ->
             occ 0 p = 0%nat \/ p = [0%nat] \/ (q = [] /\ occ 0 p = 1%nat) \/ (q = [] /\ p = [0; 0]%nat)).
  { intros p. induction p as [|a p IH] using rev_ind; intros q Hq; [left; reflexivity|].
    rewrite <- app_assoc in Hq. cbn [app] in Hq.
    assert (Hadm' : adm (E:=E) i (p ++ [a]) = true).
    { rewrite Hq in Hadm. change (a :: q) with ([a] ++ q) in Hadm. rewrite app_assoc in Hadm. apply adm_prefix in Hadm. exact Hadm. }
    rewrite adm_snoc in Hadm'. apply andb_prop in Hadm' as [Hap Hoa].
    pose proof (adm_inv i p Hwf Hap) as HI.
    destruct (IH _ Hq) as [Hz | [Hp | [[Hc _] | [Hc _]]]]; try discriminate.
    - destruct (Nat.eqb a 0) eqn:Ea.
      + apply Nat.eqb_eq in Ea. subst a. destruct p as [|x p]; [right; left; reflexivity|].
        right. right. left.
        assert (Hd : done E i (run (E:=E) i ((x :: p) ++ [0%nat])) = true).
        { rewrite run_snoc. cbn [done OP op_done step op_step odn Nat.eqb andb]. apply Nat.ltb_lt.
          rewrite (inv_n _ _ _ HI). cbn [length]. lia. }
        split.
        * destruct q as [|y q]; [reflexivity|]. exfalso.
          rewrite (Hnd ((x :: p) ++ [0%nat]) (y :: q)) in Hd; [discriminate | | discriminate].
          rewrite <- app_assoc. exact Hq.
        * rewrite occ_app, Hz. reflexivity.
      + left. rewrite occ_app, Hz, occ_cons, occ_nil, Ea. reflexivity.
    - subst p.
      assert (a = 0%nat) as ->.
      { destruct a as [|a]; [reflexivity|]. exfalso.
        rewrite offered_loc in Hoa by lia. apply andb_prop in Hoa as [_ Hml].
        unfold op_mask_loc in Hml. apply negb_true_iff in Hml. apply orb_false_iff in Hml as [Hml _]. apply orb_false_iff in Hml as [_ Hv0].
        assert (In 0%nat [0%nat]) as H0 by (left; reflexivity).
        apply (inv_vis _ _ _ HI 0%nat ltac:(lia)) in H0. congruence. }
      right. right. right. split; [|reflexivity].
      destruct q as [|y q]; [reflexivity|]. exfalso.
      assert (Hd : done E i (run (E:=E) i ([0%nat] ++ [0%nat])) = true) by reflexivity.
      rewrite (Hnd ([0%nat] ++ [0%nat]) (y :: q)) in Hd; [discriminate | | discriminate].
      rewrite <- app_assoc. exact Hq. }
  pose proof (adm_inv i acts Hwf Hadm) as HI.
  pose proof (customers_bound (op_n i) acts (inv_cnt _ _ _ HI) (inv_rng _ _ _ HI)) as Hcb.
  pose proof (length_zero_customers acts) as Hl.
  destruct (G acts [] (eq_sym (app_nil_r acts))) as [Hz | [Hp | [[_ Hc] | [_ Hc]]]].
  - lia.
  - subst acts. cbn. lia.
  - lia.
  - subst acts. cbn. lia.
Qed.

(* the Appendix-A form *)
Corollary op_bound_n2 i acts :
  op_wf i -> adm (E:=E) i acts = true ->
  (forall p q, acts = p ++ q -> q <> [] -> done E i (run (E:=E) i p) = false) ->
  (length acts <= op_n i + 2)%nat.
Proof. intros H1 H2 H3. pose proof (op_bound i acts H1 H2 H3). lia. Qed.

(* ================================================================ C03 *)
Lemma pz_prize i a : (1 <= a)%nat -> pz i a = prize i a.
Proof. intros Ha. unfold pz, prize. destruct a as [|a]; [lia|]. cbn [nth]. replace (S a - 1)%nat with a by lia. reflexivity. Qed.
Lemma pz_depot i : pz i 0 = 0.
Proof. reflexivity. Qed.

Lemma sum_indicator (h : nat -> Z) a len : forall st,
  sumZ (map (fun j => if Nat.eqb a j then h j else 0) (seq st len)) =
  if (Nat.leb st a && Nat.ltb a (st + len))%bool then h a else 0.
Proof.
  induction len as [|len IH]; intros st; cbn [seq map sumZ].
  - destruct (Nat.leb st a) eqn:E1; [|reflexivity]. cbn [andb].
    replace (Nat.ltb a (st + 0)) with false; [reflexivity|]. symmetry. apply Nat.ltb_ge. apply Nat.leb_le in E1. lia.
  - rewrite IH. destruct (Nat.eqb a st) eqn:Ea.
    + apply Nat.eqb_eq in Ea. subst st.
      replace (Nat.leb (S a) a) with false by (symmetry; apply Nat.leb_gt; lia). cbn [andb].
      rewrite Nat.leb_refl. replace (Nat.ltb a (a + S len)) with true by (symmetry; apply Nat.ltb_lt; lia). cbn [andb]. lia.
    + apply Nat.eqb_neq in Ea.
      destruct (Nat.leb st a) eqn:E1, (Nat.leb (S st) a) eqn:E2; cbn [andb];
        try (apply Nat.leb_le in E1); try (apply Nat.leb_gt in E1); try (apply Nat.leb_le in E2); try (apply Nat.leb_gt in E2); try lia.
      replace (st + S len)%nat with (S st + len)%nat by lia. lia.
Qed.

Lemma sumZ_map_add {X} (f g : X -> Z) l : sumZ (map (fun x => f x + g x) l) = sumZ (map f l) + sumZ (map g l).
Proof. induction l as [|x l IH]; cbn [map sumZ]; lia. Qed.

Lemma visitedb_In j acts : visitedb j acts = true <-> In j acts.
Proof.
  unfold visitedb. rewrite existsb_exists. split.
  - intros (x & Hx & He). apply Nat.eqb_eq in He. subst. exact Hx.
  - intros H. exists j. split; [exact H | apply Nat.eqb_refl].
Qed.

(* the gathered prizes of an action list without repeated customers are the prizes of the visited customers *)
Lemma sum_pz_objective i acts :
  (forall j, (1 <= j)%nat -> (occ j acts <= 1)%nat) -> (forall a, In a acts -> (a <= op_n i)%nat) ->
  sumZ (map (pz i) acts) = op_objective i acts.
Proof.
  unfold op_objective. induction acts as [|a acts IH]; intros Hc Hr.
  - cbn [map sumZ visitedb existsb]. induction (seq 1 (op_n i)) as [|x l IHl]; cbn [map sumZ]; lia.
  - cbn [map sumZ]. rewrite IH.
    2:{ intros j Hj. specialize (Hc j Hj). rewrite occ_cons in Hc. lia. }
    2:{ intros b Hb. apply Hr. right. exact Hb. }
    assert (Hpa : pz i a = sumZ (map (fun j => if Nat.eqb a j then prize i j else 0) (seq 1 (op_n i)))).
    { rewrite sum_indicator. destruct a as [|a]; [reflexivity|].
      assert (S a <= op_n i)%nat by (apply Hr; left; reflexivity).
      replace (Nat.leb 1 (S a)) with true by (symmetry; apply Nat.leb_le; lia).
      replace (Nat.ltb (S a) (1 + op_n i)) with true by (symmetry; apply Nat.ltb_lt; lia).
      cbn [andb]. apply pz_prize. lia. }
    rewrite Hpa, <- sumZ_map_add. f_equal. apply map_ext_in. intros j Hj. apply in_seq in Hj.
    unfold visitedb. cbn [existsb]. rewrite (Nat.eqb_sym j a). destruct (Nat.eqb a j) eqn:Ea; cbn [orb]; [|lia].
    apply Nat.eqb_eq in Ea. subst j.
    assert (Hn : ~ In a acts).
    { intros Hin. apply occ_In in Hin. specialize (Hc a ltac:(lia)). rewrite occ_cons, Nat.eqb_refl in Hc. lia. }
    replace (existsb (Nat.eqb a) acts) with false; [lia|]. symmetry. apply not_true_iff_false. intros H. apply Hn.
    apply (visitedb_In a acts). exact H.
Qed.

Theorem op_reward_is_objective i acts :
  op_wf i -> adm (E:=E) i acts = true -> done E i (run (E:=E) i acts) = true ->
  op_reward i acts = op_objective i acts.
Proof.
  intros Hwf Hadm Hd. pose proof (adm_inv i acts Hwf Hadm) as HI.
  destruct (inv_dn _ _ _ HI Hd) as [_ H2].
  rewrite <- (sum_pz_objective i acts (inv_cnt _ _ _ HI) (inv_rng _ _ _ HI)).
  destruct acts as [|a [|b r]]; cbn [length] in H2; try lia. reflexivity.
Qed.

(* ================================================================ C04 *)
Lemma sum_pz_pad i acts k : sumZ (map (pz i) (acts ++ repeat 0%nat k)) = sumZ (map (pz i) acts).
Proof.
  rewrite map_app, sumZ_app. assert (sumZ (map (pz i) (repeat 0%nat k)) = 0) as ->; [|lia].
  induction k as [|k IH]; cbn [repeat map sumZ]; [reflexivity|]. rewrite IH. reflexivity.
Qed.

Lemma done_mask i p s : Inv i p s -> odn s = true -> op_mask exact i s = true :: repeat false (op_n i).
Proof.
  intros HI Hd. unfold op_mask. f_equal.
  destruct (inv_dn _ _ _ HI Hd) as [H0 _]. apply (inv_vis _ _ _ HI 0%nat ltac:(lia)) in H0.
  assert (Hall : forall j, negb (op_mask_loc exact i s j) = false).
  { intros j. unfold op_mask_loc. rewrite H0. rewrite orb_true_r. reflexivity. }
  generalize 1%nat. induction (op_n i) as [|n IH]; intros st; [reflexivity|].
  cbn [seq map repeat]. rewrite Hall. f_equal. apply IH.
Qed.

(* after a row has finished, any number k of further steps: only the depot is offered, the row stays finished, the
   mask does not change, and the reward of the padded action list equals that of the unpadded one *)
Theorem op_padding_inert i acts k :
  op_wf i -> adm (E:=E) i acts = true -> done E i (run (E:=E) i acts) = true ->
  let pad := repeat 0%nat k in
  adm (E:=E) i (acts ++ pad) = true /\
  done E i (run (E:=E) i (acts ++ pad)) = true /\
  mask E i (run (E:=E) i (acts ++ pad)) = true :: repeat false (op_n i) /\
  op_reward i (acts ++ pad) = op_reward i acts.
Proof.
  intros Hwf Hadm Hd. cbv zeta.
  assert (Hrew : op_reward i (acts ++ repeat 0%nat k) = op_reward i acts).
  { pose proof (adm_inv i acts Hwf Hadm) as HI. destruct (inv_dn _ _ _ HI Hd) as [_ H2].
    destruct acts as [|a [|b r]]; cbn [length] in H2; try lia.
    change (sumZ (map (pz i) ((a :: b :: r) ++ repeat 0%nat k)) = sumZ (map (pz i) (a :: b :: r))). apply sum_pz_pad. }
  induction k as [|k IH].
  - cbn [repeat]. rewrite app_nil_r. pose proof (adm_inv i acts Hwf Hadm) as HI.
    repeat split; auto. apply (done_mask i acts); assumption.
  - assert (Hrew' : op_reward i (acts ++ repeat 0%nat k) = op_reward i acts).
    { pose proof (adm_inv i acts Hwf Hadm) as HI. destruct (inv_dn _ _ _ HI Hd) as [_ H2].
      destruct acts as [|a [|b r]]; cbn [length] in H2; try lia.
      change (sumZ (map (pz i) ((a :: b :: r) ++ repeat 0%nat k)) = sumZ (map (pz i) (a :: b :: r))). apply sum_pz_pad. }
    destruct (IH Hrew') as (IH1 & IH2 & IH3 & _).
    replace (repeat 0%nat (S k)) with (repeat 0%nat k ++ [0%nat]) in * by (symmetry; apply (repeat_cons k 0%nat)).
    rewrite app_assoc in *.
    assert (Hadm' : adm (E:=E) i ((acts ++ repeat 0%nat k) ++ [0%nat]) = true) by (rewrite adm_snoc, IH1; reflexivity).
    assert (Hd' : done E i (run (E:=E) i ((acts ++ repeat 0%nat k) ++ [0%nat])) = true) by (apply op_done_stable; assumption).
    pose proof (adm_inv i _ Hwf Hadm') as HI.
    repeat split; auto. apply (done_mask i _ _ HI Hd').
Qed.

(* ================================================================ C05 *)
(* A solution of the problem is a sequence of distinct customers (the tour depot -> cs -> depot).  Its encoding as
   an episode closes it with the depot; the empty tour is the episode [0;0] (the first step never finishes). *)
Definition op_encode (cs : list nat) : list nat := match cs with [] => [0; 0]%nat | _ => cs ++ [0%nat] end.

Lemma adm_tour i : op_wf i -> forall cs p s,
  Inv i p s -> ~ In 0%nat p -> NoDup cs -> (forall x, In x cs -> (1 <= x <= op_n i)%nat /\ ~ In x p) ->
  (forall pre suf, cs = pre ++ suf -> pre <> [] -> otl s + walk_len (odfun i) (ocur s) pre + eps i <= maxlen i) ->
  adm_from (E:=E) i s cs = true /\ Inv i (p ++ cs) (run_from (E:=E) i s cs).
Proof.
  intros Hwf cs. induction cs as [|x cs IH]; intros p s HI H0 Hnd Hin Hlen.
  - cbn. rewrite app_nil_r. split; [reflexivity | exact HI].
  - cbn [adm_from run_from]. destruct (Hin x (or_introl eq_refl)) as [Hx Hxp].
    assert (Ho : offered (E:=E) i s x = true).
    { rewrite offered_loc by lia. apply andb_true_intro. split; [apply Nat.leb_le; lia|].
      unfold op_mask_loc, op_exceeds, op_maxl. rewrite !rnd_exact. apply negb_true_iff.
      apply orb_false_iff. split; [apply orb_false_iff; split|].
      - destruct (nth x (ovis s) false) eqn:Ev; [|reflexivity]. exfalso. apply Hxp. apply (inv_vis _ _ _ HI); [lia | exact Ev].
      - destruct (nth 0 (ovis s) false) eqn:Ev; [|reflexivity]. exfalso. apply H0. apply (inv_vis _ _ _ HI); [lia | exact Ev].
      - specialize (Hlen [x] cs eq_refl ltac:(discriminate)). cbn [walk_len] in Hlen. lia. }
    pose proof (step_inv i p s x Hwf HI Ho) as HI'.
    inversion Hnd as [|? ? Hxr Hnd']; subst.
    destruct (IH (p ++ [x]) _ HI') as [Ha HI''].
    + intros Hc. apply in_app_iff in Hc as [Hc|[Hc|[]]]; [tauto | lia].
    + exact Hnd'.
    + intros y Hy. destruct (Hin y (or_intror Hy)) as [Hy1 Hy2]. split; [exact Hy1|].
      intros Hc. apply in_app_iff in Hc as [Hc|[Hc|[]]]; [tauto | subst; tauto].
    + intros pre suf Hps Hne. specialize (Hlen (x :: pre) suf ltac:(rewrite Hps; reflexivity) ltac:(discriminate)).
      cbn [step OP op_step otl ocur]. rewrite rnd_exact. cbn [walk_len] in Hlen. lia.
    + cbn [step OP] in *. rewrite Ho, Ha. split; [reflexivity|]. rewrite <- app_assoc in HI''. exact HI''.
Qed.

(* EVERY tour of distinct customers all of whose non-empty prefixes can be closed with the env's epsilon to spare is
   reachable through the mask, the row is finished at its end, and its objective is the sum of the tour's prizes.
   No metric fact is used. *)
Theorem op_mask_complete_prefix i cs :
  op_wf i -> NoDup cs -> (forall x, In x cs -> (1 <= x <= op_n i)%nat) ->
  (forall pre suf, cs = pre ++ suf -> pre <> [] -> route_len (odfun i) pre + eps i <= maxlen i) ->
  adm (E:=E) i (op_encode cs) = true /\
  done E i (run (E:=E) i (op_encode cs)) = true /\
  op_objective i (op_encode cs) = sumZ (map (prize i) cs).
Proof.
  intros Hwf Hnd Hin Hlen.
  destruct cs as [|c cs'].
  - cbn [op_encode]. split; [reflexivity|]. split; [reflexivity|].
    rewrite <- (sum_pz_objective i [0; 0]%nat).
    + reflexivity.
    + intros j Hj. rewrite !occ_cons, occ_nil. replace (Nat.eqb 0 j) with false by (symmetry; apply Nat.eqb_neq; lia). lia.
    + intros a [<-|[<-|[]]]; lia.
  - set (cs := c :: cs') in *. assert (Hne : cs <> []) by discriminate.
    change (op_encode cs) with (cs ++ [0%nat]).
    destruct (adm_tour i Hwf cs [] (op_reset i) (reset_inv i Hwf) (fun H => H) Hnd) as [Ha HI].
    { intros x Hx. split; [apply Hin; exact Hx | intros []]. }
    { intros pre suf Hps Hn. specialize (Hlen pre suf Hps Hn). unfold route_len in Hlen. rewrite path_len_walk_len in Hlen.
      cbn [op_reset otl ocur]. lia. }
    cbn [app] in HI.
    assert (Hadm : adm (E:=E) i (cs ++ [0%nat]) = true).
    { rewrite adm_snoc. change (adm (E:=E) i cs) with (adm_from (E:=E) i (op_reset i) cs). rewrite Ha. reflexivity. }
    split; [exact Hadm|]. split.
    + rewrite run_snoc. cbn [done OP op_done step op_step odn Nat.eqb andb]. apply Nat.ltb_lt.
      unfold run. cbn [reset OP]. rewrite (inv_n _ _ _ HI). subst cs. cbn [length]. lia.
    + pose proof (adm_inv i _ Hwf Hadm) as HI2.
      rewrite <- (sum_pz_objective i _ (inv_cnt _ _ _ HI2) (inv_rng _ _ _ HI2)).
      rewrite map_app, sumZ_app. cbn [map sumZ]. rewrite pz_depot.
      assert (map (pz i) cs = map (prize i) cs) as ->; [|lia].
      apply map_ext_in. intros x Hx. apply pz_prize. apply Hin in Hx. lia.
Qed.

(* closing early is never longer when returning to the depot obeys the triangle inequality *)
Lemma walk_len_prefix_le i : op_tri0 i -> forall suf pre from,
  pre <> [] -> walk_len (odfun i) from pre <= walk_len (odfun i) from (pre ++ suf).
Proof.
  intros Htri suf. induction suf as [|x suf IH] using rev_ind; intros pre from Hne; [rewrite app_nil_r; lia|].
  rewrite app_assoc, walk_len_snoc. specialize (IH pre from Hne).
  pose proof (Htri (last (pre ++ suf) from) x). lia.
Qed.

(* The same for EVERY tour whose closed length leaves slack >= eps below the limit, on instances where returning to
   the depot obeys the triangle inequality.  The env is deliberately tighter than the problem by exactly eps. *)
Theorem op_mask_complete i cs :
  op_wf i -> op_tri0 i -> NoDup cs -> (forall x, In x cs -> (1 <= x <= op_n i)%nat) ->
  route_len (odfun i) cs + eps i <= maxlen i ->
  adm (E:=E) i (op_encode cs) = true /\
  done E i (run (E:=E) i (op_encode cs)) = true /\
  op_objective i (op_encode cs) = sumZ (map (prize i) cs).
Proof.
  intros Hwf Htri Hnd Hin Hlen. apply op_mask_complete_prefix; auto.
  intros pre suf Hps Hne. subst cs. unfold route_len in *. rewrite path_len_walk_len in *.
  pose proof (walk_len_prefix_le i Htri suf pre 0%nat Hne). lia.
Qed.

(* ================================================================ C06 *)
Lemma insert_sorted_le x l : sorted_le l -> sorted_le (insert_sorted x l).
Proof.
  induction 1 as [| y | y z l Hyz Hs IH]; cbn [insert_sorted].
  - constructor.
  - destruct (Nat.leb x y) eqn:E; [apply Nat.leb_le in E | apply Nat.leb_gt in E]; constructor; try lia; constructor.
  - destruct (Nat.leb x y) eqn:E.
    + apply Nat.leb_le in E. constructor; [lia|]. constructor; assumption.
    + apply Nat.leb_gt in E. cbn [insert_sorted] in IH. destruct (Nat.leb x z) eqn:E2.
      * apply Nat.leb_le in E2. constructor; [lia|]. exact IH.
      * constructor; [lia|]. exact IH.
Qed.
Lemma sort_sorted l : sorted_le (sort_nat l).
Proof. induction l as [|x l IH]; cbn [sort_nat fold_right]; [constructor | apply insert_sorted_le; exact IH]. Qed.

Lemma sorted_head_le x l : sorted_le (x :: l) -> forall z, In z l -> (x <= z)%nat.
Proof.
  revert x. induction l as [|y l IH]; intros x Hs z Hz; [destruct Hz|].
  inversion Hs as [| |? ? ? Hxy Hs']; subst. destruct Hz as [<-|Hz]; [exact Hxy|].
  specialize (IH y Hs' z Hz). lia.
Qed.

Lemma adj_ok_sorted l : sorted_le l -> (adj_ok l = true <-> forall j, (1 <= j)%nat -> (occ j l <= 1)%nat).
Proof.
  induction 1 as [| x | x y l Hxy Hs IH].
  - split; [intros _ j Hj; rewrite occ_nil; lia | reflexivity].
  - split; [|reflexivity]. intros _ j Hj. rewrite occ_cons, occ_nil. destruct (Nat.eqb x j); lia.
  - change (adj_ok (x :: y :: l)) with ((Nat.eqb y 0 || Nat.ltb x y) && adj_ok (y :: l))%bool.
    rewrite andb_true_iff, IH. split.
    + intros [Hxy' Hrest] j Hj. rewrite occ_cons. specialize (Hrest j Hj).
      destruct (Nat.eqb x j) eqn:Ex; [|lia]. apply Nat.eqb_eq in Ex. subst j.
      assert (Hlt : (x < y)%nat).
      { apply orb_prop in Hxy' as [Hy0|Hlt]; [apply Nat.eqb_eq in Hy0; lia | apply Nat.ltb_lt in Hlt; exact Hlt]. }
      assert (~ In x (y :: l)) as Hn.
      { intros [Hc|Hc]; [lia|]. pose proof (sorted_head_le y l Hs x Hc). lia. }
      apply occ_not_In in Hn. lia.
    + intros Hall. split.
      * destruct (Nat.eqb y 0) eqn:Ey; [reflexivity|]. apply Nat.eqb_neq in Ey. cbn [orb]. apply Nat.ltb_lt.
        destruct (Nat.eq_dec x y) as [->|Hne]; [|lia]. exfalso.
        specialize (Hall y ltac:(lia)). rewrite !occ_cons, Nat.eqb_refl in Hall. lia.
      * intros j Hj. specialize (Hall j Hj). rewrite occ_cons in Hall. lia.
Qed.

Lemma adj_ok_iff acts : adj_ok (sort_nat acts) = true <-> forall j, (1 <= j)%nat -> (occ j acts <= 1)%nat.
Proof.
  rewrite (adj_ok_sorted _ (sort_sorted acts)).
  assert (Hocc : forall j, occ j (sort_nat acts) = occ j acts).
  { intros j. unfold occ. apply Permutation_count_occ. apply sort_perm. }
  split; intros H j Hj; specialize (H j Hj); rewrite Hocc in *; exact H.
Qed.

Lemma op_walk_walk_len d l : forall from, op_walk d from l = walk_len d from l.
Proof. induction l as [|x l IH]; intros from; simpl; [reflexivity | rewrite IH; reflexivity]. Qed.

(* in exact arithmetic every column of the checker's threshold is the original limit plus the tolerance *)
Lemma op_thr_exact i j : op_thr exact i j = maxlen i + otol i.
Proof. unfold op_thr, op_maxl. rewrite !rnd_exact. lia. Qed.

Lemma op_checker_unfold i acts :
  op_checker exact i acts = true <->
  (forall j, (1 <= j)%nat -> (occ j acts <= 1)%nat) /\ (forall a, In a acts -> (a <= op_n i)%nat) /\
  cyclic_len (odfun i) acts <= maxlen i + otol i.
Proof.
  unfold op_checker, op_checker_m, op_tour_len. rewrite op_walk_walk_len. fold (cyclic_len (odfun i) acts).
  rewrite !andb_true_iff, adj_ok_iff, !forallb_forall. split.
  - intros [[H1 H2] H3]. repeat split; auto.
    + intros a Ha. apply Nat.leb_le. apply H2. exact Ha.
    + specialize (H3 0%nat ltac:(apply in_seq; lia)). rewrite op_thr_exact in H3. lia.
  - intros (H1 & H2 & H3). repeat split; auto.
    + intros a Ha. apply Nat.leb_le. apply H2. exact Ha.
    + intros j _. rewrite op_thr_exact. lia.
Qed.

(* For EVERY action list -- ending at the depot or not, passing through the depot or not -- the checker decides the
   specification relaxed by exactly its tolerance.  (Full strength since the repair 728e3da; the former restriction to
   lists that end at the depot and its refutation witness are recorded as fixed in known_findings.json.) *)
Theorem op_checker_iff i acts :
  op_wf i ->
  (op_checker exact i acts = true <->
   (forall j, (1 <= j)%nat -> (occ j acts <= 1)%nat) /\ (forall a, In a acts -> (a <= op_n i)%nat) /\
   total_len (odfun i) acts <= maxlen i + otol i).
Proof.
  intros (_ & _ & H0). rewrite op_checker_unfold, (cyclic_len_is_total_len _ acts H0). tauto.
Qed.

Theorem op_checker_complete i acts :
  op_wf i -> 0 <= otol i -> op_feasible i acts -> op_checker exact i acts = true.
Proof.
  intros Hwf Htol (Hocc & Hrng & Hlen). apply (op_checker_iff i acts Hwf). repeat split; auto. lia.
Qed.

(* in particular every mask-made action list (finished or not, padded or not) is accepted *)
Corollary op_checker_accepts_mask_made i acts :
  op_wf i -> 0 <= otol i -> adm (E:=E) i acts = true -> op_checker exact i acts = true.
Proof. intros Hwf Htol Hadm. apply op_checker_complete; auto. apply op_prefix_feasible; assumption. Qed.

Corollary op_checker_sound i acts :
  op_wf i -> op_checker exact i acts = true ->
  (forall j, (1 <= j)%nat -> (occ j acts <= 1)%nat) /\ (forall a, In a acts -> (a <= op_n i)%nat) /\
  total_len (odfun i) acts <= maxlen i + otol i.
Proof. intros Hwf Hc. apply (op_checker_iff i acts Hwf). exact Hc. Qed.

Corollary op_checker_rejects_duplicate i acts j :
  (1 <= j)%nat -> (2 <= occ j acts)%nat -> op_checker exact i acts = false.
Proof.
  intros Hj Hn. apply not_true_iff_false. intros Hc. apply op_checker_unfold in Hc as (Hocc & _ & _). specialize (Hocc j Hj). lia.
Qed.
Corollary op_checker_rejects_unknown_node i acts a :
  In a acts -> (op_n i < a)%nat -> op_checker exact i acts = false.
Proof.
  intros Ha Hn. apply not_true_iff_false. intros Hc. apply op_checker_unfold in Hc as (_ & Hrng & _). specialize (Hrng a Ha). lia.
Qed.
Corollary op_checker_rejects_overlength i acts :
  op_wf i -> maxlen i + otol i < total_len (odfun i) acts -> op_checker exact i acts = false.
Proof.
  intros Hwf Hlen. apply not_true_iff_false. intros Hc.
  apply (op_checker_iff i acts Hwf) in Hc as (_ & _ & H). lia.
Qed.
