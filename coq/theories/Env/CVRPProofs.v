(* CVRP: independent specification and the theorems for C01 (mask soundness), C02 (no dead end, done stable,
   step bound), C03 (reward = objective), C04 (padding inert).  All in exact arithmetic ([exact]). *)
From Coq Require Import ZArith List Bool Lia ZifyBool Arith.
From RL4CO Require Import Base.Num Base.EnvSig Spec.Routes Env.CVRP.
Import ListNotations.
Open Scope Z_scope.

Notation E := (CVRP exact).

(* ---------------------------------------------------------------- specification *)
Definition route_load (i : cvrp_inst) (r : list nat) : Z := sumZ (map (demand i) r).

Definition cvrp_feasible (i : cvrp_inst) (acts : list nat) : Prop :=
  (forall j, (1 <= j <= n_of i)%nat -> occ j acts = 1%nat) /\
  (forall a, In a acts -> (a <= n_of i)%nat) /\
  Forall (fun r => route_load i r <= cap i) (routes acts).

(* documented input format *)
Definition cvrp_wf (i : cvrp_inst) : Prop := Forall (fun d => 0 <= d) (dem i) /\ 0 <= cap i.
(* needed for solvability (C02): no single demand above the capacity *)
Definition cvrp_solvable (i : cvrp_inst) : Prop := Forall (fun d => d <= cap i) (dem i).

Definition cvrp_wfb (i : cvrp_inst) : bool := forallb (fun d => 0 <=? d) (dem i) && (0 <=? cap i).
Definition cvrp_solvableb (i : cvrp_inst) : bool := forallb (fun d => d <=? cap i) (dem i).
Lemma cvrp_wfb_ok i : cvrp_wfb i = true <-> cvrp_wf i.
Proof.
  unfold cvrp_wfb, cvrp_wf. rewrite andb_true_iff, forallb_forall, Forall_forall. split.
  - intros [H1 H2]. split; [intros x Hx; specialize (H1 x Hx); lia | lia].
  - intros [H1 H2]. split; [intros x Hx; specialize (H1 x Hx); lia | lia].
Qed.
Lemma cvrp_solvableb_ok i : cvrp_solvableb i = true <-> cvrp_solvable i.
Proof.
  unfold cvrp_solvableb, cvrp_solvable. rewrite forallb_forall, Forall_forall.
  split; intros H x Hx; specialize (H x Hx); lia.
Qed.

(* ---------------------------------------------------------------- basic facts *)
Lemma demand_clamp i a : (1 <= a <= n_of i)%nat -> nth (clampidx i a) (dem i) 0 = demand i a.
Proof. intros H. unfold clampidx, demand. f_equal. lia. Qed.

Lemma demand_nonneg i j : cvrp_wf i -> 0 <= demand i j.
Proof.
  intros [Hwf _]. unfold demand. destruct (Nat.ltb (j - 1) (length (dem i))) eqn:El.
  - apply Nat.ltb_lt in El. eapply Forall_forall in Hwf; [exact Hwf|]. apply nth_In; exact El.
  - apply Nat.ltb_ge in El. rewrite nth_overflow by exact El. lia.
Qed.

Lemma demand_le_cap i j : cvrp_wf i -> cvrp_solvable i -> demand i j <= cap i.
Proof.
  intros [_ Hc] Hs. unfold demand. destruct (Nat.ltb (j - 1) (length (dem i))) eqn:El.
  - apply Nat.ltb_lt in El. eapply Forall_forall in Hs; [exact Hs|]. apply nth_In; exact El.
  - apply Nat.ltb_ge in El. rewrite nth_overflow by exact El. exact Hc.
Qed.

Lemma route_load_app i r x : route_load i (r ++ [x]) = route_load i r + demand i x.
Proof. unfold route_load. rewrite map_app, sumZ_app. simpl. lia. Qed.

Lemma route_load_nonneg i r : cvrp_wf i -> 0 <= route_load i r.
Proof.
  intros Hwf. unfold route_load. apply sumZ_nonneg. apply Forall_forall. intros x Hx.
  apply in_map_iff in Hx as (j & <- & _). apply demand_nonneg; exact Hwf.
Qed.

Lemma offered_depot i s : offered (E:=E) i s 0 = negb (mask_depot exact i s).
Proof. reflexivity. Qed.

Lemma offered_loc i s a : (1 <= a)%nat ->
  offered (E:=E) i s a = (Nat.leb a (n_of i) && negb (mask_loc exact i s a))%bool.
Proof.
  intros Ha. unfold offered. cbn [mask CVRP]; unfold cvrp_mask. destruct a as [|a]; [lia|]. cbn [nth].
  unfold locs. destruct (Nat.leb (S a) (n_of i)) eqn:El.
  - apply Nat.leb_le in El. rewrite nth_map_seq by lia. reflexivity.
  - apply Nat.leb_gt in El. rewrite nth_overflow by (rewrite map_length, seq_length; lia). reflexivity.
Qed.

(* ---------------------------------------------------------------- the invariant *)
(* state s reached after prefix p whose open route (since the last depot visit) is c, in reverse *)
Record Inv (i : cvrp_inst) (p c : list nat) (s : cvrp_st) : Prop := {
  inv_len : length (vis s) = S (n_of i);
  inv_vis : forall j, (j <= n_of i)%nat -> nth j (vis s) false = true <-> In j p;
  inv_cnt : forall j, (1 <= j <= n_of i)%nat -> (occ j p <= 1)%nat;
  inv_rng : forall a, In a p -> (a <= n_of i)%nat;
  inv_used : used s = route_load i (rev c);
  inv_cap : used s <= cap i;
  inv_cur0 : cur s = 0%nat -> c = [];
  inv_cur : cur s = last p 0%nat;
}.

Lemma reset_inv i : cvrp_wf i -> Inv i [] [] (cvrp_reset i).
Proof.
  intros [_ Hc]. constructor; cbn [cvrp_reset vis used cur rev route_load map sumZ last]; try lia; try reflexivity.
  - rewrite repeat_length. reflexivity.
  - intros j Hj. split; [|intros []]. intros H. exfalso. rewrite nth_repeat in H. discriminate.
  - intros j Hj. simpl. lia.
  - intros a [].
Qed.

Lemma step_inv i p c s a :
  cvrp_wf i -> Inv i p c s -> offered (E:=E) i s a = true ->
  Inv i (p ++ [a]) (if Nat.eqb a 0 then [] else a :: c) (cvrp_step exact i s a).
Proof.
  intros Hwf [Hlen Hvis Hcnt Hrng Hused Hcap Hc0 Hcur] Hm.
  destruct (Nat.eqb a 0) eqn:Ea.
  - apply Nat.eqb_eq in Ea; subst a.
    constructor; cbn [cvrp_step vis used cur]; rewrite ?Nat.eqb_refl.
    + rewrite set_nth_length; exact Hlen.
    + intros j Hj. rewrite nth_set_nth, Hlen. rewrite in_app_iff. cbn [In].
      destruct (Nat.eqb j 0) eqn:Ej.
      * apply Nat.eqb_eq in Ej. subst j. cbn. tauto.
      * apply Nat.eqb_neq in Ej. cbn [andb]. rewrite Hvis by exact Hj. split; [tauto|]. intros [H|[H|[]]]; [exact H|lia].
    + intros j Hj. rewrite occ_app, occ_cons. replace (Nat.eqb 0 j) with false by (symmetry; apply Nat.eqb_neq; lia).
      specialize (Hcnt j Hj). rewrite occ_nil. lia.
    + intros b Hb. apply in_app_iff in Hb as [Hb|[<-|[]]]; [auto|lia].
    + reflexivity.
    + destruct Hwf as [_ Hc]. exact Hc.
    + reflexivity.
    + rewrite last_last. reflexivity.
  - pose proof Ea as Ea0. apply Nat.eqb_neq in Ea0.
    rewrite offered_loc in Hm by lia. apply andb_prop in Hm as [Hle Hml]. apply Nat.leb_le in Hle.
    unfold mask_loc, exceeds in Hml. rewrite rnd_exact in Hml. apply negb_true_iff in Hml. apply orb_false_iff in Hml as [Hnv Hfit].
    assert (Ha : (1 <= a <= n_of i)%nat) by lia.
    constructor; cbn [cvrp_step vis used cur]; rewrite ?Ea.
    + rewrite set_nth_length; exact Hlen.
    + intros j Hj. rewrite nth_set_nth, Hlen.
      replace (Nat.ltb a (S (n_of i))) with true by (symmetry; apply Nat.ltb_lt; lia).
      rewrite andb_true_r, in_app_iff. cbn [In].
      destruct (Nat.eqb j a) eqn:Ej.
      * apply Nat.eqb_eq in Ej. subst. tauto.
      * apply Nat.eqb_neq in Ej. rewrite Hvis by exact Hj. split; [tauto|]. intros [H|[H|[]]]; [exact H|congruence].
    + intros j Hj. rewrite occ_app, occ_cons, occ_nil.
      destruct (Nat.eqb a j) eqn:Ej.
      * apply Nat.eqb_eq in Ej. subst j.
        assert (~ In a p) as Hn. { rewrite <- Hvis by lia. rewrite Hnv. discriminate. }
        apply occ_not_In in Hn. lia.
      * specialize (Hcnt j Hj). lia.
    + intros b Hb. apply in_app_iff in Hb as [Hb|[<-|[]]]; [auto|lia].
    + rewrite rnd_exact, demand_clamp by exact Ha. cbn [rev]. rewrite route_load_app, Hused. reflexivity.
    + rewrite rnd_exact, demand_clamp by exact Ha. lia.
    + intros H. lia.
    + rewrite last_last. reflexivity.
Qed.

(* invariant along a run, together with the loads of the routes closed on the way *)
Lemma run_inv i : cvrp_wf i -> forall acts p c s,
  Inv i p c s -> adm_from (E:=E) i s acts = true ->
  Forall (fun r => route_load i r <= cap i) (routes_aux acts c) /\
  exists c', Inv i (p ++ acts) c' (run_from (E:=E) i s acts).
Proof.
  intros Hwf acts. induction acts as [|a r IH]; intros p c s HI Hadm; cbn [adm_from run_from routes_aux] in *.
  - split.
    + constructor; [|constructor]. rewrite <- (inv_used _ _ _ _ HI). exact (inv_cap _ _ _ _ HI).
    + exists c. rewrite app_nil_r. exact HI.
  - apply andb_prop in Hadm as [Hm Hadm].
    pose proof (step_inv i p c s a Hwf HI Hm) as HI'.
    destruct (IH _ _ _ HI' Hadm) as [HF [c' HI'']].
    destruct (Nat.eqb a 0) eqn:Ea.
    + split.
      * constructor; [|exact HF]. rewrite <- (inv_used _ _ _ _ HI). exact (inv_cap _ _ _ _ HI).
      * exists c'. rewrite <- app_assoc in HI''. exact HI''.
    + split; [exact HF|]. exists c'. rewrite <- app_assoc in HI''. exact HI''.
Qed.

Lemma adm_inv i acts : cvrp_wf i -> adm (E:=E) i acts = true -> exists c, Inv i acts c (run (E:=E) i acts).
Proof.
  intros Hwf Hadm. destruct (run_inv i Hwf acts [] [] _ (reset_inv i Hwf) Hadm) as [_ [c H]]. exists c. exact H.
Qed.

(* ================================================================ C01 *)
Theorem cvrp_mask_sound i acts :
  cvrp_wf i -> adm (E:=E) i acts = true -> done E i (run (E:=E) i acts) = true -> cvrp_feasible i acts.
Proof.
  intros Hwf Hadm Hdone.
  destruct (run_inv i Hwf acts [] [] _ (reset_inv i Hwf) Hadm) as [HF [c' HI]].
  cbn [app] in HI. destruct HI as [Hlen Hvis Hcnt Hrng _ _ _ _].
  split; [|split].
  - intros j Hj. specialize (Hcnt j Hj).
    assert (In j acts) as Hin. { apply Hvis; [lia|]. apply allb_nth; [exact Hdone|]. unfold run in Hlen. lia. }
    apply occ_In in Hin. lia.
  - exact Hrng.
  - exact HF.
Qed.

(* ================================================================ C02 *)
Theorem cvrp_step_ok i acts a :
  (0 < n_of i)%nat -> cvrp_wf i -> adm (E:=E) i acts = true -> offered (E:=E) i (run (E:=E) i acts) a = true ->
  stepok E i (run (E:=E) i acts) a = true.
Proof.
  intros Hn Hwf Hadm Ho. cbn [stepok CVRP]. unfold cvrp_stepok.
  destruct a as [|a]; [apply andb_true_intro; split; [reflexivity | apply Nat.ltb_lt; exact Hn]|].
  rewrite offered_loc in Ho by lia. apply andb_prop in Ho as [Hle _]. rewrite Hle. apply Nat.ltb_lt; exact Hn.
Qed.

Theorem cvrp_no_dead_end i acts :
  cvrp_wf i -> cvrp_solvable i -> adm (E:=E) i acts = true -> anyb (mask E i (run (E:=E) i acts)) = true.
Proof.
  intros Hwf Hsol Hadm. destruct (adm_inv i acts Hwf Hadm) as [c HI].
  set (s := run (E:=E) i acts) in *.
  cbn [mask CVRP]; unfold cvrp_mask. unfold anyb. cbn [existsb].
  destruct (mask_depot exact i s) eqn:Ed; [|reflexivity]. cbn [negb orb].
  (* the depot is masked only when some customer is offered *)
  unfold mask_depot in Ed. apply andb_prop in Ed as [_ Hex].
  apply existsb_exists in Hex as (j & Hj & Hjm). apply existsb_exists.
  exists true. split; [|reflexivity]. apply in_map_iff. exists j. split; [exact Hjm | exact Hj].
Qed.

Theorem cvrp_done_stable i acts a :
  cvrp_wf i -> adm (E:=E) i (acts ++ [a]) = true -> done E i (run (E:=E) i acts) = true ->
  done E i (run (E:=E) i (acts ++ [a])) = true.
Proof.
  intros Hwf Hadm Hd. rewrite run_snoc. cbn [done CVRP step] in *. unfold cvrp_done in *.
  cbn [cvrp_step vis]. apply allb_forall. intros j Hj. rewrite set_nth_length in Hj.
  rewrite nth_set_nth. destruct (Nat.eqb j a && Nat.ltb a (length (vis (run (E:=E) i acts))))%bool; [reflexivity|].
  apply allb_nth; assumption.
Qed.

(* measure for the step bound: 2 * (distinct customers visited) + 1 if we sit at the depot after a move *)
Definition ncust (p : list nat) : Z := Z.of_nat (length (customers p)).
Lemma ncust_snoc p a : ncust (p ++ [a]) = ncust p + (if Nat.eqb a 0 then 0 else 1).
Proof. unfold ncust, customers. rewrite filter_app, app_length. simpl. destruct (Nat.eqb a 0); simpl; lia. Qed.

Lemma customers_bound i p : (forall j, (1 <= j <= n_of i)%nat -> (occ j p <= 1)%nat) ->
  (forall a, In a p -> (a <= n_of i)%nat) -> (length (customers p) <= n_of i)%nat.
Proof.
  intros Hc Hr.
  assert (ND : NoDup (customers p)).
  { apply (NoDup_count_occ Nat.eq_dec). intros x. unfold customers.
    destruct (Nat.eqb x 0) eqn:Ex.
    - apply Nat.eqb_eq in Ex. subst x.
      assert (~ In 0%nat (filter (fun a => negb (Nat.eqb a 0)) p)) as H.
      { intros H. apply filter_In in H as [_ H]. discriminate. }
      apply (count_occ_not_In Nat.eq_dec) in H. lia.
    - apply Nat.eqb_neq in Ex.
      destruct (in_dec Nat.eq_dec x p) as [Hin|Hnin].
      + assert (count_occ Nat.eq_dec (filter (fun a => negb (Nat.eqb a 0)) p) x <= count_occ Nat.eq_dec p x)%nat as Hle.
        { clear. induction p as [|y p IH]; simpl; [lia|]. destruct (Nat.eqb y 0); simpl; destruct (Nat.eq_dec y x); lia. }
        specialize (Hc x). specialize (Hr x Hin). unfold occ in Hc. lia.
      + assert (~ In x (filter (fun a => negb (Nat.eqb a 0)) p)) as H by (intros H; apply filter_In in H; tauto).
        apply (count_occ_not_In Nat.eq_dec) in H. lia. }
  assert (Hincl : incl (customers p) (seq 1 (n_of i))).
  { intros x Hx. unfold customers in Hx. apply filter_In in Hx as [Hx Hnz]. apply in_seq.
    apply negb_true_iff, Nat.eqb_neq in Hnz. specialize (Hr x Hx). lia. }
  pose proof (NoDup_incl_length ND Hincl) as H. rewrite seq_length in H. exact H.
Qed.

Theorem cvrp_bound i acts :
  cvrp_wf i -> cvrp_solvable i -> adm (E:=E) i acts = true ->
  (forall p q, acts = p ++ q -> q <> [] -> done E i (run (E:=E) i p) = false) ->
  (length acts <= 2 * n_of i + 1)%nat.
Proof.
  intros Hwf Hsol Hadm Hnd.
  (* stronger statement by induction on prefixes *)
  assert (G : forall p q, acts = p ++ q ->
             exists c, Inv i p c (run (E:=E) i p) /\
             Z.of_nat (length p) <= 2 * ncust p + (if Nat.eqb (cur (run (E:=E) i p)) 0 then (if Nat.eqb (length p) 0 then 0 else 1) else 0)).
  { intros p. induction p as [|a p IH] using rev_ind; intros q Hq.
    - exists []. split; [apply reset_inv; exact Hwf|]. cbn. lia.
    - rewrite <- app_assoc in Hq. destruct (IH _ Hq) as [c [HI Hb]].
      assert (Hadm' : adm (E:=E) i (p ++ [a]) = true).
      { rewrite Hq in Hadm. rewrite app_assoc in Hadm. apply adm_prefix in Hadm. exact Hadm. }
      rewrite adm_snoc in Hadm'. apply andb_prop in Hadm' as [Hap Hoa].
      pose proof (step_inv i p c _ a Hwf HI Hoa) as HI'.
      exists (if Nat.eqb a 0 then [] else a :: c). rewrite run_snoc. split; [exact HI'|].
      rewrite app_length, ncust_snoc. cbn [length step CVRP cvrp_step cur].
      replace (Nat.eqb (length p + 1) 0) with false by (symmetry; apply Nat.eqb_neq; lia).
      assert (Hb' : Z.of_nat (length p) <= 2 * ncust p + 1)
        by (destruct (Nat.eqb (cur (run (E:=E) i p)) 0); destruct (Nat.eqb (length p) 0); lia).
      destruct (Nat.eqb a 0) eqn:Ea; [|lia].
      (* depot move: impossible from the depot unless nothing was done yet *)
      apply Nat.eqb_eq in Ea. subst a.
      destruct (Nat.eqb (cur (run (E:=E) i p)) 0) eqn:Ec; [|lia].
      destruct (Nat.eqb (length p) 0) eqn:El; [lia|]. exfalso.
      apply Nat.eqb_eq in Ec. apply Nat.eqb_neq in El.
      rewrite offered_depot in Hoa. apply negb_true_iff in Hoa. unfold mask_depot in Hoa. rewrite Ec in Hoa. cbn [Nat.eqb andb] in Hoa.
      (* all customers masked while used = 0 means all visited; depot visited too since the last move was to the depot *)
      assert (Hd : done E i (run (E:=E) i p) = true).
      { cbn [done CVRP]. unfold cvrp_done. apply allb_forall. intros j Hj. rewrite (inv_len _ _ _ _ HI) in Hj.
        destruct j as [|j].
        - apply (inv_vis _ _ _ _ HI); [lia|]. rewrite (inv_cur _ _ _ _ HI) in Ec.
          destruct p as [|x p] using rev_ind; [cbn in El; lia|]. rewrite last_last in Ec. subst x. apply in_app_iff. right. left. reflexivity.
        - destruct (nth (S j) (vis (run (E:=E) i p)) false) eqn:Ev; [reflexivity|]. exfalso.
          assert (Hin : In (S j) (locs i)) by (apply in_seq; lia).
          assert (negb (mask_loc exact i (run (E:=E) i p) (S j)) = true) as Hoff.
          { unfold mask_loc, exceeds. rewrite Ev, rnd_exact. cbn [orb].
            rewrite (inv_used _ _ _ _ HI), (inv_cur0 _ _ _ _ HI Ec). cbn.
            pose proof (demand_le_cap i (S j) Hwf Hsol). lia. }
          assert (existsb (fun j0 => negb (mask_loc exact i (run (E:=E) i p) j0)) (locs i) = true) as Hex
            by (apply existsb_exists; exists (S j); split; assumption).
          congruence. }
      rewrite (Hnd p ([0%nat] ++ q)) in Hd; [discriminate | exact Hq | discriminate]. }
  destruct (G acts [] (eq_sym (app_nil_r acts))) as [c [HI Hb]].
  pose proof (customers_bound i acts (inv_cnt _ _ _ _ HI) (inv_rng _ _ _ _ HI)) as Hcb.
  unfold ncust in Hb. destruct (Nat.eqb (cur (run (E:=E) i acts)) 0); destruct (Nat.eqb (length acts) 0); lia.
Qed.

(* ================================================================ C03 *)
Definition cvrp_reward (i : cvrp_inst) (acts : list nat) : Z := - cyclic_len (dfun i) acts.
Definition cvrp_objective (i : cvrp_inst) (acts : list nat) : Z := - total_len (dfun i) acts.

Theorem cvrp_reward_is_objective i acts :
  dfun i 0%nat 0%nat = 0 -> cvrp_reward i acts = cvrp_objective i acts.
Proof. intros H. unfold cvrp_reward, cvrp_objective. rewrite cyclic_len_is_total_len by exact H. reflexivity. Qed.

(* ================================================================ C04 *)
(* once finished, the only offered action is the depot, it leaves the row finished with the same mask,
   and the reward of the padded action list is the reward of the unpadded one *)
Theorem cvrp_padding_inert i acts k :
  cvrp_wf i -> adm (E:=E) i acts = true -> done E i (run (E:=E) i acts) = true ->
  let pad := repeat 0%nat k in
  adm (E:=E) i (acts ++ pad) = true /\
  done E i (run (E:=E) i (acts ++ pad)) = true /\
  mask E i (run (E:=E) i (acts ++ pad)) = true :: repeat false (n_of i) /\
  (dfun i 0%nat 0%nat = 0 -> cvrp_reward i (acts ++ pad) = cvrp_reward i acts).
Proof.
  intros Hwf Hadm Hd. cbv zeta.
  assert (M : forall s, length (vis s) = S (n_of i) -> cvrp_done i s = true ->
                        cvrp_mask exact i s = true :: repeat false (n_of i)).
  { intros s Hl Hds. unfold cvrp_mask.
    assert (Hall : forall j, In j (locs i) -> mask_loc exact i s j = true).
    { intros j Hj. apply in_seq in Hj. unfold mask_loc. unfold cvrp_done in Hds. rewrite (allb_nth _ j Hds) by lia. reflexivity. }
    f_equal.
    - unfold mask_depot. replace (existsb (fun j => negb (mask_loc exact i s j)) (locs i)) with false; [rewrite andb_false_r; reflexivity|].
      symmetry. apply not_true_iff_false. intros H. apply existsb_exists in H as (j & Hj & Hm). rewrite Hall in Hm by exact Hj. discriminate.
    - unfold locs in *. clear -Hall. revert Hall. generalize 1%nat. induction (n_of i) as [|n IH]; intros st Hall; [reflexivity|].
      cbn [seq map repeat]. rewrite Hall by (left; reflexivity). cbn [negb]. f_equal. apply IH. intros j Hj. apply Hall. right. exact Hj. }
  induction k as [|k IH].
  - cbn [repeat]. rewrite app_nil_r. destruct (adm_inv i acts Hwf Hadm) as [c HI].
    repeat split; auto. apply M; [exact (inv_len _ _ _ _ HI) | exact Hd].
  - destruct IH as (IH1 & IH2 & IH3 & IH4).
    replace (repeat 0%nat (S k)) with (repeat 0%nat k ++ [0%nat]) by (symmetry; apply (repeat_cons k 0%nat)).
    rewrite app_assoc.
    assert (Ho : offered (E:=E) i (run (E:=E) i (acts ++ repeat 0%nat k)) 0 = true).
    { unfold offered. rewrite IH3. reflexivity. }
    assert (Hadm' : adm (E:=E) i ((acts ++ repeat 0%nat k) ++ [0%nat]) = true) by (rewrite adm_snoc, IH1, Ho; reflexivity).
    assert (Hd' : done E i (run (E:=E) i ((acts ++ repeat 0%nat k) ++ [0%nat])) = true) by (apply cvrp_done_stable; assumption).
    destruct (adm_inv i _ Hwf Hadm') as [c HI].
    repeat split; auto.
    + apply M; [exact (inv_len _ _ _ _ HI) | exact Hd'].
    + intros H00. rewrite <- app_assoc.
      replace (repeat 0%nat k ++ [0%nat]) with (repeat 0%nat (S k)) by (apply (repeat_cons k 0%nat)).
      unfold cvrp_reward, cyclic_len. rewrite walk_len_pad by exact H00. reflexivity.
Qed.

(* ---------------------------------------------------------------- executable twin of the specification *)
(* [slack] relaxes the capacity constraint (0 = the specification itself); the harness evaluates it on the
   implementation's episodes with the checker's own tolerance because the implementation adds in float32 *)
Definition cvrp_feasibleb (i : cvrp_inst) (slack : Z) (acts : list nat) : bool :=
  forallb (fun j => Nat.eqb (occ j acts) 1) (seq 1 (n_of i)) &&
  forallb (fun a => Nat.leb a (n_of i)) acts &&
  forallb (fun r => route_load i r <=? cap i + slack) (routes acts).

Lemma cvrp_feasibleb_ok i acts : cvrp_feasibleb i 0 acts = true <-> cvrp_feasible i acts.
Proof.
  unfold cvrp_feasibleb, cvrp_feasible. rewrite !andb_true_iff, !forallb_forall, Forall_forall. split.
  - intros [[H1 H2] H3]. repeat split.
    + intros j Hj. apply Nat.eqb_eq. apply H1. apply in_seq. lia.
    + intros a Ha. apply Nat.leb_le. apply H2. exact Ha.
    + intros r Hr. specialize (H3 r Hr). lia.
  - intros (H1 & H2 & H3). repeat split.
    + intros j Hj. apply Nat.eqb_eq. apply H1. apply in_seq in Hj. lia.
    + intros a Ha. apply Nat.leb_le. apply H2. exact Ha.
    + intros r Hr. specialize (H3 r Hr). lia.
Qed.

(* ================================================================ C05 *)
(* A solution of the problem is a list of non-empty routes partitioning the customers, each within capacity.
   Its canonical encoding visits the depot once after every route. *)
Definition encode_routes (rs : list (list nat)) : list nat := concat (map (fun r => r ++ [0%nat]) rs).

Definition cvrp_feasible_routes (i : cvrp_inst) (rs : list (list nat)) : Prop :=
  rs <> [] /\
  Forall (fun r => r <> []) rs /\
  NoDup (concat rs) /\
  (forall x, In x (concat rs) <-> (1 <= x <= n_of i)%nat) /\
  Forall (fun r => route_load i r <= cap i) rs.

Lemma route_load_app2 i a b : route_load i (a ++ b) = route_load i a + route_load i b.
Proof. unfold route_load. rewrite map_app, sumZ_app. reflexivity. Qed.

Lemma adm_route i : cvrp_wf i -> forall r p c s,
  Inv i p c s -> NoDup r -> (forall x, In x r -> (1 <= x <= n_of i)%nat /\ ~ In x p) ->
  route_load i (rev c ++ r) <= cap i ->
  adm_from (E:=E) i s r = true /\ Inv i (p ++ r) (rev r ++ c) (run_from (E:=E) i s r).
Proof.
  intros Hwf r. induction r as [|x r IH]; intros p c s HI Hnd Hin Hload.
  - cbn. rewrite app_nil_r. split; [reflexivity | exact HI].
  - cbn [adm_from run_from].
    destruct (Hin x (or_introl eq_refl)) as [Hx Hxp].
    assert (Ho : offered (E:=E) i s x = true).
    { rewrite offered_loc by lia. apply andb_true_intro. split; [apply Nat.leb_le; lia|].
      unfold mask_loc, exceeds. rewrite rnd_exact. apply negb_true_iff, orb_false_iff. split.
      - destruct (nth x (vis s) false) eqn:Ev; [|reflexivity]. exfalso. apply Hxp. apply (inv_vis _ _ _ _ HI); [lia | exact Ev].
      - rewrite (inv_used _ _ _ _ HI). rewrite route_load_app2 in Hload.
        replace (route_load i (x :: r)) with (demand i x + route_load i r) in Hload by reflexivity.
        pose proof (route_load_nonneg i r Hwf). lia. }
    pose proof (step_inv i p c s x Hwf HI Ho) as HI'.
    replace (Nat.eqb x 0) with false in HI' by (symmetry; apply Nat.eqb_neq; lia).
    inversion Hnd as [|? ? Hxr Hnd']; subst.
    destruct (IH (p ++ [x]) (x :: c) _ HI' Hnd') as [Ha HI''].
    + intros y Hy. destruct (Hin y (or_intror Hy)) as [Hy1 Hy2]. split; [exact Hy1|].
      intros Hc. apply in_app_iff in Hc as [Hc|[Hc|[]]]; [tauto | subst; tauto].
    + cbn [rev]. rewrite <- app_assoc. exact Hload.
    + cbn [step CVRP] in *. rewrite Ho, Ha. split; [reflexivity|]. cbn [rev]. rewrite <- !app_assoc in *. exact HI''.
Qed.

Lemma adm_routes i : cvrp_wf i -> forall rs p s,
  Inv i p [] s ->
  Forall (fun r => r <> []) rs -> NoDup (concat rs) ->
  (forall x, In x (concat rs) -> (1 <= x <= n_of i)%nat /\ ~ In x p) ->
  Forall (fun r => route_load i r <= cap i) rs ->
  adm_from (E:=E) i s (encode_routes rs) = true /\
  Inv i (p ++ encode_routes rs) [] (run_from (E:=E) i s (encode_routes rs)).
Proof.
  intros Hwf rs. induction rs as [|r rs IH]; intros p s HI Hne Hnd Hin Hload.
  - cbn. rewrite app_nil_r. split; [reflexivity | exact HI].
  - unfold encode_routes. cbn [map concat]. fold (encode_routes rs).
    inversion Hne as [|? ? Hr Hne']; subst. inversion Hload as [|? ? Hlr Hload']; subst.
    cbn [concat] in Hnd, Hin. pose proof (NoDup_app_l _ _ Hnd) as Hndr.
    destruct (adm_route i Hwf r p [] s HI Hndr) as [Ha1 HI1].
    { intros x Hx. apply Hin. apply in_app_iff. left. exact Hx. }
    { cbn. exact Hlr. }
    (* the depot after a non-empty route *)
    set (s1 := run_from (E:=E) i s r) in *.
    assert (Hc1 : cur s1 <> 0%nat).
    { rewrite (inv_cur _ _ _ _ HI1). destruct r as [|x r] using rev_ind; [congruence|].
      rewrite app_assoc, last_last. destruct (Hin x) as [Hx _]; [apply in_app_iff; left; apply in_app_iff; right; left; reflexivity|]. lia. }
    assert (Ho : offered (E:=E) i s1 0 = true).
    { rewrite offered_depot. unfold mask_depot. apply Nat.eqb_neq in Hc1. rewrite Hc1. reflexivity. }
    pose proof (step_inv i _ _ s1 0%nat Hwf HI1 Ho) as HI2. cbn [Nat.eqb] in HI2.
    destruct (IH ((p ++ r) ++ [0%nat]) _ HI2 Hne') as [Ha3 HI3].
    + apply NoDup_app_r in Hnd. exact Hnd.
    + intros x Hx. destruct (Hin x) as [Hx1 Hx2]; [apply in_app_iff; right; exact Hx|]. split; [exact Hx1|].
      intros Hc. apply in_app_iff in Hc as [Hc|[Hc|[]]]; [|lia].
      apply in_app_iff in Hc as [Hc|Hc]; [tauto|].
      exact (NoDup_app_disj _ _ x Hnd Hc Hx).
    + exact Hload'.
    + rewrite <- !app_assoc. rewrite adm_from_app, Ha1. cbn [andb]. fold s1.
      rewrite run_from_app. fold s1. cbn [app adm_from run_from]. rewrite Ho. cbn [andb].
      split; [exact Ha3|]. rewrite <- !app_assoc in HI3. cbn [app] in HI3. exact HI3.
Qed.

Theorem cvrp_mask_complete i rs :
  cvrp_wf i -> cvrp_feasible_routes i rs ->
  adm (E:=E) i (encode_routes rs) = true /\
  done E i (run (E:=E) i (encode_routes rs)) = true /\
  routes (encode_routes rs) = rs ++ [[]].
Proof.
  intros Hwf (Hne & Hnn & Hnd & Hin & Hload).
  destruct (adm_routes i Hwf rs [] _ (reset_inv i Hwf) Hnn Hnd) as [Ha HI]; [|exact Hload|].
  { intros x Hx. split; [apply Hin; exact Hx | intros []]. }
  split; [exact Ha|]. split.
  - cbn [done CVRP]. unfold cvrp_done. apply allb_forall. intros j Hj. cbn [app] in HI.
    unfold run in *. cbn [reset CVRP] in *.
    rewrite (inv_len _ _ _ _ HI) in Hj. apply (inv_vis _ _ _ _ HI); [lia|].
    destruct j as [|j].
    + destruct rs as [|r rs]; [congruence|]. unfold encode_routes. cbn [map concat].
      apply in_app_iff. left. apply in_app_iff. right. left. reflexivity.
    + assert (Hj' : In (S j) (concat rs)) by (apply Hin; lia).
      clear -Hj'. induction rs as [|r rs IH]; [destruct Hj'|]. unfold encode_routes. cbn [map concat] in *.
      apply in_app_iff in Hj' as [H|H]; apply in_app_iff; [left; apply in_app_iff; left; exact H | right; apply IH; exact H].
  - (* decoding the canonical encoding gives the routes back *)
    assert (Hnz : Forall (fun r => Forall (fun x => x <> 0%nat) r) rs).
    { apply Forall_forall. intros r Hr. apply Forall_forall. intros x Hx.
      assert (In x (concat rs)) as Hc by (apply in_concat; exists r; split; assumption). apply Hin in Hc. lia. }
    clear -Hnz. unfold routes.
    assert (G : forall r c, Forall (fun x => x <> 0%nat) r -> forall rest, routes_aux (r ++ 0%nat :: rest) c = (rev c ++ r) :: routes_aux rest []).
    { induction r as [|x r IHr]; intros c Hr rest; cbn [app routes_aux].
      - cbn. rewrite app_nil_r. reflexivity.
      - inversion Hr as [|? ? Hx Hr']; subst. apply Nat.eqb_neq in Hx. rewrite Hx. rewrite IHr by exact Hr'. cbn [rev]. rewrite <- app_assoc. reflexivity. }
    induction rs as [|r rs IH]; [reflexivity|]. inversion Hnz as [|? ? Hr Hnz']; subst.
    unfold encode_routes. cbn [map concat]. fold (encode_routes rs). rewrite <- app_assoc. cbn [app].
    rewrite G by exact Hr. cbn [rev app]. f_equal. apply IH. exact Hnz'.
Qed.

(* the objective of the canonical encoding is the sum of the closed route lengths: nothing is lost by encoding *)
Theorem cvrp_encode_objective i rs :
  dfun i 0%nat 0%nat = 0 -> Forall (fun r => Forall (fun x => x <> 0%nat) r) rs ->
  cvrp_objective i (encode_routes rs) = - sumZ (map (route_len (dfun i)) rs).
Proof.
  intros H00 Hnz. unfold cvrp_objective, total_len, routes.
  assert (G : forall r c, Forall (fun x => x <> 0%nat) r -> forall rest, routes_aux (r ++ 0%nat :: rest) c = (rev c ++ r) :: routes_aux rest []).
  { induction r as [|x r IHr]; intros c Hr rest; cbn [app routes_aux].
    - cbn. rewrite app_nil_r. reflexivity.
    - inversion Hr as [|? ? Hx Hr']; subst. apply Nat.eqb_neq in Hx. rewrite Hx. rewrite IHr by exact Hr'. cbn [rev]. rewrite <- app_assoc. reflexivity. }
  f_equal. induction rs as [|r rs IH].
  - cbn. unfold route_len. cbn. rewrite H00. reflexivity.
  - inversion Hnz as [|? ? Hr Hnz']; subst. unfold encode_routes. cbn [map concat]. fold (encode_routes rs).
    rewrite <- app_assoc. cbn [app]. rewrite G by exact Hr. cbn [rev app map sumZ]. rewrite IH by exact Hnz'. reflexivity.
Qed.

(* ================================================================ C06 *)
From RL4CO Require Import Base.SortNat.

Lemma sorted_ok_iff i acts :
  sorted_ok i acts = true <->
  (n_of i <= length acts)%nat /\ (forall j, (1 <= j <= n_of i)%nat -> occ j acts = 1%nat) /\ (forall a, In a acts -> (a <= n_of i)%nat).
Proof.
  unfold sorted_ok. set (n := n_of i). set (k := (length acts - n)%nat). set (s := sort_nat acts).
  rewrite !andb_true_iff, Nat.leb_le. split.
  - intros [[Hlen Hz] Hs]. split; [exact Hlen|].
    destruct (list_eq_dec Nat.eq_dec (skipn k s) (seq 1 n)) as [Hsk|]; [|discriminate].
    apply (sort_is_zeros_seq acts n Hlen). fold k. fold s.
    rewrite <- (firstn_skipn k s). rewrite Hsk. f_equal.
    assert (Hl : length (firstn k s) = k) by (unfold s; rewrite firstn_length, sort_length; unfold k; lia).
    rewrite <- Hl at 2. clear -Hz. induction (firstn k s) as [|x l IH]; [reflexivity|].
    cbn [forallb] in Hz. apply andb_prop in Hz as [Hx Hz]. apply Nat.eqb_eq in Hx. subst x. cbn [length repeat]. f_equal. apply IH. exact Hz.
  - intros (Hlen & Hocc & Hrng). pose proof (proj2 (sort_is_zeros_seq acts n Hlen) (conj Hocc Hrng)) as Hs. fold k in Hs. fold s in Hs.
    split; [split; [exact Hlen|]|].
    + rewrite Hs. rewrite firstn_app, repeat_length, Nat.sub_diag. cbn [firstn]. rewrite app_nil_r, firstn_all2 by (rewrite repeat_length; lia).
      apply forallb_forall. intros x Hx. apply repeat_spec in Hx. subst. reflexivity.
    + rewrite Hs. rewrite skipn_app, repeat_length, Nat.sub_diag. cbn [skipn]. rewrite skipn_all2 by (rewrite repeat_length; lia). cbn [app].
      destruct (list_eq_dec Nat.eq_dec (seq 1 n) (seq 1 n)); [reflexivity | congruence].
Qed.

(* head route of a split: the open route continued up to the next depot visit *)
Lemma routes_aux_head_load i : cvrp_wf i -> forall acts c,
  exists h t, routes_aux acts c = h :: t /\ route_load i (rev c) <= route_load i h.
Proof.
  intros Hwf acts. induction acts as [|a r IH]; intros c; cbn [routes_aux].
  - exists (rev c), []. split; [reflexivity | lia].
  - destruct (Nat.eqb a 0).
    + exists (rev c), (routes_aux r []). split; [reflexivity | lia].
    + destruct (IH (a :: c)) as (h & t & E & Hl). exists h, t. split; [exact E|].
      cbn [rev] in Hl. rewrite route_load_app in Hl. pose proof (demand_nonneg i a Hwf). lia.
Qed.

Lemma load_ok_complete i : cvrp_wf i -> 0 <= tol i -> forall acts c,
  Forall (fun r => route_load i r <= cap i) (routes_aux acts c) ->
  load_ok exact i (route_load i (rev c)) acts = true.
Proof.
  intros Hwf Htol acts. destruct Hwf as [Hd Hc]. assert (Hwf : cvrp_wf i) by (split; assumption).
  induction acts as [|a r IH]; intros c HF; cbn [load_ok routes_aux] in *; [reflexivity|].
  rewrite !rnd_exact. destruct (Nat.eqb a 0) eqn:Ea.
  - inversion HF as [|? ? Hh HF']; subst.
    assert (E : (if route_load i (rev c) + - cap i <? 0 then 0 else route_load i (rev c) + - cap i) = 0).
    { destruct (route_load i (rev c) + - cap i <? 0) eqn:El; lia. }
    rewrite E. apply andb_true_intro. split; [lia|]. apply (IH [] HF').
  - pose proof (demand_nonneg i a Hwf) as Hda. pose proof (route_load_nonneg i (rev c) Hwf) as Hln.
    replace (route_load i (rev c) + demand i a <? 0) with false by lia.
    destruct (routes_aux_head_load i Hwf r (a :: c)) as (h & t & E & Hl). rewrite E in HF. inversion HF as [|? ? Hh _]; subst.
    cbn [rev] in *. rewrite route_load_app in *. apply andb_true_intro. split; [lia|].
    specialize (IH (a :: c)). cbn [rev] in IH. rewrite route_load_app in IH. apply IH. rewrite E. exact HF.
Qed.

Theorem cvrp_checker_complete i acts :
  cvrp_wf i -> 0 <= tol i -> cvrp_feasible i acts -> (n_of i <= length acts)%nat ->
  cvrp_checker exact i acts = true.
Proof.
  intros Hwf Htol (Hocc & Hrng & Hload) Hlen. unfold cvrp_checker. apply andb_true_intro. split.
  - apply sorted_ok_iff. auto.
  - apply (load_ok_complete i Hwf Htol acts [] Hload).
Qed.

Lemma load_ok_sound i : cvrp_wf i -> 0 <= tol i -> forall acts c u rho,
  0 <= rho <= tol i -> u = rho + route_load i (rev c) ->
  load_ok exact i u acts = true -> u <= cap i + tol i ->
  Forall (fun r => route_load i r <= cap i + tol i) (routes_aux acts c).
Proof.
  intros Hwf Htol acts. induction acts as [|a r IH]; intros c u rho Hrho Hu Hok Hcur; cbn [load_ok routes_aux] in *.
  - constructor; [lia | constructor].
  - rewrite !rnd_exact in Hok. apply andb_prop in Hok as [Hle Hok]. destruct (Nat.eqb a 0) eqn:Ea.
    + constructor; [lia|].
      set (u2 := if u + - cap i <? 0 then 0 else u + - cap i) in *.
      assert (Hu2 : 0 <= u2 <= tol i) by (unfold u2; destruct (u + - cap i <? 0) eqn:El; lia).
      apply (IH [] u2 u2 Hu2); [cbn; lia | exact Hok | lia].
    + pose proof (demand_nonneg i a Hwf) as Hda. pose proof (route_load_nonneg i (rev c) Hwf) as Hln.
      replace (u + demand i a <? 0) with false in * by lia.
      apply (IH (a :: c) (u + demand i a) rho Hrho); [cbn [rev]; rewrite route_load_app; lia | exact Hok | lia].
Qed.

(* accepted => each customer exactly once, nodes in range, every route within capacity + the checker's tolerance *)
Theorem cvrp_checker_sound i acts :
  cvrp_wf i -> 0 <= tol i -> cvrp_checker exact i acts = true ->
  (forall j, (1 <= j <= n_of i)%nat -> occ j acts = 1%nat) /\
  (forall a, In a acts -> (a <= n_of i)%nat) /\
  Forall (fun r => route_load i r <= cap i + tol i) (routes acts).
Proof.
  intros Hwf Htol Hc. unfold cvrp_checker in Hc. apply andb_prop in Hc as [Hs Hl].
  apply sorted_ok_iff in Hs as (_ & Hocc & Hrng). repeat split; auto.
  apply (load_ok_sound i Hwf Htol acts [] 0 0); [lia | cbn; lia | exact Hl | destruct Hwf; lia].
Qed.

(* each fault kind named by the property is rejected *)
Corollary cvrp_checker_rejects_missing i acts j :
  (1 <= j <= n_of i)%nat -> ~ In j acts -> cvrp_checker exact i acts = false.
Proof.
  intros Hj Hn. apply not_true_iff_false. intros Hc. unfold cvrp_checker in Hc. apply andb_prop in Hc as [Hs _].
  apply sorted_ok_iff in Hs as (_ & Hocc & _). specialize (Hocc j Hj). apply occ_not_In in Hn. lia.
Qed.
Corollary cvrp_checker_rejects_duplicate i acts j :
  (1 <= j <= n_of i)%nat -> (2 <= occ j acts)%nat -> cvrp_checker exact i acts = false.
Proof.
  intros Hj Hn. apply not_true_iff_false. intros Hc. unfold cvrp_checker in Hc. apply andb_prop in Hc as [Hs _].
  apply sorted_ok_iff in Hs as (_ & Hocc & _). specialize (Hocc j Hj). lia.
Qed.
Corollary cvrp_checker_rejects_overload i acts r :
  cvrp_wf i -> 0 <= tol i -> In r (routes acts) -> cap i + tol i < route_load i r -> cvrp_checker exact i acts = false.
Proof.
  intros Hwf Htol Hr Hl. apply not_true_iff_false. intros Hc.
  destruct (cvrp_checker_sound i acts Hwf Htol Hc) as (_ & _ & HF). rewrite Forall_forall in HF. specialize (HF r Hr). lia.
Qed.

Lemma cvrp_mask_complete_unfolded :
  forall (i : cvrp_inst) (rs : list (list nat)),
    cvrp_wf i ->
    rs <> [] -> Forall (fun r => r <> []) rs -> NoDup (concat rs) ->
    (forall x, In x (concat rs) <-> (1 <= x <= n_of i)%nat) ->
    Forall (fun r => sumZ (map (demand i) r) <= cap i) rs ->
    adm (E:=E) i (encode_routes rs) = true /\
    done E i (run (E:=E) i (encode_routes rs)) = true /\
    routes (encode_routes rs) = rs ++ [[]].
Proof.
  intros i rs Hwf H1 H2 H3 H4 H5. apply cvrp_mask_complete; [exact Hwf|].
  unfold cvrp_feasible_routes. split; [exact H1|]. split; [exact H2|]. split; [exact H3|]. split; [exact H4 | exact H5].
Qed.
