(* ATSP (generated from the TSP development by renaming, then adapted): independent specification and the theorems for C01 (mask soundness), C02 (no dead end, bound, done exactly
   at step n, all rows of a batch finish together), C03 (reward = closed tour length), C04 (batched step = row-wise
   step under the shared-counter invariant; no padding action exists), C05 (every permutation reachable),
   C06 (checker). *)
From Coq Require Import ZArith List Bool Lia ZifyBool Arith Permutation.
From RL4CO Require Import Base.Num Base.EnvSig Base.SortNat Spec.Tours Env.TourCore Env.ATSP.
Import ListNotations.
Open Scope Z_scope.

Notation E := ATSP.

(* ---------------------------------------------------------------- specification *)
(* a solution is a visiting order of the n cities: every city exactly once *)
Definition atsp_feasible (i : atsp_inst) (acts : list nat) : Prop := visits_each_once (atsp_n i) acts.
Definition atsp_feasibleb (i : atsp_inst) (acts : list nat) : bool := visits_each_onceb (atsp_n i) acts.
Lemma atsp_feasibleb_ok i acts : atsp_feasibleb i acts = true <-> atsp_feasible i acts.
Proof. apply visits_each_onceb_ok. Qed.

(* objective: minus the length of the closed tour *)
Definition atsp_objective (i : atsp_inst) (acts : list nat) : Z := - closed_len (atsp_d i) acts.

(* documented input format: at least one node; the cost matrix is n x n with n = the generator's num_loc
   (no symmetry, no triangle inequality, arbitrary diagonal) *)
Definition atsp_wf (i : atsp_inst) : Prop :=
  (1 <= atsp_n i)%nat /\ length (acost i) = atsp_n i /\ Forall (fun r => length r = atsp_n i) (acost i).
Definition atsp_wfb (i : atsp_inst) : bool :=
  Nat.leb 1 (atsp_n i) && Nat.eqb (length (acost i)) (atsp_n i) &&
  forallb (fun r => Nat.eqb (length r) (atsp_n i)) (acost i).

Lemma atsp_wfb_ok i : atsp_wfb i = true <-> atsp_wf i.
Proof.
  unfold atsp_wfb, atsp_wf. rewrite !andb_true_iff, Nat.leb_le, Nat.eqb_eq, forallb_forall, Forall_forall. split.
  - intros [[H1 H2] H3]. split; [exact H1|]. split; [exact H2|]. intros r Hr. apply Nat.eqb_eq. apply H3. exact Hr.
  - intros (H1 & H2 & H3). split; [split; assumption|]. intros r Hr. apply Nat.eqb_eq. apply H3. exact Hr.
Qed.

(* ---------------------------------------------------------------- the run in terms of the bit-vector automaton *)
Lemma atsp_avail_run_from i s acts : aavail (run_from (E:=E) i s acts) = avail_after (aavail s) acts.
Proof. revert s; induction acts as [|a r IH]; intros s; [reflexivity|]. cbn [run_from avail_after]. rewrite IH. reflexivity. Qed.

Lemma atsp_adm_from i s acts : adm_from (E:=E) i s acts = avail_adm (aavail s) acts.
Proof. revert s; induction acts as [|a r IH]; intros s; [reflexivity|]. cbn [adm_from avail_adm]. rewrite IH. reflexivity. Qed.

Lemma atsp_avail_run i acts : aavail (run (E:=E) i acts) = avail_after (repeat true (atsp_n i)) acts.
Proof. apply atsp_avail_run_from. Qed.

Lemma atsp_adm_iff i acts :
  adm (E:=E) i acts = true <-> NoDup acts /\ (forall a, In a acts -> (a < atsp_n i)%nat).
Proof. unfold adm. rewrite atsp_adm_from. apply avail_adm_fresh. Qed.

Lemma atsp_cnt_run_from i s acts : acnt (run_from (E:=E) i s acts) = (acnt s + length acts)%nat.
Proof. revert s; induction acts as [|a r IH]; intros s; cbn [run_from length]; [lia|]. rewrite IH. cbn. lia. Qed.

Lemma atsp_cnt_run i acts : acnt (run (E:=E) i acts) = length acts.
Proof. unfold run. rewrite atsp_cnt_run_from. reflexivity. Qed.

(* the done flag: False at reset, afterwards "nothing left in the mask" *)
Lemma atsp_dn_run i acts : acts <> [] -> adn (run (E:=E) i acts) = negb (anyb (aavail (run (E:=E) i acts))).
Proof.
  intros Hne. destruct acts as [|a acts] using rev_ind; [congruence|]. rewrite run_snoc.
  cbn [step ATSP]. unfold atsp_step, atsp_step_g. cbn [adn aavail]. rewrite <- countb_anyb.
  destruct (countb (clear a (aavail (run (E:=ATSP) i acts)))); reflexivity.
Qed.

(* done exactly when n actions have been taken (n >= 1) *)
Lemma atsp_done_iff i acts : (1 <= atsp_n i)%nat -> adm (E:=E) i acts = true ->
  (done E i (run (E:=E) i acts) = true <-> length acts = atsp_n i).
Proof.
  intros Hn Hadm. apply atsp_adm_iff in Hadm as [Hnd Hr]. cbn [done ATSP]. unfold atsp_done.
  destruct acts as [|a acts].
  - cbn. split; [discriminate | lia].
  - rewrite atsp_dn_run by discriminate. rewrite negb_true_iff, atsp_avail_run. apply nothing_left_iff; assumption.
Qed.

(* ================================================================ C01 *)
Theorem atsp_mask_sound i acts :
  atsp_wf i -> adm (E:=E) i acts = true -> done E i (run (E:=E) i acts) = true -> atsp_feasible i acts.
Proof.
  intros [Hn _] Hadm Hd. apply (atsp_done_iff i acts Hn Hadm) in Hd. apply atsp_adm_iff in Hadm as [Hnd Hr].
  apply visits_each_once_nodup. auto.
Qed.

(* ================================================================ C02 *)
Lemma atsp_offered i s a : offered (E:=E) i s a = nth a (aavail s) false.
Proof. reflexivity. Qed.

Theorem atsp_step_ok i acts a :
  adm (E:=E) i acts = true -> offered (E:=E) i (run (E:=E) i acts) a = true -> stepok E i (run (E:=E) i acts) a = true.
Proof.
  intros _ Ho. rewrite atsp_offered in Ho. cbn [stepok ATSP]. unfold atsp_stepok. apply Nat.ltb_lt.
  destruct (lt_dec a (length (aavail (run (E:=E) i acts)))) as [H|H]; [exact H|].
  rewrite nth_overflow in Ho by lia. discriminate.
Qed.

Theorem atsp_bound i acts : adm (E:=E) i acts = true -> (length acts <= atsp_n i)%nat.
Proof. intros Hadm. apply atsp_adm_iff in Hadm as [Hnd Hr]. apply distinct_in_range_le; assumption. Qed.

Theorem atsp_no_dead_end i acts :
  atsp_wf i -> adm (E:=E) i acts = true -> done E i (run (E:=E) i acts) = false ->
  anyb (mask E i (run (E:=E) i acts)) = true.
Proof.
  intros [Hn _] Hadm Hd. pose proof (atsp_done_iff i acts Hn Hadm) as Hiff.
  apply atsp_adm_iff in Hadm as [Hnd Hr]. cbn [mask ATSP]. unfold atsp_mask. rewrite atsp_avail_run.
  destruct (anyb (avail_after (repeat true (atsp_n i)) acts)) eqn:Ea; [reflexivity|].
  apply (nothing_left_iff (atsp_n i) acts Hnd Hr) in Ea. apply Hiff in Ea. congruence.
Qed.

(* once done the mask is empty: there is no action to pad with *)
Theorem atsp_done_mask_empty i acts a :
  atsp_wf i -> adm (E:=E) i acts = true -> done E i (run (E:=E) i acts) = true ->
  offered (E:=E) i (run (E:=E) i acts) a = false.
Proof.
  intros [Hn _] Hadm Hd. apply (atsp_done_iff i acts Hn Hadm) in Hd.
  apply atsp_adm_iff in Hadm as [Hnd Hr]. rewrite atsp_offered, atsp_avail_run.
  apply (nothing_left_iff (atsp_n i) acts Hnd Hr) in Hd. rewrite anyb_false in Hd. apply Hd.
Qed.

(* (vacuously) a finished row stays finished: no action is admitted after done *)
Theorem atsp_done_stable i acts a :
  atsp_wf i -> adm (E:=E) i (acts ++ [a]) = true -> done E i (run (E:=E) i acts) = true ->
  done E i (run (E:=E) i (acts ++ [a])) = true.
Proof.
  intros Hwf Hadm Hd. rewrite adm_snoc in Hadm. apply andb_prop in Hadm as [Ha Ho].
  rewrite (atsp_done_mask_empty i acts a Hwf Ha Hd) in Ho. discriminate.
Qed.

(* batch level: rows of one batch have the same number of cities and have taken the same number t of (admitted)
   steps; then t <= n, for t < n every row is unfinished and has a non-empty mask, for t = n every row is finished *)
Theorem atsp_batch_lockstep (n t : nat) (rows : list (atsp_inst * list nat)) :
  (forall r, In r rows -> atsp_wf (fst r) /\ atsp_n (fst r) = n /\ length (snd r) = t /\ adm (E:=E) (fst r) (snd r) = true) ->
  rows <> [] ->
  (t <= n)%nat /\
  ((t < n)%nat -> forall r, In r rows -> done E (fst r) (run (E:=E) (fst r) (snd r)) = false /\
                                         anyb (mask E (fst r) (run (E:=E) (fst r) (snd r))) = true) /\
  (t = n -> forall r, In r rows -> done E (fst r) (run (E:=E) (fst r) (snd r)) = true).
Proof.
  intros H Hne. split; [|split].
  - destruct rows as [|r rows]; [congruence|]. destruct (H r (or_introl eq_refl)) as (_ & Hn & Ht & Ha).
    apply atsp_bound in Ha. lia.
  - intros Hlt r Hr. destruct (H r Hr) as (Hwf & Hn & Ht & Ha).
    assert (Hd : done E (fst r) (run (E:=E) (fst r) (snd r)) = false).
    { destruct (done E (fst r) (run (E:=E) (fst r) (snd r))) eqn:Ed; [|reflexivity].
      apply (atsp_done_iff _ _ (proj1 Hwf) Ha) in Ed. lia. }
    split; [exact Hd | apply atsp_no_dead_end; assumption].
  - intros Heq r Hr. destruct (H r Hr) as (Hwf & Hn & Ht & Ha). apply (atsp_done_iff _ _ (proj1 Hwf) Ha). lia.
Qed.

(* ================================================================ C03 *)
Theorem atsp_reward_is_objective i acts : atsp_reward i acts = atsp_objective i acts.
Proof. unfold atsp_reward, atsp_objective. rewrite roll_sum_closed_len. reflexivity. Qed.

(* on a tour the indexing of _get_reward stays inside the matrix *)
Lemma atsp_feasible_rewardok i acts : atsp_wf i -> atsp_feasible i acts -> atsp_rewardok i acts = true.
Proof.
  intros (_ & Hl & _) [_ Hr]. unfold atsp_rewardok. apply forallb_forall. intros a Ha. apply Nat.ltb_lt. rewrite Hl. apply Hr. exact Ha.
Qed.

(* ================================================================ C04 *)
(* the batch-global first-step test equals the row-wise one when all rows share the step counter *)
Lemma atsp_first_test_shared rows c s : (forall s', In s' rows -> acnt s' = c) -> In s rows ->
  atsp_first_test rows = Nat.eqb (acnt s) 0.
Proof.
  intros Hc Hs. destruct rows as [|s0 rows]; [destruct Hs|]. cbn [atsp_first_test].
  rewrite (Hc s0 (or_introl eq_refl)), (Hc s Hs). reflexivity.
Qed.

Theorem atsp_bstep_rowwise i rows acts c : (forall s, In s rows -> acnt s = c) ->
  atsp_bstep rows acts = map (fun sa => atsp_step i (fst sa) (snd sa)) (combine rows acts).
Proof.
  intros Hc. unfold atsp_bstep. apply map_ext_in. intros [s a] Hin. cbn [fst snd]. unfold atsp_step.
  apply in_combine_l in Hin. rewrite (atsp_first_test_shared rows c s Hc Hin). reflexivity.
Qed.

Theorem atsp_bstep_keeps_counter rows acts c : (forall s, In s rows -> acnt s = c) ->
  forall s', In s' (atsp_bstep rows acts) -> acnt s' = S c.
Proof.
  intros Hc s' Hin. unfold atsp_bstep in Hin. apply in_map_iff in Hin as ([s a] & <- & Hin).
  apply in_combine_l in Hin. cbn. f_equal. apply Hc. exact Hin.
Qed.

Lemma atsp_reset_counter (insts : list atsp_inst) : forall s, In s (map atsp_reset insts) -> acnt s = 0%nat.
Proof. intros s Hin. apply in_map_iff in Hin as (i & <- & _). reflexivity. Qed.

(* whole batched episodes: [steps] is the list of per-step action vectors (one action per row); row r of the batched
   run is the row-wise run of row r on its own column of actions *)
Fixpoint atsp_brun (rows : list atsp_st) (steps : list (list nat)) : list atsp_st :=
  match steps with [] => rows | av :: rest => atsp_brun (atsp_bstep rows av) rest end.

Theorem atsp_brun_rowwise (insts : list atsp_inst) (steps : list (list nat)) :
  Forall (fun av => length av = length insts) steps ->
  forall r dflt_i, (r < length insts)%nat ->
    nth r (atsp_brun (map atsp_reset insts) steps) (atsp_reset dflt_i)
    = run (E:=E) (nth r insts dflt_i) (map (fun av => nth r av 0%nat) steps).
Proof.
  intros Hlen r di Hr.
  assert (G : forall steps rows c, Forall (fun av => length av = length rows) steps ->
                (forall s, In s rows -> acnt s = c) -> (r < length rows)%nat ->
                forall ds, nth r (atsp_brun rows steps) ds
                           = run_from (E:=E) (nth r insts di) (nth r rows ds) (map (fun av => nth r av 0%nat) steps)).
  { clear. induction steps as [|av rest IH]; intros rows c Hl Hc Hr ds; [reflexivity|].
    inversion Hl as [|? ? Hav Hrest]; subst. cbn [atsp_brun map run_from].
    assert (Hlen' : length (atsp_bstep rows av) = length rows).
    { unfold atsp_bstep. rewrite map_length, combine_length. lia. }
    rewrite (IH (atsp_bstep rows av) (S c)).
    - f_equal. rewrite (atsp_bstep_rowwise (nth r insts di) rows av c Hc).
      rewrite (nth_indep _ ds (atsp_step (nth r insts di) (fst (ds, 0%nat)) (snd (ds, 0%nat))))
        by (rewrite map_length, combine_length; lia).
      rewrite (map_nth (fun sa => atsp_step (nth r insts di) (fst sa) (snd sa))). rewrite combine_nth by lia. reflexivity.
    - rewrite Hlen'. exact Hrest.
    - apply atsp_bstep_keeps_counter. exact Hc.
    - lia. }
  unfold run. rewrite (G steps (map atsp_reset insts) 0%nat).
  - f_equal. rewrite (map_nth atsp_reset). reflexivity.
  - rewrite map_length. exact Hlen.
  - apply atsp_reset_counter.
  - rewrite map_length. exact Hr.
Qed.

(* there is no padding: nothing can be admitted after the row is done *)
Theorem atsp_no_padding i acts pad :
  atsp_wf i -> adm (E:=E) i (acts ++ pad) = true -> done E i (run (E:=E) i acts) = true -> pad = [].
Proof.
  intros Hwf Hadm Hd. destruct pad as [|a pad]; [reflexivity|]. exfalso.
  replace (acts ++ a :: pad) with ((acts ++ [a]) ++ pad) in Hadm by (rewrite <- app_assoc; reflexivity).
  apply adm_prefix in Hadm. rewrite adm_snoc in Hadm. apply andb_prop in Hadm as [Ha Ho].
  rewrite (atsp_done_mask_empty i acts a Hwf Ha Hd) in Ho. discriminate.
Qed.

(* ================================================================ C05 *)
(* every visiting order of the n cities is admitted by the masks and ends the episode *)
Theorem atsp_mask_complete i acts :
  atsp_wf i -> atsp_feasible i acts -> adm (E:=E) i acts = true /\ done E i (run (E:=E) i acts) = true.
Proof.
  intros [Hn _] Hf. apply visits_each_once_nodup in Hf as (Hl & Hnd & Hr).
  assert (Hadm : adm (E:=E) i acts = true) by (apply atsp_adm_iff; auto).
  split; [exact Hadm|]. apply (atsp_done_iff i acts Hn Hadm). exact Hl.
Qed.

(* ================================================================ C06 *)
Lemma atsp_cols_n i : atsp_wf i -> atsp_cols i = atsp_n i.
Proof.
  intros (H1 & Hl & Hr). unfold atsp_cols. destruct (acost i) as [|r m]; [cbn in Hl; lia|].
  cbn [hd]. inversion Hr; assumption.
Qed.

Lemma atsp_checker_iff i acts : atsp_wf i -> (atsp_checker i acts = true <-> atsp_feasible i acts).
Proof.
  intros Hwf. unfold atsp_checker, atsp_feasible. rewrite (atsp_cols_n i Hwf), andb_true_iff, Nat.eqb_eq, sorted_is_arange_iff. split.
  - intros [Hl Hv]. rewrite Hl in Hv. exact Hv.
  - intros Hv. pose proof (proj1 (visits_each_once_nodup _ _) Hv) as (Hl & _). split; [exact Hl | rewrite Hl; exact Hv].
Qed.

Theorem atsp_checker_complete i acts : atsp_wf i -> atsp_feasible i acts -> atsp_checker i acts = true.
Proof. intros Hwf. apply (atsp_checker_iff i acts Hwf). Qed.

(* accepted => every node exactly once; no hypothesis on the length of the action list: the checker establishes it *)
Theorem atsp_checker_sound i acts : atsp_wf i -> atsp_checker i acts = true -> atsp_feasible i acts.
Proof. intros Hwf. apply (atsp_checker_iff i acts Hwf). Qed.

Corollary atsp_checker_rejects_wrong_length i acts : atsp_wf i -> length acts <> atsp_n i -> atsp_checker i acts = false.
Proof.
  intros Hwf Hl. apply not_true_iff_false. intros Hc. apply (atsp_checker_sound i acts Hwf), visits_each_once_nodup in Hc as (H & _). contradiction.
Qed.

Corollary atsp_checker_rejects_missing i acts j : atsp_wf i -> (j < atsp_n i)%nat -> ~ In j acts -> atsp_checker i acts = false.
Proof.
  intros Hwf Hj Hn. apply not_true_iff_false. intros Hc. destruct (atsp_checker_sound i acts Hwf Hc) as [Ho _].
  specialize (Ho j Hj). apply occ_not_In in Hn. lia.
Qed.

Corollary atsp_checker_rejects_duplicate i acts j : atsp_wf i -> (2 <= occ j acts)%nat -> atsp_checker i acts = false.
Proof.
  intros Hwf Hd. apply not_true_iff_false. intros Hc. apply (atsp_checker_sound i acts Hwf) in Hc.
  apply visits_each_once_nodup in Hc as (_ & Hnd & _). apply NoDup_occ_le1 with (x := j) in Hnd. lia.
Qed.

Corollary atsp_checker_rejects_out_of_range i acts a : atsp_wf i -> In a acts -> (atsp_n i <= a)%nat -> atsp_checker i acts = false.
Proof.
  intros Hwf Ha Hge. apply not_true_iff_false. intros Hc. destruct (atsp_checker_sound i acts Hwf Hc) as [_ Hr].
  specialize (Hr a Ha). lia.
Qed.

(* the witness of the repaired defect (fix 5d5f57a; known_findings.json: fixed): 3 nodes, actions [1; 0] used to be
   accepted and is now rejected *)
Example atsp_checker_truncated_now_rejected :
  let i := {| agen_n := 3; acost := [[0; 3; 4]; [7; 0; 5]; [1; 2; 0]] |} in
  atsp_wfb i = true /\ sorted_is_arange [1; 0]%nat = true /\ atsp_checker i [1; 0]%nat = false /\ atsp_checker i [1; 0; 2]%nat = true.
Proof. vm_compute. auto. Qed.

(* unfolded forms used by the Properties files *)
Lemma atsp_mask_complete_unfolded :
  forall (i : atsp_inst) (acts : list nat),
    atsp_wf i ->
    (forall j, (j < atsp_n i)%nat -> occ j acts = 1%nat) -> (forall a, In a acts -> (a < atsp_n i)%nat) ->
    adm (E:=E) i acts = true /\ done E i (run (E:=E) i acts) = true.
Proof. intros i acts Hwf H1 H2. apply atsp_mask_complete; [exact Hwf | split; assumption]. Qed.

Lemma atsp_checker_complete_unfolded :
  forall (i : atsp_inst) (acts : list nat),
    atsp_wf i ->
    (forall j, (j < atsp_n i)%nat -> occ j acts = 1%nat) -> (forall a, In a acts -> (a < atsp_n i)%nat) ->
    atsp_checker i acts = true.
Proof. intros i acts Hwf H1 H2. apply (atsp_checker_complete i acts Hwf). split; assumption. Qed.

Lemma closed_len_three (d : nat -> nat -> Z) (a b c : nat) : closed_len d [a; b; c] = d a b + d b c + d c a.
Proof. cbn. lia. Qed.

(* ================================================================ C02, batch corollary: the decoding loop *)
From RL4CO Require Import Env.FixedLenLoop.

Theorem atsp_rollout_terminates (choose : nat -> atsp_inst * atsp_st -> nat) :
  (forall t i s, anyb (mask E i s) = true -> offered (E:=E) i s (choose t (i, s)) = true) ->
  forall (insts : list atsp_inst) (B extra : nat),
    insts <> [] -> (forall i, In i insts -> atsp_wf i /\ atsp_n i = B) ->
    loop E choose (B + extra) (map (fun i => (i, reset E i)) insts) 0 = Some B.
Proof.
  intros Hch insts B extra Hne Hall.
  apply (loop_terminates E atsp_wf atsp_n); try assumption.
  - intros i p [Hn _] Ha. apply atsp_done_iff; assumption.
  - intros i p Hwf Ha Hd. apply atsp_no_dead_end; assumption.
Qed.
