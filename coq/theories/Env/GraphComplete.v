(* C05 / unit graph -- the masks of FLPEnv and MCPEnv never hide a feasible selection.

   The models are those of C08 (Env/FLP.v, Env/MCP.v, Env/Selection.v; imported, not edited).
   Problem definition (independent of the env bookkeeping):
     FLP : a solution is a set of exactly [to_choose] distinct locations; objective = - sum over points of the
           distance to the nearest chosen location;
     MCP : a solution is a set of exactly [n_sets_to_choose] distinct sets; objective = total weight of the items
           covered by at least one chosen set.
   A solution given as a list, in ANY order, is (1) admitted by the mask at every step, (2) done exactly at its
   end and not before, (3) rewarded with the objective of the set; the objective does not depend on the order.
   Together with the soundness direction (C08: every mask-confined episode is such a list) the mask-reachable
   complete episodes are exactly the orderings of the feasible sets, so the best reachable reward is the
   optimum over all subsets of size k.  All statements are for every number of items and every quota. *)
From Coq Require Import ZArith List Bool Lia ZifyBool Arith Permutation.
From RL4CO Require Import Env.Selection Env.FLP Env.MCP.
Import ListNotations.
Open Scope Z_scope.

(* ------------------------------------------------------------------ the shared core: completeness of "mask = allowed minus chosen" *)
Section SelComplete.
  Variables (inst st : Type).
  Variable wf : inst -> Prop.
  Variable reset : inst -> st.
  Variable step : inst -> st -> nat -> option st.
  Variable mask : st -> list bool.
  Variable cnt : st -> Z.
  Variable done : st -> bool.
  Variable quota : inst -> Z.
  Variable mask0 : inst -> list bool.
  Variable inv : inst -> st -> Prop.

  Hypothesis reset_ok : forall I, wf I ->
    inv I (reset I) /\ mask (reset I) = mask0 I /\ cnt (reset I) = 0 /\ done (reset I) = false.
  Hypothesis step_ok : forall I s a, wf I -> inv I s -> (a < length (mask s))%nat ->
    exists s', step I s a = Some s' /\ inv I s' /\ mask s' = set_nth a false (mask s) /\
               cnt s' = cnt s + 1 /\ done s' = (quota I - 1 <=? cnt s).

  (* distinct items that are all still offered can be taken one after the other, in the given order *)
  Lemma sel_complete_from I : wf I -> forall as_ s0, inv I s0 -> NoDup as_ ->
    Forall (fun a => nth a (mask s0) false = true) as_ ->
    exists s, run_adm (step I) mask s0 as_ = Some s.
  Proof.
    intros Hwf as_. induction as_ as [|a r IH]; intros s0 Hinv Hnd Hall.
    - exists s0. reflexivity.
    - inversion Hnd as [|? ? Hnin Hnd']; subst. inversion Hall as [|? ? Ha Hall']; subst.
      cbn [run_adm]. rewrite Ha.
      destruct (step_ok I s0 a Hwf Hinv (nth_true_lt _ _ Ha)) as [s1 [Hs [Hinv1 [Hm1 _]]]].
      rewrite Hs. apply IH; [exact Hinv1 | exact Hnd' |].
      rewrite Forall_forall in *. intros x Hx. rewrite Hm1, nth_set_nth.
      destruct (Nat.eqb x a) eqn:E.
      + apply Nat.eqb_eq in E. subst x. contradiction.
      + cbn [andb]. apply Hall'. exact Hx.
  Qed.

  Theorem sel_complete I as_ : wf I -> NoDup as_ -> Forall (fun a => nth a (mask0 I) false = true) as_ ->
    exists s, run_adm (step I) mask (reset I) as_ = Some s.
  Proof.
    intros Hwf Hnd Hall. destruct (reset_ok I Hwf) as [Hinv [Hm _]].
    apply sel_complete_from; [exact Hwf | exact Hinv | exact Hnd | rewrite Hm; exact Hall].
  Qed.
End SelComplete.

(* ------------------------------------------------------------------ FLP *)
(* problem data only: a feasible solution and its objective *)
Definition flp_feasible (I : flp_inst) (as_ : list nat) : Prop :=
  NoDup as_ /\ Forall (fun a => (a < f_n I)%nat) as_ /\ Z.of_nat (length as_) = f_q I.
Definition flp_objective (I : flp_inst) (as_ : list nat) : Z :=
  - sumZ (map (spec_mindist I as_) (seq 0 (f_n I))).
(* "complete episode": runs inside the mask, done at its end, not done at any proper non-empty prefix *)
Definition flp_complete_episode (I : flp_inst) (as_ : list nat) (s : flp_st) : Prop :=
  flp_run I (flp_reset I) as_ = Some s /\ f_done s = true /\
  (forall k s', (0 < k < length as_)%nat -> flp_run I (flp_reset I) (firstn k as_) = Some s' -> f_done s' = false).

Lemma flp_range_allowed I as_ :
  Forall (fun a => (a < f_n I)%nat) as_ -> Forall (fun a => nth a (flp_mask0 I) false = true) as_.
Proof. apply Forall_impl. intros a H. unfold flp_mask0. apply nth_repeat_lt. exact H. Qed.

Theorem flp_mask_complete I as_ : flp_wf I -> flp_feasible I as_ ->
  exists s, flp_complete_episode I as_ s /\ flp_reward I s = Some (flp_objective I as_).
Proof.
  intros Hwf [Hnd [Hrng Hlen]].
  destruct (sel_complete flp_inst flp_st flp_wf flp_reset flp_step f_mask f_i f_done f_q flp_mask0 flp_inv
              flp_reset_ok flp_step_ok I as_ Hwf Hnd (flp_range_allowed I as_ Hrng)) as [s Hrun].
  fold (flp_run I) in Hrun. exists s.
  pose proof (flp_wf_quota I Hwf) as Hq1.
  assert (Hne : as_ <> []) by (intros ->; simpl in Hlen; lia).
  split; [split; [exact Hrun | split]|].
  - rewrite (flp_done_iff I as_ s Hwf Hrun). apply andb_true_intro. split.
    + destruct as_; [congruence | reflexivity].
    + apply Z.leb_le. lia.
  - intros k s' Hk Hrun'. rewrite (flp_done_iff I _ s' Hwf Hrun'). rewrite firstn_length.
    apply andb_false_intro2. apply Z.leb_gt. lia.
  - destruct (flp_bookkeeping I as_ s Hwf (run_adm_run_all _ _ _ _ _ Hrun) Hne) as [_ [_ [Hd Hr]]].
    rewrite Hr, Hd. reflexivity.
Qed.

(* the same with the definitions spelled out (the form Properties/C05_graph.v shows) *)
Theorem flp_mask_complete_unfolded :
  forall (I : flp_inst) (as_ : list nat),
    flp_wf I ->
    NoDup as_ -> Forall (fun a => (a < f_n I)%nat) as_ -> Z.of_nat (length as_) = f_q I ->
    exists s : flp_st,
      flp_run I (flp_reset I) as_ = Some s /\ f_done s = true /\
      (forall k s', (0 < k < length as_)%nat -> flp_run I (flp_reset I) (firstn k as_) = Some s' -> f_done s' = false) /\
      flp_reward I s = Some (- sumZ (map (spec_mindist I as_) (seq 0 (f_n I)))).
Proof.
  intros I as_ Hwf H1 H2 H3. destruct (flp_mask_complete I as_ Hwf (conj H1 (conj H2 H3))) as [s [[Ha [Hb Hc]] Hd]].
  exists s. exact (conj Ha (conj Hb (conj Hc Hd))).
Qed.

(* the objective is a function of the SET of chosen locations *)
Lemma spec_mindist_set I as_ bs p : as_ <> [] -> (forall a, In a as_ <-> In a bs) ->
  spec_mindist I as_ p = spec_mindist I bs p.
Proof.
  intros Hne Hiff. destruct as_ as [|a r]; [congruence|]. destruct bs as [|b r'].
  - exfalso. apply (proj1 (Hiff a)). left. reflexivity.
  - apply (is_min_unique I (a :: r) p); [apply spec_mindist_is_min|].
    destruct (spec_mindist_is_min I b r' p) as [[c [Hc Ec]] Hle]. split.
    + exists c. split; [apply Hiff; exact Hc | exact Ec].
    + intros x Hx. apply Hle. apply Hiff. exact Hx.
Qed.

Theorem flp_order_irrelevant I as_ bs : Permutation as_ bs -> flp_objective I as_ = flp_objective I bs.
Proof.
  intros HP. unfold flp_objective. f_equal. f_equal. apply map_ext. intros p.
  destruct as_ as [|a r].
  - apply Permutation_nil in HP. subst. reflexivity.
  - apply spec_mindist_set; [discriminate|]. intros x. split; intros H.
    + apply (Permutation_in _ HP H).
    + apply (Permutation_in _ (Permutation_sym HP) H).
Qed.

Lemma flp_feasible_perm I as_ bs : Permutation as_ bs -> flp_feasible I as_ -> flp_feasible I bs.
Proof.
  intros HP [Hnd [Hr Hl]]. split; [|split].
  - apply (Permutation_NoDup HP Hnd).
  - apply (Permutation_Forall HP Hr).
  - rewrite <- (Permutation_length HP). exact Hl.
Qed.

(* the complete mask-confined episodes are exactly the orderings of the feasible sets (-> is C08's quota theorem) *)
Theorem flp_reachable_iff_feasible I as_ : flp_wf I ->
  ((exists s, flp_complete_episode I as_ s) <-> flp_feasible I as_).
Proof.
  intros Hwf. split.
  - intros [s [Hrun [Hd Hfirst]]]. destruct (flp_sel_quota I as_ s Hwf Hrun Hd Hfirst) as [H1 [H2 H3]].
    split; [exact H2 | split; [exact H3 | exact H1]].
  - intros Hf. destruct (flp_mask_complete I as_ Hwf Hf) as [s [Hc _]]. exists s. exact Hc.
Qed.

(* every feasible set X, in every order, is a complete episode whose reward is the objective of X: nothing the
   problem allows is hidden and the optimum over all subsets of size k is among the reachable rewards *)
Theorem flp_optimum_reachable I X : flp_wf I -> flp_feasible I X ->
  forall as_, Permutation X as_ ->
  exists s, flp_complete_episode I as_ s /\ flp_reward I s = Some (flp_objective I X).
Proof.
  intros Hwf Hf as_ HP.
  destruct (flp_mask_complete I as_ Hwf (flp_feasible_perm I X as_ HP Hf)) as [s [Hc Hr]].
  exists s. split; [exact Hc|]. rewrite Hr. f_equal. symmetry. apply flp_order_irrelevant. exact HP.
Qed.

(* and no reachable reward is anything else *)
Theorem flp_reachable_reward_is_objective I as_ s : flp_wf I -> flp_complete_episode I as_ s ->
  flp_feasible I as_ /\ flp_reward I s = Some (flp_objective I as_).
Proof.
  intros Hwf Hc. assert (Hf : flp_feasible I as_) by (apply (flp_reachable_iff_feasible I as_ Hwf); exists s; exact Hc).
  split; [exact Hf|]. destruct (flp_mask_complete I as_ Hwf Hf) as [s' [[Hrun' _] Hr]].
  destruct Hc as [Hrun _]. rewrite Hrun in Hrun'. injection Hrun' as <-. exact Hr.
Qed.

(* ------------------------------------------------------------------ MCP *)
Definition mcp_feasible (I : mcp_inst) (as_ : list nat) : Prop :=
  NoDup as_ /\ Forall (fun a => (a < length (m_mem I))%nat) as_ /\ Z.of_nat (length as_) = m_q I.
Definition mcp_objective (I : mcp_inst) (as_ : list nat) : Z :=
  sumZ (map (fun j => if coveredb (m_mem I) as_ j then nth j (m_w I) 0 else 0) (seq 0 (length (m_w I)))).
Definition mcp_complete_episode (I : mcp_inst) (as_ : list nat) (s : mcp_st) : Prop :=
  mcp_run I (mcp_reset I) as_ = Some s /\ m_done s = true /\
  (forall k s', (0 < k < length as_)%nat -> mcp_run I (mcp_reset I) (firstn k as_) = Some s' -> m_done s' = false).

Lemma mcp_range_allowed I as_ :
  Forall (fun a => (a < length (m_mem I))%nat) as_ -> Forall (fun a => nth a (mcp_mask0 I) false = true) as_.
Proof. apply Forall_impl. intros a H. unfold mcp_mask0. apply nth_repeat_lt. exact H. Qed.

Theorem mcp_mask_complete I as_ : mcp_wf I -> mcp_feasible I as_ ->
  exists s, mcp_complete_episode I as_ s /\ mcp_reward I s = Some (mcp_objective I as_).
Proof.
  intros Hwf [Hnd [Hrng Hlen]].
  destruct (sel_complete mcp_inst mcp_st mcp_wf mcp_reset mcp_step m_mask m_i m_done m_q mcp_mask0 mcp_inv
              mcp_reset_ok mcp_step_ok I as_ Hwf Hnd (mcp_range_allowed I as_ Hrng)) as [s Hrun].
  fold (mcp_run I) in Hrun. exists s.
  pose proof (mcp_wf_quota I Hwf) as Hq1.
  split; [split; [exact Hrun | split]|].
  - rewrite (mcp_done_iff I as_ s Hwf Hrun). apply andb_true_intro. split.
    + destruct as_; [simpl in Hlen; lia | reflexivity].
    + apply Z.leb_le. lia.
  - intros k s' Hk Hrun'. rewrite (mcp_done_iff I _ s' Hwf Hrun'). rewrite firstn_length.
    apply andb_false_intro2. apply Z.leb_gt. lia.
  - destruct (mcp_bookkeeping I as_ s Hwf (run_adm_run_all _ _ _ _ _ Hrun)) as [_ [_ [_ Hr]]]. exact Hr.
Qed.

Theorem mcp_mask_complete_unfolded :
  forall (I : mcp_inst) (as_ : list nat),
    mcp_wf I ->
    NoDup as_ -> Forall (fun a => (a < length (m_mem I))%nat) as_ -> Z.of_nat (length as_) = m_q I ->
    exists s : mcp_st,
      mcp_run I (mcp_reset I) as_ = Some s /\ m_done s = true /\
      (forall k s', (0 < k < length as_)%nat -> mcp_run I (mcp_reset I) (firstn k as_) = Some s' -> m_done s' = false) /\
      mcp_reward I s =
        Some (sumZ (map (fun j => if coveredb (m_mem I) as_ j then nth j (m_w I) 0 else 0) (seq 0 (length (m_w I))))).
Proof.
  intros I as_ Hwf H1 H2 H3. destruct (mcp_mask_complete I as_ Hwf (conj H1 (conj H2 H3))) as [s [[Ha [Hb Hc]] Hd]].
  exists s. exact (conj Ha (conj Hb (conj Hc Hd))).
Qed.

Lemma coveredb_set mem as_ bs j : (forall a, In a as_ <-> In a bs) -> coveredb mem as_ j = coveredb mem bs j.
Proof.
  intros Hiff. apply Bool.eq_iff_eq_true. rewrite !coveredb_iff. unfold covered.
  split; intros [a [Ha H]]; exists a; (split; [apply Hiff; exact Ha | exact H]).
Qed.

Theorem mcp_order_irrelevant I as_ bs : Permutation as_ bs -> mcp_objective I as_ = mcp_objective I bs.
Proof.
  intros HP. unfold mcp_objective. f_equal. apply map_ext. intros j.
  rewrite (coveredb_set (m_mem I) as_ bs j); [reflexivity|].
  intros x. split; intros H; [apply (Permutation_in _ HP H) | apply (Permutation_in _ (Permutation_sym HP) H)].
Qed.

Lemma mcp_feasible_perm I as_ bs : Permutation as_ bs -> mcp_feasible I as_ -> mcp_feasible I bs.
Proof.
  intros HP [Hnd [Hr Hl]]. split; [|split].
  - apply (Permutation_NoDup HP Hnd).
  - apply (Permutation_Forall HP Hr).
  - rewrite <- (Permutation_length HP). exact Hl.
Qed.

Theorem mcp_reachable_iff_feasible I as_ : mcp_wf I ->
  ((exists s, mcp_complete_episode I as_ s) <-> mcp_feasible I as_).
Proof.
  intros Hwf. split.
  - intros [s [Hrun [Hd Hfirst]]]. destruct (mcp_sel_quota I as_ s Hwf Hrun Hd Hfirst) as [H1 [H2 H3]].
    split; [exact H2 | split; [exact H3 | exact H1]].
  - intros Hf. destruct (mcp_mask_complete I as_ Hwf Hf) as [s [Hc _]]. exists s. exact Hc.
Qed.

Theorem mcp_optimum_reachable I X : mcp_wf I -> mcp_feasible I X ->
  forall as_, Permutation X as_ ->
  exists s, mcp_complete_episode I as_ s /\ mcp_reward I s = Some (mcp_objective I X).
Proof.
  intros Hwf Hf as_ HP.
  destruct (mcp_mask_complete I as_ Hwf (mcp_feasible_perm I X as_ HP Hf)) as [s [Hc Hr]].
  exists s. split; [exact Hc|]. rewrite Hr. f_equal. symmetry. apply mcp_order_irrelevant. exact HP.
Qed.

Theorem mcp_reachable_reward_is_objective I as_ s : mcp_wf I -> mcp_complete_episode I as_ s ->
  mcp_feasible I as_ /\ mcp_reward I s = Some (mcp_objective I as_).
Proof.
  intros Hwf Hc. assert (Hf : mcp_feasible I as_) by (apply (mcp_reachable_iff_feasible I as_ Hwf); exists s; exact Hc).
  split; [exact Hf|]. destruct (mcp_mask_complete I as_ Hwf Hf) as [s' [[Hrun' _] Hr]].
  destruct Hc as [Hrun _]. rewrite Hrun in Hrun'. injection Hrun' as <-. exact Hr.
Qed.

(* ------------------------------------------------------------------ non-vacuity *)
(* flp_ex: 4 points on a line, quota 2: the set {1,3} in both orders, reward -9 = objective *)
Example flp_complete_ex :
  flp_wf flp_ex /\ flp_feasible flp_ex [3; 1]%nat /\ flp_feasible flp_ex [1; 3]%nat /\
  flp_objective flp_ex [3; 1]%nat = -9 /\ flp_objective flp_ex [1; 3]%nat = -9 /\
  option_map (flp_reward flp_ex) (flp_run flp_ex (flp_reset flp_ex) [1; 3]%nat) = Some (Some (-9)).
Proof.
  split; [reflexivity|]. split; [|split].
  - split; [repeat constructor; simpl; intuition lia | split; [repeat constructor | reflexivity]].
  - split; [repeat constructor; simpl; intuition lia | split; [repeat constructor | reflexivity]].
  - vm_compute. repeat split; reflexivity.
Qed.
(* mcp_ex: sets 0 and 3 (overlapping in item 5), quota 2, in both orders: coverage 10 + 50 + 60 = 120 *)
Example mcp_complete_ex :
  mcp_wf mcp_ex /\ mcp_feasible mcp_ex [3; 0]%nat /\ mcp_objective mcp_ex [3; 0]%nat = 120 /\
  mcp_objective mcp_ex [0; 3]%nat = 120 /\
  option_map (mcp_reward mcp_ex) (mcp_run mcp_ex (mcp_reset mcp_ex) [3; 0]%nat) = Some (Some 120).
Proof.
  split; [reflexivity|]. split.
  - split; [repeat constructor; simpl; intuition lia | split; [repeat constructor | reflexivity]].
  - vm_compute. repeat split; reflexivity.
Qed.
