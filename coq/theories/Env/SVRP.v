(* SVRPEnv (rl4co/envs/routing/svrp/env.py), one batch row, bookkeeping variable by variable.
   Node 0 is the depot, customers are 1..n; technician k (0-based) leaves at the k-th depot visit.

   The switch [fx : bool] selects the behaviour at the three places where the code indexes by "number of depot visits":
     fx = false   the code as it is: td["current_tech"] += (action == 0) without bound; gather_by_index(techs,
                  current_tech) inside get_action_mask, self.tech_costs[tech] inside _get_reward and
                  td["techs"][batch, tech] inside check_solution_validity raise once the index reaches the
                  number of technicians.  A raise is [stepok = false] / [None].
     fx = true    the repaired behaviour (index clamped to the last technician at these three places; fix 9849631).
   The checker additionally refuses customers after m or more depot visits (fix 335bbfb) -- for fx = false this adds
   nothing, the index raises there.
   [svrp_repaired] below says which of the two the correspondence check runs against the current source tree. *)
From Coq Require Import ZArith List Bool Lia ZifyBool Arith.
From RL4CO Require Import Base.Num Base.EnvSig Base.SortNat.
Import ListNotations.
Open Scope Z_scope.

Record svrp_inst := {
  techs : list Z;          (* td["techs"][:, :, 0]: skill level of technician 0, 1, ... *)
  skills : list Z;         (* td["skills"][:, :, 0]: skill required by customer 1, 2, ... *)
  tcosts : list Z;         (* env.tech_costs: travel cost factor of technician 0, 1, ... *)
  sdist : list (list Z);   (* pairwise distances of td["locs"] (depot first), used by the reward only *)
}.
Definition sn_of (i : svrp_inst) : nat := length (skills i).
Definition sm_of (i : svrp_inst) : nat := length (techs i).
Definition sskill (i : svrp_inst) (j : nat) : Z := nth (j - 1) (skills i) 0.     (* customer j >= 1 *)
Definition tskill (i : svrp_inst) (k : nat) : Z := nth k (techs i) 0.
Definition sdfun (i : svrp_inst) (a b : nat) : Z := mget (sdist i) a b.

Record svrp_st := { scur : nat; stech : nat; svis : list bool }.

Section Model.
  Variable fx : bool.

  (* the index actually used for a technician-indexed tensor of size m; None = out of range, torch raises *)
  Definition tidx (m k : nat) : option nat :=
    if fx then (if Nat.ltb 0 m then Some (Nat.min k (m - 1)) else None)
    else (if Nat.ltb k m then Some k else None).

  Definition svrp_reset (i : svrp_inst) : svrp_st :=
    {| scur := 0; stech := 0; svis := repeat false (S (sn_of i)) |}.

  (* td["current_tech"] += (current_node == 0).int() *)
  Definition next_tech (i : svrp_inst) (s : svrp_st) (a : nat) : nat :=
    if Nat.eqb a 0 then (if fx then Nat.min (S (stech s)) (sm_of i - 1) else S (stech s)) else stech s.

  Definition svrp_step (i : svrp_inst) (s : svrp_st) (a : nat) : svrp_st :=
    {| scur := a; stech := next_tech i s a; svis := set_nth a true (svis s) |}.

  (* the scatter index must be inside visited, and the mask computed at the end of _step gathers techs at the NEW
     current_tech *)
  Definition svrp_stepok (i : svrp_inst) (s : svrp_st) (a : nat) : bool :=
    Nat.leb a (sn_of i) && Nat.ltb (next_tech i s a) (sm_of i).

  Definition svrp_done (i : svrp_inst) (s : svrp_st) : bool := allb (svis s).    (* visited.sum(-2) == visited.size(-2) *)

  (* True = masked out, as in the code, before the final negation *)
  Definition can_service (i : svrp_inst) (s : svrp_st) (j : nat) : bool := sskill i j <=? tskill i (stech s).
  Definition smask_loc (i : svrp_inst) (s : svrp_st) (j : nat) : bool := nth j (svis s) false || negb (can_service i s j).
  Definition slocs (i : svrp_inst) : list nat := seq 1 (sn_of i).
  Definition smask_depot (i : svrp_inst) (s : svrp_st) : bool :=
    (Nat.eqb (scur s) 0 || Nat.eqb (stech s) (sm_of i - 1)) && existsb (fun j => negb (smask_loc i s j)) (slocs i).
  (* a state whose current_tech is out of range has no mask: the real code raised before producing it *)
  Definition svrp_mask (i : svrp_inst) (s : svrp_st) : list bool :=
    if Nat.ltb (stech s) (sm_of i)
    then negb (smask_depot i s) :: map (fun j => negb (smask_loc i s j)) (slocs i)
    else [].

  Definition SVRP : Env := {|
    inst := svrp_inst; st := svrp_st;
    reset := svrp_reset; step := svrp_step; stepok := svrp_stepok; mask := svrp_mask; done := svrp_done |}.

  (* _get_reward, per row: the leg from position p to p+1 of depot :: actions (cyclically) is charged
     tech_costs[number of depot visits among the first p actions]; None = tech_costs indexed out of range.
     (The loop over torch.nonzero(actions == 0) runs across the rows of the batch; a row WITHOUT any depot visit is
     skipped by it -- its costs stay 0 unless it is row 0 -- which no completed episode is.) *)
  Definition tcost (i : svrp_inst) (k : nat) : option Z :=
    match tidx (length (tcosts i)) k with Some q => Some (nth q (tcosts i) 0) | None => None end.
  Fixpoint legs (i : svrp_inst) (from tech : nat) (acts : list nat) : option Z :=
    match tcost i tech with
    | None => None
    | Some c =>
        match acts with
        | [] => Some (c * sdfun i from 0%nat)
        | a :: r =>
            match legs i a (if Nat.eqb a 0 then S tech else tech) r with
            | Some rest => Some (c * sdfun i from a + rest)
            | None => None
            end
        end
    end.
  Definition svrp_reward (i : svrp_inst) (acts : list nat) : option Z :=
    match legs i 0%nat 0%nat acts with Some v => Some (- v) | None => None end.

  (* check_solution_validity: sorted actions = zeros ++ [1..n]; then, at every depot visit, the customers since the
     previous one: they must be none once as many depot visits as technicians have gone by ("More routes than
     technicians", fix 335bbfb; in the unrepaired code the technician index raises there anyway), and within the skill of
     technician 0, 1, ...  The customers after the LAST depot visit are not looked at. *)
  Definition ssorted_ok (i : svrp_inst) (acts : list nat) : bool :=
    let n := sn_of i in
    let s := sort_nat acts in
    Nat.leb n (length acts) &&
    forallb (Nat.eqb 0) (firstn (length acts - n) s) &&
    (if list_eq_dec Nat.eq_dec (skipn (length acts - n) s) (seq 1 n) then true else false).
  Fixpoint skill_loop (i : svrp_inst) (tech : nat) (seg : list nat) (acts : list nat) : bool :=
    match acts with
    | [] => true
    | a :: r =>
        if Nat.eqb a 0
        then match tidx (sm_of i) tech with
             | None => false                                      (* td["techs"][batch, tech] raises IndexError *)
             | Some q =>
                 (Nat.ltb tech (sm_of i) || match seg with [] => true | _ => false end) &&   (* tech < m or each[1] == start *)
                 forallb (fun j => sskill i j <=? tskill i q) seg && skill_loop i (S tech) [] r
             end
        else skill_loop i tech (a :: seg) r
    end.
  Definition svrp_checker (i : svrp_inst) (acts : list nat) : bool := ssorted_ok i acts && skill_loop i 0 [] acts.
End Model.

(* which behaviour the current source tree has; flipped to [true] together with the fix in /repo *)
Definition svrp_repaired : bool := true.  (* /repo carries the SVRP "fix:" commit 9849631 since 2026-10-01 *)
